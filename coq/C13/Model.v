(* C13 — executable model of TrackerController + TrackerList + TrackerState timing + the
   scheduler effect of update_timeout, as the code is in /repo (src/tracker/tracker_controller.cc,
   src/tracker/tracker_list.cc, src/torrent/tracker/tracker_state.{h,cc}, src/torrent/tracker/tracker.cc).
   Definitions only. Tracker workers are the environment (ops Success / Failure / no reply).
   Follows /repo including the fix: commits d5b8825 (send_update_event carries the pending event),
   eed7d46 (only a success that carried the pending event clears it), b6c5394 and fabe449
   (min interval honoured by success_time_next and tracker_next_timeout_promiscuous).

   Time: [now] and the timer are absolute microseconds (cached_time); TrackerState times are
   absolute seconds (cached_seconds = now / 10^6). Counters are unbounded (uint32 in the code; a
   wrap needs 2^32 replies). Trackers may be inserted while running (OInsert). Scrapes are modelled
   (scrapable trackers, scrape_request, do_scrape, EVENT_SCRAPE as latest event). A reply may be split
   into its worker part and the main-thread callback (ODone / ODrain). The DHT tracker kind is not modelled,
   so latest_event is never EVENT_SCRAPE and is_requesting_not_scrape = is_requesting.
   internal_error throws in update_timeout / send_event / tracker_next_timeout_promiscuous are
   guarded by the callers' own tests and not modelled (the harness prints ERR:internal if hit). *)
From Coq Require Import List ZArith Bool Arith.
From LTV.C13 Require Import ParamsGen.
Import ListNotations.
Open Scope Z_scope.

Inductive event := EvNone | EvCompleted | EvStarted | EvStopped | EvScrape.

Definition event_eqb (a b : event) : bool :=
  match a, b with
  | EvNone, EvNone | EvCompleted, EvCompleted | EvStarted, EvStarted | EvStopped, EvStopped | EvScrape, EvScrape => true
  | _, _ => false
  end.

(* BEP 15 (UDP tracker protocol) announce event codes: 0 none, 1 completed, 2 started, 3 stopped.
   Fixed by the protocol, not taken from the source; TrackerUdp writes the raw enum value. *)
Definition wire_event (e : event) : Z :=
  match e with EvNone => 0 | EvCompleted => 1 | EvStarted => 2 | EvStopped => 3 | EvScrape => 4 end.

(* constants re-extracted from the sources on every run *)
Definition min_min := Params.trk_min_min_interval.
Definition max_min := Params.trk_max_min_interval.
Definition min_normal := Params.trk_min_normal_interval.
Definition max_normal := Params.trk_max_normal_interval.
Definition backoff_base := Params.trk_backoff_base.
Definition backoff_cap := Params.trk_backoff_shift_cap.
Definition promisc_floor := Params.trk_promisc_floor.
Definition start_promisc_timeout := Params.trk_start_promisc_timeout.
Definition requesting_success_timeout := Params.trk_requesting_success_timeout.
Definition uint32_max := 4294967295.
Definition usec := 1000000.

Record tracker := mkT {
  t_id : nat;          (* identity (insertion index); the list order changes by promote/cycle *)
  t_group : nat;
  t_en : bool;         (* TrackerState::flag_enabled *)
  t_busy : bool;       (* flag_requesting || flag_starting_request *)
  t_ev : event;        (* m_latest_event *)
  t_sc : Z;            (* success_counter *)
  t_fc : Z;            (* failed_counter *)
  t_stl : Z;           (* success_time_last (s) *)
  t_ftl : Z;           (* failed_time_last (s) *)
  t_ni : Z;            (* m_normal_interval (s) *)
  t_mi : Z;            (* m_min_interval (s) *)
  t_scr : bool;        (* TrackerState::flag_scrapable *)
  t_sct : Z            (* scrape_time_last (s) *)
}.

(* call site in TrackerController that handed the request to TrackerList::send_event *)
Inductive src := SrcStart | SrcStop | SrcCompleted | SrcUpdate | SrcTimer.

Record flags := mkF {
  f_update : bool; f_completed : bool; f_start : bool; f_stop : bool;
  f_active : bool; f_requesting : bool; f_failure : bool; f_promisc : bool
}.

(* A request as seen by the worker (time, tracker, event, figures, replaced-a-pending-one), plus
   ghost fields used only by the theorems (never printed): call site, the tracker's state as the
   call site saw it, the controller flags and the tracker list at that moment. *)
Record req := mkR {
  r_time : Z; r_id : nat; r_ev : event; r_up : Z; r_comp : Z; r_left : Z; r_repl : bool;
  r_src : src; r_pre : tracker; r_fl : flags; r_trs : list tracker
}.

Record state := mkS {
  trs : list tracker;      (* TrackerList, in list order *)
  fl : flags;              (* TrackerController::m_flags *)
  tmo : option Z;          (* m_task_timeout: scheduled time in us *)
  now : Z;                 (* cached_time in us *)
  s_up : Z; s_comp : Z; s_left : Z;   (* DownloadInfo figures (adjusted: total - baseline) *)
  log : list req;          (* ANNOUNCE requests handed to the workers, newest first *)
  tsc : option Z;          (* m_task_scrape: scheduled time in us *)
  slog : list (Z * tracker); (* scrape requests handed to the workers (time, tracker as seen then), newest first *)
  hint : list nat;         (* which trackers the implementation contacted in the op about to run (see [pick_hinted]) *)
  pend : option (nat * (bool * bool)); (* a worker's result callback queued for the main thread and not yet
                                 run: (tracker, (success?, scrape?)) -- at most one is kept queued *)
  pmark : nat              (* ghost: length of [log] when that callback was queued *)
}.

(* ---------------------------------------------------------------- TrackerState *)

Definition set_normal_interval (v : Z) : Z := Z.min (Z.max min_normal v) max_normal.
Definition set_min_interval (v : Z) : Z := Z.min (Z.max min_min v) max_min.

Definition success_time_next (t : tracker) : Z :=
  if t_sc t =? 0 then 0 else t_stl t + Z.max (Z.max (t_ni t) (t_mi t)) min_normal.

Definition backoff (fc : Z) : Z :=
  Z.min (Z.shiftl backoff_base (Z.min (fc - 1) backoff_cap)) min_min.

Definition failed_time_next (t : tracker) : Z :=
  if t_fc t =? 0 then Z.min (t_mi t) min_min
  else if min_min <? t_mi t then t_ftl t + t_mi t
  else t_ftl t + backoff (t_fc t).

Definition activity_time_last (t : tracker) : Z :=
  if negb (t_fc t =? 0) then t_ftl t else t_stl t.

Definition activity_time_next (t : tracker) : Z :=
  if negb (t_fc t =? 0) then failed_time_next t else success_time_next t.

Definition activity_time_next_minimum (t : tracker) : Z :=
  if negb (t_fc t =? 0) then failed_time_next t
  else if t_sc t =? 0 then 0
  else t_stl t + Z.max (t_mi t) min_min.

(* ---------------------------------------------------------------- tracker::Tracker *)

Definition is_usable (t : tracker) := t_en t.
Definition is_in_use (t : tracker) := t_en t && negb (t_sc t =? 0).
(* is_requesting_not_scrape: busy with an announce *)
Definition busy_ann (t : tracker) := t_busy t && negb (event_eqb (t_ev t) EvScrape).
(* a tracker in the middle of a SCRAPE can take an announce (it replaces the scrape) *)
Definition can_request_state (t : tracker) := t_en t && negb (busy_ann t).

Definition has_usable (l : list tracker) := existsb is_usable l.
Definition has_active (l : list tracker) := existsb t_busy l.

(* ---------------------------------------------------------------- list helpers *)

Fixpoint take_while {A} (p : A -> bool) (l : list A) : list A :=
  match l with [] => [] | x :: r => if p x then x :: take_while p r else [] end.
Fixpoint drop_while {A} (p : A -> bool) (l : list A) : list A :=
  match l with [] => [] | x :: r => if p x then drop_while p r else l end.

Definition upd (l : list tracker) (id : nat) (f : tracker -> tracker) : list tracker :=
  map (fun t => if Nat.eqb (t_id t) id then f t else t) l.

Definition find_id (l : list tracker) (id : nat) : option tracker :=
  find (fun t => Nat.eqb (t_id t) id) l.

(* index of the first element satisfying p (length if none) *)
Fixpoint index_of {A} (p : A -> bool) (l : list A) : nat :=
  match l with [] => O | x :: r => if p x then O else S (index_of p r) end.

Fixpoint set_nth {A} (n : nat) (x : A) (l : list A) : list A :=
  match l, n with
  | [], _ => []
  | _ :: r, O => x :: r
  | y :: r, S k => y :: set_nth k x r
  end.

Definition swap_nth {A} (i j : nat) (l : list A) : list A :=
  match nth_error l i, nth_error l j with
  | Some a, Some b => set_nth j a (set_nth i b l)
  | _, _ => l
  end.

(* begin_group(g): first tracker with g <= group *)
Definition begin_group_idx (g : nat) (l : list tracker) : nat :=
  index_of (fun t => Nat.leb g (t_group t)) l.

(* [begin_group(g), end_group(g)) as the code computes it from the list start *)
Definition group_range (g : nat) (l : list tracker) : list tracker :=
  take_while (fun t => Nat.ltb (t_group t) (S g)) (drop_while (fun t => Nat.ltb (t_group t) g) l).

Definition has_active_in_group (g : nat) (l : list tracker) := existsb t_busy (group_range g l).
(* has_active_not_scrape_in_group *)
Definition has_active_ann_in_group (g : nat) (l : list tracker) := existsb busy_ann (group_range g l).

(* TrackerList::insert: base_type::insert(end_group(group), tracker) *)
Definition insert_tracker (t : tracker) (l : list tracker) : list tracker :=
  take_while (fun x => Nat.ltb (t_group x) (S (t_group t))) l ++ t ::
  drop_while (fun x => Nat.ltb (t_group x) (S (t_group t))) l.

(* TrackerList::promote: iter_swap(begin_group(group), itr) *)
Definition promote (id : nat) (l : list tracker) : list tracker :=
  match find_id l id with
  | None => l
  | Some t => swap_nth (begin_group_idx (t_group t) l) (index_of (fun x => Nat.eqb (t_id x) id) l) l
  end.

(* TrackerList::cycle_group: rotate the run of trackers with group == g left by one *)
Definition cycle_group (g : nat) (l : list tracker) : list tracker :=
  let pre := take_while (fun t => negb (Nat.leb g (t_group t))) l in
  let rest := drop_while (fun t => negb (Nat.leb g (t_group t))) l in
  match rest with
  | [] => l
  | f :: _ =>
    if Nat.eqb (t_group f) g then
      let run := take_while (fun t => Nat.eqb (t_group t) g) rest in
      let post := drop_while (fun t => Nat.eqb (t_group t) g) rest in
      match run with
      | [] => l
      | h :: tl => pre ++ (tl ++ [h]) ++ post
      end
    else l
  end.

(* ---------------------------------------------------------------- scheduler effect *)

Definition now_s (s : state) : Z := now s / usec.

Definition ceil_seconds (t : Z) : Z := ((t + usec - 1) / usec) * usec.

Definition set_trs (s : state) l := mkS l (fl s) (tmo s) (now s) (s_up s) (s_comp s) (s_left s) (log s) (tsc s) (slog s) (hint s) (pend s) (pmark s).
Definition set_fl (s : state) f := mkS (trs s) f (tmo s) (now s) (s_up s) (s_comp s) (s_left s) (log s) (tsc s) (slog s) (hint s) (pend s) (pmark s).
Definition set_tmo (s : state) t := mkS (trs s) (fl s) t (now s) (s_up s) (s_comp s) (s_left s) (log s) (tsc s) (slog s) (hint s) (pend s) (pmark s).
Definition set_now (s : state) n := mkS (trs s) (fl s) (tmo s) n (s_up s) (s_comp s) (s_left s) (log s) (tsc s) (slog s) (hint s) (pend s) (pmark s).
Definition set_figs (s : state) up comp lft := mkS (trs s) (fl s) (tmo s) (now s) up comp lft (log s) (tsc s) (slog s) (hint s) (pend s) (pmark s).
Definition set_tsc (s : state) t := mkS (trs s) (fl s) (tmo s) (now s) (s_up s) (s_comp s) (s_left s) (log s) t (slog s) (hint s) (pend s) (pmark s).
Definition set_pend (s : state) p := mkS (trs s) (fl s) (tmo s) (now s) (s_up s) (s_comp s) (s_left s) (log s) (tsc s) (slog s) (hint s) p (pmark s).
Definition set_pmark (s : state) m := mkS (trs s) (fl s) (tmo s) (now s) (s_up s) (s_comp s) (s_left s) (log s) (tsc s) (slog s) (hint s) (pend s) m.
Definition set_hint (s : state) h := mkS (trs s) (fl s) (tmo s) (now s) (s_up s) (s_comp s) (s_left s) (log s) (tsc s) (slog s) h (pend s) (pmark s).

(* TrackerController::update_timeout(seconds) *)
Definition update_timeout (sec : Z) (s : state) : state :=
  if sec =? 0 then set_tmo s (Some (now s))
  else set_tmo s (Some (ceil_seconds (now s + sec * usec))).

Definition erase_timeout (s : state) : state := set_tmo s None.

(* ---------------------------------------------------------------- flags *)

Definition mask_send (f : flags) : bool := f_update f || f_completed f || f_start f || f_stop f.

Definition clear_mask (f : flags) : flags :=
  mkF false false false false (f_active f) (f_requesting f) (f_failure f) (f_promisc f).

Definition current_send_event (f : flags) : event :=
  match f_update f, f_completed f, f_start f, f_stop f with
  | false, false, true, false => EvStarted
  | false, false, false, true => EvStopped
  | false, true, false, false => EvCompleted
  | _, _, _, _ => EvNone
  end.

(* ---------------------------------------------------------------- TrackerList::send_event *)

(* [t] is the tracker as the caller's iterator sees it (the code passes the handle; ids are unique
   and nothing touches that tracker between the caller's look and this call). *)
Definition send_event (sr : src) (t : tracker) (ev : event) (s : state) : state :=
  (* "if (find(tracker) == end()) throw internal_error(...)": the tracker must be in the list *)
  if negb (existsb (Nat.eqb (t_id t)) (map t_id (trs s))) then s
  else if negb (is_usable t) then s
  else if t_busy t && (event_eqb (t_ev t) ev || (negb (event_eqb (t_ev t) EvScrape) && event_eqb ev EvNone)) then s
  else
    (* Manager::send_event -> tracker thread: mark_starting_request; worker->send_event, whose first act
       (close_directly -> remove_events) cancels a result callback of this tracker still queued for main *)
    mkS (upd (trs s) (t_id t) (fun x => mkT (t_id x) (t_group x) (t_en x) true ev (t_sc x) (t_fc x) (t_stl x) (t_ftl x) (t_ni x) (t_mi x) (t_scr x) (t_sct x)))
        (fl s) (tmo s) (now s) (s_up s) (s_comp s) (s_left s)
        (mkR (now s) (t_id t) ev (Z.max (s_up s) 0) (Z.max (s_comp s) 0) (s_left s) (t_busy t) sr t (fl s) (trs s) :: log s)
        (tsc s) (slog s)
        (match hint s with h :: r => if Nat.eqb h (t_id t) then r else hint s | [] => [] end)
        (match pend s with Some (i, _) => if Nat.eqb i (t_id t) then None else pend s | None => None end)
        (pmark s).

(* ---------------------------------------------------------------- controller *)

(* TrackerController::close() *)
Definition ctl_close (s : state) : state :=
  let f := fl s in
  erase_timeout (set_fl s (mkF (f_update f) (f_completed f) (f_start f) (f_stop f) (f_active f) false (f_failure f) false)).

Definition set_promisc (s : state) : state :=
  let f := fl s in
  set_fl s (mkF (f_update f) (f_completed f) (f_start f) (f_stop f) (f_active f) (f_requesting f) (f_failure f) true).

Definition send_start_event (s : state) : state :=
  let f := clear_mask (fl s) in
  let s := set_fl s (mkF false false true false (f_active f) (f_requesting f) (f_failure f) (f_promisc f)) in
  if negb (f_active (fl s)) || negb (has_usable (trs s)) then s
  else
    let s := ctl_close s in
    match filter is_usable (trs s) with
    | [] => s
    | a :: rest =>
      let s := send_event SrcStart a EvStarted s in
      match rest with
      | [] => s
      | _ :: _ => update_timeout start_promisc_timeout (set_promisc s)
      end
    end.

Definition send_to_in_use (sr : src) (ev : event) (s : state) : state :=
  fold_left (fun s t => send_event sr t ev s) (filter is_in_use (trs s)) s.

Definition send_stop_event (s : state) : state :=
  let s := set_fl s (clear_mask (fl s)) in
  if negb (f_active (fl s)) || negb (has_usable (trs s)) then s
  else
    let f := fl s in
    let s := set_fl s (mkF (f_update f) (f_completed f) (f_start f) true (f_active f) (f_requesting f) (f_failure f) (f_promisc f)) in
    send_to_in_use SrcStop EvStopped (ctl_close s).

Definition send_completed_event (s : state) : state :=
  let f := clear_mask (fl s) in
  let s := set_fl s (mkF false true false false (f_active f) (f_requesting f) (f_failure f) (f_promisc f)) in
  if negb (f_active (fl s)) || negb (has_usable (trs s)) then s
  else send_to_in_use SrcCompleted EvCompleted (ctl_close s).

Definition send_update_event (s : state) : state :=
  if negb (f_active (fl s)) || negb (has_usable (trs s)) then s
  else if mask_send (fl s) && has_active (trs s) then s
  else
    let f := fl s in
    let s := if negb (mask_send f)
             then set_fl s (mkF true (f_completed f) (f_start f) (f_stop f) (f_active f) (f_requesting f) (f_failure f) (f_promisc f))
             else s in
    match filter is_usable (trs s) with
    | [] => s
    | a :: _ => send_event SrcUpdate a (current_send_event (fl s)) s
    end.

Definition manual_request (s : state) : state :=
  match tmo s with None => s | Some _ => send_update_event s end.

Definition clear_stats (l : list tracker) : list tracker :=
  map (fun x => mkT (t_id x) (t_group x) (t_en x) (t_busy x) (t_ev x) 0 0 (t_stl x) (t_ftl x) (t_ni x) (t_mi x) (t_scr x) (t_sct x)) l.

Definition ctl_enable (reset : bool) (s : state) : state :=
  if f_active (fl s) then s
  else
    let f := fl s in
    let s := set_fl s (mkF (f_update f) (f_completed f) (f_start f) false true (f_requesting f) (f_failure f) (f_promisc f)) in
    let s := if reset then set_trs s (clear_stats (trs s)) else s in
    update_timeout 0 s.

Definition ctl_disable (s : state) : state :=
  if negb (f_active (fl s)) then s
  else
    let f := fl s in
    erase_timeout (set_fl s (mkF (f_update f) (f_completed f) (f_start f) (f_stop f) false false (f_failure f) false)).

Definition start_requesting (s : state) : state :=
  if f_requesting (fl s) then s
  else
    let f := fl s in
    let s := set_fl s (mkF (f_update f) (f_completed f) (f_start f) (f_stop f) (f_active f) true (f_failure f) (f_promisc f)) in
    if f_active f then update_timeout 0 s else s.

Definition stop_requesting (s : state) : state :=
  if negb (f_requesting (fl s)) then s
  else
    let f := fl s in
    set_fl s (mkF (f_update f) (f_completed f) (f_start f) (f_stop f) (f_active f) false (f_failure f) (f_promisc f)).

(* tracker_next_timeout_promiscuous *)
Definition next_timeout_promiscuous (nows : Z) (t : tracker) : Z :=
  if busy_ann t || negb (is_usable t) then uint32_max
  else
    let interval := if negb (t_fc t =? 0) then failed_time_next t - t_ftl t else Z.max (t_ni t) (t_mi t) in
    let min_interval := Z.max (t_mi t) promisc_floor in
    let use_interval := Z.min interval min_interval in
    let since_last := nows - activity_time_last t in
    Z.max (use_interval - since_last) 0.

(* tracker_find_preferred: (preferred, preferred_time_last, next_timeout) *)
Fixpoint find_preferred (nows : Z) (seg : list tracker) (pref : option tracker) (ptl : Z) (next : Z)
  : option tracker * Z :=
  match seg with
  | [] => (pref, next)
  | t :: r =>
    let tt := next_timeout_promiscuous nows t in
    if negb (tt =? 0) then find_preferred nows r pref ptl (Z.min tt next)
    else if activity_time_last t <? ptl then find_preferred nows r (Some t) (activity_time_last t) next
    else find_preferred nows r pref ptl next
  end.

(* Which of several READY trackers of one tier is contacted in promiscuous / requesting mode is a
   tie-breaking policy the property leaves open (the code: least recent activity, then list order).
   The correspondence run tells the model which trackers the implementation contacted in this op
   ([hint], set by OHint: the trackers in the order the implementation contacted them; every send
   consumes the head when it goes to that tracker); if the head of the hint is a READY tracker of the
   tier it is taken, otherwise the code's default rule applies. The theorems hold for every hint. *)
Definition pick_hinted (hint : list nat) (nows : Z) (seg : list tracker) : option tracker :=
  match hint with
  | [] => None
  | h :: _ => find (fun t => (next_timeout_promiscuous nows t =? 0) && Nat.eqb (t_id t) h) seg
  end.

(* the promiscuous/requesting branch of do_timeout: walk the groups. [fuel] = length of the list. *)
Fixpoint timeout_groups (fuel : nat) (ev : event) (rest : list tracker) (next : Z) (s : state) : state * Z :=
  match fuel with
  | O => (s, next)
  | S fuel' =>
    match rest with
    | [] => (s, next)
    | itr :: _ =>
      let g := t_group itr in
      (* end_group(g): first tracker with g+1 <= group *)
      let seg := take_while (fun t => Nat.ltb (t_group t) (S g)) rest in
      let after := drop_while (fun t => Nat.ltb (t_group t) (S g)) rest in
      if has_active_ann_in_group g (trs s) then timeout_groups fuel' ev after next s
      else if negb (is_usable itr) || negb (t_fc itr =? 0) then
        let '(pref0, next') := find_preferred (now_s s) seg None uint32_max next in
        let pref := match pref0, pick_hinted (hint s) (now_s s) seg with
                    | Some _, Some h => Some h
                    | _, _ => pref0
                    end in
        match pref with
        | Some p => timeout_groups fuel' ev after next' (send_event SrcTimer p ev s)
        | None => timeout_groups fuel' ev after next' s
        end
      else
        let tt := next_timeout_promiscuous (now_s s) itr in
        if negb (tt =? 0) then timeout_groups fuel' ev after (Z.min tt next) s
        else timeout_groups fuel' ev after next (send_event SrcTimer itr ev s)
    end
  end.

(* TrackerList::find_next_to_request(begin()) *)
Fixpoint fntr_scan (pref : tracker) (l : list tracker) : tracker :=
  match l with
  | [] => pref
  | t :: r =>
    if negb (can_request_state t) then fntr_scan pref r
    else if negb (t_fc t =? 0) then
      if t_fc pref =? 0 then fntr_scan pref r
      else if failed_time_next t <? activity_time_next pref then fntr_scan t r
      else fntr_scan pref r
    else if activity_time_next t <? activity_time_next pref then fntr_scan t r
    else fntr_scan pref r
  end.

Definition find_next_to_request (l : list tracker) : option tracker :=
  match drop_while (fun t => negb (can_request_state t)) l with
  | [] => None
  | p :: r => if t_fc p =? 0 then Some p else Some (fntr_scan p r)
  end.

Definition do_timeout (s : state) : state :=
  let s := erase_timeout s in
  if negb (f_active (fl s)) || negb (has_usable (trs s)) then s
  else
    let ev := current_send_event (fl s) in
    if f_promisc (fl s) || f_requesting (fl s) then
      let '(s', next) := timeout_groups (length (trs s)) ev (trs s) uint32_max s in
      if negb (next =? uint32_max) then update_timeout next s' else s'
    else
      match find_next_to_request (trs s) with
      | None => s
      | Some t =>
        let next := activity_time_next t in
        if next <=? now_s s then send_event SrcTimer t ev s
        else update_timeout (next - now_s s) s
      end.

(* ---------------------------------------------------------------- replies (environment) *)

(* [latest] / [ni]: latest_event() and normal_interval() of the succeeding tracker (the code reads
   them through the handle it was given) *)
Definition ctl_receive_success (latest : event) (ni : Z) (s : state) : state :=
  if negb (f_active (fl s)) then s
  else
    let f := fl s in
    (* only a request that carried the pending event delivers it *)
    let f1 := if event_eqb latest (current_send_event f) then clear_mask f else f in
    let s := set_fl s (mkF (f_update f1) (f_completed f1) (f_start f1) (f_stop f1) (f_active f) (f_requesting f) false false) in
    if f_requesting f then update_timeout requesting_success_timeout s
    else if negb (has_active (trs s)) then update_timeout ni s
    else s.

(* A reply consists of a WORKER part (tracker thread: request finished, intervals taken from the reply
   through the clamping setters, result callback queued for the main thread) and a MAIN part (the
   callback: TrackerList::receive_success, receive_failed, receive_scrape_success, receive_scrape_failed). *)
Inductive reply := RSucc (iv mv : Z) | RFail (ivs : option (Z * Z)).

Definition reply_ok (r : reply) : bool := match r with RSucc _ _ => true | RFail _ => false end.

(* worker part; a scrape reply leaves the announce intervals alone *)
Definition worker_upd (r : reply) (x : tracker) : tracker :=
  if event_eqb (t_ev x) EvScrape
  then mkT (t_id x) (t_group x) (t_en x) false (t_ev x) (t_sc x) (t_fc x) (t_stl x) (t_ftl x) (t_ni x) (t_mi x) (t_scr x) (t_sct x)
  else match r with
       | RSucc iv mv =>
         mkT (t_id x) (t_group x) (t_en x) false (t_ev x) (t_sc x) (t_fc x) (t_stl x) (t_ftl x)
             (set_normal_interval iv) (set_min_interval mv) (t_scr x) (t_sct x)
       | RFail ivs =>
         mkT (t_id x) (t_group x) (t_en x) false (t_ev x) (t_sc x) (t_fc x) (t_stl x) (t_ftl x)
             (match ivs with Some (iv, _) => set_normal_interval iv | None => t_ni x end)
             (match ivs with Some (_, mv) => set_min_interval mv | None => t_mi x end) (t_scr x) (t_sct x)
       end.

(* TrackerList::receive_success: promote, add_success_request; TrackerController::receive_success reads
   latest_event() and normal_interval() through the tracker handle *)
Definition main_success (id : nat) (s : state) : state :=
  match find_id (trs s) id with
  | None => s
  | Some t =>
    let l := promote id (trs s) in
    let l := upd l id (fun x => mkT (t_id x) (t_group x) (t_en x) (t_busy x) (t_ev x) (t_sc x + 1) 0 (now_s s) (t_ftl x) (t_ni x) (t_mi x) (t_scr x) (t_sct x)) in
    ctl_receive_success (t_ev t) (t_ni t) (set_trs s l)
  end.

(* TrackerList::receive_failed: add_failed_request; TrackerController::receive_failure *)
Definition main_failure (id : nat) (s : state) : state :=
  let l := upd (trs s) id (fun x => mkT (t_id x) (t_group x) (t_en x) (t_busy x) (t_ev x) (t_sc x) (t_fc x + 1) (t_stl x) (now_s s) (t_ni x) (t_mi x) (t_scr x) (t_sct x)) in
  let s := set_trs s l in
  if negb (f_active (fl s)) then s
  else
    let f := fl s in
    do_timeout (set_fl s (mkF (f_update f) (f_completed f) (f_start f) (f_stop f) (f_active f) (f_requesting f) true (f_promisc f))).

(* receive_scrape_success: add_scrape_request; receive_scrape_failed and TrackerController::receive_scrape: nothing *)
Definition main_scrape (id : nat) (ok : bool) (s : state) : state :=
  if ok then set_trs s (upd (trs s) id (fun x => mkT (t_id x) (t_group x) (t_en x) (t_busy x) (t_ev x) (t_sc x) (t_fc x) (t_stl x) (t_ftl x) (t_ni x) (t_mi x) (t_scr x) (now_s s)))
  else s.

Definition main_part (id : nat) (ok scrape : bool) (s : state) : state :=
  if scrape then main_scrape id ok s else if ok then main_success id s else main_failure id s.

(* the atomic reply (worker part immediately followed by its callback on the main thread) *)
Definition reply_now (id : nat) (r : reply) (s : state) : state :=
  match find_id (trs s) id with
  | None => s
  | Some t =>
    if negb (t_busy t) then s
    else main_part id (reply_ok r) (event_eqb (t_ev t) EvScrape) (set_trs s (upd (trs s) id (worker_upd r)))
  end.

Definition reply_success (id : nat) (iv mv : Z) (s : state) : state := reply_now id (RSucc iv mv) s.
Definition reply_failure (id : nat) (ivs : option (Z * Z)) (s : state) : state := reply_now id (RFail ivs) s.

(* the worker part alone: the callback stays queued (at most one, see [pend]) *)
Definition worker_done (id : nat) (r : reply) (s : state) : state :=
  match pend s, find_id (trs s) id with
  | None, Some t =>
    if negb (t_busy t) then s
    else set_pmark (set_pend (set_trs s (upd (trs s) id (worker_upd r))) (Some (id, (reply_ok r, event_eqb (t_ev t) EvScrape)))) (length (log s))
  | _, _ => s
  end.

(* the main thread runs its queued callback *)
Definition drain (s : state) : state :=
  match pend s with
  | None => s
  | Some (id, (ok, scrape)) => main_part id ok scrape (set_pend s None)
  end.

(* ---------------------------------------------------------------- scrapes *)

Definition scrape_min_gap := Params.trk_scrape_min_gap.

(* TrackerController::scrape_request(seconds) *)
Definition scrape_request (sec : Z) (s : state) : state :=
  if sec =? 0 then set_tsc s (Some (now s))
  else set_tsc s (Some (ceil_seconds (now s + sec * usec))).

(* TrackerList::send_scrape *)
Definition send_scrape (t : tracker) (s : state) : state :=
  if t_busy t || negb (is_usable t) then s
  else if negb (t_scr t) then s
  else if now s <? (t_sct t + scrape_min_gap) * usec then s
  else mkS (upd (trs s) (t_id t) (fun x => mkT (t_id x) (t_group x) (t_en x) true EvScrape (t_sc x) (t_fc x) (t_stl x) (t_ftl x) (t_ni x) (t_mi x) (t_scr x) (t_sct x)))
           (fl s) (tmo s) (now s) (s_up s) (s_comp s) (s_left s) (log s) (tsc s) ((now s, t) :: slog s) (hint s) (pend s) (pmark s).

(* TrackerController::do_scrape: per group without any active request, the first scrapable usable tracker *)
Fixpoint scrape_groups (fuel : nat) (rest : list tracker) (s : state) : state :=
  match fuel with
  | O => s
  | S fuel' =>
    match rest with
    | [] => s
    | itr :: _ =>
      let g := t_group itr in
      let seg := take_while (fun t => Nat.ltb (t_group t) (S g)) rest in
      let after := drop_while (fun t => Nat.ltb (t_group t) (S g)) rest in
      if has_active_in_group g (trs s) then scrape_groups fuel' after s
      else match find (fun t => t_scr t && is_usable t) seg with
           | Some t => scrape_groups fuel' after (send_scrape t s)
           | None => scrape_groups fuel' after s
           end
    end
  end.

Definition do_scrape (s : state) : state := scrape_groups (length (trs s)) (trs s) s.

(* ---------------------------------------------------------------- tracker enable / disable *)

Definition tracker_enable (id : nat) (s : state) : state :=
  match find_id (trs s) id with
  | None => s
  | Some t =>
    if t_en t then s
    else
      let s := set_trs s (upd (trs s) id (fun x => mkT (t_id x) (t_group x) true (t_busy x) (t_ev x) (t_sc x) (t_fc x) (t_stl x) (t_ftl x) (t_ni x) (t_mi x) (t_scr x) (t_sct x))) in
      (* receive_tracker_enabled *)
      if negb (has_usable (trs s)) then s
      else if f_active (fl s) && (match tmo s with None => true | Some _ => false end) && negb (has_active (trs s))
      then update_timeout 0 s else s
  end.

Definition tracker_disable (id : nat) (s : state) : state :=
  match find_id (trs s) id with
  | None => s
  | Some t =>
    if negb (t_en t) then s
    else
      let s := set_trs s (upd (trs s) id (fun x => mkT (t_id x) (t_group x) false (t_busy x) (t_ev x) (t_sc x) (t_fc x) (t_stl x) (t_ftl x) (t_ni x) (t_mi x) (t_scr x) (t_sct x))) in
      (* receive_tracker_disabled *)
      if f_active (fl s) && (match tmo s with None => true | Some _ => false end)
      then update_timeout 0 s else s
  end.

(* ---------------------------------------------------------------- ops *)

Inductive op :=
| OEnable (reset : bool) | ODisable | OClose
| OSendStart | OSendStop | OSendCompleted | OSendUpdate | OManual
| OStartRequesting | OStopRequesting
| OTrackerEnable (id : nat) | OTrackerDisable (id : nat) | OCycle (g : nat)
| OSuccess (id : nat) (iv mv : Z) | OFailure (id : nat) (ivs : option (Z * Z))
| OAdvance (dt : Z) | ONext
| OStats (up comp lft : Z)
| OStart (skip_tracker : bool)   (* Download::start(flags): enable[_dont_reset_stats]; uploaded/completed baselines := totals; [send_start_event] *)
| OStartK (skip_tracker : bool)  (* Download::start with start_keep_baseline *)
| OStop (skip_tracker : bool)    (* Download::stop: [send_stop_event]; disable *)
| OInsert (g : nat) (scr : bool)  (* TrackerList::insert of a new tracker in group g (add_extra_tracker) *)
| OScrapeRequest (sec : Z)       (* TrackerController::scrape_request *)
| ONextScrape                    (* clock jumps to the scrape timer *)
| ODone (id : nat) (r : reply)   (* worker part of a reply only: the result callback stays queued *)
| ODrain                         (* the main thread runs the queued callback *)
| OHint (ids : list nat).        (* correspondence only: the trackers the implementation contacts in the next op *)

(* Scheduler::perform(now) for the controller's two tasks (announce timer, scrape timer). Due tasks
   run in time order. When both are due at the same instant the order is decided by the scheduler's
   heap and is not constrained by the property: the harness fires due tasks itself, in this order
   (announce timer first). At most two firings can happen (neither handler re-arms a task that is
   already due); the fuel is 4. *)
Definition perform1 (s : state) : option state :=
  let dt := match tmo s with Some t => t <=? now s | None => false end in
  let ds := match tsc s with Some t => t <=? now s | None => false end in
  let t_first := match tmo s, tsc s with Some a, Some b => a <=? b | _, _ => true end in
  if dt && (negb ds || t_first) then Some (do_timeout s)
  else if ds then Some (do_scrape (set_tsc s None))
  else None.

Fixpoint perform_n (fuel : nat) (s : state) : state :=
  match fuel with
  | O => s
  | S f => match perform1 s with Some s' => perform_n f s' | None => s end
  end.

Definition perform (s : state) : state := perform_n 4 s.

(* TrackerList::insert: place at end_group(g), then m_slot_tracker_enabled -> receive_tracker_enabled.
   The new tracker's identity is the number of trackers inserted so far. *)
Definition insert_op (g : nat) (scr : bool) (s : state) : state :=
  let s := set_trs s (insert_tracker (mkT (length (trs s)) g true false EvNone 0 0 0 0 min_normal min_min scr 0) (trs s)) in
  if negb (has_usable (trs s)) then s
  else if f_active (fl s) && (match tmo s with None => true | Some _ => false end) && negb (has_active (trs s))
  then update_timeout 0 s else s.

Definition step (s : state) (o : op) : state :=
  match o with
  | OEnable r => ctl_enable r s
  | ODisable => ctl_disable s
  | OClose => ctl_close s
  | OSendStart => send_start_event s
  | OSendStop => send_stop_event s
  | OSendCompleted => send_completed_event s
  | OSendUpdate => send_update_event s
  | OManual => manual_request s
  | OStartRequesting => start_requesting s
  | OStopRequesting => stop_requesting s
  | OTrackerEnable id => tracker_enable id s
  | OTrackerDisable id => tracker_disable id s
  | OCycle g => set_trs s (cycle_group g (trs s))
  | OSuccess id iv mv => reply_success id iv mv s
  | OFailure id ivs => reply_failure id ivs s
  | OAdvance dt => perform (set_now s (now s + Z.max dt 0))
  | ONext =>
    match tmo s with
    | Some t => perform (set_now s (Z.max t (now s)))
    | None => s
    end
  | OStats up comp lft => set_figs s up comp lft
  | OStart skip =>
    (* s_up / s_comp are the ADJUSTED figures (total - baseline): resetting the baselines to the
       totals makes them 0; this happens after enable and BEFORE the started event is sent *)
    let s1 := if skip then ctl_enable false s else ctl_enable true s in
    let s2 := set_figs s1 0 0 (s_left s1) in
    if skip then s2 else send_start_event s2
  | OStartK skip => if skip then ctl_enable false s else send_start_event (ctl_enable true s)
  | OStop skip => ctl_disable (if skip then s else send_stop_event s)
  | OInsert g scr => insert_op g scr s
  | OScrapeRequest sec => scrape_request (Z.max sec 0) s
  | ONextScrape =>
    match tsc s with
    | Some t => perform (set_now s (Z.max t (now s)))
    | None => s
    end
  | ODone id r => worker_done id r s
  | ODrain => drain s
  | OHint ids => set_hint s ids
  end.

Definition new_tracker (id : nat) (g : nat * bool) : tracker :=
  mkT id (fst g) true false EvNone 0 0 0 0 min_normal min_min (snd g) 0.

(* layout: (group, scrapable) per tracker in insertion order *)
Fixpoint insert_all (id : nat) (groups : list (nat * bool)) (l : list tracker) : list tracker :=
  match groups with
  | [] => l
  | g :: r => insert_all (S id) r (insert_tracker (new_tracker id g) l)
  end.

(* the uploaded / downloaded / left figures an announce made by op [o] from state [s] must carry *)
Definition figs_for (s : state) (o : op) : Z * Z * Z :=
  match o with
  | OStart _ => (0, 0, s_left s)
  | _ => (s_up s, s_comp s, s_left s)
  end.

Definition no_flags := mkF false false false false false false false false.

Definition init (t0 : Z) (groups : list (nat * bool)) : state :=
  mkS (insert_all O groups []) no_flags None t0 0 0 0 [] None [] [] None O.

Definition run (s : state) (ops : list op) : state := fold_left step ops s.

(* ---------------------------------------------------------------- vocabulary of the theorems (Props, not extracted) *)

(* the client API never issues send_stop_event without the disable that follows it (Download::stop = OStop) *)
Definition client_level (o : op) : Prop := o <> OSendStop.

(* ops that end the obligation to carry 'started': the client replaces the event, or a tracker
   accepts a request that carried STARTED while the controller is active *)
Definition clears (ev : event) (s : state) (o : op) : Prop :=
  match o with
  | OSendStop | OStop false => True
  | OSendStart | OStart false | OStartK false => ev <> EvStarted
  | OSendCompleted => ev <> EvCompleted
  | OSuccess id _ _ => f_active (fl s) = true /\ exists t, find_id (trs s) id = Some t /\ t_busy t = true /\ t_ev t = ev
  | ODrain => f_active (fl s) = true /\ exists id t, pend s = Some (id, (true, false)) /\ find_id (trs s) id = Some t /\ t_ev t = ev
  | _ => False
  end.

Fixpoint pending_run (ev : event) (s : state) (ops : list op) : Prop :=
  match ops with
  | [] => True
  | o :: rest => ~ clears ev s o /\ pending_run ev (step s o) rest
  end.


(* the controller flag that holds a pending 'started' / 'completed' *)
Definition pend_flag (ev : event) (f : flags) : bool :=
  match ev with EvStarted => f_start f | EvCompleted => f_completed f | _ => false end.

(* the newest logged request to tracker [id] (the log is newest first) *)
Definition newest_for (id : nat) (l : list req) : option req := find (fun r => Nat.eqb (r_id r) id) l.
