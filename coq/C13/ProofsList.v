(* C13 — list lemmas for the TrackerList operations (take_while/drop_while, set_nth/swap_nth,
   index_of, sortedness by group). No model semantics here. *)
From Coq Require Import List ZArith Bool Lia Arith Permutation.
From LTV.C13 Require Import Model.
Import ListNotations.

Lemma take_drop {A} (p : A -> bool) l : take_while p l ++ drop_while p l = l.
Proof. induction l as [| x r IH]; simpl; [reflexivity |]. destruct (p x); simpl; [rewrite IH |]; reflexivity. Qed.

Lemma take_while_all {A} (p : A -> bool) l : Forall (fun x => p x = true) (take_while p l).
Proof. induction l as [| x r IH]; simpl; [constructor |]. destruct (p x) eqn:H; constructor; assumption. Qed.

Lemma drop_while_head {A} (p : A -> bool) l x r : drop_while p l = x :: r -> p x = false.
Proof.
  induction l as [| y l IH]; simpl; [discriminate |]. destruct (p y) eqn:H; [assumption |].
  intros E. inversion E. subst. assumption.
Qed.

Lemma Forall_take {A} (P : A -> Prop) p l : Forall P l -> Forall P (take_while p l).
Proof. induction 1; simpl; [constructor |]. destruct (p x); constructor; assumption. Qed.

Lemma Forall_drop {A} (P : A -> Prop) p l : Forall P l -> Forall P (drop_while p l).
Proof. induction 1; simpl; [constructor |]. destruct (p x); [assumption | constructor; assumption]. Qed.

(* set_nth / swap_nth *)

Lemma Forall_set_nth {A} (P : A -> Prop) l : forall i x, Forall P l -> P x -> Forall P (set_nth i x l).
Proof.
  induction l as [| y r IH]; intros i x H Hx; [destruct i; constructor |].
  inversion H; subst. destruct i; simpl; constructor; auto.
Qed.

Lemma map_set_nth {A B} (f : A -> B) l : forall i x, map f (set_nth i x l) = set_nth i (f x) (map f l).
Proof. induction l as [| y r IH]; intros i x; [destruct i; reflexivity |]. destruct i; simpl; [| rewrite IH]; reflexivity. Qed.

Lemma set_nth_same {A} (l : list A) : forall i a, nth_error l i = Some a -> set_nth i a l = l.
Proof.
  induction l as [| y r IH]; intros i a H; [destruct i; reflexivity |].
  destruct i; simpl in *; [inversion H; reflexivity | rewrite IH; auto].
Qed.

Lemma nth_error_set_nth_same {A} (l : list A) : forall i a b, nth_error l i = Some a -> nth_error (set_nth i b l) i = Some b.
Proof. induction l as [| y r IH]; intros i a b H; destruct i; simpl in *; try discriminate; [reflexivity | eauto]. Qed.

Lemma nth_error_set_nth_other {A} (l : list A) : forall i j b, i <> j -> nth_error (set_nth i b l) j = nth_error l j.
Proof.
  induction l as [| y r IH]; intros i j b H; [destruct i; reflexivity |].
  destruct i, j; simpl; try reflexivity; [congruence | apply IH; congruence].
Qed.

Lemma Forall_swap_nth {A} (P : A -> Prop) i j (l : list A) : Forall P l -> Forall P (swap_nth i j l).
Proof.
  intros H. unfold swap_nth. destruct (nth_error l i) as [a |] eqn:Hi; [| assumption].
  destruct (nth_error l j) as [b |] eqn:Hj; [| assumption].
  rewrite Forall_forall in H. apply Forall_set_nth; [apply Forall_set_nth |].
  - rewrite Forall_forall. exact H.
  - apply H. eapply nth_error_In; eauto.
  - apply H. eapply nth_error_In; eauto.
Qed.

Lemma map_swap_nth {A B} (f : A -> B) i j (l : list A) : map f (swap_nth i j l) = swap_nth i j (map f l).
Proof.
  unfold swap_nth. rewrite !nth_error_map.
  destruct (nth_error l i); simpl; [| reflexivity]. destruct (nth_error l j); simpl; [| reflexivity].
  rewrite !map_set_nth. reflexivity.
Qed.

Lemma swap_nth_equal {A} i j (m : list A) g : nth_error m i = Some g -> nth_error m j = Some g -> swap_nth i j m = m.
Proof.
  intros Hi Hj. unfold swap_nth. rewrite Hi, Hj.
  rewrite (set_nth_same m i g Hi). apply set_nth_same. assumption.
Qed.

(* index_of *)

Lemma index_of_find {A} (p : A -> bool) l t : find p l = Some t -> nth_error l (index_of p l) = Some t.
Proof. induction l as [| x r IH]; simpl; [discriminate |]. destruct (p x); [intros E; exact E | assumption]. Qed.

Lemma index_of_le {A} (p : A -> bool) l : forall j t, nth_error l j = Some t -> p t = true -> (index_of p l <= j)%nat.
Proof.
  induction l as [| x r IH]; intros j t H Hp; [destruct j; discriminate |].
  simpl. destruct (p x) eqn:Hx; [lia |]. destruct j; simpl in H; [inversion H; congruence |].
  apply le_n_S. eapply IH; eauto.
Qed.

Lemma index_of_hit {A} (p : A -> bool) l : forall j t, nth_error l j = Some t -> p t = true ->
  exists y, nth_error l (index_of p l) = Some y /\ p y = true.
Proof.
  induction l as [| x r IH]; intros j t H Hp; [destruct j; discriminate |].
  simpl. destruct (p x) eqn:Hx; [exists x; auto |]. destruct j; simpl in H; [inversion H; congruence |].
  eapply IH; eauto.
Qed.

(* sortedness of the group sequence *)

Fixpoint nsorted (m : list nat) : Prop :=
  match m with [] => True | x :: r => Forall (fun y => (x <= y)%nat) r /\ nsorted r end.

Lemma nsorted_nth m : nsorted m -> forall i j a b, (i <= j)%nat ->
  nth_error m i = Some a -> nth_error m j = Some b -> (a <= b)%nat.
Proof.
  induction m as [| x r IH]; intros Hs i j a b Hle Hi Hj; [destruct i; discriminate |].
  destruct Hs as [Hx Hr]. destruct i, j; simpl in *.
  - inversion Hi; inversion Hj; subst. lia.
  - inversion Hi; subst. rewrite Forall_forall in Hx. apply Hx. eapply nth_error_In; eauto.
  - lia.
  - apply (IH Hr i j a b); [lia | assumption | assumption].
Qed.

Lemma nsorted_app_inv m1 : forall x m2, nsorted (m1 ++ x :: m2) -> Forall (fun y => (y <= x)%nat) m1 /\ Forall (fun y => (x <= y)%nat) m2.
Proof.
  induction m1 as [| a r IH]; intros x m2 H; simpl in *.
  - split; [constructor | apply H].
  - destruct H as [Ha Hr]. destruct (IH _ _ Hr) as [H1 H2]. split; [| assumption].
    constructor; [| assumption]. rewrite Forall_forall in Ha. apply Ha. apply in_or_app. right. left. reflexivity.
Qed.

(* TrackerList::insert keeps the list sorted by group *)
Lemma insert_in t l y : In y (insert_tracker t l) -> y = t \/ In y l.
Proof.
  unfold insert_tracker. intros H. apply in_app_or in H. destruct H as [H | [H | H]]; auto.
  - right. rewrite <- (take_drop (fun x => Nat.ltb (t_group x) (S (t_group t))) l). apply in_or_app. auto.
  - right. rewrite <- (take_drop (fun x => Nat.ltb (t_group x) (S (t_group t))) l). apply in_or_app. auto.
Qed.

Lemma insert_sorted t l : nsorted (map t_group l) -> nsorted (map t_group (insert_tracker t l)).
Proof.
  unfold insert_tracker. induction l as [| x r IH]; intros H; simpl.
  - split; [constructor | exact I].
  - destruct H as [Hx Hr]. destruct (Nat.ltb (t_group x) (S (t_group t))) eqn:Hlt; simpl.
    + apply Nat.ltb_lt in Hlt. split; [| apply IH; assumption].
      rewrite Forall_forall. intros g Hg. apply in_map_iff in Hg. destruct Hg as [y [Hy Hin]]. subst g.
      apply (insert_in t r) in Hin. destruct Hin as [E | Hin]; [subst; lia |].
      rewrite Forall_forall in Hx. apply Hx. apply in_map. assumption.
    + apply Nat.ltb_ge in Hlt. split; [| split; assumption].
      constructor; [lia |]. eapply Forall_impl; [| exact Hx]. simpl. intros. lia.
Qed.

Lemma insert_all_sorted groups : forall id l, nsorted (map t_group l) -> nsorted (map t_group (insert_all id groups l)).
Proof. induction groups as [| g r IH]; intros id l H; simpl; [assumption |]. apply IH, insert_sorted, H. Qed.

Lemma insert_all_Forall (P : tracker -> Prop) groups : forall id l,
  (forall i g, P (new_tracker i g)) -> Forall P l -> Forall P (insert_all id groups l).
Proof.
  induction groups as [| g r IH]; intros id l HP H; simpl; [assumption |]. apply IH; [assumption |].
  rewrite Forall_forall in *. intros y Hy. apply insert_in in Hy. destruct Hy as [E | Hy]; [subst; apply HP | auto].
Qed.

(* upd *)

Lemma upd_map {B} (g : tracker -> B) l id f : (forall x, g (f x) = g x) -> map g (upd l id f) = map g l.
Proof.
  intros H. unfold upd. rewrite map_map. apply map_ext. intros x. destruct (Nat.eqb (t_id x) id); [apply H | reflexivity].
Qed.

Lemma upd_Forall (P : tracker -> Prop) l id f : (forall x, P x -> P (f x)) -> Forall P l -> Forall P (upd l id f).
Proof.
  intros H HF. unfold upd. rewrite Forall_forall in *. intros y Hy. apply in_map_iff in Hy.
  destruct Hy as [x [E Hx]]. subst y. destruct (Nat.eqb (t_id x) id); auto.
Qed.

(* promote / cycle_group *)

Lemma promote_Forall (P : tracker -> Prop) id l : Forall P l -> Forall P (promote id l).
Proof. intros H. unfold promote. destruct (find_id l id); [apply Forall_swap_nth |]; assumption. Qed.

Lemma promote_gmap id l : nsorted (map t_group l) -> map t_group (promote id l) = map t_group l.
Proof.
  intros Hs. unfold promote. destruct (find_id l id) as [t |] eqn:Hf; [| reflexivity].
  rewrite map_swap_nth. unfold find_id in Hf.
  pose proof (index_of_find _ _ _ Hf) as Hj.
  set (j := index_of (fun x => Nat.eqb (t_id x) id) l) in *.
  assert (Hp : Nat.leb (t_group t) (t_group t) = true) by (apply Nat.leb_le; lia).
  destruct (index_of_hit (fun x => Nat.leb (t_group t) (t_group x)) l j t Hj Hp) as [y [Hi Hy]].
  pose proof (index_of_le (fun x => Nat.leb (t_group t) (t_group x)) l j t Hj Hp) as Hle.
  unfold begin_group_idx. set (i := index_of (fun x => Nat.leb (t_group t) (t_group x)) l) in *.
  apply Nat.leb_le in Hy.
  assert (Hyt : (t_group y <= t_group t)%nat).
  { eapply (nsorted_nth _ Hs i j); [exact Hle | |]; rewrite nth_error_map; [rewrite Hi | rewrite Hj]; reflexivity. }
  apply swap_nth_equal with (g := t_group t); rewrite nth_error_map; [rewrite Hi | rewrite Hj]; simpl; [assert (E : t_group y = t_group t) by lia; rewrite E; reflexivity | reflexivity].
Qed.

Lemma cycle_incl g l y : In y (cycle_group g l) -> In y l.
Proof.
  unfold cycle_group.
  set (p := fun t => negb (Nat.leb g (t_group t))).
  destruct (drop_while p l) as [| f rest] eqn:Hd; [auto |].
  destruct (Nat.eqb (t_group f) g); [| auto].
  set (q := fun t => Nat.eqb (t_group t) g).
  destruct (take_while q (f :: rest)) as [| h tl] eqn:Ht; [auto |].
  intros H. rewrite <- (take_drop p l), Hd, <- (take_drop q (f :: rest)), Ht.
  apply in_app_or in H. apply in_or_app. destruct H as [H | H]; [left; assumption | right].
  apply in_app_or in H. apply in_or_app. destruct H as [H | H]; [left | right; assumption].
  apply in_app_or in H. destruct H as [H | [H | []]]; [right; assumption | left; assumption].
Qed.

Lemma cycle_Forall (P : tracker -> Prop) g l : Forall P l -> Forall P (cycle_group g l).
Proof. rewrite !Forall_forall. intros H y Hy. apply H. eapply cycle_incl; eauto. Qed.

Lemma cycle_gmap g l : map t_group (cycle_group g l) = map t_group l.
Proof.
  unfold cycle_group.
  set (p := fun t => negb (Nat.leb g (t_group t))).
  destruct (drop_while p l) as [| f rest] eqn:Hd; [reflexivity |].
  destruct (Nat.eqb (t_group f) g); [| reflexivity].
  set (q := fun t => Nat.eqb (t_group t) g).
  destruct (take_while q (f :: rest)) as [| h tl] eqn:Ht; [reflexivity |].
  rewrite <- (take_drop p l) at 2. rewrite Hd. rewrite <- (take_drop q (f :: rest)) at 2. rewrite Ht.
  rewrite !map_app. f_equal. f_equal.
  pose proof (take_while_all q (f :: rest)) as Hall. rewrite Ht in Hall.
  assert (Hg : forall m, Forall (fun x => q x = true) m -> map t_group m = repeat g (length m)).
  { induction m as [| a m IH]; intros Hm; simpl; [reflexivity |]. inversion Hm; subst.
    unfold q in H1. apply Nat.eqb_eq in H1. rewrite H1, IH; auto. }
  rewrite (Hg (h :: tl) Hall).
  assert (Hall' : Forall (fun x => q x = true) (tl ++ [h])).
  { inversion Hall; subst. apply Forall_app. split; [assumption | constructor; [assumption | constructor]]. }
  rewrite <- map_app. rewrite (Hg (tl ++ [h]) Hall'). rewrite app_length. simpl length.
  replace (length tl + 1)%nat with (S (length tl)) by lia. reflexivity.
Qed.

(* ------------------------------------------------------------------ permutations (tracker identities) *)

Lemma set_nth_perm {A} (l : list A) : forall i a b, nth_error l i = Some a -> Permutation (b :: l) (a :: set_nth i b l).
Proof.
  induction l as [| y r IH]; intros i a b H; [destruct i; discriminate |].
  destruct i; simpl in *.
  - inversion H; subst. apply perm_swap.
  - eapply Permutation_trans; [apply perm_swap |].
    eapply Permutation_trans; [apply perm_skip, (IH i a b H) |]. apply perm_swap.
Qed.

Lemma swap_nth_perm {A} i j (l : list A) : Permutation (swap_nth i j l) l.
Proof.
  unfold swap_nth. destruct (nth_error l i) as [a |] eqn:Hi; [| apply Permutation_refl].
  destruct (nth_error l j) as [b |] eqn:Hj; [| apply Permutation_refl].
  pose proof (set_nth_perm l i a b Hi) as H1.
  assert (Hj' : nth_error (set_nth i b l) j = Some b).
  { destruct (Nat.eq_dec i j) as [E | E]; [subst; eapply nth_error_set_nth_same; eauto | rewrite nth_error_set_nth_other; assumption]. }
  pose proof (set_nth_perm (set_nth i b l) j b a Hj') as H2.
  apply Permutation_cons_inv with (a := b).
  eapply Permutation_trans; [apply Permutation_sym, H2 |]. apply Permutation_sym. exact H1.
Qed.

Lemma promote_perm id l : Permutation (promote id l) l.
Proof. unfold promote. destruct (find_id l id); [apply swap_nth_perm | apply Permutation_refl]. Qed.

Lemma cycle_perm g l : Permutation (cycle_group g l) l.
Proof.
  unfold cycle_group.
  set (p := fun t => negb (Nat.leb g (t_group t))).
  destruct (drop_while p l) as [| f rest] eqn:Hd; [apply Permutation_refl |].
  destruct (Nat.eqb (t_group f) g); [| apply Permutation_refl].
  set (q := fun t => Nat.eqb (t_group t) g).
  destruct (take_while q (f :: rest)) as [| h tl] eqn:Ht; [apply Permutation_refl |].
  rewrite <- (take_drop p l) at 2. rewrite Hd. rewrite <- (take_drop q (f :: rest)) at 2. rewrite Ht.
  apply Permutation_app_head. apply Permutation_app_tail. apply Permutation_sym, Permutation_cons_append.
Qed.

Lemma insert_perm t l : Permutation (insert_tracker t l) (t :: l).
Proof.
  unfold insert_tracker. rewrite <- (take_drop (fun x => Nat.ltb (t_group x) (S (t_group t))) l) at 3.
  apply Permutation_sym, Permutation_middle.
Qed.

Lemma insert_all_ids groups : forall id l,
  NoDup (map t_id l) -> Forall (fun x => (t_id x < id)%nat) l ->
  NoDup (map t_id (insert_all id groups l)).
Proof.
  induction groups as [| g r IH]; intros id l Hn Hl; simpl; [assumption |].
  apply IH.
  - eapply Permutation_NoDup; [apply Permutation_sym, Permutation_map, insert_perm |]. simpl.
    constructor; [| assumption]. intros Hin. apply in_map_iff in Hin. destruct Hin as [x [E Hx]].
    rewrite Forall_forall in Hl. specialize (Hl x Hx). lia.
  - rewrite Forall_forall in *. intros x Hx. apply insert_in in Hx. destruct Hx as [E | Hx]; [subst; simpl; lia |].
    specialize (Hl x Hx). lia.
Qed.

Lemma find_id_unique l t : NoDup (map t_id l) -> In t l -> find_id l (t_id t) = Some t.
Proof.
  unfold find_id. induction l as [| x r IH]; intros Hn Hin; [contradiction |]. simpl.
  inversion Hn as [| ? ? Hx Hr]; subst. destruct Hin as [E | Hin].
  - subst. rewrite Nat.eqb_refl. reflexivity.
  - destruct (Nat.eqb (t_id x) (t_id t)) eqn:E; [| auto].
    apply Nat.eqb_eq in E. exfalso. apply Hx. rewrite E. apply in_map. assumption.
Qed.
