(* C13 — what every request handed to a worker satisfies at its call site ([site]), and what one
   step of the model adds to the log ([step_site]); flag, group-order and clamp invariants. *)
From Coq Require Import List ZArith Bool Lia Arith.
From LTV.C13 Require Import ParamsGen.
From LTV.C13 Require Import Model ProofsList.
Import ListNotations.
Open Scope Z_scope.

(* ------------------------------------------------------------------ constants *)

Definition params_ok : bool :=
  (0 <? min_min) && (min_min <=? max_min) && (0 <? min_normal) && (min_normal <=? max_normal) &&
  (0 <? backoff_base) && (0 <=? backoff_cap) && (min_min <=? promisc_floor) &&
  (0 <? start_promisc_timeout) && (0 <? requesting_success_timeout).

Lemma params_ok_now : params_ok = true.
Proof. vm_compute. reflexivity. Qed.

Lemma params_facts :
  0 < min_min /\ min_min <= max_min /\ 0 < min_normal /\ min_normal <= max_normal /\ min_min <= promisc_floor.
Proof.
  pose proof params_ok_now as H. unfold params_ok in H.
  repeat (apply andb_prop in H; destruct H as [H ?]).
  repeat match goal with
         | h : (_ <? _) = true |- _ => apply Z.ltb_lt in h
         | h : (_ <=? _) = true |- _ => apply Z.leb_le in h
         end.
  repeat split; assumption.
Qed.

Global Opaque min_min max_min min_normal max_normal backoff_base backoff_cap promisc_floor
       start_promisc_timeout requesting_success_timeout.

Lemma backoff_le k : backoff k <= min_min.
Proof. unfold backoff. lia. Qed.

(* ------------------------------------------------------------------ predicates on log entries *)

Definition base_ok (r : req) : Prop :=
  r_repl r = t_busy (r_pre r) /\ r_id r = t_id (r_pre r) /\ t_en (r_pre r) = true /\
  (t_busy (r_pre r) = true -> r_ev r <> t_ev (r_pre r) /\ (t_ev (r_pre r) <> EvScrape -> r_ev r <> EvNone)).

Definition retry_wait (t : tracker) : Z := if min_min <? t_mi t then t_mi t else backoff (t_fc t).

(* no-hammer condition at a timer-driven send, [nows] = cached_seconds *)
Definition timer_ok (nows : Z) (t : tracker) : Prop :=
  (t_fc t <> 0 -> t_ftl t + retry_wait t <= nows) /\
  (t_fc t = 0 -> t_sc t <> 0 -> t_stl t + t_mi t <= nows).

Definition mask_excl (f : flags) : Prop :=
  match f_update f, f_completed f, f_start f, f_stop f with
  | false, false, false, false | true, false, false, false | false, true, false, false
  | false, false, true, false | false, false, false, true => True
  | _, _, _, _ => False
  end.

Definition normal_mode (f : flags) : Prop := f_promisc f = false /\ f_requesting f = false.

Definition site (r : req) : Prop :=
  base_ok r /\
  match r_src r with
  | SrcStart => r_ev r = EvStarted /\ f_start (r_fl r) = true /\ f_completed (r_fl r) = false
  | SrcStop => r_ev r = EvStopped /\ is_in_use (r_pre r) = true /\ f_start (r_fl r) = false /\ f_completed (r_fl r) = false
  | SrcCompleted => r_ev r = EvCompleted /\ is_in_use (r_pre r) = true /\ f_start (r_fl r) = false /\ f_completed (r_fl r) = true
  | SrcUpdate => r_ev r = current_send_event (r_fl r) /\ mask_excl (r_fl r) /\ f_active (r_fl r) = true
  | SrcTimer => r_ev r = current_send_event (r_fl r) /\ mask_excl (r_fl r) /\ f_active (r_fl r) = true /\
                timer_ok (r_time r / usec) (r_pre r) /\
                (normal_mode (r_fl r) ->
                 find_next_to_request (r_trs r) = Some (r_pre r) /\ activity_time_next (r_pre r) <= r_time r / usec)
  end.

Definition figures_ok (up comp lft : Z) (r : req) : Prop :=
  r_up r = Z.max up 0 /\ r_comp r = Z.max comp 0 /\ r_left r = lft.

(* ------------------------------------------------------------------ emits / keeps / frame *)

Definition emits (Q : req -> Prop) (s s' : state) : Prop :=
  exists new, log s' = new ++ log s /\ Forall Q new.

(* predicates on trackers that do not look at the requesting flag / latest event *)
Definition busy_closed (P : tracker -> Prop) : Prop :=
  forall x b e sct, P x -> P (mkT (t_id x) (t_group x) (t_en x) b e (t_sc x) (t_fc x) (t_stl x) (t_ftl x) (t_ni x) (t_mi x) (t_scr x) sct).

(* ---- invariants linking the tracker list, the request log and the queued result callback ---- *)

Definition ids (s : state) : list nat := map t_id (trs s).


(* latest_event is the event of the last announce handed to the tracker, unless a scrape came after it *)
Definition Pev (l : list req) (t : tracker) : Prop :=
  match newest_for (t_id t) l with
  | Some r => t_ev t = r_ev r \/ t_ev t = EvScrape
  | None => t_ev t = EvNone \/ t_ev t = EvScrape
  end.

(* while a result callback of a tracker is queued, no announce of that tracker is in flight *)
Definition Ppend (p : option (nat * (bool * bool))) (t : tracker) : Prop :=
  forall id k, p = Some (id, k) -> t_id t = id -> busy_ann t = false.

(* a scrape is only handed to an idle, enabled, scrapable tracker whose last scrape is at least the gap ago *)
Definition scrape_ok (e : Z * tracker) : Prop :=
  let '(T, t) := e in
  t_busy t = false /\ t_en t = true /\ t_scr t = true /\ (t_sct t + scrape_min_gap) * usec <= T.

Definition J (s : state) : Prop :=
  Forall (fun r => In (r_id r) (ids s)) (log s) /\
  Forall (fun t => Pev (log s) t /\ Ppend (pend s) t) (trs s) /\
  (pmark s <= length (log s))%nat /\
  (forall id k, pend s = Some (id, k) ->
     Forall (fun r => r_id r <> id) (firstn (length (log s) - pmark s) (log s))) /\
  Forall scrape_ok (slog s).

Definition keeps (s s' : state) : Prop :=
  now s' = now s /\ s_up s' = s_up s /\ s_comp s' = s_comp s /\ s_left s' = s_left s /\
  map t_group (trs s') = map t_group (trs s) /\
  (forall P, busy_closed P -> Forall P (trs s) -> Forall P (trs s')) /\
  map t_id (trs s') = map t_id (trs s) /\
  (J s -> J s').

Definition frame (s s' : state) : Prop := fl s' = fl s /\ keeps s s'.

Definition E (Q : req -> Prop) (s s' : state) : Prop := emits Q s s' /\ frame s s'.

Ltac ssplit' := lazymatch goal with |- _ /\ _ => split; ssplit' | _ => idtac end.

Lemma emits_same Q s s' : log s' = log s -> emits Q s s'.
Proof. intros H. exists []. split; [rewrite H; reflexivity | constructor]. Qed.

Lemma emits_trans Q s1 s2 s3 : emits Q s1 s2 -> emits Q s2 s3 -> emits Q s1 s3.
Proof.
  intros [n1 [H1 F1]] [n2 [H2 F2]]. exists (n2 ++ n1). split.
  - rewrite H2, H1, app_assoc. reflexivity.
  - apply Forall_app. split; assumption.
Qed.

Lemma emits_weaken (Q Q' : req -> Prop) s s' : (forall r, Q r -> Q' r) -> emits Q s s' -> emits Q' s s'.
Proof. intros W [n [H F]]. exists n. split; [assumption|]. eapply Forall_impl; eauto. Qed.

Lemma keeps_refl s : keeps s s.
Proof. unfold keeps. ssplit'; auto. Qed.

Lemma keeps_trans s1 s2 s3 : keeps s1 s2 -> keeps s2 s3 -> keeps s1 s3.
Proof.
  unfold keeps. intros (a&b&c&d&e&f&g&h) (a'&b'&c'&d'&e'&f'&g'&h'). ssplit'; try congruence; auto.
Qed.

Lemma J_same s s' : trs s' = trs s -> log s' = log s -> pend s' = pend s -> pmark s' = pmark s -> slog s' = slog s -> J s -> J s'.
Proof. intros a b c d e. unfold J, ids. rewrite a, b, c, d, e. auto. Qed.

Lemma keeps_same_trs s s' :
  trs s' = trs s -> now s' = now s -> s_up s' = s_up s -> s_comp s' = s_comp s -> s_left s' = s_left s ->
  log s' = log s -> pend s' = pend s -> pmark s' = pmark s -> slog s' = slog s -> keeps s s'.
Proof. intros a b c d e f g h i. unfold keeps. ssplit'; auto; try (rewrite a; auto). apply J_same; assumption. Qed.

Lemma frame_refl s : frame s s.
Proof. split; [reflexivity | apply keeps_refl]. Qed.

Lemma frame_trans s1 s2 s3 : frame s1 s2 -> frame s2 s3 -> frame s1 s3.
Proof. intros [a b] [c d]. split; [congruence | eapply keeps_trans; eauto]. Qed.

Lemma E_same Q s s' : log s' = log s -> frame s s' -> E Q s s'.
Proof. intros. split; [apply emits_same|]; assumption. Qed.

Lemma E_refl Q s : E Q s s.
Proof. apply E_same; [reflexivity | apply frame_refl]. Qed.

Lemma E_trans Q s1 s2 s3 : E Q s1 s2 -> E Q s2 s3 -> E Q s1 s3.
Proof. intros [a b] [c d]. split; [eapply emits_trans | eapply frame_trans]; eauto. Qed.

Lemma E_weaken (Q Q' : req -> Prop) s s' : (forall r, Q r -> Q' r) -> E Q s s' -> E Q' s s'.
Proof. intros W [a b]. split; [eapply emits_weaken; eauto | assumption]. Qed.

Lemma update_timeout_same n s :
  fl (update_timeout n s) = fl s /\ log (update_timeout n s) = log s /\ trs (update_timeout n s) = trs s /\
  now (update_timeout n s) = now s /\ s_up (update_timeout n s) = s_up s /\ s_comp (update_timeout n s) = s_comp s /\
  s_left (update_timeout n s) = s_left s.
Proof. unfold update_timeout. destruct (n =? 0); simpl; repeat split; reflexivity. Qed.

Lemma update_timeout_j n s :
  pend (update_timeout n s) = pend s /\ pmark (update_timeout n s) = pmark s /\ slog (update_timeout n s) = slog s.
Proof. unfold update_timeout. destruct (n =? 0); simpl; ssplit'; reflexivity. Qed.

Lemma frame_update_timeout n s : frame s (update_timeout n s).
Proof.
  destruct (update_timeout_same n s) as (a&b&c&d&e&f&g). destruct (update_timeout_j n s) as (h&i&j).
  split; [assumption | apply keeps_same_trs; assumption].
Qed.

Lemma E_update_timeout Q n s : E Q s (update_timeout n s).
Proof. apply E_same; [apply update_timeout_same | apply frame_update_timeout]. Qed.

Lemma E_erase Q s : E Q s (erase_timeout s).
Proof. apply E_same; [reflexivity |]. split; [reflexivity | apply keeps_same_trs; reflexivity]. Qed.

(* ------------------------------------------------------------------ send_event *)

Lemma event_eqb_false a b : event_eqb a b = false -> a <> b.
Proof. destruct a, b; simpl; congruence. Qed.

Lemma event_eqb_true a b : event_eqb a b = true -> a = b.
Proof. destruct a, b; simpl; congruence. Qed.

Definition sent (F : flags) (T up comp lft : Z) (sr : src) (ev : event) (C : tracker -> list tracker -> Prop) (r : req) : Prop :=
  base_ok r /\ r_fl r = F /\ r_time r = T /\ r_src r = sr /\ r_ev r = ev /\ C (r_pre r) (r_trs r) /\ figures_ok up comp lft r.

Lemma sent_weaken F T up comp lft sr ev (C C' : tracker -> list tracker -> Prop) r :
  (forall t l, C t l -> C' t l) -> sent F T up comp lft sr ev C r -> sent F T up comp lft sr ev C' r.
Proof. intros W (a&b&c&d&e&f&g). exact (conj a (conj b (conj c (conj d (conj e (conj (W _ _ f) g)))))). Qed.

(* the state after a request has actually been handed to the worker *)
Definition sent_state (sr : src) (t : tracker) (ev : event) (s : state) : state :=
  mkS (upd (trs s) (t_id t) (fun x => mkT (t_id x) (t_group x) (t_en x) true ev (t_sc x) (t_fc x) (t_stl x) (t_ftl x) (t_ni x) (t_mi x) (t_scr x) (t_sct x)))
      (fl s) (tmo s) (now s) (s_up s) (s_comp s) (s_left s)
      (mkR (now s) (t_id t) ev (Z.max (s_up s) 0) (Z.max (s_comp s) 0) (s_left s) (t_busy t) sr t (fl s) (trs s) :: log s)
      (tsc s) (slog s)
      (match hint s with h :: r => if Nat.eqb h (t_id t) then r else hint s | [] => [] end)
      (match pend s with Some (i, _) => if Nat.eqb i (t_id t) then None else pend s | None => None end)
      (pmark s).

Lemma sent_state_J sr t ev s : In (t_id t) (ids s) -> event_eqb ev EvScrape = false -> J s -> J (sent_state sr t ev s).
Proof.
  intros Hin Hnscr (Jk & Jt & Jm & Jp & Js). unfold J, sent_state, ids in *. simpl.
  assert (Hids : map t_id (upd (trs s) (t_id t) (fun x => mkT (t_id x) (t_group x) (t_en x) true ev (t_sc x) (t_fc x) (t_stl x) (t_ftl x) (t_ni x) (t_mi x) (t_scr x) (t_sct x))) = map t_id (trs s))
    by (apply upd_map; reflexivity).
  ssplit'.
  - rewrite Hids. constructor; [exact Hin | exact Jk].
  - unfold upd. rewrite Forall_forall in *. intros y Hy. apply in_map_iff in Hy. destruct Hy as [x [E Hx]].
    destruct (Jt x Hx) as [Pe Pp]. destruct (Nat.eqb (t_id x) (t_id t)) eqn:Eid; subst y.
    + apply Nat.eqb_eq in Eid. split.
      * unfold Pev, newest_for. simpl. rewrite Eid, Nat.eqb_refl. left. reflexivity.
      * unfold Ppend. simpl. intros id k Hp Hid. destruct (pend s) as [[i k'] |]; [| discriminate].
        destruct (Nat.eqb i (t_id t)) eqn:Ei; [discriminate |]. inversion Hp; subst. rewrite Eid, Nat.eqb_refl in Ei. discriminate.
    + split.
      * unfold Pev, newest_for in *. simpl. rewrite Nat.eqb_sym, Eid. exact Pe.
      * unfold Ppend in *. intros id k Hp Hid. destruct (pend s) as [[i k'] |]; [| discriminate].
        destruct (Nat.eqb i (t_id t)); [discriminate |]. eapply Pp; eauto.
  - lia.
  - intros id k Hp. destruct (pend s) as [[i k'] |] eqn:Hps; [| discriminate].
    destruct (Nat.eqb i (t_id t)) eqn:Ei; [discriminate |]. inversion Hp; subst i k'.
    assert (Hs : forall n m, (m <= n)%nat -> (match m with 0 => S n | S l => n - l end = S (n - m))%nat)
      by (intros n m; destruct m; lia).
    rewrite Hs by exact Jm. simpl.
    constructor; [simpl; intros E; rewrite E, Nat.eqb_refl in Ei; discriminate | eapply Jp; eauto].
  - exact Js.
Qed.

Lemma send_event_E sr t ev s (C : tracker -> list tracker -> Prop) :
  C t (trs s) -> event_eqb ev EvScrape = false ->
  E (sent (fl s) (now s) (s_up s) (s_comp s) (s_left s) sr ev C) s (send_event sr t ev s).
Proof.
  intros HC Hnscr. unfold send_event.
  destruct (existsb (Nat.eqb (t_id t)) (map t_id (trs s))) eqn:Hmem; simpl; [| apply E_refl].
  destruct (is_usable t) eqn:Hu; simpl; [| apply E_refl].
  destruct (t_busy t && (event_eqb (t_ev t) ev || (negb (event_eqb (t_ev t) EvScrape) && event_eqb ev EvNone))) eqn:Hg; [apply E_refl |].
  assert (Hbusy : t_busy t = true -> ev <> t_ev t /\ (t_ev t <> EvScrape -> ev <> EvNone)).
  { intros Hb. rewrite Hb in Hg. simpl in Hg. apply orb_false_elim in Hg. destruct Hg as [H1 H2].
    apply event_eqb_false in H1. split; [congruence |]. intros Hs.
    destruct (event_eqb (t_ev t) EvScrape) eqn:E; [apply event_eqb_true in E; contradiction |].
    simpl in H2. apply event_eqb_false in H2. exact H2. }
  assert (Hin : In (t_id t) (ids s)).
  { apply existsb_exists in Hmem. destruct Hmem as [x [Hx Ex]]. apply Nat.eqb_eq in Ex. subst x. exact Hx. }
  change (E (sent (fl s) (now s) (s_up s) (s_comp s) (s_left s) sr ev C) s (sent_state sr t ev s)).
  split.
  - eexists [_]. split; [reflexivity|]. constructor; [| constructor].
    unfold sent, base_ok, figures_ok; simpl. tauto.
  - split; [reflexivity |]. unfold keeps. ssplit'; auto; try reflexivity.
    + apply upd_map. reflexivity.
    + intros P HP H. apply upd_Forall; [| assumption]. intros x Hx. apply HP. assumption.
    + apply upd_map. reflexivity.
    + apply sent_state_J; assumption.
Qed.

Lemma cse_not_scrape f : event_eqb (current_send_event f) EvScrape = false.
Proof. unfold current_send_event. destruct (f_update f), (f_completed f), (f_start f), (f_stop f); reflexivity. Qed.

Lemma fold_send_E sr ev (C : tracker -> Prop) l : event_eqb ev EvScrape = false -> forall s F T up comp lft,
  fl s = F -> now s = T -> s_up s = up -> s_comp s = comp -> s_left s = lft ->
  (forall t, In t l -> C t) ->
  E (sent F T up comp lft sr ev (fun t _ => C t)) s (fold_left (fun s t => send_event sr t ev s) l s).
Proof.
  intros Hns. induction l as [| t l IH]; intros s F T up comp lft HF HT Hu Hc Hl HC; simpl.
  - apply E_refl.
  - pose proof (send_event_E sr t ev s (fun t _ => C t) (HC t (or_introl eq_refl)) Hns) as H1.
    rewrite HF, HT, Hu, Hc, Hl in H1.
    eapply E_trans; [exact H1|].
    destruct H1 as [_ (a&b&c&d&e&_)].
    apply IH; try congruence. intros. apply HC. right. assumption.
Qed.

(* ------------------------------------------------------------------ timing facts at the two timer sites *)

Lemma atn_timer_ok nows t : activity_time_next t <= nows -> timer_ok nows t.
Proof.
  pose proof params_facts as (p1&p2&p3&p4&p5).
  unfold timer_ok, activity_time_next, failed_time_next, success_time_next, retry_wait. intros H. split.
  - intros Hf. apply Z.eqb_neq in Hf. rewrite Hf in H. simpl in H.
    destruct (min_min <? t_mi t); lia.
  - intros Hf Hs. rewrite Hf in H. simpl in H. apply Z.eqb_neq in Hs. rewrite Hs in H. lia.
Qed.

Lemma ntp_timer_ok nows t : next_timeout_promiscuous nows t = 0 -> timer_ok nows t.
Proof.
  pose proof params_facts as (p1&p2&p3&p4&p5).
  unfold next_timeout_promiscuous. destruct (busy_ann t || negb (is_usable t)).
  - unfold uint32_max. discriminate.
  - unfold timer_ok, failed_time_next, activity_time_last, retry_wait. intros H. split.
    + intros Hf. apply Z.eqb_neq in Hf. rewrite Hf in H. simpl in H.
      pose proof (backoff_le (t_fc t)).
      destruct (min_min <? t_mi t) eqn:Hm; [apply Z.ltb_lt in Hm | apply Z.ltb_ge in Hm]; lia.
    + intros Hf Hs. rewrite Hf in H. simpl in H. lia.
Qed.

Lemma find_preferred_zero nows seg : forall pref ptl next p n',
  find_preferred nows seg pref ptl next = (Some p, n') ->
  pref = Some p \/ next_timeout_promiscuous nows p = 0.
Proof.
  induction seg as [| t r IH]; intros pref ptl next p n' H; simpl in H.
  - inversion H. left. reflexivity.
  - destruct (negb (next_timeout_promiscuous nows t =? 0)) eqn:Hz.
    + eapply IH; eauto.
    + apply negb_false_iff in Hz. apply Z.eqb_eq in Hz.
      destruct (activity_time_last t <? ptl).
      * apply IH in H. destruct H as [H | H]; [inversion H; subst; right; assumption | right; assumption].
      * eapply IH; eauto.
Qed.

Lemma pick_hinted_zero hint nows seg h : pick_hinted hint nows seg = Some h -> next_timeout_promiscuous nows h = 0.
Proof.
  unfold pick_hinted. destruct hint as [| a r]; [discriminate |]. intros H. apply find_some in H.
  destruct H as [_ H]. apply andb_prop in H. destruct H as [H _]. apply Z.eqb_eq in H. exact H.
Qed.

(* ------------------------------------------------------------------ do_timeout *)

Definition timer_C (F : flags) (nows : Z) (t : tracker) (l : list tracker) : Prop :=
  timer_ok nows t /\ (normal_mode F -> find_next_to_request l = Some t /\ activity_time_next t <= nows).

Definition timer_sent (s : state) (l0 : list tracker) (r : req) : Prop :=
  sent (fl s) (now s) (s_up s) (s_comp s) (s_left s) SrcTimer (current_send_event (fl s))
       (fun t l => timer_C (fl s) (now s / usec) t l /\ (normal_mode (fl s) -> l = l0)) r.

Lemma timeout_groups_E fuel ev : event_eqb ev EvScrape = false -> forall rest next s F T up comp lft,
  fl s = F -> now s = T -> s_up s = up -> s_comp s = comp -> s_left s = lft ->
  E (sent F T up comp lft SrcTimer ev (fun t _ => timer_ok (T / usec) t)) s (fst (timeout_groups fuel ev rest next s)).
Proof.
  intros Hns. induction fuel as [| fuel IH]; intros rest next s F T up comp lft HF HT Hu Hc Hl; simpl.
  - apply E_refl.
  - destruct rest as [| itr rest']; simpl; [apply E_refl |].
    destruct (has_active_ann_in_group (t_group itr) (trs s)); [apply IH; assumption |].
    assert (Hn : now_s s = T / usec) by (unfold now_s; rewrite HT; reflexivity).
    destruct (negb (is_usable itr) || negb (t_fc itr =? 0)).
    + destruct (find_preferred (now_s s) _ None uint32_max next) as [pref0 next'] eqn:Hfp0.
      match goal with |- context [match ?pp with Some _ => _ | None => _ end] => destruct pp as [p |] eqn:Hpp end; [| apply IH; assumption].
      assert (Hfp : next_timeout_promiscuous (now_s s) p = 0).
      { destruct pref0 as [q |]; [| discriminate].
        destruct (pick_hinted (hint s) (now_s s) _) as [h |] eqn:Hpk.
        - inversion Hpp; subst h. eapply pick_hinted_zero; eauto.
        - inversion Hpp; subst q. apply find_preferred_zero in Hfp0. destruct Hfp0 as [E0 | E0]; [discriminate | exact E0]. }
      rewrite Hn in Hfp. apply ntp_timer_ok in Hfp.
      pose proof (send_event_E SrcTimer p ev s (fun t _ => timer_ok (T / usec) t) Hfp Hns) as H1.
      rewrite HF, HT, Hu, Hc, Hl in H1.
      eapply E_trans; [exact H1 |]. destruct H1 as [_ (a&b&c&d&e&_)].
      apply IH; congruence.
    + destruct (negb (next_timeout_promiscuous (now_s s) itr =? 0)) eqn:Hz; [apply IH; assumption |].
      apply negb_false_iff in Hz. apply Z.eqb_eq in Hz. rewrite Hn in Hz. apply ntp_timer_ok in Hz.
      pose proof (send_event_E SrcTimer itr ev s (fun t _ => timer_ok (T / usec) t) Hz Hns) as H1.
      rewrite HF, HT, Hu, Hc, Hl in H1.
      eapply E_trans; [exact H1 |]. destruct H1 as [_ (a&b&c&d&e&_)].
      apply IH; congruence.
Qed.

Lemma do_timeout_E s :
  E (fun r => timer_sent s (trs s) r /\ f_active (fl s) = true) s (do_timeout s).
Proof.
  unfold do_timeout.
  assert (He : E (fun r => timer_sent s (trs s) r /\ f_active (fl s) = true) s (erase_timeout s)) by apply E_erase.
  set (s1 := erase_timeout s) in *.
  assert (Hfl : fl s1 = fl s) by reflexivity.
  assert (Hnow : now s1 = now s) by reflexivity.
  assert (Htrs : trs s1 = trs s) by reflexivity.
  destruct (negb (f_active (fl s1)) || negb (has_usable (trs s1))) eqn:Hact; [exact He |].
  apply orb_false_elim in Hact. destruct Hact as [Hact _]. apply negb_false_iff in Hact. rewrite Hfl in Hact.
  eapply E_trans; [exact He |].
  apply E_weaken with (Q := timer_sent s (trs s)); [intros; split; assumption |].
  unfold timer_sent.
  destruct (f_promisc (fl s1) || f_requesting (fl s1)) eqn:Hmode.
  - assert (Hnm : ~ normal_mode (fl s)).
    { unfold normal_mode. rewrite Hfl in Hmode. intros [a b]. rewrite a, b in Hmode. discriminate. }
    pose proof (timeout_groups_E (length (trs s1)) (current_send_event (fl s1)) (cse_not_scrape _) (trs s1) uint32_max s1
                  (fl s) (now s) (s_up s) (s_comp s) (s_left s) Hfl Hnow eq_refl eq_refl eq_refl) as H.
    destruct (timeout_groups (length (trs s1)) (current_send_event (fl s1)) (trs s1) uint32_max s1) as [s' next].
    simpl in H.
    assert (H' : E (sent (fl s) (now s) (s_up s) (s_comp s) (s_left s) SrcTimer (current_send_event (fl s))
                     (fun t l => timer_C (fl s) (now s / usec) t l /\ (normal_mode (fl s) -> l = trs s))) s1 s').
    { eapply E_weaken; [| exact H]. intros r. apply sent_weaken. intros t l Ht.
      split; [split; [exact Ht | intros; contradiction] | intros; contradiction]. }
    destruct (negb (next =? uint32_max)); [| exact H'].
    eapply E_trans; [exact H' | apply E_update_timeout].
  - destruct (find_next_to_request (trs s1)) as [t |] eqn:Hfn; [| apply E_refl].
    destruct (activity_time_next t <=? now_s s1) eqn:Hle.
    + apply Z.leb_le in Hle. unfold now_s in Hle. rewrite Hnow in Hle.
      pose proof (atn_timer_ok _ _ Hle) as Hto.
      apply (send_event_E SrcTimer t (current_send_event (fl s1)) s1
               (fun t l => timer_C (fl s) (now s / usec) t l /\ (normal_mode (fl s) -> l = trs s))); [| apply cse_not_scrape].
      split; [split; [exact Hto | intros _; rewrite Htrs in Hfn; rewrite Htrs; auto] | intros _; exact Htrs].
    + apply E_update_timeout.
Qed.

(* ------------------------------------------------------------------ per-function specs *)

Definition same3 (f g : flags) : Prop :=
  f_start f = f_start g /\ f_completed f = f_completed g /\ f_stop f = f_stop g.

Definition stop_inv (f : flags) : Prop := f_stop f = true -> f_active f = false.

Ltac dfl s :=
  let f := fresh "f" in let Hf := fresh "Heqf" in
  remember (fl s) as f eqn:Hf; destruct f as [u c st sp a rq fa pr]; simpl in *.
Ltac ssplit := lazymatch goal with |- _ /\ _ => split; ssplit | _ => idtac end.
Ltac dbools := repeat match goal with b : bool |- _ => destruct b end; simpl in *; try tauto; try congruence; auto.

Definition ctxq (s : state) (r : req) : Prop := figures_ok (s_up s) (s_comp s) (s_left s) r.

Lemma keeps_set_fl s f : keeps s (set_fl s f).
Proof. apply keeps_same_trs; reflexivity. Qed.

Lemma keeps_ctl_close s : keeps s (ctl_close s).
Proof. apply keeps_same_trs; reflexivity. Qed.

(* send_start_event *)
Lemma send_start_event_spec s : let s' := send_start_event s in
  mask_excl (fl s') /\ f_start (fl s') = true /\ f_stop (fl s') = false /\ f_active (fl s') = f_active (fl s) /\
  keeps s s' /\ emits (fun r => site r /\ r_src r = SrcStart /\ ctxq s r) s s'.
Proof.
  simpl. unfold send_start_event.
  set (s1 := set_fl s _).
  assert (Hf1 : mask_excl (fl s1) /\ f_start (fl s1) = true /\ f_completed (fl s1) = false /\ f_stop (fl s1) = false /\ f_active (fl s1) = f_active (fl s))
    by (subst s1; simpl; unfold mask_excl; simpl; auto).
  assert (Hk1 : keeps s s1) by apply keeps_set_fl.
  destruct (negb (f_active (fl s1)) || negb (has_usable (trs s1))).
  - destruct Hf1 as (a&b&c&d&e). ssplit; auto; try apply Hk1. apply emits_same; reflexivity.
  - set (s2 := ctl_close s1).
    assert (Hf2 : mask_excl (fl s2) /\ f_start (fl s2) = true /\ f_completed (fl s2) = false /\ f_stop (fl s2) = false /\ f_active (fl s2) = f_active (fl s))
      by (subst s2; unfold ctl_close; simpl; exact Hf1).
    assert (Hk2 : keeps s s2) by (eapply keeps_trans; [exact Hk1 | apply keeps_ctl_close]).
    destruct (filter is_usable (trs s2)) as [| a rest].
    { destruct Hf2 as (a&b&c&d&e). ssplit; auto; try apply Hk2. apply emits_same; reflexivity. }
    pose proof (send_event_E SrcStart a EvStarted s2 (fun _ _ => True) I eq_refl) as [Hem (hfl & hk)].
    set (s3 := send_event SrcStart a EvStarted s2) in *.
    assert (Hsite : emits (fun r => site r /\ r_src r = SrcStart /\ ctxq s r) s s3).
    { apply emits_trans with (s2 := s2); [apply emits_same; reflexivity |].
      eapply emits_weaken; [| exact Hem].
      intros r (b & hf & _ & hs & he & _ & hfig). split; [| split; [exact hs | exact hfig]].
      unfold site. split; [assumption |]. rewrite hs, hf. destruct Hf2 as (_&b2&c2&_). ssplit; assumption. }
    assert (Hk3 : keeps s s3) by (eapply keeps_trans; [exact Hk2 | exact hk]).
    destruct Hf2 as (a2&b2&c2&d2&e2).
    destruct rest.
    + rewrite hfl. ssplit; auto; apply Hk3.
    + destruct (update_timeout_same start_promisc_timeout (set_promisc s3)) as (u1&u2&u3&u4&u5&u6&u7).
      destruct (update_timeout_j start_promisc_timeout (set_promisc s3)) as (u8&u9&u10).
      rewrite u1. simpl. rewrite hfl.
      match goal with |- mask_excl ?f /\ _ => assert (G1 : mask_excl f) by (unfold mask_excl in *; simpl; exact a2) end.
      assert (G2 : keeps s (update_timeout start_promisc_timeout (set_promisc s3)))
        by (eapply keeps_trans; [exact Hk3 |]; apply keeps_same_trs; assumption).
      assert (G3 : emits (fun r => site r /\ r_src r = SrcStart /\ ctxq s r) s (update_timeout start_promisc_timeout (set_promisc s3)))
        by (eapply emits_trans; [exact Hsite |]; apply emits_same; exact u2).
      ssplit; auto.
Qed.

Lemma send_to_in_use_E sr ev s : event_eqb ev EvScrape = false ->
  E (sent (fl s) (now s) (s_up s) (s_comp s) (s_left s) sr ev (fun t _ => is_in_use t = true)) s (send_to_in_use sr ev s).
Proof.
  intros Hns. unfold send_to_in_use. apply fold_send_E; auto.
  intros t Hin. apply filter_In in Hin. apply Hin.
Qed.

Lemma send_stop_event_spec s : let s' := send_stop_event s in
  mask_excl (fl s') /\ f_active (fl s') = f_active (fl s) /\ keeps s s' /\
  emits (fun r => site r /\ r_src r = SrcStop /\ ctxq s r) s s'.
Proof.
  simpl. unfold send_stop_event.
  set (s1 := set_fl s (clear_mask (fl s))).
  assert (Hm1 : mask_excl (fl s1) /\ f_active (fl s1) = f_active (fl s)) by (subst s1; simpl; unfold mask_excl; simpl; auto).
  assert (Hk1 : keeps s s1) by apply keeps_set_fl.
  destruct (negb (f_active (fl s1)) || negb (has_usable (trs s1))).
  - destruct Hm1. ssplit; auto; try apply Hk1. apply emits_same; reflexivity.
  - set (s2 := ctl_close (set_fl s1 _)).
    pose proof (send_to_in_use_E SrcStop EvStopped s2 eq_refl) as [Hem (hfl & hk)].
    ssplit.
    + rewrite hfl. subst s2 s1. unfold ctl_close, mask_excl. simpl. auto.
    + rewrite hfl. reflexivity.
    + eapply keeps_trans; [| exact hk]. apply keeps_same_trs; reflexivity.
    + apply emits_trans with (s2 := s2); [apply emits_same; reflexivity |].
      eapply emits_weaken; [| exact Hem].
      intros r (b & hf & _ & hs & he & hc & hfig). split; [| split; [exact hs | exact hfig]].
      unfold site. split; [assumption |]. rewrite hs, hf.
      subst s2 s1. unfold ctl_close. simpl. auto.
Qed.

Lemma send_completed_event_spec s : let s' := send_completed_event s in
  mask_excl (fl s') /\ f_stop (fl s') = false /\ f_active (fl s') = f_active (fl s) /\ keeps s s' /\
  emits (fun r => site r /\ r_src r = SrcCompleted /\ ctxq s r) s s'.
Proof.
  simpl. unfold send_completed_event.
  set (s1 := set_fl s _).
  assert (Hm1 : mask_excl (fl s1) /\ f_stop (fl s1) = false /\ f_active (fl s1) = f_active (fl s)) by (subst s1; simpl; unfold mask_excl; simpl; auto).
  assert (Hk1 : keeps s s1) by apply keeps_set_fl.
  destruct (negb (f_active (fl s1)) || negb (has_usable (trs s1))).
  - destruct Hm1 as (a&b&c). ssplit; auto; try apply Hk1. apply emits_same; reflexivity.
  - set (s2 := ctl_close s1).
    pose proof (send_to_in_use_E SrcCompleted EvCompleted s2 eq_refl) as [Hem (hfl & hk)].
    ssplit.
    + rewrite hfl. subst s2 s1. unfold ctl_close, mask_excl. simpl. auto.
    + rewrite hfl. reflexivity.
    + rewrite hfl. reflexivity.
    + eapply keeps_trans; [| exact hk]. apply keeps_same_trs; reflexivity.
    + apply emits_trans with (s2 := s2); [apply emits_same; reflexivity |].
      eapply emits_weaken; [| exact Hem].
      intros r (b & hf & _ & hs & he & hc & hfig). split; [| split; [exact hs | exact hfig]].
      unfold site. split; [assumption |]. rewrite hs, hf.
      subst s2 s1. unfold ctl_close. simpl. auto.
Qed.

Lemma send_update_event_spec s : let s' := send_update_event s in
  mask_excl (fl s) ->
  mask_excl (fl s') /\ same3 (fl s') (fl s) /\ f_active (fl s') = f_active (fl s) /\ keeps s s' /\
  emits (fun r => site r /\ r_src r = SrcUpdate /\ ctxq s r /\ same3 (r_fl r) (fl s) /\ f_active (fl s) = true) s s'.
Proof.
  simpl. intros Hm. unfold send_update_event.
  assert (Hs3 : same3 (fl s) (fl s)) by (unfold same3; auto).
  destruct (negb (f_active (fl s))) eqn:Hact; simpl.
  { ssplit; auto; try apply keeps_refl. apply emits_same; reflexivity. }
  destruct (negb (has_usable (trs s))); simpl.
  { ssplit; auto; try apply keeps_refl. apply emits_same; reflexivity. }
  apply negb_false_iff in Hact.
  destruct (mask_send (fl s) && has_active (trs s)).
  { ssplit; auto; try apply keeps_refl. apply emits_same; reflexivity. }
  set (s1 := if negb (mask_send (fl s)) then set_fl s _ else s).
  assert (H1 : mask_excl (fl s1) /\ same3 (fl s1) (fl s) /\ f_active (fl s1) = true /\ log s1 = log s /\ keeps s s1).
  { subst s1. destruct (mask_send (fl s)) eqn:Hms; simpl.
    - ssplit; auto. apply keeps_refl.
    - split; [| split; [| split; [| split; [reflexivity | apply keeps_set_fl]]]].
      + unfold mask_send in Hms. unfold mask_excl in *. dfl s. dbools.
      + unfold same3. simpl. auto.
      + simpl. assumption. }
  destruct H1 as (Hm1 & Hs1 & Ha1 & Hl1 & Hk1).
  destruct (filter is_usable (trs s1)) as [| a rest].
  { ssplit; try apply Hs1; auto; try apply Hk1; try congruence. apply emits_same; assumption. }
  pose proof (send_event_E SrcUpdate a (current_send_event (fl s1)) s1 (fun _ _ => True) I (cse_not_scrape _)) as [Hem (hfl & hk)].
  rewrite hfl.
  assert (G2 : keeps s (send_event SrcUpdate a (current_send_event (fl s1)) s1))
    by (eapply keeps_trans; [exact Hk1 | exact hk]).
  assert (G3 : emits (fun r => site r /\ r_src r = SrcUpdate /\ ctxq s r /\ same3 (r_fl r) (fl s) /\ f_active (fl s) = true)
                 s (send_event SrcUpdate a (current_send_event (fl s1)) s1)).
  { apply emits_trans with (s2 := s1); [apply emits_same; assumption |].
    eapply emits_weaken; [| exact Hem].
    intros r (b & hf & _ & hs & he & _ & hfig).
    assert (Hfig : ctxq s r).
    { destruct Hk1 as (_ & k1 & k2 & k3 & _). unfold ctxq. rewrite <- k1, <- k2, <- k3. exact hfig. }
    split; [| split; [exact hs | split; [exact Hfig | split; [rewrite hf; exact Hs1 | exact Hact]]]].
    unfold site. split; [assumption |]. rewrite hs, hf, he. auto. }
  ssplit; auto. congruence.
Qed.
