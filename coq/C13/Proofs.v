From Coq Require Import List ZArith Bool Lia Arith.
From LTV.C13 Require Import ParamsGen.
From LTV.C13 Require Import Model.
Import ListNotations.
Open Scope Z_scope.

(* ------------------------------------------------------------------ constants *)

(* side conditions on the constants re-extracted from /repo that the theorems rely on *)
Definition params_ok : bool :=
  (0 <? min_min) && (min_min <=? max_min) && (0 <? min_normal) && (min_normal <=? max_normal) &&
  (0 <? backoff_base) && (0 <=? backoff_cap) && (min_min <=? promisc_floor) &&
  (0 <? start_promisc_timeout) && (0 <? requesting_success_timeout).

Lemma params_ok_now : params_ok = true.
Proof. vm_compute. reflexivity. Qed.

Lemma params_facts :
  0 < min_min /\ min_min <= max_min /\ 0 < min_normal /\ min_normal <= max_normal /\ min_min <= promisc_floor.
Proof.
  pose proof params_ok_now as H. unfold params_ok in H.
  repeat (apply andb_prop in H; destruct H as [H ?]).
  repeat match goal with
         | h : (_ <? _) = true |- _ => apply Z.ltb_lt in h
         | h : (_ <=? _) = true |- _ => apply Z.leb_le in h
         end.
  repeat split; assumption.
Qed.

Global Opaque min_min max_min min_normal max_normal backoff_base backoff_cap promisc_floor
       start_promisc_timeout requesting_success_timeout.

(* the back-off table as the property states it: min(base * 2^(k-1), min_min), shift capped *)
Lemma backoff_le k : backoff k <= min_min.
Proof. unfold backoff. lia. Qed.

(* ------------------------------------------------------------------ what a log entry must satisfy *)

Definition base_ok (r : req) : Prop :=
  r_repl r = t_busy (r_pre r) /\ r_id r = t_id (r_pre r) /\ t_en (r_pre r) = true /\
  (t_busy (r_pre r) = true -> r_ev r <> EvNone /\ r_ev r <> t_ev (r_pre r)).

(* no-hammer condition at a timer-driven send, [nows] = cached_seconds *)
Definition retry_wait (t : tracker) : Z := if min_min <? t_mi t then t_mi t else backoff (t_fc t).

Definition timer_ok (nows : Z) (t : tracker) : Prop :=
  (t_fc t <> 0 -> t_ftl t + retry_wait t <= nows) /\
  (t_fc t = 0 -> t_sc t <> 0 -> t_stl t + Z.min (t_ni t) (Z.max (t_mi t) promisc_floor) <= nows).

Definition mask_excl (f : flags) : Prop :=
  match f_update f, f_completed f, f_start f, f_stop f with
  | false, false, false, false | true, false, false, false | false, true, false, false
  | false, false, true, false | false, false, false, true => True
  | _, _, _, _ => False
  end.

Definition site (r : req) : Prop :=
  base_ok r /\
  match r_src r with
  | SrcStart => r_ev r = EvStarted /\ f_start (r_fl r) = true /\ f_completed (r_fl r) = false
  | SrcStop => r_ev r = EvStopped /\ is_in_use (r_pre r) = true /\ f_start (r_fl r) = false /\ f_completed (r_fl r) = false
  | SrcCompleted => r_ev r = EvCompleted /\ is_in_use (r_pre r) = true /\ f_start (r_fl r) = false /\ f_completed (r_fl r) = true
  | SrcUpdate => r_ev r = EvNone
  | SrcTimer => r_ev r = current_send_event (r_fl r) /\ mask_excl (r_fl r) /\ f_active (r_fl r) = true /\
                timer_ok (r_time r / usec) (r_pre r)
  end.

Definition figures_ok (up comp lft : Z) (r : req) : Prop :=
  r_up r = Z.max up 0 /\ r_comp r = Z.max comp 0 /\ r_left r = lft.

(* ------------------------------------------------------------------ emits / frame *)

Definition emits (Q : req -> Prop) (s s' : state) : Prop :=
  exists new, log s' = new ++ log s /\ Forall Q new.

Definition frame (s s' : state) : Prop :=
  fl s' = fl s /\ now s' = now s /\ s_up s' = s_up s /\ s_comp s' = s_comp s /\ s_left s' = s_left s.

Definition E (Q : req -> Prop) (s s' : state) : Prop := emits Q s s' /\ frame s s'.

Lemma emits_same Q s s' : log s' = log s -> emits Q s s'.
Proof. intros H. exists []. split; [rewrite H; reflexivity | constructor]. Qed.

Lemma emits_trans Q s1 s2 s3 : emits Q s1 s2 -> emits Q s2 s3 -> emits Q s1 s3.
Proof.
  intros [n1 [H1 F1]] [n2 [H2 F2]]. exists (n2 ++ n1). split.
  - rewrite H2, H1, app_assoc. reflexivity.
  - apply Forall_app. split; assumption.
Qed.

Lemma emits_weaken (Q Q' : req -> Prop) s s' : (forall r, Q r -> Q' r) -> emits Q s s' -> emits Q' s s'.
Proof. intros W [n [H F]]. exists n. split; [assumption|]. eapply Forall_impl; eauto. Qed.

Lemma frame_refl s : frame s s.
Proof. unfold frame. auto. Qed.

Lemma frame_trans s1 s2 s3 : frame s1 s2 -> frame s2 s3 -> frame s1 s3.
Proof. unfold frame. intros (a&b&c&d&e) (a'&b'&c'&d'&e'). repeat split; congruence. Qed.

Lemma E_same Q s s' : log s' = log s -> frame s s' -> E Q s s'.
Proof. intros. split; [apply emits_same|]; assumption. Qed.

Lemma E_trans Q s1 s2 s3 : E Q s1 s2 -> E Q s2 s3 -> E Q s1 s3.
Proof. intros [a b] [c d]. split; [eapply emits_trans | eapply frame_trans]; eauto. Qed.

Lemma E_weaken (Q Q' : req -> Prop) s s' : (forall r, Q r -> Q' r) -> E Q s s' -> E Q' s s'.
Proof. intros W [a b]. split; [eapply emits_weaken; eauto | assumption]. Qed.

Lemma E_update_timeout Q n s : E Q s (update_timeout n s).
Proof. unfold update_timeout. destruct (n =? 0); apply E_same; unfold frame; simpl; auto. Qed.

Lemma E_erase Q s : E Q s (erase_timeout s).
Proof. apply E_same; unfold frame; simpl; auto. Qed.

(* ------------------------------------------------------------------ send_event *)

Lemma event_eqb_false a b : event_eqb a b = false -> a <> b.
Proof. destruct a, b; simpl; congruence. Qed.

(* the predicate established by one send from a context (flags F, time T, figures) *)
Definition sent (F : flags) (T up comp lft : Z) (sr : src) (ev : event) (C : tracker -> Prop) (r : req) : Prop :=
  base_ok r /\ r_fl r = F /\ r_time r = T /\ r_src r = sr /\ r_ev r = ev /\ C (r_pre r) /\ figures_ok up comp lft r.

Lemma send_event_E sr t ev s (C : tracker -> Prop) :
  C t -> E (sent (fl s) (now s) (s_up s) (s_comp s) (s_left s) sr ev C) s (send_event sr t ev s).
Proof.
  intros HC. unfold send_event.
  destruct (is_usable t) eqn:Hu; simpl; [| apply E_same; [reflexivity | apply frame_refl]].
  destruct (t_busy t && (event_eqb (t_ev t) ev || event_eqb ev EvNone)) eqn:Hg;
    [apply E_same; [reflexivity | apply frame_refl] |].
  split; [| unfold frame; simpl; auto].
  assert (Hbusy : t_busy t = true -> ev <> EvNone /\ ev <> t_ev t).
  { intros Hb. rewrite Hb in Hg. simpl in Hg. apply orb_false_elim in Hg. destruct Hg as [H1 H2].
    apply event_eqb_false in H1. apply event_eqb_false in H2. split; congruence. }
  eexists [_]. split; [reflexivity|]. constructor; [| constructor].
  unfold sent, base_ok, figures_ok; simpl. tauto.
Qed.

Lemma fold_send_E sr ev (C : tracker -> Prop) l : forall s F T up comp lft,
  fl s = F -> now s = T -> s_up s = up -> s_comp s = comp -> s_left s = lft ->
  (forall t, In t l -> C t) ->
  E (sent F T up comp lft sr ev C) s (fold_left (fun s t => send_event sr t ev s) l s).
Proof.
  induction l as [| t l IH]; intros s F T up comp lft HF HT Hu Hc Hl HC; simpl.
  - apply E_same; [reflexivity | apply frame_refl].
  - pose proof (send_event_E sr t ev s C (HC t (or_introl eq_refl))) as H1.
    rewrite HF, HT, Hu, Hc, Hl in H1.
    eapply E_trans; [exact H1|].
    destruct H1 as [_ (a&b&c&d&e)].
    apply IH; try congruence. intros. apply HC. right. assumption.
Qed.

(* ------------------------------------------------------------------ timing facts at the two timer sites *)

Definition nows_of (T : Z) := T / usec.

Lemma atn_timer_ok nows t : activity_time_next t <= nows -> timer_ok nows t.
Proof.
  pose proof params_facts as (p1&p2&p3&p4&p5).
  unfold timer_ok, activity_time_next, failed_time_next, success_time_next, retry_wait. intros H. split.
  - intros Hf. apply Z.eqb_neq in Hf. rewrite Hf in H. simpl in H.
    destruct (min_min <? t_mi t); lia.
  - intros Hf Hs. rewrite Hf in H. simpl in H. apply Z.eqb_neq in Hs. rewrite Hs in H. lia.
Qed.

Lemma ntp_timer_ok nows t : next_timeout_promiscuous nows t = 0 -> timer_ok nows t.
Proof.
  pose proof params_facts as (p1&p2&p3&p4&p5).
  unfold next_timeout_promiscuous. destruct (t_busy t || negb (is_usable t)).
  - unfold uint32_max. discriminate.
  - unfold timer_ok, failed_time_next, activity_time_last, retry_wait. intros H. split.
    + intros Hf. apply Z.eqb_neq in Hf. rewrite Hf in H. simpl in H.
      pose proof (backoff_le (t_fc t)).
      destruct (min_min <? t_mi t) eqn:Hm; [apply Z.ltb_lt in Hm | apply Z.ltb_ge in Hm]; lia.
    + intros Hf Hs. rewrite Hf in H. simpl in H. lia.
Qed.

Lemma find_preferred_zero nows seg : forall pref ptl next p n',
  find_preferred nows seg pref ptl next = (Some p, n') ->
  pref = Some p \/ next_timeout_promiscuous nows p = 0.
Proof.
  induction seg as [| t r IH]; intros pref ptl next p n' H; simpl in H.
  - inversion H. left. reflexivity.
  - destruct (negb (next_timeout_promiscuous nows t =? 0)) eqn:Hz.
    + eapply IH; eauto.
    + apply negb_false_iff in Hz. apply Z.eqb_eq in Hz.
      destruct (activity_time_last t <? ptl).
      * apply IH in H. destruct H as [H | H]; [inversion H; subst; right; assumption | right; assumption].
      * eapply IH; eauto.
Qed.

(* ------------------------------------------------------------------ do_timeout *)

Definition timer_sent (s : state) :=
  sent (fl s) (now s) (s_up s) (s_comp s) (s_left s) SrcTimer (current_send_event (fl s)) (timer_ok (now s / usec)).

Lemma timeout_groups_E fuel ev : forall rest next s F T up comp lft,
  fl s = F -> now s = T -> s_up s = up -> s_comp s = comp -> s_left s = lft ->
  E (sent F T up comp lft SrcTimer ev (timer_ok (T / usec))) s (fst (timeout_groups fuel ev rest next s)).
Proof.
  induction fuel as [| fuel IH]; intros rest next s F T up comp lft HF HT Hu Hc Hl; simpl.
  - apply E_same; [reflexivity | apply frame_refl].
  - destruct rest as [| itr rest']; simpl; [apply E_same; [reflexivity | apply frame_refl] |].
    set (after := if Nat.ltb (t_group itr) (S (t_group itr)) then drop_while (fun t => Nat.ltb (t_group t) (S (t_group itr))) rest' else itr :: rest').
    destruct (has_active_in_group (t_group itr) (trs s)); [apply IH; assumption |].
    assert (Hn : now_s s = T / usec) by (unfold now_s; rewrite HT; reflexivity).
    destruct (negb (is_usable itr) || negb (t_fc itr =? 0)).
    + destruct (find_preferred (now_s s) _ None uint32_max next) as [pref next'] eqn:Hfp.
      destruct pref as [p |]; [| apply IH; assumption].
      apply find_preferred_zero in Hfp. destruct Hfp as [Hfp | Hfp]; [discriminate |].
      rewrite Hn in Hfp. apply ntp_timer_ok in Hfp.
      pose proof (send_event_E SrcTimer p ev s (timer_ok (T / usec)) Hfp) as H1.
      rewrite HF, HT, Hu, Hc, Hl in H1.
      eapply E_trans; [exact H1 |]. destruct H1 as [_ (a&b&c&d&e)].
      apply IH; congruence.
    + destruct (negb (next_timeout_promiscuous (now_s s) itr =? 0)) eqn:Hz; [apply IH; assumption |].
      apply negb_false_iff in Hz. apply Z.eqb_eq in Hz. rewrite Hn in Hz. apply ntp_timer_ok in Hz.
      pose proof (send_event_E SrcTimer itr ev s (timer_ok (T / usec)) Hz) as H1.
      rewrite HF, HT, Hu, Hc, Hl in H1.
      eapply E_trans; [exact H1 |]. destruct H1 as [_ (a&b&c&d&e)].
      apply IH; congruence.
Qed.

Lemma do_timeout_E s :
  E (fun r => timer_sent s r /\ f_active (fl s) = true) s (do_timeout s).
Proof.
  unfold do_timeout.
  assert (He : E (fun r => timer_sent s r /\ f_active (fl s) = true) s (erase_timeout s)) by apply E_erase.
  set (s1 := erase_timeout s) in *.
  assert (Hfl : fl s1 = fl s) by reflexivity.
  assert (Hnow : now s1 = now s) by reflexivity.
  destruct (negb (f_active (fl s1)) || negb (has_usable (trs s1))) eqn:Hact; [exact He |].
  apply orb_false_elim in Hact. destruct Hact as [Hact _]. apply negb_false_iff in Hact. rewrite Hfl in Hact.
  eapply E_trans; [exact He |].
  apply E_weaken with (Q := timer_sent s); [intros; split; assumption |].
  unfold timer_sent.
  destruct (f_promisc (fl s1) || f_requesting (fl s1)).
  - pose proof (timeout_groups_E (length (trs s1)) (current_send_event (fl s1)) (trs s1) uint32_max s1
                  (fl s) (now s) (s_up s) (s_comp s) (s_left s) Hfl Hnow eq_refl eq_refl eq_refl) as H.
    destruct (timeout_groups (length (trs s1)) (current_send_event (fl s1)) (trs s1) uint32_max s1) as [s' next].
    simpl in H. try rewrite Hfl in H.
    destruct (negb (next =? uint32_max)); [| exact H].
    eapply E_trans; [exact H | apply E_update_timeout].
  - destruct (find_next_to_request (trs s1)) as [t |]; [| apply E_same; [reflexivity | apply frame_refl]].
    destruct (activity_time_next t <=? now_s s1) eqn:Hle.
    + apply Z.leb_le in Hle. unfold now_s in Hle. rewrite Hnow in Hle. apply atn_timer_ok in Hle.
      pose proof (send_event_E SrcTimer t (current_send_event (fl s1)) s1 (timer_ok (now s / usec)) Hle) as H.
      exact H.
    + apply E_update_timeout.
Qed.

(* every timer-driven entry satisfies [site] when the flags are exclusive *)
Lemma timer_sent_site s r : mask_excl (fl s) -> timer_sent s r /\ f_active (fl s) = true -> site r.
Proof.
  intros Hm [(b & hfl & ht & hsrc & hev & hc & _) Ha]. unfold site. split; [assumption |].
  rewrite hsrc, hfl, ht. tauto.
Qed.

(* ------------------------------------------------------------------ invariant of all reachable states *)

Definition clamps (t : tracker) : Prop :=
  min_normal <= t_ni t <= max_normal /\ min_min <= t_mi t <= max_min.

Definition tinv (l : list tracker) : Prop := Forall clamps l.

Definition figs_site (s : state) (r : req) : Prop := True.

Definition Inv (s : state) : Prop :=
  mask_excl (fl s) /\ Forall site (log s).

Lemma inv_of_emits s s' : Forall site (log s) -> emits site s s' -> Forall site (log s').
Proof. intros H [n [Hl Hn]]. rewrite Hl. apply Forall_app. split; assumption. Qed.

(* flags-only helpers *)
Ltac dflags f := destruct f as [u c st sp a rq fa pr]; simpl in *.
Ltac dbools := repeat match goal with b : bool |- _ => destruct b end; simpl in *; try tauto; try congruence; auto.

Lemma set_fl_log s f : log (set_fl s f) = log s. Proof. reflexivity. Qed.

Definition nt_site (r : req) : Prop := site r /\ r_src r <> SrcTimer.

(* send_start_event *)
Lemma send_start_event_spec s :
  mask_excl (fl (send_start_event s)) /\ emits nt_site s (send_start_event s).
Proof.
  unfold send_start_event.
  set (s1 := set_fl s _).
  assert (Hf1 : (f_start (fl s1) = true /\ f_completed (fl s1) = false) /\ mask_excl (fl s1)) by (subst s1; simpl; unfold mask_excl; simpl; auto).
  destruct (negb (f_active (fl s1)) || negb (has_usable (trs s1))).
  - split; [apply Hf1 | apply emits_same; reflexivity].
  - set (s2 := ctl_close s1).
    assert (Hf2 : (f_start (fl s2) = true /\ f_completed (fl s2) = false) /\ mask_excl (fl s2)) by (subst s2; unfold ctl_close; simpl; exact Hf1).
    destruct (filter is_usable (trs s2)) as [| a rest]; [split; [apply Hf2 | apply emits_same; reflexivity] |].
    pose proof (send_event_E SrcStart a EvStarted s2 (fun _ => True) I) as [Hem (hfl & _)].
    assert (Hsite : emits nt_site s (send_event SrcStart a EvStarted s2)).
    { apply emits_trans with (s2 := s2); [apply emits_same; reflexivity |].
      eapply emits_weaken; [| exact Hem].
      intros r (b & hf & _ & hs & he & _). split; [| rewrite hs; discriminate]. unfold site. split; [assumption |]. rewrite hs, hf. split; [assumption | apply Hf2]. }
    destruct rest.
    + split; [rewrite hfl; apply Hf2 | exact Hsite].
    + split.
      * unfold update_timeout. destruct (_ =? 0); simpl; rewrite hfl; destruct Hf2 as [_ Hm];
          unfold mask_excl in *; simpl; exact Hm.
      * eapply emits_trans; [exact Hsite |]. apply emits_same. unfold update_timeout. destruct (_ =? 0); reflexivity.
Qed.

Lemma send_to_in_use_E sr ev s :
  E (sent (fl s) (now s) (s_up s) (s_comp s) (s_left s) sr ev (fun t => is_in_use t = true)) s (send_to_in_use sr ev s).
Proof.
  unfold send_to_in_use. apply fold_send_E; auto.
  intros t Hin. apply filter_In in Hin. apply Hin.
Qed.

Lemma send_stop_event_spec s :
  mask_excl (fl (send_stop_event s)) /\ emits nt_site s (send_stop_event s).
Proof.
  unfold send_stop_event.
  set (s1 := set_fl s (clear_mask (fl s))).
  assert (Hm1 : mask_excl (fl s1)) by (subst s1; simpl; unfold mask_excl; simpl; auto).
  destruct (negb (f_active (fl s1)) || negb (has_usable (trs s1))).
  - split; [assumption | apply emits_same; reflexivity].
  - set (s2 := ctl_close (set_fl s1 _)).
    pose proof (send_to_in_use_E SrcStop EvStopped s2) as [Hem (hfl & _)].
    split.
    + rewrite hfl. subst s2 s1. unfold ctl_close, mask_excl. simpl. auto.
    + apply emits_trans with (s2 := s2); [apply emits_same; reflexivity |].
      eapply emits_weaken; [| exact Hem].
      intros r (b & hf & _ & hs & he & hc & _). split; [| rewrite hs; discriminate]. unfold site. split; [assumption |]. rewrite hs, hf.
      subst s2 s1. unfold ctl_close. simpl. auto.
Qed.

Lemma send_completed_event_spec s :
  mask_excl (fl (send_completed_event s)) /\ emits nt_site s (send_completed_event s).
Proof.
  unfold send_completed_event.
  set (s1 := set_fl s _).
  assert (Hm1 : mask_excl (fl s1)) by (subst s1; simpl; unfold mask_excl; simpl; auto).
  destruct (negb (f_active (fl s1)) || negb (has_usable (trs s1))).
  - split; [assumption | apply emits_same; reflexivity].
  - set (s2 := ctl_close s1).
    pose proof (send_to_in_use_E SrcCompleted EvCompleted s2) as [Hem (hfl & _)].
    split.
    + rewrite hfl. subst s2 s1. unfold ctl_close, mask_excl. simpl. auto.
    + apply emits_trans with (s2 := s2); [apply emits_same; reflexivity |].
      eapply emits_weaken; [| exact Hem].
      intros r (b & hf & _ & hs & he & hc & _). split; [| rewrite hs; discriminate]. unfold site. split; [assumption |]. rewrite hs, hf.
      subst s2 s1. unfold ctl_close. simpl. auto.
Qed.

Lemma send_update_event_spec s :
  mask_excl (fl s) -> mask_excl (fl (send_update_event s)) /\ emits nt_site s (send_update_event s).
Proof.
  intros Hm. unfold send_update_event.
  destruct (negb (f_active (fl s)) || negb (has_usable (trs s))); [split; [assumption | apply emits_same; reflexivity] |].
  destruct (mask_send (fl s) && has_active (trs s)); [split; [assumption | apply emits_same; reflexivity] |].
  set (s1 := if negb (mask_send (fl s)) then set_fl s _ else s).
  assert (Hm1 : mask_excl (fl s1) /\ log s1 = log s).
  { subst s1. destruct (mask_send (fl s)) eqn:Hms; simpl; [auto |].
    split; [| reflexivity]. unfold mask_send in Hms. unfold mask_excl in *. dflags (fl s). dbools. }
  destruct Hm1 as [Hm1 Hl1].
  destruct (filter is_usable (trs s1)) as [| a rest]; [split; [assumption | apply emits_same; assumption] |].
  pose proof (send_event_E SrcUpdate a EvNone s1 (fun _ => True) I) as [Hem (hfl & _)].
  split; [rewrite hfl; assumption |].
  apply emits_trans with (s2 := s1); [apply emits_same; assumption |].
  eapply emits_weaken; [| exact Hem].
  intros r (b & hf & _ & hs & he & _). split; [| rewrite hs; discriminate]. unfold site. split; [assumption |]. rewrite hs. assumption.
Qed.

Lemma do_timeout_spec s :
  mask_excl (fl s) -> fl (do_timeout s) = fl s /\ emits (fun r => site r /\ r_fl r = fl s) s (do_timeout s).
Proof.
  intros Hm. pose proof (do_timeout_E s) as [Hem (hfl & _)]. split; [assumption |].
  eapply emits_weaken; [| exact Hem]. intros r H. split; [eapply timer_sent_site; eauto |].
  destruct H as [(_ & h & _) _]. exact h.
Qed.

(* what one step adds to the log *)
Definition step_site (s : state) (r : req) : Prop :=
  site r /\ (r_src r = SrcTimer -> f_stop (r_fl r) = f_stop (fl s)).

Lemma lift_nt s0 s s' : emits nt_site s s' -> emits (step_site s0) s s'.
Proof. apply emits_weaken. intros r [a b]. split; [exact a | intros; contradiction]. Qed.

Lemma lift_same s0 s s' : log s' = log s -> emits (step_site s0) s s'.
Proof. apply emits_same. Qed.

Lemma update_timeout_fl n s : fl (update_timeout n s) = fl s /\ log (update_timeout n s) = log s.
Proof. unfold update_timeout. destruct (n =? 0); auto. Qed.

Lemma step_spec s o :
  mask_excl (fl s) -> mask_excl (fl (step s o)) /\ emits (step_site s) s (step s o).
Proof.
  intros Hm. destruct o; simpl.
  - (* OEnable *) unfold ctl_enable. destruct (f_active (fl s)) eqn:Ha; [split; [assumption | apply emits_same; reflexivity] |].
    split.
    + match goal with |- mask_excl (fl (update_timeout ?n ?x)) => rewrite (proj1 (update_timeout_fl n x)) end.
      destruct reset; simpl; unfold mask_excl in *; dflags (fl s); dbools.
    + apply emits_same. match goal with |- log (update_timeout ?n ?x) = _ => rewrite (proj2 (update_timeout_fl n x)) end.
      destruct reset; reflexivity.
  - (* ODisable *) unfold ctl_disable. destruct (negb (f_active (fl s))); (split; [| apply emits_same; reflexivity]); auto;
      try (simpl; unfold mask_excl in *; dflags (fl s); dbools).
  - (* OClose *) unfold ctl_close. split; [| apply emits_same; reflexivity]. simpl. unfold mask_excl in *. dflags (fl s). dbools.
  - destruct (send_start_event_spec s). split; [assumption | apply lift_nt; assumption].
  - destruct (send_stop_event_spec s). split; [assumption | apply lift_nt; assumption].
  - destruct (send_completed_event_spec s). split; [assumption | apply lift_nt; assumption].
  - destruct (send_update_event_spec s Hm). split; [assumption | apply lift_nt; assumption].
  - unfold manual_request. destruct (tmo s); [destruct (send_update_event_spec s Hm); split; [assumption | apply lift_nt; assumption] | split; [assumption | apply emits_same; reflexivity]].
  - (* OStartRequesting *) unfold start_requesting. destruct (f_requesting (fl s)); [split; [assumption | apply emits_same; reflexivity] |].
    destruct (f_active (fl s)).
    + split; [rewrite (proj1 (update_timeout_fl _ _)) | apply emits_same; rewrite (proj2 (update_timeout_fl _ _)); reflexivity].
      simpl. unfold mask_excl in *. dflags (fl s). dbools.
    + split; [| apply emits_same; reflexivity]. simpl. unfold mask_excl in *. dflags (fl s). dbools.
  - (* OStopRequesting *) unfold stop_requesting. destruct (negb (f_requesting (fl s))); (split; [| apply emits_same; reflexivity]); auto;
      try (simpl; unfold mask_excl in *; dflags (fl s); dbools).
  - (* OTrackerEnable *) unfold tracker_enable. destruct (find_id (trs s) id); [| split; [assumption | apply emits_same; reflexivity]].
    destruct (t_en t); [split; [assumption | apply emits_same; reflexivity] |].
    match goal with |- context [if ?c then _ else if ?d then _ else _] => destruct c; [split; [assumption | apply emits_same; reflexivity] | destruct d] end.
    + split; [rewrite (proj1 (update_timeout_fl _ _)); assumption | apply emits_same; rewrite (proj2 (update_timeout_fl _ _)); reflexivity].
    + split; [assumption | apply emits_same; reflexivity].
  - (* OTrackerDisable *) unfold tracker_disable. destruct (find_id (trs s) id); [| split; [assumption | apply emits_same; reflexivity]].
    destruct (negb (t_en t)); [split; [assumption | apply emits_same; reflexivity] |].
    match goal with |- context [if ?c then _ else _] => destruct c end.
    + split; [rewrite (proj1 (update_timeout_fl _ _)); assumption | apply emits_same; rewrite (proj2 (update_timeout_fl _ _)); reflexivity].
    + split; [assumption | apply emits_same; reflexivity].
  - (* OCycle *) split; [assumption | apply emits_same; reflexivity].
  - (* OSuccess *) unfold reply_success. destruct (find_id (trs s) id); [| split; [assumption | apply emits_same; reflexivity]].
    destruct (negb (t_busy t)); [split; [assumption | apply emits_same; reflexivity] |].
    unfold ctl_receive_success. simpl.
    destruct (negb (f_active (fl s))); [split; [assumption | apply emits_same; reflexivity] |].
    assert (Hc : mask_excl (mkF false false false false (f_active (fl s)) (f_requesting (fl s)) false false)) by (unfold mask_excl; simpl; auto).
    destruct (f_requesting (fl s)).
    + split; [rewrite (proj1 (update_timeout_fl _ _)); exact Hc | apply emits_same; rewrite (proj2 (update_timeout_fl _ _)); reflexivity].
    + match goal with |- context [if ?c then _ else _] => destruct c end; [| split; [exact Hc | apply emits_same; reflexivity]].
      match goal with |- context [match ?c with Some _ => _ | None => _ end] => destruct c end.
      * split; [rewrite (proj1 (update_timeout_fl _ _)); exact Hc | apply emits_same; rewrite (proj2 (update_timeout_fl _ _)); reflexivity].
      * split; [exact Hc | apply emits_same; reflexivity].
  - (* OFailure *) unfold reply_failure. destruct (find_id (trs s) id); [| split; [assumption | apply emits_same; reflexivity]].
    destruct (negb (t_busy t)); [split; [assumption | apply emits_same; reflexivity] |].
    simpl. destruct (negb (f_active (fl s))); [split; [assumption | apply emits_same; reflexivity] |].
    match goal with |- context [do_timeout ?x] =>
      assert (Hx : mask_excl (fl x)) by (simpl; unfold mask_excl in *; dflags (fl s); dbools);
      destruct (do_timeout_spec x Hx) as [hf he]; split; [rewrite hf; exact Hx |];
      apply emits_trans with (s2 := x); [apply emits_same; reflexivity |];
      eapply emits_weaken; [| exact he]; intros r [hs hf']; split; [exact hs | intros _; rewrite hf'; reflexivity] end.
  - (* OAdvance *) unfold perform. simpl. destruct (tmo s); [| split; [assumption | apply emits_same; reflexivity]].
    match goal with |- context [if ?c then _ else _] => destruct c end; [| split; [assumption | apply emits_same; reflexivity]].
    match goal with |- context [do_timeout ?x] =>
      assert (Hx : mask_excl (fl x)) by (simpl; exact Hm);
      destruct (do_timeout_spec x Hx) as [hf he]; split; [rewrite hf; exact Hx |];
      apply emits_trans with (s2 := x); [apply emits_same; reflexivity |];
      eapply emits_weaken; [| exact he]; intros r [hs hf']; split; [exact hs | intros _; rewrite hf'; reflexivity] end.
  - (* ONext *) destruct (tmo s) eqn:Ht; [| split; [assumption | apply emits_same; reflexivity]].
    unfold perform. simpl. rewrite Ht.
    match goal with |- context [if ?c then _ else _] => destruct c end; [| split; [assumption | apply emits_same; reflexivity]].
    match goal with |- context [do_timeout ?x] =>
      assert (Hx : mask_excl (fl x)) by (simpl; exact Hm);
      destruct (do_timeout_spec x Hx) as [hf he]; split; [rewrite hf; exact Hx |];
      apply emits_trans with (s2 := x); [apply emits_same; reflexivity |];
      eapply emits_weaken; [| exact he]; intros r [hs hf']; split; [exact hs | intros _; rewrite hf'; reflexivity] end.
  - (* OStats *) split; [assumption | apply emits_same; reflexivity].
  - (* OStart *) destruct skip_tracker.
    + unfold ctl_enable. destruct (f_active (fl s)); [split; [assumption | apply emits_same; reflexivity] |].
      split; [rewrite (proj1 (update_timeout_fl _ _)) | apply emits_same; rewrite (proj2 (update_timeout_fl _ _)); reflexivity].
      simpl. unfold mask_excl in *. dflags (fl s). dbools.
    + destruct (send_start_event_spec (ctl_enable true s)) as [h1 h2]. split; [assumption |].
      eapply emits_trans; [| apply lift_nt; exact h2]. apply emits_same.
      unfold ctl_enable. destruct (f_active (fl s)); [reflexivity |]. rewrite (proj2 (update_timeout_fl _ _)). reflexivity.
  - (* OStop *) destruct skip_tracker.
    + unfold ctl_disable. destruct (negb (f_active (fl s))); (split; [| apply emits_same; reflexivity]); auto;
      try (simpl; unfold mask_excl in *; dflags (fl s); dbools).
    + destruct (send_stop_event_spec s) as [h1 h2].
      apply (lift_nt s) in h2.
      unfold ctl_disable. destruct (negb (f_active (fl (send_stop_event s)))); [split; assumption |].
      split; [| eapply emits_trans; [exact h2 | apply emits_same; reflexivity]].
      simpl. unfold mask_excl in *. dflags (fl (send_stop_event s)). dbools.
Qed.

Lemma Inv_step s o : Inv s -> Inv (step s o).
Proof.
  intros [Hm Hl]. destruct (step_spec s o Hm) as [Hm' He]. split; [assumption | eapply inv_of_emits; eauto].
  eapply emits_weaken; [| exact He]. intros r [a _]. exact a.
Qed.

Lemma Inv_run ops : forall s, Inv s -> Inv (run s ops).
Proof. induction ops as [| o ops IH]; intros s H; simpl; [assumption | apply IH, Inv_step, H]. Qed.

Lemma Inv_init t0 groups : Inv (init t0 groups).
Proof. split; [unfold mask_excl; simpl; auto | constructor]. Qed.

Lemma reachable_site t0 groups ops r :
  In r (log (run (init t0 groups) ops)) -> site r.
Proof.
  intros Hin. pose proof (Inv_run ops _ (Inv_init t0 groups)) as [_ H].
  rewrite Forall_forall in H. apply H. assumption.
Qed.

(* ------------------------------------------------------------------ the theorems *)

Section Theorems.
Variables (t0 : Z) (groups : list nat) (ops : list op) (r : req).
Hypothesis Hin : In r (log (run (init t0 groups) ops)).

(* at most one announce per tracker: a request to a busy tracker is a *different*, non-plain
   event replacing the pending one; requests only go to enabled trackers *)
Lemma one_in_flight :
  t_en (r_pre r) = true /\ r_repl r = t_busy (r_pre r) /\
  (t_busy (r_pre r) = true -> r_ev r <> EvNone /\ r_ev r <> t_ev (r_pre r)).
Proof. destruct (reachable_site _ _ _ _ Hin) as [(a & b & c & d) _]. auto. Qed.

Lemma mask_excl_start f : mask_excl f -> f_start f = true -> current_send_event f = EvStarted.
Proof. unfold mask_excl, current_send_event. dflags f. dbools. Qed.

Lemma mask_excl_completed f : mask_excl f -> f_completed f = true -> current_send_event f = EvCompleted.
Proof. unfold mask_excl, current_send_event. dflags f. dbools. Qed.

(* while the controller's 'start pending' flag is set, every announce except the one made by
   send_update_event (manual request) carries STARTED *)
Lemma started_carried :
  f_start (r_fl r) = true -> r_src r <> SrcUpdate -> r_ev r = EvStarted.
Proof.
  intros Hf Hs. destruct (reachable_site _ _ _ _ Hin) as [_ H].
  destruct (r_src r); try tauto; try (destruct H as (? & ? & ? & ?); congruence).
  destruct H as (he & hm & _). rewrite he. apply mask_excl_start; assumption.
Qed.

Lemma completed_carried :
  f_completed (r_fl r) = true -> r_src r <> SrcUpdate -> r_ev r = EvCompleted.
Proof.
  intros Hf Hs. destruct (reachable_site _ _ _ _ Hin) as [_ H].
  destruct (r_src r); try tauto; try (destruct H as (? & ? & ? & ?); congruence).
  - destruct H as (? & ? & ?). congruence.
  - destruct H as (he & hm & _). rewrite he. apply mask_excl_completed; assumption.
Qed.

(* STOPPED is only ever produced by send_stop_event (to trackers that were successfully used) or
   by the timer while the controller is active with the stop flag still set. *)
Lemma stopped_sites :
  r_ev r = EvStopped ->
  (r_src r = SrcStop /\ is_in_use (r_pre r) = true) \/
  (r_src r = SrcTimer /\ f_stop (r_fl r) = true /\ f_active (r_fl r) = true).
Proof.
  intros He. destruct (reachable_site _ _ _ _ Hin) as [_ H].
  destruct (r_src r).
  - destruct H as (h & _). congruence.
  - left. split; [reflexivity | apply H].
  - destruct H as (h & _). congruence.
  - congruence.
  - right. destruct H as (he & hm & ha & _). split; [reflexivity |]. split; [| assumption].
    rewrite He in he. unfold mask_excl, current_send_event in *. dflags (r_fl r). dbools.
Qed.

(* no hammering of a failed tracker: a timer-driven announce to a tracker with k > 0 consecutive
   failures is at least retry_wait = (min_interval if the tracker raised it above min_min, else
   min(base * 2^min(k-1,cap), min_min)) seconds after the last failure *)
Lemma backoff_respected :
  r_src r = SrcTimer -> t_fc (r_pre r) <> 0 ->
  t_ftl (r_pre r) + retry_wait (r_pre r) <= r_time r / usec.
Proof.
  intros Hs Hf. destruct (reachable_site _ _ _ _ Hin) as [_ H]. rewrite Hs in H.
  destruct H as (_ & _ & _ & [h _]). auto.
Qed.

(* after a success a timer-driven announce waits at least min(normal interval, max(min interval,
   floor)); when the tracker's min interval does not exceed its interval this is the min interval *)
Lemma success_interval_respected :
  r_src r = SrcTimer -> t_fc (r_pre r) = 0 -> t_sc (r_pre r) <> 0 ->
  t_stl (r_pre r) + Z.min (t_ni (r_pre r)) (Z.max (t_mi (r_pre r)) promisc_floor) <= r_time r / usec.
Proof.
  intros Hs Hf Hc. destruct (reachable_site _ _ _ _ Hin) as [_ H]. rewrite Hs in H.
  destruct H as (_ & _ & _ & [_ h]). auto.
Qed.

Lemma min_interval_respected_when_sane :
  r_src r = SrcTimer -> t_fc (r_pre r) = 0 -> t_sc (r_pre r) <> 0 ->
  t_mi (r_pre r) <= t_ni (r_pre r) ->
  t_stl (r_pre r) + t_mi (r_pre r) <= r_time r / usec.
Proof.
  intros Hs Hf Hc Hle. pose proof (success_interval_respected Hs Hf Hc). lia.
Qed.

End Theorems.

(* the back-off table of the property statement: 5, 10, 20, 40, 80, 160, 300, 300, ... *)
Lemma backoff_table :
  map backoff [1; 2; 3; 4; 5; 6; 7; 8; 9; 100] = [5; 10; 20; 40; 80; 160; 300; 300; 300; 300].
Proof. vm_compute. reflexivity. Qed.

(* the clamping setters *)
Lemma interval_clamps v :
  min_normal <= set_normal_interval v <= max_normal /\ min_min <= set_min_interval v <= max_min.
Proof.
  pose proof params_facts as (p1&p2&p3&p4&p5). unfold set_normal_interval, set_min_interval. lia.
Qed.

(* which step may clear the pending 'start' flag *)
Lemma start_flag_persists s o :
  f_start (fl s) = true -> f_start (fl (step s o)) = true \/
  match o with
  | OSendStop | OSendCompleted | OStop false => True
  | OSuccess id _ _ => f_active (fl s) = true /\ exists t, find_id (trs s) id = Some t /\ t_busy t = true
  | _ => False
  end.
Proof.
  intros Hf. destruct o; simpl.
  - left. unfold ctl_enable. destruct (f_active (fl s)); [assumption |]. rewrite (proj1 (update_timeout_fl _ _)). destruct reset; exact Hf.
  - left. unfold ctl_disable. destruct (negb (f_active (fl s))); [assumption | exact Hf].
  - left. exact Hf.
  - left. destruct (send_start_event_spec s) as [_ _]. unfold send_start_event.
    match goal with |- context [set_fl s ?f] => set (s1 := set_fl s f) end.
    destruct (negb (f_active (fl s1)) || negb (has_usable (trs s1))); [reflexivity |].
    destruct (filter is_usable (trs (ctl_close s1))) as [| a rest]; [reflexivity |].
    pose proof (send_event_E SrcStart a EvStarted (ctl_close s1) (fun _ => True) I) as [_ (hfl & _)].
    destruct rest; [rewrite hfl; reflexivity |].
    rewrite (proj1 (update_timeout_fl _ _)). simpl. rewrite hfl. reflexivity.
  - right; exact I.
  - right; exact I.
  - left. unfold send_update_event.
    destruct (negb (f_active (fl s)) || negb (has_usable (trs s))); [assumption |].
    destruct (mask_send (fl s) && has_active (trs s)); [assumption |].
    match goal with |- context [filter is_usable (trs ?x)] => set (s1 := x) end.
    assert (H1 : f_start (fl s1) = true) by (subst s1; destruct (negb (mask_send (fl s))); simpl; assumption).
    destruct (filter is_usable (trs s1)) as [| a rest]; [assumption |].
    pose proof (send_event_E SrcUpdate a EvNone s1 (fun _ => True) I) as [_ (hfl & _)]. rewrite hfl. assumption.
  - left. unfold manual_request. destruct (tmo s); [| assumption]. unfold send_update_event.
    destruct (negb (f_active (fl s)) || negb (has_usable (trs s))); [assumption |].
    destruct (mask_send (fl s) && has_active (trs s)); [assumption |].
    match goal with |- context [filter is_usable (trs ?x)] => set (s1 := x) end.
    assert (H1 : f_start (fl s1) = true) by (subst s1; destruct (negb (mask_send (fl s))); simpl; assumption).
    destruct (filter is_usable (trs s1)) as [| a rest]; [assumption |].
    pose proof (send_event_E SrcUpdate a EvNone s1 (fun _ => True) I) as [_ (hfl & _)]. rewrite hfl. assumption.
  - left. unfold start_requesting. destruct (f_requesting (fl s)); [assumption |].
    destruct (f_active (fl s)); [rewrite (proj1 (update_timeout_fl _ _)) |]; exact Hf.
  - left. unfold stop_requesting. destruct (negb (f_requesting (fl s))); [assumption | exact Hf].
  - left. unfold tracker_enable. destruct (find_id (trs s) id); [| assumption]. destruct (t_en t); [assumption |].
    match goal with |- context [if ?c then _ else if ?d then _ else _] => destruct c; [exact Hf | destruct d] end;
      [rewrite (proj1 (update_timeout_fl _ _)) |]; exact Hf.
  - left. unfold tracker_disable. destruct (find_id (trs s) id); [| assumption]. destruct (negb (t_en t)); [assumption |].
    match goal with |- context [if ?c then _ else _] => destruct c end; [rewrite (proj1 (update_timeout_fl _ _)) |]; exact Hf.
  - left; exact Hf.
  - unfold reply_success. destruct (find_id (trs s) id) as [t |] eqn:Hfi; [| left; assumption].
    destruct (negb (t_busy t)) eqn:Hb; [left; assumption |].
    unfold ctl_receive_success. simpl. destruct (negb (f_active (fl s))) eqn:Ha; [left; exact Hf |].
    right. apply negb_false_iff in Ha, Hb. split; [assumption |]. exists t. split; [reflexivity | assumption].
  - left. unfold reply_failure. destruct (find_id (trs s) id); [| assumption]. destruct (negb (t_busy t)); [assumption |].
    simpl. destruct (negb (f_active (fl s))); [exact Hf |].
    match goal with |- context [do_timeout ?x] => pose proof (do_timeout_E x) as [_ (hfl & _)]; rewrite hfl end. exact Hf.
  - left. unfold perform. simpl. destruct (tmo s); [| exact Hf].
    match goal with |- context [if ?c then _ else _] => destruct c end; [| exact Hf].
    match goal with |- context [do_timeout ?x] => pose proof (do_timeout_E x) as [_ (hfl & _)]; rewrite hfl end. exact Hf.
  - left. destruct (tmo s) eqn:Ht; [| exact Hf]. unfold perform. simpl. rewrite Ht.
    match goal with |- context [if ?c then _ else _] => destruct c end; [| exact Hf].
    match goal with |- context [do_timeout ?x] => pose proof (do_timeout_E x) as [_ (hfl & _)]; rewrite hfl end. exact Hf.
  - left; exact Hf.
  - left. destruct skip_tracker.
    + unfold ctl_enable. destruct (f_active (fl s)); [assumption |]. rewrite (proj1 (update_timeout_fl _ _)). exact Hf.
    + unfold send_start_event.
      match goal with |- context [set_fl ?x ?f] => set (s1 := set_fl x f) end.
      destruct (negb (f_active (fl s1)) || negb (has_usable (trs s1))); [reflexivity |].
      destruct (filter is_usable (trs (ctl_close s1))) as [| a rest]; [reflexivity |].
      pose proof (send_event_E SrcStart a EvStarted (ctl_close s1) (fun _ => True) I) as [_ (hfl & _)].
      destruct rest; [rewrite hfl; reflexivity |].
      rewrite (proj1 (update_timeout_fl _ _)). simpl. rewrite hfl. reflexivity.
  - destruct skip_tracker; [| right; exact I]. left.
    unfold ctl_disable. destruct (negb (f_active (fl s))); [assumption | exact Hf].
Qed.

(* ------------------------------------------------------------------ refutations (faithful model) *)

Definition ops_manual := [OEnable true; OSendStart; OFailure 0%nat None; OManual].

(* the strict reading of "every announce carries 'started' until accepted" fails: a manual request
   (send_update_event) while the start is pending and no request is in flight sends a plain update *)
Lemma started_carried_refuted :
  exists t0 groups ops r, In r (log (run (init t0 groups) ops)) /\
    f_start (r_fl r) = true /\ r_ev r = EvNone.
Proof.
  exists 31536000000000, [0%nat], ops_manual. eexists. split; [vm_compute; left; reflexivity |].
  vm_compute. split; reflexivity.
Qed.

Lemma completed_carried_refuted :
  exists t0 groups ops r, In r (log (run (init t0 groups) ops)) /\
    f_completed (r_fl r) = true /\ r_ev r = EvNone.
Proof.
  exists 31536000000000, [0%nat],
    [OEnable true; OSendStart; OSuccess 0%nat 1800 600; OSendCompleted; OFailure 0%nat None; OManual].
  eexists. split; [vm_compute; left; reflexivity |]. vm_compute. split; reflexivity.
Qed.

(* a tracker whose min interval exceeds its interval is re-announced before the min interval *)
Lemma min_interval_respected_refuted :
  exists t0 groups ops r, In r (log (run (init t0 groups) ops)) /\
    r_src r = SrcTimer /\ t_fc (r_pre r) = 0 /\ t_sc (r_pre r) <> 0 /\
    t_mi (r_pre r) <= max_min /\
    r_time r / usec < t_stl (r_pre r) + t_mi (r_pre r).
Proof.
  exists 31536000000000, [0%nat], [OEnable true; OSendStart; OSuccess 0%nat 600 3000; ONext].
  eexists. split; [vm_compute; left; reflexivity |]. vm_compute. repeat split; congruence.
Qed.

(* normal mode (not promiscuous, not requesting): tier 2 is contacted although tier 1 holds an
   enabled, idle tracker that has never failed *)
Lemma tier_order_refuted :
  exists t0 groups ops r u, In r (log (run (init t0 groups) ops)) /\
    r_src r = SrcTimer /\ f_promisc (r_fl r) = false /\ f_requesting (r_fl r) = false /\
    In u (r_trs r) /\ Nat.ltb (t_group u) (t_group (r_pre r)) = true /\
    t_en u = true /\ t_busy u = false /\ t_fc u = 0.
Proof.
  exists 31536000000000, [0%nat; 1%nat; 2%nat],
    [OEnable true; OSendStart; OFailure 0%nat None; OSuccess 1%nat 1800 600; OFailure 2%nat None; ONext; OFailure 0%nat None].
  eexists. eexists. split; [vm_compute; left; reflexivity |].
  vm_compute. split; [reflexivity |]. split; [reflexivity |]. split; [reflexivity |].
  split; [right; left; reflexivity |]. repeat split; reflexivity.
Qed.

(* non-vacuity: the witnesses above are reachable logs; a plain history with all sites *)
Example sites_inhabited :
  exists r, In r (log (run (init 31536000000000 [0%nat; 0%nat; 1%nat])
      [OStart false; OFailure 0%nat None; OAdvance 3000000; OSuccess 1%nat 1800 600; ONext; OSendCompleted; OStop false])) /\
    r_ev r = EvStopped /\ r_src r = SrcStop.
Proof. eexists. split; [vm_compute; left; reflexivity |]. vm_compute. split; reflexivity. Qed.

Example timer_site_inhabited :
  exists r, In r (log (run (init 31536000000000 [0%nat]) [OStart false; OFailure 0%nat None; ONext])) /\
    r_src r = SrcTimer /\ t_fc (r_pre r) <> 0 /\ f_start (r_fl r) = true /\ r_ev r = EvStarted.
Proof. eexists. split; [vm_compute; left; reflexivity |]. vm_compute. repeat split; congruence. Qed.
