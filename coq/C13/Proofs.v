(* C13 — invariants of all reachable states and the property theorems (model follows /repo after
   the fix: commits d5b8825, eed7d46, b6c5394, fabe449). *)
From Coq Require Import List ZArith Bool Lia Arith Permutation.
From LTV.C13 Require Import ParamsGen.
From LTV.C13 Require Import Model ProofsList ProofsSite ProofsStep.
Import ListNotations.
Open Scope Z_scope.

Definition params_ok := ProofsSite.params_ok.
Lemma params_ok_now : params_ok = true.
Proof. exact ProofsSite.params_ok_now. Qed.

(* ------------------------------------------------------------------ invariant *)

Definition Inv (s : state) : Prop :=
  mask_excl (fl s) /\ nsorted (map t_group (trs s)) /\ tinv (trs s) /\ Forall site (log s).

Lemma Inv_init t0 groups : Inv (init t0 groups).
Proof.
  pose proof params_facts as (p1&p2&p3&p4&p5).
  unfold Inv, init. simpl. ssplit.
  - unfold mask_excl. simpl. exact I.
  - apply insert_all_sorted. simpl. exact I.
  - apply insert_all_Forall; [| constructor]. intros i g. unfold clamps, new_tracker. simpl. lia.
  - constructor.
Qed.

Lemma step_site_site s o r : step_site s o r -> site r.
Proof. intros [h _]. exact h. Qed.

Lemma Inv_step s o : Inv s -> Inv (step s o).
Proof.
  intros (Hm & Hs & Hi & Hl). destruct (step_spec s Hm o) as (a & _ & [c1 c2] & [new [e1 e2]]).
  unfold Inv. ssplit; auto.
  rewrite e1. apply Forall_app. split; [| assumption]. eapply Forall_impl; [| exact e2]. apply step_site_site.
Qed.

Lemma Inv_run ops : forall s, Inv s -> Inv (run s ops).
Proof. induction ops as [| o ops IH]; intros s H; simpl; [assumption | apply IH, Inv_step, H]. Qed.

(* every log entry of a run was added by some step from a state satisfying the invariants *)
Section RunLog.
Variable K : state -> Prop.
Variable okop : op -> Prop.
Hypothesis K_step : forall s o, Inv s -> K s -> okop o -> K (step s o).

Definition origin (s0 : state) (r : req) : Prop :=
  In r (log s0) \/ exists s1 o, Inv s1 /\ K s1 /\ okop o /\ step_site s1 o r.

Lemma run_log ops : forall s, Forall okop ops -> Inv s -> K s ->
  forall r, In r (log (run s ops)) -> origin s r.
Proof.
  induction ops as [| o ops IH]; intros s Hops HI HK r Hin; simpl in Hin.
  - left. assumption.
  - inversion Hops as [| ? ? Ho Hrest]; subst.
    destruct (IH (step s o) Hrest (Inv_step s o HI) (K_step s o HI HK Ho) r Hin) as [H | H]; [| right; exact H].
    destruct HI as (Hm & HI'). destruct (step_spec s Hm o) as (_ & _ & _ & [new [e1 e2]]).
    rewrite e1 in H. apply in_app_or in H. destruct H as [H | H]; [| left; assumption].
    right. exists s, o. rewrite Forall_forall in e2. ssplit; auto. split; assumption.
Qed.
End RunLog.

Lemma reachable_origin t0 groups ops r :
  In r (log (run (init t0 groups) ops)) ->
  exists s1 o, Inv s1 /\ step_site s1 o r.
Proof.
  intros Hin.
  destruct (run_log (fun _ => True) (fun _ => True) (fun _ _ _ _ _ => I) ops (init t0 groups)) with (r := r) as [H | H]; auto.
  - rewrite Forall_forall. auto.
  - apply Inv_init.
  - simpl in H. contradiction.
  - destruct H as (s1 & o & a & _ & _ & d). exists s1, o. auto.
Qed.

Lemma reachable_site t0 groups ops r : In r (log (run (init t0 groups) ops)) -> site r.
Proof. intros H. destruct (reachable_origin _ _ _ _ H) as (s1 & o & _ & h). eapply step_site_site; eauto. Qed.

(* ------------------------------------------------------------------ find_next_to_request *)

Lemma atn_failed x : t_fc x <> 0 -> activity_time_next x = failed_time_next x.
Proof. intros H. unfold activity_time_next. apply Z.eqb_neq in H. rewrite H. reflexivity. Qed.

Lemma fntr_scan_spec r : forall pref t, fntr_scan pref r = t ->
  (t = pref \/ exists r1 r2, r = r1 ++ t :: r2 /\ can_request_state t = true) /\
  activity_time_next t <= activity_time_next pref /\
  (forall u, In u r -> can_request_state u = true -> t_fc u = 0 -> activity_time_next t <= activity_time_next u).
Proof.
  induction r as [| x r IH]; intros pref t H; simpl in H.
  - subst. ssplit; [left; reflexivity | lia | intros u []].
  - destruct (negb (can_request_state x)) eqn:Hc.
    { apply negb_true_iff in Hc. destruct (IH pref t H) as (a & b & c). ssplit; [| exact b |].
      - destruct a as [a | (r1 & r2 & e & q)]; [left; exact a | right; exists (x :: r1), r2; split; [simpl; rewrite <- e; reflexivity | assumption]].
      - intros u [E | Hu] Hq Hf; [subst; congruence | auto]. }
    apply negb_false_iff in Hc.
    assert (Keep : fntr_scan pref r = t -> (t_fc x = 0 -> activity_time_next pref <= activity_time_next x) ->
      (t = pref \/ exists r1 r2, x :: r = r1 ++ t :: r2 /\ can_request_state t = true) /\
      activity_time_next t <= activity_time_next pref /\
      (forall u, In u (x :: r) -> can_request_state u = true -> t_fc u = 0 -> activity_time_next t <= activity_time_next u)).
    { intros H' Hx. destruct (IH pref t H') as (a & b & c). ssplit; [| exact b |].
      - destruct a as [a | (r1 & r2 & e & q)]; [left; exact a | right; exists (x :: r1), r2; split; [simpl; rewrite <- e; reflexivity | assumption]].
      - intros u [E | Hu] Hq Hf; [subst; specialize (Hx Hf); lia | auto]. }
    assert (Take : fntr_scan x r = t -> activity_time_next x < activity_time_next pref ->
      (t = pref \/ exists r1 r2, x :: r = r1 ++ t :: r2 /\ can_request_state t = true) /\
      activity_time_next t <= activity_time_next pref /\
      (forall u, In u (x :: r) -> can_request_state u = true -> t_fc u = 0 -> activity_time_next t <= activity_time_next u)).
    { intros H' Hx. destruct (IH x t H') as (a & b & c). ssplit; [| lia |].
      - right. destruct a as [a | (r1 & r2 & e & q)]; [exists [], r; rewrite a; split; [reflexivity | assumption] | exists (x :: r1), r2; split; [simpl; rewrite <- e; reflexivity | assumption]].
      - intros u [E | Hu] Hq Hf; [subst; exact b | auto]. }
    destruct (negb (t_fc x =? 0)) eqn:Hfx.
    + apply negb_true_iff in Hfx. apply Z.eqb_neq in Hfx.
      destruct (t_fc pref =? 0); [apply Keep; [exact H | intros; contradiction] |].
      destruct (failed_time_next x <? activity_time_next pref) eqn:Hlt.
      * apply Z.ltb_lt in Hlt. apply Take; [exact H | rewrite atn_failed; assumption].
      * apply Keep; [exact H | intros; contradiction].
    + apply negb_false_iff in Hfx. apply Z.eqb_eq in Hfx.
      destruct (activity_time_next x <? activity_time_next pref) eqn:Hlt.
      * apply Z.ltb_lt in Hlt. apply Take; assumption.
      * apply Z.ltb_ge in Hlt. apply Keep; [exact H | intros; exact Hlt].
Qed.

Lemma not_requestable_busy u : can_request_state u = false -> t_en u = true -> busy_ann u = true.
Proof. unfold can_request_state. intros H He. rewrite He in H. simpl in H. apply negb_false_iff in H. exact H. Qed.

Lemma fntr_spec l t : find_next_to_request l = Some t ->
  exists l1 l2, l = l1 ++ t :: l2 /\ can_request_state t = true /\
  forall u, In u l1 -> t_en u = true -> t_fc u = 0 ->
    busy_ann u = true \/
    (activity_time_next t <= activity_time_next u /\
     exists p, In p l1 /\ can_request_state p = true /\ t_fc p <> 0).
Proof.
  unfold find_next_to_request. intros H.
  set (nq := fun t => negb (can_request_state t)) in *.
  pose proof (take_drop nq l) as Hl. pose proof (take_while_all nq l) as Hd.
  destruct (drop_while nq l) as [| p r] eqn:Hdr; [discriminate |].
  pose proof (drop_while_head nq l p r Hdr) as Hp. unfold nq in Hp. apply negb_false_iff in Hp.
  assert (Hbusy : forall u, In u (take_while nq l) -> t_en u = true -> busy_ann u = true).
  { intros u Hu He. rewrite Forall_forall in Hd. specialize (Hd u Hu). unfold nq in Hd. apply negb_true_iff in Hd.
    apply not_requestable_busy; assumption. }
  destruct (t_fc p =? 0) eqn:Hfp.
  - inversion H; subst t. exists (take_while nq l), r. ssplit; auto; intros u Hu He _; left; auto.
  - apply Z.eqb_neq in Hfp. inversion H as [H']. destruct (fntr_scan_spec r p t H') as (a & b & c).
    destruct a as [a | (r1 & r2 & e & q)].
    + exists (take_while nq l), r. ssplit; [rewrite ?H', a; symmetry; exact Hl | rewrite ?H', a; exact Hp | intros u Hu He _; left; auto].
    + exists (take_while nq l ++ p :: r1), r2. ssplit.
      * rewrite ?H'. rewrite <- app_assoc. simpl. rewrite <- e. symmetry. exact Hl.
      * rewrite ?H'. exact q.
      * intros u Hu He Hf. apply in_app_or in Hu. destruct Hu as [Hu | [E | Hu]].
        -- left. auto.
        -- subst u. contradiction.
        -- destruct (can_request_state u) eqn:Hq; [| left; apply not_requestable_busy; assumption].
           right. split.
           ++ rewrite ?H'. apply c; auto. rewrite e. apply in_or_app. left. assumption.
           ++ exists p. ssplit; auto. apply in_or_app. right. left. reflexivity.
Qed.

Lemma fntr_tier l t : nsorted (map t_group l) -> find_next_to_request l = Some t ->
  forall u, In u l -> (t_group u < t_group t)%nat -> t_en u = true -> t_fc u = 0 ->
    busy_ann u = true \/
    (activity_time_next t <= activity_time_next u /\
     exists p, In p l /\ can_request_state p = true /\ t_fc p <> 0).
Proof.
  intros Hs Hf u Hu Hg He Hfc. destruct (fntr_spec l t Hf) as (l1 & l2 & e & q & h).
  subst l. rewrite map_app in Hs. simpl in Hs. destruct (nsorted_app_inv _ _ _ Hs) as [_ H2].
  apply in_app_or in Hu. destruct Hu as [Hu | [E | Hu]].
  - destruct (h u Hu He Hfc) as [a | (a & p & b1 & b2 & b3)]; [left; exact a |].
    right. split; [exact a |]. exists p. ssplit; auto. apply in_or_app. left. assumption.
  - subst u. lia.
  - rewrite Forall_forall in H2. specialize (H2 (t_group u) (in_map t_group _ _ Hu)). lia.
Qed.

(* ------------------------------------------------------------------ theorems about every logged request *)

Lemma mask_excl_start f : mask_excl f -> f_start f = true -> current_send_event f = EvStarted.
Proof. unfold mask_excl, current_send_event. destruct f as [u c st sp a rq fa pr]; simpl. intros. dbools. Qed.

Lemma mask_excl_completed f : mask_excl f -> f_completed f = true -> current_send_event f = EvCompleted.
Proof. unfold mask_excl, current_send_event. destruct f as [u c st sp a rq fa pr]; simpl. intros. dbools. Qed.

Lemma mask_excl_stopped f : mask_excl f -> current_send_event f = EvStopped -> f_stop f = true.
Proof. unfold mask_excl, current_send_event. destruct f as [u c st sp a rq fa pr]; simpl. intros. dbools. Qed.

Section Theorems.
Variables (t0 : Z) (groups : list (nat * bool)) (ops : list op) (r : req).
Hypothesis Hin : In r (log (run (init t0 groups) ops)).

Lemma one_in_flight :
  t_en (r_pre r) = true /\ r_repl r = t_busy (r_pre r) /\
  (t_busy (r_pre r) = true -> r_ev r <> t_ev (r_pre r) /\ (t_ev (r_pre r) <> EvScrape -> r_ev r <> EvNone)).
Proof. destruct (reachable_site _ _ _ _ Hin) as [(a & b & c & d) _]. auto. Qed.

(* full strength: no exception for manual requests any more *)
Lemma started_carried : f_start (r_fl r) = true -> r_ev r = EvStarted.
Proof.
  intros Hf. destruct (reachable_site _ _ _ _ Hin) as [_ H].
  destruct (r_src r).
  - apply H.
  - destruct H as (_ & _ & h & _). congruence.
  - destruct H as (_ & _ & h & _). congruence.
  - destruct H as (he & hm & _). rewrite he. apply mask_excl_start; assumption.
  - destruct H as (he & hm & _). rewrite he. apply mask_excl_start; assumption.
Qed.

Lemma completed_carried : f_completed (r_fl r) = true -> r_ev r = EvCompleted.
Proof.
  intros Hf. destruct (reachable_site _ _ _ _ Hin) as [_ H].
  destruct (r_src r).
  - destruct H as (_ & _ & h). congruence.
  - destruct H as (_ & _ & _ & h). congruence.
  - apply H.
  - destruct H as (he & hm & _). rewrite he. apply mask_excl_completed; assumption.
  - destruct H as (he & hm & _). rewrite he. apply mask_excl_completed; assumption.
Qed.

Lemma backoff_respected :
  r_src r = SrcTimer -> t_fc (r_pre r) <> 0 ->
  t_ftl (r_pre r) + retry_wait (r_pre r) <= r_time r / usec.
Proof.
  intros Hs Hf. destruct (reachable_site _ _ _ _ Hin) as [_ H]. rewrite Hs in H.
  destruct H as (_ & _ & _ & [h _] & _). auto.
Qed.

(* unconditional: every timer-driven announce to a tracker whose last reply was a success comes
   no sooner than that tracker's (clamped) min interval after the success *)
Lemma min_interval_respected :
  r_src r = SrcTimer -> t_fc (r_pre r) = 0 -> t_sc (r_pre r) <> 0 ->
  t_stl (r_pre r) + t_mi (r_pre r) <= r_time r / usec.
Proof.
  intros Hs Hf Hc. destruct (reachable_site _ _ _ _ Hin) as [_ H]. rewrite Hs in H.
  destruct H as (_ & _ & _ & [_ h] & _). auto.
Qed.

(* normal mode waits for the full interval *)
Lemma normal_interval_respected :
  r_src r = SrcTimer -> f_promisc (r_fl r) = false -> f_requesting (r_fl r) = false ->
  t_fc (r_pre r) = 0 -> t_sc (r_pre r) <> 0 ->
  t_stl (r_pre r) + t_ni (r_pre r) <= r_time r / usec.
Proof.
  intros Hs Hp Hr Hf Hc. destruct (reachable_site _ _ _ _ Hin) as [_ H]. rewrite Hs in H.
  destruct H as (_ & _ & _ & _ & h). destruct (h (conj Hp Hr)) as [_ h2].
  unfold activity_time_next, success_time_next in h2. rewrite Hf in h2. simpl in h2.
  apply Z.eqb_neq in Hc. rewrite Hc in h2. lia.
Qed.

(* tier order: what holds. In normal mode a tracker of a later group is contacted only if every
   enabled, never-failed tracker u of an earlier group is either still in flight (listed finding
   tier-skipped-while-in-flight) or passed over by find_next_to_request because the first
   requestable tracker has failed and the chosen tracker's next-activity time is not later than
   u's (listed finding tier-skipped-not-due). *)
Lemma tier_order :
  r_src r = SrcTimer ->
  f_promisc (r_fl r) = true \/ f_requesting (r_fl r) = true \/
  (forall u, In u (r_trs r) -> (t_group u < t_group (r_pre r))%nat -> t_en u = true -> t_fc u = 0 ->
     busy_ann u = true \/
     (activity_time_next (r_pre r) <= activity_time_next u /\
      exists p, In p (r_trs r) /\ can_request_state p = true /\ t_fc p <> 0)).
Proof.
  intros Hs. destruct (f_promisc (r_fl r)) eqn:Hp; [left; reflexivity |].
  destruct (f_requesting (r_fl r)) eqn:Hr; [right; left; reflexivity |].
  right. right.
  destruct (reachable_origin _ _ _ _ Hin) as (s1 & o & (_ & Hsort & _) & (Hsite & _ & Hst)).
  destruct Hsite as [_ Hsite]. rewrite Hs in Hsite, Hst.
  destruct Hsite as (_ & _ & _ & _ & hn). destruct Hst as (_ & _ & _ & _ & _ & hg).
  assert (Hn : normal_mode (r_fl r)) by (split; assumption).
  destruct (hn Hn) as [hf _]. specialize (hg Hn).
  apply fntr_tier; [rewrite hg; exact Hsort | exact hf].
Qed.

End Theorems.

(* ------------------------------------------------------------------ stopped: client-level op lists *)

Lemma stop_inv_step s o : Inv s -> stop_inv (fl s) -> client_level o -> stop_inv (fl (step s o)).
Proof. intros (Hm & _) Hs Ho. destruct (step_spec s Hm o) as (_ & h & _). apply h; assumption. Qed.

Lemma stopped_only_on_stop_and_in_use t0 groups ops r :
  Forall client_level ops -> In r (log (run (init t0 groups) ops)) ->
  r_ev r = EvStopped -> r_src r = SrcStop /\ is_in_use (r_pre r) = true.
Proof.
  intros Hops Hin Hev.
  destruct (run_log (fun s => stop_inv (fl s)) client_level stop_inv_step ops (init t0 groups) Hops (Inv_init _ _)) with (r := r) as [H | H]; auto.
  - unfold stop_inv. simpl. discriminate.
  - simpl in H. contradiction.
  - destruct H as (s1 & o & _ & Hk & _ & ([_ Hsite] & _ & Hst)).
    destruct (r_src r).
    + destruct Hsite as (h & _). congruence.
    + split; [reflexivity | apply Hsite].
    + destruct Hsite as (h & _). congruence.
    + destruct Hsite as (he & hm & _). destruct Hst as (_ & (_ & _ & h3) & ha).
      rewrite Hev in he. symmetry in he. apply (mask_excl_stopped _ hm) in he.
      rewrite h3 in he. specialize (Hk he). congruence.
    + destruct Hsite as (he & hm & _). destruct Hst as (_ & (_ & _ & h3) & ha & _).
      rewrite Hev in he. symmetry in he. apply (mask_excl_stopped _ hm) in he.
      rewrite h3 in he. specialize (Hk he). congruence.
Qed.

(* ------------------------------------------------------------------ clamps, figures *)

Lemma interval_clamps t0 groups ops t :
  In t (trs (run (init t0 groups) ops)) ->
  min_normal <= t_ni t <= max_normal /\ min_min <= t_mi t <= max_min.
Proof.
  intros Hin. destruct (Inv_run ops _ (Inv_init t0 groups)) as (_ & _ & Hi & _).
  unfold tinv in Hi. rewrite Forall_forall in Hi. apply (Hi t Hin).
Qed.

Lemma params_match t0 groups ops o :
  let s := run (init t0 groups) ops in
  exists new, log (step s o) = new ++ log s /\
    Forall (fun r => let '(up, comp, lft) := figs_for s o in
                     r_up r = Z.max up 0 /\ r_comp r = Z.max comp 0 /\ r_left r = lft) new.
Proof.
  simpl. destruct (Inv_run ops _ (Inv_init t0 groups)) as (Hm & _).
  destruct (step_spec _ Hm o) as (_ & _ & _ & [new [e1 e2]]). exists new. split; [exact e1 |].
  eapply Forall_impl; [| exact e2]. intros r (_ & h & _). destruct o; exact h.
Qed.

(* a (re)start resets the baselines before 'started' is sent: the announce reports 0 / 0 *)
Lemma restart_reports_zero t0 groups ops skip :
  let s := run (init t0 groups) ops in
  exists new, log (step s (OStart skip)) = new ++ log s /\
    Forall (fun r => r_up r = 0 /\ r_comp r = 0 /\ r_left r = s_left s) new.
Proof.
  simpl. destruct (params_match t0 groups ops (OStart skip)) as [new [e1 e2]]. exists new. split; [exact e1 |].
  eapply Forall_impl; [| exact e2]. simpl. intros r (a & b & c). auto.
Qed.

(* ------------------------------------------------------------------ started / completed: trace form *)


Lemma ctl_receive_success_flag ev latest ni x : mask_excl (fl x) -> pend_flag ev (fl x) = true -> (ev = EvStarted \/ ev = EvCompleted) ->
  latest <> ev \/ f_active (fl x) = false ->
  pend_flag ev (fl (ctl_receive_success latest ni x)) = true.
Proof.
  intros Hm Hp Hev Hno. unfold ctl_receive_success. destruct (negb (f_active (fl x))) eqn:Ha; [exact Hp |].
  apply negb_false_iff in Ha. destruct Hno as [Hno | Hno]; [| congruence].
  assert (Hcur : current_send_event (fl x) = ev).
  { destruct Hev; subst ev; simpl in Hp; [apply mask_excl_start | apply mask_excl_completed]; assumption. }
  assert (Hne : event_eqb latest (current_send_event (fl x)) = false).
  { rewrite Hcur. destruct (event_eqb latest ev) eqn:E; [| reflexivity]. apply event_eqb_true in E. contradiction. }
  rewrite Hne.
  match goal with |- context [if ?c then _ else _] => destruct c end.
  - rewrite (proj1 (update_timeout_same _ _)). destruct Hev; subst ev; exact Hp.
  - match goal with |- context [if ?c then _ else _] => destruct c end;
      [rewrite (proj1 (update_timeout_same _ _)) |]; destruct Hev; subst ev; exact Hp.
Qed.

Lemma send_completed_flag s : f_completed (fl (send_completed_event s)) = true.
Proof.
  unfold send_completed_event. set (s1 := set_fl s _).
  destruct (negb (f_active (fl s1)) || negb (has_usable (trs s1))); [reflexivity |].
  destruct (send_to_in_use_E SrcCompleted EvCompleted (ctl_close s1) eq_refl) as [_ (h & _)]. rewrite h. reflexivity.
Qed.

Lemma find_id_upd l id f : (forall x, t_id (f x) = t_id x) -> find_id (upd l id f) id = option_map f (find_id l id).
Proof.
  intros Hf. unfold find_id, upd. induction l as [| x r IH]; simpl; [reflexivity |].
  destruct (Nat.eqb (t_id x) id) eqn:E.
  - rewrite Hf, E. reflexivity.
  - rewrite E. exact IH.
Qed.

Lemma worker_upd_ev r x : t_ev (worker_upd r x) = t_ev x.
Proof. unfold worker_upd. destruct (event_eqb (t_ev x) EvScrape); [reflexivity |]. destruct r as [? ? | [[? ?] |]]; reflexivity. Qed.

(* the main-thread part of a reply keeps the pending flag unless it is the success of a request that carried the event *)
Lemma main_part_flag ev id ok scr x : (ev = EvStarted \/ ev = EvCompleted) -> mask_excl (fl x) -> pend_flag ev (fl x) = true ->
  (ok = true -> scr = false -> f_active (fl x) = true -> forall t, find_id (trs x) id = Some t -> t_ev t <> ev) ->
  pend_flag ev (fl (main_part id ok scr x)) = true.
Proof.
  intros Hev Hm Hp Hno. unfold main_part. destruct scr.
  - unfold main_scrape. destruct ok; exact Hp.
  - destruct ok.
    + unfold main_success. destruct (find_id (trs x) id) as [t |] eqn:Hf; [| exact Hp].
      apply ctl_receive_success_flag; auto.
      destruct (f_active (fl x)) eqn:Ha; [left; apply (Hno eq_refl eq_refl eq_refl t eq_refl) | right; exact Ha].
    + unfold main_failure. simpl. destruct (negb (f_active (fl x))); [exact Hp |].
      match goal with |- context [do_timeout ?y] => pose proof (do_timeout_E y) as [_ (hfl & _)]; rewrite hfl end.
      simpl. destruct Hev; subst ev; exact Hp.
Qed.

Lemma perform_flags s n : mask_excl (fl s) -> fl (perform (set_now s n)) = fl s.
Proof.
  intros Hm. unfold perform.
  assert (Hr : rel s (set_now s n)) by (unfold rel, same3; simpl; ssplit; reflexivity).
  destruct (perform_n_ok s (OAdvance 0) 4 I (set_now s n) Hm Hr) as (a & _). exact a.
Qed.

Lemma pend_flag_step ev s o : (ev = EvStarted \/ ev = EvCompleted) -> mask_excl (fl s) ->
  pend_flag ev (fl s) = true -> ~ clears ev s o -> pend_flag ev (fl (step s o)) = true.
Proof.
  intros Hev Hm Hp Hc.
  assert (Hsame : forall s', same3 (fl s') (fl s) -> pend_flag ev (fl s') = true).
  { intros s' (a & b & _). destruct Hev; subst ev; simpl in *; congruence. }
  destruct o; simpl in Hc |- *.
  - destruct (ctl_enable_facts s Hm reset) as (_&_&_&_&_&_&_&_&(a&b)). simpl in a, b.
    destruct Hev; subst ev; simpl in *; congruence.
  - unfold ctl_disable. destruct (negb (f_active (fl s))); [exact Hp |]. simpl. destruct Hev; subst ev; exact Hp.
  - unfold ctl_close. simpl. destruct Hev; subst ev; exact Hp.
  - destruct (send_start_event_spec s) as (_ & b & _). destruct Hev; subst ev; simpl; [exact b | exfalso; apply Hc; discriminate].
  - exfalso. apply Hc. exact I.
  - destruct Hev; subst ev; [exfalso; apply Hc; discriminate | apply send_completed_flag].
  - destruct (send_update_event_spec s Hm) as (_ & h & _). apply Hsame. exact h.
  - unfold manual_request. destruct (tmo s); [| exact Hp].
    destruct (send_update_event_spec s Hm) as (_ & h & _). apply Hsame. exact h.
  - unfold start_requesting. destruct (f_requesting (fl s)); [exact Hp |].
    destruct (f_active (fl s)); [rewrite (proj1 (update_timeout_same _ _)) |]; simpl; destruct Hev; subst ev; exact Hp.
  - unfold stop_requesting. destruct (negb (f_requesting (fl s))); [exact Hp |]. simpl. destruct Hev; subst ev; exact Hp.
  - destruct (tracker_enable_facts s id) as (_ & h & _). simpl in h. rewrite h. exact Hp.
  - destruct (tracker_disable_facts s id) as (_ & h & _). simpl in h. rewrite h. exact Hp.
  - exact Hp.
  - unfold reply_success, reply_now. destruct (find_id (trs s) id) as [t |] eqn:Hf; [| exact Hp].
    destruct (negb (t_busy t)) eqn:Hb; [exact Hp |]. apply negb_false_iff in Hb.
    apply main_part_flag; auto. simpl. intros _ Hscr Ha t' Hf' E.
    rewrite find_id_upd in Hf' by apply worker_upd_id. rewrite Hf in Hf'. simpl in Hf'. inversion Hf'; subst t'.
    rewrite worker_upd_ev in E. apply Hc. split; [exact Ha |]. exists t. ssplit; auto.
  - unfold reply_failure, reply_now. destruct (find_id (trs s) id) as [t |]; [| exact Hp]. destruct (negb (t_busy t)); [exact Hp |].
    apply main_part_flag; auto. simpl. intros; discriminate.
  - rewrite perform_flags by exact Hm. exact Hp.
  - destruct (tmo s); [| exact Hp]. rewrite perform_flags by exact Hm. exact Hp.
  - exact Hp.
  - destruct skip_tracker.
    + destruct (ctl_enable_facts s Hm false) as (_&_&_&_&_&_&_&_&(a&b)). simpl in a, b.
      destruct Hev; subst ev; simpl in *; congruence.
    + match goal with |- context [send_start_event ?x] => destruct (send_start_event_spec x) as (_ & b & _) end.
      destruct Hev; subst ev; simpl; [exact b | exfalso; apply Hc; discriminate].
  - destruct skip_tracker.
    + destruct (ctl_enable_facts s Hm false) as (_&_&_&_&_&_&_&_&(a&b)). simpl in a, b.
      destruct Hev; subst ev; simpl in *; congruence.
    + destruct (send_start_event_spec (ctl_enable true s)) as (_ & b & _).
      destruct Hev; subst ev; simpl; [exact b | exfalso; apply Hc; discriminate].
  - destruct skip_tracker; [| exfalso; apply Hc; exact I].
    unfold ctl_disable. destruct (negb (f_active (fl s))); [exact Hp |]. simpl. destruct Hev; subst ev; exact Hp.
  - destruct (insert_op_facts s g scr) as (_ & h & _). simpl in h. rewrite h. exact Hp.
  - unfold scrape_request. destruct (Z.max sec 0 =? 0); exact Hp.
  - destruct (tsc s); [| exact Hp]. rewrite perform_flags by exact Hm. exact Hp.
  - unfold worker_done. destruct (pend s); [exact Hp |]. destruct (find_id (trs s) id) as [t |]; [| exact Hp].
    destruct (negb (t_busy t)); exact Hp.
  - unfold drain. destruct (pend s) as [[id [ok scr]] |] eqn:Hpd; [| exact Hp].
    apply main_part_flag; auto. simpl. intros Hok Hscr Ha t Hf E. subst ok scr.
    apply Hc. split; [exact Ha |]. exists id, t. ssplit; auto.
  - exact Hp.
Qed.

Lemma pend_flag_current ev f : (ev = EvStarted \/ ev = EvCompleted) -> mask_excl f -> pend_flag ev f = true -> current_send_event f = ev.
Proof. intros [E | E] Hm Hp; subst ev; simpl in Hp; [apply mask_excl_start | apply mask_excl_completed]; assumption. Qed.

Lemma step_carries ev s o r : (ev = EvStarted \/ ev = EvCompleted) ->
  pend_flag ev (fl s) = true -> ~ clears ev s o -> step_site s o r -> r_ev r = ev.
Proof.
  intros Hev Hp Hc ([_ Hsite] & _ & Hst).
  assert (Hfl : same3 (r_fl r) (fl s) -> pend_flag ev (r_fl r) = true).
  { intros (a & b & _). destruct Hev; subst ev; simpl in *; congruence. }
  destruct (r_src r).
  - destruct Hsite as (he & _). rewrite he.
    destruct Hev as [E | E]; [congruence |]. exfalso. apply Hc. subst ev. destruct Hst as [Hst | [Hst | Hst]]; subst o; simpl; discriminate.
  - exfalso. apply Hc. destruct Hst; subst o; exact I.
  - destruct Hsite as (he & _). rewrite he.
    destruct Hev as [E | E]; [| congruence]. exfalso. apply Hc. subst ev o. simpl. discriminate.
  - destruct Hsite as (he & hm & _). destruct Hst as (_ & h3 & _). rewrite he.
    apply pend_flag_current; auto.
  - destruct Hsite as (he & hm & _). destruct Hst as (_ & h3 & _). rewrite he.
    apply pend_flag_current; auto.
Qed.

Lemma pending_emits ev : (ev = EvStarted \/ ev = EvCompleted) -> forall ops s,
  Inv s -> pend_flag ev (fl s) = true -> pending_run ev s ops ->
  exists new, log (run s ops) = new ++ log s /\ Forall (fun r => r_ev r = ev) new.
Proof.
  intros Hev. induction ops as [| o ops IH]; intros s HI Hp Hrun; simpl.
  - exists []. split; [reflexivity | constructor].
  - destruct Hrun as [Hc Hrest]. pose proof HI as (Hm & _).
    destruct (step_spec s Hm o) as (_ & _ & _ & [n1 [e1 f1]]).
    destruct (IH (step s o) (Inv_step s o HI) (pend_flag_step ev s o Hev Hm Hp Hc) Hrest) as [n2 [e2 f2]].
    exists (n2 ++ n1). split; [rewrite e2, e1, app_assoc; reflexivity |].
    apply Forall_app. split; [assumption |].
    eapply Forall_impl; [| exact f1]. intros r Hr. eapply step_carries; eauto.
Qed.

Lemma run_app s ops1 ops2 : run s (ops1 ++ ops2) = run (run s ops1) ops2.
Proof. unfold run. apply fold_left_app. Qed.

(* every announce attempt from send_start_event until a tracker accepts a request that carried
   STARTED (or the client replaces the event by stop/completed) carries STARTED *)
Lemma started_carried_trace t0 groups ops1 o ops2 :
  o = OSendStart \/ o = OStart false \/ o = OStartK false ->
  let s0 := run (init t0 groups) ops1 in
  pending_run EvStarted (step s0 o) ops2 ->
  exists new, log (run (step s0 o) ops2) = new ++ log s0 /\ Forall (fun r => r_ev r = EvStarted) new.
Proof.
  intros Ho s0 Hrun.
  assert (HI : Inv s0) by (apply Inv_run, Inv_init). pose proof HI as (Hm & _).
  assert (Hf : f_start (fl (step s0 o)) = true).
  { destruct Ho as [Ho | [Ho | Ho]]; subst o; simpl;
      match goal with |- context [send_start_event ?x] => apply (send_start_event_spec x) end. }
  destruct (step_spec s0 Hm o) as (_ & _ & _ & [n1 [e1 f1]]).
  destruct (pending_emits EvStarted (or_introl eq_refl) ops2 (step s0 o) (Inv_step s0 o HI) Hf Hrun) as [n2 [e2 f2]].
  exists (n2 ++ n1). split; [rewrite e2, e1, app_assoc; reflexivity |].
  apply Forall_app. split; [assumption |].
  eapply Forall_impl; [| exact f1]. intros r ([_ Hsite] & _ & Hst).
  destruct (r_src r).
  - apply Hsite.
  - destruct Ho as [Ho | [Ho | Ho]], Hst; subst o; discriminate.
  - destruct Ho as [Ho | [Ho | Ho]]; subst o; discriminate.
  - destruct Hst as ([E | E] & _); destruct Ho as [Ho | [Ho | Ho]]; subst o; discriminate.
  - destruct Hst as (E & _). destruct Ho as [Ho | [Ho | Ho]]; subst o; contradiction.
Qed.

Lemma completed_carried_trace t0 groups ops1 ops2 :
  let s0 := run (init t0 groups) ops1 in
  pending_run EvCompleted (step s0 OSendCompleted) ops2 ->
  exists new, log (run (step s0 OSendCompleted) ops2) = new ++ log s0 /\ Forall (fun r => r_ev r = EvCompleted) new.
Proof.
  intros s0 Hrun.
  assert (HI : Inv s0) by (apply Inv_run, Inv_init). pose proof HI as (Hm & _).
  assert (Hf : f_completed (fl (step s0 OSendCompleted)) = true) by apply send_completed_flag.
  destruct (step_spec s0 Hm OSendCompleted) as (_ & _ & _ & [n1 [e1 f1]]).
  destruct (pending_emits EvCompleted (or_intror eq_refl) ops2 _ (Inv_step s0 _ HI) Hf Hrun) as [n2 [e2 f2]].
  exists (n2 ++ n1). split; [rewrite e2, e1, app_assoc; reflexivity |].
  apply Forall_app. split; [assumption |].
  eapply Forall_impl; [| exact f1]. intros r ([_ Hsite] & _ & Hst).
  destruct (r_src r).
  - destruct Hst as [E | [E | E]]; discriminate.
  - destruct Hst; discriminate.
  - apply Hsite.
  - destruct Hst as ([E | E] & _); discriminate.
  - destruct Hst as (E & _). contradiction.
Qed.

(* ------------------------------------------------------------------ constants, non-vacuity, remaining refutation *)

(* TrackerUdp::prepare_announce writes the enum value itself as the BEP-15 event code: as long as it
   does (trk_udp_event_raw = 1), the enumerator values must be the protocol's codes *)
Lemma event_codes_bep15 :
  Params.trk_udp_event_raw = 1 ->
  Params.trk_event_none = wire_event EvNone /\ Params.trk_event_completed = wire_event EvCompleted /\
  Params.trk_event_started = wire_event EvStarted /\ Params.trk_event_stopped = wire_event EvStopped.
Proof. intros _. vm_compute. repeat split; reflexivity. Qed.

Lemma backoff_table :
  map backoff [1; 2; 3; 4; 5; 6; 7; 8; 9; 100] = [5; 10; 20; 40; 80; 160; 300; 300; 300; 300].
Proof. vm_compute. reflexivity. Qed.

Lemma setters_clamp_all v :
  min_normal <= set_normal_interval v <= max_normal /\ min_min <= set_min_interval v <= max_min.
Proof.
  pose proof params_facts as (p1&p2&p3&p4&p5). unfold set_normal_interval, set_min_interval. lia.
Qed.

(* the strict reading of tier order is false of the (faithful) model: the two listed findings *)
Lemma tier_order_strict_refuted :
  exists t0 groups ops r u, In r (log (run (init t0 groups) ops)) /\
    r_src r = SrcTimer /\ f_promisc (r_fl r) = false /\ f_requesting (r_fl r) = false /\
    In u (r_trs r) /\ Nat.ltb (t_group u) (t_group (r_pre r)) = true /\
    t_en u = true /\ t_busy u = false /\ t_fc u = 0.
Proof.
  exists 31536000000000, [(0%nat, false); (1%nat, false); (2%nat, false)],
    [OEnable true; OSendStart; OFailure 0%nat None; OSuccess 1%nat 1800 600; OFailure 2%nat None; ONext; OFailure 0%nat None].
  eexists. eexists. split; [vm_compute; left; reflexivity |].
  vm_compute. split; [reflexivity |]. split; [reflexivity |]. split; [reflexivity |].
  split; [right; left; reflexivity |]. repeat split; reflexivity.
Qed.

(* regression of the repaired defects, inside the model: the former witnesses now behave *)
Example manual_request_keeps_started :
  exists r, In r (log (run (init 31536000000000 [(0%nat, false)]) [OEnable true; OSendStart; OFailure 0%nat None; OManual])) /\
    r_src r = SrcUpdate /\ r_ev r = EvStarted.
Proof. eexists. split; [vm_compute; left; reflexivity |]. vm_compute. split; reflexivity. Qed.

Example pending_run_inhabited :
  pending_run EvStarted (step (run (init 31536000000000 [(0%nat, false); (1%nat, false)]) [OEnable true]) OSendStart)
    [OFailure 0%nat None; OManual; OAdvance 3000000; ONext].
Proof. vm_compute. repeat split; try tauto; intros [H _]; discriminate. Qed.

Example sites_inhabited :
  exists r, In r (log (run (init 31536000000000 [(0%nat, false); (0%nat, false); (1%nat, false)])
      [OStart false; OFailure 0%nat None; OAdvance 3000000; OSuccess 1%nat 1800 600; ONext; OSendCompleted; OStop false])) /\
    r_ev r = EvStopped /\ r_src r = SrcStop.
Proof. eexists. split; [vm_compute; left; reflexivity |]. vm_compute. split; reflexivity. Qed.

Example timer_site_inhabited :
  exists r, In r (log (run (init 31536000000000 [(0%nat, false)]) [OStart false; OFailure 0%nat None; ONext])) /\
    r_src r = SrcTimer /\ t_fc (r_pre r) <> 0 /\ f_start (r_fl r) = true /\ r_ev r = EvStarted.
Proof. eexists. split; [vm_compute; left; reflexivity |]. vm_compute. repeat split; congruence. Qed.

Example min_interval_site_inhabited :
  exists r, In r (log (run (init 31536000000000 [(0%nat, false)]) [OStart false; OSuccess 0%nat 600 3000; OStartRequesting; OAdvance 0; ONext])) /\
    r_src r = SrcTimer /\ t_fc (r_pre r) = 0 /\ t_sc (r_pre r) <> 0 /\ t_mi (r_pre r) = 3000 /\
    r_time r / usec = t_stl (r_pre r) + 3000.
Proof. eexists. split; [vm_compute; left; reflexivity |]. vm_compute. repeat split; congruence. Qed.

(* ------------------------------------------------------------------ tracker identities stay unique *)

Lemma keeps_ids s s' : keeps s s' -> ids s' = ids s.
Proof. intros (_&_&_&_&_&_&h&_). exact h. Qed.

Lemma clear_stats_ids l : map t_id (clear_stats l) = map t_id l.
Proof. unfold clear_stats. rewrite map_map. apply map_ext. reflexivity. Qed.

Lemma ctl_enable_ids reset s : ids (ctl_enable reset s) = ids s.
Proof.
  unfold ids, ctl_enable. destruct (f_active (fl s)); [reflexivity |].
  rewrite (proj1 (proj2 (proj2 (update_timeout_same _ _)))). destruct reset; simpl; [apply clear_stats_ids | reflexivity].
Qed.

Lemma do_timeout_ids s : ids (do_timeout s) = ids s.
Proof. destruct (do_timeout_E s) as [_ (_ & k)]. apply keeps_ids. exact k. Qed.

Lemma do_scrape_ids s : ids (do_scrape s) = ids s.
Proof. destruct (do_scrape_frame s) as [_ (_ & k)]. apply keeps_ids. exact k. Qed.

Lemma perform_n_ids fuel : forall s, ids (perform_n fuel s) = ids s.
Proof.
  induction fuel as [| fuel IH]; intros s; simpl; [reflexivity |]. unfold perform1.
  match goal with |- context [if ?c then Some (do_timeout s) else _] => destruct c end; [rewrite IH; apply do_timeout_ids |].
  match goal with |- context [if ?c then Some _ else None] => destruct c end; [| reflexivity].
  rewrite IH. rewrite do_scrape_ids. reflexivity.
Qed.

Lemma perform_ids s : ids (perform s) = ids s.
Proof. apply perform_n_ids. Qed.

Lemma main_part_ids id ok scr x : mask_excl (fl x) -> Permutation (ids (main_part id ok scr x)) (ids x).
Proof.
  intros Hm. assert (EQ : forall a b : list nat, a = b -> Permutation a b) by (intros; subst; apply Permutation_refl).
  unfold main_part. destruct scr.
  - unfold main_scrape. destruct ok; [| apply Permutation_refl]. apply EQ. unfold ids. simpl. apply upd_map. reflexivity.
  - destruct ok.
    + unfold main_success. destruct (find_id (trs x) id); [| apply Permutation_refl].
      match goal with |- context [ctl_receive_success ?e ?n ?y] => set (y0 := y); destruct (ctl_receive_success_facts e n y0 Hm) as (_ & h & _) end.
      unfold ids. rewrite h. subst y0. simpl. rewrite upd_map by reflexivity. apply Permutation_map, promote_perm.
    + apply EQ. unfold main_failure. simpl. destruct (negb (f_active (fl x))).
      * unfold ids. simpl. apply upd_map. reflexivity.
      * rewrite do_timeout_ids. unfold ids. simpl. apply upd_map. reflexivity.
Qed.

Lemma reply_now_ids id r s : mask_excl (fl s) -> Permutation (ids (reply_now id r s)) (ids s).
Proof.
  intros Hm. unfold reply_now. destruct (find_id (trs s) id); [| apply Permutation_refl]. destruct (negb (t_busy t)); [apply Permutation_refl |].
  eapply Permutation_trans; [apply main_part_ids; exact Hm |]. unfold ids. simpl. rewrite upd_map by apply worker_upd_id. apply Permutation_refl.
Qed.

Lemma step_ids s o : mask_excl (fl s) -> (forall g scr, o <> OInsert g scr) -> Permutation (ids (step s o)) (ids s).
Proof.
  intros Hm Hno.
  assert (EQ : forall a b : list nat, a = b -> Permutation a b) by (intros; subst; apply Permutation_refl).
  destruct o; simpl.
  - apply EQ, ctl_enable_ids.
  - apply EQ. unfold ids. rewrite (proj1 (proj2 (ctl_disable_facts s))). reflexivity.
  - apply Permutation_refl.
  - apply EQ, keeps_ids. apply send_start_event_spec.
  - apply EQ, keeps_ids. apply send_stop_event_spec.
  - apply EQ, keeps_ids. apply send_completed_event_spec.
  - apply EQ, keeps_ids. apply (send_update_event_spec s Hm).
  - unfold manual_request. destruct (tmo s); [| apply Permutation_refl]. apply EQ, keeps_ids. apply (send_update_event_spec s Hm).
  - apply EQ. unfold ids. rewrite (proj1 (proj2 (start_requesting_facts s Hm))). reflexivity.
  - apply EQ. unfold ids. rewrite (proj1 (proj2 (stop_requesting_facts s Hm))). reflexivity.
  - apply EQ. unfold ids, tracker_enable. destruct (find_id (trs s) id); [| reflexivity]. destruct (t_en t); [reflexivity |].
    match goal with |- context [if ?c then _ else if ?d then _ else _] => destruct c; [| destruct d] end;
      try rewrite (proj1 (proj2 (proj2 (update_timeout_same _ _)))); simpl; apply upd_map; reflexivity.
  - apply EQ. unfold ids, tracker_disable. destruct (find_id (trs s) id); [| reflexivity]. destruct (negb (t_en t)); [reflexivity |].
    match goal with |- context [if ?c then _ else _] => destruct c end;
      try rewrite (proj1 (proj2 (proj2 (update_timeout_same _ _)))); simpl; apply upd_map; reflexivity.
  - unfold ids. simpl. apply Permutation_map, cycle_perm.
  - apply reply_now_ids; exact Hm.
  - apply reply_now_ids; exact Hm.
  - apply EQ. rewrite perform_ids. reflexivity.
  - destruct (tmo s); [| apply Permutation_refl]. apply EQ. rewrite perform_ids. reflexivity.
  - apply Permutation_refl.
  - destruct skip_tracker; apply EQ; [apply ctl_enable_ids |].
    match goal with |- context [send_start_event ?x] =>
      rewrite (keeps_ids _ _ (proj1 (proj2 (proj2 (proj2 (proj2 (send_start_event_spec x))))))) end. apply ctl_enable_ids.
  - destruct skip_tracker; apply EQ; [apply ctl_enable_ids |].
    rewrite (keeps_ids _ _ (proj1 (proj2 (proj2 (proj2 (proj2 (send_start_event_spec (ctl_enable true s)))))))). apply ctl_enable_ids.
  - apply EQ. unfold ids. rewrite (proj1 (proj2 (ctl_disable_facts _))). destruct skip_tracker; [reflexivity |].
    apply (keeps_ids s). apply send_stop_event_spec.
  - exfalso. apply (Hno g scr). reflexivity.
  - apply EQ. unfold scrape_request. destruct (Z.max sec 0 =? 0); reflexivity.
  - destruct (tsc s); [| apply Permutation_refl]. apply EQ. rewrite perform_ids. reflexivity.
  - apply EQ. unfold worker_done. destruct (pend s); [reflexivity |]. destruct (find_id (trs s) id); [| reflexivity].
    destruct (negb (t_busy t)); [reflexivity |]. unfold ids. simpl. apply upd_map. apply worker_upd_id.
  - unfold drain. destruct (pend s) as [[id [ok scr]] |]; [| apply Permutation_refl].
    eapply Permutation_trans; [apply main_part_ids; exact Hm | apply Permutation_refl].
  - apply Permutation_refl.
Qed.

Lemma insert_ids_seq t l : t_id t = length l -> Permutation (map t_id l) (seq 0 (length l)) ->
  Permutation (map t_id (insert_tracker t l)) (seq 0 (length (insert_tracker t l))).
Proof.
  intros Ht Hp. rewrite (Permutation_length (insert_perm t l)). change (length (t :: l)) with (S (length l)).
  rewrite seq_S. rewrite Nat.add_0_l.
  eapply Permutation_trans; [apply Permutation_map, insert_perm |]. change (map t_id (t :: l)) with (t_id t :: map t_id l). rewrite Ht.
  eapply Permutation_trans; [apply perm_skip, Hp |]. apply Permutation_cons_append.
Qed.

(* identities are exactly 0 .. n-1 (a new tracker gets the next number) *)
Definition ids_inv (s : state) : Prop := Permutation (ids s) (seq 0 (length (trs s))).

Lemma ids_inv_step s o : mask_excl (fl s) -> ids_inv s -> ids_inv (step s o).
Proof.
  intros Hm Hi. unfold ids_inv in *.
  assert (Hlen : forall x, length (trs x) = length (ids x)) by (intros; unfold ids; rewrite map_length; reflexivity).
  destruct o;
    try (match goal with |- Permutation (ids (step s ?o)) _ =>
           pose proof (step_ids s o Hm ltac:(intros; discriminate)) as Hp;
           rewrite (Hlen (step s o)), (Permutation_length Hp), <- Hlen;
           exact (Permutation_trans Hp Hi) end).
  simpl. match goal with |- context [insert_op ?g ?sc s] => destruct (insert_op_facts s g sc) as (_ & _ & _ & h) end.
  unfold ids in *. rewrite h. apply insert_ids_seq; [reflexivity | exact Hi].
Qed.

Lemma ids_inv_run ops : forall s, Inv s -> ids_inv s -> ids_inv (run s ops).
Proof.
  induction ops as [| o ops IH]; intros s HI Hn; simpl; [assumption |].
  apply IH; [apply Inv_step; assumption | apply ids_inv_step; [apply HI | assumption]].
Qed.

Lemma insert_all_ids_seq groups : forall id l,
  length l = id -> Permutation (map t_id l) (seq 0 id) ->
  Permutation (map t_id (insert_all id groups l)) (seq 0 (length (insert_all id groups l))).
Proof.
  induction groups as [| g r IH]; intros id l Hl Hp; simpl; [rewrite Hl; exact Hp |].
  apply IH.
  - rewrite (Permutation_length (insert_perm _ _)). simpl. rewrite Hl. reflexivity.
  - pose proof (insert_ids_seq (new_tracker id g) l) as H. rewrite Hl in H.
    rewrite (Permutation_length (insert_perm _ _)) in H. simpl in H. rewrite Hl in H. apply H; [reflexivity | exact Hp].
Qed.

(* tracker identities are unique in every reachable state, so the lookups by id used in the model
   (find_id, upd) address exactly the tracker the code's handle points to *)
Lemma ids_unique t0 groups ops : NoDup (map t_id (trs (run (init t0 groups) ops))).
Proof.
  assert (H : ids_inv (run (init t0 groups) ops)).
  { apply ids_inv_run; [apply Inv_init |]. unfold ids_inv, ids, init. simpl.
    apply insert_all_ids_seq; [reflexivity | apply Permutation_refl]. }
  unfold ids_inv, ids in H. eapply Permutation_NoDup; [apply Permutation_sym, H | apply seq_NoDup].
Qed.

Lemma find_id_exact t0 groups ops t :
  In t (trs (run (init t0 groups) ops)) -> find_id (trs (run (init t0 groups) ops)) (t_id t) = Some t.
Proof. intros H. apply find_id_unique; [apply ids_unique | assumption]. Qed.

(* ------------------------------------------------------------------ scrapes and queued replies *)

(* a tracker in the middle of a scrape can take an announce (it replaces the scrape): a due announce
   is never diverted to another tracker because of a scrape *)
Lemma scraping_tracker_requestable t :
  t_en t = true -> t_busy t = true -> t_ev t = EvScrape -> can_request_state t = true.
Proof. intros a b c. unfold can_request_state, busy_ann. rewrite a, b, c. reflexivity. Qed.

(* handing a new request to a tracker cancels its result callback still queued for the main thread:
   if the callback survives the call, nothing was sent *)
Lemma send_event_cancels sr t ev s k :
  pend (send_event sr t ev s) = Some (t_id t, k) -> log (send_event sr t ev s) = log s.
Proof.
  unfold send_event. destruct (negb (existsb (Nat.eqb (t_id t)) (map t_id (trs s)))); [reflexivity |].
  destruct (negb (is_usable t)); [reflexivity |].
  destruct (t_busy t && (event_eqb (t_ev t) ev || (negb (event_eqb (t_ev t) EvScrape) && event_eqb ev EvNone))); [reflexivity |].
  simpl. destruct (pend s) as [[i k'] |]; [| discriminate].
  destruct (Nat.eqb i (t_id t)) eqn:E; [discriminate |]. intros H. inversion H; subst. rewrite Nat.eqb_refl in E. discriminate.
Qed.

(* a scrape is only handed to an idle, enabled, scrapable tracker whose last scrape is at least the gap ago *)
Lemma send_scrape_guard t s : slog (send_scrape t s) <> slog s ->
  t_busy t = false /\ t_en t = true /\ t_scr t = true /\ (t_sct t + scrape_min_gap) * usec <= now s.
Proof.
  unfold send_scrape. destruct (t_busy t) eqn:Hb; simpl; [intros H; contradiction H; reflexivity |].
  unfold is_usable. destruct (t_en t) eqn:He; simpl; [| intros H; contradiction H; reflexivity].
  destruct (t_scr t) eqn:Hs; simpl; [| intros H; contradiction H; reflexivity].
  destruct (now s <? (t_sct t + scrape_min_gap) * usec) eqn:Hg; [intros H; contradiction H; reflexivity |].
  intros _. apply Z.ltb_ge in Hg. auto.
Qed.

(* ------------------------------------------------------------------ trace forms *)

(* every logged request carries the figures of the download info at the moment it was sent: those of the
   state reached by the op list before the sending op (reset to 0 / 0 first when that op is a Download::start) *)
Lemma figures_trace ops : forall s0, Inv s0 -> forall r, In r (log (run s0 ops)) ->
  In r (log s0) \/ exists ops1 o ops2, ops = ops1 ++ o :: ops2 /\
    (let '(up, comp, lft) := figs_for (run s0 ops1) o in
     r_up r = Z.max up 0 /\ r_comp r = Z.max comp 0 /\ r_left r = lft).
Proof.
  induction ops as [| o ops IH]; intros s0 HI r Hin; simpl in Hin; [left; exact Hin |].
  destruct (IH (step s0 o) (Inv_step s0 o HI) r Hin) as [H | (ops1 & o' & ops2 & E & H)].
  - destruct HI as (Hm & _). destruct (step_spec s0 Hm o) as (_ & _ & _ & [new [e1 e2]]).
    rewrite e1 in H. apply in_app_or in H. destruct H as [H | H]; [| left; exact H].
    right. exists [], o, ops. split; [reflexivity |]. rewrite Forall_forall in e2. destruct (e2 r H) as (_ & h & _).
    simpl. destruct o; exact h.
  - right. exists (o :: ops1), o', ops2. split; [simpl; rewrite E; reflexivity | exact H].
Qed.

Lemma figures_match_transfer_state_trace t0 groups ops r :
  In r (log (run (init t0 groups) ops)) ->
  exists ops1 o ops2, ops = ops1 ++ o :: ops2 /\
    (let '(up, comp, lft) := figs_for (run (init t0 groups) ops1) o in
     r_up r = Z.max up 0 /\ r_comp r = Z.max comp 0 /\ r_left r = lft).
Proof.
  intros Hin. destruct (figures_trace ops (init t0 groups) (Inv_init _ _) r Hin) as [H | H]; [simpl in H; contradiction | exact H].
Qed.

(* tier order with scrapes in flight: an enabled never-failed tracker of an earlier group that is only busy with a
   SCRAPE does not excuse contacting a later group: the not-due condition must hold *)
Lemma tier_order_scrape_in_flight t0 groups ops r u :
  In r (log (run (init t0 groups) ops)) ->
  r_src r = SrcTimer -> f_promisc (r_fl r) = false -> f_requesting (r_fl r) = false ->
  In u (r_trs r) -> (t_group u < t_group (r_pre r))%nat -> t_en u = true -> t_fc u = 0 -> t_ev u = EvScrape ->
  activity_time_next (r_pre r) <= activity_time_next u /\
  exists p, In p (r_trs r) /\ can_request_state p = true /\ t_fc p <> 0.
Proof.
  intros Hin Hs Hp Hr Hu Hg He Hf Hsc.
  destruct (tier_order t0 groups ops r Hin Hs) as [H | [H | H]]; [congruence | congruence |].
  destruct (H u Hu Hg He Hf) as [Hb | Hb]; [| exact Hb].
  unfold busy_ann in Hb. rewrite Hsc in Hb. simpl in Hb. rewrite andb_false_r in Hb. discriminate.
Qed.

(* ------------------------------------------------------------------ J: list / log / queued-callback invariant *)

Lemma J_map s s' (g : tracker -> tracker) :
  trs s' = map g (trs s) -> log s' = log s -> pend s' = pend s -> pmark s' = pmark s -> slog s' = slog s ->
  (forall x, t_id (g x) = t_id x /\ t_ev (g x) = t_ev x /\ (busy_ann (g x) = true -> busy_ann x = true)) ->
  J s -> J s'.
Proof.
  intros Ht Hl Hp Hm Hsl Hg (Jk & Jt & Jm & Jp & Js). unfold J, ids in *. rewrite Ht, Hl, Hp, Hm, Hsl.
  assert (Hids : map t_id (map g (trs s)) = map t_id (trs s)) by (rewrite map_map; apply map_ext; intros x; apply Hg).
  ssplit; auto.
  - rewrite Hids. exact Jk.
  - rewrite Forall_forall in *. intros y Hy. apply in_map_iff in Hy. destruct Hy as [x [E Hx]]. subst y.
    destruct (Jt x Hx) as [Pe Pp]. destruct (Hg x) as (gi & ge & gb). split.
    + unfold Pev in *. rewrite gi, ge. exact Pe.
    + unfold Ppend in *. intros id k Hk Hid. rewrite gi in Hid. specialize (Pp id k Hk Hid).
      destruct (busy_ann (g x)) eqn:Eb; [| reflexivity]. rewrite (gb eq_refl) in Pp. discriminate.
Qed.

Lemma upd_as_map l id f : upd l id f = map (fun t => if Nat.eqb (t_id t) id then f t else t) l.
Proof. reflexivity. Qed.

Lemma J_upd s id f :
  (forall x, t_id (f x) = t_id x /\ t_ev (f x) = t_ev x /\ (busy_ann (f x) = true -> busy_ann x = true)) ->
  J s -> J (set_trs s (upd (trs s) id f)).
Proof.
  intros Hf. apply (J_map s _ (fun t => if Nat.eqb (t_id t) id then f t else t)); try reflexivity.
  intros x. destruct (Nat.eqb (t_id x) id); [apply Hf | auto].
Qed.

Lemma J_perm s s' : Permutation (trs s') (trs s) -> log s' = log s -> pend s' = pend s -> pmark s' = pmark s -> slog s' = slog s -> J s -> J s'.
Proof.
  intros Hp Hl Hpe Hm Hsl (Jk & Jt & Jm & Jp & Js). unfold J, ids in *. rewrite Hl, Hpe, Hm, Hsl. ssplit; auto.
  - eapply Forall_impl; [| exact Jk]. intros r Hr. simpl in Hr.
    eapply Permutation_in; [apply Permutation_map, Permutation_sym, Hp | exact Hr].
  - eapply Permutation_Forall; [apply Permutation_sym, Hp | exact Jt].
Qed.

Lemma newest_none id l : Forall (fun r => r_id r <> id) l -> newest_for id l = None.
Proof.
  unfold newest_for. induction 1 as [| r l Hr Hl IH]; simpl; [reflexivity |].
  destruct (Nat.eqb (r_id r) id) eqn:E; [apply Nat.eqb_eq in E; contradiction | exact IH].
Qed.

Lemma J_update_timeout n s : J s -> J (update_timeout n s).
Proof.
  destruct (update_timeout_same n s) as (a&b&c&_). destruct (update_timeout_j n s) as (d&e&f). apply J_same; assumption.
Qed.

Lemma J_ctl_enable reset s : J s -> J (ctl_enable reset s).
Proof.
  intros H. unfold ctl_enable. destruct (f_active (fl s)); [exact H |]. apply J_update_timeout.
  destruct reset; [| apply (J_same s); [reflexivity | reflexivity | reflexivity | reflexivity | reflexivity | exact H]].
  apply (J_map s _ (fun x => mkT (t_id x) (t_group x) (t_en x) (t_busy x) (t_ev x) 0 0 (t_stl x) (t_ftl x) (t_ni x) (t_mi x) (t_scr x) (t_sct x)));
    try reflexivity; [| exact H]. intros x. ssplit; auto.
Qed.

Lemma J_ctl_receive_success e n x : J x -> J (ctl_receive_success e n x).
Proof.
  intros H. unfold ctl_receive_success. destruct (negb (f_active (fl x))); [exact H |].
  match goal with |- context [set_fl x ?f] => assert (H1 : J (set_fl x f)) by (apply (J_same x); [reflexivity | reflexivity | reflexivity | reflexivity | reflexivity | exact H]) end.
  destruct (f_requesting (fl x)); [apply J_update_timeout; exact H1 |].
  match goal with |- context [if ?c then _ else _] => destruct c end; [apply J_update_timeout |]; exact H1.
Qed.

Lemma J_main_part id ok scr x : J x -> J (main_part id ok scr x).
Proof.
  intros H. unfold main_part. destruct scr.
  - unfold main_scrape. destruct ok; [| exact H]. apply J_upd; [| exact H]. intros y. ssplit; auto.
  - destruct ok.
    + unfold main_success. destruct (find_id (trs x) id); [| exact H]. apply J_ctl_receive_success.
      match goal with |- J (set_trs x (upd ?l id ?f)) =>
        assert (H1 : J (set_trs x l)) by (apply (J_perm x); [apply promote_perm | reflexivity | reflexivity | reflexivity | reflexivity | exact H]);
        apply (J_upd (set_trs x l) id f) in H1; [exact H1 | intros y; ssplit; auto] end.
    + unfold main_failure. simpl.
      match goal with |- context [set_trs x (upd (trs x) id ?f)] => assert (H1 : J (set_trs x (upd (trs x) id f))) by (apply J_upd; [intros y; ssplit; auto | exact H]) end.
      destruct (negb (f_active (fl x))); [exact H1 |].
      match goal with |- J (do_timeout ?y) => destruct (do_timeout_E y) as [_ (_ & k)]; apply k end.
      eapply J_same; [| | | | | exact H1]; reflexivity.
Qed.

Lemma worker_upd_J r x : t_id (worker_upd r x) = t_id x /\ t_ev (worker_upd r x) = t_ev x /\ (busy_ann (worker_upd r x) = true -> busy_ann x = true).
Proof.
  ssplit; [apply worker_upd_id | apply worker_upd_ev |].
  unfold worker_upd, busy_ann. destruct (event_eqb (t_ev x) EvScrape); [simpl; discriminate |].
  destruct r as [? ? | [[? ?] |]]; simpl; discriminate.
Qed.

Lemma J_reply_now id r s : J s -> J (reply_now id r s).
Proof.
  intros H. unfold reply_now. destruct (find_id (trs s) id); [| exact H]. destruct (negb (t_busy t)); [exact H |].
  apply J_main_part. apply J_upd; [apply worker_upd_J | exact H].
Qed.

Lemma J_perform_n fuel : forall s, J s -> J (perform_n fuel s).
Proof.
  induction fuel as [| fuel IH]; intros s H; simpl; [exact H |]. unfold perform1.
  match goal with |- context [if ?c then Some (do_timeout s) else _] => destruct c end.
  - apply IH. destruct (do_timeout_E s) as [_ (_ & k)]. apply k. exact H.
  - match goal with |- context [if ?c then Some _ else None] => destruct c end; [| exact H].
    apply IH. destruct (do_scrape_frame (set_tsc s None)) as [_ (_ & k)]. apply k.
    apply (J_same s); try reflexivity. exact H.
Qed.

Lemma J_insert g scr s : ids_inv s -> J s -> J (insert_op g scr s).
Proof.
  intros Hi (Jk & Jt & Jm & Jp & Js). unfold insert_op.
  set (tn := mkT (length (trs s)) g true false EvNone 0 0 0 0 min_normal min_min scr 0).
  assert (H1 : J (set_trs s (insert_tracker tn (trs s)))).
  { unfold J, ids in *. simpl. ssplit; auto.
    - eapply Forall_impl; [| exact Jk]. intros r Hr. simpl in Hr.
      eapply Permutation_in; [apply Permutation_map, Permutation_sym, insert_perm |]. simpl. right. exact Hr.
    - eapply Permutation_Forall; [apply Permutation_sym, insert_perm |]. constructor; [| exact Jt].
      split.
      + unfold Pev. rewrite newest_none; [left; reflexivity |].
        eapply Forall_impl; [| exact Jk]. intros r Hr E. simpl in Hr, E. unfold tn in E. simpl in E.
        unfold ids_inv, ids in Hi. apply (Permutation_in _ Hi) in Hr. apply in_seq in Hr. lia.
      + unfold Ppend. intros. reflexivity. }
  match goal with |- context [if ?c then _ else if ?d then _ else _] => destruct c; [exact H1 | destruct d] end;
    [apply J_update_timeout |]; exact H1.
Qed.

Lemma J_step s o : Inv s -> ids_inv s -> J s -> J (step s o).
Proof.
  intros (Hm & _) Hi H.
  assert (KS : forall s', keeps s s' -> J s') by (intros s' (_&_&_&_&_&_&_&k); apply k; exact H).
  destruct o; simpl.
  - apply J_ctl_enable; exact H.
  - unfold ctl_disable. destruct (negb (f_active (fl s))); [exact H |]. apply (J_same s); try reflexivity. exact H.
  - apply (J_same s); try reflexivity. exact H.
  - apply KS. apply send_start_event_spec.
  - apply KS. apply send_stop_event_spec.
  - apply KS. apply send_completed_event_spec.
  - apply KS. apply (send_update_event_spec s Hm).
  - unfold manual_request. destruct (tmo s); [| exact H]. apply KS. apply (send_update_event_spec s Hm).
  - unfold start_requesting. destruct (f_requesting (fl s)); [exact H |].
    destruct (f_active (fl s)); [apply J_update_timeout |]; apply (J_same s); try reflexivity; exact H.
  - unfold stop_requesting. destruct (negb (f_requesting (fl s))); [exact H |]. apply (J_same s); try reflexivity. exact H.
  - unfold tracker_enable. destruct (find_id (trs s) id); [| exact H]. destruct (t_en t); [exact H |].
    match goal with |- context [set_trs s (upd (trs s) id ?f)] => assert (H1 : J (set_trs s (upd (trs s) id f))) by (apply J_upd; [intros y; ssplit; auto | exact H]) end.
    match goal with |- context [if ?c then _ else if ?d then _ else _] => destruct c; [exact H1 | destruct d] end; [apply J_update_timeout |]; exact H1.
  - unfold tracker_disable. destruct (find_id (trs s) id); [| exact H]. destruct (negb (t_en t)); [exact H |].
    match goal with |- context [set_trs s (upd (trs s) id ?f)] => assert (H1 : J (set_trs s (upd (trs s) id f))) by (apply J_upd; [intros y; ssplit; auto | exact H]) end.
    match goal with |- context [if ?c then _ else _] => destruct c end; [apply J_update_timeout |]; exact H1.
  - apply (J_perm s); [apply cycle_perm | reflexivity | reflexivity | reflexivity | reflexivity | exact H].
  - apply J_reply_now; exact H.
  - apply J_reply_now; exact H.
  - unfold perform. apply J_perform_n. apply (J_same s); try reflexivity. exact H.
  - destruct (tmo s); [| exact H]. unfold perform. apply J_perform_n. apply (J_same s); try reflexivity. exact H.
  - apply (J_same s); try reflexivity. exact H.
  - destruct skip_tracker.
    + apply (J_same (ctl_enable false s)); try reflexivity. apply J_ctl_enable; exact H.
    + match goal with |- J (send_start_event ?x) => destruct (send_start_event_spec x) as (_&_&_&_&(_&_&_&_&_&_&_&k)&_); apply k end.
      apply (J_same (ctl_enable true s)); try reflexivity. apply J_ctl_enable; exact H.
  - destruct skip_tracker; [apply J_ctl_enable; exact H |].
    destruct (send_start_event_spec (ctl_enable true s)) as (_&_&_&_&(_&_&_&_&_&_&_&k)&_). apply k. apply J_ctl_enable; exact H.
  - assert (H1 : J (if skip_tracker then s else send_stop_event s)) by (destruct skip_tracker; [exact H | apply KS; apply send_stop_event_spec]).
    unfold ctl_disable. destruct (negb (f_active (fl _))); [exact H1 |]. eapply J_same; [| | | | | exact H1]; reflexivity.
  - apply J_insert; assumption.
  - unfold scrape_request. destruct (Z.max sec 0 =? 0); apply (J_same s); try reflexivity; exact H.
  - destruct (tsc s); [| exact H]. unfold perform. apply J_perform_n. apply (J_same s); try reflexivity. exact H.
  - (* ODone *) unfold worker_done. destruct (pend s) eqn:Hp; [exact H |]. destruct (find_id (trs s) id); [| exact H].
    destruct (negb (t_busy t)); [exact H |].
    assert (H1 : J (set_trs s (upd (trs s) id (worker_upd r)))) by (apply J_upd; [apply worker_upd_J | exact H]).
    destruct H1 as (Jk & Jt & Jm & Jp & Js). unfold J, ids in *. simpl in *. ssplit; auto.
    + rewrite Forall_forall in *. intros y Hy. destruct (Jt y Hy) as [Pe _]. split; [exact Pe |].
      unfold Ppend. intros id' k Hk Hid. injection Hk as E1 E2. rewrite <- E1 in Hid. clear E1 E2.
      unfold upd in Hy. apply in_map_iff in Hy. destruct Hy as [z [E Hz]]. subst y.
      destruct (Nat.eqb (t_id z) id) eqn:Ez;
        [| apply Nat.eqb_neq in Ez; exfalso; apply Ez; exact Hid].
      unfold worker_upd, busy_ann. destruct (event_eqb (t_ev z) EvScrape); [reflexivity |]. destruct r as [? ? | [[? ?] |]]; reflexivity.
    + intros id' k _. rewrite Nat.sub_diag. constructor.
  - (* ODrain *) unfold drain. destruct (pend s) as [[id [ok scr]] |]; [| exact H]. apply J_main_part.
    destruct H as (Jk & Jt & Jm & Jp & Js). unfold J, ids in *. simpl. ssplit; auto.
    + eapply Forall_impl; [| exact Jt]. intros y [Pe _]. split; [exact Pe |]. unfold Ppend. intros; discriminate.
    + intros; discriminate.
  - apply (J_same s); try reflexivity. exact H.
Qed.

Lemma J_init t0 groups : J (init t0 groups).
Proof.
  unfold J, init, ids. simpl. ssplit; auto; try (constructor; fail); try (intros; discriminate).
  assert (H : Forall (fun t => t_ev t = EvNone) (insert_all 0 groups [])) by (apply insert_all_Forall; [reflexivity | constructor]).
  eapply Forall_impl; [| exact H]. intros t Ht. split; [unfold Pev; simpl; left; exact Ht | unfold Ppend; intros; discriminate].
Qed.

Lemma ids_inv_init t0 groups : ids_inv (init t0 groups).
Proof. unfold ids_inv, ids, init. simpl. apply insert_all_ids_seq; [reflexivity | apply Permutation_refl]. Qed.

Lemma J_run ops : forall s, Inv s -> ids_inv s -> J s -> J (run s ops).
Proof.
  induction ops as [| o ops IH]; intros s HI Hi HJ; simpl; [exact HJ |].
  apply IH; [apply Inv_step; exact HI | apply ids_inv_step; [apply HI | exact Hi] | apply J_step; assumption].
Qed.

Lemma J_reach t0 groups ops : J (run (init t0 groups) ops).
Proof. apply J_run; [apply Inv_init | apply ids_inv_init | apply J_init]. Qed.

(* A result callback that is still queued for the main thread belongs to the LAST request handed to its
   tracker: no request went to that tracker since the callback was queued, no announce of it is in flight, and
   the tracker's latest event is the event carried by its newest logged request (or SCRAPE, if a scrape was
   started since). *)
Lemma stale_reply_never_accepts t0 groups ops id k t :
  let s := run (init t0 groups) ops in
  pend s = Some (id, k) -> find_id (trs s) id = Some t ->
  busy_ann t = false /\
  Forall (fun r => r_id r <> id) (firstn (length (log s) - pmark s) (log s)) /\
  match newest_for id (log s) with
  | Some r => t_ev t = r_ev r \/ t_ev t = EvScrape
  | None => t_ev t = EvNone \/ t_ev t = EvScrape
  end.
Proof.
  cbv zeta. intros Hp Hf. destruct (J_reach t0 groups ops) as (_ & Jt & _ & Jp & _).
  unfold find_id in Hf. apply find_some in Hf. destruct Hf as [Hin Hid]. apply Nat.eqb_eq in Hid.
  rewrite Forall_forall in Jt. destruct (Jt t Hin) as [Pe Pp]. ssplit.
  - eapply Pp; eauto.
  - eapply Jp; eauto.
  - unfold Pev in Pe. rewrite Hid in Pe. exact Pe.
Qed.

(* Hence the pending 'started' / 'completed' flag is cleared by the main thread's queue only for the reply to a
   request that carried that very event, and that request is the newest one logged for the tracker *)
Lemma drain_accepts_only_carrier t0 groups ops ev :
  ev = EvStarted \/ ev = EvCompleted ->
  let s := run (init t0 groups) ops in
  pend_flag ev (fl s) = true -> pend_flag ev (fl (step s ODrain)) = false ->
  exists id r, pend s = Some (id, (true, false)) /\ newest_for id (log s) = Some r /\ r_ev r = ev /\
    Forall (fun q => r_id q <> id) (firstn (length (log s) - pmark s) (log s)).
Proof.
  intros Hev. cbv zeta. set (s := run (init t0 groups) ops). intros Hp Hc.
  assert (HI : Inv s) by (apply Inv_run, Inv_init). pose proof HI as (Hm & _).
  assert (Hcl : clears ev s ODrain).
  { destruct (pend s) as [[id [ok scr]] |] eqn:Hpd.
    2: { exfalso. rewrite (pend_flag_step ev s ODrain Hev Hm Hp) in Hc; [discriminate |]. simpl. rewrite Hpd. intros (_ & i & t & E & _). discriminate. }
    destruct (f_active (fl s)) eqn:Ha.
    2: { exfalso. rewrite (pend_flag_step ev s ODrain Hev Hm Hp) in Hc; [discriminate |]. simpl. intros (E & _). congruence. }
    destruct (find_id (trs s) id) as [t |] eqn:Hf.
    2: { exfalso. rewrite (pend_flag_step ev s ODrain Hev Hm Hp) in Hc; [discriminate |]. simpl. rewrite Hpd.
         intros (_ & i & t & E & F & _). inversion E; subst. congruence. }
    destruct (event_eqb (t_ev t) ev) eqn:Ee.
    2: { exfalso. rewrite (pend_flag_step ev s ODrain Hev Hm Hp) in Hc; [discriminate |]. simpl. rewrite Hpd.
         intros (_ & i & t' & E & F & G). inversion E; subst. rewrite Hf in F. inversion F; subst t'.
         apply event_eqb_false in Ee. contradiction. }
    destruct ok, scr; try (exfalso; rewrite (pend_flag_step ev s ODrain Hev Hm Hp) in Hc; [discriminate |]; simpl; rewrite Hpd;
                           intros (_ & i & t' & E & _); discriminate).
    simpl. rewrite Hpd. split; [exact Ha |]. exists id, t. ssplit; auto. apply event_eqb_true. exact Ee. }
  simpl in Hcl. destruct Hcl as (_ & id & t & Hpd & Hf & He).
  destruct (stale_reply_never_accepts t0 groups ops id (true, false) t Hpd Hf) as (_ & Hno & Hnew).
  fold s in Hnew, Hno. destruct (newest_for id (log s)) as [r |] eqn:Hn.
  - exists id, r. ssplit; auto. destruct Hnew as [E | E]; [congruence |]. rewrite He in E. destruct Hev; subst ev; discriminate.
  - exfalso. rewrite He in Hnew. destruct Hnew as [E | E]; destruct Hev; subst ev; discriminate.
Qed.

(* every scrape ever handed to a worker went to an idle, enabled, scrapable tracker at least the gap after its last scrape *)
Lemma scrapes_only_idle t0 groups ops T t :
  In (T, t) (slog (run (init t0 groups) ops)) ->
  t_busy t = false /\ t_en t = true /\ t_scr t = true /\ (t_sct t + scrape_min_gap) * usec <= T.
Proof.
  intros Hin. destruct (J_reach t0 groups ops) as (_ & _ & _ & _ & Js). rewrite Forall_forall in Js.
  exact (Js (T, t) Hin).
Qed.
