From Coq Require Import List ZArith Bool Lia.
From LTV Require Import Params_gen.
From LTV.C13 Require Import Model.
Import ListNotations.
Open Scope Z_scope.

(* side conditions on the constants re-extracted from /repo that the theorems rely on *)
Definition params_ok : bool :=
  (0 <? min_min) && (min_min <=? max_min) && (0 <? min_normal) && (min_normal <=? max_normal) &&
  (0 <? backoff_base) && (0 <=? backoff_cap) && (min_min <=? promisc_floor) &&
  (0 <? start_promisc_timeout) && (0 <? requesting_success_timeout).

Lemma params_ok_now : params_ok = true.
Proof. vm_compute. reflexivity. Qed.
