From Coq Require Import Extraction ExtrOcamlBasic NArith.
From LTV.C13 Require Import Model.
Set Extraction Optimize.
Extraction Language OCaml.
Extraction "extracted/c13_model.ml" init step run wire_event N.succ.  (* N.succ: ocaml/conv.ml refers to type n *)
