(* C13 — what one model step does: flags invariants, group order and clamps of the tracker list,
   and the description [step_site] of every request it adds to the log. *)
From Coq Require Import List ZArith Bool Lia Arith.
From LTV.C13 Require Import ParamsGen.
From LTV.C13 Require Import Model ProofsList ProofsSite.
Import ListNotations.
Open Scope Z_scope.

Definition clamps (t : tracker) : Prop :=
  min_normal <= t_ni t <= max_normal /\ min_min <= t_mi t <= max_min.

Definition tinv (l : list tracker) : Prop := Forall clamps l.

Lemma clamps_closed : busy_closed clamps.
Proof. intros x b e sct H. exact H. Qed.

Lemma setters_clamp v w :
  min_normal <= set_normal_interval v <= max_normal /\ min_min <= set_min_interval w <= max_min.
Proof.
  pose proof params_facts as (p1&p2&p3&p4&p5). unfold set_normal_interval, set_min_interval. lia.
Qed.

Lemma worker_upd_clamps r x : clamps x -> clamps (worker_upd r x).
Proof.
  intros H. unfold worker_upd. destruct (event_eqb (t_ev x) EvScrape); [exact H |].
  pose proof (setters_clamp 0 0) as _.
  destruct r as [iv mv | [[iv mv] |]]; unfold clamps in *; simpl.
  - apply setters_clamp.
  - apply setters_clamp.
  - exact H.
Qed.

Lemma worker_upd_group r x : t_group (worker_upd r x) = t_group x.
Proof. unfold worker_upd. destruct (event_eqb (t_ev x) EvScrape); [reflexivity |]. destruct r as [? ? | [[? ?] |]]; reflexivity. Qed.

Lemma worker_upd_id r x : t_id (worker_upd r x) = t_id x.
Proof. unfold worker_upd. destruct (event_eqb (t_ev x) EvScrape); [reflexivity |]. destruct r as [? ? | [[? ?] |]]; reflexivity. Qed.

Definition trs_ok (s s' : state) : Prop :=
  (nsorted (map t_group (trs s)) -> nsorted (map t_group (trs s'))) /\
  (tinv (trs s) -> tinv (trs s')).

Lemma trs_ok_of_eq s s' : (nsorted (map t_group (trs s)) -> map t_group (trs s') = map t_group (trs s)) ->
  (tinv (trs s) -> tinv (trs s')) -> trs_ok s s'.
Proof. intros a b. split; [intros H; rewrite (a H); exact H | exact b]. Qed.

Lemma trs_ok_same s s' : trs s' = trs s -> trs_ok s s'.
Proof. intros H. unfold trs_ok. rewrite H. auto. Qed.

Lemma trs_ok_keeps s s' : keeps s s' -> trs_ok s s'.
Proof. intros (_&_&_&_&g&p&_). apply trs_ok_of_eq; [intros _; exact g | apply p, clamps_closed]. Qed.

Lemma trs_ok_trans s1 s2 s3 : trs_ok s1 s2 -> trs_ok s2 s3 -> trs_ok s1 s3.
Proof. intros [a b] [c d]. split; auto. Qed.

Definition timer_op (o : op) : Prop :=
  match o with OFailure _ _ | OAdvance _ | ONext | ONextScrape | ODrain => True | _ => False end.

(* what a step adds to the log *)
(* the figures an announce of this step carries: those of the download info, which Download::start
   has just reset (adjusted figures 0) when the step is OStart *)
Definition ctxo (s : state) (o : op) (r : req) : Prop :=
  match o with
  | OStart _ => figures_ok 0 0 (s_left s) r
  | _ => ctxq s r
  end.

Definition step_site (s : state) (o : op) (r : req) : Prop :=
  site r /\ ctxo s o r /\
  match r_src r with
  | SrcStart => o = OSendStart \/ o = OStart false \/ o = OStartK false
  | SrcStop => o = OSendStop \/ o = OStop false
  | SrcCompleted => o = OSendCompleted
  | SrcUpdate => (o = OSendUpdate \/ o = OManual) /\ same3 (r_fl r) (fl s) /\ f_active (fl s) = true
  | SrcTimer => timer_op o /\ same3 (r_fl r) (fl s) /\ f_active (fl s) = true /\
                f_promisc (r_fl r) = f_promisc (fl s) /\ f_requesting (r_fl r) = f_requesting (fl s) /\
                (normal_mode (r_fl r) -> map t_group (r_trs r) = map t_group (trs s))
  end.

Definition step_ok (s : state) (o : op) : Prop :=
  let s' := step s o in
  mask_excl (fl s') /\ (o <> OSendStop -> stop_inv (fl s) -> stop_inv (fl s')) /\
  trs_ok s s' /\ emits (step_site s o) s s'.

Ltac flg s := solve [simpl; unfold mask_excl, stop_inv, same3 in *; dfl s; dbools].

(* ------------------------------------------------------------------ do_timeout *)

Lemma do_timeout_spec s : mask_excl (fl s) ->
  fl (do_timeout s) = fl s /\ keeps s (do_timeout s) /\
  emits (fun r => site r /\ r_src r = SrcTimer /\ ctxq s r /\ r_fl r = fl s /\ f_active (fl s) = true /\
                  (normal_mode (fl s) -> r_trs r = trs s)) s (do_timeout s).
Proof.
  intros Hm. pose proof (do_timeout_E s) as [Hem (hfl & hk)]. ssplit; [assumption | assumption |].
  eapply emits_weaken; [| exact Hem].
  intros r [(b & hf & ht & hs & he & [[hto hn] hl] & hfig) Ha].
  assert (Hsite : site r).
  { unfold site. split; [assumption |]. rewrite hs, hf, ht. ssplit; auto. }
  ssplit; auto.
Qed.

(* the requests of a do_timeout run from state [x] inside a step from [s] *)
Lemma timer_step_site s o x : timer_op o ->
  same3 (fl x) (fl s) -> f_active (fl x) = f_active (fl s) -> f_promisc (fl x) = f_promisc (fl s) ->
  f_requesting (fl x) = f_requesting (fl s) -> map t_group (trs x) = map t_group (trs s) ->
  s_up x = s_up s -> s_comp x = s_comp s -> s_left x = s_left s ->
  forall r, (site r /\ r_src r = SrcTimer /\ ctxq x r /\ r_fl r = fl x /\ f_active (fl x) = true /\
             (normal_mode (fl x) -> r_trs r = trs x)) -> step_site s o r.
Proof.
  intros hop h3 ha hp hr hg hu hc hl r (hs & hsrc & hctx & hfl & hact & hn).
  unfold step_site. split; [assumption |]. split.
  - assert (Hc : ctxo s o r = ctxq s r) by (destruct o; try contradiction; reflexivity). rewrite Hc.
    unfold ctxq in *. rewrite <- hu, <- hc, <- hl. assumption.
  - rewrite hsrc, hfl. ssplit; auto; try congruence.
    intros Hn. rewrite (hn Hn). assumption.
Qed.

(* ------------------------------------------------------------------ the cases *)

Section Cases.
Variable s : state.
Hypothesis Hm : mask_excl (fl s).

Lemma quiet o s' : step s o = s' -> log s' = log s -> mask_excl (fl s') ->
  (o <> OSendStop -> stop_inv (fl s) -> stop_inv (fl s')) -> trs_ok s s' -> step_ok s o.
Proof. intros E Hl a b c. unfold step_ok. rewrite E. ssplit; auto. apply emits_same. assumption. Qed.

Lemma clear_stats_gmap l : map t_group (clear_stats l) = map t_group l.
Proof. unfold clear_stats. rewrite map_map. apply map_ext. reflexivity. Qed.

Lemma clear_stats_tinv l : tinv l -> tinv (clear_stats l).
Proof.
  unfold tinv, clear_stats. rewrite !Forall_forall. intros H y Hy. apply in_map_iff in Hy.
  destruct Hy as [x [E Hx]]. subst y. apply (H x Hx).
Qed.

Lemma ctl_enable_facts reset : let s' := ctl_enable reset s in
  log s' = log s /\ mask_excl (fl s') /\ (stop_inv (fl s) -> stop_inv (fl s')) /\ trs_ok s s' /\
  s_up s' = s_up s /\ s_comp s' = s_comp s /\ s_left s' = s_left s /\ now s' = now s /\
  (f_start (fl s') = f_start (fl s) /\ f_completed (fl s') = f_completed (fl s)).
Proof.
  cbv zeta. unfold ctl_enable. destruct (f_active (fl s)) eqn:Ha.
  { ssplit; auto. apply trs_ok_same; reflexivity. }
  destruct reset; cbv zeta;
    match goal with |- context [update_timeout 0 ?x] => destruct (update_timeout_same 0 x) as (u1&u2&u3&u4&u5&u6&u7) end;
    rewrite ?u1, ?u2, ?u4, ?u5, ?u6, ?u7; simpl.
  - ssplit; auto; try (flg s).
    eapply trs_ok_trans; [| apply trs_ok_same; exact u3].
    apply trs_ok_of_eq; simpl; [intros _; apply clear_stats_gmap | apply clear_stats_tinv].
  - ssplit; auto; try (flg s).
    apply trs_ok_same; exact u3.
Qed.

Lemma case_enable reset : step_ok s (OEnable reset).
Proof.
  destruct (ctl_enable_facts reset) as (a&b&c&d&_).
  apply (quiet (OEnable reset) (ctl_enable reset s)); [reflexivity | exact a | exact b | intros _; exact c | exact d].
Qed.

Lemma ctl_disable_facts x : let x' := ctl_disable x in
  log x' = log x /\ trs x' = trs x /\ f_active (fl x') = false /\ (mask_excl (fl x) -> mask_excl (fl x')).
Proof.
  simpl. unfold ctl_disable. destruct (f_active (fl x)) eqn:Ha; simpl; ssplit; auto;
    try (intros H; unfold mask_excl in *; dfl x; dbools).
Qed.

Lemma case_disable : step_ok s ODisable.
Proof.
  destruct (ctl_disable_facts s) as (a&b&c&d).
  apply (quiet ODisable (ctl_disable s)); [reflexivity | exact a | apply d; exact Hm | | apply trs_ok_same; exact b].
  intros _ _. unfold stop_inv. rewrite c. auto.
Qed.

Lemma case_close : step_ok s OClose.
Proof.
  eapply quiet; [reflexivity | reflexivity | | | apply trs_ok_same; reflexivity]; unfold ctl_close; flg s.
Qed.

Lemma case_send_start : step_ok s OSendStart.
Proof.
  destruct (send_start_event_spec s) as (a&b&c&d&k&e). unfold step_ok. simpl. ssplit; auto.
  - intros _ _. unfold stop_inv. rewrite c. discriminate.
  - apply trs_ok_keeps. assumption.
  - eapply emits_weaken; [| exact e]. intros r (h1&h2&h3). unfold step_site. rewrite h2. auto.
Qed.

Lemma case_send_stop : step_ok s OSendStop.
Proof.
  destruct (send_stop_event_spec s) as (a&b&k&e). unfold step_ok. simpl. ssplit; auto.
  - intros H. contradiction.
  - apply trs_ok_keeps. assumption.
  - eapply emits_weaken; [| exact e]. intros r (h1&h2&h3). unfold step_site. rewrite h2. auto.
Qed.

Lemma case_send_completed : step_ok s OSendCompleted.
Proof.
  destruct (send_completed_event_spec s) as (a&b&c&k&e). unfold step_ok. simpl. ssplit; auto.
  - intros _ _. unfold stop_inv. rewrite b. discriminate.
  - apply trs_ok_keeps. assumption.
  - eapply emits_weaken; [| exact e]. intros r (h1&h2&h3). unfold step_site. rewrite h2. auto.
Qed.

Lemma update_ok o : step s o = send_update_event s -> (o = OSendUpdate \/ o = OManual) -> step_ok s o.
Proof.
  intros E Ho. destruct (send_update_event_spec s Hm) as (a&(b1&b2&b3)&c&k&e). unfold step_ok. rewrite E. ssplit; auto.
  - intros _ H. unfold stop_inv in *. rewrite b3, c. assumption.
  - apply trs_ok_keeps. assumption.
  - eapply emits_weaken; [| exact e]. intros r (h1&h2&h3&h4&h5). unfold step_site. rewrite h2.
    destruct Ho; subst o; simpl; auto.
Qed.

Lemma case_send_update : step_ok s OSendUpdate.
Proof. apply update_ok; [reflexivity | left; reflexivity]. Qed.

Lemma case_manual : step_ok s OManual.
Proof.
  destruct (tmo s) eqn:Ht.
  - apply update_ok; [simpl; unfold manual_request; rewrite Ht; reflexivity | right; reflexivity].
  - eapply quiet; [simpl; unfold manual_request; rewrite Ht; reflexivity | reflexivity | assumption | auto | apply trs_ok_same; reflexivity].
Qed.

Lemma start_requesting_facts : let s' := start_requesting s in
  log s' = log s /\ trs s' = trs s /\ mask_excl (fl s') /\ (stop_inv (fl s) -> stop_inv (fl s')).
Proof.
  cbv zeta. unfold start_requesting. destruct (f_requesting (fl s)) eqn:Hr; [ssplit; auto |].
  destruct (f_active (fl s)) eqn:Ha.
  - match goal with |- context [update_timeout 0 ?x] => destruct (update_timeout_same 0 x) as (u1&u2&u3&_) end.
    rewrite u1, u2, u3. ssplit; auto; flg s.
  - ssplit; auto; flg s.
Qed.

Lemma case_start_requesting : step_ok s OStartRequesting.
Proof.
  destruct start_requesting_facts as (a&b&c&d).
  apply (quiet OStartRequesting (start_requesting s)); auto. apply trs_ok_same; exact b.
Qed.

Lemma stop_requesting_facts : let s' := stop_requesting s in
  log s' = log s /\ trs s' = trs s /\ mask_excl (fl s') /\ (stop_inv (fl s) -> stop_inv (fl s')).
Proof.
  cbv zeta. unfold stop_requesting. destruct (negb (f_requesting (fl s))); [ssplit; auto |].
  ssplit; auto; flg s.
Qed.

Lemma case_stop_requesting : step_ok s OStopRequesting.
Proof.
  destruct stop_requesting_facts as (a&b&c&d).
  apply (quiet OStopRequesting (stop_requesting s)); auto. apply trs_ok_same; exact b.
Qed.

Lemma upd_en_trs_ok id b x :
  trs_ok x (set_trs x (upd (trs x) id (fun y => mkT (t_id y) (t_group y) b (t_busy y) (t_ev y) (t_sc y) (t_fc y) (t_stl y) (t_ftl y) (t_ni y) (t_mi y) (t_scr y) (t_sct y)))).
Proof.
  apply trs_ok_of_eq; simpl.
  - intros _. apply upd_map. reflexivity.
  - apply upd_Forall. intros y Hy. exact Hy.
Qed.

Lemma quiet_same_fl o s' : step s o = s' -> log s' = log s -> fl s' = fl s -> trs_ok s s' -> step_ok s o.
Proof.
  intros E Hl Hf Ht. apply (quiet o s' E Hl); [rewrite Hf; exact Hm | intros _; rewrite Hf; auto | exact Ht].
Qed.

Lemma tracker_enable_facts id : let s' := tracker_enable id s in
  log s' = log s /\ fl s' = fl s /\ trs_ok s s'.
Proof.
  cbv zeta. unfold tracker_enable. destruct (find_id (trs s) id) as [t |].
  2: { ssplit; auto. apply trs_ok_same; reflexivity. }
  destruct (t_en t).
  { ssplit; auto. apply trs_ok_same; reflexivity. }
  pose proof (upd_en_trs_ok id true s) as Ht.
  match goal with |- context [if ?c then _ else if ?d then _ else _] => destruct c; [| destruct d] end.
  - ssplit; auto.
  - match goal with |- context [update_timeout 0 ?x] => destruct (update_timeout_same 0 x) as (u1&u2&u3&_) end.
    rewrite u1, u2. ssplit; auto;
    try (eapply trs_ok_trans; [exact Ht | apply trs_ok_same; exact u3]).
  - ssplit; auto.
Qed.

Lemma case_tracker_enable id : step_ok s (OTrackerEnable id).
Proof. destruct (tracker_enable_facts id) as (a&b&c). apply (quiet_same_fl _ (tracker_enable id s)); auto. Qed.

Lemma tracker_disable_facts id : let s' := tracker_disable id s in
  log s' = log s /\ fl s' = fl s /\ trs_ok s s'.
Proof.
  cbv zeta. unfold tracker_disable. destruct (find_id (trs s) id) as [t |].
  2: { ssplit; auto. apply trs_ok_same; reflexivity. }
  destruct (negb (t_en t)).
  { ssplit; auto. apply trs_ok_same; reflexivity. }
  pose proof (upd_en_trs_ok id false s) as Ht.
  match goal with |- context [if ?c then _ else _] => destruct c end.
  - match goal with |- context [update_timeout 0 ?x] => destruct (update_timeout_same 0 x) as (u1&u2&u3&_) end.
    rewrite u1, u2. ssplit; auto;
    try (eapply trs_ok_trans; [exact Ht | apply trs_ok_same; exact u3]).
  - ssplit; auto.
Qed.

Lemma case_tracker_disable id : step_ok s (OTrackerDisable id).
Proof. destruct (tracker_disable_facts id) as (a&b&c). apply (quiet_same_fl _ (tracker_disable id s)); auto. Qed.

Lemma case_cycle g : step_ok s (OCycle g).
Proof.
  eapply quiet; [reflexivity | reflexivity | assumption | auto |].
  apply trs_ok_of_eq; simpl; [intros _; apply cycle_gmap | apply cycle_Forall].
Qed.

Lemma case_stats a b c : step_ok s (OStats a b c).
Proof. eapply quiet; [reflexivity | reflexivity | assumption | auto | apply trs_ok_same; reflexivity]. Qed.

(* replies *)

Lemma ctl_receive_success_facts latest ni x : mask_excl (fl x) -> let x' := ctl_receive_success latest ni x in
  log x' = log x /\ trs x' = trs x /\ mask_excl (fl x') /\ (stop_inv (fl x) -> stop_inv (fl x')).
Proof.
  intros Hx. cbv zeta. unfold ctl_receive_success. destruct (negb (f_active (fl x))); [ssplit; auto |].
  set (f1 := if event_eqb latest (current_send_event (fl x)) then clear_mask (fl x) else fl x).
  set (x1 := set_fl x _).
  assert (H1 : mask_excl (fl x1) /\ (stop_inv (fl x) -> stop_inv (fl x1))).
  { subst x1 f1. destruct (event_eqb latest (current_send_event (fl x))); simpl; unfold mask_excl, stop_inv in *; simpl; dfl x; dbools. }
  destruct H1 as [H1 H2].
  assert (Hl : log x1 = log x /\ trs x1 = trs x) by (split; reflexivity). destruct Hl as [Hl Ht].
  destruct (f_requesting (fl x)).
  - destruct (update_timeout_same requesting_success_timeout x1) as (u1&u2&u3&_). rewrite u1, u2, u3. ssplit; auto.
  - destruct (negb (has_active (trs x1))); [| ssplit; auto].
    destruct (update_timeout_same ni x1) as (u1&u2&u3&_). rewrite u1, u2, u3. ssplit; auto.
Qed.

(* state [x] inside a step from [s]: same controller mode and pending event, same groups, same figures *)
Definition rel (x : state) : Prop :=
  same3 (fl x) (fl s) /\ f_active (fl x) = f_active (fl s) /\ f_promisc (fl x) = f_promisc (fl s) /\
  f_requesting (fl x) = f_requesting (fl s) /\ map t_group (trs x) = map t_group (trs s) /\
  s_up x = s_up s /\ s_comp x = s_comp s /\ s_left x = s_left s.

Lemma rel_refl : rel s.
Proof. unfold rel, same3. ssplit; reflexivity. Qed.

Lemma do_timeout_in_step o x : timer_op o -> mask_excl (fl x) -> rel x ->
  fl (do_timeout x) = fl x /\ keeps x (do_timeout x) /\ emits (step_site s o) x (do_timeout x).
Proof.
  intros Ho Hx (h3 & ha & hp & hr & hg & hu & hc & hl).
  destruct (do_timeout_spec x Hx) as (hf & hk & he). ssplit; auto.
  eapply emits_weaken; [| exact he]. apply timer_step_site; auto.
Qed.

(* the main-thread part of a reply, run from a state [x] inside a step from [s] *)
Lemma main_part_ok o x id ok scr : (ok = false -> scr = false -> timer_op o) -> mask_excl (fl x) -> rel x ->
  let x' := main_part id ok scr x in
  mask_excl (fl x') /\ (stop_inv (fl x) -> stop_inv (fl x')) /\ trs_ok x x' /\ emits (step_site s o) x x'.
Proof.
  intros Ho Hx Hr. cbv zeta. unfold main_part. destruct scr.
  - (* scrape reply *)
    unfold main_scrape. destruct ok; ssplit; auto; try (apply emits_same; reflexivity); try (apply trs_ok_same; reflexivity).
    apply trs_ok_of_eq; simpl; [intros _; apply upd_map; reflexivity | apply upd_Forall; intros y Hy; exact Hy].
  - destruct ok.
    + (* success *)
      unfold main_success. destruct (find_id (trs x) id) as [t |].
      2: { ssplit; auto; [apply trs_ok_same; reflexivity | apply emits_same; reflexivity]. }
      match goal with |- context [ctl_receive_success ?e ?n ?y] => set (y0 := y); set (lat := e); set (nn := n) end.
      assert (Hy : mask_excl (fl y0)) by exact Hx.
      destruct (ctl_receive_success_facts lat nn y0 Hy) as (a&b&c&d).
      assert (Ht : trs_ok x y0).
      { subst y0. apply trs_ok_of_eq; simpl.
        - intros Hs. rewrite upd_map by reflexivity. apply promote_gmap. assumption.
        - intros Hi. apply upd_Forall; [intros y Hy'; exact Hy' |]. apply promote_Forall. assumption. }
      ssplit; auto.
      * eapply trs_ok_trans; [exact Ht | apply trs_ok_same; assumption].
      * apply emits_same. rewrite a. reflexivity.
    + (* failure *)
      unfold main_failure.
      match goal with |- context [set_trs x ?l0] => set (l := l0) end.
      assert (Hg : map t_group l = map t_group (trs x)) by (subst l; apply upd_map; reflexivity).
      assert (Hi : tinv (trs x) -> tinv l) by (intros Hi; subst l; apply upd_Forall; [intros y Hy; exact Hy | assumption]).
      simpl. destruct (negb (f_active (fl x))).
      { ssplit; auto; [apply trs_ok_of_eq; simpl; auto | apply emits_same; reflexivity]. }
      match goal with |- context [do_timeout ?y] => set (y0 := y) end.
      assert (Hy : mask_excl (fl y0)) by (subst y0; simpl; unfold mask_excl in *; dfl x; dbools).
      assert (Hry : rel y0).
      { destruct Hr as (h3 & ha & hp & hr & hg & hu & hc & hl). subst y0. unfold rel. simpl. ssplit; auto. congruence. }
      destruct (do_timeout_in_step o y0 (Ho eq_refl eq_refl) Hy Hry) as (hf & hk & he). rewrite hf.
      assert (G2 : stop_inv (fl x) -> stop_inv (fl y0)) by (intros H; subst y0; simpl; unfold stop_inv in *; dfl x; dbools).
      assert (G3 : trs_ok x (do_timeout y0)).
      { eapply trs_ok_trans; [| apply trs_ok_keeps; exact hk]. apply trs_ok_of_eq; simpl; auto. }
      assert (G4 : emits (step_site s o) x (do_timeout y0)).
      { apply emits_trans with (s2 := y0); [apply emits_same; reflexivity | exact he]. }
      ssplit; auto.
Qed.

Lemma worker_part_ok r id : let x := set_trs s (upd (trs s) id (worker_upd r)) in
  rel x /\ trs_ok s x /\ mask_excl (fl x) /\ log x = log s.
Proof.
  cbv zeta. ssplit; auto.
  - unfold rel, same3. simpl. ssplit; auto. apply upd_map. apply worker_upd_group.
  - apply trs_ok_of_eq; simpl; [intros _; apply upd_map; apply worker_upd_group | apply upd_Forall; apply worker_upd_clamps].
Qed.

Lemma reply_ok_case o id r : step s o = reply_now id r s -> (reply_ok r = false -> timer_op o) -> step_ok s o.
Proof.
  intros E Ho. unfold step_ok. rewrite E. unfold reply_now.
  destruct (find_id (trs s) id) as [t |].
  2: { ssplit; auto; [apply trs_ok_same; reflexivity | apply emits_same; reflexivity]. }
  destruct (negb (t_busy t)).
  { ssplit; auto; [apply trs_ok_same; reflexivity | apply emits_same; reflexivity]. }
  destruct (worker_part_ok r id) as (hr & ht & hm & hl).
  match goal with |- context [main_part id ?a ?b ?y] => destruct (main_part_ok o y id a b (fun h _ => Ho h) hm hr) as (m1 & m2 & m3 & m4) end.
  assert (G3 : trs_ok s (main_part id (reply_ok r) (event_eqb (t_ev t) EvScrape) (set_trs s (upd (trs s) id (worker_upd r)))))
    by (eapply trs_ok_trans; eauto).
  assert (G4 : emits (step_site s o) s (main_part id (reply_ok r) (event_eqb (t_ev t) EvScrape) (set_trs s (upd (trs s) id (worker_upd r)))))
    by (eapply emits_trans; [apply emits_same; exact hl | exact m4]).
  ssplit; auto.
Qed.

Lemma case_success id iv mv : step_ok s (OSuccess id iv mv).
Proof. apply (reply_ok_case _ id (RSucc iv mv)); [reflexivity | discriminate]. Qed.

Lemma case_failure id ivs : step_ok s (OFailure id ivs).
Proof. apply (reply_ok_case _ id (RFail ivs)); [reflexivity | intros _; exact I]. Qed.

Lemma case_done id r : step_ok s (ODone id r).
Proof.
  unfold step_ok. simpl. unfold worker_done. destruct (pend s).
  { ssplit; auto; [apply trs_ok_same; reflexivity | apply emits_same; reflexivity]. }
  destruct (find_id (trs s) id) as [t |].
  2: { ssplit; auto; [apply trs_ok_same; reflexivity | apply emits_same; reflexivity]. }
  destruct (negb (t_busy t)).
  { ssplit; auto; [apply trs_ok_same; reflexivity | apply emits_same; reflexivity]. }
  destruct (worker_part_ok r id) as (hr & ht & hm & hl).
  ssplit; auto. apply emits_same. exact hl.
Qed.

Lemma case_drain : step_ok s ODrain.
Proof.
  unfold step_ok. simpl. unfold drain. destruct (pend s) as [[id [ok scr]] |].
  2: { ssplit; auto; [apply trs_ok_same; reflexivity | apply emits_same; reflexivity]. }
  assert (Hr : rel (set_pend s None)) by (unfold rel, same3; simpl; ssplit; reflexivity).
  destruct (main_part_ok ODrain (set_pend s None) id ok scr (fun _ _ => I) Hm Hr) as (m1 & m2 & m3 & m4).
  ssplit; auto.
Qed.

Lemma case_hint ids : step_ok s (OHint ids).
Proof. eapply quiet; [reflexivity | reflexivity | assumption | auto | apply trs_ok_same; reflexivity]. Qed.

Lemma case_scrape_request sec : step_ok s (OScrapeRequest sec).
Proof.
  eapply quiet; [reflexivity | | | |]; simpl; unfold scrape_request; destruct (Z.max sec 0 =? 0); simpl; auto;
    apply trs_ok_same; reflexivity.
Qed.

(* scrapes: no announce is logged, only trackers' busy flag / latest event change *)
Lemma send_scrape_frame t x : log (send_scrape t x) = log x /\ frame x (send_scrape t x).
Proof.
  unfold send_scrape. destruct (t_busy t || negb (is_usable t)) eqn:G1; [split; [reflexivity | apply frame_refl] |].
  destruct (negb (t_scr t)) eqn:G2; [split; [reflexivity | apply frame_refl] |].
  destruct (now x <? (t_sct t + scrape_min_gap) * usec) eqn:G3; [split; [reflexivity | apply frame_refl] |].
  apply orb_false_elim in G1. destruct G1 as [Gb Gu]. apply negb_false_iff in Gu, G2. apply Z.ltb_ge in G3.
  split; [reflexivity |]. split; [reflexivity |]. unfold keeps; simpl. ssplit; auto.
  - apply upd_map. reflexivity.
  - intros P HP H. apply upd_Forall; [| assumption]. intros y Hy. apply HP. assumption.
  - apply upd_map. reflexivity.
  - (* J: the scraping tracker's latest event is SCRAPE, it is busy but not with an announce; the scrape is logged
       with the guard facts *)
    intros (Jk & Jt & Jm & Jp & Js). unfold J, ids in *. simpl. ssplit; auto.
    + rewrite upd_map by reflexivity. exact Jk.
    + unfold upd. rewrite Forall_forall in *. intros y Hy. apply in_map_iff in Hy. destruct Hy as [z [E Hz]].
      destruct (Jt z Hz) as [Pe Pp]. destruct (Nat.eqb (t_id z) (t_id t)); subst y; [| split; assumption].
      split.
      * unfold Pev in *. simpl. destruct (newest_for (t_id z) (log x)); right; reflexivity.
      * unfold Ppend. intros. unfold busy_ann. simpl. reflexivity.
    + constructor; [| exact Js]. unfold scrape_ok. unfold is_usable in Gu. auto.
Qed.

Lemma scrape_groups_frame fuel : forall rest x, log (scrape_groups fuel rest x) = log x /\ frame x (scrape_groups fuel rest x).
Proof.
  induction fuel as [| fuel IH]; intros rest x; simpl; [split; [reflexivity | apply frame_refl] |].
  destruct rest as [| itr rest']; [split; [reflexivity | apply frame_refl] |].
  match goal with |- context [if ?c then _ else _] => destruct c end; [apply IH |].
  match goal with |- context [match ?c with Some _ => _ | None => _ end] => destruct c as [t |] end; [| apply IH].
  destruct (send_scrape_frame t x) as [a b].
  match goal with |- context [scrape_groups fuel ?r (send_scrape t x)] => destruct (IH r (send_scrape t x)) as [c d] end.
  split; [congruence | eapply frame_trans; eauto].
Qed.

Lemma do_scrape_frame x : log (do_scrape x) = log x /\ frame x (do_scrape x).
Proof. apply scrape_groups_frame. Qed.

(* Scheduler::perform: each firing is do_timeout or do_scrape from a state related to [s] *)
Lemma perform_n_ok o fuel : timer_op o -> forall x, mask_excl (fl x) -> rel x ->
  let x' := perform_n fuel x in
  fl x' = fl x /\ trs_ok x x' /\ emits (step_site s o) x x'.
Proof.
  intros Ho. induction fuel as [| fuel IH]; intros x Hx Hr; cbv zeta; simpl.
  { ssplit; auto; [apply trs_ok_same; reflexivity | apply emits_same; reflexivity]. }
  unfold perform1.
  match goal with |- context [if ?c then Some (do_timeout x) else _] => destruct c end.
  - destruct (do_timeout_in_step o x Ho Hx Hr) as (hf & hk & he).
    assert (Hx' : mask_excl (fl (do_timeout x))) by (rewrite hf; exact Hx).
    assert (Hr' : rel (do_timeout x)).
    { destruct Hr as (h3 & ha & hp & hr & hg & hu & hc & hl). destruct hk as (k1&k2&k3&k4&k5&_).
      unfold rel. rewrite hf. ssplit; auto; congruence. }
    destruct (IH (do_timeout x) Hx' Hr') as (a & b & c).
    ssplit; [congruence | eapply trs_ok_trans; [apply trs_ok_keeps; exact hk | exact b] | eapply emits_trans; eauto].
  - match goal with |- context [if ?c then Some _ else None] => destruct c end.
    2: { ssplit; auto; [apply trs_ok_same; reflexivity | apply emits_same; reflexivity]. }
    destruct (do_scrape_frame (set_tsc x None)) as [hl (hf & hk)].
    set (y := do_scrape (set_tsc x None)) in *.
    assert (Hy : mask_excl (fl y)) by (rewrite hf; exact Hx).
    assert (Hry : rel y).
    { destruct Hr as (h3 & ha & hp & hr & hg & hu & hc & hl'). destruct hk as (k1&k2&k3&k4&k5&_).
      unfold rel. rewrite hf. simpl in *. ssplit; auto; congruence. }
    destruct (IH y Hy Hry) as (a & b & c).
    ssplit; [rewrite a, hf; reflexivity | | eapply emits_trans; [apply emits_same; exact hl | exact c]].
    eapply trs_ok_trans; [| exact b]. eapply trs_ok_trans; [apply (trs_ok_same x (set_tsc x None)); reflexivity | apply trs_ok_keeps; exact hk].
Qed.

Lemma perform_ok o n : step s o = perform (set_now s n) -> timer_op o -> step_ok s o.
Proof.
  intros E Ho. unfold step_ok. rewrite E. unfold perform.
  assert (Hx : mask_excl (fl (set_now s n))) by exact Hm.
  assert (Hr : rel (set_now s n)) by (unfold rel, same3; simpl; ssplit; reflexivity).
  destruct (perform_n_ok o 4 Ho (set_now s n) Hx Hr) as (a & b & c).
  rewrite a. ssplit; auto.
Qed.

Lemma case_advance dt : step_ok s (OAdvance dt).
Proof. eapply perform_ok; [reflexivity | exact I]. Qed.

Lemma case_next : step_ok s ONext.
Proof.
  destruct (tmo s) eqn:Ht.
  - eapply perform_ok; [simpl; rewrite Ht; reflexivity | exact I].
  - eapply quiet; [simpl; rewrite Ht; reflexivity | reflexivity | assumption | auto | apply trs_ok_same; reflexivity].
Qed.

Lemma case_next_scrape : step_ok s ONextScrape.
Proof.
  destruct (tsc s) eqn:Ht.
  - eapply perform_ok; [simpl; rewrite Ht; reflexivity | exact I].
  - eapply quiet; [simpl; rewrite Ht; reflexivity | reflexivity | assumption | auto | apply trs_ok_same; reflexivity].
Qed.

Lemma case_startk skip : step_ok s (OStartK skip).
Proof.
  destruct skip.
  - destruct (ctl_enable_facts false) as (a&b&c&d&_).
    apply (quiet (OStartK true) (ctl_enable false s)); [reflexivity | exact a | exact b | intros _; exact c | exact d].
  - destruct (ctl_enable_facts true) as (a&b&c&d&e1&e2&e3&e4&e5).
    destruct (send_start_event_spec (ctl_enable true s)) as (a'&b'&c'&d'&k&e).
    unfold step_ok. simpl. ssplit; auto.
    + intros _ _. unfold stop_inv. rewrite c'. discriminate.
    + eapply trs_ok_trans; [exact d | apply trs_ok_keeps; exact k].
    + apply emits_trans with (s2 := ctl_enable true s); [apply emits_same; assumption |].
      eapply emits_weaken; [| exact e]. intros r (h1&h2&h3). unfold step_site. rewrite h2.
      ssplit; auto. unfold ctxo, ctxq in *. rewrite <- e1, <- e2, <- e3. assumption.
Qed.

Lemma case_start skip : step_ok s (OStart skip).
Proof.
  destruct skip.
  - destruct (ctl_enable_facts false) as (a&b&c&d&_).
    apply (quiet (OStart true) (set_figs (ctl_enable false s) 0 0 (s_left (ctl_enable false s))));
      [reflexivity | exact a | exact b | intros _; exact c | eapply trs_ok_trans; [exact d | apply trs_ok_same; reflexivity]].
  - destruct (ctl_enable_facts true) as (a&b&c&d&e1&e2&e3&e4&e5).
    set (s2 := set_figs (ctl_enable true s) 0 0 (s_left (ctl_enable true s))).
    destruct (send_start_event_spec s2) as (a'&b'&c'&d'&k&e).
    unfold step_ok. simpl. fold s2. ssplit; auto.
    + intros _ _. unfold stop_inv. rewrite c'. discriminate.
    + eapply trs_ok_trans; [exact d |]. eapply trs_ok_trans; [apply (trs_ok_same _ s2); reflexivity | apply trs_ok_keeps; exact k].
    + apply emits_trans with (s2 := s2); [apply emits_same; assumption |].
      eapply emits_weaken; [| exact e]. intros r (h1&h2&h3). unfold step_site. rewrite h2.
      ssplit; auto. unfold ctxo. unfold ctxq in h3. subst s2. simpl in h3. rewrite e3 in h3. exact h3.
Qed.

Lemma case_stop skip : step_ok s (OStop skip).
Proof.
  destruct skip.
  - destruct (ctl_disable_facts s) as (a&b&c&d).
    apply (quiet (OStop true) (ctl_disable s)); [reflexivity | exact a | apply d; exact Hm | | apply trs_ok_same; exact b].
    intros _ _. unfold stop_inv. rewrite c. auto.
  - destruct (send_stop_event_spec s) as (a'&b'&k&e).
    destruct (ctl_disable_facts (send_stop_event s)) as (a&b&c&d).
    unfold step_ok. simpl. ssplit; auto.
    + intros _ _. unfold stop_inv. rewrite c. auto.
    + eapply trs_ok_trans; [apply trs_ok_keeps; exact k | apply trs_ok_same; assumption].
    + apply emits_trans with (s2 := send_stop_event s); [| apply emits_same; assumption].
      eapply emits_weaken; [| exact e]. intros r (h1&h2&h3). unfold step_site. rewrite h2. auto.
Qed.

Lemma insert_op_facts g scr : let s' := insert_op g scr s in
  log s' = log s /\ fl s' = fl s /\ trs_ok s s' /\
  trs s' = insert_tracker (mkT (length (trs s)) g true false EvNone 0 0 0 0 min_normal min_min scr 0) (trs s).
Proof.
  cbv zeta. unfold insert_op.
  set (t := mkT (length (trs s)) g true false EvNone 0 0 0 0 min_normal min_min scr 0).
  assert (Ht : trs_ok s (set_trs s (insert_tracker t (trs s)))).
  { split; simpl.
    - apply insert_sorted.
    - intros Hi. unfold tinv in *. rewrite Forall_forall in *. intros y Hy. apply insert_in in Hy.
      destruct Hy as [E | Hy]; [| apply Hi, Hy]. subst y t.
      pose proof params_facts as (p1&p2&p3&p4&p5). unfold clamps. simpl. lia. }
  match goal with |- context [if ?c then _ else if ?d then _ else _] => destruct c; [| destruct d] end.
  - ssplit; auto.
  - match goal with |- context [update_timeout 0 ?x] => destruct (update_timeout_same 0 x) as (u1&u2&u3&_) end.
    rewrite u1, u2, u3. ssplit; auto;
    try (eapply trs_ok_trans; [exact Ht | apply trs_ok_same; exact u3]).
  - ssplit; auto.
Qed.

Lemma case_insert g scr : step_ok s (OInsert g scr).
Proof. destruct (insert_op_facts g scr) as (a&b&c&_). apply (quiet_same_fl _ (insert_op g scr s)); auto. Qed.

Lemma step_spec o : step_ok s o.
Proof.
  destruct o.
  - apply case_enable. - apply case_disable. - apply case_close. - apply case_send_start.
  - apply case_send_stop. - apply case_send_completed. - apply case_send_update. - apply case_manual.
  - apply case_start_requesting. - apply case_stop_requesting. - apply case_tracker_enable.
  - apply case_tracker_disable. - apply case_cycle. - apply case_success.
  - apply case_failure. - apply case_advance. - apply case_next. - apply case_stats.
  - apply case_start. - apply case_startk. - apply case_stop. - apply case_insert.
  - apply case_scrape_request. - apply case_next_scrape. - apply case_done. - apply case_drain. - apply case_hint.
Qed.

End Cases.
