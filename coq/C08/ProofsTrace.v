(* C08 — the traced magnet parser (coverage instrumentation of the MODEL) computes the same
   results as the untraced one: dropping the trace is the identity on results. *)
From Coq Require Import List NArith ZArith Bool Lia.
From LTV Require Import Common.Bytes.
From LTV.C08 Require Import Model.
Import ListNotations.
Local Open Scope N_scope.

Lemma b32_loop_t_erase : forall pos out sh dec tr, fst (b32_loop_t pos out sh dec tr) = b32_loop pos out sh dec.
Proof.
  induction pos as [|c pos IH]; intros out sh dec tr; cbn [b32_loop_t b32_loop]; [reflexivity|].
  destruct (b32_val c).
  - destruct (b32_step sh dec n) as [[[byte|] sh'] dec'].
    + destruct (N.of_nat (length out) =? hash_size); [reflexivity | apply IH].
    + apply IH.
  - destruct (c =? ch_amp); reflexivity.
Qed.

Lemma url_decode_t_erase : forall n pos acc tr, (length pos <= n)%nat -> fst (url_decode_t pos acc tr) = url_decode pos acc.
Proof.
  induction n as [|n IH]; intros pos acc tr Hn.
  - destruct pos; [reflexivity | simpl in Hn; lia].
  - destruct pos as [|c pos']; [reflexivity|]. cbn [url_decode_t url_decode]. simpl in Hn.
    destruct (c =? ch_pct).
    + destruct (N.of_nat (length pos') <? 2); [reflexivity|].
      destruct pos' as [|h [|l pos'']]; try reflexivity.
      destruct (hex_val h); [|reflexivity]. destruct (hex_val l); [|reflexivity].
      apply IH. simpl in Hn. lia.
    + destruct (c =? ch_amp); [reflexivity|]. apply IH. lia.
Qed.

Lemma magnet_loop_t_erase : forall rf fuel pos hash ts tr,
  fst (magnet_loop_t rf fuel pos hash ts tr) = magnet_loop rf fuel pos hash ts.
Proof.
  intro rf. induction fuel as [|f IH]; intros pos hash ts tr; [reflexivity|].
  cbn [magnet_loop_t magnet_loop]. destruct pos as [|c0 pos0] eqn:Ep; [reflexivity|]. rewrite <- Ep. clear Ep c0 pos0.
  destruct (span_eq pos []) as [tag rest]. cbv beta iota zeta.
  destruct rest as [|e pos1]; [reflexivity|].
  match goal with |- fst (if ?c then _ else _) = _ => destruct c end; [reflexivity|].
  set (no_urn := (N.of_nat (length pos1) <? 9) || negb (bytes_eqb (firstn 9 pos1) urn_btih)).
  set (is_xt := bytes_eqb tag tag_xt).
  destruct (is_xt && negb no_urn) eqn:Eih; cbv beta iota zeta.
  - unfold parse_base32_sha1. rewrite b32_loop_t_erase.
    destruct (b32_loop (skipn 9 pos1) [] base_shift 0) as [[h next]|]; [apply IH|].
    rewrite (url_decode_t_erase _ _ _ _ (le_n _)).
    destruct (url_decode (skipn 9 pos1) []) as [[decoded next]| |]; cbn [bind]; try reflexivity.
    destruct (N.of_nat (length decoded) =? hash_size); [apply IH|].
    destruct (N.of_nat (length decoded) =? 2 * hash_size); [|reflexivity].
    destruct (from_hex decoded); [apply IH | reflexivity].
  - cbn [fst snd]. rewrite (url_decode_t_erase _ _ _ _ (le_n _)).
    destruct (url_decode pos1 []) as [[decoded next]| |]; cbn [bind]; try reflexivity.
    destruct (bytes_eqb tag tag_tr); apply IH.
Qed.

Theorem parse_magnet_hash_t_erase : forall rf uri, fst (parse_magnet_hash_t rf uri) = parse_magnet_hash rf uri.
Proof.
  intros rf uri. unfold parse_magnet_hash_t, parse_magnet_hash.
  destruct (negb (bytes_eqb (firstn 8 uri) magnet_prefix)); [reflexivity|].
  rewrite magnet_loop_t_erase.
  destruct (magnet_loop rf (S (length uri)) (skipn 8 uri) None []) as [[[h|] ts]| |]; reflexivity.
Qed.
