(* C08 — the link to C07's decoder: the flagged decoder dec_f is C07's dec_c with the
   flag_unordered bit kept at every node; every decoded tree has int64 integers only; flags are
   inherited upward (closed). Consequences for the loader on BYTES are in ProofsMain. *)
From Coq Require Import List NArith ZArith Bool Lia.
From LTV Require Import Common.Bytes Params_gen.
From LTV.C07 Require Import Model.
From LTV.C07 Require Properties.
From LTV.C08 Require Import Model ProofsOrder ProofsLoad.
Import ListNotations.
Local Open Scope N_scope.

Definition lift (r : res fvalue) : res (value * bool) :=
  match r with
  | Ok fv rest => Ok (erase fv, fflag fv) rest
  | Reject => Reject | Fault => Fault | OutOfFuel => OutOfFuel
  end.

Definition emap (m : list (bytes * fvalue)) : list (bytes * value) :=
  map (fun kv => (fst kv, erase (snd kv))) m.

Lemma erase_insert : forall k v m, emap (fmap_insert k v m) = map_insert k (erase v) (emap m).
Proof.
  induction m as [|[k' v'] m IH]; simpl; [reflexivity|].
  destruct (bytes_ltb k k'); [reflexivity|].
  destruct (bytes_ltb k' k); simpl; [rewrite IH|]; reflexivity.
Qed.

Lemma empty_emap : forall m, map_is_empty (emap m) = fmap_is_empty m.
Proof. destruct m; reflexivity. Qed.

(* erasing the flags of dec_f's result gives exactly C07's dec_c result, flag = root flag *)
Lemma dec_f_erase_all : forall fuel,
  (forall d l, dec_c fuel d l = lift (dec_f fuel d l)) /\
  (forall d l acc fl, items_c fuel d l (map erase acc) fl = lift (items_f fuel d l acc fl)) /\
  (forall d l m prev fl, entries_c fuel d l (emap m) prev fl = lift (entries_f fuel d l m prev fl)).
Proof.
  induction fuel as [|f [IH1 [IH2 IH3]]]; [repeat split; reflexivity|].
  split; [|split].
  - intros d l. cbn [dec_c dec_f]. destruct l as [|c l']; [reflexivity|].
    destruct (c =? ch_i).
    { destruct (c_value l') as [[z [|e rest]]|]; try reflexivity. destruct (e =? ch_e); reflexivity. }
    destruct (c =? ch_l).
    { destruct (depth_limit_c <=? d + 1); [reflexivity|]. apply (IH2 (d + 1) l' [] false). }
    destruct (c =? ch_d).
    { destruct (depth_limit_c <=? d + 1); [reflexivity|]. apply (IH3 (d + 1) l' [] [] false). }
    destruct (is_digit c); [|reflexivity].
    destruct (c_string (c :: l')); reflexivity.
  - intros d l acc fl. cbn [items_c items_f]. destruct l as [|c l']; [reflexivity|].
    destruct (c =? ch_e).
    { simpl. rewrite map_rev. reflexivity. }
    rewrite IH1. destruct (dec_f f d (c :: l')) as [v rest| | |]; try reflexivity.
    cbn [lift]. apply (IH2 d rest (v :: acc)).
  - intros d l m prev fl. cbn [entries_c entries_f]. destruct l as [|c l']; [reflexivity|].
    destruct (c =? ch_e); [reflexivity|].
    destruct (c_string (c :: l')) as [k rest| | |]; try reflexivity.
    rewrite IH1. destruct (dec_f f d rest) as [v rest'| | |]; try reflexivity.
    cbn [lift]. rewrite empty_emap. rewrite <- erase_insert. apply IH3.
Qed.

Theorem dec_f_erase : forall l, decode_c l = lift (decode_f l).
Proof. intro l. unfold decode_c, decode_f. apply (proj1 (dec_f_erase_all _)). Qed.

(* ------------------------------------------------------------ int64 integers *)

Definition all64 (l : list fvalue) : Prop := forall x, In x l -> int64_ok (erase x) = true.

Lemma int64_list : forall l, all64 l -> int64_ok (VList (map erase l)) = true.
Proof.
  intros l H. simpl. apply forallb_forall. intros v Hv. apply in_map_iff in Hv.
  destruct Hv as (x & <- & Hx). apply H. exact Hx.
Qed.

Lemma dec_f_int64_all : forall fuel,
  (forall d l v rest, dec_f fuel d l = Ok v rest -> int64_ok (erase v) = true) /\
  (forall d l acc fl v rest, all64 acc -> items_f fuel d l acc fl = Ok v rest -> int64_ok (erase v) = true) /\
  (forall d l m prev fl v rest, int64_ok (VMap (emap m)) = true ->
       entries_f fuel d l m prev fl = Ok v rest -> int64_ok (erase v) = true).
Proof.
  induction fuel as [|f [IH1 [IH2 IH3]]]; [repeat split; intros; discriminate|].
  split; [|split].
  - intros d l v rest H. cbn [dec_f] in H. destruct l as [|c l']; [discriminate|].
    destruct (c =? ch_i).
    { destruct (c_value l') as [[z [|e r]]|] eqn:Ec; try discriminate.
      destruct (e =? ch_e); [|discriminate]. injection H as <- <-.
      simpl. eapply C07.Properties.c_value_in_range. exact Ec. }
    destruct (c =? ch_l).
    { destruct (depth_limit_c <=? d + 1); [discriminate|].
      eapply IH2; [|exact H]. intros x []. }
    destruct (c =? ch_d).
    { destruct (depth_limit_c <=? d + 1); [discriminate|].
      eapply IH3; [|exact H]. reflexivity. }
    destruct (is_digit c); [|discriminate].
    destruct (c_string (c :: l')); try discriminate. injection H as <- <-. reflexivity.
  - intros d l acc fl v rest Ha H. cbn [items_f] in H. destruct l as [|c l']; [discriminate|].
    destruct (c =? ch_e).
    { injection H as <- <-. cbn [erase]. apply int64_list. intros x Hx. apply Ha. apply in_rev. exact Hx. }
    destruct (dec_f f d (c :: l')) as [x r| | |] eqn:Ed; try discriminate.
    eapply IH2; [|exact H]. intros y [<-|Hy]; [eapply IH1; exact Ed | apply Ha; exact Hy].
  - intros d l m prev fl v rest Hm H. cbn [entries_f] in H. destruct l as [|c l']; [discriminate|].
    destruct (c =? ch_e).
    { injection H as <- <-. exact Hm. }
    destruct (c_string (c :: l')) as [k r| | |]; try discriminate.
    destruct (dec_f f d r) as [x r'| | |] eqn:Ed; try discriminate.
    eapply IH3; [|exact H]. rewrite erase_insert. apply int64_ok_map_insert; [exact Hm | eapply IH1; exact Ed].
Qed.

Theorem decode_f_int64 : forall l v rest, decode_f l = Ok v rest -> int64_ok (erase v) = true.
Proof. intros l v rest H. eapply (proj1 (dec_f_int64_all _)). exact H. Qed.

(* the same for C07's own decoder *)
Theorem decode_c_int64 : forall l v fl rest, decode_c l = Ok (v, fl) rest -> int64_ok v = true.
Proof.
  intros l v fl rest H. rewrite dec_f_erase in H.
  destruct (decode_f l) as [fv r| | |] eqn:E; try discriminate.
  simpl in H. injection H as <- _ _. eapply decode_f_int64. exact E.
Qed.

(* ------------------------------------------------------------ flags are inherited upward *)

Fixpoint fclosed (v : fvalue) : bool :=
  match v with
  | FList l u => forallb fclosed l && (negb (existsb fflag l) || u)
  | FMap m u => forallb (fun kv => fclosed (snd kv)) m && (negb (existsb (fun kv => fflag (snd kv)) m) || u)
  | _ => true
  end.

(* is any list / dictionary at or below v flagged *)
Fixpoint any_flag (v : fvalue) : bool :=
  match v with
  | FList l u => u || existsb any_flag l
  | FMap m u => u || existsb (fun kv => any_flag (snd kv)) m
  | _ => false
  end.

Lemma closed_any_flag : forall v, fclosed v = true -> any_flag v = fflag v.
Proof.
  fix IH 1. intros [z|s|l u|m u] Hc; try reflexivity.
  - cbn [fclosed any_flag fflag] in *. apply andb_true_iff in Hc. destruct Hc as [Hall Hu].
    destruct u; [reflexivity|]. rewrite orb_false_r in Hu. apply negb_true_iff in Hu. simpl.
    induction l as [|x l IHl]; [reflexivity|].
    simpl in *. apply andb_true_iff in Hall. destruct Hall as [Hx Hl].
    apply orb_false_iff in Hu. destruct Hu as [Hfx Hfl].
    rewrite (IH x Hx), Hfx. simpl. apply IHl; assumption.
  - cbn [fclosed any_flag fflag] in *. apply andb_true_iff in Hc. destruct Hc as [Hall Hu].
    destruct u; [reflexivity|]. rewrite orb_false_r in Hu. apply negb_true_iff in Hu. simpl.
    induction m as [|[k x] m IHm]; [reflexivity|].
    simpl in *. apply andb_true_iff in Hall. destruct Hall as [Hx Hl].
    apply orb_false_iff in Hu. destruct Hu as [Hfx Hfl].
    rewrite (IH x Hx), Hfx. simpl. apply IHm; assumption.
Qed.

Definition acc_ok (acc : list fvalue) (fl : bool) : Prop :=
  forallb fclosed acc = true /\ (existsb fflag acc = true -> fl = true).
Definition map_ok (m : list (bytes * fvalue)) (fl : bool) : Prop :=
  forallb (fun kv => fclosed (snd kv)) m = true /\ (existsb (fun kv => fflag (snd kv)) m = true -> fl = true).

Lemma closed_of_ok_list : forall acc fl, acc_ok acc fl -> fclosed (FList (rev acc) fl) = true.
Proof.
  intros acc fl [H1 H2]. cbn [fclosed]. apply andb_true_iff. split.
  - apply forallb_forall. intros x Hx. rewrite forallb_forall in H1. apply H1. apply in_rev. exact Hx.
  - destruct fl; [apply orb_true_r|]. rewrite orb_false_r. apply negb_true_iff.
    destruct (existsb fflag (rev acc)) eqn:E; [|reflexivity].
    apply existsb_exists in E. destruct E as (x & Hx & Hf).
    assert (existsb fflag acc = true) by (apply existsb_exists; exists x; split; [apply in_rev; exact Hx | exact Hf]).
    specialize (H2 H). discriminate.
Qed.

Lemma closed_of_ok_map : forall m fl, map_ok m fl -> fclosed (FMap m fl) = true.
Proof.
  intros m fl [H1 H2]. cbn [fclosed]. rewrite H1. simpl.
  destruct fl; [apply orb_true_r|]. rewrite orb_false_r. apply negb_true_iff.
  destruct (existsb (fun kv => fflag (snd kv)) m) eqn:E; [|reflexivity]. specialize (H2 eq_refl). discriminate.
Qed.

Lemma map_ok_insert : forall k v m fl fl',
  map_ok m fl -> fclosed v = true -> (fl = true -> fl' = true) -> (fflag v = true -> fl' = true) ->
  map_ok (fmap_insert k v m) fl'.
Proof.
  induction m as [|[k' v'] m IH]; intros fl fl' [H1 H2] Hv Hfl Hfv.
  - split; simpl; [rewrite Hv; reflexivity|]. rewrite orb_false_r. exact Hfv.
  - simpl in H1. apply andb_true_iff in H1. destruct H1 as [Hc' Hcm]. simpl in H2.
    simpl. destruct (bytes_ltb k k').
    + split; simpl; [rewrite Hv, Hc', Hcm; reflexivity|].
      intro E. apply orb_true_iff in E. destruct E as [E|E]; [apply Hfv; exact E | apply Hfl, H2; exact E].
    + destruct (bytes_ltb k' k).
      * destruct (IH fl fl') as [A B]; auto.
        { split; [exact Hcm|]. intro E. apply H2. rewrite E. apply orb_true_r. }
        split; simpl; [rewrite Hc', A; reflexivity|].
        intro E. apply orb_true_iff in E. destruct E as [E|E]; [apply Hfl, H2; rewrite E; reflexivity | apply B; exact E].
      * split; simpl; [rewrite Hv, Hcm; reflexivity|].
        intro E. apply orb_true_iff in E. destruct E as [E|E]; [apply Hfv; exact E | apply Hfl, H2; rewrite E; apply orb_true_r].
Qed.

Lemma dec_f_closed_all : forall fuel,
  (forall d l v rest, dec_f fuel d l = Ok v rest -> fclosed v = true) /\
  (forall d l acc fl v rest, acc_ok acc fl -> items_f fuel d l acc fl = Ok v rest -> fclosed v = true) /\
  (forall d l m prev fl v rest, map_ok m fl -> entries_f fuel d l m prev fl = Ok v rest -> fclosed v = true).
Proof.
  induction fuel as [|f [IH1 [IH2 IH3]]]; [repeat split; intros; discriminate|].
  split; [|split].
  - intros d l v rest H. cbn [dec_f] in H. destruct l as [|c l']; [discriminate|].
    destruct (c =? ch_i).
    { destruct (c_value l') as [[z [|e r]]|]; try discriminate.
      destruct (e =? ch_e); [|discriminate]. injection H as <- <-. reflexivity. }
    destruct (c =? ch_l).
    { destruct (depth_limit_c <=? d + 1); [discriminate|]. eapply IH2; [|exact H]. split; [reflexivity|discriminate]. }
    destruct (c =? ch_d).
    { destruct (depth_limit_c <=? d + 1); [discriminate|]. eapply IH3; [|exact H]. split; [reflexivity|discriminate]. }
    destruct (is_digit c); [|discriminate].
    destruct (c_string (c :: l')); try discriminate. injection H as <- <-. reflexivity.
  - intros d l acc fl v rest Ha H. cbn [items_f] in H. destruct l as [|c l']; [discriminate|].
    destruct (c =? ch_e).
    { injection H as <- <-. apply closed_of_ok_list. exact Ha. }
    destruct (dec_f f d (c :: l')) as [x r| | |] eqn:Ed; try discriminate.
    eapply IH2; [|exact H]. destruct Ha as [A B]. split.
    + simpl. rewrite (IH1 _ _ _ _ Ed), A. reflexivity.
    + simpl. intro E. apply orb_true_iff in E. destruct E as [E|E]; [rewrite E; apply orb_true_r | rewrite (B E); reflexivity].
  - intros d l m prev fl v rest Hm H. cbn [entries_f] in H. destruct l as [|c l']; [discriminate|].
    destruct (c =? ch_e).
    { injection H as <- <-. apply closed_of_ok_map. exact Hm. }
    destruct (c_string (c :: l')) as [k r| | |]; try discriminate.
    destruct (dec_f f d r) as [x r'| | |] eqn:Ed; try discriminate.
    eapply IH3; [|exact H].
    eapply map_ok_insert; [exact Hm | eapply IH1; exact Ed | |].
    + intros ->. reflexivity.
    + intros ->. apply orb_true_r.
Qed.

Theorem decode_f_closed : forall l v rest, decode_f l = Ok v rest -> fclosed v = true.
Proof. intros l v rest H. eapply (proj1 (dec_f_closed_all _)). exact H. Qed.

Theorem decode_f_flags_inherited : forall l v rest, decode_f l = Ok v rest ->
  fclosed v = true /\ any_flag v = fflag v.
Proof.
  intros l v rest H. pose proof (decode_f_closed l v rest H) as C.
  exact (conj C (closed_any_flag v C)).
Qed.

(* sub-objects of a closed object are closed *)
Lemma closed_flookup : forall m u k v, fclosed (FMap m u) = true -> flookup k m = Some v -> fclosed v = true.
Proof.
  intros m u k v Hc Hl. cbn [fclosed] in Hc. apply andb_true_iff in Hc. destruct Hc as [Hall _].
  induction m as [|[k' v'] m IH]; simpl in Hl; [discriminate|].
  simpl in Hall. apply andb_true_iff in Hall. destruct Hall as [H1 H2].
  destruct (bytes_eqb k k'); [injection Hl as <-; exact H1 | apply IH; assumption].
Qed.

(* lookups commute with erasure *)
Lemma lookup_emap : forall k m, lookup k (emap m) = option_map erase (flookup k m).
Proof.
  induction m as [|[k' v'] m IH]; simpl; [reflexivity|].
  destruct (bytes_eqb k k'); [reflexivity | exact IH].
Qed.
