(* C08 — FileList::open on a loaded download: for ANY root (and therefore at every re-open after
   set_root_dir) the frozen paths are recomputed from the CURRENT root, one per non-padding file,
   and the duplicate / empty-name storage errors cannot occur. *)
From Coq Require Import List NArith ZArith Bool Lia.
From LTV Require Import Common.Bytes.
From LTV.C08 Require Import Model ProofsOrder ProofsLoad ProofsTok.
Import ListNotations.
Local Open Scope N_scope.

Lemma cstr_id : forall s, mem_byte 0 s = false -> cstr s = s.
Proof.
  induction s as [|c s IH]; intro H; [reflexivity|].
  unfold mem_byte in H. simpl in H. apply orb_false_iff in H. destruct H as [H1 H2].
  simpl. rewrite N.eqb_sym in H1. rewrite N.eqb_sym. rewrite H1. f_equal. apply IH. exact H2.
Qed.

Lemma mem_byte_app : forall c a b, mem_byte c (a ++ b) = mem_byte c a || mem_byte c b.
Proof. intros. unfold mem_byte. apply existsb_app. Qed.

Lemma frozen_path_valid : forall root f, valid_path (f_path f) ->
  frozen_path root f = root ++ path_as_string (f_path f).
Proof.
  intros root f [Hne F]. unfold frozen_path.
  match goal with |- context [match ?x with _ => _ end] => destruct x as [|c r] eqn:Er end; [reflexivity|].
  destruct c; [|reflexivity]. exfalso.
  assert (Hin : In [] (f_path f)).
  { match type of Er with ?x = _ => assert (Hr : In [] x) by (rewrite Er; left; reflexivity) end.
    apply in_rev. exact Hr. }
  rewrite Forall_forall in F. specialize (F _ Hin). vm_compute in F. discriminate.
Qed.

Lemma path_as_string_inj : forall p q,
  Forall (fun c => valid_comp c = true) p -> Forall (fun c => valid_comp c = true) q ->
  path_as_string p = path_as_string q -> p = q.
Proof.
  intros p q Fp Fq E.
  pose proof (tok_path p [] Fp) as Hp. pose proof (tok_path q [] Fq) as Hq.
  rewrite E in Hp. rewrite Hp in Hq. exact Hq.
Qed.

Definition fr (root : bytes) (f : file) : bytes := root ++ path_as_string (f_path f).
Definition nonpad (f : file) : bool := negb (f_pad f).

Lemma existsb_not_in : forall x l, ~ In x l -> existsb (bytes_eqb x) l = false.
Proof.
  intros x l H. destruct (existsb (bytes_eqb x) l) eqn:E; [|reflexivity].
  apply existsb_exists in E. destruct E as (y & Hy & Ey). apply bytes_eqb_eq in Ey. subst y. contradiction.
Qed.

Lemma open_loop_ok : forall root fs,
  mem_byte 0 root = false ->
  Forall (fun f => valid_path (f_path f)) fs -> no_prefix (map f_path fs) ->
  forall seen acc,
  (forall f, In f fs -> ~ In (fr root f) seen) ->
  open_loop root fs seen acc = LOk (rev acc ++ map (fr root) (filter nonpad fs)).
Proof.
  intros root fs Hroot. induction fs as [|f fs IH]; intros Fv Hn seen acc Hs.
  - simpl. rewrite app_nil_r. reflexivity.
  - inversion Fv as [|? ? Vf Fv']; subst. inversion Hn as [|? ? Hf Hn']; subst.
    cbn [open_loop filter]. unfold nonpad at 1.
    destruct (f_pad f) eqn:Ep; cbn [negb].
    + apply IH; auto. intros g Hg. apply Hs. right. exact Hg.
    + destruct Vf as [Hne Fc].
      destruct (f_path f) as [|c0 p0] eqn:Epath; [congruence|]. rewrite <- Epath in *.
      rewrite (frozen_path_valid root f (conj Hne Fc)).
      assert (Hz : mem_byte 0 (root ++ path_as_string (f_path f)) = false).
      { rewrite mem_byte_app, Hroot. simpl. apply no_nul_path. exact Fc. }
      rewrite (cstr_id _ Hz).
      rewrite existsb_not_in by (apply (Hs f); left; reflexivity).
      rewrite IH; auto.
      * cbn [map]. unfold fr at 3. simpl. rewrite <- app_assoc. reflexivity.
      * intros g Hg [E|Hin]; [|apply (Hs g); [right; exact Hg | exact Hin]].
        (* fr root f = fr root g would make the two paths equal, contradicting no_prefix *)
        unfold fr in E. apply app_inv_head in E.
        rewrite Forall_forall in Fv'. destruct (Fv' g Hg) as [_ Fg].
        apply path_as_string_inj in E; auto.
        rewrite Forall_forall in Hf. assert (Hu : unrelated (f_path f) (f_path g)) by (apply Hf; apply in_map; exact Hg).
        destruct Hu as [Hu _]. rewrite E in Hu. rewrite prefix_refl in Hu. discriminate.
Qed.
