(* C08 — order facts: bytes_ltb and path_ltb are lexicographic strict total orders; insertion
   sort yields a sorted permutation; in a sorted list "some element is a prefix of a later or
   earlier one" implies "some ADJACENT pair is" (the lemma behind parse_multi_files'
   std::sort + std::adjacent_find(&Path::is_prefix) check). *)
From Coq Require Import List NArith ZArith Bool Lia Sorting.Sorted Sorting.Permutation.
From LTV Require Import Common.Bytes.
From LTV.C08 Require Import Model.
Import ListNotations.
Local Open Scope N_scope.

Section Lex.
Variable A : Type.
Variable lt : A -> A -> bool.
Hypothesis lt_irrefl : forall x, lt x x = false.
Hypothesis lt_trans : forall x y z, lt x y = true -> lt y z = true -> lt x z = true.
Hypothesis lt_tricho : forall x y, lt x y = false -> lt y x = false -> x = y.

Fixpoint lex (a b : list A) : bool :=
  match a, b with
  | _, [] => false
  | [], _ :: _ => true
  | x :: a', y :: b' => if lt x y then true else if lt y x then false else lex a' b'
  end.

Lemma lex_irrefl : forall a, lex a a = false.
Proof. induction a; simpl; auto. rewrite lt_irrefl. exact IHa. Qed.

Lemma lt_asym : forall x y, lt x y = true -> lt y x = false.
Proof.
  intros x y Hxy. destruct (lt y x) eqn:E; auto.
  pose proof (lt_trans _ _ _ Hxy E) as C. rewrite lt_irrefl in C. discriminate.
Qed.

Lemma lex_tricho : forall a b, lex a b = false -> lex b a = false -> a = b.
Proof.
  induction a as [|x a IH]; destruct b as [|y b]; simpl; intros H1 H2; auto; try discriminate.
  destruct (lt x y) eqn:Exy; try discriminate.
  destruct (lt y x) eqn:Eyx; try discriminate.
  rewrite (lt_tricho _ _ Exy Eyx). f_equal. apply IH; assumption.
Qed.

Lemma lex_trans : forall a b c, lex a b = true -> lex b c = true -> lex a c = true.
Proof.
  induction a as [|x a IH]; destruct b as [|y b]; destruct c as [|z c]; simpl; intros H1 H2; auto; try discriminate.
  destruct (lt x y) eqn:Exy.
  - destruct (lt y z) eqn:Eyz.
    + rewrite (lt_trans _ _ _ Exy Eyz). reflexivity.
    + destruct (lt z y) eqn:Ezy; try discriminate.
      rewrite <- (lt_tricho _ _ Eyz Ezy). rewrite Exy. reflexivity.
  - destruct (lt y x) eqn:Eyx; try discriminate.
    pose proof (lt_tricho _ _ Exy Eyx) as ->.
    destruct (lt y z) eqn:Eyz; auto.
    destruct (lt z y) eqn:Ezy; try discriminate.
    eapply IH; eassumption.
Qed.

Definition lle (a b : list A) : Prop := lex b a = false.

Lemma lle_cases : forall a b, lle a b -> lex a b = true \/ a = b.
Proof.
  intros a b H. destruct (lex a b) eqn:E; auto. right. apply lex_tricho; assumption.
Qed.

Lemma lex_asym : forall a b, lex a b = true -> lex b a = false.
Proof.
  intros a b H. destruct (lex b a) eqn:E; auto.
  pose proof (lex_trans _ _ _ H E) as C. rewrite lex_irrefl in C. discriminate.
Qed.

Lemma lle_refl : forall a, lle a a.
Proof. intro; apply lex_irrefl. Qed.

Lemma lle_trans : forall a b c, lle a b -> lle b c -> lle a c.
Proof.
  intros a b c H1 H2.
  destruct (lle_cases _ _ H1) as [L1| ->]; auto.
  destruct (lle_cases _ _ H2) as [L2| <-]; auto.
  apply lex_asym. eapply lex_trans; eassumption.
Qed.

Lemma lle_antisym : forall a b, lle a b -> lle b a -> a = b.
Proof. intros a b H1 H2. apply lex_tricho; assumption. Qed.

Lemma lle_total : forall a b, lex a b = true -> lle a b.
Proof. intros; apply lex_asym; assumption. Qed.
End Lex.

(* ------------------------------------------------------------ instances *)

Lemma Nltb_irrefl : forall x : N, (x <? x) = false.
Proof. intro; apply N.ltb_irrefl. Qed.
Lemma Nltb_trans : forall x y z : N, (x <? y) = true -> (y <? z) = true -> (x <? z) = true.
Proof. intros x y z H1 H2. apply N.ltb_lt in H1, H2. apply N.ltb_lt. lia. Qed.
Lemma Nltb_tricho : forall x y : N, (x <? y) = false -> (y <? x) = false -> x = y.
Proof. intros x y H1 H2. apply N.ltb_ge in H1, H2. lia. Qed.

Lemma bytes_ltb_lex : forall a b, bytes_ltb a b = lex N N.ltb a b.
Proof.
  induction a as [|x a IH]; destruct b as [|y b]; simpl; auto; try (rewrite IH; reflexivity).
Qed.

Lemma bytes_ltb_irrefl : forall x, bytes_ltb x x = false.
Proof. intro. rewrite bytes_ltb_lex. apply lex_irrefl. exact Nltb_irrefl. Qed.
Local Hint Resolve Nltb_irrefl Nltb_trans Nltb_tricho : c08ord.
Lemma bytes_ltb_trans : forall x y z, bytes_ltb x y = true -> bytes_ltb y z = true -> bytes_ltb x z = true.
Proof.
  intros x y z. rewrite !bytes_ltb_lex. intros.
  eapply lex_trans; eauto with c08ord.
Qed.
Lemma bytes_ltb_tricho : forall x y, bytes_ltb x y = false -> bytes_ltb y x = false -> x = y.
Proof.
  intros x y. rewrite !bytes_ltb_lex. intros. eapply lex_tricho; eauto with c08ord.
Qed.

Lemma path_ltb_lex : forall a b, path_ltb a b = lex bytes bytes_ltb a b.
Proof.
  induction a as [|x a IH]; destruct b as [|y b]; simpl; auto; try (rewrite IH; reflexivity).
Qed.

Definition path_le (a b : path) : Prop := path_ltb b a = false.

Lemma path_le_lle : forall a b, path_le a b <-> lle bytes bytes_ltb a b.
Proof. intros. unfold path_le, lle. rewrite path_ltb_lex. tauto. Qed.

Lemma path_le_refl : forall a, path_le a a.
Proof. intro. apply path_le_lle. apply lle_refl. exact bytes_ltb_irrefl. Qed.
Lemma path_le_trans : forall a b c, path_le a b -> path_le b c -> path_le a c.
Proof.
  intros a b c H1 H2. apply path_le_lle in H1, H2. apply path_le_lle.
  eapply lle_trans; eauto using bytes_ltb_irrefl, bytes_ltb_trans, bytes_ltb_tricho.
Qed.
Lemma path_le_antisym : forall a b, path_le a b -> path_le b a -> a = b.
Proof.
  intros a b H1 H2. apply path_le_lle in H1, H2.
  eapply lle_antisym; eauto using bytes_ltb_irrefl, bytes_ltb_trans, bytes_ltb_tricho.
Qed.
Lemma path_ltb_le : forall a b, path_ltb a b = true -> path_le a b.
Proof.
  intros a b H. apply path_le_lle. rewrite path_ltb_lex in H.
  eapply lle_total; eauto using bytes_ltb_irrefl, bytes_ltb_trans, bytes_ltb_tricho.
Qed.

(* ------------------------------------------------------------ bytes_eqb *)

Lemma bytes_eqb_eq : forall a b, bytes_eqb a b = true <-> a = b.
Proof.
  induction a as [|x a IH]; destruct b as [|y b]; simpl; split; intro H; auto; try discriminate.
  - apply andb_true_iff in H. destruct H as [H1 H2]. apply N.eqb_eq in H1. apply IH in H2. congruence.
  - inversion H; subst. rewrite N.eqb_refl. simpl. apply IH. reflexivity.
Qed.

Lemma bytes_eqb_refl : forall a, bytes_eqb a a = true.
Proof. intro. apply bytes_eqb_eq. reflexivity. Qed.

Lemma bytes_eqb_neq : forall a b, bytes_eqb a b = false <-> a <> b.
Proof.
  intros a b. split; intro H.
  - intro E. apply bytes_eqb_eq in E. congruence.
  - destruct (bytes_eqb a b) eqn:E; auto. apply bytes_eqb_eq in E. contradiction.
Qed.

(* ------------------------------------------------------------ prefixes and the order *)

Lemma prefix_refl : forall p, path_is_prefix p p = true.
Proof. induction p; simpl; auto. rewrite bytes_eqb_refl. exact IHp. Qed.

Lemma prefix_le : forall p q, path_is_prefix p q = true -> path_le p q.
Proof.
  unfold path_le. induction p as [|x p IH]; destruct q as [|y q]; simpl; intro H; auto; try discriminate.
  apply andb_true_iff in H. destruct H as [H1 H2]. apply bytes_eqb_eq in H1. subst y.
  rewrite bytes_ltb_irrefl. apply IH. exact H2.
Qed.

(* p <= r <= q and p prefix of q  ==>  p prefix of r *)
Lemma prefix_between : forall p r q,
  path_le p r -> path_le r q -> path_is_prefix p q = true -> path_is_prefix p r = true.
Proof.
  unfold path_le.
  induction p as [|x p IH]; intros r q H1 H2 H3; simpl; auto.
  destruct q as [|z q]; simpl in H3; try discriminate.
  apply andb_true_iff in H3. destruct H3 as [E H3]. apply bytes_eqb_eq in E. subst z.
  destruct r as [|y r]; simpl in H1; try discriminate.
  simpl in H2.
  destruct (bytes_ltb y x) eqn:Eyx; try discriminate.
  destruct (bytes_ltb x y) eqn:Exy; try discriminate.
  pose proof (bytes_ltb_tricho _ _ Exy Eyx) as ->.
  rewrite bytes_eqb_refl. simpl. eapply IH; eassumption.
Qed.

(* ------------------------------------------------------------ insertion sort *)

Lemma insert_sorted_perm : forall p l, Permutation (insert_sorted p l) (p :: l).
Proof.
  induction l as [|q l IH]; simpl; auto.
  destruct (path_ltb q p); auto.
  eapply perm_trans; [apply perm_skip; exact IH | apply perm_swap].
Qed.

Lemma sort_paths_perm : forall l, Permutation (sort_paths l) l.
Proof.
  induction l as [|p l IH]; simpl; auto.
  eapply perm_trans; [apply insert_sorted_perm | apply perm_skip; exact IH].
Qed.

Lemma insert_sorted_sorted : forall p l, StronglySorted path_le l -> StronglySorted path_le (insert_sorted p l).
Proof.
  induction l as [|q l IH]; simpl; intro S.
  - constructor; constructor.
  - inversion S as [|? ? S' F]; subst.
    destruct (path_ltb q p) eqn:E.
    + constructor; [apply IH; exact S'|].
      apply Forall_forall. intros r Hr.
      apply (Permutation_in _ (insert_sorted_perm p l)) in Hr. destruct Hr as [<-|Hr].
      * apply path_ltb_le. exact E.
      * rewrite Forall_forall in F. apply F. exact Hr.
    + constructor; [exact S|].
      constructor; [exact E|].
      rewrite Forall_forall in *. intros r Hr. eapply path_le_trans; [exact E | apply F; exact Hr].
Qed.

Lemma sort_paths_sorted : forall l, StronglySorted path_le (sort_paths l).
Proof.
  induction l; simpl; [constructor | apply insert_sorted_sorted; assumption].
Qed.

(* ------------------------------------------------------------ the adjacency lemma *)

Definition unrelated (p q : path) : Prop := path_is_prefix p q = false /\ path_is_prefix q p = false.

Lemma unrelated_sym : forall p q, unrelated p q -> unrelated q p.
Proof. unfold unrelated; tauto. Qed.

Definition no_prefix (l : list path) : Prop := ForallOrdPairs unrelated l.

(* "in a lexicographically sorted list, if any element is a prefix of (or equal to) another then
   some adjacent pair is" — contrapositive form *)
Lemma sorted_adjacent_no_prefix : forall l,
  StronglySorted path_le l -> adjacent_prefix l = false -> no_prefix l.
Proof.
  induction l as [|p l IH]; intros S Hadj; [constructor|].
  inversion S as [|? ? S' F]; subst.
  assert (Hl : adjacent_prefix l = false).
  { destruct l; simpl in *; auto. apply orb_false_iff in Hadj. tauto. }
  constructor; [|apply IH; assumption].
  rewrite Forall_forall in *. intros q Hq.
  assert (Hpq : path_is_prefix p q = false).
  { destruct (path_is_prefix p q) eqn:E; auto. exfalso.
    destruct l as [|r l']; [inversion Hq|].
    simpl in Hadj. apply orb_false_iff in Hadj. destruct Hadj as [Hpr _].
    assert (path_is_prefix p r = true).
    { eapply prefix_between; [apply F; left; reflexivity| |exact E].
      destruct Hq as [<-|Hq]; [apply path_le_refl|].
      inversion S' as [|? ? _ F']; subst. rewrite Forall_forall in F'. apply F'. exact Hq. }
    congruence. }
  split; auto.
  destruct (path_is_prefix q p) eqn:E; auto. exfalso.
  assert (p = q) by (apply path_le_antisym; [apply F; exact Hq | apply prefix_le; exact E]).
  subst q. rewrite prefix_refl in Hpq. discriminate.
Qed.

Lemma Forall_perm : forall (A : Type) (P : A -> Prop) l l', Permutation l l' -> Forall P l -> Forall P l'.
Proof.
  intros A P l l' HP HF. rewrite Forall_forall in *. intros x Hx. apply HF.
  eapply Permutation_in; [apply Permutation_sym; exact HP | exact Hx].
Qed.

Lemma no_prefix_perm : forall l l', Permutation l l' -> no_prefix l -> no_prefix l'.
Proof.
  unfold no_prefix. induction 1; intro Hn.
  - constructor.
  - inversion Hn; subst. constructor; [eapply Forall_perm; eauto | auto].
  - inversion Hn as [|? ? F1 Hn']; subst. inversion Hn' as [|? ? F2 Hn'']; subst.
    inversion F1; subst.
    constructor; [constructor; [apply unrelated_sym; assumption | assumption]|].
    constructor; assumption.
  - auto.
Qed.

(* the check of parse_multi_files, as a statement about the UNSORTED list of paths *)
Theorem adjacent_check_sound : forall l,
  adjacent_prefix (sort_paths l) = false -> no_prefix l.
Proof.
  intros l H. eapply no_prefix_perm; [apply sort_paths_perm|].
  apply sorted_adjacent_no_prefix; [apply sort_paths_sorted | exact H].
Qed.

(* and it is complete: it rejects only lists that do contain a related pair *)
Lemma adjacent_prefix_witness : forall l, adjacent_prefix l = true ->
  exists l1 p q l2, l = l1 ++ p :: q :: l2 /\ path_is_prefix p q = true.
Proof.
  induction l as [|p l IH]; simpl; intro H; [discriminate|].
  destruct l as [|q l']; [discriminate|].
  apply orb_true_iff in H. destruct H as [H|H].
  - exists [], p, q, l'. auto.
  - destruct (IH H) as (l1 & a & b & l2 & E & Hp). exists (p :: l1), a, b, l2. rewrite E. auto.
Qed.

(* no_prefix in index form *)
Lemma no_prefix_nth : forall l i j d, no_prefix l -> (i < length l)%nat -> (j < length l)%nat -> i <> j ->
  path_is_prefix (nth i l d) (nth j l d) = false.
Proof.
  unfold no_prefix. induction l as [|p l IH]; intros i j d Hn Hi Hj Hij; [inversion Hi|].
  inversion Hn as [|? ? F Hn']; subst. rewrite Forall_forall in F.
  destruct i as [|i]; destruct j as [|j]; simpl in *; try congruence.
  - apply (F (nth j l d)). apply nth_In. lia.
  - apply (F (nth i l d)). apply nth_In. lia.
  - apply IH; auto; lia.
Qed.
