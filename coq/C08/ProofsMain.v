(* C08 — the property theorems about the loader model. *)
From Coq Require Import List NArith ZArith Bool Lia.
From LTV Require Import Common.Bytes.
From LTV.C07 Require Import Model.
From LTV.C08 Require Import Model ProofsOrder ProofsLoad ProofsTok ProofsDecode ProofsTotal ProofsOpen.
Import ListNotations.
Local Open Scope N_scope.

(* the policy of the code as it is today satisfies the side condition of the theorems; the run
   checks policy_ok on the policy PROBED from the compiled implementation (harness --params) *)
Definition params_ok : bool := policy_ok default_policy && (hash_size =? 20).
Lemma params_ok_now : params_ok = true.
Proof. vm_compute. reflexivity. Qed.

(* is b a normal torrent (an "info" dictionary is present), as opposed to the magnet path *)
Definition has_info (b : value) : Prop :=
  exists m, as_map b = LOk m /\ has_key_map m k_info = true.

Section Main.
Variable H : bytes -> bytes.
Variable pol : policy.

(* everything the later theorems need, extracted from one inversion of [load] *)
Lemma load_inv : forall b u d, load H pol b u = LOk d ->
  valid_comp (d_name d) = true /\
  files_ok (d_files d) (d_size d) /\
  d_chunks d = size_chunks_of (d_size d) (d_chunk_size d) /\
  fits (d_size d) (d_chunk_size d) /\ d_chunk_size d < two32 /\
  Forall (fun f => (f_r1 f, f_r2 f) = set_range (f_offset f) (f_size f) (d_chunk_size d)) (d_files d) /\
  (d_multi d = false -> map f_path (d_files d) = [[d_name d]]) /\
  N.of_nat (length (d_pieces d)) = u64 (20 * d_chunks d) /\
  (d_meta d = false -> d_size d <> 0) /\
  d_infohash d <> zero_hash /\
  (int64_ok b = true -> d_size d < two63) /\
  (forall m, as_map b = LOk m -> has_key_map m k_info = true ->
     u = false /\
     exists info_v, get_key m k_info = LOk info_v /\
       (d_meta d = false -> d_infohash d = H (enc info_v)) /\
       (d_meta d = true -> d_infohash d = d_pieces d)).
Proof.
  intros b u d Hl. unfold load in Hl. inv_all Hl. injection Hl as <-. simpl.
  (* name *)
  apply negb_false_iff in E4.
  destruct a3 as [|nm| |]; simpl in E4, E5; try discriminate. injection E5 as <-.
  (* chunk size *)
  assert (Hcs : n < two32).
  { match type of E7 with (if ?c then _ else _) = _ => destruct c end.
    - inv_all E7. inversion E7; subst. reflexivity.
    - inv_all E7. inversion E7; subst. unfold u32. apply N.mod_lt. discriminate. }
  (* the file list: three ways to get it *)
  assert (FL : files_ok l n1 /\ n0 = size_chunks_of n1 n /\ fits n1 n /\
               Forall (fun f => (f_r1 f, f_r2 f) = set_range (f_offset f) (f_size f) n) l /\
               (b0 = false -> map f_path l = [[nm]]) /\
               (int64_ok (VMap a2) = true -> n1 < two63)).
  { assert (SINGLE : forall cs l' t' c', parse_single_file a2 cs = LOk (l', t', c') ->
              files_ok l' t' /\ c' = size_chunks_of t' cs /\ fits t' cs /\
              Forall (fun f => (f_r1 f, f_r2 f) = set_range (f_offset f) (f_size f) cs) l' /\
              (false = false -> map f_path l' = [[nm]]) /\ (int64_ok (VMap a2) = true -> t' < two63)).
    { intros cs l' t' c' Ps.
      destruct (parse_single_file_ok _ _ _ _ _ Ps) as (A & B & C & D & (nm' & En & Ep) & L).
      rewrite E3 in En. injection En as <-.
      split; [exact A|split; [exact B|split; [exact C|split; [exact D|split; [intro; exact Ep|]]]]].
      intro Hi. destruct L as [[_ ->]|(len & Hk & ->)]; [reflexivity|].
      unfold get_key in Hk. destruct (lookup k_length a2) as [lv|] eqn:Elk; [|discriminate]. injection Hk as ->.
      pose proof (int64_ok_lookup _ _ _ Hi Elk) as Hz. simpl in Hz. unfold in_int64 in Hz.
      apply andb_true_iff in Hz. destruct Hz as [_ Hz]. apply Z.leb_le in Hz.
      unfold int64_max, two63 in *. lia. }
    destruct (has_key a2 k_length) eqn:Hk1.
    - destruct (parse_single_file a2 n) as [[[l' t'] c']| |] eqn:Ps; cbn [bind] in E9; try discriminate.
      inversion E9; subst; clear E9. apply (SINGLE _ _ _ _ Ps).
    - destruct (has_key a2 k_files) eqn:Hk2.
      + destruct (get_key a2 k_files) as [fv| |]; cbn [bind] in E9; try discriminate.
        destruct (parse_multi_files fv n) as [[[l' t'] c']| |] eqn:Pm; cbn [bind] in E9; try discriminate.
        inversion E9; subst; clear E9.
        destruct (parse_multi_files_ok _ _ _ _ _ Pm) as (A & B & C & D & F).
        split; [exact A|split; [exact C|split; [exact D|split; [exact F|split; [intro; discriminate|intro; exact B]]]]].
      + destruct o as [[[l' t'] c']|]; try discriminate. inversion E9; subst; clear E9.
        destruct (match lookup k_meta a2 with Some (VInt z) => negb (z =? 0)%Z | _ => false end); [|inv_all E7; discriminate].
        inv_all E7. inversion E7; subst; clear E7.
        match goal with Ps : parse_single_file a2 1 = LOk _ |- _ => apply (SINGLE _ _ _ _ Ps) end. }
  destruct FL as (F1 & F2 & F3 & F4 & F6 & F7).
  apply negb_false_iff in E16. apply N.eqb_eq in E16.
  split; [exact E4|]. split; [exact F1|]. split; [exact F2|]. split; [exact F3|]. split; [exact Hcs|].
  split; [exact F4|]. split; [exact F6|].
  destruct a7 as [|ps| |]; simpl in E15; try discriminate. injection E15 as <-.
  split; [exact E16|].
  split.
  { intro Hm. rewrite Hm in E13. rewrite andb_true_r in E13. apply N.eqb_neq. exact E13. }
  split.
  { apply bytes_eqb_neq. exact E17. }
  split.
  { intro Hb. apply F7.
    unfold as_map in E. destruct b as [| | |mb]; try discriminate. injection E as ->.
    assert (Ha0 : int64_ok (VMap a0) = true).
    { destruct (negb (has_key_map a k_info) && has_key_string a k_magnet).
      - destruct (lookup k_magnet a) as [[|uri| |]|]; try discriminate.
        eapply int64_ok_magnet; eassumption.
      - injection E0 as <-. exact Hb. }
    unfold get_key in E1. destruct (lookup k_info a0) as [iv|] eqn:Eli; [|discriminate]. injection E1 as ->.
    pose proof (int64_ok_lookup _ _ _ Ha0 Eli) as Hiv.
    unfold as_map in E2. destruct a1; try discriminate. injection E2 as <-. exact Hiv. }
  intros m Em Hi. assert (a = m) as <-.
  { unfold as_map in *. destruct b; try discriminate. congruence. }
  rewrite Hi in E0, E6. simpl in E0, E6. injection E0 as <-.
  split; [exact E6|].
  exists a1. split; [exact E1|]. split; intro Hm; rewrite Hm; reflexivity.
Qed.

(* ------------------------------------------------------------ path containment *)

(* lexical resolution of a relative component list against a directory: "" and "." stay, ".."
   goes up (None = it would leave the directory), anything else goes down *)
Fixpoint resolve (stack : list bytes) (comps : list bytes) : option (list bytes) :=
  match comps with
  | [] => Some (rev stack)
  | c :: r =>
      if bytes_eqb c [] || bytes_eqb c [ch_dot] then resolve stack r
      else if bytes_eqb c [ch_dot; ch_dot] then
        match stack with [] => None | _ :: s => resolve s r end
      else resolve (c :: stack) r
  end.

(* [comps] names something strictly inside the directory it is resolved against, and every
   component is a single directory entry name (no '/' that the kernel would split, no NUL that
   would truncate the string) *)
Definition strictly_inside (comps : list bytes) : Prop :=
  exists s, resolve [] comps = Some s /\ s <> [] /\
  Forall (fun c => mem_byte ch_slash c = false /\ mem_byte 0 c = false) comps.

Lemma resolve_valid : forall comps stack,
  Forall (fun c => valid_comp c = true) comps -> resolve stack comps = Some (rev stack ++ comps).
Proof.
  induction comps as [|c r IH]; intros stack F; simpl.
  - rewrite app_nil_r. reflexivity.
  - inversion F as [|? ? Hc Fr]; subst.
    destruct (valid_comp_facts c Hc) as (N1 & N2 & N3 & _ & _).
    apply bytes_eqb_neq in N1, N2, N3. rewrite N1, N2, N3. simpl.
    rewrite IH by exact Fr. simpl. rewrite <- app_assoc. reflexivity.
Qed.

Lemma valid_path_inside : forall p, valid_path p -> strictly_inside p.
Proof.
  intros p [Hn F]. exists p. split; [apply (resolve_valid p [] F)|]. split; [exact Hn|].
  rewrite Forall_forall in *. intros c Hc. destruct (valid_comp_facts c (F c Hc)) as (_ & _ & _ & A & B). auto.
Qed.

(* every file the download will ever open: its frozen path is  root' / c1 / ... / ck  where
   root' = set_root_dir(root) and c1..ck resolve strictly inside root' *)
Theorem paths_contained : forall b u d root f,
  load H pol b u = LOk d -> In f (d_files d) ->
  frozen_path (set_root_dir root) f = set_root_dir root ++ path_as_string (f_path f) /\
  strictly_inside (f_path f) /\ strictly_inside [d_name d].
Proof.
  intros b u d root f Hl Hin.
  destruct (load_inv _ _ _ Hl) as (Hn & Fo & _).
  destruct Fo as [_ Fv _ _ _]. rewrite Forall_forall in Fv. specialize (Fv f Hin).
  split; [|split].
  - unfold frozen_path. destruct Fv as [Hne F].
    match goal with |- context [match ?x with _ => _ end] => destruct x as [|c r] eqn:Er end; [reflexivity|].
    destruct c; [|reflexivity]. exfalso.
    assert (Hin' : In [] (f_path f)).
    { match type of Er with ?x = _ => assert (Hr : In [] x) by (rewrite Er; left; reflexivity) end.
      apply in_rev. exact Hr. }
    rewrite Forall_forall in F. specialize (F _ Hin'). vm_compute in F. discriminate.
  - apply valid_path_inside. exact Fv.
  - apply valid_path_inside. split; [discriminate|]. constructor; [exact Hn|constructor].
Qed.

(* the STRING handed to the kernel is walked as: the root's own components, then exactly the
   file's components (no '/' inside a component re-splits, no NUL truncates) *)
Theorem frozen_tokens : forall b u d root f,
  load H pol b u = LOk d -> In f (d_files d) ->
  tokens (frozen_path (set_root_dir root) f) = tokens (set_root_dir root) ++ f_path f /\
  mem_byte 0 (path_as_string (f_path f)) = false.
Proof.
  intros b u d root f Hl Hin.
  destruct (paths_contained b u d root f Hl Hin) as (Ef & _ & _).
  destruct (load_inv _ _ _ Hl) as (_ & Fo & _).
  destruct Fo as [_ Fv _ _ _]. rewrite Forall_forall in Fv. destruct (Fv f Hin) as [Hne F].
  rewrite Ef. split; [apply tokens_frozen; assumption | apply no_nul_path; exact F].
Qed.

(* FileList::open, for ANY root and therefore at EVERY re-open after close + set_root_dir: no
   storage error (empty name / duplicate frozen path), and the frozen paths are recomputed from the
   CURRENT root: exactly one, root' ++ "/c1/../ck", per non-padding file, in file order *)
Theorem open_paths_ok : forall b u d root,
  load H pol b u = LOk d -> mem_byte 0 (set_root_dir root) = false ->
  open_paths root d = LOk (map (fr (set_root_dir root)) (filter nonpad (d_files d))).
Proof.
  intros b u d root Hl Hz. destruct (load_inv _ _ _ Hl) as (_ & Fo & _).
  destruct Fo as [_ Fv Hn _ _]. unfold open_paths.
  rewrite (open_loop_ok (set_root_dir root) (d_files d) Hz Fv Hn [] []); [reflexivity|].
  intros f _ [].
Qed.

Theorem no_dup_no_prefix : forall b u d,
  load H pol b u = LOk d -> no_prefix (map f_path (d_files d)).
Proof. intros b u d Hl. destruct (load_inv _ _ _ Hl) as (_ & Fo & _). destruct Fo; assumption. Qed.

Theorem sizes_sum : forall b u d,
  load H pol b u = LOk d ->
  offsets_from 0 (d_files d) /\ sum_size (d_files d) = d_size d /\
  (int64_ok b = true -> d_size d < two63) /\ (d_meta d = false -> d_size d <> 0).
Proof.
  intros b u d Hl. destruct (load_inv _ _ _ Hl) as (_ & Fo & _ & _ & _ & _ & _ & _ & Hz & _ & Hb & _).
  destruct Fo. auto.
Qed.

(* the piece count is the exact ceiling, fits 32 bits, and 'pieces' holds exactly one 20-byte
   hash per piece: none of the uint32/uint64 operations of the code wraps *)
Theorem piece_count_matches : forall b u d,
  int64_ok b = true -> load H pol b u = LOk d ->
  d_chunk_size d <> 0 /\ d_size d < two63 /\
  d_chunks d = (d_size d + d_chunk_size d - 1) / d_chunk_size d /\
  d_chunks d < two32 /\
  N.of_nat (length (d_pieces d)) = 20 * d_chunks d.
Proof.
  intros b u d Hi Hl.
  destruct (load_inv _ _ _ Hl) as (_ & _ & Hc & [Hcs Hfit] & Hcs32 & _ & _ & Hp & _ & _ & Hb & _).
  specialize (Hb Hi).
  assert (Eu : u64 (d_size d + d_chunk_size d - 1) = d_size d + d_chunk_size d - 1).
  { unfold u64. apply N.mod_small. unfold two63, two32, two64 in *. lia. }
  rewrite Eu in Hfit.
  assert (Ec : d_chunks d = (d_size d + d_chunk_size d - 1) / d_chunk_size d).
  { rewrite Hc. unfold size_chunks_of. rewrite Eu. unfold u32. apply N.mod_small. unfold two32 in *. lia. }
  split; [exact Hcs|]. split; [exact Hb|]. split; [exact Ec|].
  assert (d_chunks d < two32) by (rewrite Ec; unfold two32 in *; lia).
  split; [assumption|].
  rewrite Hp. unfold u64. apply N.mod_small. unfold two32, two64 in *. lia.
Qed.

(* every file's piece range is exact as well (File::set_range does not wrap) *)
Theorem file_ranges_exact : forall b u d f,
  int64_ok b = true -> load H pol b u = LOk d -> In f (d_files d) ->
  f_r1 f = f_offset f / d_chunk_size d /\
  f_r2 f = (if f_size f =? 0 then f_offset f / d_chunk_size d
            else (f_offset f + f_size f + d_chunk_size d - 1) / d_chunk_size d) /\
  f_offset f + f_size f <= d_size d.
Proof.
  intros b u d f Hi Hl Hin.
  destruct (piece_count_matches _ _ _ Hi Hl) as (Hcs & Hb & Ec & Hc32 & _).
  destruct (load_inv _ _ _ Hl) as (_ & Fo & _ & _ & Hcs32 & Hr & _).
  destruct Fo as [_ _ _ Hoff Hsum].
  (* offsets: every file lies inside [0, total) *)
  assert (Hin_tot : forall fs off, offsets_from off fs -> In f fs -> off <= f_offset f /\ f_offset f + f_size f <= off + sum_size fs).
  { induction fs as [|g fs IH]; intros off Ho Hi'; [inversion Hi'|].
    simpl in Ho. destruct Ho as [Hg Ho]. destruct Hi' as [->|Hi'].
    - simpl. lia.
    - destruct (IH _ Ho Hi') as [A B]. simpl. lia. }
  destruct (Hin_tot _ _ Hoff Hin) as [_ Hle]. rewrite Hsum in Hle. simpl in Hle.
  rewrite Forall_forall in Hr. specialize (Hr f Hin). unfold set_range in Hr.
  apply N.eqb_neq in Hcs. rewrite Hcs in Hr. apply N.eqb_neq in Hcs.
  assert (Q1 : f_offset f / d_chunk_size d < two32).
  { eapply N.le_lt_trans; [|exact Hc32]. rewrite Ec. apply N.div_le_mono; [exact Hcs|]. lia. }
  assert (E1 : u32 (f_offset f / d_chunk_size d) = f_offset f / d_chunk_size d) by (unfold u32; apply N.mod_small; exact Q1).
  destruct (f_size f =? 0) eqn:Ez.
  - rewrite E1 in Hr. inversion Hr. auto.
  - assert (E2 : u64 (f_offset f + f_size f + d_chunk_size d - 1) = f_offset f + f_size f + d_chunk_size d - 1).
    { unfold u64. apply N.mod_small. unfold two63, two32, two64 in *. lia. }
    assert (Q2 : (f_offset f + f_size f + d_chunk_size d - 1) / d_chunk_size d < two32).
    { eapply N.le_lt_trans; [|exact Hc32]. rewrite Ec. apply N.div_le_mono; [exact Hcs|]. lia. }
    rewrite E1, E2 in Hr. unfold u32 in Hr. rewrite (N.mod_small _ _ Q2) in Hr. inversion Hr. auto.
Qed.

Theorem infohash_canonical : forall b u d m,
  load H pol b u = LOk d -> as_map b = LOk m -> has_key_map m k_info = true ->
  exists info_v, get_key m k_info = LOk info_v /\
    (d_meta d = false -> d_infohash d = H (enc info_v)) /\
    (d_meta d = true -> d_infohash d = d_pieces d).
Proof.
  intros b u d m Hl Em Hi.
  destruct (load_inv _ _ _ Hl) as (_ & _ & _ & _ & _ & _ & _ & _ & _ & _ & _ & Hh).
  destruct (Hh m Em Hi) as [_ X]. exact X.
Qed.

Theorem unordered_rejected : forall b d m,
  as_map b = LOk m -> has_key_map m k_info = true -> load H pol b true <> LOk d.
Proof.
  intros b d m Em Hi Hl.
  destruct (load_inv _ _ _ Hl) as (_ & _ & _ & _ & _ & _ & _ & _ & _ & _ & _ & Hh).
  destruct (Hh m Em Hi) as [X _]. discriminate.
Qed.

Theorem infohash_never_zero : forall b u d, load H pol b u = LOk d -> d_infohash d <> zero_hash.
Proof. intros b u d Hl. destruct (load_inv _ _ _ Hl) as (_ & _ & _ & _ & _ & _ & _ & _ & _ & Hz & _). exact Hz. Qed.

End Main.

(* ------------------------------------------------------------ the loader on BYTES: the real
   decoder (C07) composed with the loader. The int64 hypothesis disappears (every decoded tree
   has int64 integers) and the unordered flag is the per-dictionary one. *)
Section Bytes.
Variable H : bytes -> bytes.
Variable pol : policy.

Lemma load_bytes_inv : forall s d, load_bytes H pol s = Some (LOk d) ->
  exists b rest, decode_f s = Ok b rest /\ load H pol (erase b) (info_flag b) = LOk d /\ int64_ok (erase b) = true.
Proof.
  intros s d Hl. unfold load_bytes in Hl.
  destruct (decode_f s) as [b rest| | |] eqn:E; try discriminate.
  injection Hl as Hl. exists b, rest. repeat split; auto. eapply decode_f_int64. exact E.
Qed.

Theorem piece_count_matches_bytes : forall s d,
  load_bytes H pol s = Some (LOk d) ->
  d_chunk_size d <> 0 /\ d_size d < two63 /\
  d_chunks d = (d_size d + d_chunk_size d - 1) / d_chunk_size d /\
  d_chunks d < two32 /\
  N.of_nat (length (d_pieces d)) = 20 * d_chunks d.
Proof.
  intros s d Hl. destruct (load_bytes_inv _ _ Hl) as (b & rest & _ & Hload & Hi).
  eapply piece_count_matches; eassumption.
Qed.

Theorem sizes_sum_bytes : forall s d,
  load_bytes H pol s = Some (LOk d) ->
  offsets_from 0 (d_files d) /\ sum_size (d_files d) = d_size d /\ d_size d < two63 /\
  (d_meta d = false -> d_size d <> 0).
Proof.
  intros s d Hl. destruct (load_bytes_inv _ _ Hl) as (b & rest & _ & Hload & Hi).
  destruct (sizes_sum H pol _ _ _ Hload) as (A & B & C & D). auto.
Qed.

(* an info dictionary that is unordered ANYWHERE inside (its own keys, or any dictionary nested
   in it at any depth) is rejected *)
Theorem unordered_rejected_bytes : forall s m u rest im iu d,
  decode_f s = Ok (FMap m u) rest ->
  flookup k_info m = Some (FMap im iu) ->
  any_flag (FMap im iu) = true ->
  load_bytes H pol s <> Some (LOk d).
Proof.
  intros s m u rest im iu d Hd Hk Hany Hl.
  unfold load_bytes in Hl. rewrite Hd in Hl. injection Hl as Hl.
  assert (Hc : fclosed (FMap im iu) = true).
  { eapply closed_flookup; [eapply decode_f_closed; exact Hd | exact Hk]. }
  rewrite (closed_any_flag _ Hc) in Hany. simpl in Hany. subst iu.
  unfold info_flag in Hl. rewrite Hk in Hl.
  eapply (unordered_rejected H pol (erase (FMap m u)) d (emap m)); [reflexivity | | exact Hl].
  unfold has_key_map. rewrite lookup_emap, Hk. reflexivity.
Qed.

(* nothing outside "info" matters: the loader sees the erased tree and info's own flag only (by
   definition of load_bytes); and the loader on bytes is total *)
Theorem load_total_bytes : forall s r, policy_ok pol = true ->
  load_bytes H pol s = Some r -> (exists d, r = LOk d) \/ r = LErr EInput \/ r = LErr EBencode.
Proof.
  intros s r Hpol Hl. unfold load_bytes in Hl. destruct (decode_f s) as [b rest| | |]; try discriminate.
  injection Hl as <-. destruct (ProofsTotal.load_total_cases H pol (erase b) (info_flag b) Hpol) as [[d E]|[E|E]]; rewrite E; eauto.
Qed.

End Bytes.

(* ------------------------------------------------------------ regression witnesses: the inputs
   that refuted piece_count_matches / load_total before the fix commits are now rejected with an
   input error. H0 stands for SHA-1 in these closed computations. *)
Definition H0 (_ : bytes) : bytes := repeat 1 20.

Definition mk_single (len pl : Z) (pieces : bytes) : value :=
  VMap [(k_info, VMap [(k_length, VInt len); (k_name, VStr [120]); (k_piece_length, VInt pl); (k_pieces, VStr pieces)])].

Example regress_piece_count_wrap : load H0 default_policy (mk_single 8796093022208 2048 []) false = LErr EInput.
Proof. vm_compute. reflexivity. Qed.
Example regress_pieces_surplus : load H0 default_policy (mk_single 100 2048 (repeat 17 60)) false = LErr EBencode.
Proof. vm_compute. reflexivity. Qed.
Example regress_pieces_ragged : load H0 default_policy (mk_single 100 2048 (repeat 17 21)) false = LErr EBencode.
Proof. vm_compute. reflexivity. Qed.

Definition magnet_zero : bytes :=
  magnet_prefix ++ [120;116;61] ++ urn_btih ++ repeat 65 32.     (* magnet:?xt=urn:btih:AAAA...A *)
Example regress_zero_hash : forall H rf, load_uri H (mkPolicy 1024 536870912 rf) magnet_zero = LErr EInput.
Proof. intros H rf. vm_compute. reflexivity. Qed.

(* non-vacuity examples *)
Example ex_single_loads : exists d, load H0 default_policy (mk_single 100 2048 (repeat 17 20)) false = LOk d /\ d_chunks d = 1.
Proof. eexists. split; vm_compute; reflexivity. Qed.

Definition mk_multi (files : list (Z * list bytes)) : value :=
  VMap [(k_info, VMap [(k_files, VList (map (fun f => VMap [(k_length, VInt (fst f)); (k_path, VList (map VStr (snd f)))]) files));
                       (k_name, VStr [116]); (k_piece_length, VInt 2048); (k_pieces, VStr (repeat 17 20))])].

Example ex_multi_loads : exists d, load H0 default_policy (mk_multi [(10%Z, [[97];[98]]); (20%Z, [[99]])]) false = LOk d /\ d_multi d = true /\ length (d_files d) = 2%nat.
Proof. eexists. split; [vm_compute; reflexivity|]. split; reflexivity. Qed.

Example ex_dotdot_rejected : load H0 default_policy (mk_multi [(10%Z, [[46;46];[98]])]) false = LErr EInput.
Proof. vm_compute. reflexivity. Qed.
Example ex_prefix_rejected : load H0 default_policy (mk_multi [(10%Z, [[97];[98]]); (1%Z, [[122]]); (20%Z, [[97]])]) false = LErr EInput.
Proof. vm_compute. reflexivity. Qed.
Example ex_unordered_rejected : load H0 default_policy (mk_single 100 2048 (repeat 17 20)) true = LErr EInput.
Proof. vm_compute. reflexivity. Qed.
(* d 8:announce 1:x 4:info d ... e e with the top-level keys swapped (info before announce): loads *)
Definition bytes_of_single : bytes :=
  [100; 52;58;105;110;102;111; 100; 54;58;108;101;110;103;116;104; 105;49;48;48;101; 52;58;110;97;109;101; 49;58;120;
   49;50;58;112;105;101;99;101;32;108;101;110;103;116;104; 105;50;48;52;56;101; 54;58;112;105;101;99;101;115; 50;48;58] ++ repeat 17 20 ++ [101;
   49;58;97; 105;49;101; 101].
Example ex_outside_unordered_loads : exists d, load_bytes H0 default_policy bytes_of_single = Some (LOk d) /\
  (exists b r, decode_f bytes_of_single = Ok b r /\ fflag b = true /\ info_flag b = false).
Proof. eexists. split; [vm_compute; reflexivity|]. eexists. eexists. split; [vm_compute; reflexivity|]. split; reflexivity. Qed.

Example ex_has_info : has_info (mk_single 100 2048 (repeat 17 20)).
Proof. eexists. split; reflexivity. Qed.

(* magnet: the three hash encodings decode to the same 20 bytes *)
Definition h_example : bytes := [0;16;131;16;81;135;32;146;139;48;211;143;65;20;147;81;85;97;89;230].
Example ex_base32 : parse_base32_sha1 (map (fun c => c) [65;66;67;68;69;70;71;72;73;74;75;76;77;78;79;80;81;82;83;84;85;86;87;88;89;90;50;51;52;53;54;55])
  = Some ([0;68;50;20;199;66;84;182;53;207;132;101;58;86;215;198;117;190;119;223], []).
Proof. vm_compute. reflexivity. Qed.
Example ex_magnet_b32_loads : exists d, load_uri H0 default_policy (magnet_prefix ++ [120;116;61] ++ urn_btih ++ repeat 66 32) = LOk d /\ d_meta d = true.
Proof. eexists. split; vm_compute; reflexivity. Qed.
