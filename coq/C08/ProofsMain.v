(* C08 — the property theorems about the loader model. *)
From Coq Require Import List NArith ZArith Bool Lia.
From LTV Require Import Common.Bytes Params_gen.
From LTV.C07 Require Import Model.
From LTV.C08 Require Import Model ProofsOrder ProofsLoad.
Import ListNotations.
Local Open Scope N_scope.

Definition params_ok : bool :=
  (Params.c08_piece_length_min =? 1024) && (Params.c08_piece_length_max =? 536870912) &&
  (Params.c08_hash_size =? 20).
Lemma params_ok_now : params_ok = true.
Proof. vm_compute. reflexivity. Qed.

(* is b a normal torrent (an "info" dictionary is present), as opposed to the magnet path *)
Definition has_info (b : value) : Prop :=
  exists m, as_map b = LOk m /\ has_key_map m k_info = true.

Section Main.
Variable H : bytes -> bytes.

(* everything the later theorems need, extracted from one inversion of [load] *)
Lemma load_inv : forall b u d, load H b u = LOk d ->
  valid_comp (d_name d) = true /\
  files_ok (d_files d) (d_size d) /\
  d_chunks d = size_chunks_of (d_size d) (d_chunk_size d) /\
  d_chunk_size d <> 0 /\
  Forall (fun f => (f_r1 f, f_r2 f) = set_range (f_offset f) (f_size f) (d_chunk_size d)) (d_files d) /\
  (d_multi d = true -> d_size d < two63) /\
  (d_multi d = false -> map f_path (d_files d) = [[d_name d]]) /\
  d_chunks d <= N.of_nat (length (d_pieces d)) / 20 /\
  (d_meta d = false -> d_size d <> 0) /\
  d_infohash d <> zero_hash /\
  (forall m, as_map b = LOk m -> has_key_map m k_info = true ->
     u = false /\
     exists info_v, get_key m k_info = LOk info_v /\
       (d_meta d = false -> d_infohash d = H (enc info_v)) /\
       (d_meta d = true -> d_infohash d = d_pieces d)).
Proof.
  intros b u d Hl. unfold load in Hl. inv_all Hl. injection Hl as <-. simpl.
  (* name *)
  apply negb_false_iff in E4.
  destruct a3 as [|nm| |]; simpl in E4, E5; try discriminate. injection E5 as <-.
  (* the file list: three ways to get it *)
  assert (FL : files_ok l n1 /\ n0 = size_chunks_of n1 n /\ n <> 0 /\
               Forall (fun f => (f_r1 f, f_r2 f) = set_range (f_offset f) (f_size f) n) l /\
               (b0 = true -> n1 < two63) /\ (b0 = false -> map f_path l = [[nm]])).
  { destruct (has_key a2 k_length) eqn:Hk1.
    - destruct (parse_single_file a2 n) as [[[l' t'] c']| |] eqn:Ps; cbn [bind] in E9; try discriminate.
      inversion E9; subst; clear E9.
      destruct (parse_single_file_ok _ _ _ _ _ Ps) as (A & B & C & D & nm' & En & Ep).
      rewrite E3 in En. injection En as <-.
      split; [exact A|split; [exact B|split; [exact C|split; [exact D|split; [intro; discriminate|intro; exact Ep]]]]].
    - destruct (has_key a2 k_files) eqn:Hk2.
      + destruct (get_key a2 k_files) as [fv| |]; cbn [bind] in E9; try discriminate.
        destruct (parse_multi_files fv n) as [[[l' t'] c']| |] eqn:Pm; cbn [bind] in E9; try discriminate.
        inversion E9; subst; clear E9.
        destruct (parse_multi_files_ok _ _ _ _ _ Pm) as (A & B & C & D & F).
        split; [exact A|split; [exact C|split; [exact D|split; [exact F|split; [intro; exact B|intro; discriminate]]]]].
      + destruct o as [[[l' t'] c']|]; try discriminate. inversion E9; subst; clear E9.
        (* the list built by the meta-download branch of E7 *)
        destruct (match lookup k_meta a2 with Some (VInt z) => negb (z =? 0)%Z | _ => false end); [|inv_all E7; discriminate].
        inv_all E7. inversion E7; subst; clear E7.
        match goal with Ps : parse_single_file a2 1 = LOk _ |- _ =>
          destruct (parse_single_file_ok _ _ _ _ _ Ps) as (A & B & C & D & nm' & En & Ep) end.
        rewrite E3 in En. injection En as <-.
        split; [exact A|split; [exact B|split; [exact C|split; [exact D|split; [intro; discriminate|intro; exact Ep]]]]]. }
  destruct FL as (F1 & F2 & F3 & F4 & F5 & F6).
  apply N.ltb_ge in E16.
  split; [exact E4|]. split; [exact F1|]. split; [exact F2|]. split; [exact F3|]. split; [exact F4|].
  split; [exact F5|]. split; [exact F6|].
  destruct a7 as [|ps| |]; simpl in E15; try discriminate. injection E15 as <-.
  split; [exact E16|].
  split.
  { intro Hm. rewrite Hm in E13. rewrite andb_true_r in E13. apply N.eqb_neq. exact E13. }
  split.
  { apply bytes_eqb_neq. exact E17. }
  intros m Em Hi. assert (a = m) as <-.
  { unfold as_map in *. destruct b; try discriminate. congruence. }
  rewrite Hi in E0, E6. simpl in E0, E6. injection E0 as <-.
  split; [exact E6|].
  exists a1. split; [exact E1|]. split; intro Hm; rewrite Hm; reflexivity.
Qed.

(* ------------------------------------------------------------ path containment *)

(* lexical resolution of a relative component list against a directory: "" and "." stay, ".."
   goes up (None = it would leave the directory), anything else goes down *)
Fixpoint resolve (stack : list bytes) (comps : list bytes) : option (list bytes) :=
  match comps with
  | [] => Some (rev stack)
  | c :: r =>
      if bytes_eqb c [] || bytes_eqb c [ch_dot] then resolve stack r
      else if bytes_eqb c [ch_dot; ch_dot] then
        match stack with [] => None | _ :: s => resolve s r end
      else resolve (c :: stack) r
  end.

(* [comps] names something strictly inside the directory it is resolved against, and every
   component is a single directory entry name (no '/' that the kernel would split, no NUL that
   would truncate the string) *)
Definition strictly_inside (comps : list bytes) : Prop :=
  exists s, resolve [] comps = Some s /\ s <> [] /\
  Forall (fun c => mem_byte ch_slash c = false /\ mem_byte 0 c = false) comps.

Lemma resolve_valid : forall comps stack,
  Forall (fun c => valid_comp c = true) comps -> resolve stack comps = Some (rev stack ++ comps).
Proof.
  induction comps as [|c r IH]; intros stack F; simpl.
  - rewrite app_nil_r. reflexivity.
  - inversion F as [|? ? Hc Fr]; subst.
    destruct (valid_comp_facts c Hc) as (N1 & N2 & N3 & _ & _).
    apply bytes_eqb_neq in N1, N2, N3. rewrite N1, N2, N3. simpl.
    rewrite IH by exact Fr. simpl. rewrite <- app_assoc. reflexivity.
Qed.

Lemma valid_path_inside : forall p, valid_path p -> strictly_inside p.
Proof.
  intros p [Hn F]. exists p. split; [apply (resolve_valid p [] F)|]. split; [exact Hn|].
  rewrite Forall_forall in *. intros c Hc. destruct (valid_comp_facts c (F c Hc)) as (_ & _ & _ & A & B). auto.
Qed.

(* every file the download will ever open: its frozen path is  root' / c1 / ... / ck  where
   root' = set_root_dir(root) and c1..ck resolve strictly inside root' *)
Theorem paths_contained : forall b u d root f,
  load H b u = LOk d -> In f (d_files d) ->
  frozen_path (set_root_dir root) f = set_root_dir root ++ path_as_string (f_path f) /\
  strictly_inside (f_path f) /\ strictly_inside [d_name d].
Proof.
  intros b u d root f Hl Hin.
  destruct (load_inv _ _ _ Hl) as (Hn & Fo & _).
  destruct Fo as [_ Fv _ _ _]. rewrite Forall_forall in Fv. specialize (Fv f Hin).
  split; [|split].
  - unfold frozen_path. destruct Fv as [Hne F].
    match goal with |- context [match ?x with _ => _ end] => destruct x as [|c r] eqn:Er end; [reflexivity|].
    destruct c; [|reflexivity]. exfalso.
    assert (Hin' : In [] (f_path f)).
    { match type of Er with ?x = _ => assert (Hr : In [] x) by (rewrite Er; left; reflexivity) end.
      apply in_rev. exact Hr. }
    rewrite Forall_forall in F. specialize (F _ Hin'). vm_compute in F. discriminate.
  - apply valid_path_inside. exact Fv.
  - apply valid_path_inside. split; [discriminate|]. constructor; [exact Hn|constructor].
Qed.

Theorem no_dup_no_prefix : forall b u d,
  load H b u = LOk d -> no_prefix (map f_path (d_files d)).
Proof. intros b u d Hl. destruct (load_inv _ _ _ Hl) as (_ & Fo & _). destruct Fo; assumption. Qed.

Theorem sizes_sum : forall b u d,
  load H b u = LOk d ->
  offsets_from 0 (d_files d) /\ sum_size (d_files d) = d_size d /\
  (d_multi d = true -> d_size d < two63) /\ (d_meta d = false -> d_size d <> 0).
Proof.
  intros b u d Hl. destruct (load_inv _ _ _ Hl) as (_ & Fo & _ & _ & _ & Hb & _ & _ & Hz & _).
  destruct Fo. auto.
Qed.

(* what the loader does guarantee about the piece count *)
Theorem piece_count_guarantee : forall b u d,
  load H b u = LOk d ->
  d_chunk_size d <> 0 /\
  d_chunks d = ((d_size d + d_chunk_size d - 1) mod two64 / d_chunk_size d) mod two32 /\
  20 * d_chunks d <= N.of_nat (length (d_pieces d)) /\
  Forall (fun f => (f_r1 f, f_r2 f) = set_range (f_offset f) (f_size f) (d_chunk_size d)) (d_files d).
Proof.
  intros b u d Hl. destruct (load_inv _ _ _ Hl) as (_ & _ & Hc & Hcs & Hr & _ & _ & Hp & _).
  split; [exact Hcs|]. split; [exact Hc|]. split; [|exact Hr].
  pose proof (N.mul_div_le (N.of_nat (length (d_pieces d))) 20). lia.
Qed.

(* ... and below 2^32 pieces the count is the exact ceiling *)
Theorem piece_count_matches_small : forall b u d,
  load H b u = LOk d -> d_size d < two63 -> d_chunk_size d < two32 ->
  (d_size d + d_chunk_size d - 1) / d_chunk_size d < two32 ->
  d_chunks d = (d_size d + d_chunk_size d - 1) / d_chunk_size d.
Proof.
  intros b u d Hl Hs Hcs Hsmall. destruct (piece_count_guarantee _ _ _ Hl) as (Hz & Hc & _).
  rewrite Hc. rewrite (N.mod_small (d_size d + d_chunk_size d - 1)).
  - apply N.mod_small. exact Hsmall.
  - unfold two63, two32, two64 in *. lia.
Qed.

Theorem infohash_canonical : forall b u d m,
  load H b u = LOk d -> as_map b = LOk m -> has_key_map m k_info = true ->
  exists info_v, get_key m k_info = LOk info_v /\
    (d_meta d = false -> d_infohash d = H (enc info_v)) /\
    (d_meta d = true -> d_infohash d = d_pieces d).
Proof.
  intros b u d m Hl Em Hi.
  destruct (load_inv _ _ _ Hl) as (_ & _ & _ & _ & _ & _ & _ & _ & _ & _ & Hh).
  destruct (Hh m Em Hi) as [_ X]. exact X.
Qed.

Theorem unordered_rejected : forall b d m,
  as_map b = LOk m -> has_key_map m k_info = true -> load H b true <> LOk d.
Proof.
  intros b d m Em Hi Hl.
  destruct (load_inv _ _ _ Hl) as (_ & _ & _ & _ & _ & _ & _ & _ & _ & _ & Hh).
  destruct (Hh m Em Hi) as [X _]. discriminate.
Qed.

Theorem infohash_never_zero : forall b u d, load H b u = LOk d -> d_infohash d <> zero_hash.
Proof. intros b u d Hl. destruct (load_inv _ _ _ Hl) as (_ & _ & _ & _ & _ & _ & _ & _ & _ & Hz & _). exact Hz. Qed.

End Main.

(* ------------------------------------------------------------ refutations (computed witnesses).
   H0 stands for SHA-1 in these closed computations; the behaviour shown does not depend on the
   hash value (only on it being non-zero). The same inputs are in gen/c08.py's hand list and are
   replayed on the real code by every run. *)
Definition H0 (_ : bytes) : bytes := repeat 1 20.

Definition mk_single (len pl : Z) (pieces : bytes) : value :=
  VMap [(k_info, VMap [(k_length, VInt len); (k_name, VStr [120]); (k_piece_length, VInt pl); (k_pieces, VStr pieces)])].

(* C08-a: a declared length of 2^32 * 2048 bytes yields ZERO pieces and passes with no hashes *)
Theorem piece_count_matches_refuted :
  exists b d, load H0 b false = LOk d /\
    d_chunks d <> (d_size d + d_chunk_size d - 1) / d_chunk_size d /\ d_pieces d = [] /\ d_chunks d = 0.
Proof.
  exists (mk_single 8796093022208 2048 []). eexists. split; [vm_compute; reflexivity|].
  split; [vm_compute; discriminate|]. split; reflexivity.
Qed.

(* C08-b: surplus and ragged 'pieces' strings are accepted *)
Theorem pieces_length_exact_refuted :
  exists b d, load H0 b false = LOk d /\ d_chunks d = 1 /\ N.of_nat (length (d_pieces d)) = 41.
Proof.
  exists (mk_single 100 2048 (repeat 17 41)). eexists. split; [vm_compute; reflexivity|].
  split; reflexivity.
Qed.

(* the all-zero info hash makes the loader throw internal_error (tracker::Manager::add_controller):
   "never anything but an input error" is false of the code as it is *)
Definition magnet_zero : bytes :=
  magnet_prefix ++ [120;116;61] ++ urn_btih ++ repeat 65 32.     (* magnet:?xt=urn:btih:AAAA...A *)

Theorem load_total_refuted : forall H, load_uri H magnet_zero = LErr EInternal.
Proof. intro H. vm_compute. reflexivity. Qed.

(* non-vacuity examples *)
Example ex_single_loads : exists d, load H0 (mk_single 100 2048 (repeat 17 20)) false = LOk d /\ d_chunks d = 1.
Proof. eexists. split; vm_compute; reflexivity. Qed.

Definition mk_multi (files : list (Z * list bytes)) : value :=
  VMap [(k_info, VMap [(k_files, VList (map (fun f => VMap [(k_length, VInt (fst f)); (k_path, VList (map VStr (snd f)))]) files));
                       (k_name, VStr [116]); (k_piece_length, VInt 2048); (k_pieces, VStr (repeat 17 20))])].

Example ex_multi_loads : exists d, load H0 (mk_multi [(10%Z, [[97];[98]]); (20%Z, [[99]])]) false = LOk d /\ d_multi d = true /\ length (d_files d) = 2%nat.
Proof. eexists. split; [vm_compute; reflexivity|]. split; reflexivity. Qed.

Example ex_dotdot_rejected : load H0 (mk_multi [(10%Z, [[46;46];[98]])]) false = LErr EInput.
Proof. vm_compute. reflexivity. Qed.
Example ex_prefix_rejected : load H0 (mk_multi [(10%Z, [[97];[98]]); (1%Z, [[122]]); (20%Z, [[97]])]) false = LErr EInput.
Proof. vm_compute. reflexivity. Qed.
Example ex_unordered_rejected : load H0 (mk_single 100 2048 (repeat 17 20)) true = LErr EInput.
Proof. vm_compute. reflexivity. Qed.
Example ex_has_info : has_info (mk_single 100 2048 (repeat 17 20)).
Proof. eexists. split; reflexivity. Qed.

(* magnet: the three hash encodings decode to the same 20 bytes *)
Definition h_example : bytes := [0;16;131;16;81;135;32;146;139;48;211;143;65;20;147;81;85;97;89;230].
Example ex_base32 : parse_base32_sha1 (map (fun c => c) [65;66;67;68;69;70;71;72;73;74;75;76;77;78;79;80;81;82;83;84;85;86;87;88;89;90;50;51;52;53;54;55])
  = Some ([0;68;50;20;199;66;84;182;53;207;132;101;58;86;215;198;117;190;119;223], []).
Proof. vm_compute. reflexivity. Qed.
Example ex_magnet_b32_loads : exists d, load_uri H0 (magnet_prefix ++ [120;116;61] ++ urn_btih ++ repeat 66 32) = LOk d /\ d_meta d = true.
Proof. eexists. split; vm_compute; reflexivity. Qed.
