(* C08 — tokenisation: how the kernel's path walk splits a path STRING into components ('/'
   separates, empty components vanish), and the lemma that ties the component lists of the
   theorems to the frozen path strings the library hands to open()/mkdir(). *)
From Coq Require Import List NArith ZArith Bool Lia.
From LTV Require Import Common.Bytes.
From LTV.C08 Require Import Model ProofsOrder ProofsLoad.
Import ListNotations.
Local Open Scope N_scope.

Fixpoint tok (s : bytes) (cur : bytes) : list bytes :=
  match s with
  | [] => match cur with [] => [] | _ => [rev cur] end
  | c :: s' =>
      if c =? ch_slash
      then match cur with [] => tok s' [] | _ => rev cur :: tok s' [] end
      else tok s' (c :: cur)
  end.
Definition tokens (s : bytes) : list bytes := tok s [].

Lemma tok_comp : forall c s cur, mem_byte ch_slash c = false -> tok (c ++ s) cur = tok s (rev c ++ cur).
Proof.
  induction c as [|x c IH]; intros s cur Hc; simpl; [reflexivity|].
  unfold mem_byte in Hc. simpl in Hc. apply orb_false_iff in Hc. destruct Hc as [H1 H2].
  rewrite H1. rewrite IH by exact H2. rewrite <- app_assoc. reflexivity.
Qed.

Lemma tok_path : forall p cur,
  Forall (fun c => valid_comp c = true) p ->
  tok (path_as_string p) cur = match cur with [] => [] | _ => [rev cur] end ++ p.
Proof.
  induction p as [|c p IH]; intros cur F.
  - simpl. destruct cur; reflexivity.
  - inversion F as [|? ? Hc Fp]; subst.
    destruct (valid_comp_facts c Hc) as (Hne & _ & _ & Hs & _).
    change (path_as_string (c :: p)) with (ch_slash :: c ++ path_as_string p).
    cbn [tok]. change (ch_slash =? ch_slash) with true. cbv iota.
    assert (E : tok (c ++ path_as_string p) [] = c :: p).
    { rewrite tok_comp by exact Hs. rewrite app_nil_r. rewrite IH by exact Fp.
      destruct (rev c) eqn:Er.
      - exfalso. apply Hne. rewrite <- (rev_involutive c). rewrite Er. reflexivity.
      - rewrite <- Er. rewrite rev_involutive. reflexivity. }
    destruct cur; rewrite E; reflexivity.
Qed.

Lemma tok_app_slash : forall r s cur, tok (r ++ ch_slash :: s) cur = tok r cur ++ tok s [].
Proof.
  induction r as [|c r IH]; intros s cur; simpl.
  - change (ch_slash =? ch_slash) with true. cbv iota. destruct cur; reflexivity.
  - destruct (c =? ch_slash).
    + destruct cur; rewrite IH; reflexivity.
    + apply IH.
Qed.

(* a root-relative component list, joined by Path::as_string and appended to the root string,
   is walked by the kernel as: the root's components, then exactly those components *)
Theorem tokens_frozen : forall root p,
  p <> [] -> Forall (fun c => valid_comp c = true) p ->
  tokens (root ++ path_as_string p) = tokens root ++ p.
Proof.
  intros root p Hne F. destruct p as [|c p]; [congruence|].
  change (path_as_string (c :: p)) with (ch_slash :: c ++ path_as_string p).
  unfold tokens. rewrite tok_app_slash. f_equal.
  inversion F as [|? ? Hc Fp]; subst.
  destruct (valid_comp_facts c Hc) as (Hne' & _ & _ & Hs & _).
  rewrite tok_comp by exact Hs. rewrite app_nil_r. rewrite tok_path by exact Fp.
  destruct (rev c) eqn:Er.
  - exfalso. apply Hne'. rewrite <- (rev_involutive c). rewrite Er. reflexivity.
  - rewrite <- Er. rewrite rev_involutive. reflexivity.
Qed.

(* no NUL byte in the joined string: the C string the kernel sees is the whole string *)
Lemma no_nul_path : forall p, Forall (fun c => valid_comp c = true) p -> mem_byte 0 (path_as_string p) = false.
Proof.
  induction p as [|c p IH]; intro F; [reflexivity|].
  inversion F as [|? ? Hc Fp]; subst.
  destruct (valid_comp_facts c Hc) as (_ & _ & _ & _ & Hz).
  change (path_as_string (c :: p)) with (ch_slash :: c ++ path_as_string p).
  unfold mem_byte in *. simpl. rewrite existsb_app. rewrite Hz. simpl. apply IH. exact Fp.
Qed.

Example ex_tokens : tokens [47;97;47;47;98;99;47] = [[97];[98;99]].
Proof. reflexivity. Qed.
