From Coq Require Import Extraction ExtrOcamlBasic.
From LTV.C07 Require Import Model.
From LTV.C08 Require Import Model.
Set Extraction Optimize.
Extraction Language OCaml.
Extraction "extracted/c08_model.ml" load_tree load_uri load_bytes open_paths inode_list magnet_branches policy_ok default_policy.
