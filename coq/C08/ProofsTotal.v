(* C08 — load_total: the loader model never returns LFault (a dereference outside a checked
   range) nor LErr EInternal (an internal_error of the library), for ALL inputs. *)
From Coq Require Import List NArith ZArith Bool Lia ZifyBool ZifyNat ZifyN.
From LTV Require Import Common.Bytes.
From LTV.C07 Require Import Model.
From LTV.C08 Require Import Model ProofsOrder ProofsLoad.
Import ListNotations.
Local Open Scope N_scope.

Definition is_bad {A} (r : lres A) : bool :=
  match r with LFault => true | LErr EInternal => true | LErr EStorage => true | _ => false end.

Lemma bind_nb : forall A B (r : lres A) (f : A -> lres B),
  is_bad r = false -> (forall a, r = LOk a -> is_bad (f a) = false) -> is_bad (bind r f) = false.
Proof. intros A B r f H1 H2. destruct r as [a|e|]; simpl in *; auto. Qed.

Lemma as_map_nb : forall v, is_bad (as_map v) = false. Proof. destruct v; reflexivity. Qed.
Lemma as_list_nb : forall v, is_bad (as_list v) = false. Proof. destruct v; reflexivity. Qed.
Lemma as_string_nb : forall v, is_bad (as_string v) = false. Proof. destruct v; reflexivity. Qed.
Lemma as_value_nb : forall v, is_bad (as_value v) = false. Proof. destruct v; reflexivity. Qed.
Lemma get_key_nb : forall m k, is_bad (get_key m k) = false.
Proof. intros. unfold get_key. destruct (lookup k m); reflexivity. Qed.
Global Hint Resolve as_map_nb as_list_nb as_string_nb as_value_nb get_key_nb : c08nb.

Ltac nb :=
  repeat first
    [ reflexivity
    | apply bind_nb; [ solve [auto with c08nb] | intros ? ? ]
    | match goal with
      | |- is_bad (if ?c then _ else _) = false => destruct c eqn:?
      | |- is_bad (match ?x with _ => _ end) = false => destruct x eqn:?
      end ].

Lemma create_path_nb : forall pl, is_bad (create_path pl) = false.
Proof. intro pl. unfold create_path. nb. Qed.
Global Hint Resolve create_path_nb : c08nb.

Lemma parse_file_entry_nb : forall o total, is_bad (parse_file_entry o total) = false.
Proof.
  intros o total. unfold parse_file_entry.
  apply bind_nb; [auto with c08nb|]. intros om _.
  apply bind_nb.
  { unfold has_key_list. destruct (lookup k_path om) as [[]|]; try reflexivity. apply create_path_nb. }
  intros p _. nb.
Qed.
Global Hint Resolve parse_file_entry_nb : c08nb.

Lemma parse_entries_nb : forall l total acc, is_bad (parse_entries l total acc) = false.
Proof.
  induction l as [|o l IH]; intros total acc; simpl; [reflexivity|].
  apply bind_nb; [auto with c08nb|]. intros [[[len p] pad] t'] _. apply IH.
Qed.
Global Hint Resolve parse_entries_nb : c08nb.

(* verify_file_list's check 3 cannot fire once the prefix check has passed *)
Lemma match_depth_prefix : forall a b,
  (match_depth a b <? N.of_nat (length a)) = false -> path_is_prefix a b = true.
Proof.
  induction a as [|x a IH]; intros b H; [reflexivity|].
  apply N.ltb_ge in H. rewrite (Nat2N.inj_succ (length a)) in H || change (length (x :: a)) with (S (length a)) in H.
  destruct b as [|y b]; cbn [match_depth path_is_prefix] in *.
  - change (length (x :: a)) with (S (length a)) in H. lia.
  - change (length (x :: a)) with (S (length a)) in H.
    destruct (bytes_eqb x y) eqn:E; cbn [andb]; [|lia].
    apply IH. apply N.ltb_ge. lia.
Qed.

Lemma verify_depths_no_prefix : forall fs, no_prefix (map f_path fs) -> verify_depths fs = true.
Proof.
  induction fs as [|a fs IH]; intro Hn; [reflexivity|].
  destruct fs as [|b fs']; [reflexivity|].
  change (verify_depths (a :: b :: fs')) with
    ((match_depth (f_path a) (f_path b) <? N.of_nat (length (f_path a))) && verify_depths (b :: fs')).
  inversion Hn as [|? ? F Hn']; subst.
  rewrite IH by exact Hn'. rewrite andb_true_r.
  destruct (match_depth (f_path a) (f_path b) <? N.of_nat (length (f_path a))) eqn:E; [reflexivity|].
  apply match_depth_prefix in E. simpl in F. inversion F as [|? ? [U _] _]; subst. congruence.
Qed.

Lemma parse_multi_files_nb : forall fv cs, cs <> 0 -> is_bad (parse_multi_files fv cs) = false.
Proof.
  intros fv cs Hcs. unfold parse_multi_files.
  apply bind_nb; [auto with c08nb|]. intros l _.
  destruct l as [|o l]; [reflexivity|].
  apply bind_nb; [auto with c08nb|]. intros [splits tz] Ep.
  destruct (adjacent_prefix (sort_paths (map (fun s : N * path * bool => snd (fst s)) splits))) eqn:Eadj; [reflexivity|].
  unfold fl_initialize_check. apply N.eqb_neq in Hcs. rewrite Hcs.
  destruct (two32 - 1 <? u64 (Z.to_N tz + cs - 1) / cs); [reflexivity|].
  destruct (parse_entries_ok _ _ _ _ _ Ep) as (new & Es & Ln & Fn & Et & Lt).
  { unfold int64_max_z. lia. }
  simpl in Es. subst splits.
  assert (Hsum : Z.to_N tz = sum_len new) by lia.
  assert (Hb : sum_len new < two63) by (unfold two63; unfold int64_max_z in Lt; lia).
  destruct (split_files_ok new 0 cs) as (A & B & C & D & E & F & G).
  { unfold two64. unfold two63 in Hb. lia. }
  rewrite D. rewrite Hsum.
  assert (Eu : u64 (0 + sum_len new) = 0 + sum_len new).
  { unfold u64. apply N.mod_small. unfold two64. unfold two63 in Hb. lia. }
  rewrite Eu. rewrite N.eqb_refl. simpl.
  rewrite verify_depths_no_prefix; [reflexivity|].
  rewrite A. apply adjacent_check_sound. exact Eadj.
Qed.

Lemma parse_single_file_nb : forall im cs, cs <> 0 -> is_bad (parse_single_file im cs) = false.
Proof.
  intros im cs Hcs. unfold parse_single_file. apply N.eqb_neq in Hcs.
  apply bind_nb; [auto with c08nb|]. intros nv _.
  destruct (negb (valid_elem nv)); [reflexivity|].
  apply bind_nb.
  { destruct (cs =? 1); [reflexivity|]. apply bind_nb; auto with c08nb. }
  intros len _. destruct (len <? 0)%Z; [reflexivity|].
  unfold fl_initialize_check. rewrite Hcs.
  destruct (two32 - 1 <? u64 (Z.to_N len + cs - 1) / cs); [reflexivity|].
  apply bind_nb; [auto with c08nb|]. intros name _.
  destruct (path_push_back [] name); reflexivity.
Qed.

(* ------------------------------------------------------------ magnet URIs *)

Lemma url_decode_ok : forall n pos acc, (length pos <= n)%nat ->
  is_bad (url_decode pos acc) = false /\
  (forall d next, url_decode pos acc = LOk (d, next) -> (length next <= length pos)%nat).
Proof.
  induction n as [|n IH]; intros pos acc Hn.
  - destruct pos; [|simpl in Hn; lia]. simpl. split; [reflexivity|]. intros d next H. inversion H. auto.
  - destruct pos as [|c pos']; simpl.
    { split; [reflexivity|]. intros d next H. inversion H. auto. }
    simpl in Hn.
    destruct (c =? ch_pct).
    + destruct (N.of_nat (length pos') <? 2) eqn:El.
      { split; [reflexivity|]. intros; discriminate. }
      apply N.ltb_ge in El.
      destruct pos' as [|h [|l pos'']]; simpl in El; try lia.
      destruct (hex_val h); [|split; [reflexivity|intros; discriminate]].
      destruct (hex_val l); [|split; [reflexivity|intros; discriminate]].
      destruct (IH pos'' ((n0 * 16 + n1) mod 256 :: acc)) as [A B]; [simpl in Hn; lia|].
      split; [exact A|]. intros d next H. apply B in H. simpl. lia.
    + destruct (c =? ch_amp).
      { split; [reflexivity|]. intros d next H. inversion H; subst. lia. }
      destruct (IH pos' (c :: acc)) as [A B]; [lia|].
      split; [exact A|]. intros d next H. apply B in H. lia.
Qed.

Lemma span_eq_len : forall pos acc t r, span_eq pos acc = (t, r) -> (length r <= length pos)%nat.
Proof.
  induction pos as [|c pos IH]; intros acc t r H; simpl in H.
  - inversion H. auto.
  - destruct (c =? ch_eq).
    + inversion H; subst. auto.
    + apply IH in H. simpl. lia.
Qed.

Lemma b32_loop_len : forall pos out sh dec h next,
  b32_loop pos out sh dec = Some (h, next) -> (length next <= length pos)%nat.
Proof.
  induction pos as [|c pos IH]; intros out sh dec h next H; simpl in H.
  - unfold b32_finish in H. destruct (_ || _); inversion H. auto.
  - destruct (b32_val c).
    + destruct (b32_step sh dec n) as [[[byte|] sh'] dec'].
      * destruct (N.of_nat (length out) =? hash_size); [discriminate|]. apply IH in H. simpl. lia.
      * apply IH in H. simpl. lia.
    + destruct (c =? ch_amp); [|discriminate].
      unfold b32_finish in H. destruct (_ || _); inversion H; subst. simpl. lia.
Qed.

Lemma skipn_len : forall (A : Type) n (l : list A), (length (skipn n l) <= length l)%nat.
Proof. intros. rewrite skipn_length. lia. Qed.

(* fuel sufficiency: every round consumes at least the '=' *)
Lemma magnet_loop_nb : forall rf fuel pos hash tr, (length pos < fuel)%nat ->
  is_bad (magnet_loop rf fuel pos hash tr) = false.
Proof.
  intro rf. induction fuel as [|f IH]; intros pos hash tr Hf; [lia|].
  cbn [magnet_loop]. destruct pos as [|c0 pos0] eqn:Epos; [reflexivity|]. rewrite <- Epos in *. clear Epos c0 pos0.
  destruct (span_eq pos []) as [tag rest] eqn:Es. cbv beta iota zeta.
  pose proof (span_eq_len _ _ _ _ Es) as Lr.
  destruct rest as [|e pos1]; [reflexivity|]. cbn [length] in Lr.
  assert (L1 : (length pos1 < f)%nat) by lia.
  match goal with |- is_bad (if ?c then _ else _) = false => destruct c end; [reflexivity|].
  pose proof (skipn_len _ 9 pos1) as L2.
  set (is_ih := bytes_eqb tag tag_xt && negb ((N.of_nat (length pos1) <? 9) || negb (bytes_eqb (firstn 9 pos1) urn_btih))).
  set (pos2 := if is_ih then skipn 9 pos1 else pos1).
  assert (Lp : (length pos2 <= length pos1)%nat) by (unfold pos2; destruct is_ih; lia).
  destruct (if is_ih then parse_base32_sha1 pos2 else None) as [[h next]|] eqn:Eb.
  - apply IH. destruct is_ih; [|discriminate]. apply b32_loop_len in Eb. lia.
  - destruct (url_decode_ok (length pos2) pos2 [] (le_n _)) as [A B].
    apply bind_nb; [exact A|]. intros [decoded next] Eu. apply B in Eu.
    destruct is_ih.
    + destruct (N.of_nat (length decoded) =? hash_size); [apply IH; lia|].
      destruct (N.of_nat (length decoded) =? 2 * hash_size); [|reflexivity].
      destruct (from_hex decoded); [apply IH; lia|reflexivity].
    + destruct (bytes_eqb tag tag_tr); apply IH; lia.
Qed.

Lemma parse_magnet_hash_nb : forall rf uri, is_bad (parse_magnet_hash rf uri) = false.
Proof.
  intros rf uri. unfold parse_magnet_hash.
  destruct (negb (bytes_eqb (firstn 8 uri) magnet_prefix)); [reflexivity|].
  apply bind_nb.
  - apply magnet_loop_nb. pose proof (skipn_len _ 8 uri). lia.
  - intros [h t] _. simpl. destruct h; reflexivity.
Qed.

Lemma parse_magnet_uri_nb : forall rf m uri, is_bad (parse_magnet_uri rf m uri) = false.
Proof.
  intros rf m uri. unfold parse_magnet_uri.
  apply bind_nb; [apply parse_magnet_hash_nb|]. intros [h trackers] _.
  destruct trackers; reflexivity.
Qed.

Lemma parse_tracker_nb : forall m, is_bad (parse_tracker m) = false.
Proof. intro m. unfold parse_tracker. nb. Qed.
Global Hint Resolve parse_magnet_uri_nb parse_tracker_nb : c08nb.

(* ------------------------------------------------------------ the loader *)

Lemma piece_length_cs_nonzero : forall pol pl, policy_ok pol = true ->
  (pl <=? Z.of_N (pl_min pol))%Z || (pl >? Z.of_N (pl_max pol))%Z = false ->
  u32 (Z.to_N pl) <> 0.
Proof.
  intros pol pl Hp H. apply orb_false_iff in H. destruct H as [H1 H2].
  unfold policy_ok in Hp. apply N.ltb_lt in Hp.
  unfold u32. rewrite N.mod_small; unfold two32 in *; lia.
Qed.

Theorem load_total : forall (H : bytes -> bytes) pol b u, policy_ok pol = true -> is_bad (load H pol b u) = false.
Proof.
  intros H pol b u Hpol. unfold load.
  apply bind_nb; [auto with c08nb|]. intros m0 _.
  apply bind_nb.
  { destruct (negb (has_key_map m0 k_info) && has_key_string m0 k_magnet) eqn:E; [|reflexivity].
    apply andb_true_iff in E. destruct E as [_ E]. unfold has_key_string in E.
    destruct (lookup k_magnet m0) as [[]|]; try discriminate. apply parse_magnet_uri_nb. }
  intros m _.
  apply bind_nb; [auto with c08nb|]. intros info_v _.
  apply bind_nb; [auto with c08nb|]. intros im _.
  apply bind_nb; [auto with c08nb|]. intros nv _.
  destruct (negb (valid_elem nv)); [reflexivity|].
  apply bind_nb; [auto with c08nb|]. intros name _.
  match goal with |- is_bad (if ?c then _ else _) = false => destruct c end; [reflexivity|].
  apply bind_nb.
  { match goal with |- is_bad (if ?c then _ else _) = false => destruct c end.
    - destruct (has_key im k_length || has_key im k_files); [reflexivity|].
      apply bind_nb; [auto with c08nb|]. intros pv _.
      apply bind_nb; [auto with c08nb|]. intros ps _.
      destruct (negb (N.of_nat (length ps) =? hash_size)); [reflexivity|].
      apply bind_nb; [apply parse_single_file_nb; discriminate|]. intros; reflexivity.
    - apply bind_nb; [auto with c08nb|]. intros plv _.
      apply bind_nb; [auto with c08nb|]. intros pl _.
      match goal with |- is_bad (if ?c then _ else _) = false => destruct c end; reflexivity. }
  intros [cs pre] Est.
  (* cs <> 0 whichever way it was obtained *)
  assert (Hcs : cs <> 0).
  { match type of Est with (if ?c then _ else _) = _ => destruct c end.
    - inv_all Est. inversion Est; subst. discriminate.
    - inv_all Est. inversion Est; subst. eapply piece_length_cs_nonzero; [exact Hpol | assumption]. }
  apply bind_nb.
  { destruct (has_key im k_length).
    - apply bind_nb; [apply parse_single_file_nb; exact Hcs|]. intros; reflexivity.
    - destruct (has_key im k_files).
      + apply bind_nb; [auto with c08nb|]. intros fv _.
        apply bind_nb; [apply parse_multi_files_nb; exact Hcs|]. intros; reflexivity.
      + destruct pre; reflexivity. }
  intros [[[files total] chunks] multi] _.
  match goal with |- is_bad (if ?c then _ else _) = false => destruct c end; [reflexivity|].
  apply bind_nb; [auto with c08nb|]. intros pv _.
  apply bind_nb; [auto with c08nb|]. intros pieces _.
  match goal with |- is_bad (if ?c then _ else _) = false => destruct c end; [reflexivity|].
  match goal with |- is_bad (if ?c then _ else _) = false => destruct c eqn:Ez end; [reflexivity|].
  apply bind_nb; [auto with c08nb|]. intros; reflexivity.
Qed.

(* in words *)
Corollary load_total_cases : forall (H : bytes -> bytes) pol b u, policy_ok pol = true ->
  (exists d, load H pol b u = LOk d) \/ load H pol b u = LErr EInput \/ load H pol b u = LErr EBencode.
Proof.
  intros H pol b u Hpol. pose proof (load_total H pol b u Hpol) as T.
  destruct (load H pol b u) as [d|[]|]; simpl in T; try discriminate; eauto.
Qed.
