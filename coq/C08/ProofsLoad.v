(* C08 — facts about the loader model: inversion of the parsing functions, path validity,
   sizes, the prefix check, piece count, info hash. *)
From Coq Require Import List NArith ZArith Bool Lia Sorting.Sorted Sorting.Permutation.
From LTV Require Import Common.Bytes.
From LTV.C07 Require Import Model.
From LTV.C08 Require Import Model ProofsOrder.
Import ListNotations.
Local Open Scope N_scope.

(* one inversion step on a hypothesis  <monadic term> = LOk _ *)
Ltac inv_step H :=
  match type of H with
  | bind ?r _ = LOk _ => let E := fresh "E" in destruct r eqn:E; cbn [bind] in H; try discriminate H
  | (if ?c then _ else _) = LOk _ => let E := fresh "E" in destruct c eqn:E; try discriminate H
  | (let '(_, _) := ?x in _) = LOk _ => let E := fresh "E" in destruct x eqn:E
  | (match ?x with _ => _ end) = LOk _ => let E := fresh "E" in destruct x eqn:E; try discriminate H
  end.
Ltac inv_all H := repeat inv_step H.

(* ------------------------------------------------------------ path components *)

Lemma split_aux_noslash : forall s cur, mem_byte ch_slash s = false -> split_aux s cur = [rev cur ++ s].
Proof.
  induction s as [|c s IH]; intros cur H; simpl.
  - rewrite app_nil_r. reflexivity.
  - unfold mem_byte in H. simpl in H. apply orb_false_iff in H. destruct H as [H1 H2].
    rewrite H1. rewrite IH by exact H2. simpl. rewrite <- app_assoc. reflexivity.
Qed.

Lemma valid_comp_facts : forall s, valid_comp s = true ->
  s <> [] /\ s <> [ch_dot] /\ s <> [ch_dot; ch_dot] /\ mem_byte ch_slash s = false /\ mem_byte 0 s = false.
Proof.
  intros s H. unfold valid_comp in H.
  repeat (apply andb_true_iff in H; destruct H as [H ?]).
  repeat match goal with X : negb _ = true |- _ => apply negb_true_iff in X end.
  repeat split; try assumption; intro E; subst s; simpl in *; discriminate.
Qed.

Lemma push_back_valid : forall p s, valid_comp s = true -> path_push_back p s = p ++ [s].
Proof.
  intros p s H. destruct (valid_comp_facts s H) as (Hn & _ & _ & Hs & _).
  unfold path_push_back, split_slash. destruct s as [|c s]; [congruence|].
  rewrite split_aux_noslash by exact Hs. reflexivity.
Qed.

Definition valid_path (p : path) : Prop := p <> [] /\ Forall (fun c => valid_comp c = true) p.

Lemma create_path_fold : forall pl acc,
  forallb valid_elem pl = true -> Forall (fun c => valid_comp c = true) acc ->
  let r := fold_left (fun p v => match v with VStr s => path_push_back p s | _ => p end) pl acc in
  Forall (fun c => valid_comp c = true) r /\ length r = (length acc + length pl)%nat.
Proof.
  induction pl as [|v pl IH]; intros acc Hv Ha; simpl.
  - split; auto.
  - simpl in Hv. apply andb_true_iff in Hv. destruct Hv as [Hv1 Hv2].
    destruct v; simpl in Hv1; try discriminate.
    rewrite push_back_valid by exact Hv1.
    destruct (IH (acc ++ [s]) Hv2) as [F L].
    { apply Forall_app. split; auto. }
    split; [exact F|]. rewrite L. rewrite app_length. simpl. lia.
Qed.

Lemma create_path_ok : forall pl p, create_path pl = LOk p -> valid_path p.
Proof.
  intros pl p H. unfold create_path in H. destruct pl as [|v pl]; [discriminate|].
  destruct (forallb valid_elem (v :: pl)) eqn:E; [|discriminate].
  destruct (create_path_fold (v :: pl) [] E (Forall_nil _)) as [F L]. cbv zeta in F, L.
  simpl in F, L. injection H as Hp. simpl in Hp. rewrite Hp in F, L.
  split; [|exact F]. intro C. rewrite C in L. simpl in L. lia.
Qed.

(* ------------------------------------------------------------ "files" entries *)

Lemma parse_file_entry_ok : forall o total len p pad total',
  parse_file_entry o total = LOk (len, p, pad, total') ->
  valid_path p /\
  ((0 <= total <= int64_max_z)%Z -> (total' = total + Z.of_N len /\ total' <= int64_max_z)%Z).
Proof.
  intros o total len p pad total' H. unfold parse_file_entry in H.
  destruct (as_map o) as [om| |] eqn:Eo; cbn [bind] in H; try discriminate.
  destruct (has_key_list om k_path) eqn:Ehk.
  - destruct (lookup k_path om) as [[| |pl|]|] eqn:El; cbn [bind] in H; try discriminate.
    destruct (create_path pl) as [pp| |] eqn:Ec; cbn [bind] in H; try discriminate.
    destruct pp as [|c pq] eqn:Ep0; [discriminate|].
    destruct (get_key om k_length) as [lv| |]; cbn [bind] in H; try discriminate.
    destruct (as_value lv) as [z| |]; cbn [bind] in H; try discriminate.
    destruct ((z <? 0)%Z || (z >? int64_max_z - total)%Z) eqn:Eb; [discriminate|].
    inversion H; subst. clear H.
    apply orb_false_iff in Eb. destruct Eb as [B1 B2].
    split; [eapply create_path_ok; exact Ec|].
    intros Ht. rewrite Z2N.id by lia. lia.
  - cbn [bind] in H. discriminate.
Qed.

Definition split_t := (N * path * bool)%type.
Definition sp_len (s : split_t) : N := fst (fst s).
Definition sp_path (s : split_t) : path := snd (fst s).

Fixpoint sum_len (l : list split_t) : N :=
  match l with [] => 0 | s :: l' => sp_len s + sum_len l' end.

Lemma sum_len_app : forall a b, sum_len (a ++ b) = sum_len a + sum_len b.
Proof. induction a; intros; simpl; [reflexivity | rewrite IHa; lia]. Qed.

Lemma parse_entries_ok : forall l total acc splits total',
  parse_entries l total acc = LOk (splits, total') ->
  (0 <= total <= int64_max_z)%Z ->
  exists new, splits = rev acc ++ new /\ length new = length l /\
    Forall (fun s => valid_path (sp_path s)) new /\
    (total' = total + Z.of_N (sum_len new))%Z /\ (total' <= int64_max_z)%Z.
Proof.
  induction l as [|o l IH]; intros total acc splits total' H Ht; simpl in H.
  - inversion H; subst. exists []. rewrite app_nil_r. simpl. repeat split; auto; lia.
  - destruct (parse_file_entry o total) as [[[[len p] pad] t1]| |] eqn:E; cbn [bind] in H; try discriminate.
    destruct (parse_file_entry_ok _ _ _ _ _ _ E) as [Vp Hs]. destruct (Hs Ht) as [Et1 Lt1].
    destruct (IH t1 ((len, p, pad) :: acc) splits total' H) as (new & Es & Ln & Fn & Et & Lt).
    { lia. }
    exists ((len, p, pad) :: new). simpl in Es. rewrite <- app_assoc in Es. simpl in Es.
    split; [exact Es|]. split; [simpl; lia|]. split; [constructor; auto|]. split; [|exact Lt].
    simpl. unfold sp_len at 1. simpl. lia.
Qed.

(* ------------------------------------------------------------ split *)

Fixpoint sum_size (l : list file) : N :=
  match l with [] => 0 | f :: l' => f_size f + sum_size l' end.

(* offsets are the running sums starting at 'off' *)
Fixpoint offsets_from (off : N) (l : list file) : Prop :=
  match l with
  | [] => True
  | f :: l' => f_offset f = off /\ offsets_from (off + f_size f) l'
  end.

Lemma split_files_ok : forall l off cs,
  off + sum_len l < two64 ->
  let r := split_files l off cs in
  map f_path (fst r) = map sp_path l /\ map f_size (fst r) = map sp_len l /\
  map f_pad (fst r) = map (fun s : split_t => snd s) l /\
  snd r = off + sum_len l /\ offsets_from off (fst r) /\ sum_size (fst r) = sum_len l /\
  Forall (fun f => (f_r1 f, f_r2 f) = set_range (f_offset f) (f_size f) cs) (fst r).
Proof.
  induction l as [|[[sz p] pad] l IH]; intros off cs Hb; simpl.
  - repeat split; auto. lia.
  - simpl in Hb. unfold sp_len in Hb at 1. simpl in Hb.
    assert (Eu : u64 (off + sz) = off + sz).
    { unfold u64. apply N.mod_small. lia. }
    rewrite Eu.
    destruct (IH (off + sz) cs) as (A & B & C & D & E & F & G); [lia|].
    cbv zeta in *. simpl.
    split; [rewrite A; reflexivity|]. split; [rewrite B; reflexivity|]. split; [rewrite C; reflexivity|].
    split; [rewrite D; unfold sp_len; simpl; lia|].
    split; [split; [reflexivity | exact E]|].
    split; [rewrite F; unfold sp_len; simpl; reflexivity|].
    constructor; [|exact G]. unfold mk_file. simpl.
    destruct (set_range off sz cs); reflexivity.
Qed.

(* ------------------------------------------------------------ multi-file result *)

Definition two63 : N := 9223372036854775808.

Record files_ok (files : list file) (total : N) : Prop := {
  fo_nonempty : files <> [];
  fo_valid : Forall (fun f => valid_path (f_path f)) files;
  fo_no_prefix : no_prefix (map f_path files);
  fo_offsets : offsets_from 0 files;
  fo_sum : sum_size files = total }.

Lemma map_eq_nil_inv : forall (A B : Type) (f : A -> B) l, map f l = [] -> l = [].
Proof. destruct l; simpl; [reflexivity | discriminate]. Qed.

(* FileList::initialize let the sizes through *)
Definition fits (total cs : N) : Prop := cs <> 0 /\ u64 (total + cs - 1) / cs <= two32 - 1.

Lemma fl_initialize_check_none : forall total cs, fl_initialize_check total cs = None -> fits total cs.
Proof.
  intros total cs H. unfold fl_initialize_check in H.
  destruct (cs =? 0) eqn:E1; [discriminate|].
  destruct (two32 - 1 <? u64 (total + cs - 1) / cs) eqn:E2; [discriminate|].
  apply N.eqb_neq in E1. apply N.ltb_ge in E2. split; assumption.
Qed.

Lemma parse_multi_files_ok : forall fv cs files total chunks,
  parse_multi_files fv cs = LOk (files, total, chunks) ->
  files_ok files total /\ total < two63 /\ chunks = size_chunks_of total cs /\ fits total cs /\
  Forall (fun f => (f_r1 f, f_r2 f) = set_range (f_offset f) (f_size f) cs) files.
Proof.
  intros fv cs files total chunks H. unfold parse_multi_files in H.
  destruct (as_list fv) as [l| |] eqn:El; cbn [bind] in H; try discriminate.
  destruct l as [|o l]; [discriminate|].
  destruct (parse_entries (o :: l) 0%Z []) as [[splits tz]| |] eqn:Ep; cbn [bind] in H; try discriminate.
  destruct (adjacent_prefix (sort_paths (map (fun s : N * path * bool => snd (fst s)) splits))) eqn:Eadj; [discriminate|].
  destruct (fl_initialize_check (Z.to_N tz) cs) eqn:Ecs; [discriminate|].
  destruct (negb (snd (split_files splits 0 cs) =? u64 (0 + Z.to_N tz))) eqn:E1; [discriminate|].
  destruct (negb (verify_depths (fst (split_files splits 0 cs)))) eqn:E2; [discriminate|].
  inversion H; subst. clear H.
  destruct (parse_entries_ok _ _ _ _ _ Ep) as (new & Es & Ln & Fn & Et & Lt).
  { unfold int64_max_z. lia. }
  simpl in Es. subst splits.
  assert (Hsum : Z.to_N tz = sum_len new) by lia.
  assert (Hb : sum_len new < two63).
  { unfold two63. unfold int64_max_z in Lt. lia. }
  destruct (split_files_ok new 0 cs) as (A & B & C & D & E & F & G).
  { unfold two64. unfold two63 in Hb. lia. }
  apply fl_initialize_check_none in Ecs. rewrite Hsum in Ecs. destruct Ecs as [Ec1 Ec2].
  split; [constructor|]; [ | | | | | rewrite Hsum; repeat split; auto].
  - intro C0. rewrite C0 in A. simpl in A. symmetry in A. apply map_eq_nil_inv in A.
    subst new. simpl in Ln. discriminate.
  - assert (Fp : Forall valid_path (map f_path (fst (split_files new 0 cs)))).
    { rewrite A. rewrite Forall_map. exact Fn. }
    rewrite Forall_map in Fp. exact Fp.
  - rewrite A. apply adjacent_check_sound. exact Eadj.
  - exact E.
  - rewrite F. symmetry. exact Hsum.
Qed.

Lemma parse_single_file_ok : forall im cs files total chunks,
  parse_single_file im cs = LOk (files, total, chunks) ->
  files_ok files total /\ chunks = size_chunks_of total cs /\ fits total cs /\
  Forall (fun f => (f_r1 f, f_r2 f) = set_range (f_offset f) (f_size f) cs) files /\
  (exists name, get_key im k_name = LOk (VStr name) /\ map f_path files = [[name]]) /\
  ((cs = 1 /\ total = 1) \/ exists len, get_key im k_length = LOk (VInt len) /\ total = Z.to_N len).
Proof.
  intros im cs files total chunks H. unfold parse_single_file in H.
  destruct (get_key im k_name) as [nv| |] eqn:En; cbn [bind] in H; try discriminate.
  destruct (negb (valid_elem nv)) eqn:Ev; [discriminate|]. apply negb_false_iff in Ev.
  destruct nv as [|name| |]; simpl in Ev; try discriminate.
  match type of H with bind ?r _ = _ => destruct r as [len| |] eqn:Elen end; cbn [bind] in H; try discriminate.
  destruct (len <? 0)%Z eqn:Eneg; [discriminate|].
  destruct (fl_initialize_check (Z.to_N len) cs) eqn:Ecs; [discriminate|].
  cbn [as_string bind] in H. rewrite push_back_valid in H by exact Ev. simpl in H.
  inversion H; subst. clear H. apply fl_initialize_check_none in Ecs.
  split; [constructor|]; simpl.
  - discriminate.
  - constructor; [|constructor]. split; [discriminate|]. simpl. constructor; auto.
  - repeat constructor.
  - auto.
  - lia.
  - split; [reflexivity|]. split; [exact Ecs|].
    split; [constructor; [|constructor]; unfold mk_file; simpl; destruct (set_range 0 (Z.to_N len) cs); reflexivity|].
    split; [exists name; auto|].
    destruct (cs =? 1) eqn:E1; [left; injection Elen as <-; split; [apply N.eqb_eq; exact E1|reflexivity]|]. right.
    destruct (get_key im k_length) as [lv| |]; cbn [bind] in Elen; try discriminate.
    destruct lv; simpl in Elen; try discriminate. injection Elen as ->. exists len. auto.
Qed.

(* ------------------------------------------------------------ int64 integers *)

Lemma int64_ok_lookup : forall m k v,
  int64_ok (VMap m) = true -> lookup k m = Some v -> int64_ok v = true.
Proof.
  induction m as [|[k' v'] m IH]; intros k v Hm Hl; simpl in Hl; [discriminate|].
  simpl in Hm. apply andb_true_iff in Hm. destruct Hm as [H1 H2].
  destruct (bytes_eqb k k'); [injection Hl as <-; exact H1|].
  eapply IH; [exact H2 | exact Hl].
Qed.

Lemma int64_ok_map_insert : forall m k v,
  int64_ok (VMap m) = true -> int64_ok v = true -> int64_ok (VMap (map_insert k v m)) = true.
Proof.
  induction m as [|[k' v'] m IH]; intros k v Hm Hv; simpl.
  - rewrite Hv. reflexivity.
  - simpl in Hm. apply andb_true_iff in Hm. destruct Hm as [H1 H2].
    destruct (bytes_ltb k k'); simpl.
    + rewrite Hv, H1. exact H2.
    + destruct (bytes_ltb k' k); simpl.
      * rewrite H1. apply (IH k v H2 Hv).
      * rewrite Hv. exact H2.
Qed.

Lemma int64_ok_insert_preserve : forall m k v,
  int64_ok (VMap m) = true -> int64_ok v = true -> int64_ok (VMap (insert_preserve_type k v m)) = true.
Proof.
  intros m k v Hm Hv. unfold insert_preserve_type.
  destruct (lookup k m) as [old|]; [destruct (same_type old v); [exact Hm|]|]; apply int64_ok_map_insert; assumption.
Qed.

Lemma int64_ok_magnet : forall rf m uri m',
  parse_magnet_uri rf m uri = LOk m' -> int64_ok (VMap m) = true -> int64_ok (VMap m') = true.
Proof.
  intros rf m uri m' H Hm. unfold parse_magnet_uri in H.
  destruct (parse_magnet_hash rf uri) as [[h trackers]| |]; cbn [bind] in H; try discriminate.
  assert (Hi : int64_ok (VMap (map_insert k_info
            (VMap (map_insert k_meta (VInt 1) (map_insert k_name (VStr (to_hex_str h ++ [46; 109; 101; 116; 97]))
               (map_insert k_pieces (VStr h) [])))) m)) = true).
  { apply int64_ok_map_insert; [exact Hm|].
    repeat (apply int64_ok_map_insert; [|reflexivity]). reflexivity. }
  destruct trackers as [|t0 ts]; injection H as <-; [exact Hi|].
  apply int64_ok_insert_preserve; [apply int64_ok_insert_preserve; [exact Hi|reflexivity]|].
  simpl. rewrite forallb_forall. intros x Hx. apply in_map_iff in Hx. destruct Hx as (t & <- & _). reflexivity.
Qed.
