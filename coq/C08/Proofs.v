From Coq Require Import List NArith ZArith Bool Lia.
From LTV Require Import Common.Bytes Params_gen.
From LTV.C07 Require Import Model.
From LTV.C08 Require Import Model.
Import ListNotations.
Local Open Scope N_scope.

Definition params_ok : bool :=
  (Params.c08_piece_length_min =? 1024) && (Params.c08_piece_length_max =? 536870912) &&
  (Params.c08_hash_size =? 20).
Lemma params_ok_now : params_ok = true.
Proof. vm_compute. reflexivity. Qed.
