(* C08 — parse_base32_sha1 decodes exactly RFC 4648 base32 (either letter case) of 32 characters
   into the 20 bytes they denote, and rejects everything else. For ALL inputs.
   Structure: (1) a finite sweep ties the uint16 shift/or step of the code to an abstract
   "r pending bits of value P" step; (2) arithmetic invariant of the abstract step;
   (3) the loop = lexing + running the step; (4) soundness and completeness. *)
From Coq Require Import List NArith ZArith Bool Lia ZifyBool ZifyNat ZifyN.
From LTV Require Import Common.Bytes Params_gen.
From LTV.C08 Require Import Model ProofsOrder.
Import ListNotations.
Local Open Scope N_scope.
Ltac Zify.zify_post_hook ::= Z.div_mod_to_equations.

(* ------------------------------------------------------------ spec-side numbers *)
Definition be_num (h : bytes) : N := fold_left (fun acc b => acc * 256 + b) h 0.
Definition b32_num (vals : list N) : N := fold_left (fun acc v => acc * 32 + v) vals 0.

Fixpoint num_rev (out : bytes) : N :=      (* number of a byte list held most-recent-first *)
  match out with [] => 0 | b :: o => num_rev o * 256 + b end.

Lemma fold_left_num_app : forall base l acc x,
  fold_left (fun a b => a * base + b) (l ++ [x]) acc = fold_left (fun a b => a * base + b) l acc * base + x.
Proof. intros. rewrite fold_left_app. reflexivity. Qed.

Lemma num_rev_be : forall out, num_rev out = be_num (rev out).
Proof.
  induction out as [|b o IH]; [reflexivity|].
  simpl. unfold be_num in *. rewrite fold_left_num_app. rewrite IH. reflexivity.
Qed.

(* ------------------------------------------------------------ (1) concrete vs abstract step *)
Definition abs_step (r P v : N) : option N * N * N :=
  let bits := P * 32 + v in
  if 3 <=? r then (Some (bits / 2 ^ (r - 3)), r - 3, bits mod 2 ^ (r - 3))
  else (None, r + 5, bits).

Definition conc (x : option N * N * N) : option N * N * N :=
  let '(e, r, P) := x in (e, 11 - r, P * 2 ^ (16 - r)).

Definition step_eqb (a b : option N * N * N) : bool :=
  let '(e1, s1, d1) := a in let '(e2, s2, d2) := b in
  (match e1, e2 with Some x, Some y => x =? y | None, None => true | _, _ => false end) && (s1 =? s2) && (d1 =? d2).

Lemma step_eqb_eq : forall a b, step_eqb a b = true -> a = b.
Proof.
  intros [[e1 s1] d1] [[e2 s2] d2] H. simpl in H.
  apply andb_true_iff in H. destruct H as [H H3]. apply andb_true_iff in H. destruct H as [H1 H2].
  apply N.eqb_eq in H2, H3. subst.
  destruct e1, e2; try discriminate; [apply N.eqb_eq in H1; subst|]; reflexivity.
Qed.

Definition range (n : nat) : list N := map N.of_nat (seq 0 n).
Lemma in_range : forall n x, x < N.of_nat n -> In x (range n).
Proof.
  intros n x H. unfold range. rewrite <- (N2Nat.id x). apply in_map. apply in_seq. lia.
Qed.

Definition sweep : bool :=
  forallb (fun r => forallb (fun P => forallb (fun v =>
     step_eqb (b32_step (11 - r) (P * 2 ^ (16 - r)) v) (conc (abs_step r P v)))
     (range 32)) (range (N.to_nat (2 ^ r)))) (range 8).

Lemma sweep_ok : sweep = true.
Proof. vm_compute. reflexivity. Qed.

(* finite domain: r < 8, P < 2^r, v < 32  (8160 triples) *)
Lemma step_conc : forall r P v, r < 8 -> P < 2 ^ r -> v < 32 ->
  b32_step (11 - r) (P * 2 ^ (16 - r)) v = conc (abs_step r P v).
Proof.
  intros r P v Hr HP Hv. pose proof sweep_ok as S. unfold sweep in S.
  rewrite forallb_forall in S. specialize (S r (in_range 8 r Hr)).
  rewrite forallb_forall in S. specialize (S P). 
  assert (HinP : In P (range (N.to_nat (2 ^ r)))) by (apply in_range; rewrite N2Nat.id; exact HP).
  specialize (S HinP). rewrite forallb_forall in S. specialize (S v (in_range 32 v Hv)).
  apply step_eqb_eq. exact S.
Qed.

(* ------------------------------------------------------------ (2) arithmetic of the abstract step *)
Ltac pow_consts := repeat match goal with
  | |- context [2 ^ ?e] => let x := eval vm_compute in (2 ^ e) in change (2 ^ e) with x
  | H : context [2 ^ ?e] |- _ => let x := eval vm_compute in (2 ^ e) in change (2 ^ e) with x in H
  end.

Lemma abs_step_inv : forall r P v, r < 8 -> P < 2 ^ r -> v < 32 ->
  let '(e, r', P') := abs_step r P v in
  r' < 8 /\ P' < 2 ^ r' /\
  match e with
  | Some byte => byte < 256 /\ r' + 8 = r + 5 /\ forall E, (E * 256 + byte) * 2 ^ r' + P' = (E * 2 ^ r + P) * 32 + v
  | None => r' = r + 5 /\ forall E, E * 2 ^ r' + P' = (E * 2 ^ r + P) * 32 + v
  end.
Proof.
  intros r P v Hr HP Hv.
  assert (C : r = 0 \/ r = 1 \/ r = 2 \/ r = 3 \/ r = 4 \/ r = 5 \/ r = 6 \/ r = 7) by lia.
  destruct C as [->|[->|[->|[->|[->|[->|[->| ->]]]]]]]; unfold abs_step; simpl N.leb; cbv iota;
    simpl N.sub; simpl N.add; pow_consts; repeat split; try lia; intro E; lia.
Qed.

(* ------------------------------------------------------------ (3) the loop *)
Fixpoint run (vals : list N) (out : bytes) (sh dec : N) : option (bytes * N * N) :=
  match vals with
  | [] => Some (out, sh, dec)
  | v :: vs =>
      match b32_step sh dec v with
      | (Some byte, sh', dec') =>
          if N.of_nat (length out) =? hash_size then None else run vs (byte :: out) sh' dec'
      | (None, sh', dec') => run vs out sh' dec'
      end
  end.

Fixpoint lex (pos : bytes) : list N * bytes :=
  match pos with
  | [] => ([], [])
  | c :: p => match b32_val c with
              | Some v => let '(vs, t) := lex p in (v :: vs, t)
              | None => ([], pos)
              end
  end.

Definition after_run (r : option (bytes * N * N)) (tail : bytes) : option (bytes * bytes) :=
  match r with
  | None => None
  | Some (out, sh, _) =>
      match tail with
      | [] => b32_finish out sh []
      | c :: rest => if c =? ch_amp then b32_finish out sh rest else None
      end
  end.

Lemma b32_loop_lex : forall pos out sh dec,
  b32_loop pos out sh dec = after_run (run (fst (lex pos)) out sh dec) (snd (lex pos)).
Proof.
  induction pos as [|c pos IH]; intros out sh dec; [reflexivity|].
  cbn [b32_loop lex]. destruct (b32_val c) as [v|] eqn:Ev.
  - destruct (lex pos) as [vs t] eqn:El. cbn [fst snd run].
    destruct (b32_step sh dec v) as [[[byte|] sh'] dec'].
    + destruct (N.of_nat (length out) =? hash_size); [reflexivity|]. rewrite IH. reflexivity.
    + rewrite IH. reflexivity.
  - reflexivity.
Qed.

Lemma lex_spec : forall pos vals tail, lex pos = (vals, tail) ->
  exists cs, pos = cs ++ tail /\ map b32_val cs = map Some vals /\
             match tail with [] => True | c :: _ => b32_val c = None end.
Proof.
  induction pos as [|c pos IH]; intros vals tail H; simpl in H.
  - inversion H. exists []. auto.
  - destruct (b32_val c) as [v|] eqn:Ev.
    + destruct (lex pos) as [vs t] eqn:El. inversion H; subst.
      destruct (IH vs tail eq_refl) as (cs & E1 & E2 & E3).
      exists (c :: cs). simpl. rewrite Ev, E2, <- E1. auto.
    + inversion H; subst. exists []. simpl. auto.
Qed.

Lemma lex_app : forall cs vals tail, map b32_val cs = map Some vals ->
  match tail with [] => True | c :: _ => b32_val c = None end ->
  lex (cs ++ tail) = (vals, tail).
Proof.
  induction cs as [|c cs IH]; intros vals tail Hm Ht.
  - destruct vals; [|discriminate]. simpl. destruct tail as [|c t]; [reflexivity|]. simpl. rewrite Ht. reflexivity.
  - destruct vals as [|v vals]; [discriminate|]. simpl in Hm. injection Hm as Hc Hm.
    simpl. rewrite Hc. rewrite (IH vals tail Hm Ht). reflexivity.
Qed.

Lemma b32_val_lt : forall c v, b32_val c = Some v -> v < 32.
Proof.
  intros c v H. unfold b32_val in H.
  destruct ((65 <=? c) && (c <=? 90)) eqn:E1.
  { apply andb_true_iff in E1. destruct E1 as [A B]. apply N.leb_le in A, B. match type of H with Some ?e = Some v => assert (Hv : v = e) by congruence end. rewrite Hv. lia. }
  destruct ((97 <=? c) && (c <=? 122)) eqn:E2.
  { apply andb_true_iff in E2. destruct E2 as [A B]. apply N.leb_le in A, B. match type of H with Some ?e = Some v => assert (Hv : v = e) by congruence end. rewrite Hv. lia. }
  destruct ((50 <=? c) && (c <=? 55)) eqn:E3; [|discriminate].
  apply andb_true_iff in E3. destruct E3 as [A B]. apply N.leb_le in A, B. match type of H with Some ?e = Some v => assert (Hv : v = e) by congruence end. rewrite Hv. lia.
Qed.

(* the invariant: k characters consumed so far, of accumulated value X *)
Definition Inv (k : N) (out : bytes) (sh dec X : N) : Prop :=
  exists r P, r < 8 /\ P < 2 ^ r /\ sh = 11 - r /\ dec = P * 2 ^ (16 - r) /\
    8 * N.of_nat (length out) + r = 5 * k /\ Forall (fun b => b < 256) out /\
    num_rev out * 2 ^ r + P = X.

Lemma run_inv : forall vals k out sh dec X,
  Forall (fun v => v < 32) vals -> Inv k out sh dec X ->
  match run vals out sh dec with
  | Some (out', sh', dec') =>
      Inv (k + N.of_nat (length vals)) out' sh' dec' (fold_left (fun acc v => acc * 32 + v) vals X)
  | None => 8 * 21 <= 5 * (k + N.of_nat (length vals))
  end.
Proof.
  induction vals as [|v vs IH]; intros k out sh dec X Fv HI.
  - simpl. rewrite N.add_0_r. exact HI.
  - inversion Fv as [|? ? Hv Fvs]; subst.
    destruct HI as (r & P & Hr & HP & -> & -> & Hlen & Fo & Hnum).
    cbn [run]. rewrite (step_conc r P v Hr HP Hv).
    pose proof (abs_step_inv r P v Hr HP Hv) as A.
    destruct (abs_step r P v) as [[e r'] P']. destruct A as (Hr' & HP' & A). cbn [conc].
    replace (k + N.of_nat (length (v :: vs))) with ((k + 1) + N.of_nat (length vs))
      by (cbn [length]; lia).
    destruct e as [byte|].
    + destruct A as (Hb & Hrr & HE).
      destruct (N.of_nat (length out) =? hash_size) eqn:Efull.
      * apply N.eqb_eq in Efull. change hash_size with 20 in Efull. lia.
      * cbn [fold_left]. apply IH; [exact Fvs|].
        exists r', P'. repeat split; auto.
        -- cbn [length]. lia.
        -- cbn [num_rev]. rewrite HE. rewrite Hnum. reflexivity.
    + destruct A as (Hrr & HE). cbn [fold_left]. apply IH; [exact Fvs|].
      exists r', P'. repeat split; auto.
      -- lia.
      -- rewrite HE. rewrite Hnum. reflexivity.
Qed.

Lemma Inv_init : Inv 0 [] base_shift 0 0.
Proof. exists 0, 0. repeat split; try reflexivity; try constructor; lia. Qed.

Lemma vals_lt : forall cs vals, map b32_val cs = map Some vals -> Forall (fun v => v < 32) vals /\ length vals = length cs.
Proof.
  induction cs as [|c cs IH]; intros vals H; destruct vals as [|v vals]; try discriminate; [split; auto|].
  simpl in H. injection H as Hc Hm. destruct (IH vals Hm) as [F L].
  split; [constructor; [eapply b32_val_lt; exact Hc | exact F] | simpl; lia].
Qed.

(* ------------------------------------------------------------ (4) the theorems *)

(* soundness: whatever is accepted is 32 alphabet characters, terminated by the end of the input
   or by '&', and the 20 output bytes are the big-endian bytes of the 160-bit number the
   characters spell in base 32 *)
Theorem base32_sound : forall s h rest,
  parse_base32_sha1 s = Some (h, rest) ->
  exists cs vals, length cs = 32%nat /\ map b32_val cs = map Some vals /\
    (s = cs /\ rest = [] \/ s = cs ++ ch_amp :: rest) /\
    length h = 20%nat /\ Forall (fun b => b < 256) h /\ be_num h = b32_num vals.
Proof.
  intros s h rest H. unfold parse_base32_sha1 in H. rewrite b32_loop_lex in H.
  destruct (lex s) as [vals tail] eqn:El. cbn [fst snd] in H.
  destruct (lex_spec _ _ _ El) as (cs & Es & Em & _).
  destruct (vals_lt _ _ Em) as [Fv Lv].
  pose proof (run_inv vals 0 [] base_shift 0 0 Fv Inv_init) as R.
  destruct (run vals [] base_shift 0) as [[[out sh] dec]|]; [|discriminate].
  destruct R as (r & P & Hr & HP & Hsh & _ & Hlen & Fo & Hnum).
  assert (Fin : forall pos, b32_finish out sh pos = Some (h, rest) ->
                 pos = rest /\ h = rev out /\ length out = 20%nat /\ r = 0).
  { intros pos Hf. unfold b32_finish in Hf.
    destruct (negb (N.of_nat (length out) =? hash_size) || negb (sh =? base_shift)) eqn:Eb; [discriminate|].
    apply orb_false_iff in Eb. destruct Eb as [B1 B2]. apply negb_false_iff in B1, B2.
    apply N.eqb_eq in B1, B2. change hash_size with 20 in B1. unfold base_shift in B2.
    injection Hf as <- <-. repeat split; lia. }
  assert (Done : forall pos, b32_finish out sh pos = Some (h, rest) ->
      pos = rest /\ length cs = 32%nat /\ length h = 20%nat /\ Forall (fun b => b < 256) h /\ be_num h = b32_num vals).
  { intros pos Hf. destruct (Fin pos Hf) as (E1 & E2 & E3 & E4). subst r h.
    split; [exact E1|]. split; [lia|]. split; [rewrite rev_length; exact E3|].
    split; [apply Forall_rev; exact Fo|].
    rewrite <- num_rev_be. unfold b32_num. rewrite <- Hnum. change (2 ^ 0) with 1. lia. }
  cbn [after_run] in H. exists cs, vals.
  destruct tail as [|c t].
  - destruct (Done [] H) as (E1 & E2 & E3 & E4 & E5). rewrite app_nil_r in Es.
    repeat split; auto.
  - destruct (c =? ch_amp) eqn:Ec; [|discriminate]. apply N.eqb_eq in Ec. subst c.
    destruct (Done t H) as (E1 & E2 & E3 & E4 & E5). subst t.
    repeat split; auto.
Qed.

(* completeness: every string of 32 alphabet characters followed by the end or by '&' is
   accepted (and then base32_sound says what it decodes to) *)
Theorem base32_complete : forall cs vals rest (amp : bool),
  length cs = 32%nat -> map b32_val cs = map Some vals ->
  (amp = false -> rest = []) ->
  exists h, parse_base32_sha1 (cs ++ (if amp then ch_amp :: rest else [])) = Some (h, rest).
Proof.
  intros cs vals rest amp Lc Em Hrest.
  unfold parse_base32_sha1. rewrite b32_loop_lex.
  rewrite (lex_app cs vals (if amp then ch_amp :: rest else []) Em) by (destruct amp; reflexivity).
  cbn [fst snd]. destruct (vals_lt _ _ Em) as [Fv Lv].
  pose proof (run_inv vals 0 [] base_shift 0 0 Fv Inv_init) as R.
  destruct (run vals [] base_shift 0) as [[[out sh] dec]|]; [|lia].
  destruct R as (r & P & Hr & HP & Hsh & _ & Hlen & Fo & Hnum).
  assert (r = 0 /\ length out = 20%nat) as [-> Lo] by lia.
  assert (Hf : forall pos, b32_finish out sh pos = Some (rev out, pos)).
  { intro pos. unfold b32_finish. subst sh. change hash_size with 20.
    replace (N.of_nat (length out) =? 20) with true by (symmetry; apply N.eqb_eq; lia). reflexivity. }
  exists (rev out). cbn [after_run]. destruct amp.
  - change (ch_amp =? ch_amp) with true. cbv iota. apply Hf.
  - rewrite (Hrest eq_refl). apply Hf.
Qed.

(* the alphabet is RFC 4648's: A-Z / a-z are 0..25, 2-7 are 26..31, nothing else *)
Definition rfc_alphabet : bytes :=
  [65;66;67;68;69;70;71;72;73;74;75;76;77;78;79;80;81;82;83;84;85;86;87;88;89;90;50;51;52;53;54;55].
Definition upper (c : N) : N := if (97 <=? c) && (c <=? 122) then c - 32 else c.
Fixpoint index_of (c : N) (l : bytes) (i : N) : option N :=
  match l with [] => None | x :: l' => if x =? c then Some i else index_of c l' (i + 1) end.

Lemma b32_val_rfc : forall c, b32_val c = index_of (upper c) rfc_alphabet 0.
Proof.
  intro c. destruct (c <? 256) eqn:E.
  - apply N.ltb_lt in E.
    assert (S : forallb (fun c => match b32_val c, index_of (upper c) rfc_alphabet 0 with
                                  | Some a, Some b => a =? b | None, None => true | _, _ => false end) (range 256) = true)
      by (vm_compute; reflexivity).
    rewrite forallb_forall in S. specialize (S c (in_range 256 c E)).
    destruct (b32_val c), (index_of (upper c) rfc_alphabet 0); try discriminate; [apply N.eqb_eq in S; subst|]; reflexivity.
  - apply N.ltb_ge in E. unfold b32_val, upper.
    replace ((65 <=? c) && (c <=? 90)) with false by (symmetry; apply andb_false_iff; right; apply N.leb_gt; lia).
    replace ((97 <=? c) && (c <=? 122)) with false by (symmetry; apply andb_false_iff; right; apply N.leb_gt; lia).
    replace ((50 <=? c) && (c <=? 55)) with false by (symmetry; apply andb_false_iff; right; apply N.leb_gt; lia).
    unfold rfc_alphabet. cbn [index_of].
    repeat match goal with |- context [?x =? c] => replace (x =? c) with false by (symmetry; apply N.eqb_neq; lia) end.
    reflexivity.
Qed.

Example ex_b32_roundtrip :
  parse_base32_sha1 [65;66;67;68;69;70;71;72;73;74;75;76;77;78;79;80;81;82;83;84;85;86;87;88;89;90;50;51;52;53;54;55]
  = Some ([0;68;50;20;199;66;84;182;53;207;132;101;58;86;215;198;117;190;119;223], []).
Proof. vm_compute. reflexivity. Qed.
