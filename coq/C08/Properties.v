From Coq Require Import List NArith ZArith Bool.
From LTV.C08 Require Import Model Proofs.

Theorem params_ok_now : Proofs.params_ok = true.
Proof. exact Proofs.params_ok_now. Qed.
Print Assumptions params_ok_now.
