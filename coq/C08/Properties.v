(* C08 — property theorems (statements only; proofs in ProofsOrder / ProofsLoad / ProofsTotal /
   ProofsTok / ProofsB32 / ProofsMain). H is SHA-1 (abstract).
   [load H pol b u]: DownloadConstructor::initialize + torrent::download_add on the torrent object b
   whose "info" dictionary carries flag_unordered = u, for the code after the fix commits
   3f25386, ad1f0db, 732629d.
   pol : policy = what the property leaves open (accepted "piece length" range, whether a foreign
   magnet xt topic invalidates the link); it is PROBED from the compiled implementation on every run
   and every theorem holds for every policy (load_total under the side condition policy_ok, which
   the run checks on the probed policy). *)
From Coq Require Import List NArith ZArith Bool.
From LTV Require Import Common.Bytes.
From LTV.C07 Require Import Model.
From LTV.C08 Require Import Model ProofsOrder ProofsLoad ProofsTotal ProofsTok ProofsB32 ProofsDecode ProofsTrace ProofsOpen ProofsMain.
Import ListNotations.
Local Open Scope N_scope.

(* today's policy (1 KiB < piece length <= 512 MiB, foreign xt rejected) satisfies policy_ok *)
Theorem params_ok_now : ProofsMain.params_ok = true.
Proof. exact ProofsMain.params_ok_now. Qed.
Print Assumptions params_ok_now.

(* no input crashes the loader: never a dereference outside a checked range (LFault), never an
   internal_error (EInternal: FileList::initialize chunk size 0, FileList::split size mismatch,
   verify_file_list, tracker::Manager::add_controller zero hash), for ALL objects and flags *)
Theorem load_total : forall (H : bytes -> bytes) pol b u, policy_ok pol = true ->
  (exists d, load H pol b u = LOk d) \/ load H pol b u = LErr EInput \/ load H pol b u = LErr EBencode.
Proof. exact ProofsTotal.load_total_cases. Qed.
Print Assumptions load_total.

(* fuel sufficiency of the magnet loop (part of load_total, stated on its own) *)
Theorem magnet_loop_total : forall rf fuel pos hash tr, (length pos < fuel)%nat ->
  is_bad (magnet_loop rf fuel pos hash tr) = false.
Proof. exact ProofsTotal.magnet_loop_nb. Qed.
Print Assumptions magnet_loop_total.

(* the sorted-adjacency check of parse_multi_files is sound for the UNSORTED list *)
Theorem adjacent_check_sound : forall l : list path,
  adjacent_prefix (sort_paths l) = false -> no_prefix l.
Proof. exact ProofsOrder.adjacent_check_sound. Qed.
Print Assumptions adjacent_check_sound.

Theorem paths_contained : forall (H : bytes -> bytes) pol b u d root f,
  load H pol b u = LOk d -> In f (d_files d) ->
  frozen_path (set_root_dir root) f = set_root_dir root ++ path_as_string (f_path f) /\
  strictly_inside (f_path f) /\ strictly_inside [d_name d].
Proof. exact ProofsMain.paths_contained. Qed.
Print Assumptions paths_contained.

(* tokenisation: the kernel walks the frozen path STRING as the root's components followed by
   exactly the file's components *)
Theorem frozen_tokens : forall (H : bytes -> bytes) pol b u d root f,
  load H pol b u = LOk d -> In f (d_files d) ->
  tokens (frozen_path (set_root_dir root) f) = tokens (set_root_dir root) ++ f_path f /\
  mem_byte 0 (path_as_string (f_path f)) = false.
Proof. exact ProofsMain.frozen_tokens. Qed.
Print Assumptions frozen_tokens.

(* open / re-open under any root: never a storage error, frozen paths recomputed from the current root *)
Theorem open_paths_ok : forall (H : bytes -> bytes) pol b u d root,
  load H pol b u = LOk d -> mem_byte 0 (set_root_dir root) = false ->
  open_paths root d = LOk (map (fr (set_root_dir root)) (filter nonpad (d_files d))).
Proof. exact ProofsMain.open_paths_ok. Qed.
Print Assumptions open_paths_ok.

Theorem no_dup_no_prefix : forall (H : bytes -> bytes) pol b u d,
  load H pol b u = LOk d -> no_prefix (map f_path (d_files d)).
Proof. exact ProofsMain.no_dup_no_prefix. Qed.
Print Assumptions no_dup_no_prefix.

Theorem sizes_sum : forall (H : bytes -> bytes) pol b u d,
  load H pol b u = LOk d ->
  offsets_from 0 (d_files d) /\ sum_size (d_files d) = d_size d /\
  (int64_ok b = true -> d_size d < two63) /\ (d_meta d = false -> d_size d <> 0).
Proof. exact ProofsMain.sizes_sum. Qed.
Print Assumptions sizes_sum.

Theorem piece_count_matches : forall (H : bytes -> bytes) pol b u d,
  int64_ok b = true -> load H pol b u = LOk d ->
  d_chunk_size d <> 0 /\ d_size d < two63 /\
  d_chunks d = (d_size d + d_chunk_size d - 1) / d_chunk_size d /\
  d_chunks d < two32 /\
  N.of_nat (length (d_pieces d)) = 20 * d_chunks d.
Proof. exact ProofsMain.piece_count_matches. Qed.
Print Assumptions piece_count_matches.

Theorem file_ranges_exact : forall (H : bytes -> bytes) pol b u d f,
  int64_ok b = true -> load H pol b u = LOk d -> In f (d_files d) ->
  f_r1 f = f_offset f / d_chunk_size d /\
  f_r2 f = (if f_size f =? 0 then f_offset f / d_chunk_size d
            else (f_offset f + f_size f + d_chunk_size d - 1) / d_chunk_size d) /\
  f_offset f + f_size f <= d_size d.
Proof. exact ProofsMain.file_ranges_exact. Qed.
Print Assumptions file_ranges_exact.

Theorem infohash_canonical : forall (H : bytes -> bytes) pol b u d m,
  load H pol b u = LOk d -> as_map b = LOk m -> has_key_map m k_info = true ->
  exists info_v, get_key m k_info = LOk info_v /\
    (d_meta d = false -> d_infohash d = H (enc info_v)) /\
    (d_meta d = true -> d_infohash d = d_pieces d).
Proof. exact ProofsMain.infohash_canonical. Qed.
Print Assumptions infohash_canonical.

Theorem unordered_rejected : forall (H : bytes -> bytes) pol b d m,
  as_map b = LOk m -> has_key_map m k_info = true -> load H pol b true <> LOk d.
Proof. exact ProofsMain.unordered_rejected. Qed.
Print Assumptions unordered_rejected.

Theorem infohash_never_zero : forall (H : bytes -> bytes) pol b u d,
  load H pol b u = LOk d -> d_infohash d <> zero_hash.
Proof. exact ProofsMain.infohash_never_zero. Qed.
Print Assumptions infohash_never_zero.

(* magnet: parse_base32_sha1 accepts exactly 32 RFC 4648 characters (either case) ended by the
   end of input or '&', and yields the 20 big-endian bytes of the number they spell *)
Theorem base32_sound : forall s h rest,
  parse_base32_sha1 s = Some (h, rest) ->
  exists cs vals, length cs = 32%nat /\ map b32_val cs = map Some vals /\
    (s = cs /\ rest = [] \/ s = cs ++ ch_amp :: rest) /\
    length h = 20%nat /\ Forall (fun b => b < 256) h /\ be_num h = b32_num vals.
Proof. exact ProofsB32.base32_sound. Qed.
Print Assumptions base32_sound.

Theorem base32_complete : forall cs vals rest (amp : bool),
  length cs = 32%nat -> map b32_val cs = map Some vals ->
  (amp = false -> rest = []) ->
  exists h, parse_base32_sha1 (cs ++ (if amp then ch_amp :: rest else [])) = Some (h, rest).
Proof. exact ProofsB32.base32_complete. Qed.
Print Assumptions base32_complete.

Theorem base32_alphabet_rfc4648 : forall c, b32_val c = index_of (upper c) rfc_alphabet 0.
Proof. exact ProofsB32.b32_val_rfc. Qed.
Print Assumptions base32_alphabet_rfc4648.

(* ---------------------------------------------------------------- the loader on BYTES (link to C07) *)

(* dec_f (flag kept at every node) erases to exactly C07's decoder *)
Theorem dec_f_erase : forall l, decode_c l = lift (decode_f l).
Proof. exact ProofsDecode.dec_f_erase. Qed.
Print Assumptions dec_f_erase.

(* every tree the real decoder can produce has int64 integers (lifting C07.c_value_in_range) *)
Theorem decode_c_int64 : forall l v fl rest, decode_c l = Ok (v, fl) rest -> int64_ok v = true.
Proof. exact ProofsDecode.decode_c_int64. Qed.
Print Assumptions decode_c_int64.

(* flag_unordered is inherited upward: a decoded object is flagged iff something at or below it is *)
Theorem decode_f_flags_inherited : forall l v rest, decode_f l = Ok v rest ->
  fclosed v = true /\ any_flag v = fflag v.
Proof. exact ProofsDecode.decode_f_flags_inherited. Qed.
Print Assumptions decode_f_flags_inherited.

Theorem piece_count_matches_bytes : forall (H : bytes -> bytes) pol s d,
  load_bytes H pol s = Some (LOk d) ->
  d_chunk_size d <> 0 /\ d_size d < two63 /\
  d_chunks d = (d_size d + d_chunk_size d - 1) / d_chunk_size d /\
  d_chunks d < two32 /\
  N.of_nat (length (d_pieces d)) = 20 * d_chunks d.
Proof. exact ProofsMain.piece_count_matches_bytes. Qed.
Print Assumptions piece_count_matches_bytes.

Theorem sizes_sum_bytes : forall (H : bytes -> bytes) pol s d,
  load_bytes H pol s = Some (LOk d) ->
  offsets_from 0 (d_files d) /\ sum_size (d_files d) = d_size d /\ d_size d < two63 /\
  (d_meta d = false -> d_size d <> 0).
Proof. exact ProofsMain.sizes_sum_bytes. Qed.
Print Assumptions sizes_sum_bytes.

(* an info dictionary unordered ANYWHERE inside is rejected; what is outside info is irrelevant
   (load_bytes passes only info's own flag) *)
Theorem unordered_rejected_bytes : forall (H : bytes -> bytes) pol s m u rest im iu d,
  decode_f s = Ok (FMap m u) rest ->
  flookup k_info m = Some (FMap im iu) ->
  any_flag (FMap im iu) = true ->
  load_bytes H pol s <> Some (LOk d).
Proof. exact ProofsMain.unordered_rejected_bytes. Qed.
Print Assumptions unordered_rejected_bytes.

Theorem load_total_bytes : forall (H : bytes -> bytes) pol s r, policy_ok pol = true ->
  load_bytes H pol s = Some r -> (exists d, r = LOk d) \/ r = LErr EInput \/ r = LErr EBencode.
Proof. exact ProofsMain.load_total_bytes. Qed.
Print Assumptions load_total_bytes.

(* the branch-coverage instrumentation of the model's magnet parser does not change its results *)
Theorem parse_magnet_hash_t_erase : forall rf uri, fst (parse_magnet_hash_t rf uri) = parse_magnet_hash rf uri.
Proof. exact ProofsTrace.parse_magnet_hash_t_erase. Qed.
Print Assumptions parse_magnet_hash_t_erase.
