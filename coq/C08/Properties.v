(* C08 — property theorems (statements only; proofs in ProofsOrder/ProofsLoad/ProofsMain).
   H is SHA-1 (abstract). [load H b u]: the loader on torrent object b whose "info" dictionary
   carries flag_unordered = u. *)
From Coq Require Import List NArith ZArith Bool.
From LTV Require Import Common.Bytes.
From LTV.C07 Require Import Model.
From LTV.C08 Require Import Model ProofsOrder ProofsLoad ProofsMain.
Import ListNotations.
Local Open Scope N_scope.

Theorem params_ok_now : ProofsMain.params_ok = true.
Proof. exact ProofsMain.params_ok_now. Qed.
Print Assumptions params_ok_now.

(* the sorted-adjacency check of parse_multi_files is sound for the UNSORTED list *)
Theorem adjacent_check_sound : forall l : list path,
  adjacent_prefix (sort_paths l) = false -> no_prefix l.
Proof. exact ProofsOrder.adjacent_check_sound. Qed.
Print Assumptions adjacent_check_sound.

Theorem paths_contained : forall (H : bytes -> bytes) b u d root f,
  load H b u = LOk d -> In f (d_files d) ->
  frozen_path (set_root_dir root) f = set_root_dir root ++ path_as_string (f_path f) /\
  strictly_inside (f_path f) /\ strictly_inside [d_name d].
Proof. exact ProofsMain.paths_contained. Qed.
Print Assumptions paths_contained.

Theorem no_dup_no_prefix : forall (H : bytes -> bytes) b u d,
  load H b u = LOk d -> no_prefix (map f_path (d_files d)).
Proof. exact ProofsMain.no_dup_no_prefix. Qed.
Print Assumptions no_dup_no_prefix.

Theorem sizes_sum : forall (H : bytes -> bytes) b u d,
  load H b u = LOk d ->
  offsets_from 0 (d_files d) /\ sum_size (d_files d) = d_size d /\
  (d_multi d = true -> d_size d < two63) /\ (d_meta d = false -> d_size d <> 0).
Proof. exact ProofsMain.sizes_sum. Qed.
Print Assumptions sizes_sum.

Theorem piece_count_guarantee : forall (H : bytes -> bytes) b u d,
  load H b u = LOk d ->
  d_chunk_size d <> 0 /\
  d_chunks d = ((d_size d + d_chunk_size d - 1) mod two64 / d_chunk_size d) mod two32 /\
  20 * d_chunks d <= N.of_nat (length (d_pieces d)) /\
  Forall (fun f => (f_r1 f, f_r2 f) = set_range (f_offset f) (f_size f) (d_chunk_size d)) (d_files d).
Proof. exact ProofsMain.piece_count_guarantee. Qed.
Print Assumptions piece_count_guarantee.

Theorem piece_count_matches_small : forall (H : bytes -> bytes) b u d,
  load H b u = LOk d -> d_size d < two63 -> d_chunk_size d < two32 ->
  (d_size d + d_chunk_size d - 1) / d_chunk_size d < two32 ->
  d_chunks d = (d_size d + d_chunk_size d - 1) / d_chunk_size d.
Proof. exact ProofsMain.piece_count_matches_small. Qed.
Print Assumptions piece_count_matches_small.

(* the full piece-count clause is FALSE of the code as it is: computed witnesses *)
Theorem piece_count_matches_refuted :
  exists b d, load H0 b false = LOk d /\
    d_chunks d <> (d_size d + d_chunk_size d - 1) / d_chunk_size d /\ d_pieces d = [] /\ d_chunks d = 0.
Proof. exact ProofsMain.piece_count_matches_refuted. Qed.
Print Assumptions piece_count_matches_refuted.

Theorem pieces_length_exact_refuted :
  exists b d, load H0 b false = LOk d /\ d_chunks d = 1 /\ N.of_nat (length (d_pieces d)) = 41.
Proof. exact ProofsMain.pieces_length_exact_refuted. Qed.
Print Assumptions pieces_length_exact_refuted.

Theorem infohash_canonical : forall (H : bytes -> bytes) b u d m,
  load H b u = LOk d -> as_map b = LOk m -> has_key_map m k_info = true ->
  exists info_v, get_key m k_info = LOk info_v /\
    (d_meta d = false -> d_infohash d = H (enc info_v)) /\
    (d_meta d = true -> d_infohash d = d_pieces d).
Proof. exact ProofsMain.infohash_canonical. Qed.
Print Assumptions infohash_canonical.

Theorem unordered_rejected : forall (H : bytes -> bytes) b d m,
  as_map b = LOk m -> has_key_map m k_info = true -> load H b true <> LOk d.
Proof. exact ProofsMain.unordered_rejected. Qed.
Print Assumptions unordered_rejected.

Theorem infohash_never_zero : forall (H : bytes -> bytes) b u d,
  load H b u = LOk d -> d_infohash d <> zero_hash.
Proof. exact ProofsMain.infohash_never_zero. Qed.
Print Assumptions infohash_never_zero.

(* "never anything but an input error" is FALSE of the code as it is: the all-zero magnet hash
   reaches an internal_error in tracker::Manager::add_controller *)
Theorem load_total_refuted : forall H : bytes -> bytes, load_uri H magnet_zero = LErr EInternal.
Proof. exact ProofsMain.load_total_refuted. Qed.
Print Assumptions load_total_refuted.
