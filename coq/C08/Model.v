(* C08 — executable model of the torrent / magnet loader:
     DownloadConstructor::{initialize, parse_name, parse_info, parse_single_file, parse_multi_files,
       create_path, is_valid_path_element, parse_magnet_uri, parse_tracker (error behaviour only)},
     parse_base32_sha1, utils::{hex_to_value_or_error, transform_from_hex, transform_to_hex_str},
     Path::{insert_path, compare_less, is_prefix, as_string},
     FileList::{initialize, split, update_paths/verify_file_list, set_root_dir, open (frozen paths,
       duplicate check)}, File::set_range, torrent::download_add (info hash).
   Definitions only. The model follows the code AS IT IS, after the fix commits
   3f25386 (piece count must fit 32 bits), ad1f0db (pieces string exactly 20 bytes per piece) and
   732629d (all-zero info hash is an input error), including the remaining uint32 arithmetic of
   Bitfield::set_size_bits / File::set_range (now provably exact) and Path::insert_path's
   reversed insertion order.

   Input: the value tree of C07 (maps normalised: sorted, unique keys — what the std::map inside
   an Object holds) + the flag_unordered bit of b["info"]; or a magnet URI (bytes).
   Every dereference the code performs is modelled through a match whose impossible branch is
   LFault; every internal_error the code can throw on this path is LErr EInternal. *)
From Coq Require Import List NArith ZArith Bool.
From LTV Require Import Common.Bytes.
From LTV.C07 Require Import Model.
Import ListNotations.
Local Open Scope N_scope.

Inductive err := EInput | EBencode | EInternal | EStorage.

Inductive lres (A : Type) :=
| LOk (a : A)
| LErr (e : err)
| LFault.
Arguments LOk {A}. Arguments LErr {A}. Arguments LFault {A}.

Definition bind {A B} (r : lres A) (f : A -> lres B) : lres B :=
  match r with LOk a => f a | LErr e => LErr e | LFault => LFault end.
Notation "'do' x <- r ; k" := (bind r (fun x => k)) (at level 200, x pattern, r at level 100, k at level 200).

(* ASCII constants (string literals are written as byte lists with the text in a comment) *)
Definition ch_slash : N := 47.
Definition ch_dot : N := 46.
Definition ch_amp : N := 38.
Definition ch_eq : N := 61.
Definition ch_pct : N := 37.
Definition ch_p : N := 112.

Definition two64 : N := 18446744073709551616.
Definition u64 (x : N) : N := x mod two64.
Definition u32 (x : N) : N := x mod two32.

(* ---------------------------------------------------------------- Object accessors *)

Fixpoint lookup (k : bytes) (m : list (bytes * value)) : option value :=
  match m with
  | [] => None
  | (k', v) :: m' => if bytes_eqb k k' then Some v else lookup k m'
  end.

Definition as_map (v : value) : lres (list (bytes * value)) :=
  match v with VMap m => LOk m | _ => LErr EBencode end.
Definition as_list (v : value) : lres (list value) :=
  match v with VList l => LOk l | _ => LErr EBencode end.
Definition as_string (v : value) : lres bytes :=
  match v with VStr s => LOk s | _ => LErr EBencode end.
Definition as_value (v : value) : lres Z :=
  match v with VInt z => LOk z | _ => LErr EBencode end.

Definition get_key (m : list (bytes * value)) (k : bytes) : lres value :=
  match lookup k m with Some v => LOk v | None => LErr EBencode end.

Definition has_key (m : list (bytes * value)) (k : bytes) : bool :=
  match lookup k m with Some _ => true | None => false end.
Definition has_key_value m k := match lookup k m with Some (VInt _) => true | _ => false end.
Definition has_key_string m k := match lookup k m with Some (VStr _) => true | _ => false end.
Definition has_key_list m k := match lookup k m with Some (VList _) => true | _ => false end.
Definition has_key_map m k := match lookup k m with Some (VMap _) => true | _ => false end.

(* ---------------------------------------------------------------- paths *)

Definition path := list bytes.

Definition mem_byte (c : N) (s : bytes) : bool := existsb (fun x => x =? c) s.

(* DownloadConstructor::is_valid_path_element on a string *)
Definition valid_comp (s : bytes) : bool :=
  negb (bytes_eqb s []) && negb (bytes_eqb s [ch_dot]) && negb (bytes_eqb s [ch_dot; ch_dot]) &&
  negb (mem_byte ch_slash s) && negb (mem_byte 0 s).

Definition valid_elem (v : value) : bool :=
  match v with VStr s => valid_comp s | _ => false end.

(* Path::insert_path(end(), s): splits at '/', and because 'pos = insert(pos, ..)' returns the
   position OF the inserted element, later components are inserted BEFORE earlier ones. *)
Fixpoint split_aux (s : bytes) (cur : bytes) : list bytes :=
  match s with
  | [] => [rev cur]
  | c :: s' => if c =? ch_slash
               then rev cur :: (match s' with [] => [] | _ => split_aux s' [] end)
               else split_aux s' (c :: cur)
  end.
Definition split_slash (s : bytes) : list bytes := match s with [] => [] | _ => split_aux s [] end.
Definition path_push_back (p : path) (s : bytes) : path := p ++ rev (split_slash s).

(* Path::compare_less: std::lexicographical_compare with std::string operator< *)
Fixpoint path_ltb (a b : path) : bool :=
  match a, b with
  | _, [] => false
  | [], _ :: _ => true
  | x :: a', y :: b' => if bytes_ltb x y then true else if bytes_ltb y x then false else path_ltb a' b'
  end.

(* Path::is_prefix *)
Fixpoint path_is_prefix (p q : path) : bool :=
  match p, q with
  | [], _ => true
  | _ :: _, [] => false
  | x :: p', y :: q' => bytes_eqb x y && path_is_prefix p' q'
  end.

(* Path::as_string *)
Definition path_as_string (p : path) : bytes := flat_map (fun c => ch_slash :: c) p.

(* std::sort with compare_less: the result is the sorted permutation (unique because the order
   is total on paths); modelled by insertion sort *)
Fixpoint insert_sorted (p : path) (l : list path) : list path :=
  match l with
  | [] => [p]
  | q :: l' => if path_ltb q p then q :: insert_sorted p l' else p :: l
  end.
Definition sort_paths (l : list path) : list path := fold_right insert_sorted [] l.

(* std::adjacent_find(.., &Path::is_prefix) != end *)
Fixpoint adjacent_prefix (l : list path) : bool :=
  match l with
  | p :: ((q :: _) as l') => path_is_prefix p q || adjacent_prefix l'
  | _ => false
  end.

(* ---------------------------------------------------------------- FileList *)

Record file := mkFile {
  f_path : path;
  f_size : N;          (* uint64 *)
  f_offset : N;        (* uint64 *)
  f_r1 : N; f_r2 : N;  (* uint32 range *)
  f_pad : bool }.

(* File::set_range *)
Definition set_range (off size cs : N) : N * N :=
  if cs =? 0 then (0, 0)
  else if size =? 0 then (u32 (off / cs), u32 (off / cs))
  else (u32 (off / cs), u32 (u64 (off + size + cs - 1) / cs)).

Definition mk_file (p : path) (off size cs : N) (pad : bool) : file :=
  let r := set_range off size cs in mkFile p size off (fst r) (snd r) pad.

(* FileList::initialize: piece count through Bitfield::set_size_bits(uint32_t) *)
Definition size_chunks_of (total cs : N) : N := u32 (u64 (total + cs - 1) / cs).

(* FileList::initialize's guards (after fix 3f25386): chunkSize == 0 -> internal_error;
   (torrentSize + chunkSize - 1) / chunkSize > UINT32_MAX -> input_error *)
Definition fl_initialize_check (total cs : N) : option err :=
  if cs =? 0 then Some EInternal
  else if two32 - 1 <? u64 (total + cs - 1) / cs then Some EInput
  else None.

(* File::set_match_depth *)
Fixpoint match_depth (a b : path) : N :=
  match a, b with
  | x :: a', y :: b' => if bytes_eqb x y then 1 + match_depth a' b' else 0
  | _, _ => 0
  end.

(* verify_file_list, check 3 (checks 1 and 2 cannot fail for a list built here: non-empty,
   first.prev and last.next are never written) *)
Fixpoint verify_depths (l : list file) : bool :=
  match l with
  | a :: ((b :: _) as l') => (match_depth (f_path a) (f_path b) <? N.of_nat (length (f_path a))) && verify_depths l'
  | _ => true
  end.

(* FileList::split over the single dummy file [0, total) *)
Fixpoint split_files (l : list (N * path * bool)) (off cs : N) : list file * N :=
  match l with
  | [] => ([], off)
  | (sz, p, pad) :: l' =>
      let r := split_files l' (u64 (off + sz)) cs in
      (mk_file p off sz cs pad :: fst r, snd r)
  end.

(* ---------------------------------------------------------------- the download record *)

Record download := mkDl {
  d_name : bytes;
  d_multi : bool;
  d_private : bool;
  d_meta : bool;
  d_chunk_size : N;
  d_size : N;
  d_chunks : N;
  d_pieces : bytes;
  d_root : bytes;            (* FileList::m_root_dir after the constructor *)
  d_infohash : bytes;
  d_files : list file }.

Definition k_info := (*"info"*) [105;110;102;111]. Definition k_magnet := (*"magnet-uri"*) [109;97;103;110;101;116;45;117;114;105].
Definition k_private := (*"private"*) [112;114;105;118;97;116;101]. Definition k_name := (*"name"*) [110;97;109;101].
Definition k_meta := (*"meta_download"*) [109;101;116;97;95;100;111;119;110;108;111;97;100]. Definition k_length := (*"length"*) [108;101;110;103;116;104].
Definition k_files := (*"files"*) [102;105;108;101;115]. Definition k_pieces := (*"pieces"*) [112;105;101;99;101;115].
Definition k_piece_length := (*"piece length"*) [112;105;101;99;101;32;108;101;110;103;116;104]. Definition k_path := (*"path"*) [112;97;116;104].
Definition k_attr := (*"attr"*) [97;116;116;114]. Definition k_announce := (*"announce"*) [97;110;110;111;117;110;99;101].
Definition k_announce_list := (*"announce-list"*) [97;110;110;111;117;110;99;101;45;108;105;115;116].

Definition int64_max_z : Z := 9223372036854775807%Z.
(* What the property leaves open, as a POLICY that is probed from the running implementation
   (harness --params) and handed to the model; the theorems hold for every policy with policy_ok:
     pl_min (exclusive) / pl_max (inclusive): accepted range of "piece length" (today 1<<10, 512<<20);
     reject_foreign_xt: a magnet "xt" topic that is not "urn:btih:" makes the whole link invalid
       (today: true) or is skipped like an unknown parameter (false). *)
Record policy := mkPolicy { pl_min : N; pl_max : N; reject_foreign_xt : bool }.
Definition policy_ok (p : policy) : bool := pl_max p <? two32.
Definition default_policy : policy := mkPolicy 1024 536870912 true.
Definition hash_size : N := 20.    (* HashString::size_data: SHA-1; the harness --params reports the compiled value *)

(* FileList::set_root_dir *)
Fixpoint strip_slashes_rev (r : bytes) : bytes :=
  match r with
  | c :: r' => if c =? ch_slash then strip_slashes_rev r' else r
  | [] => []
  end.
Definition set_root_dir (p : bytes) : bytes :=
  match strip_slashes_rev (rev p) with [] => [ch_dot] | r => rev r end.

(* DownloadConstructor::create_path *)
Definition create_path (plist : list value) : lres path :=
  match plist with
  | [] => LErr EInput
  | _ => if forallb valid_elem plist
         then LOk (fold_left (fun p v => match v with VStr s => path_push_back p s | _ => p end) plist [])
         else LErr EInput
  end.

(* one entry of "files": returns (length, path, padding) and the new running total *)
Definition parse_file_entry (o : value) (total : Z) : lres (N * path * bool * Z) :=
  do om <- as_map o;
  do p <- (if has_key_list om k_path
           then match lookup k_path om with Some (VList pl) => create_path pl | _ => LFault end
           else LOk []);
  match p with
  | [] => LErr EInput
  | _ =>
    do lv <- get_key om k_length;
    do len <- as_value lv;
    if (len <? 0)%Z || (len >? int64_max_z - total)%Z then LErr EInput
    else
      let pad := match lookup k_attr om with Some (VStr a) => mem_byte ch_p a | _ => false end in
      LOk (Z.to_N len, p, pad, (total + len)%Z)
  end.

Fixpoint parse_entries (l : list value) (total : Z) (acc : list (N * path * bool)) : lres (list (N * path * bool) * Z) :=
  match l with
  | [] => LOk (rev acc, total)
  | o :: l' =>
      do r <- parse_file_entry o total;
      let '(len, p, pad, total') := r in
      parse_entries l' total' ((len, p, pad) :: acc)
  end.

(* result of building the file list: (files, total size, chunks) *)
Definition parse_multi_files (fv : value) (cs : N) : lres (list file * N * N) :=
  do l <- as_list fv;
  match l with
  | [] => LErr EInput
  | _ =>
    do r <- parse_entries l 0%Z [];
    let '(splits, total) := r in
    if adjacent_prefix (sort_paths (map (fun s => snd (fst s)) splits)) then LErr EInput
    else
      let total := Z.to_N total in
      match fl_initialize_check total cs with Some e => LErr e | None =>
      let r := split_files splits 0 cs in
      if negb (snd r =? u64 (0 + total)) then LErr EInternal  (* FileList::split size mismatch *)
      else if negb (verify_depths (fst r)) then LErr EInternal (* verify_file_list() 3 *)
      else LOk (fst r, total, size_chunks_of total cs)
      end
  end.

Definition parse_single_file (im : list (bytes * value)) (cs : N) : lres (list file * N * N) :=
  do nv <- get_key im k_name;
  if negb (valid_elem nv) then LErr EInput
  else
    do len <- (if cs =? 1 then LOk 1%Z else do lv <- get_key im k_length; as_value lv);
    if (len <? 0)%Z then LErr EInput
    else
      let total := Z.to_N len in
      match fl_initialize_check total cs with Some e => LErr e | None =>
      do name <- as_string nv;
      let p := path_push_back [] name in
      match p with
      | [] => LErr EInput
      | _ => LOk ([mk_file p 0 total cs false], total, size_chunks_of total cs)
      end
      end.

(* ---------------------------------------------------------------- magnet URIs *)

(* utils::hex_to_value_or_error: None = -1 *)
Definition hex_val (c : N) : option N :=
  if (48 <=? c) && (c <=? 57) then Some (c - 48)
  else if (65 <=? c) && (c <=? 70) then Some (10 + c - 65)
  else if (97 <=? c) && (c <=? 102) then Some (10 + c - 97)
  else None.

(* utils::value_to_hex1/0 (upper case) *)
Definition hex_digit_up (v : N) : N := if v <? 10 then 48 + v else 65 + (v - 10).
Definition to_hex_str (s : bytes) : bytes := flat_map (fun c => [hex_digit_up ((c / 16) mod 16); hex_digit_up (c mod 16)]) s.

(* utils::transform_from_hex(decoded, hash) == hash.end() for |decoded| = 40: Some bytes *)
Fixpoint from_hex (s : bytes) : option bytes :=
  match s with
  | [] => Some []
  | h :: l :: s' =>
      match hex_val h, hex_val l, from_hex s' with
      | Some a, Some b, Some r => Some ((a * 16 + b) mod 256 :: r)
      | _, _, _ => None
      end
  | [_] => None
  end.

(* parse_base32_sha1. State: bytes written so far (reversed), shift, decoded (uint16).
   Returns Some (hash, position after) / None (= NULL). *)
Definition b32_val (c : N) : option N :=
  if (65 <=? c) && (c <=? 90) then Some (c - 65)
  else if (97 <=? c) && (c <=? 122) then Some (c - 97)
  else if (50 <=? c) && (c <=? 55) then Some (26 + c - 50)
  else None.

Definition two16 : N := 65536.
Definition base_shift : N := 11.

(* one character of value v: (byte emitted if any, new shift, new decoded) *)
Definition b32_step (shift decoded v : N) : option N * N * N :=
  let decoded := N.lor decoded (N.shiftl v shift) mod two16 in
  if shift <=? 8 then (Some ((decoded / 256) mod 256), shift + 3, (decoded * 256) mod two16)
  else (None, shift - 5, decoded).

Definition b32_finish (out : bytes) (shift : N) (pos : bytes) : option (bytes * bytes) :=
  if negb (N.of_nat (length out) =? hash_size) || negb (shift =? base_shift)
  then None else Some (rev out, pos).

Fixpoint b32_loop (pos : bytes) (out : bytes) (shift decoded : N) : option (bytes * bytes) :=
  match pos with
  | [] => b32_finish out shift []
  | c :: pos' =>
      match b32_val c with
      | Some v =>
          match b32_step shift decoded v with
          | (Some byte, shift', decoded') =>
              if N.of_nat (length out) =? hash_size then None     (* too many characters *)
              else b32_loop pos' (byte :: out) shift' decoded'
          | (None, shift', decoded') => b32_loop pos' out shift' decoded'
          end
      | None => if c =? ch_amp then b32_finish out shift pos' else None
      end
  end.
Definition parse_base32_sha1 (pos : bytes) : option (bytes * bytes) := b32_loop pos [] base_shift 0.

(* the url-decoding loop: Some (decoded, position after '&' or end) / None = input_error *)
Fixpoint url_decode (pos : bytes) (acc : bytes) : lres (bytes * bytes) :=
  match pos with
  | [] => LOk (rev acc, [])
  | c :: pos' =>
      if c =? ch_pct then
        if N.of_nat (length pos') <? 2 then LErr EInput
        else match pos' with
             | h :: l :: pos'' =>
                 match hex_val h, hex_val l with
                 | Some a, Some b => url_decode pos'' ((a * 16 + b) mod 256 :: acc)
                 | _, _ => LErr EInput
                 end
             | _ => LFault           (* pos[0], pos[1] beyond 'end' *)
             end
      else if c =? ch_amp then LOk (rev acc, pos')
      else url_decode pos' (c :: acc)
  end.

Fixpoint span_eq (pos : bytes) (acc : bytes) : bytes * bytes :=
  match pos with
  | [] => (rev acc, [])
  | c :: pos' => if c =? ch_eq then (rev acc, pos) else span_eq pos' (c :: acc)
  end.

Definition urn_btih := (*"urn:btih:"*) [117;114;110;58;98;116;105;104;58].
Definition tag_xt := (*"xt"*) [120;116]. Definition tag_tr := (*"tr"*) [116;114].

(* the main loop of parse_magnet_uri; fuel = |uri| + 1 (each round consumes at least the '=').
   rf = policy reject_foreign_xt. *)
Fixpoint magnet_loop (rf : bool) (fuel : nat) (pos : bytes) (hash : option bytes) (trackers : list bytes)
  : lres (option bytes * list bytes) :=
  match fuel with
  | O => LFault
  | S f =>
      match pos with
      | [] => LOk (hash, rev trackers)
      | _ =>
        let '(tag, rest) := span_eq pos [] in
        match rest with
        | [] => LErr EInput
        | _ :: pos1 =>
            let is_xt := bytes_eqb tag tag_xt in
            let no_urn := (N.of_nat (length pos1) <? 9) || negb (bytes_eqb (firstn 9 pos1) urn_btih) in
            if is_xt && no_urn && rf then LErr EInput
            else
            (* an info-hash topic: optional base32 form first *)
            let is_ih := is_xt && negb no_urn in
            let pos2 := if is_ih then skipn 9 pos1 else pos1 in
            match (if is_ih then parse_base32_sha1 pos2 else None) with
            | Some (h, next) => magnet_loop rf f next (Some h) trackers
            | None =>
                do r <- url_decode pos2 [];
                let '(decoded, next) := r in
                if is_ih then
                  if N.of_nat (length decoded) =? hash_size then magnet_loop rf f next (Some decoded) trackers
                  else if N.of_nat (length decoded) =? 2 * hash_size then
                    match from_hex decoded with
                    | Some h => magnet_loop rf f next (Some h) trackers
                    | None => LErr EInput
                    end
                  else LErr EInput
                else if bytes_eqb tag tag_tr then magnet_loop rf f next hash (decoded :: trackers)
                else magnet_loop rf f next hash trackers
            end
        end
      end
  end.

Definition magnet_prefix := (*"magnet:?"*) [109;97;103;110;101;116;58;63].

Definition parse_magnet_hash (rf : bool) (uri : bytes) : lres (bytes * list bytes) :=
  if negb (bytes_eqb (firstn 8 uri) magnet_prefix) then LErr EInput
  else
    do r <- magnet_loop rf (S (length uri)) (skipn 8 uri) None [];
    match fst r with
    | None => LErr EInput
    | Some h => LOk (h, snd r)
    end.

(* Object::insert_preserve_type on the sorted association list *)
Definition same_type (a b : value) : bool :=
  match a, b with
  | VInt _, VInt _ | VStr _, VStr _ | VList _, VList _ | VMap _, VMap _ => true
  | _, _ => false
  end.
Definition insert_preserve_type (k : bytes) (v : value) (m : list (bytes * value)) :=
  match lookup k m with
  | Some old => if same_type old v then m else map_insert k v m
  | None => map_insert k v m
  end.

(* parse_magnet_uri: the rewritten torrent object *)
Definition parse_magnet_uri (rf : bool) (m : list (bytes * value)) (uri : bytes) : lres (list (bytes * value)) :=
  do r <- parse_magnet_hash rf uri;
  let '(h, trackers) := r in
  let info := map_insert k_meta (VInt 1) (map_insert k_name (VStr (to_hex_str h ++ (*".meta"*) [46;109;101;116;97])) (map_insert k_pieces (VStr h) [])) in
  let m1 := map_insert k_info (VMap info) m in
  match trackers with
  | [] => LOk m1
  | t0 :: _ =>
      let m2 := insert_preserve_type k_announce (VStr t0) m1 in
      LOk (insert_preserve_type k_announce_list (VList (map (fun t => VList [VStr t]) trackers)) m2)
  end.

(* DownloadConstructor::parse_tracker: only whether it throws *)
Definition is_list (v : value) : bool := match v with VList _ => true | _ => false end.
Definition is_string (v : value) : bool := match v with VStr _ => true | _ => false end.
Definition tracker_group_ok (g : value) : bool :=
  match g with VList ts => forallb is_string ts | _ => false end.
Definition parse_tracker (m : list (bytes * value)) : lres unit :=
  match lookup k_announce_list m with
  | Some (VList ((_ :: _) as al)) =>
      if existsb is_list al then
        (if forallb tracker_group_ok al then LOk tt else LErr EBencode)
      else match lookup k_announce m with
           | Some a => if is_string a then LOk tt else LErr EBencode
           | None => LOk tt
           end
  | _ => match lookup k_announce m with
         | Some a => if is_string a then LOk tt else LErr EBencode
         | None => LOk tt
         end
  end.

(* ---------------------------------------------------------------- the loader *)

Definition zero_hash : bytes := repeat 0 (N.to_nat hash_size).

Section Loader.
Variable H : bytes -> bytes.     (* SHA-1 *)
Variable pol : policy.           (* probed from the implementation *)

(* DownloadConstructor::initialize + torrent::download_add. 'unordered' is the flag_unordered bit
   of b["info"]. *)
Definition load (b : value) (unordered : bool) : lres download :=
  do m0 <- as_map b;
  let magnet := negb (has_key_map m0 k_info) && has_key_string m0 k_magnet in
  do m <- (if magnet
           then match lookup k_magnet m0 with Some (VStr uri) => parse_magnet_uri (reject_foreign_xt pol) m0 uri | _ => LFault end
           else LOk m0);
  let unordered := if magnet then false else unordered in
  do info_v <- get_key m k_info;
  do im <- as_map info_v;
  let priv := match lookup k_private im with Some (VInt 1%Z) => true | _ => false end in
  (* parse_name *)
  do nv <- get_key im k_name;
  if negb (valid_elem nv) then LErr EInput else
  do name <- as_string nv;
  (* parse_info *)
  if unordered then LErr EInput else
  let meta := match lookup k_meta im with Some (VInt z) => negb (z =? 0)%Z | _ => false end in
  do st <- (if meta then
              if has_key im k_length || has_key im k_files then LErr EInput
              else do pv <- get_key im k_pieces;
                   do ps <- as_string pv;
                   if negb (N.of_nat (length ps) =? hash_size) then LErr EInput
                   else do r <- parse_single_file im 1; LOk (1, Some r)
            else
              do plv <- get_key im k_piece_length;
              do pl <- as_value plv;
              if (pl <=? Z.of_N (pl_min pol))%Z || (pl >? Z.of_N (pl_max pol))%Z then LErr EInput
              else LOk (u32 (Z.to_N pl), None));
  let '(cs, pre) := st in
  do st2 <- (if has_key im k_length then
               do r <- parse_single_file im cs; LOk (r, false)
             else if has_key im k_files then
               do fv <- get_key im k_files;
               do r <- parse_multi_files fv cs; LOk (r, true)
             else match pre with
                  | Some r => LOk (r, false)
                  | None => LErr EInput
                  end);
  let '((files, total, chunks), multi) := st2 in
  let root := if multi then set_root_dir ((*"./"*) [46;47] ++ name) else [ch_dot] in
  if (total =? 0) && negb meta then LErr EInput else
  do pv <- get_key im k_pieces;
  do pieces <- as_string pv;
  (* after fix ad1f0db: complete_hash().size() != uint64_t{20} * size_chunks() *)
  if negb (N.of_nat (length pieces) =? u64 (20 * chunks)) then LErr EBencode else
  (* download_add *)
  let ih := if meta then pieces else H (enc info_v) in
  (* after fix 732629d: download_add rejects the all-zero hash as an input error ... *)
  if bytes_eqb ih zero_hash then LErr EInput else
  (* ... so tracker::Manager::add_controller's internal_error on it (reached through
     DownloadWrapper::initialize -> DownloadMain::post_initialize) is dead code *)
  if bytes_eqb ih zero_hash then LErr EInternal else
  do _ <- parse_tracker m;
  LOk (mkDl name multi priv meta cs total chunks pieces root ih files).

End Loader.

(* ---------------------------------------------------------------- FileList::open *)

Fixpoint cstr (s : bytes) : bytes :=      (* what strcmp sees *)
  match s with
  | [] => []
  | c :: s' => if c =? 0 then [] else c :: cstr s'
  end.

Definition frozen_path (root : bytes) (f : file) : bytes :=
  match rev (f_path f) with
  | [] :: _ => []
  | _ => root ++ path_as_string (f_path f)
  end.

(* the frozen paths of the non-padding files, in file order; EStorage on an empty path or a
   duplicate (std::set<const char*, strcmp>) *)
Fixpoint open_loop (root : bytes) (fs : list file) (seen : list bytes) (acc : list bytes) : lres (list bytes) :=
  match fs with
  | [] => LOk (rev acc)
  | f :: fs' =>
      if f_pad f then open_loop root fs' seen acc
      else match f_path f with
           | [] => LErr EStorage
           | _ => let fp := frozen_path root f in
                  if existsb (bytes_eqb (cstr fp)) seen then LErr EStorage
                  else open_loop root fs' (cstr fp :: seen) (fp :: acc)
           end
  end.

(* client: set_root_dir(root) then open *)
Definition open_paths (root : bytes) (d : download) : lres (list bytes) :=
  open_loop (set_root_dir root) (d_files d) [] [].

(* the inodes make_root_path / make_directory / File::prepare create below the scratch
   directory: relative component lists, directories (false) and files (true) *)
Fixpoint prefixes (p : path) : list path :=     (* proper non-empty prefixes *)
  match p with
  | [] => []
  | c :: p' => match p' with [] => [] | _ => [c] :: map (cons c) (prefixes p') end
  end.

Definition rel_root (d : download) : path := if d_multi d then [d_name d] else [].

Definition inodes_of (d : download) : list (path * bool) :=
  (if d_multi d then [(rel_root d, false)] else []) ++
  flat_map (fun f => if f_pad f then []
                     else let p := rel_root d ++ f_path f in
                          map (fun q => (q, false)) (prefixes p) ++ [(p, true)]) (d_files d).

Definition join_path (p : path) : bytes :=
  match p with
  | [] => []
  | c :: p' => c ++ path_as_string p'
  end.

Fixpoint insert_inode (x : bytes * bool) (l : list (bytes * bool)) : list (bytes * bool) :=
  match l with
  | [] => [x]
  | y :: l' => if bytes_ltb (fst y) (fst x) then y :: insert_inode x l'
               else if bytes_ltb (fst x) (fst y) then x :: l
               else l                       (* same path: already there *)
  end.

Definition inode_list (d : download) : list (bytes * bool) :=
  fold_left (fun acc x => insert_inode (join_path (fst x), snd x) acc) (inodes_of d) [].

(* entry points for the driver *)
Definition load_tree (H : bytes -> bytes) (pol : policy) (b : value) (unordered : bool) : lres download :=
  load H pol (normalize b) unordered.

Definition load_uri (H : bytes -> bytes) (pol : policy) (uri : bytes) : lres download :=
  load H pol (VMap [(k_magnet, VStr uri)]) false.

(* ---------------------------------------------------------------- per-dictionary unordered flags
   torrent::Object keeps flag_unordered PER OBJECT: object_read_bencode_c sets it on a dictionary
   whose keys are not strictly increasing, and every list / dictionary inherits it from any
   element decoded into it. C07's value tree carries no flags and its decoder returns only the
   flag of the outermost object, so the loader's input from BYTES is modelled with a flagged
   tree: dec_f is C07's dec_c with the flag stored at every list / dictionary node
   (ProofsDecode.dec_f_erase: erasing the flags gives exactly C07's dec_c result). *)
Inductive fvalue :=
| FInt (z : Z)
| FStr (s : bytes)
| FList (l : list fvalue) (u : bool)
| FMap (m : list (bytes * fvalue)) (u : bool).

Definition fflag (v : fvalue) : bool :=
  match v with FList _ u => u | FMap _ u => u | _ => false end.

Fixpoint erase (v : fvalue) : value :=
  match v with
  | FInt z => VInt z
  | FStr s => VStr s
  | FList l _ => VList (map erase l)
  | FMap m _ => VMap (map (fun kv => (fst kv, erase (snd kv))) m)
  end.

Fixpoint fmap_insert (k : bytes) (v : fvalue) (m : list (bytes * fvalue)) : list (bytes * fvalue) :=
  match m with
  | [] => [(k, v)]
  | (k', v') :: m' =>
      if bytes_ltb k k' then (k, v) :: m
      else if bytes_ltb k' k then (k', v') :: fmap_insert k v m'
      else (k, v) :: m'
  end.

Definition fmap_is_empty (m : list (bytes * fvalue)) : bool := match m with [] => true | _ => false end.

Fixpoint dec_f (fuel : nat) (depth : N) (l : bytes) {struct fuel} : res fvalue :=
  match fuel with
  | O => OutOfFuel
  | S f =>
      match l with
      | [] => Reject
      | c :: l' =>
          if c =? ch_i then
            match c_value l' with
            | Some (z, e :: rest) => if e =? ch_e then Ok (FInt z) rest else Reject
            | _ => Reject
            end
          else if c =? ch_l then
            if depth_limit_c <=? depth + 1 then Reject else items_f f (depth + 1) l' [] false
          else if c =? ch_d then
            if depth_limit_c <=? depth + 1 then Reject else entries_f f (depth + 1) l' [] [] false
          else if is_digit c then
            match c_string l with
            | Ok s rest => Ok (FStr s) rest
            | Reject => Reject | Fault => Fault | OutOfFuel => OutOfFuel
            end
          else Reject
      end
  end
with items_f (fuel : nat) (depth : N) (l : bytes) (acc : list fvalue) (fl : bool) {struct fuel} : res fvalue :=
  match fuel with
  | O => OutOfFuel
  | S f =>
      match l with
      | [] => Reject
      | c :: l' =>
          if c =? ch_e then Ok (FList (rev acc) fl) l'
          else match dec_f f depth l with
               | Ok v rest => items_f f depth rest (v :: acc) (fl || fflag v)
               | Reject => Reject | Fault => Fault | OutOfFuel => OutOfFuel
               end
      end
  end
with entries_f (fuel : nat) (depth : N) (l : bytes) (m : list (bytes * fvalue)) (prev : bytes) (fl : bool) {struct fuel} : res fvalue :=
  match fuel with
  | O => OutOfFuel
  | S f =>
      match l with
      | [] => Reject
      | c :: l' =>
          if c =? ch_e then Ok (FMap m fl) l'
          else match c_string l with
               | Ok k rest =>
                   let fl1 := fl || (bytes_leb k prev && negb (fmap_is_empty m)) in
                   match dec_f f depth rest with
                   | Ok v rest' => entries_f f depth rest' (fmap_insert k v m) k (fl1 || fflag v)
                   | Reject => Reject | Fault => Fault | OutOfFuel => OutOfFuel
                   end
               | Reject => Reject | Fault => Fault | OutOfFuel => OutOfFuel
               end
      end
  end.

Definition decode_f (l : bytes) : res fvalue := dec_f (2 * length l + 2) 0 l.

Fixpoint flookup (k : bytes) (m : list (bytes * fvalue)) : option fvalue :=
  match m with
  | [] => None
  | (k', v) :: m' => if bytes_eqb k k' then Some v else flookup k m'
  end.

(* the flag_unordered bit of b["info"] *)
Definition info_flag (b : fvalue) : bool :=
  match b with
  | FMap m _ => match flookup k_info m with Some (FMap _ u) => u | _ => false end
  | _ => false
  end.

(* bencoded bytes: the real decoder, then the loader; only the flag of the "info" dictionary
   (unordered anywhere inside it) matters, anything outside may be unordered *)
Definition load_bytes (H : bytes -> bytes) (pol : policy) (s : bytes) : option (lres download) :=
  match decode_f s with
  | Ok b _ => Some (load H pol (erase b) (info_flag b))
  | _ => None
  end.

(* every integer in the tree is an int64_t (what a torrent::Object can hold; hypothesis of the
   piece-count theorem for single-file torrents) *)
Fixpoint int64_ok (v : value) : bool :=
  match v with
  | VInt z => in_int64 z
  | VStr _ => true
  | VList l => forallb int64_ok l
  | VMap m => forallb (fun kv => int64_ok (snd kv)) m
  end.

(* ---------------------------------------------------------------- branch tracing of the magnet parser
   The same functions with a list of branch tags threaded through (most recent first). Used only
   to MEASURE which branches of the model the generated URIs reach (driver option --cov);
   ProofsTrace.parse_magnet_hash_t_erase: dropping the trace gives parse_magnet_hash. *)
Definition tg_prefix_bad : N := 1.   Definition tg_loop_error : N := 2.
Definition tg_no_hash : N := 3.      Definition tg_ok_no_trackers : N := 4.  Definition tg_ok_trackers : N := 5.
Definition tg_round_end : N := 10.   Definition tg_tag_without_eq : N := 11. Definition tg_xt_no_urn : N := 12.
Definition tg_xt_b32_ok : N := 13.   Definition tg_xt_b32_fail : N := 14.    Definition tg_xt_raw20 : N := 15.
Definition tg_xt_hex40_ok : N := 16. Definition tg_xt_hex40_bad : N := 17.   Definition tg_xt_bad_len : N := 18.
Definition tg_tr : N := 19.          Definition tg_other_tag : N := 20.      Definition tg_url_error : N := 21.
Definition tg_second_hash : N := 22. (* an xt accepted when a hash was already set *)
Definition tg_url_end : N := 30.     Definition tg_pct_truncated : N := 31.  Definition tg_pct_bad_hex : N := 32.
Definition tg_pct_ok : N := 33.      Definition tg_url_amp : N := 34.        Definition tg_url_plain : N := 35.
Definition tg_url_fault : N := 36.   (* unreachable: ProofsTotal.url_decode_ok *)
Definition tg_b32_end_ok : N := 40.  Definition tg_b32_end_fail : N := 41.   Definition tg_b32_emit : N := 42.
Definition tg_b32_no_emit : N := 43. Definition tg_b32_too_many : N := 44.   Definition tg_b32_amp_ok : N := 45.
Definition tg_b32_amp_fail : N := 46. Definition tg_b32_bad_char : N := 47.
Definition tg_dec_nul : N := 50.     Definition tg_dec_slash : N := 51.      Definition tg_dec_amp : N := 52.
Definition tg_dec_pct : N := 53.     Definition tg_dec_eq : N := 54.        Definition tg_dec_high : N := 55.

Definition dec_class (b : N) (tr : list N) : list N :=
  if b =? 0 then tg_dec_nul :: tr else if b =? ch_slash then tg_dec_slash :: tr
  else if b =? ch_amp then tg_dec_amp :: tr else if b =? ch_pct then tg_dec_pct :: tr
  else if b =? ch_eq then tg_dec_eq :: tr else if 127 <? b then tg_dec_high :: tr else tr.

Fixpoint b32_loop_t (pos : bytes) (out : bytes) (shift decoded : N) (tr : list N) : option (bytes * bytes) * list N :=
  match pos with
  | [] => let r := b32_finish out shift [] in (r, (match r with Some _ => tg_b32_end_ok | None => tg_b32_end_fail end) :: tr)
  | c :: pos' =>
      match b32_val c with
      | Some v =>
          match b32_step shift decoded v with
          | (Some byte, shift', decoded') =>
              if N.of_nat (length out) =? hash_size then (None, tg_b32_too_many :: tr)
              else b32_loop_t pos' (byte :: out) shift' decoded' (tg_b32_emit :: tr)
          | (None, shift', decoded') => b32_loop_t pos' out shift' decoded' (tg_b32_no_emit :: tr)
          end
      | None => if c =? ch_amp
                then let r := b32_finish out shift pos' in
                     (r, (match r with Some _ => tg_b32_amp_ok | None => tg_b32_amp_fail end) :: tr)
                else (None, tg_b32_bad_char :: tr)
      end
  end.

Fixpoint url_decode_t (pos : bytes) (acc : bytes) (tr : list N) : lres (bytes * bytes) * list N :=
  match pos with
  | [] => (LOk (rev acc, []), tg_url_end :: tr)
  | c :: pos' =>
      if c =? ch_pct then
        if N.of_nat (length pos') <? 2 then (LErr EInput, tg_pct_truncated :: tr)
        else match pos' with
             | h :: l :: pos'' =>
                 match hex_val h, hex_val l with
                 | Some a, Some b => url_decode_t pos'' ((a * 16 + b) mod 256 :: acc) (dec_class ((a * 16 + b) mod 256) (tg_pct_ok :: tr))
                 | _, _ => (LErr EInput, tg_pct_bad_hex :: tr)
                 end
             | _ => (LFault, tg_url_fault :: tr)
             end
      else if c =? ch_amp then (LOk (rev acc, pos'), tg_url_amp :: tr)
      else url_decode_t pos' (c :: acc) (tg_url_plain :: tr)
  end.

Definition second (hash : option bytes) (tr : list N) : list N :=
  match hash with Some _ => tg_second_hash :: tr | None => tr end.

Definition tg_xt_foreign_skipped : N := 23.   (* a non-btih xt topic treated as an unknown parameter *)

Fixpoint magnet_loop_t (rf : bool) (fuel : nat) (pos : bytes) (hash : option bytes) (trackers : list bytes) (tr : list N)
  : lres (option bytes * list bytes) * list N :=
  match fuel with
  | O => (LFault, tr)
  | S f =>
      match pos with
      | [] => (LOk (hash, rev trackers), tg_round_end :: tr)
      | _ =>
        let '(tag, rest) := span_eq pos [] in
        match rest with
        | [] => (LErr EInput, tg_tag_without_eq :: tr)
        | _ :: pos1 =>
            let is_xt := bytes_eqb tag tag_xt in
            let no_urn := (N.of_nat (length pos1) <? 9) || negb (bytes_eqb (firstn 9 pos1) urn_btih) in
            if is_xt && no_urn && rf then (LErr EInput, tg_xt_no_urn :: tr)
            else
            let is_ih := is_xt && negb no_urn in
            let tr := if is_xt && no_urn then tg_xt_foreign_skipped :: tr else tr in
            let pos2 := if is_ih then skipn 9 pos1 else pos1 in
            let b := if is_ih then b32_loop_t pos2 [] base_shift 0 tr else (None, tr) in
            match fst b with
            | Some (h, next) => magnet_loop_t rf f next (Some h) trackers (second hash (tg_xt_b32_ok :: snd b))
            | None =>
                let tr1 := if is_ih then tg_xt_b32_fail :: snd b else snd b in
                let u := url_decode_t pos2 [] tr1 in
                match fst u with
                | LOk (decoded, next) =>
                    if is_ih then
                      if N.of_nat (length decoded) =? hash_size
                      then magnet_loop_t rf f next (Some decoded) trackers (second hash (tg_xt_raw20 :: snd u))
                      else if N.of_nat (length decoded) =? 2 * hash_size then
                        match from_hex decoded with
                        | Some h => magnet_loop_t rf f next (Some h) trackers (second hash (tg_xt_hex40_ok :: snd u))
                        | None => (LErr EInput, tg_xt_hex40_bad :: snd u)
                        end
                      else (LErr EInput, tg_xt_bad_len :: snd u)
                    else if bytes_eqb tag tag_tr then magnet_loop_t rf f next hash (decoded :: trackers) (tg_tr :: snd u)
                    else magnet_loop_t rf f next hash trackers (tg_other_tag :: snd u)
                | LErr e => (LErr e, tg_url_error :: snd u)
                | LFault => (LFault, snd u)
                end
            end
        end
      end
  end.

Definition parse_magnet_hash_t (rf : bool) (uri : bytes) : lres (bytes * list bytes) * list N :=
  if negb (bytes_eqb (firstn 8 uri) magnet_prefix) then (LErr EInput, [tg_prefix_bad])
  else
    let r := magnet_loop_t rf (S (length uri)) (skipn 8 uri) None [] [] in
    match fst r with
    | LOk (None, _) => (LErr EInput, tg_no_hash :: snd r)
    | LOk (Some h, ts) => (LOk (h, ts), (match ts with [] => tg_ok_no_trackers | _ => tg_ok_trackers end) :: snd r)
    | LErr e => (LErr e, tg_loop_error :: snd r)
    | LFault => (LFault, snd r)
    end.

(* the distinct branch tags a URI reaches, for the coverage measurement *)
Definition magnet_branches (rf : bool) (uri : bytes) : list N := snd (parse_magnet_hash_t rf uri).
