(* C11 proofs, part 1: the accounting effect of every primitive of the choke machinery.
   [eff d h h']: starting from a well-formed half h, h' is well-formed, the three "balances"
     (sum of queue counters - sum of entry list sizes, for unchoked and for queued;
      sum of per-torrent unchoked counters - sum of entry.unchoked sizes) are unchanged,
   and  (global counter - sum of queue unchoked counters)  moves by d.
   Every state change of choke_queue goes through the primitives below. *)
From Coq Require Import List NArith ZArith Bool Arith Lia.
From LTV.C11 Require Import Model.
Import ListNotations.
Local Open Scope Z_scope.

Definition sumZ (l : list Z) : Z := fold_right Z.add 0 l.
Definition SQu h := sumZ (map q_cu (h_qs h)).
Definition SQq h := sumZ (map q_cq (h_qs h)).
Definition SEu h := sumZ (map (fun e => lenZ (e_u e)) (h_ents h)).
Definition SEq h := sumZ (map (fun e => lenZ (e_q e)) (h_ents h)).
Definition STn h := sumZ (h_tn h).

Record WF (h : half) : Prop := mkWF {
  wf_nt : (0 < length (h_ents h))%nat;
  wf_ng : (0 < length (h_qs h))%nat;
  wf_tn : length (h_tn h) = length (h_ents h);
  wf_tg : length (h_tgrp h) = length (h_ents h);
  wf_ctor : Forall (fun t => (t < length (h_ents h))%nat) (h_ctor h);
  wf_tgrp : Forall (fun g => (g < length (h_qs h))%nat) (h_tgrp h) }.

Definition BalU h := SQu h - SEu h.
Definition BalQ h := SQq h - SEq h.
Definition BalT h := STn h - SEu h.
Definition D h := h_cur h - SQu h.

Definition eff (d : Z) (h h' : half) : Prop :=
  WF h -> WF h' /\ BalU h' = BalU h /\ BalQ h' = BalQ h /\ BalT h' = BalT h /\ D h' = D h + d.

Lemma eff_refl h : eff 0 h h.
Proof. unfold eff; intros W; split; [exact W|]; repeat split; lia. Qed.
Lemma eff_trans d1 d2 h1 h2 h3 : eff d1 h1 h2 -> eff d2 h2 h3 -> eff (d1 + d2) h1 h3.
Proof. unfold eff; intros A B W. destruct (A W) as (W2 & ? & ? & ? & ?). destruct (B W2) as (W3 & ? & ? & ? & ?).
  split; [exact W3|]. repeat split; try congruence; lia. Qed.
Lemma eff_eq d d' h h' : eff d h h' -> d = d' -> eff d' h h'.
Proof. intros; subst; auto. Qed.

(* ---------------------------------------------------------------- lists *)
Lemma length_upd {A} n (f : A -> A) l : length (upd n f l) = length l.
Proof. revert n; induction l; destruct n; simpl; auto. Qed.

Lemma sum_map_upd {A} (f : A -> Z) (g : A -> A) d : forall n l, (n < length l)%nat ->
  sumZ (map f (upd n g l)) = sumZ (map f l) - f (nth n l d) + f (g (nth n l d)).
Proof. induction n; destruct l; simpl; intros; try lia. rewrite IHn by lia. lia. Qed.

Lemma sum_upd_add n (x : Z) l : (n < length l)%nat -> sumZ (upd n (fun y => y + x) l) = sumZ l + x.
Proof. revert l; induction n; destruct l; simpl; intros; try lia. rewrite IHn by lia. lia. Qed.

Lemma length_removelast {A} (l : list A) : length (removelast l) = pred (length l).
Proof. induction l; simpl; auto. destruct l; simpl in *; auto. Qed.

Lemma rswap_length {A} (k : A -> nat) c : forall l l', rswap k c l = Some l' -> S (length l') = length l.
Proof. induction l; simpl; intros l' H; try discriminate. destruct (Nat.eqb (k a) c).
  - inversion H; subst. destruct l as [|b l0]; [reflexivity|]. cbn [length]. rewrite (length_removelast (b :: l0)). reflexivity.
  - destruct (rswap k c l) eqn:E; simpl in H; inversion H; subst. simpl. f_equal. apply IHl; auto. Qed.

Lemma remove_swap_length c l l' : remove_swap c l = Some l' -> S (length l') = length l.
Proof. apply rswap_length. Qed.

Lemma lenZ_remove_swap c l l' : remove_swap c l = Some l' -> lenZ l' = lenZ l - 1.
Proof. intros H; apply remove_swap_length in H. unfold lenZ. lia. Qed.
Lemma lenZ_push c l : lenZ (push c l) = lenZ l + 1.
Proof. unfold lenZ, push. rewrite app_length. simpl. lia. Qed.

Lemma Forall_nth_lt (l : list nat) b n : (0 < b)%nat -> Forall (fun x => (x < b)%nat) l -> (nth n l O < b)%nat.
Proof. intros Hb Hf. destruct (Nat.lt_ge_cases n (length l)).
  - rewrite Forall_forall in Hf. apply Hf. apply nth_In; auto.
  - rewrite nth_overflow; auto. Qed.

Lemma tor_lt h c : WF h -> (tor_of h c < length (h_ents h))%nat.
Proof. intros W. apply Forall_nth_lt; [apply W | apply W]. Qed.
Lemma grp_lt h t : WF h -> (grp_of h t < length (h_qs h))%nat.
Proof. intros W. apply Forall_nth_lt; [apply W | apply W]. Qed.

(* ---------------------------------------------------------------- field updates *)
Lemma eff_updcs c f h : eff 0 h (updcs c f h).
Proof. unfold eff; intros W. split; [destruct W; constructor; auto|]. unfold BalU, BalQ, BalT, D, SQu, SQq, SEu, SEq, STn; simpl. lia. Qed.
Lemma eff_with_rs h x : eff 0 h (with_rs h x).
Proof. unfold eff; intros W. split; [destruct W; constructor; auto|]. unfold BalU, BalQ, BalT, D, SQu, SQq, SEu, SEq, STn; simpl. lia. Qed.
Lemma eff_with_max h x : eff 0 h (with_max h x).
Proof. unfold eff; intros W. split; [destruct W; constructor; auto|]. unfold BalU, BalQ, BalT, D, SQu, SQq, SEu, SEq, STn; simpl. lia. Qed.
Lemma eff_with_cur h x : eff (x - h_cur h) h (with_cur h x).
Proof. unfold eff; intros W. split; [destruct W; constructor; auto|]. unfold BalU, BalQ, BalT, D, SQu, SQq, SEu, SEq, STn; simpl. lia. Qed.

(* the combined update every slot-like primitive performs: entry t gets lists of sizes shifted by
   (dq, du), the torrent counter moves by dt, queue g's counters by (dq', du') *)
Lemma WF_upd h t fe g fq dt cs' :
  WF h -> WF (mkH cs' (h_ctor h) (upd t fe (h_ents h)) (upd t (fun x => x + dt) (h_tn h)) (h_tgrp h)
                  (upd g fq (h_qs h)) (h_cur h) (h_max h) (h_rs h)).
Proof. intros W; destruct W; constructor; simpl; rewrite ?length_upd; auto. Qed.

Lemma eff_combined h t g (fe : entry -> entry) (dq du dt : Z) cs' :
  (t < length (h_ents h))%nat -> (g < length (h_qs h))%nat ->
  lenZ (e_q (fe (getent h t))) = lenZ (e_q (getent h t)) + dq ->
  lenZ (e_u (fe (getent h t))) = lenZ (e_u (getent h t)) + du ->
  dt = du ->
  eff (- du) h (mkH cs' (h_ctor h) (upd t fe (h_ents h)) (upd t (fun x => x + dt) (h_tn h)) (h_tgrp h)
                    (upd g (q_add dq du) (h_qs h)) (h_cur h) (h_max h) (h_rs h)).
Proof.
  intros Ht Hg Hq Hu Hdt W. split; [apply WF_upd; auto|].
  unfold BalU, BalQ, BalT, D, SQu, SQq, SEu, SEq, STn; simpl.
  rewrite !(sum_map_upd _ _ Model.dq) by auto. rewrite !(sum_map_upd _ _ dent) by auto.
  rewrite sum_upd_add by (rewrite (wf_tn _ W); auto).
  unfold getent in *. simpl. lia.
Qed.

(* ---------------------------------------------------------------- primitives *)
Lemma eff_recv_unchoke n h h' : recv_unchoke n h = Ok h' -> eff n h h'.
Proof. unfold recv_unchoke. destruct (h_cur h + n <? 0); intros H; inversion H.
  eapply eff_eq; [apply eff_with_cur | lia]. Qed.

Lemma upd_add0 n l : upd n (fun x : Z => x + 0) l = l.
Proof. revert n; induction l; destruct n; simpl; f_equal; auto; lia. Qed.

Lemma eff_combined0 h t g (fe : entry -> entry) (dq : Z) :
  (t < length (h_ents h))%nat -> (g < length (h_qs h))%nat ->
  lenZ (e_q (fe (getent h t))) = lenZ (e_q (getent h t)) + dq ->
  lenZ (e_u (fe (getent h t))) = lenZ (e_u (getent h t)) + 0 ->
  eff 0 h (updq g (q_add dq 0) (upde t fe h)).
Proof.
  intros Ht Hg Hq Hu.
  assert (X : updq g (q_add dq 0) (upde t fe h) =
              mkH (h_cs h) (h_ctor h) (upd t fe (h_ents h)) (upd t (fun x => x + 0) (h_tn h)) (h_tgrp h)
                  (upd g (q_add dq 0) (h_qs h)) (h_cur h) (h_max h) (h_rs h)).
  { unfold updq, upde, with_qs, with_ents; simpl. rewrite upd_add0. reflexivity. }
  rewrite X. eapply eff_eq; [apply eff_combined; auto | lia].
Qed.

Lemma eff_connection_queued c h h' : connection_queued c h = Ok h' -> eff 0 h h'.
Proof. unfold connection_queued. destruct (has c _); intros H; inversion H. intros W.
  refine (eff_combined0 h _ _ _ 1 (tor_lt h c W) (grp_lt h _ W) _ _ W); simpl; rewrite ?lenZ_push; lia. Qed.

Lemma eff_connection_unqueued c h h' : connection_unqueued c h = Ok h' -> eff 0 h h'.
Proof. unfold connection_unqueued. destruct (remove_swap c _) eqn:R; intros H; inversion H. intros W.
  apply lenZ_remove_swap in R.
  refine (eff_combined0 h _ _ _ (-1) (tor_lt h c W) (grp_lt h _ W) _ _ W); simpl; lia. Qed.

Lemma eff_set_not_queued_inner c h h' : set_not_queued_inner c h = Ok h' -> eff 0 h h'.
Proof. unfold set_not_queued_inner. destruct (negb (cs_q (getcs h c))); [intros H; inversion H; apply eff_refl|].
  destruct (cs_s (getcs h c)); [intros H; inversion H; apply eff_updcs|].
  destruct (remove_swap c _) eqn:R; intros H; inversion H. clear H H1.
  eapply eff_eq; [eapply eff_trans; [apply (eff_updcs c (set_q false))|]|reflexivity].
  set (h1 := updcs c (set_q false) h) in *.
  assert (T : tor_of h c = tor_of h1 c) by reflexivity. assert (G : grp_of h (tor_of h c) = grp_of h1 (tor_of h1 c)) by reflexivity.
  rewrite T, G in *. apply (eff_connection_unqueued c h1). unfold connection_unqueued. rewrite R. reflexivity.
Qed.

(* PeerConnectionBase::receive_{upload,download}_choke: all four counters move together *)
Lemma eff_slot v c choke h h' r : slot v c choke h = Ok (h', r) -> eff (if choke then 1 else -1) h h'.
Proof.
  unfold slot. destruct (Bool.eqb choke (negb (cs_u (getcs h c)))); [discriminate|].
  destruct choke.
  - destruct (remove_swap c (e_u _)) eqn:R; [|discriminate]. destruct (has c _); [discriminate|].
    set (h2 := updq _ _ _).
    assert (E2 : eff 1 h h2).
    { intros W. pose proof (tor_lt h c W). pose proof (grp_lt h (tor_of h c) W).
      apply (eff_combined h (tor_of h c) (grp_of h (tor_of h c))
               (fun e0 => mkEnt (e_max e0) (e_min e0) (push c (e_q (getent h (tor_of h c)))) w) 1 (-1) (-1)); auto; simpl.
      - apply lenZ_push. - apply lenZ_remove_swap in R. lia. }
    destruct (v_dir v).
    + intros H; inversion H; subst; auto.
    + destruct (cs_r (getcs h c)); [intros H; inversion H; subst; auto|].
      destruct (set_not_queued_inner c h2) eqn:I; [|discriminate]. intros H; inversion H; subst.
      eapply eff_eq; [eapply eff_trans; [apply E2 | eapply eff_set_not_queued_inner; eauto]|lia].
  - destruct (remove_swap c (e_q _)) eqn:R; [|discriminate]. destruct (has c _); [discriminate|].
    intros H; inversion H; subst. intros W. pose proof (tor_lt h c W). pose proof (grp_lt h (tor_of h c) W).
    apply (eff_combined h (tor_of h c) (grp_of h (tor_of h c))
             (fun e0 => mkEnt (e_max e0) (e_min e0) w (push c (e_u (getent h (tor_of h c))))) (-1) 1 1); auto; simpl.
    + apply lenZ_remove_swap in R. lia. + apply lenZ_push.
Qed.

(* ---------------------------------------------------------------- per-connection operations *)
Lemma eff_try_unchoke_new v hold c h h' : try_unchoke_new v hold c h = Ok h' -> eff 0 h h'.
Proof. unfold try_unchoke_new. destruct (_ && _); [|intros H; inversion H; apply eff_refl].
  destruct (slot v c false h) as [[h1 r]|] eqn:S; [|discriminate]. simpl. intros H.
  eapply eff_eq; [eapply eff_trans; [eapply eff_slot; eauto | eapply eff_recv_unchoke; eauto]|reflexivity]. Qed.

Theorem eff_set_queued v c h h' : set_queued v c h = Ok h' -> eff 0 h h'.
Proof. unfold set_queued. destruct (_ || _); [intros H; inversion H; apply eff_refl|].
  destruct (cs_s _); [intros H; inversion H; apply eff_updcs|].
  destruct (connection_queued c _) eqn:Q; [|discriminate]. intros H.
  eapply eff_eq; [eapply eff_trans; [apply (eff_updcs c (set_q true))|eapply eff_trans; [eapply eff_connection_queued; eauto|eapply eff_try_unchoke_new; eauto]]|reflexivity]. Qed.

Theorem eff_set_not_queued v c h h' : set_not_queued v c h = Ok h' -> eff 0 h h'.
Proof. unfold set_not_queued. destruct (negb _); [intros H; inversion H; apply eff_refl|].
  destruct (cs_s _); [intros H; inversion H; apply eff_updcs|].
  destruct (cs_u _).
  - destruct (slot v c true _) as [[h1 r]|] eqn:S; [|discriminate]. simpl.
    destruct (recv_unchoke (-1) h1) eqn:R; [|discriminate]. intros H.
    eapply eff_eq; [eapply eff_trans; [apply (eff_updcs c (set_q false))|eapply eff_trans; [eapply eff_slot; eauto|
      eapply eff_trans; [eapply eff_recv_unchoke; eauto|eapply eff_connection_unqueued; eauto]]]|reflexivity].
  - intros H. eapply eff_eq; [eapply eff_trans; [apply (eff_updcs c (set_q false))|eapply eff_connection_unqueued; eauto]|reflexivity]. Qed.

Theorem eff_set_snubbed v c h h' : set_snubbed v c h = Ok h' -> eff 0 h h'.
Proof. unfold set_snubbed. destruct (cs_s _); [intros H; inversion H; apply eff_refl|].
  destruct (cs_u _).
  - destruct (slot v c true _) as [[h1 r]|] eqn:S; [|discriminate]. simpl.
    destruct (recv_unchoke (-1) h1) as [h2|] eqn:R; [|discriminate]. intros U.
    eapply eff_eq; [eapply eff_trans; [apply (eff_updcs c (set_s true))|eapply eff_trans; [eapply eff_slot; eauto|
      eapply eff_trans; [eapply eff_recv_unchoke; eauto|eapply eff_connection_unqueued; eauto]]]|reflexivity].
  - destruct (negb _); [intros H; inversion H; apply eff_updcs|]. intros U.
    eapply eff_eq; [eapply eff_trans; [apply (eff_updcs c (set_s true))|eapply eff_connection_unqueued; eauto]|reflexivity]. Qed.

Theorem eff_set_not_snubbed v c h h' : set_not_snubbed v c h = Ok h' -> eff 0 h h'.
Proof. unfold set_not_snubbed. destruct (negb (cs_s _)); [intros H; inversion H; apply eff_refl|].
  destruct (negb (cs_q _)); [intros H; inversion H; apply eff_updcs|].
  destruct (cs_u _); [discriminate|].
  destruct (connection_queued c _) eqn:Q; [|discriminate]. intros H.
  eapply eff_eq; [eapply eff_trans; [apply (eff_updcs c (set_s false))|eapply eff_trans; [eapply eff_connection_queued; eauto|eapply eff_try_unchoke_new; eauto]]|reflexivity]. Qed.

(* the loops of balance_entry / retrieve_connections / adjust_choke_range are sequences of slot calls *)
Lemma eff_slot_list v choke l : forall h h', slot_list v choke l h = Ok h' -> exists d, eff d h h'.
Proof. induction l; simpl; intros h h' H.
  - inversion H; subst. exists 0. apply eff_refl.
  - destruct (slot v a choke h) as [[h1 r]|] eqn:S; [|discriminate]. simpl in H.
    destruct (IHl _ _ H) as [d E]. eexists. eapply eff_trans; [eapply eff_slot; eauto|apply E]. Qed.
