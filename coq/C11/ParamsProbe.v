(* WRITTEN by props/c11.py from `harness/c11.cc --params` (compiled code) on every run. Do not edit. *)
From Coq Require Import NArith ZArith List.
Import ListNotations.
Module Probe.
Definition heur_rows : N := 4%N.
Definition order_base : N := 1073741824%N.
Definition order_max_size : N := 4%N.
Definition choke_w0 : list N := [1; 1; 1; 1]%N.
Definition unchoke_w0 : list N := [1; 3; 6; 9]%N.
Definition choke_w1 : list N := [1; 1; 1; 1]%N.
Definition unchoke_w1 : list N := [1; 3; 6; 9]%N.
Definition choke_w2 : list N := [32; 1; 1; 1]%N.
Definition unchoke_w2 : list N := [1; 6; 8; 16]%N.
Definition choke_w3 : list N := [1; 1; 1; 1]%N.
Definition unchoke_w3 : list N := [1; 1; 1; 1]%N.
Definition global_max_cap : N := 1048576%N.
Definition hold_queued_us : Z := 10000000%Z.
Definition hold_unsnub_us : Z := 10000000%Z.
End Probe.
