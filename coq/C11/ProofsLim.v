(* C11 proofs: locality of the slot (only the connection's torrent and its group change),
   bookkeeping of the local containers of cycle, and `limits` for cycle. *)
From Coq Require Import List NArith ZArith Bool Arith Lia Permutation.
From LTV.C11 Require Import Model Proofs Proofs2 ProofsInv ProofsInv2 ProofsInv3 ProofsAlloc.
Import ListNotations.
Local Open Scope Z_scope.

(* what a sequence of slot calls on connections of group g leaves unchanged *)
Record Fr (g : nat) (h h' : half) : Prop := mkFr {
  fr_ctor : h_ctor h' = h_ctor h;
  fr_tgrp : h_tgrp h' = h_tgrp h;
  fr_nt : nt h' = nt h;
  fr_ng : ng h' = ng h;
  fr_q : forall g', g' <> g -> getq h' g' = getq h g';
  fr_qs : forall g', q_max (getq h' g') = q_max (getq h g') /\ q_ents (getq h' g') = q_ents (getq h g') /\ q_heur (getq h' g') = q_heur (getq h g');
  fr_e : forall t, grp_of h t <> g -> getent h' t = getent h t;
  fr_lim : forall t, e_max (getent h' t) = e_max (getent h t) /\ e_min (getent h' t) = e_min (getent h t);
  fr_cur : h_cur h' = h_cur h /\ h_max h' = h_max h }.

Lemma Fr_refl g h : Fr g h h.
Proof. constructor; auto. Qed.
Lemma Fr_trans g h1 h2 h3 : Fr g h1 h2 -> Fr g h2 h3 -> Fr g h1 h3.
Proof. intros A B. destruct A, B. constructor; try congruence.
  - intros g' N. rewrite fr_q1, fr_q0; auto.
  - intros g'. destruct (fr_qs0 g') as (a & b & c), (fr_qs1 g') as (a' & b' & c'). repeat split; congruence.
  - intros t N. rewrite fr_e1, fr_e0; auto. unfold grp_of in *. rewrite fr_tgrp0. auto.
  - intros t. destruct (fr_lim0 t), (fr_lim1 t). split; congruence.
  - destruct fr_cur0, fr_cur1. split; congruence.
Qed.

Lemma q_add_proj a b q : q_max (q_add a b q) = q_max q /\ q_ents (q_add a b q) = q_ents q /\ q_heur (q_add a b q) = q_heur q.
Proof. auto. Qed.

Lemma getq_updq_proj {B} (p : queue -> B) g F h g' : (forall q, p (F q) = p q) -> p (getq (updq g F h) g') = p (getq h g').
Proof. intros H. unfold getq, updq, with_qs; cbn [h_qs]. apply nth_upd_proj. auto. Qed.
Lemma getent_upde_proj {B} (p : entry -> B) t F h t' : (forall e, p (F e) = p e) -> p (getent (upde t F h) t') = p (getent h t').
Proof. intros H. unfold getent, upde, with_ents; cbn [h_ents]. apply nth_upd_proj. auto. Qed.

(* a state change made of updates of connection statuses, of entry t (lists only), of the torrent
   counter and of the counters of queue g *)
Lemma Fr_basic g h t F dq du fc c z :
  grp_of h t = g -> (forall e, e_max (F e) = e_max e /\ e_min (F e) = e_min e) ->
  Fr g h (updq g (q_add dq du) (upde t F (updtn t z (updcs c fc h)))).
Proof.
  intros G HF. constructor; try reflexivity.
  - unfold nt. unfold updq, upde, with_qs, with_ents. cbn [h_ents]. apply length_upd.
  - rewrite ng_updq. reflexivity.
  - intros g' N. rewrite getq_updq_neq by auto. reflexivity.
  - intros g'. repeat split; (etransitivity; [apply getq_updq_proj; reflexivity|reflexivity]).
  - intros t' N. rewrite getent_updq. rewrite getent_upde_neq by congruence. reflexivity.
  - intros t'. rewrite getent_updq. split; (etransitivity; [apply (getent_upde_proj _ t F); intros; apply HF|reflexivity]).
  - split; reflexivity.
Qed.

Lemma inner_Fr c h h' : set_not_queued_inner c h = Ok h' -> Fr (grp_of h (tor_of h c)) h h'.
Proof.
  unfold set_not_queued_inner. set (t := tor_of h c). set (g := grp_of h t).
  destruct (negb (cs_q (getcs h c))).
  - intros X; inversion X; subst. apply Fr_refl.
  - destruct (cs_s (getcs h c)).
    + intros X; inversion X; subst. constructor; try reflexivity; auto; intros; repeat split; reflexivity.
    + destruct (remove_swap c _) as [q'|]; [|discriminate]. intros X; inversion X; subst.
      assert (Y := Fr_basic g h t (e_setq q') (-1) 0 (set_q false) c 0).
      rewrite updtn_0 in Y. apply Y; auto.
Qed.

Lemma slot_Fr v c choke h h' r : slot v c choke h = Ok (h', r) -> Fr (grp_of h (tor_of h c)) h h'.
Proof.
  unfold slot. destruct (Bool.eqb _ _); [discriminate|].
  set (t := tor_of h c). set (g := grp_of h t). destruct choke.
  - destruct (remove_swap c _) as [u'|]; [|discriminate]. destruct (has c _); [discriminate|].
    set (h2 := updq g _ _).
    assert (F2 : Fr g h h2) by (apply Fr_basic; auto).
    destruct (v_dir v); cbv iota; [intros X; inversion X; subst; auto|].
    destruct (cs_r _); cbv iota; [intros X; inversion X; subst; auto|].
    destruct (set_not_queued_inner c h2) as [h3|] eqn:SI; cbv iota beta; [|discriminate].
    intros X; inversion X; subst. eapply Fr_trans; [exact F2|]. apply inner_Fr in SI. exact SI.
  - destruct (remove_swap c _) as [q'|]; [|discriminate]. destruct (has c _); [discriminate|].
    intros X; inversion X; subst. apply Fr_basic; auto.
Qed.

(* the queue counter of the connection's group moves by one *)
Lemma slot_qcu d v c choke h h' r : v_dir v = d -> InvL d h -> slot v c choke h = Ok (h', r) ->
  q_cu (getq h' (grp_of h (tor_of h c))) = q_cu (getq h (grp_of h (tor_of h c))) + (if choke then -1 else 1).
Proof.
  intros Hd I S. pose proof (iv_wf _ _ I) as W. pose proof (grp_lt h (tor_of h c) W) as Hg.
  destruct (slot_inv d v c choke h h' r Hd I S) as [_ Er].
  revert S. unfold slot. destruct (Bool.eqb _ _); [discriminate|].
  set (t := tor_of h c) in *. set (g := grp_of h t) in *. destruct choke.
  - destruct (remove_swap c _) as [u'|]; [|discriminate]. destruct (has c _); [discriminate|].
    destruct (v_dir v).
    + intros H; injection H as <- _. rewrite getq_updq_eq by (dims; exact Hg). gs. simpl. lia.
    + destruct (cs_r _); [intros H; injection H as <- _; rewrite getq_updq_eq by (dims; exact Hg); gs; simpl; lia|].
      destruct (set_not_queued_inner _ _); [|discriminate]. intros H; injection H as _ <-. discriminate.
  - destruct (remove_swap c _) as [q'|]; [|discriminate]. destruct (has c _); [discriminate|].
    intros H; injection H as <- _. rewrite getq_updq_eq by (dims; exact Hg). gs. simpl. lia.
Qed.
