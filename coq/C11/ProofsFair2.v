(* C11 proofs: bounded-wait fairness for k waiters.  When the number of waiting (queued, choked, not snubbed)
   connections of a group does not exceed what one cycle asks adjust_choke_range to unchoke
   (cycle_request: max(quota - unchoked, alternate) capped by the quota), EVERY waiting connection of the
   group is unchoked by that one cycle, whatever the weights / random() are. *)
From Coq Require Import List NArith ZArith Bool Arith Lia Permutation.
From LTV.C11 Require Import Model Proofs Proofs2 ProofsInv ProofsInv2 ProofsInv3 ProofsAlloc ProofsLim ProofsLim2 ProofsLim3 ProofsNT ProofsNT2 ProofsNT3 ProofsFair.
Import ListNotations.
Local Open Scope Z_scope.

(* what choke_queue::cycle asks its unchoke pass for, in a group without min_slots reservations:
     quota  = min(quota, max_unchoked);  adjust = min(max(quota - |unchoked| or 0, max_alternate()), quota) *)
Definition cycle_request (quota : N) (q : queue) : N :=
  let quota1 := N.min quota (q_max q) in
  let U := Z.to_N (q_cu q) in
  N.min (N.max (if (U <? quota1)%N then (quota1 - U)%N else 0%N) (max_alternate q)) quota1.

(* ---------------------------------------------------------------- the classes cover the range *)
Lemma my_skipn_skipn {A} : forall b a (l : list A), skipn a (skipn b l) = skipn (a + b) l.
Proof. induction b; intros a l; [rewrite Nat.add_0_r; reflexivity|].
  rewrite Nat.add_succ_r. destruct l; [rewrite !skipn_nil; reflexivity|]. simpl. apply IHb. Qed.

Lemma skipn_split {A} (l : list A) lo m x : (lo <= m)%nat -> In x (skipn lo l) ->
  In x (slice l lo (m - lo)) \/ In x (skipn m l).
Proof. intros L H. unfold slice. rewrite <- (firstn_skipn (m - lo) (skipn lo l)) in H. apply in_app_or in H.
  destruct H as [H|H]; [left; auto|right]. rewrite my_skipn_skipn in H. replace (m - lo + lo)%nat with m in H by lia. auto. Qed.

Lemma slice_cover {A} (l : list A) b1 b2 b3 x : (b1 <= b2 <= b3)%nat -> (b3 <= length l)%nat -> In x l ->
  In x (slice l 0 b1) \/ In x (slice l b1 (b2 - b1)) \/ In x (slice l b2 (b3 - b2)) \/ In x (slice l b3 (length l - b3)).
Proof.
  intros B1 B2 H. assert (H0 : In x (skipn 0 l)) by exact H.
  destruct (skipn_split l 0 b1 x ltac:(lia) H0) as [X|X]; [left; rewrite Nat.sub_0_r in X; auto|right].
  destruct (skipn_split l b1 b2 x ltac:(lia) X) as [Y|Y]; [left; auto|right].
  destruct (skipn_split l b2 b3 x ltac:(lia) Y) as [Z|Z]; [left; auto|right].
  unfold slice. rewrite firstn_all2; auto. rewrite skipn_length. lia.
Qed.

(* when the request covers the whole range, adjust_choke_range flips EVERY connection of the range *)
Theorem acr_all d v heur g range mx choke h h' cnt : v_dir v = d -> InvL d h -> NoDup (ids range) ->
  POK g choke h (ids range) -> (forall p, In p range -> (snd p < two32)%N) ->
  adjust_choke_range v heur range mx choke h = Ok (h', cnt) -> (lenN range <= mx)%N ->
  forall c, In c (ids range) -> cs_u (getcs h' c) = negb choke /\ cs_a (getcs h' c) = true.
Proof.
  intros Hd I ND P WB. unfold adjust_choke_range.
  destruct (bounds_spec_full range WB) as (b1 & b2 & b3 & EB & B1 & B2). rewrite EB.
  set (b4 := length range) in *. cbn [sizes]. rewrite !Nat.sub_0_r.
  destruct (allocate_slots _ _ mx h) as [[tg h0]|e] eqn:A; cbv beta iota; [|intros X; discriminate X].
  destruct (allocate_slots_exact_real heur choke _ _ _ _ mx h tg h0 A) as (_ & TB & TS).
  pose proof (TB 0%nat ltac:(lia)) as T0. pose proof (TB 1%nat ltac:(lia)) as T1.
  pose proof (TB 2%nat ltac:(lia)) as T2. pose proof (TB 3%nat ltac:(lia)) as T3. cbn [nthN nth] in T0, T1, T2, T3.
  unfold sum4 in TS.
  assert (I0 : InvL d h0 /\ LEff g (fun _ => False) h h0).
  { destruct (alloc_state _ _ _ _ _ _ A) as [->|[x ->]]; [split; auto; apply LEff_refl|]. split; [apply inv_with_rs; auto|apply LEff_with_rs]. }
  destruct I0 as (I0 & E0). clear A.
  assert (P0 : POK g choke h0 (ids range)) by (eapply POK_frame; [exact E0| |exact P]; intros; tauto).
  cbn [nthN nth] in *.
  set (t0 := nthN tg 0) in *. set (t1 := nthN tg 1) in *. set (t2 := nthN tg 2) in *. set (t3 := nthN tg 3) in *.
  set (R := ids range) in *.
  assert (LR : length R = b4) by (unfold R, ids; rewrite map_length; reflexivity).
  assert (Sub : forall lo n c, In c (slice R lo n) -> In c R) by (intros lo n c X; unfold slice in X; eapply slice_In; eauto).
  assert (PS : forall hh lo n, POK g choke hh R -> POK g choke hh (slice R lo n)) by (intros hh lo n PP c X; apply PP; eapply Sub; eauto).
  destruct (N.of_nat (b4 - b3) <? t3)%N eqn:C3; [apply N.ltb_lt in C3; lia|].
  destruct (class_ok_flags d v choke g range (b4 - N.to_nat t3) (N.to_nat t3) h0 Hd I0 ND (PS _ _ _ P0)) as (h3 & S3 & I3 & E3 & F3).
  rewrite S3. cbv beta iota.
  assert (Pr3 : forall lo n, (lo + n <= b4 - N.to_nat t3)%nat -> POK g choke h3 (slice R lo n)).
  { intros lo n L. eapply POK_frame; [exact E3| |apply PS; exact P0]. intros c X Y. eapply (slice_disjoint R lo n); eauto. }
  destruct (N.of_nat (b3 - b2) <? t2)%N eqn:C2; [apply N.ltb_lt in C2; lia|].
  destruct (class_ok_flags d v choke g range (b3 - N.to_nat t2) (N.to_nat t2) h3 Hd I3 ND (Pr3 (b3 - N.to_nat t2)%nat (N.to_nat t2) ltac:(lia))) as (h2 & S2 & I2 & E2 & F2).
  rewrite S2. cbv beta iota.
  assert (Pr2 : forall lo n, (lo + n <= b3 - N.to_nat t2)%nat -> POK g choke h2 (slice R lo n)).
  { intros lo n L. eapply POK_frame; [exact E2| |apply Pr3; lia]. intros c X Y. eapply (slice_disjoint R lo n); eauto. }
  destruct (N.of_nat (b2 - b1) <? t1)%N eqn:C1; [apply N.ltb_lt in C1; lia|].
  destruct (class_ok_flags d v choke g range (b2 - N.to_nat t1) (N.to_nat t1) h2 Hd I2 ND (Pr2 (b2 - N.to_nat t1)%nat (N.to_nat t1) ltac:(lia))) as (h1 & S1 & I1 & E1 & F1).
  rewrite S1. cbv beta iota.
  assert (Pr1 : forall lo n, (lo + n <= b2 - N.to_nat t1)%nat -> POK g choke h1 (slice R lo n)).
  { intros lo n L. eapply POK_frame; [exact E1| |apply Pr2; lia]. intros c X Y. eapply (slice_disjoint R lo n); eauto. }
  destruct (N.of_nat b1 <? t0)%N eqn:C0; [apply N.ltb_lt in C0; lia|].
  destruct (class_ok_flags d v choke g range (b1 - N.to_nat t0) (N.to_nat t0) h1 Hd I1 ND (Pr1 (b1 - N.to_nat t0)%nat (N.to_nat t0) ltac:(lia))) as (h00 & S0 & I00 & E00 & F00).
  rewrite S0. cbv beta iota.
  destruct (mx <? t0 + t1 + t2 + t3)%N eqn:CM; [intros X; discriminate X|].
  intros X Hall. inversion X; subst h' cnt. clear X.
  assert (K2 : forall c lo n, In c (slice R lo n) -> (b3 <= lo)%nat -> getcs h2 c = getcs h3 c).
  { intros c lo n X L. apply (le_cs _ _ _ _ E2). intros Y. eapply (slice_disjoint R (b3 - N.to_nat t2) (N.to_nat t2) lo n); eauto. lia. }
  assert (K1 : forall c lo n, In c (slice R lo n) -> (b2 <= lo)%nat -> getcs h1 c = getcs h2 c).
  { intros c lo n X L. apply (le_cs _ _ _ _ E1). intros Y. eapply (slice_disjoint R (b2 - N.to_nat t1) (N.to_nat t1) lo n); eauto. lia. }
  assert (K0 : forall c lo n, In c (slice R lo n) -> (b1 <= lo)%nat -> getcs h00 c = getcs h1 c).
  { intros c lo n X L. apply (le_cs _ _ _ _ E00). intros Y. eapply (slice_disjoint R (b1 - N.to_nat t0) (N.to_nat t0) lo n); eauto. lia. }
  (* every class is taken completely *)
  assert (LN : lenN range = N.of_nat b4) by reflexivity.
  assert (Q0 : N.to_nat t0 = b1) by lia. assert (Q1 : N.to_nat t1 = (b2 - b1)%nat) by lia.
  assert (Q2 : N.to_nat t2 = (b3 - b2)%nat) by lia. assert (Q3 : N.to_nat t3 = (b4 - b3)%nat) by lia.
  intros c Hc.
  destruct (slice_cover R b1 b2 b3 c ltac:(lia) ltac:(lia) Hc) as [X|[X|[X|X]]].
  - apply F00. rewrite Q0. replace (b1 - b1)%nat with O by lia. exact X.
  - rewrite (K0 c _ _ X ltac:(lia)). apply F1. rewrite Q1. replace (b2 - (b2 - b1))%nat with b1 by lia. exact X.
  - rewrite (K0 c _ _ X ltac:(lia)), (K1 c _ _ X ltac:(lia)). apply F2. rewrite Q2. replace (b3 - (b3 - b2))%nat with b2 by lia. exact X.
  - rewrite (K0 c _ _ X ltac:(lia)), (K1 c _ _ X ltac:(lia)), (K2 c _ _ X ltac:(lia)). apply F3. rewrite Q3.
    replace (b4 - (b4 - b3))%nat with b3 by lia. rewrite <- LR. exact X.
Qed.

(* ---------------------------------------------------------------- retrieve_connections takes every waiter *)
Lemma lastn_all {A} (l : list A) : lastn (length l) l = l.
Proof. unfold lastn. rewrite Nat.sub_diag. reflexivity. Qed.

Lemma retrieve_all v : forall ts h gs q u h' gs' q' u',
  (forall t, In t ts -> e_min (getent h t) = 0%N) ->
  (forall t, In t ts -> (lenN (e_q (getent h t)) + lenN (e_u (getent h t)) <= e_max (getent h t))%N) ->
  retrieve_connections v ts (h, gs, q, u) = Ok (h', gs', q', u') ->
  (forall c, In c (ids q) -> In c (ids q')) /\
  (forall t c, In t ts -> In c (ids (e_q (getent h t))) -> In c (ids q')) /\
  lenZ q' <= lenZ q + sumZ (map (fun t => lenZ (e_q (getent h t))) ts).
Proof.
  induction ts as [|t ts IH]; intros h gs q u h' gs' q' u' Hm Hr H.
  - simpl in H. inversion H; subst. split; auto. split; [intros t c []|simpl; lia].
  - change (retrieve_connections v (t :: ts) (h, gs, q, u)) with
      (do acc' <- retrieve_entry v t (h, gs, q, u); retrieve_connections v ts acc') in H.
    unfold retrieve_entry in H. rewrite (Hm t (or_introl eq_refl)) in H.
    replace (N.min 0 (e_max (getent h t))) with 0%N in H by lia.
    assert (Z : (lenN (e_u (getent h t)) <? 0)%N = false) by (apply N.ltb_ge; lia). rewrite Z in H. cbv beta iota in H.
    pose proof (Hr t (or_introl eq_refl)) as Rt.
    match type of H with context [retrieve_connections v ts (h, ?g1, ?q1, ?u1)] =>
      destruct (IH h g1 q1 u1 h' gs' q' u' (fun t' X => Hm t' (or_intror X)) (fun t' X => Hr t' (or_intror X)) H) as (A & B & C) end.
    unfold sumZ in *. cbn [map fold_right].
    destruct (lenN (e_u (getent h t)) <? e_max (getent h t))%N eqn:LT.
    + apply N.ltb_lt in LT.
      assert (K : N.to_nat (N.min (lenN (e_q (getent h t))) (e_max (getent h t) - lenN (e_u (getent h t)))) = length (e_q (getent h t))).
      { unfold lenN in *. lia. }
      rewrite K, lastn_all in A, C.
      split; [|split].
      * intros c X. apply A. unfold ids. rewrite map_app. apply in_or_app. left. exact X.
      * intros t' c [<-|X] Y; [|eapply B; eauto]. apply A. unfold ids. rewrite map_app. apply in_or_app. right. exact Y.
      * unfold lenZ in *. rewrite app_length in C. lia.
    + apply N.ltb_ge in LT.
      assert (K : e_q (getent h t) = []).
      { destruct (e_q (getent h t)); auto. unfold lenN in *. simpl length in *. lia. }
      split; [|split].
      * intros c X. apply A. exact X.
      * intros t' c [<-|X] Y; [|eapply B; eauto]. rewrite K in Y. destruct Y.
      * rewrite K. unfold lenZ in *. simpl. lia.
Qed.

(* ---------------------------------------------------------------- k waiters that fit the request *)
Theorem fairness_k_waiters d v g quota h h' z : v_dir v = d -> InvL d h -> (g < ng h)%nat ->
  (forall t, In t (q_ents (getq h g)) -> e_min (getent h t) = 0%N) ->
  (forall t, In t (q_ents (getq h g)) -> (lenN (e_q (getent h t)) + lenN (e_u (getent h t)) <= e_max (getent h t))%N) ->
  q_cq (getq h g) <= Z.of_N (cycle_request quota (getq h g)) ->
  cycle v g quota h = Ok (h', z) ->
  forall c, waiting h g c -> cs_u (getcs h' c) = true /\ cs_a (getcs h' c) = true.
Proof.
  intros Hd I Hg Hmin Hroom Hfit. unfold cycle.
  set (q := getq h g) in *. set (h1 := prepare_weights v g h).
  pose proof (prepare_weights_inv d v g h I) as I1. fold h1 in I1.
  pose proof (CEff_prepare d v g h I Hg) as E1. fold h1 in E1.
  pose proof (prepare_weights_PW v g h) as PW1. fold h1 in PW1.
  destruct (iv_qe _ _ I g Hg) as [NDe Me].
  assert (Hts : forall t, In t (q_ents q) -> (t < nt h1)%nat /\ grp_of h1 t = g /\ WBt h1 t).
  { intros t X. pose proof X as X0. apply Me in X. rewrite (ce_nt _ _ _ E1). unfold grp_of. rewrite (ce_tgrp _ _ _ E1).
    split; [tauto|]. split; [tauto|]. apply (prepare_weights_WB v g h); auto. intros t' X'. apply Me in X'. tauto. }
  destruct (retrieve_connections v (q_ents q) (h1, mkGS 0 0, [], [])) as [[[[h2 gs] queued] unchoked]|e] eqn:RC; cbv beta iota; [|intros X; discriminate X].
  assert (Hm1 : forall t, In t (q_ents q) -> e_min (getent h1 t) = 0%N).
  { intros t X. destruct (pw_e _ _ PW1 t) as (_ & -> & _). auto. }
  assert (Hr1 : forall t, In t (q_ents q) -> (lenN (e_q (getent h1 t)) + lenN (e_u (getent h1 t)) <= e_max (getent h1 t))%N).
  { intros t X. destruct (pw_e _ _ PW1 t) as (a & _ & b & c). rewrite a. pose proof (Hroom t X). unfold lenN, lenZ in *. lia. }
  destruct (retrieve_nofill v (q_ents q) h1 (mkGS 0 0) [] [] h2 gs queued unchoked Hm1 RC) as (-> & Gn & _ & _).
  cbn [gs_now] in Gn.
  destruct (retrieve_all v (q_ents q) h1 (mkGS 0 0) [] [] h1 gs queued unchoked Hm1 Hr1 RC) as (_ & AllQ & LenQ).
  assert (R0 : RInv g h1 (mkGS 0 0) [] [] []).
  { unfold RInv, lenZ. split; [simpl; lia|split; [intros c []|split; [intros c []|simpl; lia]]]. }
  destruct (retrieve_effect d v g (q_ents q) h1 (mkGS 0 0) [] [] h1 gs queued unchoked [] Hd I1 NDe (fun t X => conj (proj1 (Hts t X)) (proj1 (proj2 (Hts t X)))) R0 RC) as (_ & _ & _ & R2).
  simpl app in R2. destruct R2 as (S2 & _ & _ & _).
  assert (L0 : RI2 g h1 [] [] []).
  { unfold RI2. simpl. split; [constructor|split; [constructor|split; [intros c []|split; [intros c []|split; [intros c [[]|[]]|split; intros p []]]]]]. }
  destruct (retrieve_lok d v g (q_ents q) h1 (mkGS 0 0) [] [] h1 gs queued unchoked [] Hd I1 NDe Hts L0 RC) as (NDq & NDu & Pq & Pu & _ & Wq & Wu).
  assert (Hg1 : (g < ng h1)%nat) by (rewrite (ce_ng _ _ _ E1); auto).
  assert (Qcu : Z.of_N (lenN unchoked) = q_cu q).
  { unfold q. rewrite <- (pw_q _ _ PW1 g). rewrite <- (sum_u_qcu d h1 g I1 Hg1). unfold sum_u.
    rewrite (fold_left_sumZ (fun t => lenZ (e_u (getent h1 t)))). rewrite (pw_q _ _ PW1 g). fold q. rewrite S2, Gn, lenN_lenZ. lia. }
  assert (Qcq : lenZ queued <= q_cq q).
  { assert (X : sumZ (map (fun t => lenZ (e_q (getent h1 t))) (q_ents q)) = q_cq q).
    { unfold q. rewrite <- (pw_q _ _ PW1 g). rewrite (sum_ents d h1 g e_q I1 Hg1). destruct (iv_qc _ _ I1 g Hg1) as [_ B]. lia. }
    unfold lenZ in *. simpl in LenQ. lia. }
  rewrite Gn. set (quota1 := N.min quota (q_max q)) in *.
  replace (quota1 - N.min quota1 0)%N with quota1 by lia.
  set (adjust := N.min (N.max (if (lenN unchoked <? quota1)%N then (quota1 - lenN unchoked)%N else 0%N) (max_alternate q)) quota1).
  assert (Adj : adjust = cycle_request quota q).
  { unfold adjust, cycle_request. fold quota1. replace (Z.to_N (q_cu q)) with (lenN unchoked) by lia. reflexivity. }
  assert (Fit : (lenN queued <= adjust)%N) by (rewrite Adj; rewrite <- lenN_lenZ in Qcq; lia).
  destruct (adjust_choke_range v (q_heur q) queued adjust false h1) as [[h3 c3]|e] eqn:A3; cbv beta iota; [|intros X; discriminate X].
  pose proof (acr_all d v (q_heur q) g queued adjust false h1 h3 c3 Hd I1 NDq Pq Wq A3 Fit) as All3.
  destruct (acr_effect d v (q_heur q) g queued adjust false h1 h3 c3 Hd I1 (POK_RangeOK _ _ _ _ Pq) A3) as (I3 & E3 & _ & _).
  assert (Res : forall hx, (forall c, In c (ids queued) -> getcs hx c = getcs h3 c) ->
                 forall c, waiting h g c -> cs_u (getcs hx c) = true /\ cs_a (getcs hx c) = true).
  { intros hx Ex c (Hc & Fc & Gc).
    pose proof (iv_wf _ _ I) as W. pose proof (tor_lt h c W) as Ht.
    assert (Tin : In (tor_of h c) (q_ents q)) by (apply Me; split; auto).
    assert (Cin : In c (ids queued)).
    { apply (AllQ (tor_of h c) c Tin). apply (iv_mq _ _ I1 (tor_of h c) c); [rewrite (ce_nt _ _ _ E1); auto|].
      unfold nc, getcs, tor_of in *. rewrite (pw_cs _ _ PW1), (pw_ctor _ _ PW1). auto. }
    rewrite (Ex c Cin). apply (All3 c Cin). }
  destruct (quota1 <? lenN unchoked + c3)%N eqn:CU.
  - assert (Pu3 : RangeOK g h3 (ids unchoked)) by (eapply RangeOK_LEff; [exact E3|exact (POK_RangeOK _ _ _ _ Pu)]).
    destruct (adjust_choke_range v (q_heur q) unchoked _ true h3) as [[h4 c4]|e] eqn:A4; cbv beta iota; [|intros X; discriminate X].
    destruct (acr_effect d v (q_heur q) g unchoked _ true h3 h4 c4 Hd I3 Pu3 A4) as (_ & E4 & _ & _).
    cbn [fst snd]. match goal with |- (if ?b then Err _ else _) = _ -> _ => destruct b end; [intros X; discriminate X|]. intros X; inversion X; subst h' z. apply Res.
    intros c Cin. apply (le_cs _ _ _ _ E4). intros Y. destruct (Pu c Y) as (_ & F2 & _). destruct (Pq c Cin) as (_ & F1 & _). simpl in F1, F2. eapply inq_inu_excl; eauto.
  - match goal with |- (if ?b then Err _ else _) = _ -> _ => destruct b end; [intros X; discriminate X|]. intros X; inversion X; subst h' z. apply Res. reflexivity.
Qed.

(* ---------------------------------------------------------------- several groups: one tick *)
(* group g has no min_slots reservations, room below max_slots for every waiter, and its queued count
   fits what a cycle with the given quota asks for *)
Definition group_fits (quota : N) (h : half) (g : nat) : Prop :=
  (forall t, In t (q_ents (getq h g)) -> e_min (getent h t) = 0%N) /\
  (forall t, In t (q_ents (getq h g)) -> (lenN (e_q (getent h t)) + lenN (e_u (getent h t)) <= e_max (getent h t))%N) /\
  q_cq (getq h g) <= Z.of_N (cycle_request quota (getq h g)).

(* a cycle of group g leaves the waiting / unchoked status of every other group's connections alone *)
Lemma cycle_frame d v g quota h h' z : v_dir v = d -> InvL d h -> (g < ng h)%nat -> cycle v g quota h = Ok (h', z) ->
  InvL d h' /\ CEff g h h' /\
  forall c, (c < nc h)%nat -> grp_of h (tor_of h c) <> g ->
    (inq (getcs h c) = true -> inq (getcs h' c) = true) /\ (inu (getcs h c) = true -> inu (getcs h' c) = true).
Proof.
  intros Hd I Hg C. destruct (cycle_effect d v g quota h h' z Hd I Hg C) as (I' & E & _). split; auto. split; auto.
  intros c Hc Gc. pose proof (iv_wf _ _ I) as W. pose proof (tor_lt h c W) as Ht.
  assert (T' : tor_of h' c = tor_of h c) by (unfold tor_of; rewrite (ce_ctor _ _ _ E); reflexivity).
  assert (Ht' : (tor_of h c < nt h')%nat) by (rewrite (ce_nt _ _ _ E); exact Ht).
  pose proof (ce_e _ _ _ E (tor_of h c) Gc) as Ee.
  split; intros F.
  - assert (X : In c (ids (e_q (getent h' (tor_of h c))))) by (rewrite Ee; apply (iv_mq _ _ I _ c Ht); auto).
    apply (iv_mq _ _ I' _ c Ht') in X. tauto.
  - assert (X : In c (ids (e_u (getent h' (tor_of h c))))) by (rewrite Ee; apply (iv_mu _ _ I _ c Ht); auto).
    apply (iv_mu _ _ I' _ c Ht') in X. tauto.
Qed.

Lemma group_fits_frame d quota g g' h h' : InvL d h -> (g' < ng h)%nat -> CEff g h h' -> g' <> g ->
  group_fits quota h g' -> group_fits quota h' g'.
Proof.
  intros I Hg' E N (A & B & C). destruct (iv_qe _ _ I g' Hg') as [_ M]. unfold group_fits. rewrite (ce_q _ _ _ E g' N).
  assert (Ee : forall t, In t (q_ents (getq h g')) -> getent h' t = getent h t).
  { intros t X. apply (ce_e _ _ _ E). apply M in X. destruct X as [_ X]. rewrite X. exact N. }
  split; [|split; auto]; intros t X; rewrite (Ee t X); auto.
Qed.

Lemma bal_unl_fair d v : forall gs h ch h' ch', v_dir v = d -> InvL d h -> NoDup gs ->
  (forall g, In g gs -> (g < ng h)%nat /\ group_fits unlimited h g) ->
  bal_groups_unl v gs h ch = Ok (h', ch') ->
  (forall c, (c < nc h)%nat -> inu (getcs h c) = true -> ~ In (grp_of h (tor_of h c)) gs -> inu (getcs h' c) = true) /\
  (forall c, (c < nc h)%nat -> inq (getcs h c) = true -> In (grp_of h (tor_of h c)) gs -> inu (getcs h' c) = true).
Proof.
  induction gs as [|g r IH]; intros h ch h' ch' Hd I ND Hg H.
  - simpl in H. inversion H; subst. split; [auto|intros c _ _ []].
  - cbn [bal_groups_unl] in H. destruct (cycle v g unlimited h) as [[h1 z]|e] eqn:C; [|discriminate]. cbn [fst snd] in H.
    apply NoDup_cons_iff in ND. destruct ND as [Ng NDr].
    destruct (Hg g (or_introl eq_refl)) as (Hgl & Fm & Fr & Ff).
    destruct (cycle_frame d v g unlimited h h1 z Hd I Hgl C) as (I1 & E & Fo).
    pose proof (fairness_k_waiters d v g unlimited h h1 z Hd I Hgl Fm Fr Ff C) as FK.
    assert (TG : forall c, grp_of h1 (tor_of h1 c) = grp_of h (tor_of h c)).
    { intros c. unfold grp_of, tor_of. rewrite (ce_ctor _ _ _ E), (ce_tgrp _ _ _ E). reflexivity. }
    assert (Hg1 : forall g', In g' r -> (g' < ng h1)%nat /\ group_fits unlimited h1 g').
    { intros g' X. destruct (Hg g' (or_intror X)) as [A B]. rewrite (ce_ng _ _ _ E). split; auto.
      apply (group_fits_frame d unlimited g g' h h1 I A E); [|exact B]. intros Y. subst g'. apply Ng. exact X. }
    destruct (IH h1 _ h' ch' Hd I1 NDr Hg1 H) as (Pa & Pb).
    rewrite (ce_nc _ _ _ E) in Pa, Pb.
    split; intros c Hc F G.
    + apply Pa; auto.
      * apply Fo; auto. intros X. apply G. left. congruence.
      * rewrite TG. intros X. apply G. right. exact X.
    + destruct (Nat.eq_dec (grp_of h (tor_of h c)) g) as [X|X].
      * apply Pa; auto.
        -- destruct (FK c) as [U A]; [split; auto|]. unfold inu. rewrite U, A. reflexivity.
        -- rewrite TG, X. exact Ng.
      * apply Pb; auto.
        -- apply Fo; auto.
        -- rewrite TG. destruct G as [G|G]; [congruence|exact G].
Qed.

(* ResourceManager::receive_tick, one direction, no global maximum (max_unchoked = 0: every group is
   cycled with an unlimited quota): if every group fits, ONE tick unchokes every waiting connection of
   every group. *)
Theorem fairness_tick_groups d v h h' : v_dir v = d -> InvL d h -> h_max h = 0%N ->
  (forall g, (g < ng h)%nat -> group_fits unlimited h g) ->
  balance_unchoked v h = Ok h' ->
  forall c, (c < nc h)%nat -> inq (getcs h c) = true -> inu (getcs h' c) = true.
Proof.
  intros Hd I M Hf. unfold balance_unchoked. rewrite M. cbn [N.eqb].
  destruct (bal_groups_unl v (seq 0 (length (h_qs h))) h 0) as [[h1 ch]|e] eqn:B; [|intros X; discriminate X].
  cbn [fst snd]. intros X; inversion X; subst h'. intros c Hc F.
  assert (Hgs : forall g, In g (seq 0 (length (h_qs h))) -> (g < ng h)%nat /\ group_fits unlimited h g).
  { intros g G. apply in_seq in G. assert (g < ng h)%nat by (unfold ng; lia). split; auto. }
  destruct (bal_unl_fair d v _ h 0 h1 ch Hd I (seq_NoDup _ _) Hgs B) as [_ Pb].
  change (getcs (with_cur h1 (h_cur h1 + ch)) c) with (getcs h1 c). apply Pb; auto.
  apply in_seq. pose proof (grp_lt h (tor_of h c) (iv_wf _ _ I)). lia.
Qed.

(* ---------------------------------------------------------------- the hypotheses are satisfiable *)
(* three waiters in one group, request 3: one cycle unchokes all three *)
Definition fair_ops : list (op * list N) :=
  [(ONew 0, []); (ONew 0, []); (ONew 0, []); (OSetQMax Up 0 0%N, []);
   (OQueue Up 0, []); (OQueue Up 1, []); (OQueue Up 2, []); (OSetQMax Up 0 3%N, [])].
Example fairness_k_waiters_nonvacuous :
  match run (init 1 1) fair_ops with
  | Ok s => let h := s_up s in
      group_fits 5 h 0 /\ q_cq (getq h 0) = 3 /\ cycle_request 5 (getq h 0) = 3%N /\
      waiting h 0 0 /\ waiting h 0 1 /\ waiting h 0 2 /\
      match cycle (env_of Up s) 0 5 (with_rs h [7; 8; 9; 1]%N) with
      | Ok (h', _) => cs_u (getcs h' 0) = true /\ cs_u (getcs h' 1) = true /\ cs_u (getcs h' 2) = true
      | Err _ => False end
  | Err _ => False end.
Proof.
  vm_compute. repeat split; try lia; try (intros t [<-|[]]; vm_compute; try reflexivity; intros X; discriminate X); try (intros X; discriminate X).
Qed.

(* two groups, two waiters each, no global maximum: one tick unchokes all four *)
Definition fair_ops2 : list (op * list N) :=
  [(ONew 0, []); (ONew 0, []); (ONew 1, []); (ONew 1, []); (OSetGroup 1 1, []);
   (OSetQMax Up 0 0%N, []); (OSetQMax Up 1 0%N, []);
   (OQueue Up 0, []); (OQueue Up 1, []); (OQueue Up 2, []); (OQueue Up 3, []);
   (OSetQMax Up 0 2%N, []); (OSetQMax Up 1 4%N, [])].
Example fairness_tick_groups_nonvacuous :
  match run (init 2 2) fair_ops2 with
  | Ok s => let h := s_up s in
      h_max h = 0%N /\ ng h = 2%nat /\ group_fits unlimited h 0 /\ group_fits unlimited h 1 /\
      inq (getcs h 0) = true /\ inq (getcs h 1) = true /\ inq (getcs h 2) = true /\ inq (getcs h 3) = true /\
      match balance_unchoked (env_of Up s) (with_rs h [7; 8; 9; 1; 5; 6]%N) with
      | Ok h' => inu (getcs h' 0) = true /\ inu (getcs h' 1) = true /\ inu (getcs h' 2) = true /\ inu (getcs h' 3) = true
      | Err _ => False end
  | Err _ => False end.
Proof.
  vm_compute. repeat split; try lia; try (intros t [<-|[]]; vm_compute; try reflexivity; intros X; discriminate X); try (intros X; discriminate X).
Qed.
