From Coq Require Import Extraction ExtrOcamlBasic.
From LTV.C11 Require Import Model.
Set Extraction Optimize.
Extraction Language OCaml.
Extraction "extracted/c11_model.ml" init init_h step run wire_accept wobserve.
