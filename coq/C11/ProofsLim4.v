(* C11 proofs: `limits` for ResourceManager::receive_tick in the accepted sum form:
   per group  unchoked_g <= max(max_unchoked_g, forced_g),
   globally   sum_g max(0, unchoked_g - forced_g) <= max_unchoked. *)
From Coq Require Import List NArith ZArith Bool Arith Lia Permutation.
From LTV.C11 Require Import Model Proofs Proofs2 ProofsInv ProofsInv2 ProofsInv3 ProofsAlloc ProofsLim ProofsLim2 ProofsLim3.
Import ListNotations.
Local Open Scope Z_scope.

Definition excess (h : half) (g : nat) : Z := Z.max 0 (q_cu (getq h g) - forcedG h g).
Definition group_ok (h : half) (g : nat) : Prop :=
  q_cu (getq h g) <= Z.max (Z.of_N (q_max (getq h g))) (forcedG h g).

Lemma forcedG_CEff' g g' h h' : CEff g h h' -> forcedG h' g' = forcedG h g'.
Proof. intros E. unfold forcedG. destruct (ce_qs _ _ _ E g') as (_ & -> & _). f_equal. apply map_ext. apply (ce_f _ _ _ E). Qed.
Lemma excess_CEff g g' h h' : CEff g h h' -> g' <> g -> excess h' g' = excess h g'.
Proof. intros E N. unfold excess. rewrite (forcedG_CEff' _ _ _ _ E), (ce_q _ _ _ E) by auto. reflexivity. Qed.
Lemma group_ok_CEff g g' h h' : CEff g h h' -> g' <> g -> group_ok h g' -> group_ok h' g'.
Proof. intros E N. unfold group_ok. rewrite (forcedG_CEff' _ _ _ _ E), (ce_q _ _ _ E) by auto. auto. Qed.

Lemma sumZ_nonneg l : (forall x, In x l -> 0 <= x) -> 0 <= sumZ l.
Proof. induction l; simpl; intros; [lia|]. pose proof (H a (or_introl eq_refl)). assert (0 <= sumZ l) by (apply IHl; intros; apply H; auto). lia. Qed.
Lemma forced1_nonneg h t : 0 <= forced1 h t.
Proof. unfold forced1, sz. pose proof (lenZ_nonneg (e_q (getent h t))). pose proof (lenZ_nonneg (e_u (getent h t))). lia. Qed.
Lemma forcedG_nonneg h g : 0 <= forcedG h g.
Proof. unfold forcedG. apply sumZ_nonneg. intros x X. apply in_map_iff in X. destruct X as (t & <- & _). apply forced1_nonneg. Qed.
Lemma qcu_nonneg d h g : InvL d h -> (g < ng h)%nat -> 0 <= q_cu (getq h g).
Proof. intros I Hg. destruct (iv_qc _ _ I g Hg) as [-> _]. unfold gsum. apply sumZ_nonneg.
  intros x X. apply in_map_iff in X. destruct X as (t & <- & _). destruct (Nat.eqb _ _); [apply lenZ_nonneg|lia]. Qed.

Lemma bal_groups_limit d v : forall gsl quota weight h ch h' ch' w' done M,
  v_dir v = d -> InvL d h -> NoDup (done ++ gsl) -> (forall g, In g gsl -> (g < ng h)%nat) ->
  (quota < two32)%N ->
  sumZ (map (excess h) done) + Z.of_N quota <= M ->
  (forall g, In g done -> group_ok h g) ->
  bal_groups v gsl quota weight h ch = Ok (h', ch', w') ->
  InvL d h' /\ sumZ (map (excess h') (done ++ gsl)) <= M /\ (forall g, In g (done ++ gsl) -> group_ok h' g) /\
  ng h' = ng h /\ h_max h' = h_max h.
Proof.
  induction gsl as [|g r IH]; intros quota weight h ch h' ch' w' done M Hd I ND Hg Hq HM HO H.
  - simpl in H. inversion H; subst. rewrite app_nil_r. pose proof (N2Z.is_nonneg quota). split; [auto|split; [lia|split; [auto|split; reflexivity]]].
  - cbn [bal_groups] in H. set (qi := if (weight =? 0)%N then 0%N else (quota / weight)%N) in *.
    destruct (cycle v g qi h) as [[h1 z]|] eqn:C; [|discriminate].
    pose proof (Hg g (or_introl eq_refl)) as Hgg.
    destruct (cycle_effect d v g qi h h1 z Hd I Hgg C) as (I1 & E1 & L1 & _).
    assert (Qi : (qi <= quota)%N).
    { unfold qi. destruct (weight =? 0)%N eqn:W; [lia|]. apply N.eqb_neq in W. apply N.div_le_upper_bound; auto.
      destruct weight; [congruence|]. nia. }
    assert (Gnot : ~ In g done).
    { intros X. apply NoDup_remove_2 in ND. apply ND. apply in_or_app. auto. }
    pose proof (qcu_nonneg d h1 g I1 ltac:(rewrite (ce_ng _ _ _ E1); auto)) as CU0.
    pose proof (forcedG_nonneg h1 g) as FG0.
    set (cu := q_cu (getq h1 g)) in *.
    set (quota2 := (quota - N.min quota (w32 (Z.to_N cu)))%N) in *.
    assert (Step : excess h1 g + Z.of_N quota2 <= Z.of_N quota).
    { unfold excess. fold cu. destruct (Z_le_gt_dec cu (forcedG h1 g)) as [Le|Gt].
      - rewrite Z.max_l by lia. subst quota2. lia.
      - assert (CQ : cu <= Z.of_N qi) by lia.
        assert (W : w32 (Z.to_N cu) = Z.to_N cu).
        { unfold w32. apply N.mod_small. unfold two32 in *. lia. }
        subst quota2. rewrite W. rewrite N.min_r by lia. rewrite N2Z.inj_sub by lia. rewrite Z2N.id by lia. lia. }
    assert (OK1 : group_ok h1 g).
    { unfold group_ok. fold cu. destruct (ce_qs _ _ _ E1 g) as (-> & _ & _). lia. }
    assert (Same : sumZ (map (excess h1) done) = sumZ (map (excess h) done)).
    { f_equal. apply map_ext_in. intros g' X. apply (excess_CEff _ _ _ _ E1). intros ->. auto. }
    assert (ND' : NoDup ((done ++ [g]) ++ r)) by (rewrite <- app_assoc; exact ND).
    assert (Hg' : forall g', In g' r -> (g' < ng h1)%nat) by (intros g' X; rewrite (ce_ng _ _ _ E1); apply Hg; right; auto).
    assert (Hq' : (quota2 < two32)%N) by (subst quota2; lia).
    assert (HM' : sumZ (map (excess h1) (done ++ [g])) + Z.of_N quota2 <= M).
    { rewrite map_app. cbn [map].
      assert (X : forall l x, sumZ (l ++ [x]) = sumZ l + x) by (induction l; simpl; intros; [lia|rewrite IHl; lia]).
      rewrite X, Same. lia. }
    assert (HO' : forall g', In g' (done ++ [g]) -> group_ok h1 g').
    { intros g' X. apply in_app_or in X. destruct X as [X|[<-|[]]]; auto.
      apply (group_ok_CEff _ _ _ _ E1); auto. intros ->. auto. }
    destruct (IH quota2 _ h1 _ h' ch' w' (done ++ [g]) M Hd I1 ND' Hg' Hq' HM' HO' H) as (I2 & S2 & O2 & N2 & M2).
    rewrite <- app_assoc in S2, O2. split; [auto|split; [auto|split; [auto|split]]].
    + rewrite N2. apply (ce_ng _ _ _ E1).
    + rewrite M2. apply (ce_cur _ _ _ E1).
Qed.

Lemma ins_grp_perm h x : forall l, Permutation (ins_grp h x l) (x :: l).
Proof. induction l as [|y r IH]; simpl; auto. destruct (_ <? _)%N; auto. eapply perm_trans; [apply perm_skip, IH|apply perm_swap]. Qed.
Lemma sorted_perm h : forall l acc, Permutation (fold_left (fun a g => ins_grp h g a) l acc) (l ++ acc).
Proof. induction l as [|x r IH]; simpl; intros acc; auto. eapply perm_trans; [apply IH|].
  eapply perm_trans; [apply Permutation_app_head, ins_grp_perm|]. apply Permutation_sym, Permutation_middle. Qed.

(* limits for one side of receive_tick *)
Theorem tick_limit d v h h' : v_dir v = d -> InvL d h -> h_max h <> 0%N -> (h_max h < two32)%N ->
  balance_unchoked v h = Ok h' ->
  InvL d h' /\ ng h' = ng h /\ h_max h' = h_max h /\
  (forall g, (g < ng h')%nat -> group_ok h' g) /\
  sumZ (map (excess h') (seq 0 (ng h'))) <= Z.of_N (h_max h').
Proof.
  intros Hd I M0 M32. unfold balance_unchoked. apply N.eqb_neq in M0. rewrite M0.
  set (sorted := fold_left (fun acc g => ins_grp h g acc) (seq 0 (length (h_qs h))) []).
  assert (P : Permutation sorted (seq 0 (ng h))).
  { unfold sorted. eapply perm_trans; [apply sorted_perm|]. rewrite app_nil_r. apply Permutation_refl. }
  destruct (bal_groups v sorted _ _ h 0) as [[[h1 ch] w]|] eqn:B; [|discriminate].
  destruct (negb _); [discriminate|]. intros X; inversion X; subst h'. clear X.
  assert (ND : NoDup ([] ++ sorted)) by (simpl; eapply Permutation_NoDup; [apply Permutation_sym, P|apply seq_NoDup]).
  assert (Hg : forall g, In g sorted -> (g < ng h)%nat).
  { intros g X. eapply Permutation_in in X; [|exact P]. apply in_seq in X. lia. }
  destruct (bal_groups_limit d v sorted _ _ h 0 h1 ch w [] (Z.of_N (h_max h)) Hd I ND Hg M32 ltac:(simpl; lia) ltac:(intros g []) B) as (I1 & S1 & O1 & N1 & X1).
  simpl app in *.
  assert (IW : InvL d (with_cur h1 (h_cur h1 + ch))) by (apply inv_with_cur; auto).
  change (ng (with_cur h1 (h_cur h1 + ch))) with (ng h1). change (h_max (with_cur h1 (h_cur h1 + ch))) with (h_max h1).
  split; auto. split; auto. split; auto. split.
  - intros g Hg1. unfold group_ok. change (getq (with_cur h1 (h_cur h1 + ch)) g) with (getq h1 g).
    change (forcedG (with_cur h1 (h_cur h1 + ch)) g) with (forcedG h1 g). apply O1.
    eapply Permutation_in; [apply Permutation_sym, P|]. apply in_seq. rewrite <- N1. lia.
  - rewrite X1, N1. rewrite <- (sumZ_perm _ _ (Permutation_map _ P)). exact S1.
Qed.
