(* C11 proofs, part 4: every primitive and every operation preserves InvL. *)
From Coq Require Import List NArith ZArith Bool Arith Lia Permutation.
From LTV.C11 Require Import Model Proofs ProofsInv.
Import ListNotations.
Local Open Scope Z_scope.

(* getters through the update functions (peeled layer by layer; [simpl] on the nested record
   terms is exponential) *)
Definition ntn h := length (h_tn h).
Section Getters.
Variables (h : half) (c c' t t' g g' : nat) (fc : cstat -> cstat) (fe : entry -> entry) (fq : queue -> queue) (z : Z) (x : Z) (rs : list N) (m : N).
Lemma getcs_updq : getcs (updq g fq h) c = getcs h c. Proof. reflexivity. Qed.
Lemma getcs_upde : getcs (upde t fe h) c = getcs h c. Proof. reflexivity. Qed.
Lemma getcs_updtn : getcs (updtn t z h) c = getcs h c. Proof. reflexivity. Qed.
Lemma getcs_wcur : getcs (with_cur h x) c = getcs h c. Proof. reflexivity. Qed.
Lemma getcs_updcs_eq : (c < nc h)%nat -> getcs (updcs c fc h) c = fc (getcs h c).
Proof. intros. unfold getcs, updcs, with_cs. cbn [h_cs]. apply nth_upd_eq. assumption. Qed.
Lemma getcs_updcs_neq : c' <> c -> getcs (updcs c fc h) c' = getcs h c'.
Proof. intros. unfold getcs, updcs, with_cs. cbn [h_cs]. apply nth_upd_neq. assumption. Qed.
Lemma getent_updq : getent (updq g fq h) t = getent h t. Proof. reflexivity. Qed.
Lemma getent_updcs : getent (updcs c fc h) t = getent h t. Proof. reflexivity. Qed.
Lemma getent_updtn : getent (updtn t' z h) t = getent h t. Proof. reflexivity. Qed.
Lemma getent_wcur : getent (with_cur h x) t = getent h t. Proof. reflexivity. Qed.
Lemma getent_upde_eq : (t < nt h)%nat -> getent (upde t fe h) t = fe (getent h t).
Proof. intros. unfold getent, upde, with_ents. cbn [h_ents]. apply nth_upd_eq. assumption. Qed.
Lemma getent_upde_neq : t' <> t -> getent (upde t fe h) t' = getent h t'.
Proof. intros. unfold getent, upde, with_ents. cbn [h_ents]. apply nth_upd_neq. assumption. Qed.
Lemma gettn_updq : gettn (updq g fq h) t = gettn h t. Proof. reflexivity. Qed.
Lemma gettn_updcs : gettn (updcs c fc h) t = gettn h t. Proof. reflexivity. Qed.
Lemma gettn_upde : gettn (upde t' fe h) t = gettn h t. Proof. reflexivity. Qed.
Lemma gettn_wcur : gettn (with_cur h x) t = gettn h t. Proof. reflexivity. Qed.
Lemma gettn_updtn_eq : (t < ntn h)%nat -> gettn (updtn t z h) t = gettn h t + z.
Proof. intros. unfold gettn, updtn, with_tn. cbn [h_tn]. rewrite nth_upd_eq by assumption. reflexivity. Qed.
Lemma gettn_updtn_neq : t' <> t -> gettn (updtn t z h) t' = gettn h t'.
Proof. intros. unfold gettn, updtn, with_tn. cbn [h_tn]. apply nth_upd_neq. assumption. Qed.
Lemma getq_updcs : getq (updcs c fc h) g = getq h g. Proof. reflexivity. Qed.
Lemma getq_upde : getq (upde t fe h) g = getq h g. Proof. reflexivity. Qed.
Lemma getq_updtn : getq (updtn t z h) g = getq h g. Proof. reflexivity. Qed.
Lemma getq_wcur : getq (with_cur h x) g = getq h g. Proof. reflexivity. Qed.
Lemma getq_updq_eq : (g < ng h)%nat -> getq (updq g fq h) g = fq (getq h g).
Proof. intros. unfold getq, updq, with_qs. cbn [h_qs]. apply nth_upd_eq. assumption. Qed.
Lemma getq_updq_neq : g' <> g -> getq (updq g fq h) g' = getq h g'.
Proof. intros. unfold getq, updq, with_qs. cbn [h_qs]. apply nth_upd_neq. assumption. Qed.
Lemma nc_updq : nc (updq g fq h) = nc h. Proof. reflexivity. Qed.
Lemma nc_upde : nc (upde t fe h) = nc h. Proof. reflexivity. Qed.
Lemma nc_updtn : nc (updtn t z h) = nc h. Proof. reflexivity. Qed.
Lemma nc_wcur : nc (with_cur h x) = nc h. Proof. reflexivity. Qed.
Lemma nc_updcs : nc (updcs c fc h) = nc h. Proof. unfold nc, updcs, with_cs. cbn [h_cs]. apply length_upd. Qed.
Lemma nt_updq : nt (updq g fq h) = nt h. Proof. reflexivity. Qed.
Lemma nt_updcs : nt (updcs c fc h) = nt h. Proof. reflexivity. Qed.
Lemma nt_updtn : nt (updtn t z h) = nt h. Proof. reflexivity. Qed.
Lemma nt_wcur : nt (with_cur h x) = nt h. Proof. reflexivity. Qed.
Lemma nt_upde : nt (upde t fe h) = nt h. Proof. unfold nt, upde, with_ents. cbn [h_ents]. apply length_upd. Qed.
Lemma ntn_updq : ntn (updq g fq h) = ntn h. Proof. reflexivity. Qed.
Lemma ntn_updcs : ntn (updcs c fc h) = ntn h. Proof. reflexivity. Qed.
Lemma ntn_upde : ntn (upde t fe h) = ntn h. Proof. reflexivity. Qed.
Lemma ntn_wcur : ntn (with_cur h x) = ntn h. Proof. reflexivity. Qed.
Lemma ntn_updtn : ntn (updtn t z h) = ntn h. Proof. unfold ntn, updtn, with_tn. cbn [h_tn]. apply length_upd. Qed.
Lemma ng_updcs : ng (updcs c fc h) = ng h. Proof. reflexivity. Qed.
Lemma ng_upde : ng (upde t fe h) = ng h. Proof. reflexivity. Qed.
Lemma ng_updtn : ng (updtn t z h) = ng h. Proof. reflexivity. Qed.
Lemma ng_wcur : ng (with_cur h x) = ng h. Proof. reflexivity. Qed.
Lemma ng_updq : ng (updq g fq h) = ng h. Proof. unfold ng, updq, with_qs. cbn [h_qs]. apply length_upd. Qed.
End Getters.

Ltac dims1 := first [ rewrite nc_updq | rewrite nc_upde | rewrite nc_updtn | rewrite nc_wcur | rewrite nc_updcs
                    | rewrite nt_updq | rewrite nt_updcs | rewrite nt_updtn | rewrite nt_wcur | rewrite nt_upde
                    | rewrite ntn_updq | rewrite ntn_updcs | rewrite ntn_upde | rewrite ntn_wcur | rewrite ntn_updtn
                    | rewrite ng_updcs | rewrite ng_upde | rewrite ng_updtn | rewrite ng_wcur | rewrite ng_updq ].
Ltac dims := repeat dims1.
Ltac bnd := dims; assumption.
Ltac gs1 :=
  first [ rewrite getcs_updq | rewrite getcs_upde | rewrite getcs_updtn | rewrite getcs_wcur
        | rewrite getcs_updcs_eq by bnd | rewrite getcs_updcs_neq by (auto; congruence)
        | rewrite getent_updq | rewrite getent_updcs | rewrite getent_updtn | rewrite getent_wcur
        | rewrite getent_upde_eq by bnd | rewrite getent_upde_neq by (auto; congruence)
        | rewrite gettn_updq | rewrite gettn_updcs | rewrite gettn_upde | rewrite gettn_wcur
        | rewrite gettn_updtn_eq by bnd | rewrite gettn_updtn_neq by (auto; congruence)
        | rewrite getq_updcs | rewrite getq_upde | rewrite getq_updtn | rewrite getq_wcur
        | rewrite getq_updq_eq by bnd | rewrite getq_updq_neq by (auto; congruence) ].
Ltac gs := repeat gs1.
Ltac gse := gs.
Ltac frame_tac :=
  repeat match goal with x := _ : half |- _ => subst x end;
  match goal with
  | |- length (h_cs ?a) = length (h_cs ?b) => change (nc a = nc b); dims; reflexivity
  | |- length (h_ents ?a) = length (h_ents ?b) => change (nt a = nt b); dims; reflexivity
  | |- length (h_tn ?a) = length (h_tn ?b) => change (ntn a = ntn b); dims; reflexivity
  | |- length (h_qs ?a) = length (h_qs ?b) => change (ng a = ng b); dims; reflexivity
  | |- h_ctor _ = h_ctor _ => reflexivity
  | |- h_tgrp _ = h_tgrp _ => reflexivity
  | |- forall x, x <> _ -> _ = _ => let x := fresh "x" in let N := fresh "N" in intros x N; gs; reflexivity
  end.

Lemma inq_true s : inq s = true <-> cs_a s = true /\ cs_q s = true /\ cs_u s = false /\ cs_s s = false.
Proof. unfold inq. rewrite !andb_true_iff, !negb_true_iff. tauto. Qed.
Lemma inu_true s : inu s = true <-> cs_a s = true /\ cs_u s = true.
Proof. unfold inu. rewrite !andb_true_iff. tauto. Qed.

Lemma slot_inv d v c choke h h' r : v_dir v = d -> InvL d h -> slot v c choke h = Ok (h', r) -> InvL d h' /\ r = true.
Proof.
  intros Hd I. pose proof (iv_wf _ _ I) as W.
  pose proof (tor_lt h c W) as Ht. pose proof (grp_lt h (tor_of h c) W) as Hg.
  assert (Htn : (tor_of h c < ntn h)%nat) by (unfold ntn; rewrite (wf_tn _ W); exact Ht).
  unfold slot. destruct (Bool.eqb choke (negb (cs_u (getcs h c)))) eqn:Eb; [discriminate|].
  set (t := tor_of h c) in *. set (g := grp_of h t) in *.
  destruct choke.
  - destruct (remove_swap c (e_u (getent h t))) as [u'|] eqn:R; [|discriminate].
    destruct (has c (e_q (getent h t))) eqn:Hh; [discriminate|].
    destruct (remove_swap_spec _ _ _ R (iv_ndu _ _ I t Ht)) as (NDu' & Iu' & Cin).
    apply (iv_mu _ _ I t c Ht) in Cin. destruct Cin as (Hc & _ & Uc).
    destruct (iv_fl _ _ I c Hc Uc) as [Qc Sc]. apply inu_true in Uc. destruct Uc as [Ac Uc].
    assert (Hq : ~ In c (ids (e_q (getent h t)))) by (rewrite <- has_spec; congruence).
    set (h2 := updq g _ _).
    assert (I2 : InvL d h2).
    { apply (reinv d h h2 c I Hc); try frame_tac; fold t; fold g.
      - subst h2. gs. reflexivity.
      - subst h2. gs. simpl. apply NoDup_push; auto. apply I; auto.
      - subst h2. gs. simpl. auto.
      - intros x. subst h2. gs. simpl. rewrite In_push.
        unfold inq; simpl. fold (getcs h c). rewrite Ac, Qc, Sc. simpl.
        split; [intros [X|X]; [left; split; auto; intros ->; auto|right; auto]|intros [[_ X]|[X _]]; auto].
      - intros x. subst h2. gs. simpl. rewrite Iu'.
        unfold inu; simpl. rewrite andb_false_r. intuition congruence.
      - subst h2. gs. unfold inu; simpl. rewrite andb_false_r. discriminate.
      - intros Ed. subst h2. gs. simpl. fold (getcs h c). intros X. apply (iv_r _ _ I Ed c Hc X).
      - subst h2. gs. simpl.
        apply lenZ_remove_swap in R. lia.
      - subst h2. gs. simpl. apply lenZ_remove_swap in R. lia.
      - subst h2. gs. simpl. rewrite lenZ_push. lia. }
    destruct (v_dir v) eqn:Ev.
    + intros H. injection H as <- <-. auto.
    + assert (Rc : cs_r (getcs h c) = true) by (apply (iv_r _ _ I (eq_sym Hd) c Hc Qc)). rewrite Rc.
      intros H. injection H as <- <-. auto.
  - destruct (remove_swap c (e_q (getent h t))) as [q'|] eqn:R; [|discriminate].
    destruct (has c (e_u (getent h t))) eqn:Hh; [discriminate|].
    destruct (remove_swap_spec _ _ _ R (iv_ndq _ _ I t Ht)) as (NDq' & Iq' & Cin).
    apply (iv_mq _ _ I t c Ht) in Cin. destruct Cin as (Hc & _ & Qc).
    apply inq_true in Qc. destruct Qc as (Ac & Qc & Uc & Sc).
    assert (Hu : ~ In c (ids (e_u (getent h t)))) by (rewrite <- has_spec; congruence).
    intros H. injection H as <- <-. split; auto.
    match goal with |- InvL d ?X => set (h2 := X) end.
    apply (reinv d h h2 c I Hc); try frame_tac; fold t; fold g.
    + subst h2. gs. reflexivity.
    + subst h2. gs. simpl. auto.
    + subst h2. gs. simpl. apply NoDup_push; auto. apply I; auto.
    + intros x. subst h2. gs. simpl. rewrite Iq'.
      unfold inq; simpl. rewrite !andb_false_r. simpl. intuition congruence.
    + intros x. subst h2. gs. simpl. rewrite In_push.
      unfold inu; simpl. fold (getcs h c). rewrite Ac. simpl.
      split; [intros [X|X]; [left; split; auto; intros ->; auto|right; auto]|intros [[_ X]|[X _]]; auto].
    + subst h2. gs. simpl. fold (getcs h c). auto.
    + intros Ed. subst h2. gs. simpl. fold (getcs h c). intros X. apply (iv_r _ _ I Ed c Hc X).
    + subst h2. gs. simpl. rewrite lenZ_push. lia.
    + subst h2. gs. simpl. rewrite lenZ_push. lia.
    + subst h2. gs. simpl. apply lenZ_remove_swap in R. lia.
Qed.

(* ---------------------------------------------------------------- changes that keep all lists *)
Lemma inv_same d h h' : InvL d h ->
  h_cs h' = h_cs h -> h_ctor h' = h_ctor h -> h_tn h' = h_tn h -> h_tgrp h' = h_tgrp h ->
  length (h_ents h') = length (h_ents h) -> length (h_qs h') = length (h_qs h) ->
  (forall t, e_q (getent h' t) = e_q (getent h t) /\ e_u (getent h' t) = e_u (getent h t)) ->
  (forall g, q_cu (getq h' g) = q_cu (getq h g) /\ q_cq (getq h' g) = q_cq (getq h g) /\ q_ents (getq h' g) = q_ents (getq h g)) ->
  InvL d h'.
Proof. intros I A B C E F G P Q. apply (inv_ext d h h'); auto. intros t. destruct (P t) as [X Y]. rewrite X, Y. split; apply Permutation_refl. Qed.

Lemma inv_with_cur d h x : InvL d h -> InvL d (with_cur h x).
Proof. intros I. apply (inv_same d h); auto. Qed.
Lemma inv_with_rs d h x : InvL d h -> InvL d (with_rs h x).
Proof. intros I. apply (inv_same d h); auto. Qed.
Lemma inv_with_max d h x : InvL d h -> InvL d (with_max h x).
Proof. intros I. apply (inv_same d h); auto. Qed.
Lemma inv_recv d n h h' : InvL d h -> recv_unchoke n h = Ok h' -> InvL d h'.
Proof. unfold recv_unchoke. destruct (_ <? _); intros I H; inversion H. apply inv_with_cur; auto. Qed.

Lemma nth_upd_same_field {A} (f : A -> A) (P : A -> Prop) d : forall n m (l : list A),
  (forall x, P x -> P (f x)) -> P (nth n l d) -> (forall x, P x) \/ True -> P (nth n (upd m f l) d) \/ True.
Proof. auto. Qed.

(* a field-preserving update of an entry / a queue *)
Lemma nth_upd_proj {A B} (f : A -> A) (p : A -> B) d : (forall x, p (f x) = p x) -> forall n m (l : list A),
  p (nth n (upd m f l) d) = p (nth n l d).
Proof. intros H. induction n; destruct m; destruct l; simpl; auto. Qed.

Lemma inv_upde_lims d t F h : InvL d h -> (forall e, e_q (F e) = e_q e /\ e_u (F e) = e_u e) -> InvL d (upde t F h).
Proof. intros I HF. apply (inv_same d h); auto; try (unfold upde, with_ents; cbn [h_ents h_qs]; rewrite ?length_upd; reflexivity).
  intros t'. unfold getent, upde, with_ents; cbn [h_ents]. split; apply nth_upd_proj; intros; apply HF. Qed.
Lemma inv_updq_lims d g F h : InvL d h -> (forall q, q_cq (F q) = q_cq q /\ q_cu (F q) = q_cu q /\ q_ents (F q) = q_ents q) -> InvL d (updq g F h).
Proof. intros I HF. apply (inv_same d h); auto; try (unfold updq, with_qs; cbn [h_ents h_qs]; rewrite ?length_upd; reflexivity).
  intros g'. unfold getq, updq, with_qs; cbn [h_qs]. repeat split; apply nth_upd_proj; intros; apply HF. Qed.

(* ---------------------------------------------------------------- flag-only change of one connection *)
Lemma flag_inv d h c f : InvL d h -> (c < nc h)%nat ->
  inq (f (getcs h c)) = inq (getcs h c) -> inu (f (getcs h c)) = inu (getcs h c) ->
  (inu (f (getcs h c)) = true -> cs_q (f (getcs h c)) = true /\ cs_s (f (getcs h c)) = false) ->
  (d = Dn -> cs_q (f (getcs h c)) = true -> cs_r (f (getcs h c)) = true) ->
  InvL d (updcs c f h).
Proof.
  intros I Hc Eq Eu Hfl Hr. pose proof (iv_wf _ _ I) as W.
  pose proof (tor_lt h c W) as Ht.
  set (t := tor_of h c) in *.
  assert (G : getcs (updcs c f h) c = f (getcs h c)) by (gs; reflexivity).
  apply (reinv d h (updcs c f h) c I Hc); try frame_tac; fold t; rewrite ?G; auto; try reflexivity; try lia.
  - apply I; auto.
  - apply I; auto.
  - intros x. rewrite Eq. change (getent (updcs c f h) t) with (getent h t). destruct (Nat.eq_dec x c) as [->|N].
    + rewrite (iv_mq _ _ I t c Ht). fold t. intuition.
    + intuition.
  - intros x. rewrite Eu. change (getent (updcs c f h) t) with (getent h t). destruct (Nat.eq_dec x c) as [->|N].
    + rewrite (iv_mu _ _ I t c Ht). fold t. intuition.
    + intuition.
  - gs. lia.
  - gs. lia.
  - gs. lia.
Qed.

(* ---------------------------------------------------------------- enqueue / dequeue of one connection *)
Lemma enq_inv d h c f h' : InvL d h -> (c < nc h)%nat ->
  inq (getcs h c) = false -> inu (getcs h c) = false ->
  inq (f (getcs h c)) = true ->
  (d = Dn -> cs_r (f (getcs h c)) = true) ->
  connection_queued c (updcs c f h) = Ok h' -> InvL d h'.
Proof.
  intros I Hc Eq Eu Eq' Hr. pose proof (iv_wf _ _ I) as W.
  pose proof (tor_lt h c W) as Ht. pose proof (grp_lt h (tor_of h c) W) as Hg.
  assert (Htn : (tor_of h c < ntn h)%nat) by (unfold ntn; rewrite (wf_tn _ W); exact Ht).
  unfold connection_queued. change (tor_of (updcs c f h) c) with (tor_of h c).
  set (t := tor_of h c) in *. change (getent (updcs c f h) t) with (getent h t).
  change (grp_of (updcs c f h) t) with (grp_of h t). set (g := grp_of h t) in *.
  destruct (has c (e_q (getent h t))) eqn:Hh; [discriminate|]. intros H; injection H as <-.
  assert (Hq : ~ In c (ids (e_q (getent h t)))) by (rewrite <- has_spec; congruence).
  assert (Hu : ~ In c (ids (e_u (getent h t)))).
  { rewrite (iv_mu _ _ I t c Ht). intros (_ & _ & X). congruence. }
  apply inq_true in Eq'. destruct Eq' as (A' & Q' & U' & S').
  match goal with |- InvL d ?X => set (h2 := X) end.
  assert (G : getcs h2 c = f (getcs h c)) by (subst h2; gs; reflexivity).
  apply (reinv d h h2 c I Hc); try frame_tac; fold t; fold g; rewrite ?G.
  - subst h2. gs. reflexivity.
  - subst h2. gs. simpl. apply NoDup_push; auto. apply I; auto.
  - subst h2. gs. simpl. apply I; auto.
  - intros x. subst h2. gs. simpl. rewrite In_push.
    unfold inq. rewrite A', Q', U', S'. simpl.
    split; [intros [X|X]; [left; split; auto; intros ->; auto|right; auto]|intros [[_ X]|[X _]]; auto].
  - intros x. subst h2. gs. simpl. unfold inu. rewrite U', andb_false_r.
    split; [intros X; left; split; auto; intros ->; auto|intros [[_ X]|[_ X]]; [auto|discriminate]].
  - unfold inu. rewrite U', andb_false_r. discriminate.
  - auto.
  - subst h2. gs. simpl. lia.
  - subst h2. gs. simpl. lia.
  - subst h2. gs. simpl. rewrite lenZ_push. lia.
Qed.

Lemma deq_inv d h c f p h' : InvL d h -> (c < nc h)%nat ->
  inu (getcs h c) = false ->
  inq (p (f (getcs h c))) = false -> inu (p (f (getcs h c))) = false ->
  (d = Dn -> cs_q (p (f (getcs h c))) = true -> cs_r (p (f (getcs h c))) = true) ->
  connection_unqueued c (updcs c f h) = Ok h' -> InvL d (updcs c p h').
Proof.
  intros I Hc Eu Eq' Eu' Hr. pose proof (iv_wf _ _ I) as W.
  pose proof (tor_lt h c W) as Ht. pose proof (grp_lt h (tor_of h c) W) as Hg.
  assert (Htn : (tor_of h c < ntn h)%nat) by (unfold ntn; rewrite (wf_tn _ W); exact Ht).
  unfold connection_unqueued. change (tor_of (updcs c f h) c) with (tor_of h c).
  set (t := tor_of h c) in *. change (getent (updcs c f h) t) with (getent h t).
  change (grp_of (updcs c f h) t) with (grp_of h t). set (g := grp_of h t) in *.
  destruct (remove_swap c (e_q (getent h t))) as [q'|] eqn:R; [|discriminate]. intros H; injection H as <-.
  destruct (remove_swap_spec _ _ _ R (iv_ndq _ _ I t Ht)) as (NDq' & Iq' & Cin).
  assert (Hu : ~ In c (ids (e_u (getent h t)))).
  { rewrite (iv_mu _ _ I t c Ht). intros (_ & _ & X). congruence. }
  match goal with |- InvL d ?X => set (h2 := X) end.
  assert (G : getcs h2 c = p (f (getcs h c))) by (subst h2; gs; reflexivity).
  apply (reinv d h h2 c I Hc); try frame_tac; fold t; fold g; rewrite ?G.
  - subst h2. gs. reflexivity.
  - subst h2. gs. simpl. auto.
  - subst h2. gs. simpl. apply I; auto.
  - intros x. subst h2. gs. simpl. rewrite Iq', Eq'. intuition congruence.
  - intros x. subst h2. gs. simpl. rewrite Eu'.
    split; [intros X; left; split; auto; intros ->; auto|intros [[_ X]|[_ X]]; [auto|discriminate]].
  - rewrite Eu'. discriminate.
  - auto.
  - subst h2. gs. simpl. lia.
  - subst h2. gs. simpl. lia.
  - subst h2. gs. simpl. apply lenZ_remove_swap in R. lia.
Qed.

(* an unchoked connection is choked and taken out of the queue in one go
   (set_not_queued and set_snubbed on an unchoked connection) *)
Lemma choke_deq_inv d v c f p h h1 r x h3 : v_dir v = d -> InvL d h -> (c < nc h)%nat ->
  inu (getcs h c) = true ->
  cs_a (f (getcs h c)) = cs_a (getcs h c) -> cs_u (f (getcs h c)) = true ->
  (d = Dn -> cs_r (f (getcs h c)) = true \/ cs_q (f (getcs h c)) = false) ->
  inq (p (set_t (v_now v) (set_u false (f (getcs h c))))) = false ->
  inu (p (set_t (v_now v) (set_u false (f (getcs h c))))) = false ->
  (d = Dn -> cs_q (p (set_t (v_now v) (set_u false (f (getcs h c))))) = true -> cs_r (p (set_t (v_now v) (set_u false (f (getcs h c))))) = true) ->
  slot v c true (updcs c f h) = Ok (h1, r) ->
  connection_unqueued c (with_cur h1 x) = Ok h3 -> InvL d (updcs c p h3).
Proof.
  intros Hd I Hc Eu Fa Fu Fr Pq Pu Pr. pose proof (iv_wf _ _ I) as W.
  pose proof (tor_lt h c W) as Ht. pose proof (grp_lt h (tor_of h c) W) as Hg.
  assert (Htn : (tor_of h c < ntn h)%nat) by (unfold ntn; rewrite (wf_tn _ W); exact Ht).
  set (h0 := updcs c f h).
  assert (G0 : getcs h0 c = f (getcs h c)) by (subst h0; gs; reflexivity).
  unfold slot. rewrite G0, Fu. simpl Bool.eqb. cbv iota.
  change (tor_of h0 c) with (tor_of h c). set (t := tor_of h c) in *.
  change (getent h0 t) with (getent h t). change (grp_of h0 t) with (grp_of h t). set (g := grp_of h t) in *.
  destruct (remove_swap c (e_u (getent h t))) as [u'|] eqn:R; [|discriminate].
  destruct (has c (e_q (getent h t))) eqn:Hh; [discriminate|].
  destruct (remove_swap_spec _ _ _ R (iv_ndu _ _ I t Ht)) as (NDu' & Iu' & _).
  assert (Hq : ~ In c (ids (e_q (getent h t)))) by (rewrite <- has_spec; congruence).
  set (h2 := updq g _ _).
  assert (G2 : getcs h2 c = set_t (v_now v) (set_u false (f (getcs h c)))).
  { subst h2 h0. gs. reflexivity. }
  assert (E1 : forall rr, (match v_dir v with
                 | Up => Ok (h2, true)
                 | Dn => if cs_r (f (getcs h c)) then Ok (h2, true) else do h3 <- set_not_queued_inner c h2; Ok (h3, false)
                 end) = Ok (h1, rr) -> h1 = h2).
  { intros rr. destruct (v_dir v) eqn:Ev; [intros H; injection H as <- _; auto|].
    destruct (cs_r (f (getcs h c))) eqn:Er; [intros H; injection H as <- _; auto|].
    destruct (Fr (eq_sym Hd)) as [X|X]; [congruence|].
    unfold set_not_queued_inner. rewrite G2. simpl. rewrite X. simpl. intros H; injection H as <- _; auto. }
  intros H. apply E1 in H. subst h1. clear E1.
  unfold connection_unqueued. change (tor_of (with_cur h2 x) c) with t.
  assert (Eq2 : e_q (getent (with_cur h2 x) t) = push c (e_q (getent h t))).
  { subst h2 h0. gs. reflexivity. }
  rewrite Eq2. destruct (remove_swap c (push c (e_q (getent h t)))) as [q''|] eqn:R2; [|discriminate].
  assert (NDp : NoDup (ids (push c (e_q (getent h t))))) by (apply NoDup_push; auto; apply I; auto).
  destruct (remove_swap_spec _ _ _ R2 NDp) as (NDq'' & Iq'' & _).
  change (grp_of (with_cur h2 x) t) with g.
  intros H; injection H as <-.
  match goal with |- InvL d ?X => set (h4 := X) end.
  assert (G4 : getcs h4 c = p (set_t (v_now v) (set_u false (f (getcs h c))))).
  { subst h4 h2 h0. gs. reflexivity. }
  assert (Q4 : inq (getcs h4 c) = false) by (rewrite G4; exact Pq).
  assert (U4 : inu (getcs h4 c) = false) by (rewrite G4; exact Pu).
  apply (reinv d h h4 c I Hc); try (subst h4 h2 h0; frame_tac); fold t; fold g; rewrite ?Q4, ?U4.
  - subst h4 h2 h0. gs. reflexivity.
  - subst h4 h2 h0. gs. simpl. auto.
  - subst h4 h2 h0. gs. simpl. auto.
  - intros y. subst h4 h2 h0. gs. simpl. rewrite Iq'', In_push. intuition congruence.
  - intros y. subst h4 h2 h0. gs. simpl. rewrite Iu'. intuition congruence.
  - discriminate.
  - intros Ed. rewrite G4. apply Pr; auto.
  - subst h4 h2 h0. gs. simpl.
    apply lenZ_remove_swap in R. lia.
  - subst h4 h2 h0. gs. simpl. apply lenZ_remove_swap in R. lia.
  - subst h4 h2 h0. gs. simpl. apply lenZ_remove_swap in R2. rewrite lenZ_push in R2. lia.
Qed.

(* ---------------------------------------------------------------- the per-connection operations *)
Lemma upd_id {A} n (l : list A) : upd n (fun x => x) l = l.
Proof. revert n; induction l; destruct n; simpl; f_equal; auto. Qed.
Lemma upd_upd {A} (f g : A -> A) n (l : list A) : upd n f (upd n g l) = upd n (fun x => f (g x)) l.
Proof. revert n; induction l; destruct n; simpl; f_equal; auto. Qed.
Lemma updcs_id c h : updcs c (fun s => s) h = h.
Proof. unfold updcs, with_cs. rewrite upd_id. destruct h; reflexivity. Qed.
Lemma updcs_updcs c f g h : updcs c f (updcs c g h) = updcs c (fun s => f (g s)) h.
Proof. unfold updcs, with_cs. simpl. rewrite upd_upd. reflexivity. Qed.

Lemma try_unchoke_new_inv d v hold c h h' : v_dir v = d -> InvL d h -> try_unchoke_new v hold c h = Ok h' -> InvL d h'.
Proof. intros Hd I. unfold try_unchoke_new. destruct (_ && _); [|intros H; injection H as <-; auto].
  destruct (slot v c false h) as [[h1 r]|] eqn:S; [|discriminate]. simpl. intros H.
  eapply inv_recv; [|exact H]. eapply slot_inv; eauto. Qed.

Lemma set_queued_inv d v c h h' : v_dir v = d -> InvL d h -> (c < nc h)%nat -> cs_a (getcs h c) = true ->
  (d = Dn -> cs_r (getcs h c) = true) -> set_queued v c h = Ok h' -> InvL d h'.
Proof.
  intros Hd I Hc A R. unfold set_queued. destruct (cs_q (getcs h c) || cs_u (getcs h c)) eqn:E; [intros H; injection H as <-; auto|].
  apply orb_false_elim in E. destruct E as [Q U].
  destruct (cs_s (getcs h c)) eqn:S.
  - intros H; injection H as <-. apply flag_inv; auto.
    + unfold inq; simpl. rewrite Q, S. rewrite !andb_false_r. reflexivity.
    + unfold inu; simpl. rewrite U, andb_false_r. discriminate.
  - destruct (connection_queued c _) as [h2|] eqn:CQ; [|discriminate]. intros H.
    eapply try_unchoke_new_inv; [exact Hd| |exact H].
    eapply (enq_inv d h c (set_q true)); eauto.
    + unfold inq. rewrite Q. rewrite !andb_false_r. reflexivity.
    + unfold inu. rewrite U, andb_false_r. reflexivity.
    + unfold inq; simpl. rewrite A, U, S. reflexivity.
Qed.

(* [fr] is the assignment to m_down_unchoked that precedes the call (identity on the upload side) *)
Definition only_r (fr : cstat -> cstat) : Prop :=
  forall s, cs_a (fr s) = cs_a s /\ cs_q (fr s) = cs_q s /\ cs_u (fr s) = cs_u s /\ cs_s (fr s) = cs_s s /\ cs_t (fr s) = cs_t s.

Lemma set_not_queued_inv d v c fr h h' : v_dir v = d -> InvL d h -> (c < nc h)%nat -> cs_a (getcs h c) = true ->
  only_r fr -> set_not_queued v c (updcs c fr h) = Ok h' -> InvL d h'.
Proof.
  intros Hd I Hc A FR. destruct (FR (getcs h c)) as (Fa & Fq & Fu & Fs & Ft).
  set (h0 := updcs c fr h).
  assert (G0 : getcs h0 c = fr (getcs h c)) by (subst h0; gs; reflexivity).
  unfold set_not_queued. rewrite G0, Fq, Fs, Fu.
  destruct (cs_q (getcs h c)) eqn:Q; simpl.
  2:{ intros H; injection H as <-. subst h0. apply flag_inv; auto.
      - unfold inq. rewrite Fa, Fq, Fu, Fs, ?Q. reflexivity.
      - unfold inu. rewrite Fa, Fu. reflexivity.
      - unfold inu. rewrite Fa, Fu, Fq, Fs. intros X. destruct (iv_fl _ _ I c Hc X). split; congruence.
      - rewrite Fq. discriminate. }
  destruct (cs_s (getcs h c)) eqn:S.
  - intros H; injection H as <-. subst h0. rewrite updcs_updcs. apply flag_inv; auto.
    + unfold inq; simpl. rewrite Fs, S. rewrite !andb_false_r. reflexivity.
    + unfold inu; simpl. rewrite Fa, Fu. reflexivity.
    + unfold inu; simpl. rewrite Fa, Fu. intros X. destruct (iv_fl _ _ I c Hc X). congruence.
    + simpl. discriminate.
  - destruct (cs_u (getcs h c)) eqn:U.
    + subst h0. rewrite updcs_updcs.
      destruct (slot v c true _) as [[h1 r]|] eqn:SL; [|discriminate]. simpl.
      unfold recv_unchoke. destruct (_ <? _); [discriminate|]. intros H.
      rewrite <- (updcs_id c h').
      eapply (choke_deq_inv d v c _ (fun s => s) h h1 r); [exact Hd|exact I|exact Hc| | | | | | | |exact SL|exact H]; simpl.
      * unfold inu. rewrite A, U. reflexivity.
      * auto.
      * auto.
      * intros _. right. reflexivity.
      * unfold inq; simpl. rewrite !andb_false_r. reflexivity.
      * unfold inu; simpl. rewrite andb_false_r. reflexivity.
      * intros _. discriminate.
    + subst h0. rewrite updcs_updcs. intros H. rewrite <- (updcs_id c h').
      eapply (deq_inv d h c _ (fun s => s)); [exact I|exact Hc| | | | |exact H]; simpl.
      * unfold inu. rewrite U, andb_false_r. reflexivity.
      * unfold inq; simpl. rewrite !andb_false_r. reflexivity.
      * unfold inu; simpl. rewrite ?Fu, ?U, andb_false_r. reflexivity.
      * intros _. discriminate.
Qed.

Lemma set_snubbed_inv d v c h h' : v_dir v = d -> InvL d h -> (c < nc h)%nat -> cs_a (getcs h c) = true ->
  set_snubbed v c h = Ok h' -> InvL d h'.
Proof.
  intros Hd I Hc A. unfold set_snubbed. destruct (cs_s (getcs h c)) eqn:S; [intros H; injection H as <-; auto|].
  destruct (cs_u (getcs h c)) eqn:U.
  - assert (IU : inu (getcs h c) = true) by (unfold inu; rewrite A, U; reflexivity).
    destruct (iv_fl _ _ I c Hc IU) as [Q _].
    destruct (slot v c true _) as [[h1 r]|] eqn:SL; [|discriminate]. simpl.
    unfold recv_unchoke. destruct (_ <? _); [discriminate|]. intros CU.
    rewrite <- (updcs_id c h').
    eapply (choke_deq_inv d v c (set_s true) (fun s => s) h h1 r); [exact Hd|exact I|exact Hc|exact IU| | | | | | |exact SL|exact CU]; simpl; auto.
    + intros Ed. left. apply (iv_r _ _ I Ed c Hc Q).
    + unfold inq; simpl. rewrite !andb_false_r. reflexivity.
    + unfold inu; simpl. rewrite andb_false_r. reflexivity.
    + intros Ed _. apply (iv_r _ _ I Ed c Hc Q).
  - destruct (cs_q (getcs h c)) eqn:Q; simpl.
    + intros CU. rewrite <- (updcs_id c h').
      eapply (deq_inv d h c (set_s true) (fun s => s)); [exact I|exact Hc| | | | |exact CU]; simpl.
      * unfold inu. rewrite U, andb_false_r. reflexivity.
      * unfold inq; simpl. rewrite !andb_false_r. reflexivity.
      * unfold inu; simpl. rewrite U, andb_false_r. reflexivity.
      * intros Ed _. apply (iv_r _ _ I Ed c Hc Q).
    + intros H; injection H as <-. apply flag_inv; auto.
      * unfold inq; simpl. rewrite Q. rewrite !andb_false_r. reflexivity.
      * unfold inu; simpl. rewrite U, andb_false_r. discriminate.
      * simpl. rewrite Q. discriminate.
Qed.

Lemma set_not_snubbed_inv d v c h h' : v_dir v = d -> InvL d h -> (c < nc h)%nat -> cs_a (getcs h c) = true ->
  set_not_snubbed v c h = Ok h' -> InvL d h'.
Proof.
  intros Hd I Hc A. unfold set_not_snubbed. destruct (cs_s (getcs h c)) eqn:S; simpl; [|intros H; injection H as <-; auto].
  assert (U : cs_u (getcs h c) = false).
  { destruct (cs_u (getcs h c)) eqn:U; auto. assert (IU : inu (getcs h c) = true) by (unfold inu; rewrite A, U; reflexivity).
    destruct (iv_fl _ _ I c Hc IU). congruence. }
  rewrite U. destruct (cs_q (getcs h c)) eqn:Q; simpl.
  - destruct (connection_queued c _) as [h2|] eqn:CQ; [|discriminate]. intros H.
    eapply try_unchoke_new_inv; [exact Hd| |exact H].
    eapply (enq_inv d h c (set_s false)); eauto.
    + unfold inq. rewrite S. rewrite !andb_false_r. reflexivity.
    + unfold inu. rewrite U, andb_false_r. reflexivity.
    + unfold inq; simpl. rewrite A, Q, U. reflexivity.
    + intros Ed. simpl. apply (iv_r _ _ I Ed c Hc Q).
  - intros H; injection H as <-. apply flag_inv; auto.
    + unfold inq; simpl. rewrite Q. rewrite !andb_false_r. reflexivity.
    + unfold inu; simpl. rewrite U, andb_false_r. discriminate.
    + simpl. rewrite Q. discriminate.
Qed.

Lemma updtn_0 t h : updtn t 0 h = h.
Proof. unfold updtn, with_tn. rewrite upd_add0. destruct h; reflexivity. Qed.

Lemma close_inv d c h h' : InvL d h -> (c < nc h)%nat -> cs_a (getcs h c) = true ->
  close_half c h = Ok h' -> InvL d h' /\ cs_a (getcs h' c) = false /\ nc h' = nc h.
Proof.
  intros I Hc A. pose proof (iv_wf _ _ I) as W.
  pose proof (tor_lt h c W) as Ht. pose proof (grp_lt h (tor_of h c) W) as Hg.
  assert (Htn : (tor_of h c < ntn h)%nat) by (unfold ntn; rewrite (wf_tn _ W); exact Ht).
  unfold close_half. set (t := tor_of h c) in *.
  set (p := fun s0 => set_a false (set_q false s0)).
  assert (Fin : forall hx, nc hx = nc h -> InvL d (updcs c p hx) -> InvL d (updcs c p hx) /\ cs_a (getcs (updcs c p hx) c) = false /\ nc (updcs c p hx) = nc h).
  { intros hx N X. split; auto. split.
    - rewrite getcs_updcs_eq by lia. reflexivity.
    - rewrite nc_updcs. auto. }
  destruct (cs_u (getcs h c)) eqn:U.
  - assert (IU : inu (getcs h c) = true) by (unfold inu; rewrite A, U; reflexivity).
    destruct (iv_fl _ _ I c Hc IU) as [Q S]. rewrite S.
    unfold recv_unchoke. simpl h_cur. destruct (_ <? _); [discriminate|].
    set (h1 := with_cur _ _). change (getent h1 t) with (getent h t). change (grp_of h1 t) with (grp_of h t).
    set (g := grp_of h t) in *.
    destruct (remove_swap c (e_u (getent h t))) as [u'|] eqn:R; [|discriminate].
    destruct (remove_swap_spec _ _ _ R (iv_ndu _ _ I t Ht)) as (NDu' & Iu' & _).
    intros H; injection H as <-. apply Fin; [subst h1; dims; reflexivity|].
    match goal with |- InvL d ?X => set (h4 := X) end.
    assert (G4 : getcs h4 c = p (getcs h c)) by (subst h4 h1; gs; reflexivity).
    assert (Q4 : inq (getcs h4 c) = false) by (rewrite G4; reflexivity).
    assert (U4 : inu (getcs h4 c) = false) by (rewrite G4; reflexivity).
    assert (Hq : ~ In c (ids (e_q (getent h t)))).
    { rewrite (iv_mq _ _ I t c Ht). intros (_ & _ & X). apply inq_true in X. destruct X as (_ & _ & X & _). congruence. }
    apply (reinv d h h4 c I Hc); try (subst h4 h1; frame_tac); fold t; fold g; rewrite ?Q4, ?U4.
    + subst h4 h1. gs. reflexivity.
    + subst h4 h1. gs. simpl. apply I; auto.
    + subst h4 h1. gs. simpl. auto.
    + intros y. subst h4 h1. gs. simpl.
      split; [intros X; left; split; auto; intros ->; auto|intros [[_ X]|[_ X]]; [auto|discriminate]].
    + intros y. subst h4 h1. gs. simpl. rewrite Iu'. intuition congruence.
    + discriminate.
    + intros _. rewrite G4. simpl. discriminate.
    + subst h4 h1. gs. simpl.
      apply lenZ_remove_swap in R. lia.
    + subst h4 h1. gs. simpl. apply lenZ_remove_swap in R. lia.
    + subst h4 h1. gs. simpl. lia.
  - rewrite updtn_0.
    assert (IU : inu (getcs h c) = false) by (unfold inu; rewrite U, andb_false_r; reflexivity).
    destruct (cs_s (getcs h c)) eqn:S; [|destruct (cs_q (getcs h c)) eqn:Q].
    + intros H; injection H as <-. apply Fin; auto. apply flag_inv; auto.
      * unfold inq at 2. rewrite S, !andb_false_r. reflexivity.
      * discriminate.
      * intros _. discriminate.
    + intros H. destruct (connection_unqueued c h) as [h2|] eqn:CU; [|discriminate]. injection H as <-.
      assert (N2 : nc h2 = nc h).
      { unfold connection_unqueued in CU. destruct (remove_swap _ _); [|discriminate]. injection CU as <-. reflexivity. }
      apply Fin; auto. rewrite <- (updcs_id c h) in CU.
      eapply (deq_inv d h c (fun s => s) p); [exact I|exact Hc|exact IU| | | |exact CU]; try reflexivity.
      intros _. discriminate.
    + intros H; injection H as <-. apply Fin; auto.
      apply flag_inv; auto; try discriminate; try (intros _; discriminate).
      unfold inq at 2. rewrite Q, !andb_false_r. reflexivity.
Qed.
