(* C11 proofs: bookkeeping of the local containers of retrieve_connections / adjust_choke_range,
   and `limits` for cycle. *)
From Coq Require Import List NArith ZArith Bool Arith Lia Permutation.
From LTV.C11 Require Import Model Proofs Proofs2 ProofsInv ProofsInv2 ProofsInv3 ProofsAlloc ProofsLim ProofsLim2.
Import ListNotations.
Local Open Scope Z_scope.

(* ---------------------------------------------------------------- sums over the group container *)
Lemma sumZ_perm l l' : Permutation l l' -> sumZ l = sumZ l'.
Proof. induction 1; simpl; lia. Qed.
Lemma sum_filter (F : nat -> Z) (P : nat -> bool) l :
  sumZ (map F (filter P l)) = sumZ (map (fun t => if P t then F t else 0) l).
Proof. induction l; simpl; auto. destruct (P a); simpl; lia. Qed.
Lemma fold_left_sumZ (F : nat -> Z) l : forall z, fold_left (fun a t => a + F t) l z = z + sumZ (map F l).
Proof. induction l; simpl; intros; [lia|]. rewrite IHl. lia. Qed.

Lemma sum_ents d h g (f : entry -> wl) : InvL d h -> (g < ng h)%nat ->
  sumZ (map (fun t => lenZ (f (getent h t))) (q_ents (getq h g))) = gsum h g f.
Proof.
  intros I Hg. destruct (iv_qe _ _ I g Hg) as [ND M]. unfold gsum.
  rewrite <- (sum_filter (fun t => lenZ (f (getent h t))) (fun t => Nat.eqb (grp_of h t) g)).
  apply sumZ_perm. apply Permutation_map. apply NoDup_Permutation; auto.
  - apply NoDup_filter. apply seq_NoDup.
  - intros x. rewrite M, filter_In, in_seq, Nat.eqb_eq. intuition lia.
Qed.
Lemma sum_u_qcu d h g : InvL d h -> (g < ng h)%nat -> sum_u h (q_ents (getq h g)) = q_cu (getq h g).
Proof. intros I Hg. unfold sum_u. rewrite (fold_left_sumZ (fun t => lenZ (e_u (getent h t)))).
  rewrite (sum_ents d h g e_u I Hg). destruct (iv_qc _ _ I g Hg) as [A _]. lia. Qed.

(* ---------------------------------------------------------------- class boundaries *)
Lemma seg_end_bounds bound : forall l from, (from <= seg_end bound l from <= from + length l)%nat.
Proof. induction l; simpl; intros; [lia|]. destruct (_ <? _)%N; [lia|]. specialize (IHl (S from)). lia. Qed.

Lemma bounds_spec range : exists b1 b2 b3 b4, bounds range = [O; b1; b2; b3; b4] /\
  (b1 <= b2 <= b3)%nat /\ (b3 <= b4 <= length range)%nat.
Proof.
  unfold bounds. set (n := length range).
  assert (S : forall b bound, (b <= n)%nat -> (b <= seg_end bound (skipn b range) b <= n)%nat).
  { intros b bound Hb. pose proof (seg_end_bounds bound (skipn b range) b) as X. rewrite skipn_length in X. fold n in X. lia. }
  pose proof (S O (0 * ob + (ob - 1))%N ltac:(lia)) as S1. set (b1 := seg_end _ (skipn 0 range) 0) in *.
  pose proof (S b1 (1 * ob + (ob - 1))%N ltac:(lia)) as S2. set (b2 := seg_end _ (skipn b1 range) b1) in *.
  pose proof (S b2 (2 * ob + (ob - 1))%N ltac:(lia)) as S3. set (b3 := seg_end _ (skipn b2 range) b2) in *.
  pose proof (S b3 (3 * ob + (ob - 1))%N ltac:(lia)) as S4. set (b4 := seg_end _ (skipn b3 range) b3) in *.
  exists b1, b2, b3, b4. split; [reflexivity|]. lia.
Qed.

Lemma slice_length {A} (l : list A) hi n : (n <= hi <= length l)%nat -> length (firstn n (skipn (hi - n) l)) = n.
Proof. intros H. rewrite firstn_length, skipn_length. lia. Qed.
Lemma my_firstn_In {A} (l : list A) n x : In x (firstn n l) -> In x l.
Proof. intros H. rewrite <- (firstn_skipn n l). apply in_or_app. auto. Qed.
Lemma my_skipn_In {A} (l : list A) n x : In x (skipn n l) -> In x l.
Proof. intros H. rewrite <- (firstn_skipn n l). apply in_or_app. auto. Qed.
Lemma slice_In {A} (l : list A) k n x : In x (firstn n (skipn k l)) -> In x l.
Proof. intros H. apply my_firstn_In in H. apply my_skipn_In in H. auto. Qed.

(* ---------------------------------------------------------------- adjust_choke_range *)
Definition RangeOK (g : nat) (h : half) (l : list nat) : Prop :=
  forall c, In c l -> (c < nc h)%nat /\ grp_of h (tor_of h c) = g.

Lemma RangeOK_LEff g C h h' l : LEff g C h h' -> RangeOK g h l -> RangeOK g h' l.
Proof. intros E R c Hc. destruct (R c Hc) as [A B]. rewrite (le_nc _ _ _ _ E).
  rewrite (Fr_tor _ _ _ _ (le_fr _ _ _ _ E)), (Fr_grp _ _ _ _ (le_fr _ _ _ _ E)). auto. Qed.

Lemma LEff_with_rs g C h x : LEff g C h (with_rs h x).
Proof. constructor; auto. constructor; auto. Qed.

Lemma alloc_state ws ss mx h tg h0 : allocate_slots ws ss mx h = Ok (tg, h0) -> h0 = h \/ exists x, h0 = with_rs h x.
Proof. unfold allocate_slots. destruct (share_loop _ _ _ _) as [[[tg0 un] wt]|]; [|discriminate].
  destruct (_ || _); [intros H; inversion H; auto|]. unfold pop_rand.
  destruct (find_start _ _ _ _ _ _); [|discriminate]. destruct (rem_loop _ _ _ _ _ _); [|discriminate].
  intros H; inversion H. right. eexists. reflexivity. Qed.

Lemma class_effect d v choke g range : forall n hi hh hh', v_dir v = d -> InvL d hh -> RangeOK g hh (ids range) ->
  (n <= hi <= length range)%nat ->
  slot_list v choke (rev (ids (firstn n (skipn (hi - n) range)))) hh = Ok hh' ->
  InvL d hh' /\ LEff g (fun x => In x (ids range)) hh hh' /\
  q_cu (getq hh' g) = q_cu (getq hh g) + (if choke then - Z.of_nat n else Z.of_nat n).
Proof.
  intros n hi hh hh' Hd I R B S.
  assert (Sub : forall c, In c (rev (ids (firstn n (skipn (hi - n) range)))) -> In c (ids range)).
  { intros c Hc. apply in_rev in Hc. unfold ids in *. apply in_map_iff in Hc. destruct Hc as (p & <- & Hp).
    apply in_map. eapply slice_In; eauto. }
  destruct (slot_list_effect d v choke g _ hh hh' Hd I (fun c Hc => R c (Sub c Hc)) S) as (I' & E' & Q').
  split; auto. split; [eapply LEff_weaken; [|exact E']; auto|].
  rewrite Q'. rewrite rev_length. unfold ids. rewrite map_length, slice_length by lia. reflexivity.
Qed.

Lemma acr_effect d v heur g range mx choke h h' cnt : v_dir v = d -> InvL d h -> RangeOK g h (ids range) ->
  adjust_choke_range v heur range mx choke h = Ok (h', cnt) ->
  InvL d h' /\ LEff g (fun x => In x (ids range)) h h' /\
  q_cu (getq h' g) = q_cu (getq h g) + (if choke then - Z.of_N cnt else Z.of_N cnt) /\ (cnt <= mx)%N.
Proof.
  intros Hd I R. unfold adjust_choke_range.
  destruct (bounds_spec range) as (b1 & b2 & b3 & b4 & EB & B1 & B2). rewrite EB.
  cbn [sizes]. rewrite !Nat.sub_0_r.
  destruct (allocate_slots _ _ mx h) as [[tg h0]|] eqn:A; cbv beta iota; [|intros X; discriminate X].
  assert (I0 : InvL d h0 /\ LEff g (fun x => In x (ids range)) h h0 /\ q_cu (getq h0 g) = q_cu (getq h g)).
  { destruct (alloc_state _ _ _ _ _ _ A) as [->|[x ->]]; [split; auto; split; [apply LEff_refl|reflexivity]|].
    split; [apply inv_with_rs; auto|]. split; [apply LEff_with_rs|reflexivity]. }
  destruct I0 as (I0 & E0 & Q0). clear A.
  cbn [nthN nth].
  set (t0 := nthN tg 0). set (t1 := nthN tg 1). set (t2 := nthN tg 2). set (t3 := nthN tg 3).
  destruct (N.of_nat (b4 - b3) <? t3)%N eqn:C3; cbv beta iota; [intros X; discriminate X|]. apply N.ltb_ge in C3.
  destruct (slot_list v choke _ h0) as [h3|] eqn:S3; cbv beta iota; [|intros X; discriminate X].
  destruct (class_effect d v choke g range (N.to_nat t3) b4 h0 h3 Hd I0 (RangeOK_LEff _ _ _ _ _ E0 R) ltac:(lia) S3) as (I3 & E3 & Q3).
  pose proof (LEff_trans _ _ _ _ _ E0 E3) as E03.
  destruct (N.of_nat (b3 - b2) <? t2)%N eqn:C2; cbv beta iota; [intros X; discriminate X|]. apply N.ltb_ge in C2.
  destruct (slot_list v choke _ h3) as [h2|] eqn:S2; cbv beta iota; [|intros X; discriminate X].
  destruct (class_effect d v choke g range (N.to_nat t2) b3 h3 h2 Hd I3 (RangeOK_LEff _ _ _ _ _ E03 R) ltac:(lia) S2) as (I2 & E2 & Q2).
  pose proof (LEff_trans _ _ _ _ _ E03 E2) as E02.
  destruct (N.of_nat (b2 - b1) <? t1)%N eqn:C1; cbv beta iota; [intros X; discriminate X|]. apply N.ltb_ge in C1.
  destruct (slot_list v choke _ h2) as [h1|] eqn:S1; cbv beta iota; [|intros X; discriminate X].
  destruct (class_effect d v choke g range (N.to_nat t1) b2 h2 h1 Hd I2 (RangeOK_LEff _ _ _ _ _ E02 R) ltac:(lia) S1) as (I1 & E1 & Q1).
  pose proof (LEff_trans _ _ _ _ _ E02 E1) as E01.
  destruct (N.of_nat b1 <? t0)%N eqn:C0; cbv beta iota; [intros X; discriminate X|]. apply N.ltb_ge in C0.
  destruct (slot_list v choke _ h1) as [h00|] eqn:S0; cbv beta iota; [|intros X; discriminate X].
  destruct (class_effect d v choke g range (N.to_nat t0) b1 h1 h00 Hd I1 (RangeOK_LEff _ _ _ _ _ E01 R) ltac:(lia) S0) as (I00 & E00 & Q00).
  pose proof (LEff_trans _ _ _ _ _ E01 E00) as E000.
  destruct (mx <? _)%N eqn:CM; [intros X; discriminate X|]. apply N.ltb_ge in CM.
  intros H; inversion H; subst. split; auto. split; auto. split; auto.
  rewrite Q00, Q1, Q2, Q3, Q0. destruct choke; lia.
Qed.

(* ---------------------------------------------------------------- retrieve_connections *)
Definition forced1 (h : half) (t : nat) : Z :=
  Z.min (Z.of_N (N.min (e_min (getent h t)) (e_max (getent h t)))) (sz h t).
Definition forcedG (h : half) (g : nat) : Z := sumZ (map (forced1 h) (q_ents (getq h g))).

Lemma lenN_lenZ {A} (l : list A) : Z.of_N (lenN l) = lenZ l.
Proof. unfold lenN, lenZ. lia. Qed.
Lemma lenZ_nonneg {A} (l : list A) : 0 <= lenZ l.
Proof. unfold lenZ. lia. Qed.
Lemma sz_ge_u h t : lenZ (e_u (getent h t)) <= sz h t.
Proof. unfold sz. pose proof (lenZ_nonneg (e_q (getent h t))). lia. Qed.

Lemma fill_min_le d v t m : forall fuel h cnt h' cnt', v_dir v = d -> InvL d h -> (t < nt h)%nat ->
  lenZ (e_u (getent h t)) <= Z.of_N m ->
  fill_min fuel v t m h cnt = Ok (h', cnt') -> lenZ (e_u (getent h' t)) <= Z.of_N m.
Proof.
  induction fuel; intros h cnt h' cnt' Hd I Ht L H; cbn [fill_min] in H; [discriminate|].
  destruct (e_q (getent h t)) as [|p0 r0] eqn:Eq; [inversion H; subst; auto|].
  destruct (_ <? _)%N eqn:G; [|inversion H; subst; auto]. apply N.ltb_lt in G.
  set (c := fst (last (p0 :: r0) (O, 0%N))) in *.
  assert (Cin : In c (ids (e_q (getent h t)))).
  { rewrite Eq. unfold c, ids. apply in_map. apply last_In. discriminate. }
  apply (iv_mq _ _ I t c Ht) in Cin. destruct Cin as (Hc & Tc & _).
  destruct (slot v c false h) as [[h1 r1]|] eqn:S; [|discriminate]. cbn [fst snd] in H.
  destruct (slot_inv d v c false h h1 r1 Hd I S) as [I1 ->].
  pose proof (se_lu _ _ _ _ (slot_effect v c false h h1 (iv_wf _ _ I) Hc S)) as LU. rewrite Tc in LU.
  pose proof (slot_Fr _ _ _ _ _ _ S) as F.
  eapply IHfuel; [exact Hd|exact I1| | |exact H].
  - rewrite (fr_nt _ _ _ F). auto.
  - rewrite LU. rewrite <- lenN_lenZ. lia.
Qed.

Lemma retrieve_entry_effect d v g t h gs q u h' gs' q' u' :
  v_dir v = d -> InvL d h -> (t < nt h)%nat -> grp_of h t = g ->
  retrieve_entry v t (h, gs, q, u) = Ok (h', gs', q', u') ->
  InvL d h' /\ LEff g (fun c => tor_of h c = t) h h' /\
  q_cu (getq h' g) = q_cu (getq h g) + (Z.of_N (gs_changed gs') - Z.of_N (gs_changed gs)) /\
  lenZ (e_u (getent h' t)) = (Z.of_N (gs_now gs') - Z.of_N (gs_now gs)) + (lenZ u' - lenZ u) /\
  0 <= Z.of_N (gs_now gs') - Z.of_N (gs_now gs) <= forced1 h' t /\
  (exists qx ux, q' = q ++ qx /\ u' = u ++ ux /\
     (forall c, In c (ids qx) -> In c (ids (e_q (getent h' t)))) /\
     (forall c, In c (ids ux) -> In c (ids (e_u (getent h' t))))).
Proof.
  intros Hd I Ht G. unfold retrieve_entry.
  set (ms := N.min (e_min (getent h t)) (e_max (getent h t))).
  destruct (lenN (e_u (getent h t)) <? ms)%N eqn:C.
  - apply N.ltb_lt in C.
    destruct (fill_min _ v t ms h 0%N) as [[h1 c1]|] eqn:F; cbv beta iota; [|intros X; discriminate X].
    destruct (fill_min_effect d v t ms g _ h 0%N h1 c1 Hd I Ht G F) as (I1 & E1 & Q1).
    assert (L1 : lenZ (e_u (getent h1 t)) <= Z.of_N ms).
    { eapply (fill_min_le d v t ms); [exact Hd|exact I|exact Ht| |exact F]. rewrite <- lenN_lenZ. lia. }
    intros X. inversion X; subst h' gs' u'. clear X.
    split; auto. split; auto. cbn [gs_changed gs_now]. split; [rewrite Q1; lia|].
    split; [rewrite N2Z.inj_add, lenN_lenZ; lia|]. split.
    + rewrite N2Z.inj_add, lenN_lenZ. unfold forced1.
      destruct (fr_lim _ _ _ (le_fr _ _ _ _ E1) t) as [A B]. rewrite A, B. fold ms.
      pose proof (sz_ge_u h1 t). pose proof (lenZ_nonneg (e_u (getent h1 t))). lia.
    + destruct (_ <? _)%N.
      * eexists; exists []. split; [reflexivity|]. split; [rewrite app_nil_r; reflexivity|]. split; [|intros c []].
        intros c Hc. unfold ids, lastn in *. apply in_map_iff in Hc. destruct Hc as (p & <- & Hp). apply in_map. eapply my_skipn_In; eauto.
      * exists [], []. rewrite !app_nil_r. repeat split; auto; intros c [].
  - apply N.ltb_ge in C. cbv beta iota.
    intros X. inversion X; subst h' gs' u'. clear X.
    split; auto. split; [apply LEff_refl|]. cbn [gs_changed gs_now]. split; [lia|].
    assert (LS : lenZ (skipn (N.to_nat ms) (e_u (getent h t))) = lenZ (e_u (getent h t)) - Z.of_N ms).
    { unfold lenZ. rewrite skipn_length. unfold lenN in C. lia. }
    split; [unfold lenZ in *; rewrite app_length; rewrite N2Z.inj_add; lia|]. split.
    + rewrite N2Z.inj_add. unfold forced1. fold ms. pose proof (sz_ge_u h t). rewrite <- lenN_lenZ in H. lia.
    + destruct (_ <? _)%N.
      * eexists; eexists. split; [reflexivity|]. split; [reflexivity|]. split.
        -- intros c Hc. unfold ids, lastn in *. apply in_map_iff in Hc. destruct Hc as (p & <- & Hp). apply in_map. eapply my_skipn_In; eauto.
        -- intros c Hc. unfold ids in *. apply in_map_iff in Hc. destruct Hc as (p & <- & Hp). apply in_map. eapply my_skipn_In; eauto.
      * exists []. eexists. split; [rewrite app_nil_r; reflexivity|]. split; [reflexivity|]. split; [intros c []|].
        intros c Hc. unfold ids in *. apply in_map_iff in Hc. destruct Hc as (p & <- & Hp). apply in_map. eapply my_skipn_In; eauto.
Qed.

Definition RInv (g : nat) (h : half) (gs : gstats) (q u : wl) (done : list nat) : Prop :=
  sumZ (map (fun t => lenZ (e_u (getent h t))) done) = Z.of_N (gs_now gs) + lenZ u /\
  RangeOK g h (ids q) /\ RangeOK g h (ids u) /\
  Z.of_N (gs_now gs) <= sumZ (map (forced1 h) done).

Lemma retrieve_effect d v g : forall ts h gs q u h' gs' q' u' done,
  v_dir v = d -> InvL d h -> NoDup (done ++ ts) ->
  (forall t, In t ts -> (t < nt h)%nat /\ grp_of h t = g) ->
  RInv g h gs q u done ->
  retrieve_connections v ts (h, gs, q, u) = Ok (h', gs', q', u') ->
  InvL d h' /\ LEff g (fun _ => True) h h' /\
  q_cu (getq h' g) = q_cu (getq h g) + (Z.of_N (gs_changed gs') - Z.of_N (gs_changed gs)) /\
  RInv g h' gs' q' u' (done ++ ts).
Proof.
  induction ts as [|t ts IH]; intros h gs q u h' gs' q' u' done Hd I ND Hts R H.
  - simpl in H. inversion H; subst. rewrite app_nil_r. split; auto. split; [apply LEff_refl|]. split; [lia|auto].
  - change (retrieve_connections v (t :: ts) (h, gs, q, u)) with
      (do acc' <- retrieve_entry v t (h, gs, q, u); retrieve_connections v ts acc') in H.
    destruct (retrieve_entry v t (h, gs, q, u)) as [[[[h1 gs1] q1] u1]|] eqn:RE; [|discriminate].
    destruct (Hts t (or_introl eq_refl)) as [Ht Gt].
    destruct (retrieve_entry_effect d v g t h gs q u h1 gs1 q1 u1 Hd I Ht Gt RE) as (I1 & E1 & Q1 & LU & FB & qx & ux & -> & -> & Hqx & Hux).
    destruct R as (R1 & R2 & R3 & R4).
    assert (Tnot : ~ In t done).
    { intros X. apply NoDup_remove_2 in ND. apply ND. apply in_or_app. auto. }
    assert (Same : forall t', In t' done -> getent h1 t' = getent h t').
    { intros t' X. apply (le_ent _ _ _ _ E1). intros c Tc E. subst. congruence. }
    assert (R' : RInv g h1 gs1 (q ++ qx) (u ++ ux) (done ++ [t])).
    { unfold RInv. rewrite !map_app. cbn [map]. split; [|split; [|split]].
      - assert (X : sumZ (map (fun t0 => lenZ (e_u (getent h1 t0))) done ++ [lenZ (e_u (getent h1 t))]) =
                    sumZ (map (fun t0 => lenZ (e_u (getent h t0))) done) + lenZ (e_u (getent h1 t))).
        { clear -Same. induction done; simpl; [lia|]. rewrite Same by (left; auto). rewrite IHdone; [lia|]. intros; apply Same; right; auto. }
        rewrite X, R1, LU. unfold lenZ. rewrite !app_length. lia.
      - unfold ids. rewrite map_app. intros c Hc. apply in_app_or in Hc. destruct Hc as [Hc|Hc].
        + apply (RangeOK_LEff _ _ _ _ _ E1 R2); auto.
        + apply Hqx in Hc. apply (iv_mq _ _ I1 t c) in Hc; [|rewrite (fr_nt _ _ _ (le_fr _ _ _ _ E1)); auto].
          destruct Hc as (A & B & _). split; auto. rewrite B, (Fr_grp _ _ _ _ (le_fr _ _ _ _ E1)). auto.
      - unfold ids. rewrite map_app. intros c Hc. apply in_app_or in Hc. destruct Hc as [Hc|Hc].
        + apply (RangeOK_LEff _ _ _ _ _ E1 R3); auto.
        + apply Hux in Hc. apply (iv_mu _ _ I1 t c) in Hc; [|rewrite (fr_nt _ _ _ (le_fr _ _ _ _ E1)); auto].
          destruct Hc as (A & B & _). split; auto. rewrite B, (Fr_grp _ _ _ _ (le_fr _ _ _ _ E1)). auto.
      - assert (X : sumZ (map (forced1 h1) done ++ [forced1 h1 t]) = sumZ (map (forced1 h) done) + forced1 h1 t).
        { clear -Same. induction done; simpl; [lia|]. unfold forced1 at 1, sz. rewrite Same by (left; auto).
          rewrite IHdone; [unfold forced1, sz; lia|]. intros; apply Same; right; auto. }
        rewrite X. lia. }
    assert (ND' : NoDup ((done ++ [t]) ++ ts)) by (rewrite <- app_assoc; exact ND).
    assert (Hts' : forall t', In t' ts -> (t' < nt h1)%nat /\ grp_of h1 t' = g).
    { intros t' X. destruct (Hts t' (or_intror X)). rewrite (fr_nt _ _ _ (le_fr _ _ _ _ E1)), (Fr_grp _ _ _ _ (le_fr _ _ _ _ E1)). auto. }
    destruct (IH h1 gs1 _ _ h' gs' q' u' (done ++ [t]) Hd I1 ND' Hts' R' H) as (I2 & E2 & Q2 & R2').
    rewrite <- app_assoc in R2'. split; auto. split.
    + eapply LEff_trans; [eapply LEff_weaken; [|exact E1]; auto|exact E2].
    + split; [rewrite Q2, Q1; lia|exact R2'].
Qed.

(* prepare_weights only reorders the lists of the group's own entries *)
Record PW (h h' : half) : Prop := mkPW {
  pw_ctor : h_ctor h' = h_ctor h; pw_tgrp : h_tgrp h' = h_tgrp h; pw_cs : h_cs h' = h_cs h;
  pw_nt : nt h' = nt h; pw_ng : ng h' = ng h; pw_q : forall g, getq h' g = getq h g;
  pw_cur : h_cur h' = h_cur h; pw_max : h_max h' = h_max h;
  pw_e : forall t, e_max (getent h' t) = e_max (getent h t) /\ e_min (getent h' t) = e_min (getent h t) /\
                   lenZ (e_q (getent h' t)) = lenZ (e_q (getent h t)) /\ lenZ (e_u (getent h' t)) = lenZ (e_u (getent h t)) }.
Lemma PW_refl h : PW h h. Proof. constructor; auto. Qed.
Lemma PW_trans h1 h2 h3 : PW h1 h2 -> PW h2 h3 -> PW h1 h3.
Proof. intros A B. constructor.
  - rewrite (pw_ctor _ _ B). apply A. - rewrite (pw_tgrp _ _ B). apply A. - rewrite (pw_cs _ _ B). apply A.
  - rewrite (pw_nt _ _ B). apply A. - rewrite (pw_ng _ _ B). apply A.
  - intros g. rewrite (pw_q _ _ B), (pw_q _ _ A). auto.
  - rewrite (pw_cur _ _ B). apply A. - rewrite (pw_max _ _ B). apply A.
  - intros t. destruct (pw_e _ _ A t) as (x1 & x2 & x3 & x4), (pw_e _ _ B t) as (y1 & y2 & y3 & y4). repeat split; congruence. Qed.

Lemma lenZ_perm_ids (l l' : wl) : Permutation (ids l) (ids l') -> lenZ l = lenZ l'.
Proof. intros P. apply Permutation_length in P. unfold ids in P. rewrite !map_length in P. unfold lenZ. lia. Qed.

Lemma prepare_entry_PW v heur t h : PW h (prepare_entry v heur t h).
Proof.
  unfold prepare_entry.
  pose proof (ids_reweigh v h heur (e_q (getent h t)) (h_rs h)) as RW.
  destruct (reweigh_q v h heur (e_q (getent h t)) (h_rs h)) as [q' rs']. simpl in RW.
  constructor; try reflexivity.
  - unfold nt, with_rs, upde, with_ents. cbn [h_ents]. apply length_upd.
  - intros t'. unfold getent, with_rs, upde, with_ents. cbn [h_ents].
    destruct (Nat.eq_dec t' t) as [->|N]; [destruct (Nat.lt_ge_cases t (length (h_ents h))) as [L|L]|].
    + rewrite nth_upd_eq by auto. cbn [e_max e_min e_q e_u]. repeat split.
      * apply lenZ_perm_ids. eapply perm_trans; [apply ids_isort|]. rewrite RW. apply Permutation_refl.
      * apply lenZ_perm_ids. eapply perm_trans; [apply ids_isort|]. rewrite ids_map_w. apply Permutation_refl.
    + rewrite upd_overflow by auto. auto.
    + rewrite nth_upd_neq by auto. auto.
Qed.
Lemma prepare_weights_PW v g h : PW h (prepare_weights v g h).
Proof. unfold prepare_weights. generalize (q_ents (getq h g)). intros l. revert h.
  induction l; simpl; intros h; [apply PW_refl|]. eapply PW_trans; [|apply IHl]. apply prepare_entry_PW. Qed.

Lemma prepare_entry_other v heur t h t' : t' <> t -> getent (prepare_entry v heur t h) t' = getent h t'.
Proof. intros N. unfold prepare_entry. destruct (reweigh_q _ _ _ _ _) as [q' rs'].
  unfold getent, with_rs, upde, with_ents. cbn [h_ents]. apply nth_upd_neq. auto. Qed.
Lemma prepare_weights_other v g h t : ~ In t (q_ents (getq h g)) -> getent (prepare_weights v g h) t = getent h t.
Proof. unfold prepare_weights. generalize (q_ents (getq h g)). intros l. revert h.
  induction l; simpl; intros h N; auto. rewrite IHl by tauto. apply prepare_entry_other. intros E. apply N. auto. Qed.

(* ---------------------------------------------------------------- cycle *)
(* what choke_queue::cycle on group g leaves unchanged *)
Record CEff (g : nat) (h h' : half) : Prop := mkCEff {
  ce_ctor : h_ctor h' = h_ctor h; ce_tgrp : h_tgrp h' = h_tgrp h;
  ce_nt : nt h' = nt h; ce_ng : ng h' = ng h; ce_nc : nc h' = nc h;
  ce_q : forall g', g' <> g -> getq h' g' = getq h g';
  ce_qs : forall g', q_max (getq h' g') = q_max (getq h g') /\ q_ents (getq h' g') = q_ents (getq h g') /\ q_heur (getq h' g') = q_heur (getq h g');
  ce_e : forall t, grp_of h t <> g -> getent h' t = getent h t;
  ce_f : forall t, forced1 h' t = forced1 h t;
  ce_cur : h_cur h' = h_cur h /\ h_max h' = h_max h }.

Lemma CEff_of_LEff g C h h' : LEff g C h h' -> CEff g h h'.
Proof. intros E. pose proof (le_fr _ _ _ _ E) as F. destruct F. constructor; auto.
  - apply (le_nc _ _ _ _ E).
  - intros t. unfold forced1. destruct (fr_lim t) as [A B]. rewrite A, B, (le_sz _ _ _ _ E). reflexivity. Qed.
Lemma CEff_trans g h1 h2 h3 : CEff g h1 h2 -> CEff g h2 h3 -> CEff g h1 h3.
Proof. intros A B. constructor.
  - rewrite (ce_ctor _ _ _ B). apply A. - rewrite (ce_tgrp _ _ _ B). apply A.
  - rewrite (ce_nt _ _ _ B). apply A. - rewrite (ce_ng _ _ _ B). apply A. - rewrite (ce_nc _ _ _ B). apply A.
  - intros g' N. rewrite (ce_q _ _ _ B), (ce_q _ _ _ A); auto.
  - intros g'. destruct (ce_qs _ _ _ A g') as (x1 & x2 & x3), (ce_qs _ _ _ B g') as (y1 & y2 & y3). repeat split; congruence.
  - intros t N. rewrite (ce_e _ _ _ B), (ce_e _ _ _ A); auto. unfold grp_of. rewrite (ce_tgrp _ _ _ A). auto.
  - intros t. rewrite (ce_f _ _ _ B), (ce_f _ _ _ A). auto.
  - destruct (ce_cur _ _ _ A), (ce_cur _ _ _ B). split; congruence. Qed.

Lemma CEff_prepare d v g h : InvL d h -> (g < ng h)%nat -> CEff g h (prepare_weights v g h).
Proof. intros I Hg. pose proof (prepare_weights_PW v g h) as P. destruct P. constructor; auto.
  - unfold nc. rewrite pw_cs0. auto.
  - intros g'. rewrite pw_q0. auto.
  - intros t N. apply prepare_weights_other. destruct (iv_qe _ _ I g Hg) as [_ M]. rewrite M. tauto.
  - intros t. unfold forced1, sz. destruct (pw_e0 t) as (x1 & x2 & x3 & x4). rewrite x1, x2, x3, x4. reflexivity. Qed.

Lemma forcedG_CEff g h h' : CEff g h h' -> forcedG h' g = forcedG h g.
Proof. intros E. unfold forcedG. destruct (ce_qs _ _ _ E g) as (_ & -> & _). f_equal. apply map_ext. apply (ce_f _ _ _ E). Qed.

Theorem cycle_effect d v g quota h h' z : v_dir v = d -> InvL d h -> (g < ng h)%nat ->
  cycle v g quota h = Ok (h', z) ->
  InvL d h' /\ CEff g h h' /\
  q_cu (getq h' g) <= Z.max (Z.of_N (N.min quota (q_max (getq h g)))) (forcedG h' g) /\
  z = q_cu (getq h' g) - q_cu (getq h g).
Proof.
  intros Hd I Hg. unfold cycle.
  set (q := getq h g). set (h1 := prepare_weights v g h).
  pose proof (prepare_weights_inv d v g h I) as I1. fold h1 in I1.
  pose proof (CEff_prepare d v g h I Hg) as E1. fold h1 in E1.
  destruct (iv_qe _ _ I g Hg) as [NDe Me].
  destruct (retrieve_connections v (q_ents q) (h1, mkGS 0 0, [], [])) as [[[[h2 gs] queued] unchoked]|] eqn:RC; cbv beta iota; [|intros X; discriminate X].
  assert (Hts : forall t, In t (q_ents q) -> (t < nt h1)%nat /\ grp_of h1 t = g).
  { intros t X. apply Me in X. rewrite (ce_nt _ _ _ E1). unfold grp_of. rewrite (ce_tgrp _ _ _ E1). exact X. }
  assert (R0 : RInv g h1 (mkGS 0 0) [] [] []).
  { unfold RInv, lenZ. split; [simpl; lia|split; [intros c []|split; [intros c []|simpl; lia]]]. }
  destruct (retrieve_effect d v g (q_ents q) h1 (mkGS 0 0) [] [] h2 gs queued unchoked [] Hd I1 NDe Hts R0 RC) as (I2 & E2 & Q2 & R2).
  simpl app in R2. destruct R2 as (S2 & RQ & RU & F2).
  pose proof (CEff_of_LEff _ _ _ _ E2) as C2.
  assert (Hg2 : (g < ng h2)%nat) by (rewrite (ce_ng _ _ _ C2), (ce_ng _ _ _ E1); auto).
  assert (Ents2 : q_ents (getq h2 g) = q_ents q).
  { destruct (ce_qs _ _ _ C2 g) as (_ & -> & _). destruct (ce_qs _ _ _ E1 g) as (_ & -> & _). reflexivity. }
  assert (Qcu2 : q_cu (getq h2 g) = Z.of_N (gs_now gs) + lenZ unchoked).
  { rewrite <- (sum_u_qcu d h2 g I2 Hg2). unfold sum_u. rewrite (fold_left_sumZ (fun t => lenZ (e_u (getent h2 t)))). rewrite Ents2, S2. lia. }
  set (quota1 := N.min quota (q_max q)). set (quota' := (quota1 - N.min quota1 (gs_now gs))%N).
  destruct (adjust_choke_range v (q_heur q) queued _ false h2) as [[h3 c3]|] eqn:A3; cbv beta iota; [|intros X; discriminate X].
  destruct (acr_effect d v (q_heur q) g queued _ false h2 h3 c3 Hd I2 RQ A3) as (I3 & E3 & Q3 & L3).
  pose proof (CEff_of_LEff _ _ _ _ E3) as C3.
  match goal with |- context [if (quota' <? ?uu)%N then _ else _] => set (usz := uu) end.
  assert (Fin : forall h4 usz', InvL d h4 -> CEff g h3 h4 -> q_cu (getq h4 g) = Z.of_N (gs_now gs) + Z.of_N usz' ->
     (if (quota' <? usz')%N then Err EInternal else Ok (h4, sum_u h4 (q_ents (getq h4 g)) - sum_u h (q_ents q))) = Ok (h', z) ->
     InvL d h' /\ CEff g h h' /\ q_cu (getq h' g) <= Z.max (Z.of_N quota1) (forcedG h' g) /\ z = q_cu (getq h' g) - q_cu (getq h g)).
  { intros h4 usz' I4 C4 Q4. destruct (quota' <? usz')%N eqn:CQ; [intros X; discriminate X|]. apply N.ltb_ge in CQ.
    intros X; inversion X; subst h' z. clear X.
    assert (CT : CEff g h h4) by (eapply CEff_trans; [exact E1|eapply CEff_trans; [exact C2|eapply CEff_trans; [exact C3|exact C4]]]).
    assert (Hg4 : (g < ng h4)%nat) by (rewrite (ce_ng _ _ _ CT); auto).
    split; auto. split; auto. split.
    - rewrite Q4. rewrite (forcedG_CEff _ _ _ CT).
      assert (FG : Z.of_N (gs_now gs) <= forcedG h g).
      { rewrite <- (forcedG_CEff _ _ _ E1), <- (forcedG_CEff _ _ _ C2). unfold forcedG. rewrite Ents2. exact F2. }
      subst quota'. lia.
    - rewrite (sum_u_qcu d h4 g I4 Hg4). unfold q. rewrite (sum_u_qcu d h g I Hg). reflexivity. }
  destruct (quota' <? usz)%N eqn:CU.
  - destruct (adjust_choke_range v (q_heur q) unchoked _ true h3) as [[h4 c4]|] eqn:A4; cbv beta iota; [|intros X; discriminate X].
    assert (RU3 : RangeOK g h3 (ids unchoked)) by (exact (RangeOK_LEff _ _ _ _ _ E3 RU)).
    destruct (acr_effect d v (q_heur q) g unchoked _ true h3 h4 c4 Hd I3 RU3 A4) as (I4 & E4 & Q4 & L4).
    cbn [fst snd]. apply Fin; auto.
    + apply (CEff_of_LEff _ _ _ _ E4).
    + rewrite Q4, Q3, Qcu2. subst usz. rewrite N2Z.inj_sub by lia. rewrite N2Z.inj_add, lenN_lenZ. lia.
  - apply Fin; auto.
    + constructor; auto; intros; repeat split; auto.
    + rewrite Q3, Qcu2. subst usz. rewrite N2Z.inj_add, lenN_lenZ. lia.
Qed.
