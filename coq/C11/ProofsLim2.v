(* C11 proofs: effect of one slot call / of a list of slot calls on everything outside the
   connection, its torrent and its group (frames), sizes, and the group's queue counter. *)
From Coq Require Import List NArith ZArith Bool Arith Lia Permutation.
From LTV.C11 Require Import Model Proofs Proofs2 ProofsInv ProofsInv2 ProofsInv3 ProofsLim.
Import ListNotations.
Local Open Scope Z_scope.

Definition sz (h : half) (t : nat) : Z := lenZ (e_q (getent h t)) + lenZ (e_u (getent h t)).

Record SEff (c : nat) (choke : bool) (h h' : half) : Prop := mkSEff {
  se_nc : nc h' = nc h;
  se_cs : forall c', c' <> c -> getcs h' c' = getcs h c';
  se_ent : forall t', t' <> tor_of h c -> getent h' t' = getent h t';
  se_sz : forall t', sz h' t' = sz h t';
  se_lu : lenZ (e_u (getent h' (tor_of h c))) = lenZ (e_u (getent h (tor_of h c))) + (if choke then -1 else 1);
  se_fl : cs_u (getcs h' c) = negb choke /\ cs_a (getcs h' c) = cs_a (getcs h c) /\ cs_q (getcs h' c) = cs_q (getcs h c)
          /\ cs_s (getcs h' c) = cs_s (getcs h c) }.

Lemma slot_effect v c choke h h' : WF h -> (c < nc h)%nat -> slot v c choke h = Ok (h', true) -> SEff c choke h h'.
Proof.
  intros W Hc. pose proof (tor_lt h c W) as Ht. pose proof (grp_lt h (tor_of h c) W) as Hg.
  assert (Htn : (tor_of h c < ntn h)%nat) by (unfold ntn; rewrite (wf_tn _ W); exact Ht).
  unfold slot. destruct (Bool.eqb _ _); [discriminate|].
  set (t := tor_of h c) in *. set (g := grp_of h t) in *. destruct choke.
  - destruct (remove_swap c (e_u (getent h t))) as [u'|] eqn:R; [|discriminate]. destruct (has c _); [discriminate|].
    apply lenZ_remove_swap in R.
    set (h2 := updq g _ _).
    assert (E2 : SEff c true h h2).
    { constructor; fold t.
      - subst h2. dims. reflexivity.
      - intros c' N. subst h2. gs. reflexivity.
      - intros t' N. subst h2. gs. reflexivity.
      - intros t'. unfold sz. destruct (Nat.eq_dec t' t) as [->|N]; subst h2; gs; simpl; rewrite ?lenZ_push; lia.
      - subst h2. gs. simpl. lia.
      - subst h2. gs. simpl. auto. }
    destruct (v_dir v); cbv iota; [intros X; inversion X; subst; auto|].
    destruct (cs_r _); cbv iota; [intros X; inversion X; subst; auto|].
    destruct (set_not_queued_inner c h2); cbv iota beta; [|discriminate]. intros X; inversion X.
  - destruct (remove_swap c (e_q (getent h t))) as [q'|] eqn:R; [|discriminate]. destruct (has c _); [discriminate|].
    apply lenZ_remove_swap in R.
    intros X; inversion X; subst. constructor; fold t.
    + dims. reflexivity.
    + intros c' N. gs. reflexivity.
    + intros t' N. gs. reflexivity.
    + intros t'. unfold sz. destruct (Nat.eq_dec t' t) as [->|N]; gs; simpl; rewrite ?lenZ_push; lia.
    + gs. simpl. rewrite lenZ_push. lia.
    + gs. simpl. auto.
Qed.

(* everything a sequence of slot calls on connections of group g (all in the set C) preserves *)
Record LEff (g : nat) (C : nat -> Prop) (h h' : half) : Prop := mkLEff {
  le_fr : Fr g h h';
  le_nc : nc h' = nc h;
  le_cs : forall c, ~ C c -> getcs h' c = getcs h c;
  le_ent : forall t, (forall c, C c -> tor_of h c <> t) -> getent h' t = getent h t;
  le_sz : forall t, sz h' t = sz h t }.

Lemma LEff_refl g C h : LEff g C h h.
Proof. constructor; auto. apply Fr_refl. Qed.
Lemma LEff_trans g C h1 h2 h3 : LEff g C h1 h2 -> LEff g C h2 h3 -> LEff g C h1 h3.
Proof. intros A B. destruct A, B. constructor.
  - eapply Fr_trans; eauto.
  - congruence.
  - intros c N. rewrite le_cs1, le_cs0; auto.
  - intros t N. rewrite le_ent1, le_ent0; auto. intros c Cc. unfold tor_of. rewrite (fr_ctor _ _ _ le_fr0). apply N; auto.
  - intros t. rewrite le_sz1, le_sz0; auto.
Qed.
Lemma LEff_weaken g (C C' : nat -> Prop) h h' : (forall c, C c -> C' c) -> LEff g C h h' -> LEff g C' h h'.
Proof. intros I A. destruct A. constructor; auto. Qed.

Lemma slot_LEff d v c choke h h' r g : v_dir v = d -> InvL d h -> (c < nc h)%nat -> grp_of h (tor_of h c) = g ->
  slot v c choke h = Ok (h', r) ->
  InvL d h' /\ LEff g (fun x => x = c) h h' /\ q_cu (getq h' g) = q_cu (getq h g) + (if choke then -1 else 1).
Proof.
  intros Hd I Hc G S. destruct (slot_inv d v c choke h h' r Hd I S) as [I' ->].
  pose proof (slot_effect v c choke h h' (iv_wf _ _ I) Hc S) as E.
  pose proof (slot_Fr _ _ _ _ _ _ S) as F. rewrite G in F.
  pose proof (slot_qcu d v c choke h h' true Hd I S) as Q. rewrite G in Q.
  split; auto. split; auto. destruct E.
  constructor; [exact F|exact se_nc0|intros x N; apply se_cs0; auto| |exact se_sz0].
  intros t N. apply se_ent0. intros E. apply (N c eq_refl). auto.
Qed.

Lemma Fr_tor g h h' c : Fr g h h' -> tor_of h' c = tor_of h c.
Proof. intros F. unfold tor_of. rewrite (fr_ctor _ _ _ F). reflexivity. Qed.
Lemma Fr_grp g h h' t : Fr g h h' -> grp_of h' t = grp_of h t.
Proof. intros F. unfold grp_of. rewrite (fr_tgrp _ _ _ F). reflexivity. Qed.

Lemma slot_list_effect d v choke g : forall l h h', v_dir v = d -> InvL d h ->
  (forall c, In c l -> (c < nc h)%nat /\ grp_of h (tor_of h c) = g) ->
  slot_list v choke l h = Ok h' ->
  InvL d h' /\ LEff g (fun x => In x l) h h' /\
  q_cu (getq h' g) = q_cu (getq h g) + (if choke then - Z.of_nat (length l) else Z.of_nat (length l)).
Proof.
  induction l as [|a r IH]; intros h h' Hd I Hl H.
  - simpl in H. inversion H; subst. split; auto. split; [apply LEff_refl|]. simpl. destruct choke; lia.
  - cbn [slot_list] in H. destruct (slot v a choke h) as [[h1 r1]|] eqn:S; [|discriminate]. cbn [fst] in H.
    destruct (Hl a (or_introl eq_refl)) as [Ha Ga].
    destruct (slot_LEff d v a choke h h1 r1 g Hd I Ha Ga S) as (I1 & E1 & Q1).
    assert (Hl1 : forall c, In c r -> (c < nc h1)%nat /\ grp_of h1 (tor_of h1 c) = g).
    { intros c Hc. destruct (Hl c (or_intror Hc)) as [X Y]. rewrite (le_nc _ _ _ _ E1).
      rewrite (Fr_tor _ _ _ _ (le_fr _ _ _ _ E1)), (Fr_grp _ _ _ _ (le_fr _ _ _ _ E1)). auto. }
    destruct (IH h1 h' Hd I1 Hl1 H) as (I2 & E2 & Q2).
    split; auto. split.
    + eapply LEff_trans; [eapply LEff_weaken; [|exact E1]|eapply LEff_weaken; [|exact E2]]; simpl; intros; subst; auto.
    + rewrite Q2, Q1. cbn [length]. destruct choke; lia.
Qed.

Lemma last_In {A} (l : list A) d : l <> [] -> In (last l d) l.
Proof. induction l; intros N; [congruence|]. destruct l; [left; reflexivity|]. right. apply IHl. discriminate. Qed.

Lemma fill_min_effect d v t m g : forall fuel h cnt h' cnt', v_dir v = d -> InvL d h -> (t < nt h)%nat -> grp_of h t = g ->
  fill_min fuel v t m h cnt = Ok (h', cnt') ->
  InvL d h' /\ LEff g (fun c => tor_of h c = t) h h' /\
  q_cu (getq h' g) = q_cu (getq h g) + (Z.of_N cnt' - Z.of_N cnt).
Proof.
  induction fuel; intros h cnt h' cnt' Hd I Ht G H; cbn [fill_min] in H; [discriminate|].
  destruct (e_q (getent h t)) as [|p0 r0] eqn:Eq; [inversion H; subst; split; auto; split; [apply LEff_refl|lia]|].
  destruct (_ <? _)%N; [|inversion H; subst; split; auto; split; [apply LEff_refl|lia]].
  set (c := fst (last (p0 :: r0) (O, 0%N))) in *.
  assert (Cin : In c (ids (e_q (getent h t)))).
  { rewrite Eq. unfold c, ids. apply in_map. apply last_In. discriminate. }
  apply (iv_mq _ _ I t c Ht) in Cin. destruct Cin as (Hc & Tc & _).
  destruct (slot v c false h) as [[h1 r1]|] eqn:S; [|discriminate]. cbn [fst snd] in H.
  assert (Gc : grp_of h (tor_of h c) = g) by (rewrite Tc; auto).
  destruct (slot_LEff d v c false h h1 r1 g Hd I Hc Gc S) as (I1 & E1 & Q1).
  destruct (slot_inv d v c false h h1 r1 Hd I S) as [_ ->].
  assert (Ht1 : (t < nt h1)%nat) by (rewrite (fr_nt _ _ _ (le_fr _ _ _ _ E1)); auto).
  assert (G1 : grp_of h1 t = g) by (rewrite (Fr_grp _ _ _ _ (le_fr _ _ _ _ E1)); auto).
  destruct (IHfuel h1 _ h' cnt' Hd I1 Ht1 G1 H) as (I2 & E2 & Q2).
  split; auto. split.
  - eapply LEff_trans; [eapply LEff_weaken; [|exact E1]|eapply LEff_weaken; [|exact E2]]; simpl.
    + intros x ->. auto.
    + intros x X. rewrite (Fr_tor _ _ _ _ (le_fr _ _ _ _ E1)) in X. auto.
  - rewrite Q2, Q1. lia.
Qed.
