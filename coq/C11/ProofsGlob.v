(* C11 proofs: the global counter (ResourceManager::m_currently*Unchoked = sum of the groups'
   currently_unchoked) over all op lists made of every op except the two unit-level entry points
   that production code never calls directly (choke_queue::balance, and choke_queue::cycle outside
   ResourceManager::receive_tick). *)
From Coq Require Import List NArith ZArith Bool Arith Lia Permutation.
From LTV.C11 Require Import Model Proofs Proofs2 ProofsInv ProofsInv2 ProofsInv3 ProofsInv4.
Import ListNotations.
Local Open Scope Z_scope.

Lemma D_updcs c f h : D (updcs c f h) = D h. Proof. reflexivity. Qed.
Lemma D_upde t f h : D (upde t f h) = D h. Proof. reflexivity. Qed.
Lemma D_updtn t z h : D (updtn t z h) = D h. Proof. reflexivity. Qed.
Lemma D_with_rs h x : D (with_rs h x) = D h. Proof. reflexivity. Qed.
Lemma D_with_max h x : D (with_max h x) = D h. Proof. reflexivity. Qed.
Lemma D_with_cur h x : D (with_cur h x) = D h + (x - h_cur h). Proof. unfold D, SQu. simpl. lia. Qed.
Lemma D_updq_add g a b h : (g < ng h)%nat -> D (updq g (q_add a b) h) = D h - b.
Proof. intros Hg. unfold D, SQu, updq, with_qs. cbn [h_cur h_qs]. rewrite (sum_upd_shift q_cu _ b) by (auto; intros; reflexivity). lia. Qed.
Lemma D_updq_lims g F h : (forall q, q_cu (F q) = q_cu q) -> D (updq g F h) = D h.
Proof. intros HF. unfold D, SQu, updq, with_qs. cbn [h_cur h_qs]. rewrite sum_upd_same by auto. reflexivity. Qed.

Lemma eff_D d h h' : eff d h h' -> WF h -> D h' = D h + d.
Proof. intros E W. destruct (E W) as (_ & _ & _ & _ & X). exact X. Qed.

Lemma D_close d c h h' : InvL d h -> (c < nc h)%nat -> cs_a (getcs h c) = true -> close_half c h = Ok h' -> D h' = D h.
Proof.
  intros I Hc A. pose proof (iv_wf _ _ I) as W. pose proof (grp_lt h (tor_of h c) W) as Hg.
  unfold close_half. set (t := tor_of h c) in *.
  destruct (cs_u (getcs h c)) eqn:U.
  - assert (IU : inu (getcs h c) = true) by (unfold inu; rewrite A, U; reflexivity).
    destruct (iv_fl _ _ I c Hc IU) as [Q S]. rewrite S.
    unfold recv_unchoke. cbn [h_cur updtn with_tn]. destruct (_ <? _); [discriminate|].
    set (h1 := with_cur _ _). change (getent h1 t) with (getent h t). change (grp_of h1 t) with (grp_of h t).
    destruct (remove_swap c _) as [u'|]; [|discriminate]. intros X; inversion X; subst.
    rewrite D_updcs, D_updq_add by exact Hg. rewrite D_upde. subst h1. rewrite D_with_cur. cbn [h_cur updtn with_tn]. rewrite D_updtn. lia.
  - rewrite updtn_0. destruct (cs_s (getcs h c)); [|destruct (cs_q (getcs h c))].
    + intros X; inversion X; subst. apply D_updcs.
    + destruct (connection_unqueued c h) as [h2|] eqn:CU; [|discriminate]. intros X; inversion X; subst.
      rewrite D_updcs. apply eff_connection_unqueued in CU. rewrite (eff_D _ _ _ CU W). lia.
    + intros X; inversion X; subst. apply D_updcs.
Qed.

Lemma choke_back_D d v t : forall fuel h cnt h' cnt', v_dir v = d -> InvL d h ->
  choke_back fuel v t h cnt = Ok (h', cnt') -> D h' + cnt' = D h + cnt.
Proof. induction fuel; simpl; intros h cnt h' cnt' Hd I H; [discriminate|].
  destruct (e_u (getent h t)); [inversion H; subst; lia|].
  destruct (_ <? _)%N; [|inversion H; subst; lia].
  destruct (slot v _ true h) as [[h1 r]|] eqn:S; [|discriminate]. simpl in H.
  destruct (slot_inv d v _ true h h1 r Hd I S) as [I1 ->].
  apply IHfuel in H; auto. apply eff_slot in S. rewrite (eff_D _ _ _ S (iv_wf _ _ I)) in H. lia. Qed.

Lemma fill_min_D d v t m : forall fuel h cnt h' cnt', v_dir v = d -> InvL d h ->
  fill_min fuel v t m h cnt = Ok (h', cnt') -> D h' + Z.of_N cnt' = D h + Z.of_N cnt.
Proof. induction fuel; simpl; intros h cnt h' cnt' Hd I H; [discriminate|].
  destruct (e_q (getent h t)); [inversion H; subst; lia|].
  destruct (_ <? _)%N; [|inversion H; subst; lia].
  destruct (slot v _ false h) as [[h1 r]|] eqn:S; [|discriminate]. simpl in H.
  destruct (slot_inv d v _ false h h1 r Hd I S) as [I1 ->].
  apply IHfuel in H; auto. apply eff_slot in S. rewrite (eff_D _ _ _ S (iv_wf _ _ I)) in H. lia. Qed.

Lemma D_prepare_entry v heur t h : D (prepare_entry v heur t h) = D h.
Proof. unfold prepare_entry. destruct (reweigh_q _ _ _ _ _). reflexivity. Qed.

Lemma D_balance_entry d v t h h' : v_dir v = d -> InvL d h -> balance_entry v t h = Ok h' -> D h' = D h.
Proof. intros Hd I. unfold balance_entry.
  destruct (choke_back _ _ _ _ _) as [[h2 c1]|] eqn:A; [|discriminate].
  pose proof (prepare_entry_inv d v (q_heur (getq h (grp_of h t))) t h I) as I1.
  pose proof (choke_back_D d v t _ _ _ _ _ Hd I1 A) as DA.
  apply choke_back_inv with (d := d) in A; auto.
  destruct (fill_min _ _ _ _ _ _) as [[h3 c2]|] eqn:B; [|discriminate].
  pose proof (fill_min_D d v t _ _ _ _ _ _ Hd A B) as DB.
  intros H. apply eff_recv_unchoke in H. apply fill_min_inv with (d := d) in B; auto.
  rewrite (eff_D _ _ _ H (iv_wf _ _ B)). rewrite D_prepare_entry in DA. lia. Qed.

Definition prod_op (o : op) : bool := match o with OBalance _ _ | OCycle _ _ _ => false | _ => true end.
Definition FullSt (s : st) : Prop := InvSt s /\ D (s_up s) = 0 /\ D (s_dn s) = 0.

Lemma on_half_D d rs s s' (f : env -> half -> res half) :
  on_half d rs s f = Ok s' ->
  (forall h', f (env_of d s) (with_rs (get_half d s) rs) = Ok h' -> D h' = D (get_half d s)) ->
  D (s_up s') = D (s_up s) /\ D (s_dn s') = D (s_dn s).
Proof. unfold on_half. destruct (f _ _) as [h1|] eqn:F; [|discriminate]. intros H Hf; inversion H; subst.
  specialize (Hf _ eq_refl). destruct d; simpl in *; rewrite ?D_with_rs; auto. Qed.

Lemma fold_left_sum l : forall z, fold_left (fun a q => a + q_cu q) l z = z + sumZ (map q_cu l).
Proof. induction l; simpl; intros; [lia|]. rewrite IHl. lia. Qed.
Lemma tick_check_D h h' : tick_check h = Ok h' -> D h = 0.
Proof. intros H. apply tick_check_ok in H. unfold D, SQu. rewrite H, fold_left_sum. lia. Qed.

Lemma step_D s o rs s' : prod_op o = true -> FullSt s -> step s o rs = Ok s' -> D (s_up s') = 0 /\ D (s_dn s') = 0.
Proof.
  intros Hp (G & Du & Dd). pose proof G as [Iu Id].
  assert (Wd : forall d, WF (with_rs (get_half d s) rs)) by (intros d; apply iv_wf with (d := d); apply inv_with_rs; destruct d; auto).
  assert (Fin : forall d f, (forall h', f (env_of d s) (with_rs (get_half d s) rs) = Ok h' -> D h' = D (get_half d s)) ->
                on_half d rs s f = Ok s' -> D (s_up s') = 0 /\ D (s_dn s') = 0).
  { intros d f Hf O. destruct (on_half_D d rs s s' f O Hf). split; congruence. }
  destruct o; simpl in Hp; try discriminate; simpl.
  - (* ONew *) destruct (_ && _); intros H; inversion H; subst; auto.
  - destruct (alive _ _); [|intros H; inversion H; subst; auto]. apply Fin. intros h' F.
    apply eff_set_queued in F. rewrite (eff_D _ _ _ F); [rewrite D_updcs, D_with_rs; lia|].
    pose proof (eff_updcs c (set_rd d true) (with_rs (get_half d s) rs) (Wd d)) as X. apply X.
  - destruct (alive _ _); [|intros H; inversion H; subst; auto]. apply Fin. intros h' F.
    apply eff_set_not_queued in F. rewrite (eff_D _ _ _ F); [rewrite D_updcs, D_with_rs; lia|].
    pose proof (eff_updcs c (set_rd d false) (with_rs (get_half d s) rs) (Wd d)) as X. apply X.
  - destruct (alive _ _); [|intros H; inversion H; subst; auto]. apply Fin. intros h' F.
    apply eff_set_not_queued in F. rewrite (eff_D _ _ _ F (Wd d)), D_with_rs. lia.
  - destruct (alive _ _); [|intros H; inversion H; subst; auto]. apply Fin. intros h' F.
    apply eff_set_snubbed in F. rewrite (eff_D _ _ _ F (Wd d)), D_with_rs. lia.
  - destruct (alive _ _); [|intros H; inversion H; subst; auto]. apply Fin. intros h' F.
    apply eff_set_not_snubbed in F. rewrite (eff_D _ _ _ F (Wd d)), D_with_rs. lia.
  - (* OClose *) destruct (alive (s_up s) c && alive (s_dn s) c) eqn:A; [|intros H; inversion H; subst; auto].
    apply andb_prop in A. destruct A as [Au Ad]. unfold alive in Au, Ad.
    destruct (on_half Up rs s _) as [s1|] eqn:O1; [|discriminate].
    destruct (on_half_D Up rs s s1 _ O1) as [E1 E2].
    { intros h' F. rewrite (D_close Up c _ h' (inv_with_rs Up _ rs Iu) (alive_lt _ _ Au) Au F). apply D_with_rs. }
    assert (Ed : s_dn s1 = s_dn s).
    { unfold on_half in O1. destruct (close_half c _); [|discriminate]. inversion O1; reflexivity. }
    intros O2. destruct (on_half_D Dn rs s1 s' _ O2) as [E3 E4].
    { intros h' F. simpl in *. rewrite Ed in *. rewrite (D_close Dn c _ h' (inv_with_rs Dn _ rs Id) (alive_lt _ _ Ad) Ad F). apply D_with_rs. }
    split; congruence.
  - destruct (Nat.ltb _ _); [|intros H; inversion H; subst; auto]. apply Fin. intros h' F; inversion F. rewrite D_upde. apply D_with_rs.
  - destruct (Nat.ltb _ _); [|intros H; inversion H; subst; auto]. apply Fin. intros h' F; inversion F. rewrite D_upde. apply D_with_rs.
  - (* OBalEntry *) destruct (Nat.ltb _ _); [|intros H; inversion H; subst; auto]. apply Fin. intros h' F.
    assert (Ih : InvL d (with_rs (get_half d s) rs)) by (apply inv_with_rs; destruct d; auto).
    rewrite (D_balance_entry d (env_of d s) t _ h' (dir_env d s) Ih F). apply D_with_rs.
  - destruct (Nat.ltb _ _); [|intros H; inversion H; subst; auto]. apply Fin. intros h' F; inversion F. rewrite D_updq_lims by reflexivity. apply D_with_rs.
  - destruct (_ && _); [|intros H; inversion H; subst; auto]. apply Fin. intros h' F; inversion F. rewrite D_updq_lims by reflexivity. apply D_with_rs.
  - destruct (N.leb _ _); [|intros H; inversion H; subst; auto]. apply Fin. intros h' F; inversion F. reflexivity.
  - (* OTick *)
    destruct (balance_unchoked (env_of Up s) _) as [hu|]; [|discriminate].
    match goal with |- context [balance_unchoked ?e ?hh] => destruct (balance_unchoked e hh) as [hd|]; [|discriminate] end.
    match goal with |- context [tick_check ?x] => destruct (tick_check x) as [a1|] eqn:T1; [|discriminate] end.
    match goal with |- context [tick_check ?x] => destruct (tick_check x) as [a2|] eqn:T2; [|discriminate] end.
    intros H. inversion H; subst. apply tick_check_D in T1, T2. auto.
  - (* OSetGroup *) destruct (_ && _) eqn:C; [|intros H; inversion H; subst; auto].
    apply andb_prop in C. destruct C as [C1 C2].
    apply andb_prop in C1. destruct C1 as [C1 C13]. apply andb_prop in C1. destruct C1 as [C11 C12].
    apply andb_prop in C2. destruct C2 as [C2 C23]. apply andb_prop in C2. destruct C2 as [C21 C22].
    apply Nat.ltb_lt in C12, C22.
    destruct (on_half Up rs s _) as [s1|] eqn:O1; [|discriminate].
    destruct (on_half_D Up rs s s1 _ O1) as [E1 E2].
    { intros h' F. apply eff_move_half in F; [|exact C12]. rewrite (eff_D _ _ _ F (Wd Up)), D_with_rs. simpl. lia. }
    assert (Ed : s_dn s1 = s_dn s).
    { unfold on_half in O1. destruct (move_half t g _); [|discriminate]. inversion O1; reflexivity. }
    intros O2. destruct (on_half_D Dn rs s1 s' _ O2) as [E3 E4].
    { intros h' F. simpl in *. rewrite Ed in *. apply eff_move_half in F; [|exact C22]. rewrite (eff_D _ _ _ F (Wd Dn)), D_with_rs. simpl. lia. }
    split; congruence.
  - intros H; inversion H; subst; auto.
  - destruct (Nat.ltb _ _); intros H; inversion H; subst; auto.
Qed.

Lemma run_full : forall ops s s', forallb (fun p => prod_op (fst p)) ops = true -> FullSt s -> run s ops = Ok s' -> FullSt s'.
Proof. induction ops as [|[o rs] r IH]; simpl; intros s s' Hc G H; [inversion H; subst; auto|].
  apply andb_prop in Hc. destruct Hc as [Ho Hr]. destruct (step s o rs) as [s1|] eqn:S; [|discriminate].
  apply (IH s1 s' Hr); auto. destruct (step_D s o rs s1 Ho G S). split; [eapply step_inv; [apply G|exact S]|auto]. Qed.

Theorem global_counter : forall hold nt0 ng0 ops s, (0 < nt0)%nat -> (0 < ng0)%nat ->
  forallb (fun p => prod_op (fst p)) ops = true -> run (init_h hold nt0 ng0) ops = Ok s ->
  h_cur (s_up s) = SQu (s_up s) /\ h_cur (s_dn s) = SQu (s_dn s).
Proof. intros hold nt0 ng0 ops s Hn Hg Hp R.
  assert (F0 : FullSt (init_h hold nt0 ng0)).
  { split; [apply init_inv; auto|]. destruct (empty_half_good nt0 ng0 0 Hn Hg) as (_ & _ & _ & _ & A).
    destruct (empty_half_good nt0 ng0 3 Hn Hg) as (_ & _ & _ & _ & B). auto. }
  destruct (run_full ops _ _ Hp F0 R) as (_ & A & B). unfold D in *. lia. Qed.
