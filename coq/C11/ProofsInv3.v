(* C11 proofs, part 5: the loops of choke_queue (prepare_weights, retrieve_connections,
   adjust_choke_range, balance, balance_entry, cycle) and of ResourceManager preserve InvL. *)
From Coq Require Import List NArith ZArith Bool Arith Lia Permutation.
From LTV.C11 Require Import Model Proofs Proofs2 ProofsInv ProofsInv2.
Import ListNotations.
Local Open Scope Z_scope.

Lemma upd_overflow {A} (f : A -> A) : forall n (l : list A), (length l <= n)%nat -> upd n f l = l.
Proof. induction n; destruct l; simpl; intros; auto; try lia. f_equal. apply IHn. lia. Qed.

Lemma ids_ins x l : Permutation (ids (ins x l)) (fst x :: ids l).
Proof. induction l as [|y r IH]; simpl; auto. destruct (N.ltb (snd x) (snd y)); simpl; auto.
  eapply perm_trans; [apply perm_skip, IH|apply perm_swap]. Qed.
Lemma ids_isort_gen l : forall acc, Permutation (ids (fold_left (fun a x => ins x a) l acc)) (ids l ++ ids acc).
Proof. induction l as [|x r IH]; simpl; intros acc; auto.
  eapply perm_trans; [apply IH|]. eapply perm_trans; [apply Permutation_app_head, ids_ins|].
  apply Permutation_sym, Permutation_middle. Qed.
Lemma ids_isort l : Permutation (ids (isort l)) (ids l).
Proof. unfold isort. eapply perm_trans; [apply ids_isort_gen|]. simpl. rewrite app_nil_r. auto. Qed.
Lemma ids_reweigh v h heur : forall l rs, ids (fst (reweigh_q v h heur l rs)) = ids l.
Proof. induction l as [|[c w] r IH]; simpl; intros rs; auto.
  destruct (wunchoke v h heur c (hd 0%N rs)) as [w' used].
  specialize (IH (if used then tl rs else rs)). destruct (reweigh_q v h heur r _) as [t' rs']. simpl in *. f_equal; auto. Qed.
Lemma ids_map_w (f : nat -> N) l : ids (map (fun p => (fst p, f (fst p))) l) = ids l.
Proof. unfold ids. rewrite map_map. simpl. reflexivity. Qed.

Lemma prepare_entry_inv d v heur t h : InvL d h -> InvL d (prepare_entry v heur t h).
Proof.
  intros I. unfold prepare_entry.
  pose proof (ids_reweigh v h heur (e_q (getent h t)) (h_rs h)) as RW.
  destruct (reweigh_q v h heur (e_q (getent h t)) (h_rs h)) as [q' rs']. simpl in RW.
  apply inv_with_rs.
  apply (inv_ext d h); auto; try (unfold upde, with_ents; cbn [h_ents h_qs]; rewrite ?length_upd; reflexivity).
  intros t'. unfold getent, upde, with_ents; cbn [h_ents]. destruct (Nat.eq_dec t' t) as [->|N].
    + destruct (Nat.lt_ge_cases t (length (h_ents h))) as [L|L].
      * rewrite nth_upd_eq by auto. simpl. split.
        -- eapply perm_trans; [apply ids_isort|]. rewrite RW. apply Permutation_refl.
        -- eapply perm_trans; [apply ids_isort|]. rewrite ids_map_w. apply Permutation_refl.
      * rewrite upd_overflow by auto. split; apply Permutation_refl.
    + rewrite nth_upd_neq by auto. split; apply Permutation_refl.
Qed.

Lemma prepare_weights_inv d v g h : InvL d h -> InvL d (prepare_weights v g h).
Proof. unfold prepare_weights. generalize (q_ents (getq h g)). intros l. revert h.
  induction l; simpl; intros h I; auto. apply IHl. apply prepare_entry_inv. auto. Qed.

Lemma slot_list_inv d v choke l : forall h h', v_dir v = d -> InvL d h -> slot_list v choke l h = Ok h' -> InvL d h'.
Proof. induction l; simpl; intros h h' Hd I H; [injection H as <-; auto|].
  destruct (slot v a choke h) as [[h1 r]|] eqn:S; [|discriminate]. simpl in H.
  eapply IHl; [exact Hd| |exact H]. eapply slot_inv; eauto. Qed.

Lemma fill_min_inv d v t m : forall fuel h cnt h' cnt', v_dir v = d -> InvL d h ->
  fill_min fuel v t m h cnt = Ok (h', cnt') -> InvL d h'.
Proof. induction fuel; simpl; intros h cnt h' cnt' Hd I H; [discriminate|].
  destruct (e_q (getent h t)); [injection H as <- _; auto|].
  destruct (_ <? _)%N; [|injection H as <- _; auto].
  destruct (slot v _ false h) as [[h1 r]|] eqn:S; [|discriminate]. simpl in H.
  eapply IHfuel; [exact Hd| |exact H]. eapply slot_inv; eauto. Qed.

Lemma choke_back_inv d v t : forall fuel h cnt h' cnt', v_dir v = d -> InvL d h ->
  choke_back fuel v t h cnt = Ok (h', cnt') -> InvL d h'.
Proof. induction fuel; simpl; intros h cnt h' cnt' Hd I H; [discriminate|].
  destruct (e_u (getent h t)); [injection H as <- _; auto|].
  destruct (_ <? _)%N; [|injection H as <- _; auto].
  destruct (slot v _ true h) as [[h1 r]|] eqn:S; [|discriminate]. simpl in H.
  eapply IHfuel; [exact Hd| |exact H]. eapply slot_inv; eauto. Qed.

Lemma retrieve_entry_inv d v t h gs q u h' gs' q' u' : v_dir v = d -> InvL d h ->
  retrieve_entry v t (h, gs, q, u) = Ok (h', gs', q', u') -> InvL d h'.
Proof. intros Hd I. unfold retrieve_entry.
  destruct (_ <? _)%N.
  - destruct (fill_min _ v t _ h 0%N) as [[h1 c1]|] eqn:F; [|discriminate]. simpl.
    intros H; assert (h1 = h') as <- by congruence. eapply fill_min_inv; eauto.
  - simpl. intros H; assert (h = h') as <- by congruence. auto. Qed.

Lemma retrieve_connections_inv d v : forall ts h gs q u h' gs' q' u', v_dir v = d -> InvL d h ->
  retrieve_connections v ts (h, gs, q, u) = Ok (h', gs', q', u') -> InvL d h'.
Proof. induction ts as [|a ts IH]; intros h gs q u h' gs' q' u' Hd I H.
  - simpl in H. assert (h = h') as <- by congruence. auto.
  - change (retrieve_connections v (a :: ts) (h, gs, q, u)) with
      (do acc' <- retrieve_entry v a (h, gs, q, u); retrieve_connections v ts acc') in H.
    destruct (retrieve_entry v a (h, gs, q, u)) as [[[[h1 gs1] q1] u1]|] eqn:R; [|discriminate].
    eapply IH; [exact Hd| |exact H]. eapply retrieve_entry_inv; eauto. Qed.

Lemma allocate_slots_inv d ws ss mx h tg h' : InvL d h -> allocate_slots ws ss mx h = Ok (tg, h') -> InvL d h'.
Proof. intros I. unfold allocate_slots. destruct (share_loop _ _ _ _) as [[[tg0 un] wt]|]; [|discriminate].
  destruct (_ || _); [intros H; injection H as _ <-; auto|]. unfold pop_rand.
  destruct (find_start _ _ _ _ _ _) as [is|]; [|discriminate].
  destruct (rem_loop _ _ _ _ _ _); [|discriminate]. intros H; injection H as _ <-. apply inv_with_rs; auto. Qed.

Lemma adjust_choke_range_inv d v heur range mx choke h h' cnt : v_dir v = d -> InvL d h ->
  adjust_choke_range v heur range mx choke h = Ok (h', cnt) -> InvL d h'.
Proof. intros Hd I. unfold adjust_choke_range.
  destruct (allocate_slots _ _ _ _) as [[tg h0]|] eqn:A; [|discriminate].
  apply allocate_slots_inv with (d := d) in A; auto.
  repeat match goal with
  | |- context [if (?a <? ?b)%N then Err EInternal else slot_list ?v ?c ?l ?hh] =>
      destruct (a <? b)%N; [discriminate|];
      let hn := fresh "hs" in let S := fresh "S" in
      destruct (slot_list v c l hh) as [hn|] eqn:S; [|discriminate];
      apply slot_list_inv with (d := d) in S; auto
  end.
  destruct (_ <? _)%N; [discriminate|]. intros H; injection H as <- _. auto. Qed.

Lemma balance_inv d v g h h' : v_dir v = d -> InvL d h -> balance v g h = Ok h' -> InvL d h'.
Proof. intros Hd I. unfold balance. destruct (_ =? _); [intros H; injection H as <-; auto|].
  destruct (retrieve_connections _ _ _) as [[[[h2 gs] q] u]|] eqn:R; [|discriminate].
  apply retrieve_connections_inv with (d := d) in R; auto; [|apply prepare_weights_inv; auto].
  destruct (if (gs_changed gs =? 0)%N then Ok h2 else recv_unchoke (Z.of_N (gs_changed gs)) h2) as [h3|] eqn:E3; [|discriminate].
  assert (I3 : InvL d h3).
  { destruct (_ =? _)%N; [injection E3 as <-; auto|eapply inv_recv; eauto]. }
  match goal with |- context [if (0 <? ?a) then _ else _] => destruct (0 <? a) end.
  - destruct (adjust_choke_range _ _ _ _ _ _) as [[h4 c4]|] eqn:A; [|discriminate]. simpl.
    apply adjust_choke_range_inv with (d := d) in A; auto.
    destruct (_ =? 0); [intros H; injection H as <-; auto|intros H; eapply inv_recv; eauto].
  - match goal with |- context [if (?a <? 0) then _ else _] => destruct (a <? 0) end.
    + destruct (adjust_choke_range _ _ _ _ _ _) as [[h4 c4]|] eqn:A; [|discriminate]. simpl.
      apply adjust_choke_range_inv with (d := d) in A; auto.
      destruct (_ =? 0); [intros H; injection H as <-; auto|intros H; eapply inv_recv; eauto].
    + simpl. intros H; injection H as <-; auto. Qed.

Lemma balance_entry_inv d v t h h' : v_dir v = d -> InvL d h -> balance_entry v t h = Ok h' -> InvL d h'.
Proof. intros Hd I. unfold balance_entry.
  destruct (choke_back _ _ _ _ _) as [[h2 c1]|] eqn:A; [|discriminate].
  apply choke_back_inv with (d := d) in A; auto; [|apply prepare_entry_inv; auto].
  destruct (fill_min _ _ _ _ _ _) as [[h3 c2]|] eqn:B; [|discriminate].
  apply fill_min_inv with (d := d) in B; auto. intros H. eapply inv_recv; eauto. Qed.

Lemma cycle_inv d v g quota h h' z : v_dir v = d -> InvL d h -> cycle v g quota h = Ok (h', z) -> InvL d h'.
Proof. intros Hd I. unfold cycle.
  destruct (retrieve_connections _ _ _) as [[[[h2 gs] q] u]|] eqn:R; [|discriminate].
  apply retrieve_connections_inv with (d := d) in R; auto; [|apply prepare_weights_inv; auto].
  destruct (adjust_choke_range _ _ q _ false h2) as [[h3 c3]|] eqn:A; [|discriminate].
  apply adjust_choke_range_inv with (d := d) in A; auto.
  match goal with |- context [if (?a <? ?b)%N then (do x <- adjust_choke_range ?v' ?he ?r ?m true ?hh; _) else _] =>
    destruct (a <? b)%N end.
  - destruct (adjust_choke_range _ _ u _ true h3) as [[h4 c4]|] eqn:B; [|discriminate]. simpl.
    apply adjust_choke_range_inv with (d := d) in B; auto.
    destruct (_ <? _)%N; [discriminate|]. intros H; injection H as <- _. auto.
  - destruct (_ <? _)%N; [discriminate|]. intros H; injection H as <- _. auto. Qed.

Lemma bal_groups_inv d v : forall gs quota weight h ch h' ch' w', v_dir v = d -> InvL d h ->
  bal_groups v gs quota weight h ch = Ok (h', ch', w') -> InvL d h'.
Proof. induction gs as [|g r IH]; simpl; intros quota weight h ch h' ch' w' Hd I H; [assert (h = h') as <- by congruence; auto|].
  destruct (cycle v g _ h) as [[h1 z]|] eqn:C; [|discriminate].
  eapply IH; [exact Hd| |exact H]. eapply cycle_inv; eauto. Qed.
Lemma bal_groups_unl_inv d v : forall gs h ch h' ch', v_dir v = d -> InvL d h ->
  bal_groups_unl v gs h ch = Ok (h', ch') -> InvL d h'.
Proof. induction gs as [|g r IH]; simpl; intros h ch h' ch' Hd I H; [assert (h = h') as <- by congruence; auto|].
  destruct (cycle v g unlimited h) as [[h1 z]|] eqn:C; [|discriminate]. simpl in H.
  eapply IH; [exact Hd| |exact H]. eapply cycle_inv; eauto. Qed.

Lemma balance_unchoked_inv d v h h' : v_dir v = d -> InvL d h -> balance_unchoked v h = Ok h' -> InvL d h'.
Proof. intros Hd I. unfold balance_unchoked. destruct (_ =? _)%N.
  - destruct (bal_groups_unl _ _ _ _) as [[h1 c]|] eqn:B; [|discriminate]. simpl. intros H; injection H as <-.
    apply inv_with_cur. eapply bal_groups_unl_inv; eauto.
  - destruct (bal_groups _ _ _ _ _ _) as [[[h1 c] w]|] eqn:B; [|discriminate].
    destruct (negb _); [discriminate|]. intros H; injection H as <-.
    apply inv_with_cur. eapply bal_groups_inv; eauto. Qed.

(* ---------------------------------------------------------------- group move *)
Lemma move_half_inv d t g' h h' : InvL d h -> (t < nt h)%nat -> (g' < ng h)%nat -> grp_of h t <> g' ->
  move_half t g' h = Ok h' -> InvL d h'.
Proof.
  intros I Ht Hg' Ng. pose proof (iv_wf _ _ I) as W. pose proof (grp_lt h t W) as Hg.
  unfold move_half. set (g := grp_of h t) in *.
  destruct (rswap (fun x => x) t (q_ents (getq h g))) as [ents'|] eqn:R; [|discriminate].
  destruct (iv_qe _ _ I g Hg) as [NDg Mg].
  assert (ND0 : NoDup (map (fun x : nat => x) (q_ents (getq h g)))) by (rewrite map_id; auto).
  destruct (rswap_spec _ _ _ _ R ND0) as (ND' & In' & _). rewrite map_id in ND'.
  assert (In'' : forall x, In x ents' <-> (In x (q_ents (getq h g)) /\ x <> t)).
  { intros x. specialize (In' x). rewrite !map_id in In'. auto. }
  intros H; injection H as <-.
  match goal with |- InvL d ?X => set (h2 := X) end.
  assert (Ecs : h_cs h2 = h_cs h) by reflexivity. assert (Ect : h_ctor h2 = h_ctor h) by reflexivity.
  assert (Een : h_ents h2 = h_ents h) by reflexivity. assert (Etn : h_tn h2 = h_tn h) by reflexivity.
  assert (Ltg : (t < length (h_tgrp h))%nat) by (rewrite (wf_tg _ W); auto).
  assert (Grp : forall x, grp_of h2 x = if Nat.eq_dec x t then g' else grp_of h x).
  { intros x. subst h2. unfold grp_of. simpl. destruct (Nat.eq_dec x t) as [->|N].
    - rewrite nth_upd_eq by auto. reflexivity. - rewrite nth_upd_neq by auto. reflexivity. }
  assert (Gq : forall x, getq h2 x =
     if Nat.eq_dec x g then mkQ (q_max (getq h g)) (q_cq (getq h g) - lenZ (e_q (getent h t))) (q_cu (getq h g) - lenZ (e_u (getent h t))) (q_heur (getq h g)) ents'
     else if Nat.eq_dec x g' then mkQ (q_max (getq h g')) (q_cq (getq h g') + lenZ (e_q (getent h t))) (q_cu (getq h g') + lenZ (e_u (getent h t))) (q_heur (getq h g')) (q_ents (getq h g') ++ [t])
     else getq h x).
  { intros x. subst h2. unfold getq, updq, with_qs, with_tgrp. simpl. fold g.
    destruct (Nat.eq_dec x g) as [->|N1].
    - rewrite (nth_upd_neq _ _ g g') by auto. rewrite nth_upd_eq by (rewrite ?length_upd; auto).
      rewrite (nth_upd_neq _ _ g g') by auto. rewrite nth_upd_eq by auto. unfold q_add. simpl. f_equal; lia.
    - destruct (Nat.eq_dec x g') as [->|N2].
      + rewrite nth_upd_eq by (rewrite ?length_upd; auto). rewrite (nth_upd_neq _ _ g' g) by auto.
        rewrite nth_upd_eq by (rewrite ?length_upd; auto). rewrite (nth_upd_neq _ _ g' g) by auto. unfold q_add. simpl. reflexivity.
      + rewrite !nth_upd_neq by auto. reflexivity. }
  assert (NT : nt h2 = nt h) by reflexivity. assert (NC : nc h2 = nc h) by reflexivity.
  assert (NG : ng h2 = ng h) by (subst h2; unfold ng; simpl; rewrite !length_upd; reflexivity).
  assert (Gent : forall x, getent h2 x = getent h x) by reflexivity.
  assert (Gcs : forall x, getcs h2 x = getcs h x) by reflexivity.
  assert (Tor : forall x, tor_of h2 x = tor_of h x) by reflexivity.
  constructor.
  - destruct W; constructor; rewrite ?Een, ?Etn, ?Ect; auto.
    + fold (ng h2). rewrite NG. auto.
    + subst h2; simpl. rewrite length_upd. auto.
    + fold (ng h2). rewrite NG. subst h2; simpl. apply Forall_upd; auto.
  - rewrite Ect, NC. apply I.
  - intros x Hx. rewrite Gent. apply I; auto.
  - intros x Hx. rewrite Gent. apply I; auto.
  - intros x c Hx. rewrite Gent, NC, Tor, Gcs. apply I; auto.
  - intros x c Hx. rewrite Gent, NC, Tor, Gcs. apply I; auto.
  - intros c Hc. rewrite Gcs. apply I; auto.
  - intros Ed c Hc. rewrite Gcs. apply I; auto.
  - intros x Hx. change (gettn h2 x) with (gettn h x). rewrite Gent. apply I; auto.
  - intros x Hx. rewrite NG in Hx.
    assert (GS : forall f, gsum h2 x f = gsum h x f - (if Nat.eqb g x then lenZ (f (getent h t)) else 0)
                                          + (if Nat.eqb g' x then lenZ (f (getent h t)) else 0)).
    { intros f. unfold gsum. rewrite NT.
      rewrite (sum_seq_change (nt h) 0 (fun t0 => if Nat.eqb (grp_of h t0) x then lenZ (f (getent h t0)) else 0)
                 (fun t0 => if Nat.eqb (grp_of h2 t0) x then lenZ (f (getent h2 t0)) else 0) t); try lia.
      - rewrite Grp, Gent. destruct (Nat.eq_dec t t); [|congruence]. fold g. lia.
      - intros i _ Ni. rewrite Grp, Gent. destruct (Nat.eq_dec i t); [congruence|reflexivity]. }
    rewrite !GS, Gq. destruct (iv_qc _ _ I x Hx) as [Qu Qq].
    destruct (Nat.eq_dec x g) as [->|N1].
    + simpl. rewrite Nat.eqb_refl. assert (E : Nat.eqb g' g = false) by (apply Nat.eqb_neq; auto). rewrite E. lia.
    + assert (E1 : Nat.eqb g x = false) by (apply Nat.eqb_neq; auto). rewrite E1.
      destruct (Nat.eq_dec x g') as [->|N2].
      * simpl. rewrite Nat.eqb_refl. lia.
      * assert (E2 : Nat.eqb g' x = false) by (apply Nat.eqb_neq; auto). rewrite E2. lia.
  - intros x Hx. rewrite NG in Hx. rewrite Gq, NT. destruct (iv_qe _ _ I x Hx) as [NDx Mx].
    destruct (Nat.eq_dec x g) as [->|N1].
    + simpl. split; auto. intros y. rewrite In'', Mg, Grp. destruct (Nat.eq_dec y t) as [->|Ny]; intuition congruence.
    + destruct (Nat.eq_dec x g') as [->|N2].
      * simpl. split.
        -- eapply Permutation_NoDup; [apply Permutation_cons_append|]. constructor; auto.
           rewrite Mx. intros [_ X]. fold g in X. congruence.
        -- intros y. rewrite in_app_iff, Mx, Grp. simpl. destruct (Nat.eq_dec y t) as [->|Ny]; intuition congruence.
      * split; auto. intros y. rewrite Mx, Grp. destruct (Nat.eq_dec y t) as [->|Ny]; [|reflexivity].
        fold g. intuition congruence.
Qed.

(* ---------------------------------------------------------------- a new connection *)
Definition add_conn (t : nat) (h : half) : half :=
  mkH (h_cs h ++ [mkCS true false false false false 0]) (h_ctor h ++ [t]) (h_ents h) (h_tn h) (h_tgrp h) (h_qs h) (h_cur h) (h_max h) (h_rs h).

Lemma add_conn_inv d t h : InvL d h -> (t < nt h)%nat -> InvL d (add_conn t h).
Proof.
  intros I Ht. pose proof (iv_wf _ _ I) as W. pose proof (iv_cs _ _ I) as Lc.
  set (h2 := add_conn t h).
  assert (NC : nc h2 = S (nc h)) by (unfold nc, h2, add_conn; simpl; rewrite app_length; simpl; lia).
  assert (Gcs : forall c, (c < nc h)%nat -> getcs h2 c = getcs h c).
  { intros c Hc. unfold getcs, h2, add_conn. simpl. apply app_nth1. exact Hc. }
  assert (Gnew : getcs h2 (nc h) = mkCS true false false false false 0).
  { unfold getcs, h2, add_conn, nc. simpl. rewrite app_nth2 by lia. rewrite Nat.sub_diag. reflexivity. }
  assert (Tor : forall c, (c < nc h)%nat -> tor_of h2 c = tor_of h c).
  { intros c Hc. unfold tor_of, h2, add_conn. simpl. apply app_nth1. rewrite Lc. exact Hc. }
  assert (Cases : forall c, (c < nc h2)%nat -> (c < nc h)%nat \/ c = nc h) by (intros; lia).
  constructor.
  - apply WF_add_conn; auto.
  - unfold h2, add_conn, nc. simpl. rewrite !app_length. simpl. unfold nc in Lc. lia.
  - intros x Hx. apply (iv_ndq _ _ I x Hx).
  - intros x Hx. apply (iv_ndu _ _ I x Hx).
  - intros x c Hx. change (getent h2 x) with (getent h x). rewrite (iv_mq _ _ I x c Hx). split.
    + intros (Hc & T & Q). rewrite NC, Tor, Gcs by auto. repeat split; auto.
    + intros (Hc & T & Q). destruct (Cases c Hc) as [L|E]; [|subst c].
      rewrite Tor, Gcs in * by auto. auto.
      rewrite Gnew in Q. discriminate.
  - intros x c Hx. change (getent h2 x) with (getent h x). rewrite (iv_mu _ _ I x c Hx). split.
    + intros (Hc & T & Q). rewrite NC, Tor, Gcs by auto. repeat split; auto.
    + intros (Hc & T & Q). destruct (Cases c Hc) as [L|E]; [|subst c].
      rewrite Tor, Gcs in * by auto. auto.
      rewrite Gnew in Q. discriminate.
  - intros c Hc. destruct (Cases c Hc) as [L|E]; [|subst c].
    rewrite Gcs by auto. apply I; auto. rewrite Gnew. discriminate.
  - intros Ed c Hc. destruct (Cases c Hc) as [L|E]; [|subst c].
    rewrite Gcs by auto. apply I; auto. rewrite Gnew. discriminate.
  - intros x Hx. apply (iv_tn _ _ I x Hx).
  - intros x Hx. apply (iv_qc _ _ I x Hx).
  - intros x Hx. apply (iv_qe _ _ I x Hx).
Qed.
