(* C11 proofs: cycle_no_throw and cycle_rotates. Part 2: weights stay below 2^32, the local containers
   built by retrieve_connections are duplicate-free lists of connections in the expected state. *)
From Coq Require Import List NArith ZArith Bool Arith Lia Permutation.
From LTV.C11 Require Import Model Proofs Proofs2 ProofsInv ProofsInv2 ProofsInv3 ProofsAlloc ProofsLim ProofsLim2 ProofsLim3 ProofsNT.
Import ListNotations.
Local Open Scope Z_scope.

(* ---------------------------------------------------------------- weights *)
Lemma w32_lt x : (w32 x < two32)%N.
Proof. unfold w32. apply N.mod_lt. unfold two32. lia. Qed.
Lemma wsub32_lt a b : (a < two32)%N -> (b < two32)%N -> (wsub32 a b < two32)%N.
Proof. unfold wsub32. intros. destruct (b <=? a)%N eqn:E; [apply N.leb_le in E|apply N.leb_gt in E]; lia. Qed.

Lemma wchoke_lt v h heur c : (wchoke v h heur c < two32)%N.
Proof.
  unfold wchoke. assert (O : (ob - 1 < two32)%N) by (unfold ob, two32; lia).
  destruct heur as [|[|[|k]]]; try (apply wsub32_lt; [exact O|apply w32_lt]).
  destruct (_ >? _); [unfold ob, two32; lia|]. apply wsub32_lt; [exact O|apply w32_lt].
Qed.
Lemma wunchoke_lt v h heur c r : (fst (wunchoke v h heur c r) < two32)%N.
Proof.
  unfold wunchoke.
  assert (M1 : (r mod 1024 < 1024)%N) by (apply N.mod_lt; lia).
  assert (M2 : (r mod 4096 < 4096)%N) by (apply N.mod_lt; lia).
  destruct heur as [|[|[|k]]]; cbn [fst].
  - destruct (cs_u _); cbn [fst].
    + destruct (_ <? 128)%N eqn:E; [apply N.ltb_lt in E; unfold two32; lia|apply w32_lt].
    + destruct (ci_pref _); unfold ob, two32; lia.
  - destruct (ci_pref _); unfold ob, two32; lia.
  - destruct (cs_u _); cbn [fst]; [apply w32_lt|]. destruct (ci_pref _); unfold two32; lia.
  - apply w32_lt.
Qed.

Definition WBl (l : wl) : Prop := forall p, In p l -> (snd p < two32)%N.
Definition WBt (h : half) (t : nat) : Prop := WBl (e_q (getent h t)) /\ WBl (e_u (getent h t)).

Lemma ins_perm x l : Permutation (ins x l) (x :: l).
Proof. induction l as [|y r IH]; simpl; auto. destruct (N.ltb (snd x) (snd y)); auto. eapply perm_trans; [apply perm_skip, IH|apply perm_swap]. Qed.
Lemma isort_perm_gen l : forall acc, Permutation (fold_left (fun a x => ins x a) l acc) (l ++ acc).
Proof. induction l as [|x r IH]; simpl; intros acc; auto. eapply perm_trans; [apply IH|].
  eapply perm_trans; [apply Permutation_app_head, ins_perm|]. apply Permutation_sym, Permutation_middle. Qed.
Lemma isort_perm l : Permutation (isort l) l.
Proof. unfold isort. eapply perm_trans; [apply isort_perm_gen|]. rewrite app_nil_r. auto. Qed.
Lemma WBl_isort l : WBl l -> WBl (isort l).
Proof. intros W p Hp. apply W. eapply Permutation_in; [apply isort_perm|exact Hp]. Qed.

Lemma reweigh_WB v h heur : forall l rs, WBl (fst (reweigh_q v h heur l rs)).
Proof. induction l as [|[c w] r IH]; simpl; intros rs; [intros p []|].
  pose proof (wunchoke_lt v h heur c (hd 0%N rs)) as B.
  destruct (wunchoke v h heur c (hd 0%N rs)) as [w' used]. specialize (IH (if used then tl rs else rs)).
  destruct (reweigh_q v h heur r _) as [t' rs']. simpl in *. intros p [<-|Hp]; [exact B|apply IH; auto]. Qed.

Lemma prepare_entry_WB v heur t h : (t < nt h)%nat -> WBt (prepare_entry v heur t h) t.
Proof.
  intros Ht. unfold prepare_entry, WBt.
  pose proof (reweigh_WB v h heur (e_q (getent h t)) (h_rs h)) as RW.
  destruct (reweigh_q v h heur (e_q (getent h t)) (h_rs h)) as [q' rs']. simpl in RW.
  unfold getent, with_rs, upde, with_ents. cbn [h_ents]. rewrite nth_upd_eq by exact Ht. cbn [e_q e_u]. split.
  - apply WBl_isort. exact RW.
  - apply WBl_isort. intros p Hp. apply in_map_iff in Hp. destruct Hp as (x & <- & _). cbn [snd]. apply wchoke_lt.
Qed.

Lemma prepare_weights_WB v g : forall h, (forall t, In t (q_ents (getq h g)) -> (t < nt h)%nat) -> NoDup (q_ents (getq h g)) ->
  forall t, In t (q_ents (getq h g)) -> WBt (prepare_weights v g h) t.
Proof.
  intros h. unfold prepare_weights. generalize (q_ents (getq h g)). intros l. revert h.
  induction l as [|a r IH]; intros h Hl ND t Ht; [destruct Ht|].
  simpl. apply NoDup_cons_iff in ND. destruct ND as [Na NDr].
  set (h1 := prepare_entry v (q_heur (getq h g)) a h).
  assert (N1 : nt h1 = nt h) by (apply (pw_nt _ _ (prepare_entry_PW v _ a h))).
  destruct Ht as [->|Ht].
  - (* t = a: prepared now, untouched by the rest *)
    assert (X : forall l' hh, ~ In t l' -> getent (fold_left (fun hh0 t0 => prepare_entry v (q_heur (getq hh0 g)) t0 hh0) l' hh) t = getent hh t).
    { induction l' as [|b l' IH']; simpl; intros hh N; auto. rewrite IH' by tauto. apply prepare_entry_other. intros E. apply N. auto. }
    unfold WBt. rewrite (X r h1 Na). apply prepare_entry_WB. apply Hl. left; auto.
  - apply (IH h1); auto. intros t' X. rewrite N1. apply Hl. right; auto.
Qed.

Lemma rswap_incl {A} (k : A -> nat) c : forall l l', rswap k c l = Some l' -> forall p, In p l' -> In p l.
Proof.
  induction l as [|a l IH]; simpl; intros l' H p Hp; [discriminate|].
  destruct (Nat.eqb (k a) c).
  - inversion H; subst; clear H. destruct l as [|b l0]; [destruct Hp|].
    right. destruct Hp as [<-|Hp].
    + apply last_In. discriminate.
    + assert (R : b :: l0 = removelast (b :: l0) ++ [last (b :: l0) a]) by (apply app_removelast_last; discriminate).
      rewrite R. apply in_or_app. auto.
  - destruct (rswap k c l) as [l''|] eqn:R; simpl in H; inversion H; subst; clear H.
    destruct Hp as [<-|Hp]; [left; auto|right; eapply IH; eauto].
Qed.
Lemma WBl_push c l : WBl l -> WBl (push c l).
Proof. intros W p Hp. unfold push in Hp. apply in_app_or in Hp. destruct Hp as [Hp|[<-|[]]]; auto. cbn. unfold two32. lia. Qed.
Lemma WBl_remove c l l' : remove_swap c l = Some l' -> WBl l -> WBl l'.
Proof. intros R W p Hp. apply W. eapply rswap_incl; eauto. Qed.

Lemma inner_WB c h h' t : set_not_queued_inner c h = Ok h' -> WBt h t -> WBt h' t.
Proof.
  unfold set_not_queued_inner. destruct (negb _); [intros X; inversion X; auto|].
  destruct (cs_s _); [intros X; inversion X; auto|].
  destruct (remove_swap c _) as [q'|] eqn:R; [|discriminate]. intros X; inversion X; subst. clear X. intros [Wq Wu].
  change (tor_of (updcs c (set_q false) h) c) with (tor_of h c) in *.
  change (getent (updcs c (set_q false) h) (tor_of h c)) with (getent h (tor_of h c)) in R.
  unfold WBt. rewrite getent_updq.
  destruct (Nat.eq_dec t (tor_of h c)) as [->|N].
  - destruct (Nat.lt_ge_cases (tor_of h c) (nt h)) as [L|L].
    + rewrite getent_upde_eq by exact L. rewrite getent_updcs. cbn [e_setq e_q e_u]. split; auto. eapply WBl_remove; eauto.
    + unfold getent, upde, with_ents. cbn [h_ents]. rewrite upd_overflow by exact L. split; auto.
  - rewrite getent_upde_neq by auto. split; auto.
Qed.

Lemma slot_WB v c choke h h' r t : slot v c choke h = Ok (h', r) -> WBt h t -> WBt h' t.
Proof.
  unfold slot. destruct (Bool.eqb _ _); [discriminate|].
  set (tc := tor_of h c). set (g := grp_of h tc). intros S [Wq Wu]. revert S. destruct choke.
  - destruct (remove_swap c (e_u (getent h tc))) as [u'|] eqn:R; [|discriminate]. destruct (has c _); [discriminate|].
    set (h2 := updq g _ _).
    assert (W2 : WBt h2 t).
    { unfold WBt, h2. rewrite getent_updq. destruct (Nat.eq_dec t tc) as [->|N].
      - destruct (Nat.lt_ge_cases tc (nt h)) as [L|L].
        + rewrite getent_upde_eq by (rewrite nt_updtn, nt_updcs; exact L). cbn [e_q e_u]. split; [apply WBl_push; auto|eapply WBl_remove; eauto].
        + unfold getent, upde, with_ents. cbn [h_ents]. rewrite upd_overflow by exact L. split; auto.
      - rewrite getent_upde_neq by auto. split; auto. }
    destruct (v_dir v); cbv iota; [intros X; inversion X; subst; auto|].
    destruct (cs_r _); cbv iota; [intros X; inversion X; subst; auto|].
    destruct (set_not_queued_inner c h2) as [h3|] eqn:SI; cbv iota beta; [|discriminate].
    intros X; inversion X; subst. eapply inner_WB; eauto.
  - destruct (remove_swap c (e_q (getent h tc))) as [q'|] eqn:R; [|discriminate]. destruct (has c _); [discriminate|].
    intros X; inversion X; subst. unfold WBt. rewrite getent_updq. destruct (Nat.eq_dec t tc) as [->|N].
    + destruct (Nat.lt_ge_cases tc (nt h)) as [L|L].
      * rewrite getent_upde_eq by (rewrite nt_updtn, nt_updcs; exact L). cbn [e_q e_u]. split; [eapply WBl_remove; eauto|apply WBl_push; auto].
      * unfold getent, upde, with_ents. cbn [h_ents]. rewrite upd_overflow by exact L. split; auto.
    + rewrite getent_upde_neq by auto. split; auto.
Qed.

Lemma slot_list_WB v choke t : forall l h h', slot_list v choke l h = Ok h' -> WBt h t -> WBt h' t.
Proof. induction l; simpl; intros h h' H W; [inversion H; subst; auto|].
  destruct (slot v a choke h) as [[h1 r]|] eqn:S; [|discriminate]. simpl in H. eapply IHl; eauto. eapply slot_WB; eauto. Qed.
Lemma fill_min_WB v t0 m t : forall fuel h cnt h' cnt', fill_min fuel v t0 m h cnt = Ok (h', cnt') -> WBt h t -> WBt h' t.
Proof. induction fuel; simpl; intros h cnt h' cnt' H W; [discriminate|].
  destruct (e_q (getent h t0)); [inversion H; subst; auto|]. destruct (_ <? _)%N; [|inversion H; subst; auto].
  destruct (slot v _ false h) as [[h1 r]|] eqn:S; [|discriminate]. simpl in H. eapply IHfuel; eauto. eapply slot_WB; eauto. Qed.

(* ---------------------------------------------------------------- retrieve_connections: shapes, no throw *)
Lemma skipn_all' {A} (l : list A) : skipn (length l) l = [].
Proof. induction l; simpl; auto. Qed.

Lemma retrieve_entry_shape v t h gs q u h' gs' q' u' : retrieve_entry v t (h, gs, q, u) = Ok (h', gs', q', u') ->
  exists kq ku, q' = q ++ skipn kq (e_q (getent h' t)) /\ u' = u ++ skipn ku (e_u (getent h' t)).
Proof.
  unfold retrieve_entry. destruct (_ <? _)%N.
  - destruct (fill_min _ v t _ h 0%N) as [[h1 c1]|]; cbv beta iota; [|intros X; discriminate X].
    intros X. inversion X; subst h' gs' u'. clear X.
    destruct (_ <? _)%N.
    + eexists. exists (length (e_u (getent h1 t))). split; [reflexivity|]. rewrite skipn_all', app_nil_r. reflexivity.
    + exists (length (e_q (getent h1 t))), (length (e_u (getent h1 t))). rewrite !skipn_all', !app_nil_r. auto.
  - cbv beta iota. intros X. inversion X; subst h' gs' u'. clear X.
    destruct (_ <? _)%N.
    + eexists. eexists. split; reflexivity.
    + exists (length (e_q (getent h t))). eexists. rewrite skipn_all', app_nil_r. split; reflexivity.
Qed.

Definition NT {A} (r : res A) : Prop := r <> Err EInternal /\ r <> Err EFault.

Lemma fill_min_nt d v t m : forall fuel h cnt, v_dir v = d -> InvL d h -> (t < nt h)%nat -> NT (fill_min fuel v t m h cnt).
Proof.
  induction fuel; intros h cnt Hd I Ht; cbn [fill_min]; [split; discriminate|].
  destruct (e_q (getent h t)) as [|p0 r0] eqn:Eq; [split; discriminate|].
  destruct (_ <? _)%N; [|split; discriminate].
  set (c := fst (last (p0 :: r0) (O, 0%N))).
  assert (Cin : In c (ids (e_q (getent h t)))).
  { rewrite Eq. unfold c, ids. apply in_map. apply last_In. discriminate. }
  apply (iv_mq _ _ I t c Ht) in Cin. destruct Cin as (Hc & Tc & Fl).
  destruct (slot_ok d v c false h Hd I Hc Fl) as [h1 S]. rewrite S. cbn [fst snd].
  destruct (slot_inv d v c false h h1 true Hd I S) as [I1 _].
  apply IHfuel; auto. rewrite (fr_nt _ _ _ (slot_Fr _ _ _ _ _ _ S)). auto.
Qed.

Lemma retrieve_entry_nt d v t h gs q u : v_dir v = d -> InvL d h -> (t < nt h)%nat -> NT (retrieve_entry v t (h, gs, q, u)).
Proof.
  intros Hd I Ht. unfold retrieve_entry. destruct (_ <? _)%N.
  - destruct (fill_min_nt d v t (N.min (e_min (getent h t)) (e_max (getent h t))) (S (length (e_q (getent h t)))) h 0%N Hd I Ht) as [A B].
    destruct (fill_min _ v t _ h 0%N) as [[h1 c1]|e]; cbv beta iota; [split; discriminate|].
    split; intros X; inversion X; subst; congruence.
  - cbv beta iota. split; discriminate.
Qed.

Lemma NoDup_app_intro {A} (l1 l2 : list A) : NoDup l1 -> NoDup l2 -> (forall x, In x l1 -> ~ In x l2) -> NoDup (l1 ++ l2).
Proof. induction l1; simpl; intros N1 N2 D; auto. apply NoDup_cons_iff in N1. destruct N1 as [Na N1].
  constructor; [|apply IHl1; auto]. intros X. apply in_app_or in X. destruct X as [X|X]; [auto|]. apply (D a); auto. Qed.

(* the local containers: duplicate-free, every connection in the expected state, of a processed torrent *)
Definition RI2 (g : nat) (h : half) (q u : wl) (done : list nat) : Prop :=
  NoDup (ids q) /\ NoDup (ids u) /\ POK g false h (ids q) /\ POK g true h (ids u) /\
  (forall c, In c (ids q) \/ In c (ids u) -> In (tor_of h c) done) /\ WBl q /\ WBl u.

Lemma ids_skipn k (l : wl) : ids (skipn k l) = skipn k (ids l).
Proof. unfold ids. rewrite skipn_map. reflexivity. Qed.

Lemma retrieve_lok d v g : forall ts h gs q u h' gs' q' u' done,
  v_dir v = d -> InvL d h -> NoDup (done ++ ts) ->
  (forall t, In t ts -> (t < nt h)%nat /\ grp_of h t = g /\ WBt h t) ->
  RI2 g h q u done ->
  retrieve_connections v ts (h, gs, q, u) = Ok (h', gs', q', u') ->
  RI2 g h' q' u' (done ++ ts).
Proof.
  induction ts as [|t ts IH]; intros h gs q u h' gs' q' u' done Hd I ND Hts R H.
  - simpl in H. inversion H; subst. rewrite app_nil_r. auto.
  - change (retrieve_connections v (t :: ts) (h, gs, q, u)) with
      (do acc' <- retrieve_entry v t (h, gs, q, u); retrieve_connections v ts acc') in H.
    destruct (retrieve_entry v t (h, gs, q, u)) as [[[[h1 gs1] q1] u1]|] eqn:RE; [|discriminate].
    destruct (Hts t (or_introl eq_refl)) as (Ht & Gt & Wt).
    destruct (retrieve_entry_effect d v g t h gs q u h1 gs1 q1 u1 Hd I Ht Gt RE) as (I1 & E1 & _).
    destruct (retrieve_entry_shape v t h gs q u h1 gs1 q1 u1 RE) as (kq & ku & -> & ->).
    destruct R as (NDq & NDu & Pq & Pu & TD & Wq & Wu).
    assert (Tnot : ~ In t done).
    { intros X. apply NoDup_remove_2 in ND. apply ND. apply in_or_app. auto. }
    assert (Ht1 : (t < nt h1)%nat) by (rewrite (fr_nt _ _ _ (le_fr _ _ _ _ E1)); auto).
    assert (Tor1 : forall c, tor_of h1 c = tor_of h c) by (intros; apply (Fr_tor _ _ _ _ (le_fr _ _ _ _ E1))).
    assert (Old : forall c, In c (ids q) \/ In c (ids u) -> tor_of h c <> t).
    { intros c X E. apply TD in X. rewrite E in X. auto. }
    assert (W1 : WBt h1 t).
    { unfold retrieve_entry in RE. destruct (_ <? _)%N.
      - destruct (fill_min _ v t _ h 0%N) as [[hx cx]|] eqn:F; cbv beta iota in RE; [|discriminate].
        assert (hx = h1) by congruence. subst hx. eapply fill_min_WB; eauto.
      - cbv beta iota in RE. assert (h = h1) by congruence. subst. auto. }
    assert (R' : RI2 g h1 (q ++ skipn kq (e_q (getent h1 t))) (u ++ skipn ku (e_u (getent h1 t))) (done ++ [t])).
    { unfold RI2. unfold ids. rewrite !map_app. fold (ids q) (ids u).
      fold (ids (skipn kq (e_q (getent h1 t)))) (ids (skipn ku (e_u (getent h1 t)))). rewrite !ids_skipn.
      assert (Nq : forall c, In c (skipn kq (ids (e_q (getent h1 t)))) -> (c < nc h1)%nat /\ tor_of h1 c = t /\ inq (getcs h1 c) = true).
      { intros c X. apply my_skipn_In in X. apply (iv_mq _ _ I1 t c Ht1) in X. auto. }
      assert (Nu : forall c, In c (skipn ku (ids (e_u (getent h1 t)))) -> (c < nc h1)%nat /\ tor_of h1 c = t /\ inu (getcs h1 c) = true).
      { intros c X. apply my_skipn_In in X. apply (iv_mu _ _ I1 t c Ht1) in X. auto. }
      split; [|split; [|split; [|split; [|split; [|split]]]]].
      - apply NoDup_app_intro; auto. apply NoDup_skipn. apply (iv_ndq _ _ I1 t Ht1).
        intros c X Y. apply Nq in Y. destruct Y as (_ & Y & _). rewrite Tor1 in Y. apply (Old c); auto.
      - apply NoDup_app_intro; auto. apply NoDup_skipn. apply (iv_ndu _ _ I1 t Ht1).
        intros c X Y. apply Nu in Y. destruct Y as (_ & Y & _). rewrite Tor1 in Y. apply (Old c); auto.
      - intros c X. apply in_app_or in X. destruct X as [X|X].
        + eapply POK_frame; [exact E1| |exact Pq|exact X]. intros c' X'. apply Old. auto.
        + destruct (Nq c X) as (A & B & C). split; auto. split; auto. rewrite B. rewrite (Fr_grp _ _ _ _ (le_fr _ _ _ _ E1)). auto.
      - intros c X. apply in_app_or in X. destruct X as [X|X].
        + eapply POK_frame; [exact E1| |exact Pu|exact X]. intros c' X'. apply Old. auto.
        + destruct (Nu c X) as (A & B & C). split; auto. split; auto. rewrite B. rewrite (Fr_grp _ _ _ _ (le_fr _ _ _ _ E1)). auto.
      - intros c X. rewrite Tor1. apply in_or_app.
        destruct X as [X|X]; apply in_app_or in X; destruct X as [X|X].
        + left. apply TD. auto.
        + right. apply Nq in X. destruct X as (_ & X & _). rewrite Tor1 in X. left; auto.
        + left. apply TD. auto.
        + right. apply Nu in X. destruct X as (_ & X & _). rewrite Tor1 in X. left; auto.
      - intros p X. apply in_app_or in X. destruct X as [X|X]; [apply Wq; auto|]. apply my_skipn_In in X. apply (proj1 W1). auto.
      - intros p X. apply in_app_or in X. destruct X as [X|X]; [apply Wu; auto|]. apply my_skipn_In in X. apply (proj2 W1). auto. }
    assert (ND' : NoDup ((done ++ [t]) ++ ts)) by (rewrite <- app_assoc; exact ND).
    assert (Hts' : forall t', In t' ts -> (t' < nt h1)%nat /\ grp_of h1 t' = g /\ WBt h1 t').
    { intros t' X. destruct (Hts t' (or_intror X)) as (A & B & C).
      rewrite (fr_nt _ _ _ (le_fr _ _ _ _ E1)), (Fr_grp _ _ _ _ (le_fr _ _ _ _ E1)). split; auto. split; auto.
      unfold WBt. rewrite (le_ent _ _ _ _ E1 t'); auto. intros c Tc EE. rewrite Tc in EE. subst t'.
      apply NoDup_remove_2 in ND. apply ND. apply in_or_app. right. exact X. }
    rewrite (app_assoc done [t] ts) || idtac.
    replace (done ++ t :: ts) with ((done ++ [t]) ++ ts) by (rewrite <- app_assoc; reflexivity).
    eapply (IH h1 gs1 _ _ h' gs' q' u' (done ++ [t])); eauto.
Qed.

Lemma retrieve_nt d v : forall ts h gs q u, v_dir v = d -> InvL d h -> (forall t, In t ts -> (t < nt h)%nat) ->
  NT (retrieve_connections v ts (h, gs, q, u)).
Proof.
  induction ts as [|t ts IH]; intros h gs q u Hd I Hts; [split; discriminate|].
  change (retrieve_connections v (t :: ts) (h, gs, q, u)) with
    (do acc' <- retrieve_entry v t (h, gs, q, u); retrieve_connections v ts acc').
  destruct (retrieve_entry_nt d v t h gs q u Hd I (Hts t (or_introl eq_refl))) as [A B].
  destruct (retrieve_entry v t (h, gs, q, u)) as [[[[h1 gs1] q1] u1]|e] eqn:RE.
  - pose proof (retrieve_entry_inv d v t h gs q u h1 gs1 q1 u1 Hd I RE) as I1.
    apply IH; auto. intros t' X.
    assert (N1 : nt h1 = nt h).
    { destruct (retrieve_entry_effect d v (grp_of h t) t h gs q u h1 gs1 q1 u1 Hd I (Hts t (or_introl eq_refl)) eq_refl RE) as (_ & E1 & _).
      exact (fr_nt _ _ _ (le_fr _ _ _ _ E1)). }
    rewrite N1. apply Hts. right; auto.
  - split; intros X; inversion X; subst; congruence.
Qed.

(* ---------------------------------------------------------------- cycle_no_throw *)
Lemma inq_inu_excl s : inq s = true -> inu s = true -> False.
Proof. intros A B. apply inq_true in A. apply inu_true in B. destruct A as (_ & _ & A & _), B as (_ & B). congruence. Qed.

Lemma NT_err {A B} (r : res A) e : r = Err e -> NT r -> NT (@Err B e).
Proof. intros -> [N1 N2]. split; intros X; inversion X; subst; [apply N1|apply N2]; reflexivity. Qed.

Lemma NT_err' {A B} e : (@Err A e) <> Err EInternal -> (@Err A e) <> Err EFault -> NT (@Err B e).
Proof. intros N1 N2. split; intros X; inversion X; subst; [apply N1|apply N2]; reflexivity. Qed.

Theorem cycle_no_throw d v g quota h : v_dir v = d -> InvL d h -> (g < ng h)%nat -> NT (cycle v g quota h).
Proof.
  intros Hd I Hg. unfold cycle.
  set (q := getq h g). set (h1 := prepare_weights v g h).
  pose proof (prepare_weights_inv d v g h I) as I1. fold h1 in I1.
  pose proof (CEff_prepare d v g h I Hg) as E1. fold h1 in E1.
  destruct (iv_qe _ _ I g Hg) as [NDe Me].
  assert (Hts : forall t, In t (q_ents q) -> (t < nt h1)%nat /\ grp_of h1 t = g /\ WBt h1 t).
  { intros t X. pose proof X as X0. apply Me in X. rewrite (ce_nt _ _ _ E1). unfold grp_of. rewrite (ce_tgrp _ _ _ E1).
    split; [tauto|]. split; [tauto|]. apply (prepare_weights_WB v g h); auto. intros t' X'. apply Me in X'. tauto. }
  destruct (retrieve_nt d v (q_ents q) h1 (mkGS 0 0) [] [] Hd I1 (fun t X => proj1 (Hts t X))) as [RN1 RN2].
  destruct (retrieve_connections v (q_ents q) (h1, mkGS 0 0, [], [])) as [[[[h2 gs] queued] unchoked]|e] eqn:RC; cbv beta iota.
  2:{ split; intros X; inversion X as [E0]; rewrite E0 in RC; [exact (RN1 RC)|exact (RN2 RC)]. }
  assert (R0 : RInv g h1 (mkGS 0 0) [] [] []).
  { unfold RInv, lenZ. split; [simpl; lia|split; [intros c []|split; [intros c []|simpl; lia]]]. }
  destruct (retrieve_effect d v g (q_ents q) h1 (mkGS 0 0) [] [] h2 gs queued unchoked [] Hd I1 NDe (fun t X => conj (proj1 (Hts t X)) (proj1 (proj2 (Hts t X)))) R0 RC) as (I2 & E2 & _ & _).
  assert (L0 : RI2 g h1 [] [] []).
  { unfold RI2. simpl. split; [constructor|split; [constructor|split; [intros c []|split; [intros c []|split; [intros c [[]|[]]|split; intros p []]]]]]. }
  pose proof (retrieve_lok d v g (q_ents q) h1 (mkGS 0 0) [] [] h2 gs queued unchoked [] Hd I1 NDe Hts L0 RC) as L2.
  destruct L2 as (NDq & NDu & Pq & Pu & _ & Wq & Wu).
  set (quota1 := N.min quota (q_max q)). set (quota' := (quota1 - N.min quota1 (gs_now gs))%N).
  set (adjust := N.min (N.max (if (lenN unchoked <? quota')%N then (quota' - lenN unchoked)%N else 0%N) (max_alternate q)) quota').
  destruct (acr_ok d v (q_heur q) g queued adjust false h2 Hd I2 NDq Pq Wq) as (A1 & A2 & AX).
  destruct (adjust_choke_range v (q_heur q) queued adjust false h2) as [[h3 c3]|e] eqn:A3; cbv beta iota.
  2:{ eapply NT_err'; eauto. }
  destruct (acr_effect d v (q_heur q) g queued adjust false h2 h3 c3 Hd I2 (POK_RangeOK _ _ _ _ Pq) A3) as (I3 & E3 & _ & _).
  pose proof (AX _ _ eq_refl) as C3.
  destruct (quota' <? lenN unchoked + c3)%N eqn:CU.
  - apply N.ltb_lt in CU.
    assert (Pu3 : POK g true h3 (ids unchoked)).
    { eapply POK_frame; [exact E3| |exact Pu]. intros c X Y. destruct (Pu c X) as (_ & F1 & _). destruct (Pq c Y) as (_ & F2 & _).
      simpl in F1, F2. eapply inq_inu_excl; eauto. }
    destruct (acr_ok d v (q_heur q) g unchoked (lenN unchoked + c3 - quota') true h3 Hd I3 NDu Pu3 Wu) as (B1 & B2 & BX).
    destruct (adjust_choke_range v (q_heur q) unchoked _ true h3) as [[h4 c4]|e] eqn:A4; cbv beta iota.
    2:{ eapply NT_err'; eauto. }
    pose proof (BX _ _ eq_refl) as C4. cbn [fst snd].
    destruct (quota' <? lenN unchoked + c3 - c4)%N eqn:CF; [|split; discriminate].
    apply N.ltb_lt in CF. exfalso. subst adjust. lia.
  - destruct (quota' <? lenN unchoked + c3)%N; [discriminate|]. split; discriminate.
Qed.
