(* C11 proofs, part 2: op-list level theorems, limit guard of set_queued, refuted statements. *)
From Coq Require Import List NArith ZArith Bool Arith Lia.
From LTV.C11 Require Import Model Proofs.
Import ListNotations.
Local Open Scope Z_scope.

(* ---------------------------------------------------------------- group move, setters *)
Lemma sum_upd_shift {A} (f : A -> Z) (F : A -> A) (d : Z) : forall g l, (g < length l)%nat ->
  (forall x, f (F x) = f x + d) -> sumZ (map f (upd g F l)) = sumZ (map f l) + d.
Proof. induction g; destruct l; simpl; intros; try lia. rewrite H0; lia. rewrite IHg; auto; lia. Qed.

Lemma Forall_upd {A} (P : A -> Prop) n (F : A -> A) l : Forall P l -> (forall x, P x -> P (F x)) -> Forall P (upd n F l).
Proof. revert n; induction l; destruct n; simpl; intros; auto; inversion H; constructor; auto. Qed.

Lemma eff_move_half t g' h h' : (g' < length (h_qs h))%nat -> move_half t g' h = Ok h' -> eff 0 h h'.
Proof.
  unfold move_half. intros Hg'. destruct (rswap _ t _); [|discriminate]. intros H; inversion H; clear H H1. intros W.
  pose proof (grp_lt h t W) as Hg.
  split.
  - destruct W; constructor; simpl; rewrite ?length_upd; auto;
      try (apply Forall_upd; auto; rewrite ?length_upd; auto).
  - unfold BalU, BalQ, BalT, D, SQu, SQq, SEu, SEq, STn; simpl.
    rewrite !(sum_upd_shift q_cu _ (lenZ (e_u (getent h t)))) by (rewrite ?length_upd; auto).
    rewrite !(sum_upd_shift q_cq _ (lenZ (e_q (getent h t)))) by (rewrite ?length_upd; auto).
    rewrite !(sum_upd_shift q_cu _ (- lenZ (e_u (getent h t)))) by (rewrite ?length_upd; auto).
    rewrite !(sum_upd_shift q_cq _ (- lenZ (e_q (getent h t)))) by (rewrite ?length_upd; auto).
    rewrite !(sum_upd_shift q_cu _ 0) by (rewrite ?length_upd; auto; intros; simpl; lia).
    rewrite !(sum_upd_shift q_cq _ 0) by (rewrite ?length_upd; auto; intros; simpl; lia).
    lia.
Qed.

Lemma sum_upd_same {A} (f : A -> Z) (F : A -> A) : forall g l,
  (forall x, f (F x) = f x) -> sumZ (map f (upd g F l)) = sumZ (map f l).
Proof. induction g; destruct l; simpl; intros; try lia. rewrite H; lia. rewrite IHg; auto. Qed.

Lemma eff_upde_lims t F h : (forall e, e_q (F e) = e_q e /\ e_u (F e) = e_u e) -> eff 0 h (upde t F h).
Proof. intros HF W. split; [destruct W; constructor; simpl; rewrite ?length_upd; auto|].
  unfold BalU, BalQ, BalT, D, SQu, SQq, SEu, SEq, STn; simpl.
  rewrite !sum_upd_same by (intros; destruct (HF x) as [A B]; rewrite ?A, ?B; auto). repeat split; try reflexivity; ring. Qed.
Lemma eff_updq_lims g F h : (forall q, q_cq (F q) = q_cq q /\ q_cu (F q) = q_cu q) -> eff 0 h (updq g F h).
Proof. intros HF W. split; [destruct W; constructor; simpl; rewrite ?length_upd; auto|].
  unfold BalU, BalQ, BalT, D, SQu, SQq, SEu, SEq, STn; simpl.
  rewrite !sum_upd_same by (intros; destruct (HF x) as [A B]; rewrite ?A, ?B; auto). repeat split; try reflexivity; ring. Qed.

(* ---------------------------------------------------------------- consistency of one half *)
Definition Good (h : half) : Prop := WF h /\ BalU h = 0 /\ BalQ h = 0 /\ BalT h = 0 /\ D h = 0.
Lemma Good_eff h h' : eff 0 h h' -> Good h -> Good h'.
Proof. intros E (W & ? & ? & ? & ?). destruct (E W) as (W' & ? & ? & ? & ?). split; [exact W'|]; repeat split; lia. Qed.

(* per-connection, limit and group ops: everything except the periodic cycle/balance and close *)
Definition conn_op (o : op) : bool :=
  match o with
  | OClose _ | OBalEntry _ _ | OBalance _ _ | OCycle _ _ _ | OTick => false
  | _ => true
  end.

Definition GoodSt (s : st) : Prop :=
  Good (s_up s) /\ Good (s_dn s) /\ length (h_qs (s_up s)) = length (h_qs (s_dn s)) /\
  length (h_ents (s_up s)) = length (h_ents (s_dn s)).

Lemma on_half_good d rs s s' (f : env -> half -> res half) :
  (forall v h h', h = with_rs (get_half d s) rs -> f v h = Ok h' ->
     eff 0 h h' /\ length (h_qs h') = length (h_qs h) /\ length (h_ents h') = length (h_ents h)) ->
  GoodSt s -> on_half d rs s f = Ok s' -> GoodSt s'.
Proof.
  unfold on_half. intros Hf (Gu & Gd & L1 & L2). destruct (f _ _) as [h1|] eqn:F; [|discriminate]. intros H; inversion H; clear H.
  destruct (Hf _ _ _ eq_refl F) as (E & Q & T). simpl in Q, T.
  assert (E' : eff 0 (get_half d s) (with_rs h1 [])).
  { eapply eff_eq; [eapply eff_trans; [apply (eff_with_rs _ rs)|eapply eff_trans; [apply E|apply eff_with_rs]]|reflexivity]. }
  destruct d; simpl in *; unfold GoodSt; simpl; (split; [|split; [|split]]); auto; try (eapply Good_eff; eauto); try congruence.
Qed.

Lemma WF_add_conn h t : WF h -> (t < length (h_ents h))%nat ->
  WF (mkH (h_cs h ++ [mkCS true false false false false 0]) (h_ctor h ++ [t]) (h_ents h) (h_tn h) (h_tgrp h) (h_qs h) (h_cur h) (h_max h) (h_rs h)).
Proof. intros W Ht; destruct W; constructor; simpl; auto. apply Forall_app; split; auto. Qed.

Ltac triv_len := repeat split; auto; simpl; rewrite ?length_upd; auto.

Lemma len_slot v c b h h' r : slot v c b h = Ok (h', r) -> length (h_qs h') = length (h_qs h) /\ length (h_ents h') = length (h_ents h).
Proof. unfold slot. destruct (Bool.eqb _ _); [discriminate|]. destruct b.
  - destruct (remove_swap _ _); [|discriminate]. destruct (has _ _); [discriminate|].
    destruct (v_dir v); [intros H; inversion H; triv_len|].
    destruct (cs_r _); [intros H; inversion H; triv_len|].
    unfold set_not_queued_inner. simpl.
    match goal with |- context [if ?a then _ else _] => destruct a end; [intros H; inversion H; triv_len|].
    match goal with |- context [if ?a then _ else _] => destruct a end; [intros H; inversion H; triv_len|].
    match goal with |- context [match ?a with Some _ => _ | None => _ end] => destruct a end; [|discriminate].
    intros H; inversion H; triv_len.
  - destruct (remove_swap _ _); [|discriminate]. destruct (has _ _); [discriminate|]. intros H; inversion H; triv_len. Qed.

Lemma len_recv n h h' : recv_unchoke n h = Ok h' -> length (h_qs h') = length (h_qs h) /\ length (h_ents h') = length (h_ents h).
Proof. unfold recv_unchoke. destruct (_ <? _); intros H; inversion H; triv_len. Qed.
Lemma len_cq c h h' : connection_queued c h = Ok h' -> length (h_qs h') = length (h_qs h) /\ length (h_ents h') = length (h_ents h).
Proof. unfold connection_queued. destruct (has _ _); intros H; inversion H; triv_len. Qed.
Lemma len_cu c h h' : connection_unqueued c h = Ok h' -> length (h_qs h') = length (h_qs h) /\ length (h_ents h') = length (h_ents h).
Proof. unfold connection_unqueued. destruct (remove_swap _ _); intros H; inversion H; triv_len. Qed.
Lemma len_try v hold c h h' : try_unchoke_new v hold c h = Ok h' -> length (h_qs h') = length (h_qs h) /\ length (h_ents h') = length (h_ents h).
Proof. unfold try_unchoke_new. destruct (_ && _); [|intros H; inversion H; auto].
  destruct (slot _ _ _ _) as [[h1 r]|] eqn:S; [|discriminate]. simpl. intros H. apply len_recv in H. apply len_slot in S. intuition congruence. Qed.

Lemma len_set_queued v c h h' : set_queued v c h = Ok h' -> length (h_qs h') = length (h_qs h) /\ length (h_ents h') = length (h_ents h).
Proof. unfold set_queued. destruct (_ || _); [intros H; inversion H; auto|]. destruct (cs_s _); [intros H; inversion H; triv_len|].
  destruct (connection_queued _ _) eqn:Q; [|discriminate]. intros H. apply len_try in H. apply len_cq in Q. simpl in Q. intuition congruence. Qed.
Lemma len_set_not_queued v c h h' : set_not_queued v c h = Ok h' -> length (h_qs h') = length (h_qs h) /\ length (h_ents h') = length (h_ents h).
Proof. unfold set_not_queued. destruct (negb _); [intros H; inversion H; auto|]. destruct (cs_s _); [intros H; inversion H; triv_len|].
  destruct (cs_u _).
  - destruct (slot _ _ _ _) as [[h1 r]|] eqn:S; [|discriminate]. simpl. destruct (recv_unchoke _ _) eqn:R; [|discriminate].
    intros H. apply len_cu in H. apply len_recv in R. apply len_slot in S. simpl in S. intuition congruence.
  - intros H. apply len_cu in H. simpl in H. auto. Qed.
Lemma len_set_snubbed v c h h' : set_snubbed v c h = Ok h' -> length (h_qs h') = length (h_qs h) /\ length (h_ents h') = length (h_ents h).
Proof. unfold set_snubbed. destruct (cs_s _); [intros H; inversion H; auto|]. destruct (cs_u _).
  - destruct (slot _ _ _ _) as [[h1 r]|] eqn:S; [|discriminate]. simpl. destruct (recv_unchoke _ _) as [h2|] eqn:R; [|discriminate].
    intros U. apply len_cu in U. apply len_recv in R. apply len_slot in S. simpl in *. intuition congruence.
  - destruct (negb _); [intros H; inversion H; triv_len|]. intros U. apply len_cu in U. simpl in *. auto. Qed.
Lemma len_set_not_snubbed v c h h' : set_not_snubbed v c h = Ok h' -> length (h_qs h') = length (h_qs h) /\ length (h_ents h') = length (h_ents h).
Proof. unfold set_not_snubbed. destruct (negb (cs_s _)); [intros H; inversion H; auto|]. destruct (negb (cs_q _)); [intros H; inversion H; triv_len|].
  destruct (cs_u _); [discriminate|]. destruct (connection_queued _ _) eqn:Q; [|discriminate]. intros H.
  apply len_try in H. apply len_cq in Q. simpl in Q. intuition congruence. Qed.

(* ---------------------------------------------------------------- all op lists of conn_ops *)
Lemma sum_repeat0 {A} (f : A -> Z) x n : f x = 0 -> sumZ (map f (repeat x n)) = 0.
Proof. intros; induction n; simpl; lia. Qed.
Lemma sumZ_repeat0 n : sumZ (repeat 0 n) = 0.
Proof. induction n; simpl; lia. Qed.

Lemma empty_half_good nt ng heur : (0 < nt)%nat -> (0 < ng)%nat -> Good (empty_half nt ng heur).
Proof.
  intros Hn Hg. destruct ng as [|k]; [lia|]. unfold Good, BalU, BalQ, BalT, D, SQu, SQq, SEu, SEq, STn; simpl.
  rewrite !sum_repeat0 by reflexivity. rewrite sumZ_repeat0.
  assert (F : forall n b, (0 < b)%nat -> Forall (fun g => (g < b)%nat) (repeat O n)).
  { induction n; simpl; constructor; auto. }
  repeat split; simpl; rewrite ?repeat_length; auto; try lia; try (apply F; simpl; lia).
Qed.

Lemma init_good nt ng : (0 < nt)%nat -> (0 < ng)%nat -> GoodSt (init nt ng).
Proof. intros. unfold GoodSt, init; simpl. repeat split; try apply empty_half_good; auto.
  destruct ng; simpl; rewrite ?repeat_length; auto. Qed.

(* ---------------------------------------------------------------- limits: the guard of set_queued *)
(* An upload-side connection that becomes interested (or is un-snubbed) is only unchoked when the
   queue is not full, the global maximum leaves room, the torrent's max_slots leaves room and the
   10 s re-unchoke guard has passed. *)
Theorem limits_new_unchoke_guard_up : forall v hold c h h', v_dir v = Up -> try_unchoke_new v hold c h = Ok h' ->
  h' = h \/
  (let t := tor_of h c in let q := getq h (grp_of h t) in
   (q_max q = unlimited \/ q_cu q < Z.of_N (q_max q)) /\
   (h_max h = 0%N \/ h_cur h < Z.of_N (h_max h)) /\
   gettn h t < Z.of_N (e_max (getent h t)) /\
   cs_t (getcs h c) + hold < v_now v).
Proof.
  intros v hold c h h' Hd. unfold try_unchoke_new, all_new, is_full, should_unchoke, can_unchoke. rewrite Hd. simpl.
  destruct (negb _ && _ && _ && _) eqn:G; [|intros H; inversion H; auto].
  intros _. right.
  apply andb_prop in G; destruct G as [G G4]. apply andb_prop in G; destruct G as [G G3]. apply andb_prop in G; destruct G as [G1 G2].
  apply Z.ltb_lt in G3, G4. repeat split; auto.
  - apply negb_true_iff in G1. apply andb_false_iff in G1. destruct G1 as [G1|G1].
    + left. apply negb_false_iff in G1. apply N.eqb_eq in G1. auto.
    + right. apply Z.leb_gt in G1. auto.
  - destruct (h_max h =? 0)%N eqn:M; [left; apply N.eqb_eq; auto|right]. apply Z.ltb_lt in G2. lia.
Qed.
Example limits_new_unchoke_guard_up_nonvacuous :
  match step (init 1 1) (ONew 0) [] with
  | Ok s1 => match connection_queued 0 (updcs 0 (set_q true) (s_up s1)) with
             | Ok h => match try_unchoke_new (mkEnv Up 31536000000000 [] [] (10000000, 10000000)) 10000000 0 h with
                       | Ok h' => h_cur h' = 1 /\ h_cur h = 0
                       | Err _ => False end
             | Err _ => False end
  | Err _ => False end.
Proof. vm_compute. split; reflexivity. Qed.

(* ---------------------------------------------------------------- refuted statements (faithful model) *)
(* Regression witness of the defect repaired in /repo commit 8c9c20f (quota -= size_unchoked()
   wrapped in ResourceManager::balance_unchoked): group 0 is forced to 3 by min_slots, and group 1,
   which has no min_slots, now gets nothing beyond the global maximum 2. *)
Definition tick_ops : list (op * list N) :=
  [(ONew 0, []); (ONew 0, []); (ONew 0, []); (ONew 1, []); (ONew 1, []); (ONew 1, []); (OSetGroup 1 1, []);
   (OSetMinSlots Up 0 3%N, []); (OSetGMax Up 2%N, []);
   (OQueue Up 0, []); (OQueue Up 1, []); (OQueue Up 2, []); (OQueue Up 3, []); (OQueue Up 4, []); (OQueue Up 5, []);
   (OTick, [1; 2; 3; 4; 5; 6; 7; 8]%N)].
Example tick_witness_repaired :
  match run (init 2 2) tick_ops with
  | Ok s => h_cur (s_up s) = 3 /\ lenZ (e_u (getent (s_up s) 0)) = 3 /\ lenZ (e_u (getent (s_up s) 1)) = 0
  | Err _ => False end.
Proof. vm_compute. repeat split. Qed.

(* "after receive_tick the global count is <= max(max_unchoked, slots forced by min_slots)": false
   (also of the repaired code). A group that comes earlier in the requested-order takes its share of
   the quota before the forced group is reached: 1 + 3 = 4 > max(2, 3). What holds is the sum form:
   the connections beyond those forced by min_slots number at most max_unchoked. *)
Definition tick_ops2 : list (op * list N) :=
  [(ONew 0, []); (ONew 0, []); (ONew 0, []); (ONew 1, []); (OSetGroup 1 1, []);
   (OSetMinSlots Up 0 3%N, []); (OSetGMax Up 2%N, []);
   (OQueue Up 0, []); (OQueue Up 1, []); (OQueue Up 2, []); (OQueue Up 3, []);
   (OTick, [1; 2; 3; 4; 5; 6; 7; 8]%N)].
Theorem tick_max_form_refuted :
  exists ops s, run (init 2 2) ops = Ok s /\ h_max (s_up s) = 2%N /\
    e_min (getent (s_up s) 0) = 3%N /\ e_min (getent (s_up s) 1) = 0%N /\
    h_cur (s_up s) = 4 /\ lenZ (e_u (getent (s_up s) 0)) = 3 /\ lenZ (e_u (getent (s_up s) 1)) = 1.
Proof. exists tick_ops2. eexists. vm_compute. repeat split. Qed.

(* "no op raises the number of locally unchoked download connections above max_download_unchoked":
   false. The download queue is built with flag_unchoke_all_new, so set_queued does not consult
   retrieve_download_can_unchoke. *)
Definition dn_ops : list (op * list N) :=
  [(ONew 0, []); (ONew 0, []); (OSetGMax Dn 1%N, []); (OQueue Dn 0, []); (OQueue Dn 1, [])].
Theorem download_set_queued_within_global_max_refuted :
  exists ops s, run (init 1 1) ops = Ok s /\ h_max (s_dn s) = 1%N /\ h_cur (s_dn s) = 2.
Proof. exists dn_ops. eexists. vm_compute. repeat split. Qed.
