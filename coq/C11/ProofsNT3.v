(* C11 proofs: cycle_rotates — a cycle with a remaining quota >= 1 and a waiting candidate gives a slot to
   a connection that was waiting; bounded-wait fairness corollary under the oracle hypothesis. *)
From Coq Require Import List NArith ZArith Bool Arith Lia Permutation.
From LTV.C11 Require Import Model Proofs Proofs2 ProofsInv ProofsInv2 ProofsInv3 ProofsAlloc ProofsLim ProofsLim2 ProofsLim3 ProofsNT ProofsNT2.
Import ListNotations.
Local Open Scope Z_scope.

Lemma flag_alive choke s : flag choke s = true -> cs_a s = true.
Proof. destruct choke; simpl; intros F; [apply inu_true in F|apply inq_true in F]; tauto. Qed.

Lemma slot_list_flags d v choke g : forall l h h', v_dir v = d -> InvL d h -> NoDup l -> POK g choke h l ->
  slot_list v choke l h = Ok h' ->
  forall c, In c l -> cs_u (getcs h' c) = negb choke /\ cs_a (getcs h' c) = true.
Proof.
  induction l as [|a r IH]; intros h h' Hd I ND P H c Hc; [destruct Hc|].
  apply NoDup_cons_iff in ND. destruct ND as [Na NDr].
  cbn [slot_list] in H. destruct (slot v a choke h) as [[h1 r1]|] eqn:S; [|discriminate]. cbn [fst] in H.
  destruct (P a (or_introl eq_refl)) as (Ha & Fa & Ga).
  destruct (slot_LEff d v a choke h h1 r1 g Hd I Ha Ga S) as (I1 & E1 & _).
  destruct (slot_inv d v a choke h h1 r1 Hd I S) as [_ ->].
  pose proof (slot_effect v a choke h h1 (iv_wf _ _ I) Ha S) as SE.
  assert (P1 : POK g choke h1 r).
  { eapply POK_frame; [exact E1| |intros x Hx; apply P; right; auto]. intros x Hx ->. auto. }
  destruct Hc as [<-|Hc].
  - destruct (slot_list_effect d v choke g r h1 h' Hd I1 (POK_RangeOK _ _ _ _ P1) H) as (_ & E2 & _).
    rewrite (le_cs _ _ _ _ E2 a Na). destruct (se_fl _ _ _ _ SE) as (U & A & _). split; auto. rewrite A. eapply flag_alive; eauto.
  - eapply IH; eauto.
Qed.

Lemma class_ok_flags d v choke g range lo n hh : v_dir v = d -> InvL d hh -> NoDup (ids range) ->
  POK g choke hh (slice (ids range) lo n) ->
  exists hh', slot_list v choke (rev (ids (firstn n (skipn lo range)))) hh = Ok hh' /\ InvL d hh' /\
              LEff g (fun x => In x (slice (ids range) lo n)) hh hh' /\
              (forall c, In c (slice (ids range) lo n) -> cs_u (getcs hh' c) = negb choke /\ cs_a (getcs hh' c) = true).
Proof.
  intros Hd I ND P. destruct (class_ok d v choke g range lo n hh Hd I ND P) as (hh' & S & I' & E').
  exists hh'. split; auto. split; auto. split; auto.
  assert (E : ids (firstn n (skipn lo range)) = slice (ids range) lo n) by apply (ids_slice range lo n).
  rewrite E in S. intros c Hc.
  eapply (slot_list_flags d v choke g (rev (slice (ids range) lo n)) hh hh'); eauto.
  - apply NoDup_rev, NoDup_slice; auto.
  - intros x X. apply P. apply in_rev; auto.
  - apply in_rev. rewrite rev_involutive. auto.
Qed.

Lemma slice_nonempty {A} (l : list A) lo n : (1 <= n)%nat -> (lo + n <= length l)%nat -> exists x, In x (slice l lo n).
Proof. intros N L. unfold slice. destruct (firstn n (skipn lo l)) as [|x r] eqn:E.
  - apply (f_equal (@length A)) in E. rewrite firstn_length, skipn_length in E. simpl in E. lia.
  - exists x. left; auto. Qed.

(* the connections adjust_choke_range touched are flipped, and if it reports cnt >= 1 there is one *)
Theorem acr_rot d v heur g range mx choke h h' cnt : v_dir v = d -> InvL d h -> NoDup (ids range) ->
  POK g choke h (ids range) -> (forall p, In p range -> (snd p < two32)%N) ->
  adjust_choke_range v heur range mx choke h = Ok (h', cnt) -> (1 <= cnt)%N ->
  exists c, In c (ids range) /\ cs_u (getcs h' c) = negb choke /\ cs_a (getcs h' c) = true.
Proof.
  intros Hd I ND P WB. unfold adjust_choke_range.
  destruct (bounds_spec_full range WB) as (b1 & b2 & b3 & EB & B1 & B2). rewrite EB.
  set (b4 := length range) in *. cbn [sizes]. rewrite !Nat.sub_0_r.
  destruct (allocate_slots _ _ mx h) as [[tg h0]|e] eqn:A; cbv beta iota; [|intros X; discriminate X].
  destruct (allocate_slots_exact_real heur choke _ _ _ _ mx h tg h0 A) as (_ & TB & TS).
  pose proof (TB 0%nat ltac:(lia)) as T0. pose proof (TB 1%nat ltac:(lia)) as T1.
  pose proof (TB 2%nat ltac:(lia)) as T2. pose proof (TB 3%nat ltac:(lia)) as T3. cbn [nthN nth] in T0, T1, T2, T3.
  assert (I0 : InvL d h0 /\ LEff g (fun _ => False) h h0).
  { destruct (alloc_state _ _ _ _ _ _ A) as [->|[x ->]]; [split; auto; apply LEff_refl|]. split; [apply inv_with_rs; auto|apply LEff_with_rs]. }
  destruct I0 as (I0 & E0). clear A.
  assert (P0 : POK g choke h0 (ids range)) by (eapply POK_frame; [exact E0| |exact P]; intros; tauto).
  cbn [nthN nth] in *.
  set (t0 := nthN tg 0) in *. set (t1 := nthN tg 1) in *. set (t2 := nthN tg 2) in *. set (t3 := nthN tg 3) in *.
  set (R := ids range) in *.
  assert (LR : length R = b4) by (unfold R, ids; rewrite map_length; reflexivity).
  assert (Sub : forall lo n c, In c (slice R lo n) -> In c R) by (intros lo n c X; unfold slice in X; eapply slice_In; eauto).
  assert (PS : forall hh lo n, POK g choke hh R -> POK g choke hh (slice R lo n)) by (intros hh lo n PP c X; apply PP; eapply Sub; eauto).
  destruct (N.of_nat (b4 - b3) <? t3)%N eqn:C3; [apply N.ltb_lt in C3; lia|].
  destruct (class_ok_flags d v choke g range (b4 - N.to_nat t3) (N.to_nat t3) h0 Hd I0 ND (PS _ _ _ P0)) as (h3 & S3 & I3 & E3 & F3).
  rewrite S3. cbv beta iota.
  assert (Pr3 : forall lo n, (lo + n <= b4 - N.to_nat t3)%nat -> POK g choke h3 (slice R lo n)).
  { intros lo n L. eapply POK_frame; [exact E3| |apply PS; exact P0]. intros c X Y. eapply (slice_disjoint R lo n); eauto. }
  destruct (N.of_nat (b3 - b2) <? t2)%N eqn:C2; [apply N.ltb_lt in C2; lia|].
  destruct (class_ok_flags d v choke g range (b3 - N.to_nat t2) (N.to_nat t2) h3 Hd I3 ND (Pr3 (b3 - N.to_nat t2)%nat (N.to_nat t2) ltac:(lia))) as (h2 & S2 & I2 & E2 & F2).
  rewrite S2. cbv beta iota.
  assert (Pr2 : forall lo n, (lo + n <= b3 - N.to_nat t2)%nat -> POK g choke h2 (slice R lo n)).
  { intros lo n L. eapply POK_frame; [exact E2| |apply Pr3; lia]. intros c X Y. eapply (slice_disjoint R lo n); eauto. }
  destruct (N.of_nat (b2 - b1) <? t1)%N eqn:C1; [apply N.ltb_lt in C1; lia|].
  destruct (class_ok_flags d v choke g range (b2 - N.to_nat t1) (N.to_nat t1) h2 Hd I2 ND (Pr2 (b2 - N.to_nat t1)%nat (N.to_nat t1) ltac:(lia))) as (h1 & S1 & I1 & E1 & F1).
  rewrite S1. cbv beta iota.
  assert (Pr1 : forall lo n, (lo + n <= b2 - N.to_nat t1)%nat -> POK g choke h1 (slice R lo n)).
  { intros lo n L. eapply POK_frame; [exact E1| |apply Pr2; lia]. intros c X Y. eapply (slice_disjoint R lo n); eauto. }
  destruct (N.of_nat b1 <? t0)%N eqn:C0; [apply N.ltb_lt in C0; lia|].
  destruct (class_ok_flags d v choke g range (b1 - N.to_nat t0) (N.to_nat t0) h1 Hd I1 ND (Pr1 (b1 - N.to_nat t0)%nat (N.to_nat t0) ltac:(lia))) as (h00 & S0 & I00 & E00 & F00).
  rewrite S0. cbv beta iota.
  destruct (mx <? t0 + t1 + t2 + t3)%N eqn:CM; [intros X; discriminate X|].
  intros X Hcnt. inversion X; subst h' cnt. clear X.
  (* frames: a connection of a higher class is not touched by the lower classes *)
  assert (K2 : forall c lo n, In c (slice R lo n) -> (b3 <= lo)%nat -> getcs h2 c = getcs h3 c).
  { intros c lo n X L. apply (le_cs _ _ _ _ E2). intros Y. eapply (slice_disjoint R (b3 - N.to_nat t2) (N.to_nat t2) lo n); eauto. lia. }
  assert (K1 : forall c lo n, In c (slice R lo n) -> (b2 <= lo)%nat -> getcs h1 c = getcs h2 c).
  { intros c lo n X L. apply (le_cs _ _ _ _ E1). intros Y. eapply (slice_disjoint R (b2 - N.to_nat t1) (N.to_nat t1) lo n); eauto. lia. }
  assert (K0 : forall c lo n, In c (slice R lo n) -> (b1 <= lo)%nat -> getcs h00 c = getcs h1 c).
  { intros c lo n X L. apply (le_cs _ _ _ _ E00). intros Y. eapply (slice_disjoint R (b1 - N.to_nat t0) (N.to_nat t0) lo n); eauto. lia. }
  destruct (N.eq_dec t3 0) as [Z3|Z3].
  - destruct (N.eq_dec t2 0) as [Z2|Z2].
    + destruct (N.eq_dec t1 0) as [Z1|Z1].
      * destruct (slice_nonempty R (b1 - N.to_nat t0) (N.to_nat t0) ltac:(lia) ltac:(lia)) as [c X].
        exists c. split; [eapply Sub; eauto|]. apply F00; auto.
      * destruct (slice_nonempty R (b2 - N.to_nat t1) (N.to_nat t1) ltac:(lia) ltac:(lia)) as [c X].
        exists c. split; [eapply Sub; eauto|]. rewrite (K0 c _ _ X ltac:(lia)). apply F1; auto.
    + destruct (slice_nonempty R (b3 - N.to_nat t2) (N.to_nat t2) ltac:(lia) ltac:(lia)) as [c X].
      exists c. split; [eapply Sub; eauto|]. rewrite (K0 c _ _ X ltac:(lia)), (K1 c _ _ X ltac:(lia)). apply F2; auto.
  - destruct (slice_nonempty R (b4 - N.to_nat t3) (N.to_nat t3) ltac:(lia) ltac:(lia)) as [c X].
    exists c. split; [eapply Sub; eauto|]. rewrite (K0 c _ _ X ltac:(lia)), (K1 c _ _ X ltac:(lia)), (K2 c _ _ X ltac:(lia)). apply F3; auto.
Qed.

(* ---------------------------------------------------------------- cycle_rotates *)
Lemma retrieve_nofill v : forall ts h gs q u h' gs' q' u',
  (forall t, In t ts -> e_min (getent h t) = 0%N) ->
  retrieve_connections v ts (h, gs, q, u) = Ok (h', gs', q', u') ->
  h' = h /\ gs_now gs' = gs_now gs /\ (length q <= length q')%nat /\
  ((exists t, In t ts /\ e_q (getent h t) <> [] /\ (lenN (e_u (getent h t)) < e_max (getent h t))%N) -> (length q < length q')%nat).
Proof.
  induction ts as [|t ts IH]; intros h gs q u h' gs' q' u' Hm H.
  - simpl in H. inversion H; subst. repeat split; auto. intros (t & [] & _).
  - change (retrieve_connections v (t :: ts) (h, gs, q, u)) with
      (do acc' <- retrieve_entry v t (h, gs, q, u); retrieve_connections v ts acc') in H.
    unfold retrieve_entry in H. rewrite (Hm t (or_introl eq_refl)) in H.
    replace (N.min 0 (e_max (getent h t))) with 0%N in H by lia.
    assert (Z : (lenN (e_u (getent h t)) <? 0)%N = false) by (apply N.ltb_ge; lia). rewrite Z in H. cbv beta iota in H.
    match type of H with context [retrieve_connections v ts (h, ?g1, ?q1, ?u1)] =>
      destruct (IH h g1 q1 u1 h' gs' q' u' (fun t' X => Hm t' (or_intror X)) H) as (A & B & C & E) end.
    split; auto. split; [rewrite B; cbn [gs_now]; lia|].
    assert (L1 : forall k, (length q <= length (if (lenN (e_u (getent h t)) <? e_max (getent h t))%N then q ++ lastn k (e_q (getent h t)) else q))%nat).
    { intros k. destruct (_ <? _)%N; [rewrite app_length|]; lia. }
    split; [eapply Nat.le_trans; [apply L1|exact C]|].
    intros (t' & [<-|X] & NE & LT).
    + pose proof LT as LT'. apply N.ltb_lt in LT. rewrite LT in C. rewrite app_length in C. unfold lastn in C. rewrite skipn_length in C.
      assert (1 <= length (e_q (getent h t)))%nat by (destruct (e_q (getent h t)); [congruence|simpl; lia]).
      unfold lenN in *. lia.
    + eapply Nat.le_lt_trans; [apply L1|]. apply E. exists t'. auto.
Qed.

Theorem cycle_rotates d v g quota h h' z : v_dir v = d -> InvL d h -> (g < ng h)%nat ->
  (forall t, In t (q_ents (getq h g)) -> e_min (getent h t) = 0%N) ->
  (1 <= N.min quota (q_max (getq h g)))%N ->
  (exists t, In t (q_ents (getq h g)) /\ e_q (getent h t) <> [] /\ (lenN (e_u (getent h t)) < e_max (getent h t))%N) ->
  cycle v g quota h = Ok (h', z) ->
  exists c, (c < nc h)%nat /\ inq (getcs h c) = true /\ grp_of h (tor_of h c) = g /\
            cs_u (getcs h' c) = true /\ cs_a (getcs h' c) = true.
Proof.
  intros Hd I Hg Hmin Hq Hw. unfold cycle.
  set (q := getq h g) in *. set (h1 := prepare_weights v g h).
  pose proof (prepare_weights_inv d v g h I) as I1. fold h1 in I1.
  pose proof (CEff_prepare d v g h I Hg) as E1. fold h1 in E1.
  pose proof (prepare_weights_PW v g h) as PW1. fold h1 in PW1.
  destruct (iv_qe _ _ I g Hg) as [NDe Me].
  assert (Hts : forall t, In t (q_ents q) -> (t < nt h1)%nat /\ grp_of h1 t = g /\ WBt h1 t).
  { intros t X. pose proof X as X0. apply Me in X. rewrite (ce_nt _ _ _ E1). unfold grp_of. rewrite (ce_tgrp _ _ _ E1).
    split; [tauto|]. split; [tauto|]. apply (prepare_weights_WB v g h); auto. intros t' X'. apply Me in X'. tauto. }
  destruct (retrieve_connections v (q_ents q) (h1, mkGS 0 0, [], [])) as [[[[h2 gs] queued] unchoked]|e] eqn:RC; cbv beta iota; [|intros X; discriminate X].
  assert (Hm1 : forall t, In t (q_ents q) -> e_min (getent h1 t) = 0%N).
  { intros t X. destruct (pw_e _ _ PW1 t) as (_ & -> & _). auto. }
  destruct (retrieve_nofill v (q_ents q) h1 (mkGS 0 0) [] [] h2 gs queued unchoked Hm1 RC) as (-> & Gn & _ & NEq).
  cbn [gs_now] in Gn.
  assert (QN : queued <> []).
  { destruct Hw as (t & X & NE & LT). assert (0 < length queued)%nat.
    { apply NEq. exists t. destruct (pw_e _ _ PW1 t) as (a & _ & b & c). split; auto. split.
      - intros Z0. apply NE. destruct (e_q (getent h t)); auto. rewrite Z0 in b. unfold lenZ in b. simpl in b. lia.
      - rewrite a. unfold lenN in *. unfold lenZ in *. lia. }
    destruct queued; [simpl in *; lia|discriminate]. }
  assert (R0 : RInv g h1 (mkGS 0 0) [] [] []).
  { unfold RInv, lenZ. split; [simpl; lia|split; [intros c []|split; [intros c []|simpl; lia]]]. }
  destruct (retrieve_effect d v g (q_ents q) h1 (mkGS 0 0) [] [] h1 gs queued unchoked [] Hd I1 NDe (fun t X => conj (proj1 (Hts t X)) (proj1 (proj2 (Hts t X)))) R0 RC) as (_ & _ & _ & R2).
  simpl app in R2. destruct R2 as (S2 & _ & _ & _).
  assert (L0 : RI2 g h1 [] [] []).
  { unfold RI2. simpl. split; [constructor|split; [constructor|split; [intros c []|split; [intros c []|split; [intros c [[]|[]]|split; intros p []]]]]]. }
  destruct (retrieve_lok d v g (q_ents q) h1 (mkGS 0 0) [] [] h1 gs queued unchoked [] Hd I1 NDe Hts L0 RC) as (NDq & NDu & Pq & Pu & _ & Wq & Wu).
  assert (Hg1 : (g < ng h1)%nat) by (rewrite (ce_ng _ _ _ E1); auto).
  assert (Qcu : Z.of_N (lenN unchoked) <= q_cu q).
  { unfold q. rewrite <- (pw_q _ _ PW1 g). rewrite <- (sum_u_qcu d h1 g I1 Hg1). unfold sum_u.
    rewrite (fold_left_sumZ (fun t => lenZ (e_u (getent h1 t)))). rewrite (pw_q _ _ PW1 g). fold q. rewrite S2, Gn, lenN_lenZ. lia. }
  rewrite Gn. set (quota1 := N.min quota (q_max q)) in *.
  replace (quota1 - N.min quota1 0)%N with quota1 by lia.
  set (adjust := N.min (N.max (if (lenN unchoked <? quota1)%N then (quota1 - lenN unchoked)%N else 0%N) (max_alternate q)) quota1).
  destruct (adjust_choke_range v (q_heur q) queued adjust false h1) as [[h3 c3]|e] eqn:A3; cbv beta iota; [|intros X; discriminate X].
  destruct (cycle_rotates_acr d v (q_heur q) g queued q (lenN unchoked) quota1 h1 h3 c3 Hd I1 NDq Pq Wq QN Hq Qcu A3) as [C1 _].
  destruct (acr_rot d v (q_heur q) g queued adjust false h1 h3 c3 Hd I1 NDq Pq Wq A3 C1) as (c & Cin & Cu & Ca).
  destruct (acr_effect d v (q_heur q) g queued adjust false h1 h3 c3 Hd I1 (POK_RangeOK _ _ _ _ Pq) A3) as (I3 & E3 & _ & _).
  destruct (Pq c Cin) as (Hc & Fc & Gc). simpl in Fc.
  assert (Res : forall hx, getcs hx c = getcs h3 c -> exists c0, (c0 < nc h)%nat /\ inq (getcs h c0) = true /\ grp_of h (tor_of h c0) = g /\
                 cs_u (getcs hx c0) = true /\ cs_a (getcs hx c0) = true).
  { intros hx Ex. exists c. unfold nc, getcs, tor_of, grp_of in *. rewrite (pw_cs _ _ PW1), (pw_ctor _ _ PW1), (pw_tgrp _ _ PW1) in *.
    rewrite Ex. auto. }
  destruct (quota1 <? lenN unchoked + c3)%N eqn:CU.
  - assert (Pu3 : RangeOK g h3 (ids unchoked)) by (eapply RangeOK_LEff; [exact E3|exact (POK_RangeOK _ _ _ _ Pu)]).
    destruct (adjust_choke_range v (q_heur q) unchoked _ true h3) as [[h4 c4]|e] eqn:A4; cbv beta iota; [|intros X; discriminate X].
    destruct (acr_effect d v (q_heur q) g unchoked _ true h3 h4 c4 Hd I3 Pu3 A4) as (_ & E4 & _ & _).
    cbn [fst snd]. match goal with |- (if ?b then Err _ else _) = _ -> _ => destruct b end; [intros X; discriminate X|]. intros X; inversion X; subst h' z. apply Res.
    apply (le_cs _ _ _ _ E4). intros Y. destruct (Pu c Y) as (_ & F2 & _). simpl in F2. eapply inq_inu_excl; eauto.
  - match goal with |- (if ?b then Err _ else _) = _ -> _ => destruct b end; [intros X; discriminate X|]. intros X; inversion X; subst h' z. apply Res. reflexivity.
Qed.

(* the number of connections swapped per cycle is at least one as soon as one slot is occupied *)
Lemma max_alternate_pos (q : queue) : 1 <= q_cu q -> (1 <= max_alternate q)%N.
Proof. intros H. unfold max_alternate. assert (C : (1 <= Z.to_N (q_cu q))%N) by lia.
  destruct (_ <? 31)%N; apply N.div_le_lower_bound; lia. Qed.
