(* C11 proofs: choke_manager_allocate_slots.
   allocate_slots_exact: whenever the allocation returns, target[i].first <= size of class i and,
   if every weight of the table is >= 1 (params_ok_now: true of the four real tables), the targets
   sum to min(max, number of candidates); the unbounded "find start" loop of the C++ stays inside
   the 4-element arrays. *)
From Coq Require Import List NArith ZArith Bool Arith Lia.
From LTV.C11 Require Import Model.
Import ListNotations.
Local Open Scope N_scope.

Definition nf (a s w : N) : N := if a <? s then w else 0.

Ltac nbool :=
  repeat match goal with
  | H : (_ || _) = true |- _ => apply orb_true_iff in H
  | H : (_ || _) = false |- _ => apply orb_false_iff in H; destruct H
  | H : (_ <=? _) = true |- _ => apply N.leb_le in H
  | H : (_ <=? _) = false |- _ => apply N.leb_gt in H
  | H : (_ <? _) = true |- _ => apply N.ltb_lt in H
  | H : (_ <? _) = false |- _ => apply N.ltb_ge in H
  | H : (_ =? _) = true |- _ => apply N.eqb_eq in H
  | H : (_ =? _) = false |- _ => apply N.eqb_neq in H
  end.

(* one class of the "equal share" pass *)
Definition cstep (base w s : N) (st : N * N * N) : N * N * N :=
  let '(a, un, wt) := st in
  if (w =? 0) || (s <=? a) then st
  else let u := N.min (s - a) (base * w) in
       (a + u, un - u, if s <=? a + u then wt - w else wt).

Lemma cstep_spec base w s a un wt B a' un' wt' :
  a <= s -> nf a s w <= wt -> base * nf a s w + B <= un ->
  cstep base w s (a, un, wt) = (a', un', wt') ->
  a <= a' /\ a' <= s /\ B <= un' /\ a' + un' = a + un /\ wt' + nf a s w = wt + nf a' s w.
Proof.
  unfold cstep, nf. intros L W Hb.
  destruct ((w =? 0) || (s <=? a)) eqn:E.
  - intros HH; injection HH as <- <- <-. nbool. destruct (a <? s) eqn:E2; nbool; repeat split; lia.
  - nbool. destruct (a <? s) eqn:E2; nbool; [|lia].
    destruct (N.min_spec (s - a) (base * w)) as [[M1 M]|[M1 M]]; rewrite M;
    intros HH; injection HH as <- <- <-.
    + replace (a + (s - a)) with s by lia. rewrite N.leb_refl, N.ltb_irrefl. repeat split; lia.
    + destruct (s <=? a + base * w) eqn:E3; destruct (a + base * w <? s) eqn:E4; nbool; repeat split; lia.
Qed.

Definition AInv (ws ss : list N) (mx : N) (st : list N * N * N) : Prop :=
  match ws, ss, st with
  | [w0; w1; w2; w3], [s0; s1; s2; s3], ([a0; a1; a2; a3], un, wt) =>
      a0 <= s0 /\ a1 <= s1 /\ a2 <= s2 /\ a3 <= s3 /\
      wt = nf a0 s0 w0 + nf a1 s1 w1 + nf a2 s2 w2 + nf a3 s3 w3 /\
      a0 + a1 + a2 + a3 + un = mx
  | _, _, _ => False
  end.

Section Alloc.
Variables w0 w1 w2 w3 s0 s1 s2 s3 mx : N.
Let ws := [w0; w1; w2; w3].
Let ss := [s0; s1; s2; s3].

Lemma share_pass_eq a0 a1 a2 a3 un wt base :
  share_pass 4 0 base ws ss ([a0; a1; a2; a3], un, wt) =
  let '(b0, u0, t0) := cstep base w0 s0 (a0, un, wt) in
  let '(b1, u1, t1) := cstep base w1 s1 (a1, u0, t0) in
  let '(b2, u2, t2) := cstep base w2 s2 (a2, u1, t1) in
  let '(b3, u3, t3) := cstep base w3 s3 (a3, u2, t2) in
  ([b0; b1; b2; b3], u3, t3).
Proof.
  unfold cstep. cbn [share_pass nthN nth setN upd ws ss].
  destruct ((w0 =? 0) || (s0 <=? a0)); cbn [nthN nth setN upd];
  destruct ((w1 =? 0) || (s1 <=? a1)); cbn [nthN nth setN upd];
  destruct ((w2 =? 0) || (s2 <=? a2)); cbn [nthN nth setN upd];
  destruct ((w3 =? 0) || (s3 <=? a3)); cbn [nthN nth setN upd]; reflexivity.
Qed.

Lemma share_pass_inv a0 a1 a2 a3 un wt base :
  AInv ws ss mx ([a0; a1; a2; a3], un, wt) -> base * wt <= un ->
  AInv ws ss mx (share_pass 4 0 base ws ss ([a0; a1; a2; a3], un, wt)).
Proof.
  intros (L0 & L1 & L2 & L3 & Ewt & Esum) Hb. rewrite share_pass_eq.
  subst wt. rewrite !N.mul_add_distr_l in Hb.
  destruct (cstep base w0 s0 (a0, un, _)) as [[b0 u0] t0] eqn:C0.
  eapply (cstep_spec _ _ _ _ _ _ (base * nf a1 s1 w1 + base * nf a2 s2 w2 + base * nf a3 s3 w3)) in C0; [|lia|lia|lia].
  destruct C0 as (A0 & A0' & B0 & S0 & W0).
  destruct (cstep base w1 s1 (a1, u0, t0)) as [[b1 u1] t1] eqn:C1.
  eapply (cstep_spec _ _ _ _ _ _ (base * nf a2 s2 w2 + base * nf a3 s3 w3)) in C1; [|lia|lia|lia].
  destruct C1 as (A1 & A1' & B1 & S1 & W1).
  destruct (cstep base w2 s2 (a2, u1, t1)) as [[b2 u2] t2] eqn:C2.
  eapply (cstep_spec _ _ _ _ _ _ (base * nf a3 s3 w3)) in C2; [|lia|lia|lia].
  destruct C2 as (A2 & A2' & B2 & S2 & W2).
  destruct (cstep base w3 s3 (a3, u2, t2)) as [[b3 u3] t3] eqn:C3.
  eapply (cstep_spec _ _ _ _ _ _ 0) in C3; [|lia|lia|lia].
  destruct C3 as (A3 & A3' & B3 & S3 & W3).
  cbn [AInv]. repeat split; lia.
Qed.

Lemma share_loop_inv : forall fuel st st', AInv ws ss mx st -> share_loop fuel ws ss st = Ok st' -> AInv ws ss mx st'.
Proof.
  induction fuel; intros [[tg un] wt] st' I; cbn [share_loop].
  - destruct ((wt =? 0) || (un / wt =? 0)); [intros HH; injection HH as <-; auto|discriminate].
  - destruct ((wt =? 0) || (un / wt =? 0)) eqn:E; [intros HH; injection HH as <-; auto|]. nbool.
    destruct tg as [|a0 [|a1 [|a2 [|a3 [|]]]]]; try (unfold ws, ss in I; cbn [AInv] in I; tauto).
    apply IHfuel. apply share_pass_inv; auto. rewrite N.mul_comm. apply N.mul_div_le. auto.
Qed.

(* one iteration of the remainder loop on class (w, s) *)
Lemma rem_step_spec w s a un wt start :
  a <= s -> nf a s w <= wt ->
  let u := N.min un (N.min (s - a) (w - start)) in
  a < s -> a + u <= s /\ u <= un /\ (if s <=? a + u then wt - w else wt) + nf a s w = wt + nf (a + u) s w.
Proof.
  intros L W u Lt.
  assert (U1 : u <= un) by apply N.le_min_l.
  assert (U2 : u <= s - a) by (etransitivity; [apply N.le_min_r|apply N.le_min_l]).
  clearbody u. unfold nf in *.
  destruct (a <? s) eqn:E1; destruct (s <=? a + u) eqn:E2; destruct (a + u <? s) eqn:E3; nbool; repeat split; lia.
Qed.

Lemma rem_loop_inv : forall fuel i start st tg', (i < 4)%nat -> AInv ws ss mx st ->
  rem_loop fuel i start ws ss st = Ok tg' -> exists un' wt', AInv ws ss mx (tg', un', wt') /\ (wt' = 0 \/ un' = 0).
Proof.
  induction fuel; intros i start [[tg un] wt] tg' Hi I; cbn [rem_loop].
  - destruct ((wt =? 0) || (un =? 0)) eqn:E; [|discriminate]. intros HH; injection HH as <-. exists un, wt. split; auto. nbool. destruct E; nbool; auto.
  - destruct ((wt =? 0) || (un =? 0)) eqn:E.
    { intros HH; injection HH as <-. exists un, wt. split; auto. nbool. destruct E; nbool; auto. }
    destruct tg as [|a0 [|a1 [|a2 [|a3 [|]]]]]; try (unfold ws, ss in I; cbn [AInv] in I; tauto).
    destruct I as (L0 & L1 & L2 & L3 & Ewt & Esum).
    assert (Hn : (Nat.modulo (S i) 4 < 4)%nat) by (apply Nat.mod_upper_bound; lia).
    destruct i as [|[|[|[|i]]]]; try lia; cbn [nthN nth setN upd ws ss];
    match goal with |- context [if (?w =? 0) || (?s <=? ?a) then _ else _] => destruct ((w =? 0) || (s <=? a)) eqn:E2 end;
    [ apply IHfuel; [exact Hn|unfold ws, ss; cbn [AInv]; repeat split; assumption]
    | nbool;
      match goal with |- context [N.min un (N.min (?s - ?a) (?w - start))] =>
        let X := fresh "X" in
        assert (X := rem_step_spec w s a un wt start ltac:(lia) ltac:(unfold nf in *; destruct (a <? s); lia) ltac:(lia));
        cbv zeta in X; destruct X as (X1 & X2 & X3) end;
      apply IHfuel; [exact Hn|unfold ws, ss; cbn [AInv]; repeat split; lia]
    | apply IHfuel; [exact Hn|unfold ws, ss; cbn [AInv]; repeat split; assumption]
    | nbool;
      match goal with |- context [N.min un (N.min (?s - ?a) (?w - start))] =>
        let X := fresh "X" in
        assert (X := rem_step_spec w s a un wt start ltac:(lia) ltac:(unfold nf in *; destruct (a <? s); lia) ltac:(lia));
        cbv zeta in X; destruct X as (X1 & X2 & X3) end;
      apply IHfuel; [exact Hn|unfold ws, ss; cbn [AInv]; repeat split; lia]
    | apply IHfuel; [exact Hn|unfold ws, ss; cbn [AInv]; repeat split; assumption]
    | nbool;
      match goal with |- context [N.min un (N.min (?s - ?a) (?w - start))] =>
        let X := fresh "X" in
        assert (X := rem_step_spec w s a un wt start ltac:(lia) ltac:(unfold nf in *; destruct (a <? s); lia) ltac:(lia));
        cbv zeta in X; destruct X as (X1 & X2 & X3) end;
      apply IHfuel; [exact Hn|unfold ws, ss; cbn [AInv]; repeat split; lia]
    | apply IHfuel; [exact Hn|unfold ws, ss; cbn [AInv]; repeat split; assumption]
    | nbool;
      match goal with |- context [N.min un (N.min (?s - ?a) (?w - start))] =>
        let X := fresh "X" in
        assert (X := rem_step_spec w s a un wt start ltac:(lia) ltac:(unfold nf in *; destruct (a <? s); lia) ltac:(lia));
        cbv zeta in X; destruct X as (X1 & X2 & X3) end;
      apply IHfuel; [exact Hn|unfold ws, ss; cbn [AInv]; repeat split; lia] ].
Qed.

Lemma find_start_spec a0 a1 a2 a3 un wt r :
  AInv ws ss mx ([a0; a1; a2; a3], un, wt) -> r < wt ->
  exists i st, find_start 4 0 r ws ss [a0; a1; a2; a3] = Ok (i, st) /\ (i < 4)%nat.
Proof.
  intros (L0 & L1 & L2 & L3 & Ewt & Esum) Hr. unfold nf in Ewt.
  cbn [find_start nthN nth ws ss].
  repeat match goal with
  | |- context [if (?w =? 0) || (?s <=? ?a) then _ else _] => let E := fresh "E" in destruct ((w =? 0) || (s <=? a)) eqn:E
  | |- context [if ?x <? ?w then _ else _] => let E := fresh "E" in destruct (x <? w) eqn:E
  end; try (eexists; eexists; split; [reflexivity|lia]);
  exfalso; nbool;
  repeat match goal with H : _ \/ _ |- _ => destruct H end; nbool;
  repeat match goal with H : context [if ?b then _ else _] |- _ => let E := fresh "E" in destruct b eqn:E end; nbool; lia.
Qed.

Definition sum4 (l : list N) : N := nthN l 0 + nthN l 1 + nthN l 2 + nthN l 3.

(* allocate_slots_exact *)
Theorem allocate_slots_exact tg h h' :
  allocate_slots ws ss mx h = Ok (tg, h') ->
  length tg = 4%nat /\ (forall i, (i < 4)%nat -> nthN tg i <= nthN ss i) /\ sum4 tg <= mx /\
  (1 <= w0 -> 1 <= w1 -> 1 <= w2 -> 1 <= w3 -> sum4 tg = N.min mx (sum4 ss)).
Proof.
  unfold allocate_slots.
  assert (I0 : AInv ws ss mx ([0; 0; 0; 0], mx, wtotal0 ws ss)).
  { cbn [AInv ws ss]. unfold wtotal0, nf. cbn [map fold_left nthN nth ws ss].
    repeat split; try lia.
    repeat match goal with |- context [if ?b then _ else _] => let E := fresh "E" in destruct b eqn:E end; nbool; lia. }
  destruct (share_loop 16 ws ss _) as [[[tg1 un1] wt1]|] eqn:SL; [|discriminate].
  apply share_loop_inv in SL; auto.
  assert (Fin : forall tg2 un2 wt2, AInv ws ss mx (tg2, un2, wt2) -> (wt2 = 0 \/ un2 = 0) ->
     length tg2 = 4%nat /\ (forall i, (i < 4)%nat -> nthN tg2 i <= nthN ss i) /\ sum4 tg2 <= mx /\
     (1 <= w0 -> 1 <= w1 -> 1 <= w2 -> 1 <= w3 -> sum4 tg2 = N.min mx (sum4 ss))).
  { intros tg2 un2 wt2 I Z.
    destruct tg2 as [|a0 [|a1 [|a2 [|a3 [|]]]]]; try (unfold ws, ss in I; cbn [AInv] in I; tauto).
    destruct I as (L0 & L1 & L2 & L3 & Ewt & Esum). unfold sum4. cbn [nthN nth ss length].
    split; [reflexivity|]. split; [intros i Hi; destruct i as [|[|[|[|i]]]]; try lia; cbn [nthN nth]; lia|].
    split; [lia|]. intros W0 W1 W2 W3. unfold nf in Ewt.
    destruct Z as [Z|Z]; [|lia]. subst wt2.
    repeat match goal with H : context [if ?b then _ else _] |- _ => let E := fresh "E" in destruct b eqn:E end; nbool; lia. }
  destruct ((wt1 =? 0) || (un1 =? 0)) eqn:E.
  - intros HH; injection HH as <- _. apply (Fin _ _ _ SL). nbool. destruct E; nbool; auto.
  - unfold pop_rand. nbool.
    destruct tg1 as [|a0 [|a1 [|a2 [|a3 [|]]]]]; try (unfold ws, ss in SL; cbn [AInv] in SL; tauto).
    destruct (find_start_spec a0 a1 a2 a3 un1 wt1 (hd 0 (h_rs h) mod wt1) SL) as (i & st & FS & Hi).
    { apply N.mod_lt. auto. }
    rewrite FS. cbn [fst snd].
    destruct (rem_loop 256 i st ws ss _) as [tg2|] eqn:RL; [|discriminate].
    intros HH; injection HH as <- _.
    destruct (rem_loop_inv _ _ _ _ _ Hi SL RL) as (un2 & wt2 & I2 & Z2). apply (Fin _ _ _ I2 Z2).
Qed.

(* the C++ "find start" loop never leaves the arrays *)
Theorem allocate_slots_no_fault h : allocate_slots ws ss mx h <> Err EFault /\ allocate_slots ws ss mx h <> Err EInternal.
Proof.
  unfold allocate_slots.
  assert (I0 : AInv ws ss mx ([0; 0; 0; 0], mx, wtotal0 ws ss)).
  { cbn [AInv ws ss]. unfold wtotal0, nf. cbn [map fold_left nthN nth ws ss].
    repeat split; try lia.
    repeat match goal with |- context [if ?b then _ else _] => let E := fresh "E" in destruct b eqn:E end; nbool; lia. }
  assert (SLE : forall fuel st, share_loop fuel ws ss st <> Err EFault /\ share_loop fuel ws ss st <> Err EInternal).
  { induction fuel; intros [[tg un] wt]; cbn [share_loop]; destruct (_ || _); split; try discriminate; apply IHfuel. }
  assert (RLE : forall fuel i st0 st, rem_loop fuel i st0 ws ss st <> Err EFault /\ rem_loop fuel i st0 ws ss st <> Err EInternal).
  { induction fuel; intros i st0 [[tg un] wt]; cbn [rem_loop]; destruct (_ || _); try (split; discriminate).
    destruct (_ || _); apply IHfuel. }
  destruct (share_loop 16 ws ss _) as [[[tg1 un1] wt1]|e] eqn:SL.
  - apply share_loop_inv in SL; auto. destruct ((wt1 =? 0) || (un1 =? 0)) eqn:E; [split; discriminate|]. nbool.
    unfold pop_rand.
    destruct tg1 as [|a0 [|a1 [|a2 [|a3 [|]]]]]; try (unfold ws, ss in SL; cbn [AInv] in SL; tauto).
    destruct (find_start_spec a0 a1 a2 a3 un1 wt1 (hd 0 (h_rs h) mod wt1) SL) as (i & st & FS & Hi).
    { apply N.mod_lt. auto. }
    rewrite FS. cbn [fst snd]. destruct (rem_loop 256 i st ws ss _) as [tg2|e] eqn:RL; [split; discriminate|].
    destruct (RLE 256%nat i st ([a0; a1; a2; a3], un1, wt1)) as [A B]. rewrite RL in A, B. split; congruence.
  - destruct (SLE 16%nat ([0; 0; 0; 0], mx, wtotal0 ws ss)) as [A B]. rewrite SL in A, B. split; congruence.
Qed.
End Alloc.

Lemma table_shape (heur : nat) (choke : bool) :
  exists w0 w1 w2 w3, (if choke then choke_table heur else unchoke_table heur) = [w0; w1; w2; w3] /\
                      1 <= w0 /\ 1 <= w1 /\ 1 <= w2 /\ 1 <= w3.
Proof. destruct choke; destruct heur as [|[|[|k]]]; simpl; do 4 eexists; (split; [reflexivity|]); lia. Qed.

(* allocate_slots_exact over the real heuristics tables (tied to the source by params_ok_now) *)
Theorem allocate_slots_exact_real (heur : nat) (choke : bool) s0 s1 s2 s3 mx h tg h' :
  allocate_slots (if choke then choke_table heur else unchoke_table heur) [s0; s1; s2; s3] mx h = Ok (tg, h') ->
  length tg = 4%nat /\ (forall i, (i < 4)%nat -> nthN tg i <= nthN [s0; s1; s2; s3] i) /\
  sum4 tg = N.min mx (s0 + s1 + s2 + s3).
Proof. destruct (table_shape heur choke) as (w0 & w1 & w2 & w3 & -> & A & B & C & E). intros H.
  destruct (allocate_slots_exact w0 w1 w2 w3 s0 s1 s2 s3 mx tg h h' H) as (L & Bd & _ & Ex).
  split; [exact L|split; [exact Bd|]]. rewrite (Ex A B C E). unfold sum4. reflexivity. Qed.

Theorem allocate_slots_no_fault_real (heur : nat) (choke : bool) s0 s1 s2 s3 mx h :
  allocate_slots (if choke then choke_table heur else unchoke_table heur) [s0; s1; s2; s3] mx h <> Err EFault /\
  allocate_slots (if choke then choke_table heur else unchoke_table heur) [s0; s1; s2; s3] mx h <> Err EInternal.
Proof. destruct (table_shape heur choke) as (w0 & w1 & w2 & w3 & -> & _). apply allocate_slots_no_fault. Qed.

Example allocate_slots_exact_nonvacuous :
  exists tg h', allocate_slots (unchoke_table 0) [2; 5; 0; 3] 7 (empty_half 1 1 0) = Ok (tg, h') /\ sum4 tg = 7.
Proof. do 2 eexists. vm_compute. split; reflexivity. Qed.
