(* C11 proofs: choke_manager_allocate_slots over the real weight tables.
   allocate_slots_exact: whenever the allocation returns, target[i].first <= size of class i and
   the targets sum to min(max, number of candidates); the unbounded "find start" loop of the C++
   never runs past the 4-element arrays. *)
From Coq Require Import List NArith ZArith Bool Arith Lia.
From LTV.C11 Require Import Model.
Import ListNotations.
Local Open Scope N_scope.

Definition real_tables : list (list N) := [[1; 1; 1; 1]; [32; 1; 1; 1]; [1; 3; 6; 9]; [1; 6; 8; 16]].
Lemma tables_real : forall k, In (choke_table k) real_tables /\ In (unchoke_table k) real_tables.
Proof. intros k. destruct k as [|[|[|k]]]; simpl; auto 10. Qed.

Definition nf (a s w : N) : N := if a <? s then w else 0.
Definition AInv (ws ss : list N) (mx : N) (st : list N * N * N) : Prop :=
  match ws, ss, st with
  | [w0; w1; w2; w3], [s0; s1; s2; s3], ([a0; a1; a2; a3], un, wt) =>
      a0 <= s0 /\ a1 <= s1 /\ a2 <= s2 /\ a3 <= s3 /\
      wt = nf a0 s0 w0 + nf a1 s1 w1 + nf a2 s2 w2 + nf a3 s3 w3 /\
      a0 + a1 + a2 + a3 + un = mx
  | _, _, _ => False
  end.

Ltac split_ifs :=
  repeat match goal with
  | |- context [if ?b then _ else _] => let E := fresh "E" in destruct b eqn:E
  | H : context [if ?b then _ else _] |- _ => let E := fresh "E" in destruct b eqn:E
  end.
Ltac nbool :=
  repeat match goal with
  | H : (_ <=? _) = true |- _ => apply N.leb_le in H
  | H : (_ <=? _) = false |- _ => apply N.leb_gt in H
  | H : (_ <? _) = true |- _ => apply N.ltb_lt in H
  | H : (_ <? _) = false |- _ => apply N.ltb_ge in H
  | H : (_ =? _) = true |- _ => apply N.eqb_eq in H
  | H : (_ =? _) = false |- _ => apply N.eqb_neq in H
  end.

Section Table.
Variables w0 w1 w2 w3 : N.
Hypothesis Hw : In [w0; w1; w2; w3] real_tables.
Variables s0 s1 s2 s3 mx : N.
Let ws := [w0; w1; w2; w3].
Let ss := [s0; s1; s2; s3].

Lemma share_pass_inv a0 a1 a2 a3 un wt base :
  AInv ws ss mx ([a0; a1; a2; a3], un, wt) -> base * wt <= un ->
  AInv ws ss mx (share_pass 4 0 base ws ss ([a0; a1; a2; a3], un, wt)).
Proof.
  intros (L0 & L1 & L2 & L3 & Ewt & Esum) Hb. subst wt.
  unfold real_tables in Hw. simpl in Hw.
  destruct Hw as [E|[E|[E|[E|[]]]]]; injection E as <- <- <- <-;
  cbn [share_pass nthN nth setN upd ws ss]; unfold nf in *; cbn [N.eqb orb];
  repeat match goal with
  | |- context [N.min ?a ?b] => let M := fresh "M" in destruct (N.min_spec a b) as [[? M]|[? M]]; rewrite M
  | |- context [if ?b then _ else _] => let E := fresh "E" in destruct b eqn:E; cbn [share_pass nthN nth setN upd fst snd]
  end; cbn [AInv]; unfold nf; split_ifs; nbool; repeat split; try lia.
Qed.
End Table.
