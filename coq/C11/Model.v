(* C11 — executable model of choke_queue / group_entry / choke_status / the choke part of
   ResourceManager and of PeerConnectionBase::receive_{upload,download}_choke / cleanup.
   Definitions only (no proofs).  Shape F: the model computes exactly what the code computes;
   weights (rates, preferred flag, random()) are inputs.

   The upload and the download side are two independent "halves" with the same code
   (choke_queue is instantiated twice per choke_group); a half is parametrised by its direction
   (flag_unchoke_all_new, the extra logic in receive_download_choke) through [env].

   Counters are unbounded Z (DESIGN 3). ResourceManager::balance_unchoked follows the repaired code
   (commit 8c9c20f): quota -= std::min(quota, size_unchoked()). *)
From Coq Require Import List NArith ZArith Bool Arith.
Import ListNotations.
Local Open Scope N_scope.

Inductive dir := Up | Dn.
Definition dir_eqb (a b : dir) := match a, b with Up, Up | Dn, Dn => true | _, _ => false end.

Inductive err := EInternal | EFuel | EFault.
Inductive res (A : Type) := Ok (a : A) | Err (e : err).
Arguments Ok {A} a.
Arguments Err {A} e.
Notation "'do' x <- m ; f" := (match m with Ok x => f | Err e => Err e end)
  (at level 200, x pattern, m at level 100, f at level 200).

(* choke_status (+ liveness of the owning connection, + m_down_unchoked for the download side) *)
Record cstat := mkCS { cs_a : bool; cs_q : bool; cs_u : bool; cs_s : bool; cs_r : bool; cs_t : Z }.
Definition dcs := mkCS false false false false false 0%Z.
Definition set_a b s := mkCS b (cs_q s) (cs_u s) (cs_s s) (cs_r s) (cs_t s).
Definition set_q b s := mkCS (cs_a s) b (cs_u s) (cs_s s) (cs_r s) (cs_t s).
Definition set_u b s := mkCS (cs_a s) (cs_q s) b (cs_s s) (cs_r s) (cs_t s).
Definition set_s b s := mkCS (cs_a s) (cs_q s) (cs_u s) b (cs_r s) (cs_t s).
Definition set_r b s := mkCS (cs_a s) (cs_q s) (cs_u s) (cs_s s) b (cs_t s).
Definition set_t t s := mkCS (cs_a s) (cs_q s) (cs_u s) (cs_s s) (cs_r s) t.

Definition wl := list (nat * N).          (* std::vector<weighted_connection> *)
Record entry := mkEnt { e_max : N; e_min : N; e_q : wl; e_u : wl }.
Definition dent := mkEnt 0 0 [] [].
Record queue := mkQ { q_max : N; q_cq : Z; q_cu : Z; q_heur : nat; q_ents : list nat }.
Definition dq := mkQ 0 0 0 0 [].

Record half := mkH {
  h_cs : list cstat;     (* per connection: m_up_choke / m_down_choke *)
  h_ctor : list nat;     (* connection -> torrent *)
  h_ents : list entry;   (* per torrent: DownloadMain::m_{up,down}_group_entry *)
  h_tn : list Z;         (* per torrent: DownloadInfo::{upload,download}_unchoked *)
  h_tgrp : list nat;     (* torrent -> choke group *)
  h_qs : list queue;     (* per group: choke_group::m_{up,down}_queue *)
  h_cur : Z;             (* ResourceManager::m_currently{Upload,Download}Unchoked *)
  h_max : N;             (* ResourceManager::m_max{Upload,Download}Unchoked *)
  h_rs : list N }.       (* the values the next calls of random() return *)

Record cinfo := mkCI { ci_pref : bool; ci_drate : N; ci_urate : N }.
Definition dci := mkCI false 0 0.
(* v_hold: the hold-off (microseconds) after the last choke-state change before a connection may be
   unchoked outside the regular cycle, in set_queued (fst) and in set_not_snubbed (snd). The property
   does not fix these constants: they are probed from the compiled code (harness --params) and every
   theorem holds for all values. *)
Record env := mkEnv { v_dir : dir; v_now : Z; v_other : list cstat; v_ci : list cinfo; v_hold : Z * Z }.

Definition unlimited : N := 4294967295.
Definition ob : N := 1073741824.                 (* choke_queue::order_base *)
Definition two32 : N := 4294967296.
Definition w32 (x : N) := x mod two32.
Definition wsub32 (a b : N) := if b <=? a then a - b else a + two32 - b.
Definition int_max : Z := 2147483647%Z.

(* ---------------------------------------------------------------- list helpers *)
Fixpoint upd {A} (n : nat) (f : A -> A) (l : list A) : list A :=
  match l, n with
  | [], _ => []
  | x :: r, O => f x :: r
  | x :: r, S k => x :: upd k f r
  end.
Definition ids (l : wl) : list nat := map fst l.
Definition has (c : nat) (l : wl) : bool := existsb (fun p => Nat.eqb (fst p) c) l.
(* v.erase-by-swap: find the first element with key c, overwrite it with v.back(), v.pop_back()
   (group_entry::connection_choked / connection_unqueued, choke_queue::move_connections) *)
Fixpoint rswap {A} (k : A -> nat) (c : nat) (l : list A) : option (list A) :=
  match l with
  | [] => None
  | p :: r => if Nat.eqb (k p) c
              then Some (match r with [] => [] | _ => last r p :: removelast r end)
              else option_map (cons p) (rswap k c r)
  end.
Definition remove_swap (c : nat) (l : wl) : option wl := rswap fst c l.
Definition push (c : nat) (l : wl) : wl := l ++ [(c, 0)].
Definition lenN {A} (l : list A) : N := N.of_nat (length l).
Definition lenZ {A} (l : list A) : Z := Z.of_nat (length l).
Definition lastn {A} (k : nat) (l : list A) : list A := skipn (length l - k) l.

(* std::sort with choke_manager_less on at most 16 elements = libstdc++ insertion sort (stable) *)
Fixpoint ins (x : nat * N) (l : wl) : wl :=
  match l with
  | [] => [x]
  | y :: r => if snd x <? snd y then x :: y :: r else y :: ins x r
  end.
Definition isort (l : wl) : wl := fold_left (fun acc x => ins x acc) l [].

(* ---------------------------------------------------------------- state access *)
Definition getcs (h : half) c := nth c (h_cs h) dcs.
Definition tor_of (h : half) c := nth c (h_ctor h) O.
Definition getent (h : half) t := nth t (h_ents h) dent.
Definition grp_of (h : half) t := nth t (h_tgrp h) O.
Definition getq (h : half) g := nth g (h_qs h) dq.
Definition gettn (h : half) t := nth t (h_tn h) 0%Z.

Definition with_cs (h : half) x := mkH x (h_ctor h) (h_ents h) (h_tn h) (h_tgrp h) (h_qs h) (h_cur h) (h_max h) (h_rs h).
Definition with_ents (h : half) x := mkH (h_cs h) (h_ctor h) x (h_tn h) (h_tgrp h) (h_qs h) (h_cur h) (h_max h) (h_rs h).
Definition with_tn (h : half) x := mkH (h_cs h) (h_ctor h) (h_ents h) x (h_tgrp h) (h_qs h) (h_cur h) (h_max h) (h_rs h).
Definition with_tgrp (h : half) x := mkH (h_cs h) (h_ctor h) (h_ents h) (h_tn h) x (h_qs h) (h_cur h) (h_max h) (h_rs h).
Definition with_qs (h : half) x := mkH (h_cs h) (h_ctor h) (h_ents h) (h_tn h) (h_tgrp h) x (h_cur h) (h_max h) (h_rs h).
Definition with_cur (h : half) x := mkH (h_cs h) (h_ctor h) (h_ents h) (h_tn h) (h_tgrp h) (h_qs h) x (h_max h) (h_rs h).
Definition with_max (h : half) x := mkH (h_cs h) (h_ctor h) (h_ents h) (h_tn h) (h_tgrp h) (h_qs h) (h_cur h) x (h_rs h).
Definition with_rs (h : half) x := mkH (h_cs h) (h_ctor h) (h_ents h) (h_tn h) (h_tgrp h) (h_qs h) (h_cur h) (h_max h) x.

Definition updcs c f h := with_cs h (upd c f (h_cs h)).
Definition upde t f h := with_ents h (upd t f (h_ents h)).
Definition updtn t (d : Z) h := with_tn h (upd t (fun x => (x + d)%Z) (h_tn h)).
Definition updq g f h := with_qs h (upd g f (h_qs h)).
Definition q_add (dq du : Z) (q : queue) := mkQ (q_max q) (q_cq q + dq)%Z (q_cu q + du)%Z (q_heur q) (q_ents q).
Definition e_setq x (e : entry) := mkEnt (e_max e) (e_min e) x (e_u e).
Definition e_setu x (e : entry) := mkEnt (e_max e) (e_min e) (e_q e) x.

(* ---------------------------------------------------------------- weights (inputs) *)
Definition cs_of (l : list cstat) c := nth c l dcs.
Definition up_cs v h := match v_dir v with Up => h_cs h | Dn => v_other v end.
Definition dn_cs v h := match v_dir v with Dn => h_cs h | Up => v_other v end.

(* calculate_upload_choke / _seed / calculate_choke_upload_leech_experimental / calculate_download_choke *)
Definition wchoke (v : env) (h : half) (heur : nat) (c : nat) : N :=
  let ci := nth c (v_ci v) dci in
  match heur with
  | 1%nat => wsub32 (ob - 1) (w32 (ci_urate ci / 16))
  | 2%nat => if (cs_t (cs_of (up_cs v h) c) + 50000000 >? v_now v)%Z then ob
             else let m := if ci_pref ci then 4 else 1 in
                  wsub32 (ob - 1) (w32 ((w32 (ci_drate ci / 64) + w32 (ci_urate ci / 256)) * m))
  | _ => wsub32 (ob - 1) (w32 (ci_drate ci / 16))
  end.

(* calculate_upload_unchoke / _seed / calculate_unchoke_upload_leech_experimental /
   calculate_download_unchoke; [r] is what random() returns if it is called (second component). *)
Definition wunchoke (v : env) (h : half) (heur : nat) (c : nat) (r : N) : N * bool :=
  let ci := nth c (v_ci v) dci in
  let dloc := cs_u (cs_of (dn_cs v h) c) in
  match heur with
  | 0%nat => if dloc then let dr := w32 (ci_drate ci / 16) in
                          ((if dr <? 128 then dr else w32 (3 * ob + dr)), false)
             else ((if ci_pref ci then 2 else 1) * ob + r mod 1024, true)
  | 1%nat => ((if ci_pref ci then ob else 0) + r mod 1024, true)
  | 2%nat => if dloc then let m := if ci_pref ci then 4 else 1 in
                          (w32 (ob + w32 (w32 (ci_drate ci / 64) * m)), false)
             else (r mod (if ci_pref ci then 4096 else 1024), true)
  | _ => (w32 (ci_drate ci / 16), false)
  end.

(* choke_queue::m_heuristics_list[..].{choke_weight,unchoke_weight}; checked against the source
   by params_ok_now (gen/params_c11.py) *)
Definition choke_table (heur : nat) : list N :=
  match heur with 2%nat => [32; 1; 1; 1] | _ => [1; 1; 1; 1] end.
Definition unchoke_table (heur : nat) : list N :=
  match heur with 0%nat | 1%nat => [1; 3; 6; 9] | 2%nat => [1; 6; 8; 16] | _ => [1; 1; 1; 1] end.

Definition pop_rand (h : half) : N * half := (hd 0 (h_rs h), with_rs h (tl (h_rs h))).

Fixpoint reweigh_q (v : env) (h : half) (heur : nat) (l : wl) (rs : list N) : wl * list N :=
  match l with
  | [] => ([], rs)
  | (c, _) :: t =>
      let '(w, used) := wunchoke v h heur c (hd 0 rs) in
      let '(t', rs') := reweigh_q v h heur t (if used then tl rs else rs) in
      ((c, w) :: t', rs')
  end.

(* slot_choke_weight + sort on unchoked, slot_unchoke_weight + sort on queued *)
Definition prepare_entry (v : env) (heur : nat) (t : nat) (h : half) : half :=
  let e := getent h t in
  let u' := isort (map (fun p => (fst p, wchoke v h heur (fst p))) (e_u e)) in
  let '(q', rs') := reweigh_q v h heur (e_q e) (h_rs h) in
  with_rs (upde t (fun e0 => mkEnt (e_max e0) (e_min e0) (isort q') u') h) rs'.

(* ---------------------------------------------------------------- ResourceManager slots *)
(* receive_{upload,download}_unchoke(num) *)
Definition recv_unchoke (num : Z) (h : half) : res half :=
  if (h_cur h + num <? 0)%Z then Err EInternal else Ok (with_cur h (h_cur h + num)%Z).
(* retrieve_{upload,download}_can_unchoke *)
Definition can_unchoke (h : half) : Z :=
  if h_max h =? 0 then int_max else (Z.of_N (h_max h) - h_cur h)%Z.

(* ---------------------------------------------------------------- the connection slot *)
(* choke_queue::set_not_queued as re-entered from receive_download_choke(true): at that point
   base->unchoked() is false, so the branch that calls the slot again cannot be taken. *)
Definition set_not_queued_inner (c : nat) (h : half) : res half :=
  let s := getcs h c in
  if negb (cs_q s) then Ok h else
  let h1 := updcs c (set_q false) h in
  if cs_s s then Ok h1 else
  let t := tor_of h c in
  match remove_swap c (e_q (getent h1 t)) with
  | None => Err EInternal
  | Some q' => Ok (updq (grp_of h t) (q_add (-1) 0) (upde t (e_setq q') h1))
  end.

(* PeerConnectionBase::receive_upload_choke / receive_download_choke. Result: new state and the
   bool the slot returns. *)
Definition slot (v : env) (c : nat) (choke : bool) (h : half) : res (half * bool) :=
  let s := getcs h c in
  if Bool.eqb choke (negb (cs_u s)) then Err EInternal else
  let t := tor_of h c in
  let g := grp_of h t in
  let e := getent h t in
  let h1 := updcs c (fun s0 => set_t (v_now v) (set_u (negb choke) s0)) h in
  if choke then
    match remove_swap c (e_u e) with
    | None => Err EInternal
    | Some u' =>
      if has c (e_q e) then Err EInternal else
      let h2 := updq g (q_add 1 (-1)) (upde t (fun e0 => mkEnt (e_max e0) (e_min e0) (push c (e_q e)) u') (updtn t (-1) h1)) in
      match v_dir v with
      | Dn => if cs_r s then Ok (h2, true) else do h3 <- set_not_queued_inner c h2; Ok (h3, false)
      | Up => Ok (h2, true)
      end
    end
  else
    match remove_swap c (e_q e) with
    | None => Err EInternal
    | Some q' =>
      if has c (e_u e) then Err EInternal else
      Ok (updq g (q_add (-1) 1) (upde t (fun e0 => mkEnt (e_max e0) (e_min e0) q' (push c (e_u e))) (updtn t 1 h1)), true)
    end.

(* ---------------------------------------------------------------- choke_queue: per-connection ops *)
Definition is_full (q : queue) : bool := negb (q_max q =? unlimited) && (Z.of_N (q_max q) <=? q_cu q)%Z.
Definition all_new (v : env) : bool := match v_dir v with Dn => true | Up => false end.
(* PeerConnectionBase::should_connection_unchoke (the queue is always the torrent's own) *)
Definition should_unchoke (h : half) (t : nat) : bool := (gettn h t <? Z.of_N (e_max (getent h t)))%Z.

Definition try_unchoke_new (v : env) (hold : Z) (c : nat) (h : half) : res half :=
  let t := tor_of h c in
  let g := grp_of h t in
  if negb (is_full (getq h g)) && (all_new v || (0 <? can_unchoke h)%Z) && should_unchoke h t
     && (cs_t (getcs h c) + hold <? v_now v)%Z
  then do r <- slot v c false h; recv_unchoke 1 (fst r)
  else Ok h.

Definition connection_queued (c : nat) (h : half) : res half :=
  let t := tor_of h c in
  if has c (e_q (getent h t)) then Err EInternal
  else Ok (updq (grp_of h t) (q_add 1 0) (upde t (fun e => e_setq (push c (e_q e)) e) h)).
Definition connection_unqueued (c : nat) (h : half) : res half :=
  let t := tor_of h c in
  match remove_swap c (e_q (getent h t)) with
  | None => Err EInternal
  | Some q' => Ok (updq (grp_of h t) (q_add (-1) 0) (upde t (e_setq q') h))
  end.

Definition set_queued (v : env) (c : nat) (h : half) : res half :=
  let s := getcs h c in
  if cs_q s || cs_u s then Ok h else
  let h1 := updcs c (set_q true) h in
  if cs_s s then Ok h1 else
  do h2 <- connection_queued c h1; try_unchoke_new v (fst (v_hold v)) c h2.

Definition set_not_queued (v : env) (c : nat) (h : half) : res half :=
  let s := getcs h c in
  if negb (cs_q s) then Ok h else
  let h1 := updcs c (set_q false) h in
  if cs_s s then Ok h1 else
  do h2 <- (if cs_u s then do r <- slot v c true h1; recv_unchoke (-1) (fst r) else Ok h1);
  connection_unqueued c h2.

Definition set_snubbed (v : env) (c : nat) (h : half) : res half :=
  let s := getcs h c in
  if cs_s s then Ok h else
  let h1 := updcs c (set_s true) h in
  if cs_u s then
    do r <- slot v c true h1; do h2 <- recv_unchoke (-1) (fst r);
    connection_unqueued c h2
  else if negb (cs_q s) then Ok h1
  (* the queued flag is kept (repaired code, commit d278df5): it records the peer's interest *)
  else connection_unqueued c h1.

Definition set_not_snubbed (v : env) (c : nat) (h : half) : res half :=
  let s := getcs h c in
  if negb (cs_s s) then Ok h else
  let h1 := updcs c (set_s false) h in
  if negb (cs_q s) then Ok h1 else
  if cs_u s then Err EInternal else
  do h2 <- connection_queued c h1; try_unchoke_new v (snd (v_hold v)) c h2.

(* PeerConnectionBase::cleanup (the two counter lines) + choke_queue::disconnected *)
Definition close_half (c : nat) (h : half) : res half :=
  let s := getcs h c in
  let t := tor_of h c in
  let h0 := updtn t (if cs_u s then (-1)%Z else 0%Z) h in
  do h1 <- (if cs_s s then Ok h0
            else if cs_u s then
              do h' <- recv_unchoke (-1) h0;
              match remove_swap c (e_u (getent h' t)) with
              | None => Err EInternal
              | Some u' => Ok (updq (grp_of h' t) (q_add 0 (-1)) (upde t (e_setu u') h'))
              end
            else if cs_q s then connection_unqueued c h0
            else Ok h0);
  Ok (updcs c (fun s0 => set_a false (set_q false s0)) h1).

(* ---------------------------------------------------------------- weighted slot allocation *)
(* first index >= from whose weight exceeds the class bound (std::find_if in allocate_slots) *)
Fixpoint seg_end (bound : N) (l : wl) (from : nat) : nat :=
  match l with
  | [] => from
  | p :: r => if bound <? snd p then from else seg_end bound r (S from)
  end.
Definition bounds (range : wl) : list nat :=   (* target[0..4].second as indices *)
  let b0 := O in
  let b1 := seg_end (0 * ob + (ob - 1)) (skipn b0 range) b0 in
  let b2 := seg_end (1 * ob + (ob - 1)) (skipn b1 range) b1 in
  let b3 := seg_end (2 * ob + (ob - 1)) (skipn b2 range) b2 in
  let b4 := seg_end (3 * ob + (ob - 1)) (skipn b3 range) b3 in
  [b0; b1; b2; b3; b4].
Definition sizes (bs : list nat) : list N :=
  match bs with
  | [b0; b1; b2; b3; b4] => [N.of_nat (b1 - b0); N.of_nat (b2 - b1); N.of_nat (b3 - b2); N.of_nat (b4 - b3)]
  | _ => [0; 0; 0; 0]
  end.
Definition nthN (l : list N) (i : nat) := nth i l 0.
Definition setN (l : list N) (i : nat) (x : N) := upd i (fun _ => x) l.

(* one pass of the inner for of the "equal share" while loop *)
Fixpoint share_pass (n : nat) (i : nat) (base : N) (ws ss : list N) (st : list N * N * N) : list N * N * N :=
  match n with
  | O => st
  | S n' =>
    let '(tg, unchoke, wt) := st in
    let s := nthN ss i in
    let st' :=
      if (nthN ws i =? 0) || (s <=? nthN tg i) then st
      else let u := N.min (s - nthN tg i) (base * nthN ws i) in
           let tg' := setN tg i (nthN tg i + u) in
           (tg', unchoke - u, if s <=? nthN tg' i then wt - nthN ws i else wt) in
    share_pass n' (S i) base ws ss st'
  end.
Fixpoint share_loop (fuel : nat) (ws ss : list N) (st : list N * N * N) : res (list N * N * N) :=
  let '(tg, unchoke, wt) := st in
  if (wt =? 0) || (unchoke / wt =? 0) then Ok st else
  match fuel with
  | O => Err EFuel
  | S f => share_loop f ws ss (share_pass 4 0 (unchoke / wt) ws ss st)
  end.
(* for ( ; ; itr++) { if (weights[itr] == 0 || full) continue; if (start < weights[itr]) break; start -= weights[itr]; } *)
Fixpoint find_start (fuel : nat) (i : nat) (start : N) (ws ss tg : list N) : res (nat * N) :=
  match fuel with
  | O => Err EFault     (* the C++ loop would index past the 4-element arrays *)
  | S f =>
    if (nthN ws i =? 0) || (nthN ss i <=? nthN tg i) then find_start f (S i) start ws ss tg
    else if start <? nthN ws i then Ok (i, start)
    else find_start f (S i) (start - nthN ws i) ws ss tg
  end.
Fixpoint rem_loop (fuel : nat) (i : nat) (start : N) (ws ss : list N) (st : list N * N * N) : res (list N) :=
  let '(tg, unchoke, wt) := st in
  if (wt =? 0) || (unchoke =? 0) then Ok tg else
  match fuel with
  | O => Err EFuel
  | S f =>
    let s := nthN ss i in
    let nxt := Nat.modulo (S i) 4 in
    if (nthN ws i =? 0) || (s <=? nthN tg i) then rem_loop f nxt start ws ss st
    else let u := N.min unchoke (N.min (s - nthN tg i) (nthN ws i - start)) in
         let tg' := setN tg i (nthN tg i + u) in
         rem_loop f nxt 0 ws ss (tg', unchoke - u, if s <=? nthN tg' i then wt - nthN ws i else wt)
  end.
Definition wtotal0 (ws ss : list N) : N :=
  fold_left N.add (map (fun i => if nthN ss i =? 0 then 0 else nthN ws i) [0; 1; 2; 3]%nat) 0.

(* choke_manager_allocate_slots: returns target[0..3].first; consumes at most one random() *)
Definition allocate_slots (ws ss : list N) (max : N) (h : half) : res (list N * half) :=
  do st <- share_loop 16 ws ss ([0; 0; 0; 0], max, wtotal0 ws ss);
  let '(tg, unchoke, wt) := st in
  if (wt =? 0) || (unchoke =? 0) then Ok (tg, h) else
  let '(r, h') := pop_rand h in
  do is <- find_start 4 0 (r mod wt) ws ss tg;
  do tg' <- rem_loop 256 (fst is) (snd is) ws ss st;
  Ok (tg', h').

(* the slot calls of one order class: elements [hi - n, hi) of the range, from the back *)
Fixpoint slot_list (v : env) (choke : bool) (l : list nat) (h : half) : res half :=
  match l with
  | [] => Ok h
  | c :: r => do x <- slot v c choke h; slot_list v choke r (fst x)
  end.

(* choke_queue::adjust_choke_range on [range] (a prefix of the local source container);
   the local containers only matter through their sizes, which the callers track. *)
Definition adjust_choke_range (v : env) (heur : nat) (range : wl) (max : N) (choke : bool) (h : half) : res (half * N) :=
  let bs := bounds range in
  let ss := sizes bs in
  do a <- allocate_slots (if choke then choke_table heur else unchoke_table heur) ss max h;
  let '(tg, h0) := a in
  let class (i : nat) (hh : half) : res half :=
      if nthN ss i <? nthN tg i then Err EInternal else
      let hi := nth (S i) bs O in
      let n := N.to_nat (nthN tg i) in
      slot_list v choke (rev (ids (firstn n (skipn (hi - n) range)))) hh in
  do h3 <- class 3%nat h0; do h2 <- class 2%nat h3; do h1 <- class 1%nat h2; do h' <- class 0%nat h1;
  let count := nthN tg 0 + nthN tg 1 + nthN tg 2 + nthN tg 3 in
  if max <? count then Err EInternal else Ok (h', count).

(* ---------------------------------------------------------------- prepare / retrieve *)
Definition prepare_weights (v : env) (g : nat) (h : half) : half :=
  fold_left (fun hh t => prepare_entry v (q_heur (getq hh g)) t hh) (q_ents (getq h g)) h.

Fixpoint fill_min (fuel : nat) (v : env) (t : nat) (min_slots : N) (h : half) (count : N) : res (half * N) :=
  let e := getent h t in
  match fuel with
  | O => Err EFuel
  | S f =>
    match e_q e with
    | [] => Ok (h, count)
    | _ => if lenN (e_u e) <? min_slots
           then do r <- slot v (fst (last (e_q e) (O, 0))) false h;
                fill_min f v t min_slots (fst r) (count + (if snd r then 1 else 0))
           else Ok (h, count)
    end
  end.

Record gstats := mkGS { gs_changed : N; gs_now : N }.

(* one iteration of the loop of choke_queue::retrieve_connections *)
Definition retrieve_entry (v : env) (t : nat) (acc : half * gstats * wl * wl) : res (half * gstats * wl * wl) :=
  let '(h, gs, queued, unchoked) := acc in
  let e := getent h t in
  let min_slots := N.min (e_min e) (e_max e) in
  do x <- (if lenN (e_u e) <? min_slots then
             do r <- fill_min (S (length (e_q e))) v t min_slots h 0;
             let '(h', count) := r in
             Ok (h', mkGS (gs_changed gs + count) (gs_now gs + lenN (e_u (getent h' t))), unchoked)
           else Ok (h, mkGS (gs_changed gs) (gs_now gs + min_slots), unchoked ++ skipn (N.to_nat min_slots) (e_u e)));
  let '(h1, gs1, unchoked1) := x in
  let e1 := getent h1 t in
  let queued1 := if lenN (e_u e1) <? e_max e1
                 then queued ++ lastn (N.to_nat (N.min (lenN (e_q e1)) (e_max e1 - lenN (e_u e1)))) (e_q e1)
                 else queued in
  Ok (h1, gs1, queued1, unchoked1).

Fixpoint retrieve_connections (v : env) (ts : list nat) (acc : half * gstats * wl * wl) : res (half * gstats * wl * wl) :=
  match ts with
  | [] => Ok acc
  | t :: r => do acc' <- retrieve_entry v t acc; retrieve_connections v r acc'
  end.

Definition sum_u (h : half) (ts : list nat) : Z := fold_left (fun a t => (a + lenZ (e_u (getent h t)))%Z) ts 0%Z.
Definition sum_q (h : half) (ts : list nat) : Z := fold_left (fun a t => (a + lenZ (e_q (getent h t)))%Z) ts 0%Z.

(* ---------------------------------------------------------------- balance / balance_entry / cycle *)
Definition balance (v : env) (g : nat) (h : half) : res half :=
  let q := getq h g in
  if (q_cu q =? Z.of_N (q_max q))%Z then Ok h else
  let h1 := prepare_weights v g h in
  do r <- retrieve_connections v (q_ents q) (h1, mkGS 0 0, [], []);
  let '(h2, gs, queued, unchoked) := r in
  do h3 <- (if gs_changed gs =? 0 then Ok h2 else recv_unchoke (Z.of_N (gs_changed gs)) h2);
  let can := can_unchoke h3 in
  let max_unchoked := Z.of_N (N.min (q_max q) 1048576) in
  let adjust := Z.min (max_unchoked - Z.of_N (lenN unchoked + gs_now gs)) can in
  do x <- (if (0 <? adjust)%Z then
             do a <- adjust_choke_range v (q_heur q) queued (Z.to_N adjust) false h3; Ok (fst a, Z.of_N (snd a))
           else if (adjust <? 0)%Z then
             do a <- adjust_choke_range v (q_heur q) unchoked (Z.to_N (- adjust)) true h3; Ok (fst a, (- Z.of_N (snd a))%Z)
           else Ok (h3, 0%Z));
  if (snd x =? 0)%Z then Ok (fst x) else recv_unchoke (snd x) (fst x).

Fixpoint choke_back (fuel : nat) (v : env) (t : nat) (h : half) (count : Z) : res (half * Z) :=
  let e := getent h t in
  match fuel with
  | O => Err EFuel
  | S f =>
    match e_u e with
    | [] => Ok (h, count)
    | _ => if e_max e <? lenN (e_u e)
           then do r <- slot v (fst (last (e_u e) (O, 0))) true h;
                choke_back f v t (fst r) (count - (if snd r then 1 else 0))%Z
           else Ok (h, count)
    end
  end.

Definition balance_entry (v : env) (t : nat) (h : half) : res half :=
  let g := grp_of h t in
  let h1 := prepare_entry v (q_heur (getq h g)) t h in
  let e := getent h1 t in
  let min_slots := N.min (e_min e) (e_max e) in
  do a <- choke_back (S (length (e_u e))) v t h1 0%Z;
  let '(h2, c1) := a in
  do b <- fill_min (S (length (e_q (getent h2 t)))) v t min_slots h2 0;
  let '(h3, c2) := b in
  recv_unchoke (c1 + Z.of_N c2) h3.

Definition max_alternate (q : queue) : N :=
  let cu := Z.to_N (q_cu q) in
  if cu <? 31 then (cu + 7) / 8 else (cu + 9) / 10.

(* choke_queue::cycle; returns the new state and the int it returns *)
Definition cycle (v : env) (g : nat) (quota0 : N) (h : half) : res (half * Z) :=
  let q := getq h g in
  let old_size := sum_u h (q_ents q) in
  let alternate := max_alternate q in
  let h1 := prepare_weights v g h in
  do r <- retrieve_connections v (q_ents q) (h1, mkGS 0 0, [], []);
  let '(h2, gs, queued, unchoked) := r in
  let quota1 := N.min quota0 (q_max q) in
  let quota := quota1 - N.min quota1 (gs_now gs) in
  let adjust0 := if lenN unchoked <? quota then quota - lenN unchoked else 0 in
  let adjust := N.min (N.max adjust0 alternate) quota in
  do a <- adjust_choke_range v (q_heur q) queued adjust false h2;
  let '(h3, unchoked_count) := a in
  let usz := lenN unchoked + unchoked_count in
  do b <- (if quota <? usz
           then do x <- adjust_choke_range v (q_heur q) unchoked (usz - quota) true h3; Ok (fst x, usz - snd x)
           else Ok (h3, usz));
  let '(h4, usz') := b in
  if quota <? usz' then Err EInternal else
  Ok (h4, (sum_u h4 (q_ents (getq h4 g)) - old_size)%Z).

(* ---------------------------------------------------------------- ResourceManager *)
Definition requested (q : queue) : N := N.min (w32 (Z.to_N (q_cq q + q_cu q))) (q_max q).
Fixpoint ins_grp (h : half) (x : nat) (l : list nat) : list nat :=
  match l with
  | [] => [x]
  | y :: r => if requested (getq h x) <? requested (getq h y) then x :: y :: r else y :: ins_grp h x r
  end.

Fixpoint bal_groups (v : env) (gs : list nat) (quota weight : N) (h : half) (change : Z) : res (half * Z * N) :=
  match gs with
  | [] => Ok (h, change, weight)
  | g :: r =>
    do x <- cycle v g (if weight =? 0 then 0 else quota / weight) h;
    let '(h', ch) := x in
    bal_groups v r (quota - N.min quota (w32 (Z.to_N (q_cu (getq h' g))))) (weight - 1) h' (change + ch)%Z
  end.
Fixpoint bal_groups_unl (v : env) (gs : list nat) (h : half) (change : Z) : res (half * Z) :=
  match gs with
  | [] => Ok (h, change)
  | g :: r => do x <- cycle v g unlimited h; bal_groups_unl v r (fst x) (change + snd x)%Z
  end.

(* ResourceManager::balance_unchoked + the += in receive_tick *)
Definition balance_unchoked (v : env) (h : half) : res half :=
  let ng := length (h_qs h) in
  let groups := seq 0 ng in
  if h_max h =? 0 then
    do x <- bal_groups_unl v groups h 0%Z; Ok (with_cur (fst x) (h_cur (fst x) + snd x)%Z)
  else
    let sorted := fold_left (fun acc g => ins_grp h g acc) groups [] in
    do x <- bal_groups v sorted (h_max h) (N.of_nat ng) h 0%Z;
    let '(h', ch, w) := x in
    if negb (w =? 0) then Err EInternal else Ok (with_cur h' (h_cur h' + ch)%Z).

Definition tick_check (h : half) : res half :=
  if (h_cur h =? fold_left (fun a q => (a + q_cu q)%Z) (h_qs h) 0%Z)%Z then Ok h else Err EInternal.

(* choke_queue::move_connections(src, dest, ...) + set_choke_group, as done by ResourceManager::set_group *)
Definition move_half (t g' : nat) (h : half) : res half :=
  let g := grp_of h t in
  let e := getent h t in
  let src := getq h g in
  match rswap (fun x => x) t (q_ents src) with
  | None => Err EInternal
  | Some ents' =>
    let h1 := updq g (fun q => mkQ (q_max q) (q_cq q) (q_cu q) (q_heur q) ents') h in
    let h2 := updq g' (fun q => mkQ (q_max q) (q_cq q) (q_cu q) (q_heur q) (q_ents q ++ [t])) h1 in
    let h3 := updq g (q_add (- lenZ (e_q e)) (- lenZ (e_u e))) h2 in
    let h4 := updq g' (q_add (lenZ (e_q e)) (lenZ (e_u e))) h3 in
    Ok (with_tgrp h4 (upd t (fun _ => g') (h_tgrp h4)))
  end.

(* ---------------------------------------------------------------- whole state and ops *)
Record st := mkSt { s_up : half; s_dn : half; s_ci : list cinfo; s_now : Z; s_hold : Z * Z }.

Inductive op :=
| ONew (t : nat)
| OQueue (d : dir) (c : nat)          (* Up: INTERESTED.  Dn: remote UNCHOKE (m_down_unchoked = true) *)
| OUnqueue (d : dir) (c : nat)        (* Up: NOT_INTERESTED.  Dn: remote CHOKE (m_down_unchoked = false) *)
| OUnqueueKeep (d : dir) (c : nat)    (* set_not_queued only (we lost interest) *)
| OSnub (d : dir) (c : nat)
| OUnsnub (d : dir) (c : nat)
| OClose (c : nat)
| OSetMaxSlots (d : dir) (t : nat) (x : N)
| OSetMinSlots (d : dir) (t : nat) (x : N)
| OBalEntry (d : dir) (t : nat)
| OSetQMax (d : dir) (g : nat) (x : N)
| OSetHeur (d : dir) (g : nat) (k : nat)
| OSetGMax (d : dir) (x : N)
| OBalance (d : dir) (g : nat)
| OCycle (d : dir) (g : nat) (quota : N)
| OTick
| OSetGroup (t g : nat)
| OAdvance (dt : Z)
| ORate (c : nat) (pref : bool) (dr ur : N).

Definition get_half (d : dir) (s : st) := match d with Up => s_up s | Dn => s_dn s end.
Definition set_half (d : dir) (h : half) (s : st) :=
  match d with Up => mkSt h (s_dn s) (s_ci s) (s_now s) (s_hold s) | Dn => mkSt (s_up s) h (s_ci s) (s_now s) (s_hold s) end.
Definition env_of (d : dir) (s : st) : env :=
  mkEnv d (s_now s) (h_cs (get_half (match d with Up => Dn | Dn => Up end) s)) (s_ci s) (s_hold s).

Definition empty_half (ntor ngrp : nat) (heur : nat) : half :=
  mkH [] [] (repeat (mkEnt unlimited 0 [] []) ntor) (repeat 0%Z ntor) (repeat O ntor)
      (match ngrp with
       | O => []
       | S k => mkQ unlimited 0 0 heur (seq 0 ntor) :: repeat (mkQ unlimited 0 0 heur []) k
       end) 0%Z 0 [].
(* ngrp x push_group, then ntor x insert(download, priority) (all into group 0) *)
Definition init_h (hold : Z * Z) (ntor ngrp : nat) : st := mkSt (empty_half ntor ngrp 0) (empty_half ntor ngrp 3) [] 31536000000000%Z hold.
(* the constants of the registered tree (10 s); theorems are stated for init_h with any hold-off *)
Definition init (ntor ngrp : nat) : st := init_h (10000000%Z, 10000000%Z) ntor ngrp.

(* The two halves always have the same dimensions, the same torrent -> group map and the same
   liveness flags (the dump prints them for both); ONew / OClose / OSetGroup test both halves. *)
Definition alive (h : half) (c : nat) : bool := cs_a (getcs h c).
Definition on_half (d : dir) (rs : list N) (s : st) (f : env -> half -> res half) : res st :=
  do h <- f (env_of d s) (with_rs (get_half d s) rs); Ok (set_half d (with_rs h []) s).
Definition set_rd (d : dir) (b : bool) (s : cstat) := match d with Up => s | Dn => set_r b s end.

Definition step (s : st) (o : op) (rs : list N) : res st :=
  let nc := length (h_cs (s_up s)) in
  let nt := length (h_ents (s_up s)) in
  let ng := length (h_qs (s_up s)) in
  match o with
  | ONew t =>
    if Nat.ltb t nt && Nat.ltb t (length (h_ents (s_dn s))) then
      let add h := mkH (h_cs h ++ [mkCS true false false false false 0%Z]) (h_ctor h ++ [t])
                       (h_ents h) (h_tn h) (h_tgrp h) (h_qs h) (h_cur h) (h_max h) (h_rs h) in
      Ok (mkSt (add (s_up s)) (add (s_dn s)) (s_ci s ++ [dci]) (s_now s) (s_hold s))
    else Ok s
  | OQueue d c =>
    if alive (get_half d s) c then on_half d rs s (fun v h => set_queued v c (updcs c (set_rd d true) h)) else Ok s
  | OUnqueue d c =>
    if alive (get_half d s) c then on_half d rs s (fun v h => set_not_queued v c (updcs c (set_rd d false) h)) else Ok s
  | OUnqueueKeep d c =>
    if alive (get_half d s) c then on_half d rs s (fun v h => set_not_queued v c h) else Ok s
  | OSnub d c => if alive (get_half d s) c then on_half d rs s (fun v h => set_snubbed v c h) else Ok s
  | OUnsnub d c => if alive (get_half d s) c then on_half d rs s (fun v h => set_not_snubbed v c h) else Ok s
  | OClose c =>
    if alive (s_up s) c && alive (s_dn s) c then
      do s1 <- on_half Up rs s (fun _ h => close_half c h);
      on_half Dn rs s1 (fun _ h => close_half c h)
    else Ok s
  | OSetMaxSlots d t x =>
    if Nat.ltb t nt then on_half d rs s (fun _ h => Ok (upde t (fun e => mkEnt x (e_min e) (e_q e) (e_u e)) h)) else Ok s
  | OSetMinSlots d t x =>
    if Nat.ltb t nt then on_half d rs s (fun _ h => Ok (upde t (fun e => mkEnt (e_max e) x (e_q e) (e_u e)) h)) else Ok s
  | OBalEntry d t => if Nat.ltb t nt then on_half d rs s (fun v h => balance_entry v t h) else Ok s
  | OSetQMax d g x =>
    if Nat.ltb g ng then on_half d rs s (fun _ h => Ok (updq g (fun q => mkQ x (q_cq q) (q_cu q) (q_heur q) (q_ents q)) h)) else Ok s
  | OSetHeur d g k =>
    if Nat.ltb g ng && Nat.ltb k 4 then on_half d rs s (fun _ h => Ok (updq g (fun q => mkQ (q_max q) (q_cq q) (q_cu q) k (q_ents q)) h)) else Ok s
  | OSetGMax d x => if x <=? 1048576 then on_half d rs s (fun _ h => Ok (with_max h x)) else Ok s
  | OBalance d g => if Nat.ltb g (length (h_qs (get_half d s))) then on_half d rs s (fun v h => balance v g h) else Ok s
  | OCycle d g quota =>
    if Nat.ltb g (length (h_qs (get_half d s))) then on_half d rs s (fun v h => do x <- cycle v g quota h; Ok (with_cur (fst x) (h_cur (fst x) + snd x)%Z)) else Ok s
  | OTick =>
    do hu <- balance_unchoked (env_of Up s) (with_rs (s_up s) rs);
    let s1 := set_half Up (with_rs hu []) s in
    (* the remaining random values go to the download side *)
    do hd <- balance_unchoked (env_of Dn s1) (with_rs (s_dn s1) (h_rs hu));
    let s2 := set_half Dn (with_rs hd []) s1 in
    do _ <- tick_check (s_up s2); do _ <- tick_check (s_dn s2); Ok s2
  | OSetGroup t g =>
    if Nat.ltb t nt && Nat.ltb g ng && negb (Nat.eqb (grp_of (s_up s) t) g) &&
       (Nat.ltb t (length (h_ents (s_dn s))) && Nat.ltb g (length (h_qs (s_dn s))) && negb (Nat.eqb (grp_of (s_dn s) t) g)) then
      do s1 <- on_half Up rs s (fun _ h => move_half t g h);
      on_half Dn rs s1 (fun _ h => move_half t g h)
    else Ok s
  | OAdvance dt => Ok (mkSt (s_up s) (s_dn s) (s_ci s) (s_now s + dt)%Z (s_hold s))
  | ORate c pref dr ur =>
    if Nat.ltb c nc then Ok (mkSt (s_up s) (s_dn s) (upd c (fun _ => mkCI pref dr ur) (s_ci s)) (s_now s) (s_hold s)) else Ok s
  end.

Fixpoint run (s : st) (ops : list (op * list N)) : res st :=
  match ops with
  | [] => Ok s
  | (o, rs) :: r => do s' <- step s o rs; run s' r
  end.

(* ---------------------------------------------------------------- the wire clause *)
(* m_send_choked and the CHOKE/UNCHOKE write of PeerConnection<>::fill_write_buffer:
     receive_upload_choke(choke):  m_up_choke.set_unchoked(!choke); m_send_choked = true;
     fill_write_buffer:            if (m_send_choked && can_write_choke) { m_send_choked = false;
                                                                          write_choke(m_up_choke.choked()); } *)
Record wst := mkW { w_rec : bool;      (* m_up_choke.unchoked() *)
                    w_pend : bool;     (* m_send_choked *)
                    w_told : bool }.   (* what the peer was last told: true = UNCHOKE *)
Inductive wev := WSlot (choke : bool) | WWrite.
Definition winit : wst := mkW false false false.
(* new state and the message written, if any (true = UNCHOKE) *)
Definition wstep (s : wst) (e : wev) : wst * option bool :=
  match e with
  | WSlot choke => (mkW (negb choke) true (w_told s), None)
  | WWrite => if w_pend s then (mkW (w_rec s) false (w_rec s), Some (w_rec s)) else (s, None)
  end.
Fixpoint wrun (s : wst) (evs : list wev) (msgs : list bool) : wst * list bool :=
  match evs with
  | [] => (s, msgs)
  | e :: r => let '(s', m) := wstep s e in wrun s' r (match m with Some b => msgs ++ [b] | None => msgs end)
  end.
(* one observation per harness step: record, pending flag, messages received during the step *)
Definition wobs := (bool * bool * list bool)%type.
Fixpoint wobserve (s : wst) (steps : list (list wev)) : list wobs :=
  match steps with
  | [] => []
  | evs :: r => let '(s', ms) := wrun s evs [] in (w_rec s', w_pend s', ms) :: wobserve s' r
  end.
(* acceptor run on the implementation's trace: at quiescence (nothing pending) the last
   CHOKE/UNCHOKE the peer received equals the client's record *)
Fixpoint wire_accept (told : bool) (l : list wobs) : bool :=
  match l with
  | [] => true
  | (r, p, ms) :: rest => let told' := last ms told in (p || Bool.eqb told' r) && wire_accept told' rest
  end.
