(* C11 proofs, part 3: the membership / counter invariant InvL and the two lemmas that
   re-establish it: [reinv] (a change focused on one connection c, its torrent and its group)
   and [inv_ext] (a change that keeps every list up to permutation). *)
From Coq Require Import List NArith ZArith Bool Arith Lia Permutation.
From LTV.C11 Require Import Model Proofs.
Import ListNotations.
Local Open Scope Z_scope.

(* ---------------------------------------------------------------- lists *)
Lemma nth_upd_eq {A} (f : A -> A) d : forall n (l : list A), (n < length l)%nat -> nth n (upd n f l) d = f (nth n l d).
Proof. induction n; destruct l; simpl; intros; try lia; auto. apply IHn; lia. Qed.
Lemma nth_upd_neq {A} (f : A -> A) d : forall n m (l : list A), n <> m -> nth n (upd m f l) d = nth n l d.
Proof. induction n; destruct m; destruct l; simpl; intros; try lia; auto. Qed.

Lemma rswap_spec {A} (k : A -> nat) c : forall l l', rswap k c l = Some l' -> NoDup (map k l) ->
  NoDup (map k l') /\ (forall x, In x (map k l') <-> (In x (map k l) /\ x <> c)) /\ In c (map k l).
Proof.
  induction l as [|a l IH]; simpl; intros l' H ND; try discriminate.
  inversion ND as [|? ? Hn ND']; subst.
  destruct (Nat.eqb (k a) c) eqn:E.
  - apply Nat.eqb_eq in E. inversion H; subst; clear H.
    destruct l as [|b l0].
    + simpl. split; [constructor|split; [intros; intuition|auto]].
    + set (r := b :: l0) in *.
      assert (R : r = removelast r ++ [last r a]) by (apply app_removelast_last; discriminate).
      assert (M : map k r = map k (removelast r) ++ [k (last r a)]) by (rewrite R at 1; rewrite map_app; reflexivity).
      assert (P : Permutation (map k r) (k (last r a) :: map k (removelast r))).
      { rewrite M. apply Permutation_sym, Permutation_cons_append. }
      simpl map. split; [|split].
      * eapply Permutation_NoDup; eauto.
      * intros x. split.
        -- intros X. assert (Y : In x (map k r)) by (eapply Permutation_in; [apply Permutation_sym, P|exact X]).
           split; [right; exact Y|]. intros ->. auto.
        -- intros [[X|X] Y]; [congruence|]. eapply Permutation_in; eauto.
      * left; auto.
  - apply Nat.eqb_neq in E. destruct (rswap k c l) as [l''|] eqn:R; simpl in H; inversion H; subst; clear H.
    destruct (IH _ eq_refl ND') as (N1 & I1 & C1). simpl. split; [|split].
    + constructor; auto. intros X. apply I1 in X. tauto.
    + intros x. split.
      * intros [X|X]; [subst; split; auto|]. apply I1 in X. tauto.
      * intros [[X|X] Y]; auto. right. apply I1. auto.
    + right; auto.
Qed.

Lemma remove_swap_spec c l l' : remove_swap c l = Some l' -> NoDup (ids l) ->
  NoDup (ids l') /\ (forall x, In x (ids l') <-> (In x (ids l) /\ x <> c)) /\ In c (ids l).
Proof. apply rswap_spec. Qed.

Lemma rswap_none {A} (k : A -> nat) c : forall l, rswap k c l = None -> ~ In c (map k l).
Proof. induction l; simpl; intros H; auto. destruct (Nat.eqb (k a) c) eqn:E; [discriminate|].
  apply Nat.eqb_neq in E. destruct (rswap k c l); [discriminate|]. intros [X|X]; auto. apply IHl; auto. Qed.
Lemma rswap_some {A} (k : A -> nat) c : forall l, In c (map k l) -> exists l', rswap k c l = Some l'.
Proof. intros l H. destruct (rswap k c l) eqn:E; eauto. apply rswap_none in E. tauto. Qed.

Lemma ids_push c l : ids (push c l) = ids l ++ [c].
Proof. unfold ids, push. rewrite map_app. reflexivity. Qed.
Lemma In_push x c l : In x (ids (push c l)) <-> In x (ids l) \/ x = c.
Proof. rewrite ids_push, in_app_iff. simpl. intuition. Qed.
Lemma has_spec c l : has c l = true <-> In c (ids l).
Proof. unfold has, ids. rewrite existsb_exists, in_map_iff. split.
  - intros (p & I & E). apply Nat.eqb_eq in E. eauto.
  - intros (p & E & I). exists p. split; auto. apply Nat.eqb_eq; auto. Qed.
Lemma NoDup_push c l : NoDup (ids l) -> ~ In c (ids l) -> NoDup (ids (push c l)).
Proof. intros. rewrite ids_push. eapply Permutation_NoDup; [apply Permutation_cons_append|]. constructor; auto. Qed.

Lemma sum_seq_change : forall n s (F F' : nat -> Z) t, (s <= t < s + n)%nat ->
  (forall i, (s <= i < s + n)%nat -> i <> t -> F' i = F i) ->
  sumZ (map F' (seq s n)) = sumZ (map F (seq s n)) - F t + F' t.
Proof. induction n; simpl; intros; try lia. destruct (Nat.eq_dec s t).
  - subst. assert (E : map F' (seq (S t) n) = map F (seq (S t) n)).
    { apply map_ext_in. intros i I. apply in_seq in I. apply H0; lia. }
    rewrite E. lia.
  - rewrite (IHn (S s) F F' t) by (try lia; intros; apply H0; lia). rewrite (H0 s) by lia. lia. Qed.
Lemma sum_seq_ext n (F F' : nat -> Z) : (forall i, (i < n)%nat -> F' i = F i) -> sumZ (map F' (seq 0 n)) = sumZ (map F (seq 0 n)).
Proof. intros H. f_equal. apply map_ext_in. intros i I. apply in_seq in I. apply H; lia. Qed.

(* ---------------------------------------------------------------- the invariant *)
Definition nc h := length (h_cs h).
Definition nt h := length (h_ents h).
Definition ng h := length (h_qs h).
Definition inq (s : cstat) := cs_a s && cs_q s && negb (cs_u s) && negb (cs_s s).
Definition inu (s : cstat) := cs_a s && cs_u s.
Definition gsum (h : half) (g : nat) (f : entry -> wl) : Z :=
  sumZ (map (fun t => if Nat.eqb (grp_of h t) g then lenZ (f (getent h t)) else 0) (seq 0 (nt h))).

Record InvL (d : dir) (h : half) : Prop := mkInvL {
  iv_wf : WF h;
  iv_cs : length (h_ctor h) = nc h;
  iv_ndq : forall t, (t < nt h)%nat -> NoDup (ids (e_q (getent h t)));
  iv_ndu : forall t, (t < nt h)%nat -> NoDup (ids (e_u (getent h t)));
  iv_mq : forall t c, (t < nt h)%nat ->
     (In c (ids (e_q (getent h t))) <-> ((c < nc h)%nat /\ tor_of h c = t /\ inq (getcs h c) = true));
  iv_mu : forall t c, (t < nt h)%nat ->
     (In c (ids (e_u (getent h t))) <-> ((c < nc h)%nat /\ tor_of h c = t /\ inu (getcs h c) = true));
  iv_fl : forall c, (c < nc h)%nat -> inu (getcs h c) = true -> cs_q (getcs h c) = true /\ cs_s (getcs h c) = false;
  iv_r : d = Dn -> forall c, (c < nc h)%nat -> cs_q (getcs h c) = true -> cs_r (getcs h c) = true;
  iv_tn : forall t, (t < nt h)%nat -> gettn h t = lenZ (e_u (getent h t));
  iv_qc : forall g, (g < ng h)%nat -> q_cu (getq h g) = gsum h g e_u /\ q_cq (getq h g) = gsum h g e_q;
  iv_qe : forall g, (g < ng h)%nat -> NoDup (q_ents (getq h g)) /\
            forall t, In t (q_ents (getq h g)) <-> ((t < nt h)%nat /\ grp_of h t = g) }.

(* ---------------------------------------------------------------- focused change *)
Lemma reinv d h h' c :
  InvL d h -> (c < nc h)%nat ->
  let t := tor_of h c in let g := grp_of h t in
  length (h_cs h') = length (h_cs h) -> length (h_ents h') = length (h_ents h) ->
  length (h_tn h') = length (h_tn h) -> length (h_qs h') = length (h_qs h) ->
  h_ctor h' = h_ctor h -> h_tgrp h' = h_tgrp h ->
  (forall c', c' <> c -> getcs h' c' = getcs h c') ->
  (forall t', t' <> t -> getent h' t' = getent h t') ->
  (forall t', t' <> t -> gettn h' t' = gettn h t') ->
  (forall g', g' <> g -> getq h' g' = getq h g') ->
  q_ents (getq h' g) = q_ents (getq h g) ->
  NoDup (ids (e_q (getent h' t))) -> NoDup (ids (e_u (getent h' t))) ->
  (forall x, In x (ids (e_q (getent h' t))) <-> ((x <> c /\ In x (ids (e_q (getent h t)))) \/ (x = c /\ inq (getcs h' c) = true))) ->
  (forall x, In x (ids (e_u (getent h' t))) <-> ((x <> c /\ In x (ids (e_u (getent h t)))) \/ (x = c /\ inu (getcs h' c) = true))) ->
  (inu (getcs h' c) = true -> cs_q (getcs h' c) = true /\ cs_s (getcs h' c) = false) ->
  (d = Dn -> cs_q (getcs h' c) = true -> cs_r (getcs h' c) = true) ->
  gettn h' t - gettn h t = lenZ (e_u (getent h' t)) - lenZ (e_u (getent h t)) ->
  q_cu (getq h' g) - q_cu (getq h g) = lenZ (e_u (getent h' t)) - lenZ (e_u (getent h t)) ->
  q_cq (getq h' g) - q_cq (getq h g) = lenZ (e_q (getent h' t)) - lenZ (e_q (getent h t)) ->
  InvL d h'.
Proof.
  intros I Hc t g L1 L2 L3 L4 Ect Etg Fcs Fent Ftn Fq Eqe NDq NDu Mq Mu Hfl Hr Dtn Dcu Dcq.
  pose proof (iv_wf _ _ I) as W.
  assert (Ht : (t < nt h)%nat) by (apply tor_lt; auto).
  assert (Hg : (g < ng h)%nat) by (apply grp_lt; auto).
  assert (Tor : forall x, tor_of h' x = tor_of h x) by (intros; unfold tor_of; rewrite Ect; auto).
  assert (Grp : forall x, grp_of h' x = grp_of h x) by (intros; unfold grp_of; rewrite Etg; auto).
  assert (NC : nc h' = nc h) by (unfold nc; auto).
  assert (NT : nt h' = nt h) by (unfold nt; auto).
  assert (NG : ng h' = ng h) by (unfold ng; auto).
  constructor.
  - destruct W; constructor; rewrite ?L2, ?L4, ?L3, ?Ect, ?Etg; auto.
  - rewrite Ect, NC. apply I.
  - intros t' H. rewrite NT in H. destruct (Nat.eq_dec t' t); [subst; auto|]. rewrite Fent by auto. apply I; auto.
  - intros t' H. rewrite NT in H. destruct (Nat.eq_dec t' t); [subst; auto|]. rewrite Fent by auto. apply I; auto.
  - intros t' x H. rewrite NT in H. rewrite NC, Tor. destruct (Nat.eq_dec t' t) as [->|Nt].
    + rewrite Mq. destruct (Nat.eq_dec x c) as [->|Nx].
      * fold t. split; [intros [[X _]|[_ X]]; [congruence|auto]|intros (_ & _ & X); right; auto].
      * rewrite (Fcs x) by auto. rewrite (iv_mq _ _ I t x Ht). intuition.
    + rewrite Fent by auto. rewrite (iv_mq _ _ I t' x H). destruct (Nat.eq_dec x c) as [->|Nx].
      * fold t. intuition; congruence.
      * rewrite (Fcs x) by auto. reflexivity.
  - intros t' x H. rewrite NT in H. rewrite NC, Tor. destruct (Nat.eq_dec t' t) as [->|Nt].
    + rewrite Mu. destruct (Nat.eq_dec x c) as [->|Nx].
      * fold t. split; [intros [[X _]|[_ X]]; [congruence|auto]|intros (_ & _ & X); right; auto].
      * rewrite (Fcs x) by auto. rewrite (iv_mu _ _ I t x Ht). intuition.
    + rewrite Fent by auto. rewrite (iv_mu _ _ I t' x H). destruct (Nat.eq_dec x c) as [->|Nx].
      * fold t. intuition; congruence.
      * rewrite (Fcs x) by auto. reflexivity.
  - intros x H. rewrite NC in H. destruct (Nat.eq_dec x c) as [->|Nx]; auto. rewrite Fcs by auto. apply I; auto.
  - intros Ed x H. rewrite NC in H. destruct (Nat.eq_dec x c) as [->|Nx]; auto. rewrite Fcs by auto. apply I; auto.
  - intros t' H. rewrite NT in H. destruct (Nat.eq_dec t' t) as [->|Nt].
    + rewrite (iv_tn _ _ I t Ht) in Dtn. lia.
    + rewrite Ftn, Fent by auto. apply I; auto.
  - intros g' H. rewrite NG in H.
    assert (GS : forall f, (f = e_u \/ f = e_q) -> gsum h' g' f = gsum h g' f +
              (if Nat.eqb g g' then lenZ (f (getent h' t)) - lenZ (f (getent h t)) else 0)).
    { intros f _. unfold gsum. rewrite NT.
      rewrite (sum_seq_change (nt h) 0 (fun t0 => if Nat.eqb (grp_of h t0) g' then lenZ (f (getent h t0)) else 0)
                 (fun t0 => if Nat.eqb (grp_of h' t0) g' then lenZ (f (getent h' t0)) else 0) t) by
        (try lia; intros i _ Ni; rewrite Grp, Fent by auto; reflexivity).
      rewrite Grp. fold g. destruct (Nat.eqb g g'); lia. }
    rewrite (GS e_u) by auto. rewrite (GS e_q) by auto.
    destruct (iv_qc _ _ I g' H) as [Qu Qq].
    destruct (Nat.eq_dec g' g) as [->|Ng].
    + rewrite Nat.eqb_refl. lia.
    + rewrite Fq by auto. assert (E : Nat.eqb g g' = false) by (apply Nat.eqb_neq; auto). rewrite E. lia.
  - intros g' H. rewrite NG in H. rewrite NT.
    assert (E : q_ents (getq h' g') = q_ents (getq h g')) by (destruct (Nat.eq_dec g' g) as [->|Ng]; auto; rewrite Fq; auto).
    rewrite E. destruct (iv_qe _ _ I g' H) as [N M]. split; auto. intros x. rewrite Grp. apply M.
Qed.

(* ---------------------------------------------------------------- change up to permutation *)
Lemma inv_ext d h h' :
  InvL d h ->
  h_cs h' = h_cs h -> h_ctor h' = h_ctor h -> length (h_ents h') = length (h_ents h) ->
  h_tn h' = h_tn h -> h_tgrp h' = h_tgrp h -> length (h_qs h') = length (h_qs h) ->
  (forall t, Permutation (ids (e_q (getent h' t))) (ids (e_q (getent h t))) /\
             Permutation (ids (e_u (getent h' t))) (ids (e_u (getent h t)))) ->
  (forall g, q_cu (getq h' g) = q_cu (getq h g) /\ q_cq (getq h' g) = q_cq (getq h g) /\ q_ents (getq h' g) = q_ents (getq h g)) ->
  InvL d h'.
Proof.
  intros I Ecs Ect L2 Etn Etg L4 P Q.
  assert (Tor : forall x, tor_of h' x = tor_of h x) by (intros; unfold tor_of; rewrite Ect; auto).
  assert (Grp : forall x, grp_of h' x = grp_of h x) by (intros; unfold grp_of; rewrite Etg; auto).
  assert (Gcs : forall x, getcs h' x = getcs h x) by (intros; unfold getcs; rewrite Ecs; auto).
  assert (Gtn : forall x, gettn h' x = gettn h x) by (intros; unfold gettn; rewrite Etn; auto).
  assert (NC : nc h' = nc h) by (unfold nc; rewrite Ecs; auto).
  assert (NT : nt h' = nt h) by (unfold nt; auto).
  assert (NG : ng h' = ng h) by (unfold ng; auto).
  assert (Lq : forall t, lenZ (e_q (getent h' t)) = lenZ (e_q (getent h t))).
  { intros t. destruct (P t) as [A _]. apply Permutation_length in A. unfold ids in A. rewrite !map_length in A. unfold lenZ. lia. }
  assert (Lu : forall t, lenZ (e_u (getent h' t)) = lenZ (e_u (getent h t))).
  { intros t. destruct (P t) as [_ A]. apply Permutation_length in A. unfold ids in A. rewrite !map_length in A. unfold lenZ. lia. }
  pose proof (iv_wf _ _ I) as W.
  constructor.
  - destruct W; constructor; rewrite ?L2, ?L4, ?Etn, ?Ect, ?Etg; auto.
  - rewrite Ect, NC. apply I.
  - intros t H. rewrite NT in H. eapply Permutation_NoDup; [apply Permutation_sym, P|]. apply I; auto.
  - intros t H. rewrite NT in H. eapply Permutation_NoDup; [apply Permutation_sym, P|]. apply I; auto.
  - intros t x H. rewrite NT in H. rewrite NC, Tor, Gcs, <- (iv_mq _ _ I t x H). destruct (P t) as [A _].
    split; intros X; [eapply Permutation_in; [exact A|exact X] | eapply Permutation_in; [apply Permutation_sym; exact A|exact X]].
  - intros t x H. rewrite NT in H. rewrite NC, Tor, Gcs, <- (iv_mu _ _ I t x H). destruct (P t) as [_ A].
    split; intros X; [eapply Permutation_in; [exact A|exact X] | eapply Permutation_in; [apply Permutation_sym; exact A|exact X]].
  - intros x H. rewrite NC in H. rewrite Gcs. apply I; auto.
  - intros Ed x H. rewrite NC in H. rewrite Gcs. apply I; auto.
  - intros t H. rewrite NT in H. rewrite Gtn, Lu. apply I; auto.
  - intros g H. rewrite NG in H. destruct (Q g) as (A & B & _). rewrite A, B.
    destruct (iv_qc _ _ I g H) as [Qu Qq]. rewrite Qu, Qq. unfold gsum. rewrite NT. split.
    + symmetry. apply sum_seq_ext. intros i _. rewrite Grp, Lu. reflexivity.
    + symmetry. apply sum_seq_ext. intros i _. rewrite Grp, Lq. reflexivity.
  - intros g H. rewrite NG in H. destruct (Q g) as (_ & _ & E). rewrite E, NT.
    destruct (iv_qe _ _ I g H) as [N M]. split; auto. intros x. rewrite Grp. apply M.
Qed.
