From Coq Require Import List NArith ZArith Bool.
From LTV.C11 Require Import Model ProofsParams Proofs Proofs2.
Import ListNotations.
Local Open Scope Z_scope.

Theorem params_ok_now : ProofsParams.params_ok = true.
Proof. exact ProofsParams.params_ok_now. Qed.
Print Assumptions params_ok_now.

(* receive_upload_choke / receive_download_choke move the four counters together *)
Theorem slot_accounting : forall v c choke h h' r, slot v c choke h = Ok (h', r) ->
  WF h -> WF h' /\ BalU h' = BalU h /\ BalQ h' = BalQ h /\ BalT h' = BalT h /\ D h' = D h + (if choke then 1 else -1).
Proof. exact Proofs.eff_slot. Qed.
Print Assumptions slot_accounting.

Theorem set_queued_accounting : forall v c h h', set_queued v c h = Ok h' ->
  WF h -> WF h' /\ BalU h' = BalU h /\ BalQ h' = BalQ h /\ BalT h' = BalT h /\ D h' = D h + 0.
Proof. exact Proofs.eff_set_queued. Qed.
Print Assumptions set_queued_accounting.

Theorem set_not_queued_accounting : forall v c h h', set_not_queued v c h = Ok h' ->
  WF h -> WF h' /\ BalU h' = BalU h /\ BalQ h' = BalQ h /\ BalT h' = BalT h /\ D h' = D h + 0.
Proof. exact Proofs.eff_set_not_queued. Qed.
Print Assumptions set_not_queued_accounting.

Theorem set_snubbed_accounting : forall v c h h', set_snubbed v c h = Ok h' ->
  WF h -> WF h' /\ BalU h' = BalU h /\ BalQ h' = BalQ h /\ BalT h' = BalT h /\ D h' = D h + 0.
Proof. exact Proofs.eff_set_snubbed. Qed.
Print Assumptions set_snubbed_accounting.

Theorem set_not_snubbed_accounting : forall v c h h', set_not_snubbed v c h = Ok h' ->
  WF h -> WF h' /\ BalU h' = BalU h /\ BalQ h' = BalQ h /\ BalT h' = BalT h /\ D h' = D h + 0.
Proof. exact Proofs.eff_set_not_snubbed. Qed.
Print Assumptions set_not_snubbed_accounting.

Theorem counters_inv_conn_ops_partial : forall nt ng ops s,
  (0 < nt)%nat -> (0 < ng)%nat -> forallb (fun p => conn_op (fst p)) ops = true ->
  run (init nt ng) ops = Ok s -> consistent (s_up s) /\ consistent (s_dn s).
Proof. exact Proofs2.counters_inv_conn_ops_partial. Qed.
Print Assumptions counters_inv_conn_ops_partial.

Theorem zero_when_lists_empty_partial : forall h, consistent h -> SEu h = 0 -> SEq h = 0 ->
  h_cur h = 0 /\ SQu h = 0 /\ SQq h = 0 /\ STn h = 0.
Proof. exact Proofs2.zero_when_lists_empty_partial. Qed.
Print Assumptions zero_when_lists_empty_partial.

Theorem limits_new_unchoke_guard_up : forall v c h h', v_dir v = Up -> try_unchoke_new v c h = Ok h' ->
  h' = h \/
  (let t := tor_of h c in let q := getq h (grp_of h t) in
   (q_max q = unlimited \/ q_cu q < Z.of_N (q_max q)) /\
   (h_max h = 0%N \/ h_cur h < Z.of_N (h_max h)) /\
   gettn h t < Z.of_N (e_max (getent h t)) /\
   cs_t (getcs h c) + 10000000 < v_now v).
Proof. exact Proofs2.limits_new_unchoke_guard_up. Qed.
Print Assumptions limits_new_unchoke_guard_up.

Theorem tick_max_form_refuted :
  exists ops s, run (init 2 2) ops = Ok s /\ h_max (s_up s) = 2%N /\
    e_min (getent (s_up s) 0) = 3%N /\ e_min (getent (s_up s) 1) = 0%N /\
    h_cur (s_up s) = 4 /\ lenZ (e_u (getent (s_up s) 0)) = 3 /\ lenZ (e_u (getent (s_up s) 1)) = 1.
Proof. exact Proofs2.tick_max_form_refuted. Qed.
Print Assumptions tick_max_form_refuted.

Theorem download_set_queued_within_global_max_refuted :
  exists ops s, run (init 1 1) ops = Ok s /\ h_max (s_dn s) = 1%N /\ h_cur (s_dn s) = 2.
Proof. exact Proofs2.download_set_queued_within_global_max_refuted. Qed.
Print Assumptions download_set_queued_within_global_max_refuted.
