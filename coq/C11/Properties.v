From Coq Require Import List NArith ZArith Bool.
From LTV.C11 Require Import Model ProofsParams.

Theorem params_ok_now : ProofsParams.params_ok = true.
Proof. exact ProofsParams.params_ok_now. Qed.
Print Assumptions params_ok_now.
