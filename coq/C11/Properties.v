From Coq Require Import List NArith ZArith Bool.
From LTV.C11 Require Import Model ProofsParams Proofs Proofs2 ProofsInv ProofsInv2 ProofsInv3 ProofsInv4 ProofsAlloc ProofsGlob ProofsLim ProofsLim2 ProofsLim3 ProofsLim4 ProofsGlob2 ProofsNT ProofsNT2 ProofsNT3 ProofsFair ProofsFair2 ProofsWire.
Import ListNotations.
Local Open Scope Z_scope.

Theorem params_ok_now : ProofsParams.params_ok = true.
Proof. exact ProofsParams.params_ok_now. Qed.
Print Assumptions params_ok_now.

(* receive_upload_choke / receive_download_choke move the four counters together *)
Theorem slot_accounting : forall v c choke h h' r, slot v c choke h = Ok (h', r) ->
  WF h -> WF h' /\ BalU h' = BalU h /\ BalQ h' = BalQ h /\ BalT h' = BalT h /\ D h' = D h + (if choke then 1 else -1).
Proof. exact Proofs.eff_slot. Qed.
Print Assumptions slot_accounting.

Theorem set_queued_accounting : forall v c h h', set_queued v c h = Ok h' ->
  WF h -> WF h' /\ BalU h' = BalU h /\ BalQ h' = BalQ h /\ BalT h' = BalT h /\ D h' = D h + 0.
Proof. exact Proofs.eff_set_queued. Qed.
Print Assumptions set_queued_accounting.

Theorem set_not_queued_accounting : forall v c h h', set_not_queued v c h = Ok h' ->
  WF h -> WF h' /\ BalU h' = BalU h /\ BalQ h' = BalQ h /\ BalT h' = BalT h /\ D h' = D h + 0.
Proof. exact Proofs.eff_set_not_queued. Qed.
Print Assumptions set_not_queued_accounting.

Theorem set_snubbed_accounting : forall v c h h', set_snubbed v c h = Ok h' ->
  WF h -> WF h' /\ BalU h' = BalU h /\ BalQ h' = BalQ h /\ BalT h' = BalT h /\ D h' = D h + 0.
Proof. exact Proofs.eff_set_snubbed. Qed.
Print Assumptions set_snubbed_accounting.

Theorem set_not_snubbed_accounting : forall v c h h', set_not_snubbed v c h = Ok h' ->
  WF h -> WF h' /\ BalU h' = BalU h /\ BalQ h' = BalQ h /\ BalT h' = BalT h /\ D h' = D h + 0.
Proof. exact Proofs.eff_set_not_snubbed. Qed.
Print Assumptions set_not_snubbed_accounting.

(* counters_inv (lists and counters at torrent and group level, membership <-> status flags,
   snubbed / uninterested connections hold no slot) for ALL op lists, including close, balance_entry,
   balance, cycle and tick.  InvL is the record in ProofsInv.v:
     In c (ids (e_u (getent h t))) <-> c < nc /\ tor_of c = t /\ alive && unchoked
     In c (ids (e_q (getent h t))) <-> c < nc /\ tor_of c = t /\ alive && queued && !unchoked && !snubbed
     unchoked -> queued /\ !snubbed;   lists duplicate-free;
     DownloadInfo counter = |e_u|;  queue counters = sums of the list sizes of the group's torrents;
     group container = exactly the torrents of the group (no duplicates);
     download side: queued -> remote has unchoked us. *)
Theorem counters_inv : forall hold nt0 ng0 ops s, (0 < nt0)%nat -> (0 < ng0)%nat ->
  run (init_h hold nt0 ng0) ops = Ok s -> InvL Up (s_up s) /\ InvL Dn (s_dn s).
Proof. exact ProofsInv4.membership_inv. Qed.
Print Assumptions counters_inv.

(* the global counter ResourceManager::m_currently{Upload,Download}Unchoked equals the sum of the
   groups' currently_unchoked after EVERY op list (close, balance_entry, tick, group moves, and the
   direct unit-level entry points choke_queue::balance / choke_queue::cycle included). *)
Theorem global_counter : forall hold nt0 ng0 ops s, (0 < nt0)%nat -> (0 < ng0)%nat ->
  run (init_h hold nt0 ng0) ops = Ok s ->
  h_cur (s_up s) = SQu (s_up s) /\ h_cur (s_dn s) = SQu (s_dn s).
Proof. exact ProofsGlob2.global_counter_all. Qed.
Print Assumptions global_counter.

(* allocate_slots_exact over the real heuristics tables: whenever choke_manager_allocate_slots
   returns, target[i].first <= size of class i and the targets sum to min(max, candidates) *)
Theorem allocate_slots_exact : forall (heur : nat) (choke : bool) s0 s1 s2 s3 mx h tg h',
  allocate_slots (if choke then choke_table heur else unchoke_table heur) [s0; s1; s2; s3] mx h = Ok (tg, h') ->
  length tg = 4%nat /\ (forall i, (i < 4)%nat -> (nthN tg i <= nthN [s0; s1; s2; s3] i)%N) /\
  sum4 tg = N.min mx (s0 + s1 + s2 + s3)%N.
Proof. exact ProofsAlloc.allocate_slots_exact_real. Qed.
Print Assumptions allocate_slots_exact.

(* cycle_no_throw, the allocation part: the unbounded "find start" loop of
   choke_manager_allocate_slots never leaves the 4-element arrays and the function raises nothing.
   (part of cycle_no_throw below) *)
Theorem allocate_slots_no_throw : forall (heur : nat) (choke : bool) s0 s1 s2 s3 mx h,
  allocate_slots (if choke then choke_table heur else unchoke_table heur) [s0; s1; s2; s3] mx h <> Err EFault /\
  allocate_slots (if choke then choke_table heur else unchoke_table heur) [s0; s1; s2; s3] mx h <> Err EInternal.
Proof. exact ProofsAlloc.allocate_slots_no_fault_real. Qed.
Print Assumptions allocate_slots_no_throw.

(* cycle_no_throw, the adjust_choke_range part: on a duplicate-free range of connections of group g
   that are all in the expected state (queued-and-choked for an unchoke pass, unchoked for a choke
   pass; POK) with weights below 2^32, adjust_choke_range raises neither internal_error nor runs its
   "find start" loop out of the arrays, and it chokes / unchokes exactly min(max, |range|)
   connections. Also: a slot call on a connection in the expected state always succeeds (slot_ok).
   (used by cycle_no_throw below, which discharges these hypotheses for the containers cycle builds) *)
Theorem adjust_choke_range_no_throw : forall d v heur g range mx choke h, v_dir v = d -> InvL d h ->
  NoDup (ids range) -> POK g choke h (ids range) -> (forall p, In p range -> (snd p < two32)%N) ->
  adjust_choke_range v heur range mx choke h <> Err EInternal /\
  adjust_choke_range v heur range mx choke h <> Err EFault /\
  (forall h' cnt, adjust_choke_range v heur range mx choke h = Ok (h', cnt) -> cnt = N.min mx (lenN range)).
Proof. exact ProofsNT.acr_ok. Qed.
Print Assumptions adjust_choke_range_no_throw.

Theorem slot_ok : forall d v c choke h, v_dir v = d -> InvL d h -> (c < nc h)%nat -> flag choke (getcs h c) = true ->
  exists h', slot v c choke h = Ok (h', true).
Proof. exact ProofsNT.slot_ok. Qed.
Print Assumptions slot_ok.

(* cycle_rotates, the adjust_choke_range part: with a non-empty duplicate-free list of queued
   candidates in the expected state and a remaining quota >= 1, the unchoke pass of cycle (whose
   request is max(quota - |unchoked|, alternate) capped by the quota) unchokes at least one queued
   connection, exactly min(request, |queued|) of them (used by cycle_rotates below). *)
Theorem adjust_choke_range_rotates : forall d v heur g queued (q : queue) (U quota' : N) h h' cnt,
  v_dir v = d -> InvL d h -> NoDup (ids queued) -> POK g false h (ids queued) ->
  (forall p, In p queued -> (snd p < two32)%N) -> queued <> [] ->
  (1 <= quota')%N -> Z.of_N U <= q_cu q ->
  adjust_choke_range v heur queued (N.min (N.max (if (U <? quota')%N then quota' - U else 0) (max_alternate q)) quota')%N false h = Ok (h', cnt) ->
  (1 <= cnt)%N /\ cnt = N.min (N.min (N.max (if (U <? quota')%N then quota' - U else 0) (max_alternate q)) quota') (lenN queued).
Proof. exact ProofsNT.cycle_rotates_acr. Qed.
Print Assumptions adjust_choke_range_rotates.

(* cycle_no_throw: in every state satisfying the invariant (hence in every reachable state, counters_inv),
   choke_queue::cycle raises no internal_error (none of: receive_*_choke "already set", group_entry
   "failed", adjust_choke_range "first > size" / "bad range" / "count > max", cycle "unchoked.size() >
   quota") and its unbounded "find start" loop stays inside the arrays.  NT r := r <> Err EInternal /\
   r <> Err EFault (the third model outcome, fuel exhaustion, has no counterpart in the code). *)
Theorem cycle_no_throw : forall d v g quota h, v_dir v = d -> InvL d h -> (g < ng h)%nat -> NT (cycle v g quota h).
Proof. exact ProofsNT2.cycle_no_throw. Qed.
Print Assumptions cycle_no_throw.

(* cycle_rotates: max_alternate >= 1 whenever a slot is occupied, and a cycle whose effective quota is
   >= 1, in a group without min_slots reservations where some torrent has a waiting (queued, choked,
   not snubbed) connection and room below its max_slots, gives a slot to a connection that was
   waiting: after the cycle that connection is unchoked.  (Which waiting connection is chosen is
   decided by the weights, i.e. by rates and random(): see fairness in the report.) *)
Theorem max_alternate_pos : forall q : queue, 1 <= q_cu q -> (1 <= max_alternate q)%N.
Proof. exact ProofsNT3.max_alternate_pos. Qed.
Print Assumptions max_alternate_pos.

Theorem cycle_rotates : forall d v g quota h h' z, v_dir v = d -> InvL d h -> (g < ng h)%nat ->
  (forall t, In t (q_ents (getq h g)) -> e_min (getent h t) = 0%N) ->
  (1 <= N.min quota (q_max (getq h g)))%N ->
  (exists t, In t (q_ents (getq h g)) /\ e_q (getent h t) <> [] /\ (lenN (e_u (getent h t)) < e_max (getent h t))%N) ->
  cycle v g quota h = Ok (h', z) ->
  exists c, (c < nc h)%nat /\ inq (getcs h c) = true /\ grp_of h (tor_of h c) = g /\
            cs_u (getcs h' c) = true /\ cs_a (getcs h' c) = true.
Proof. exact ProofsNT3.cycle_rotates. Qed.
Print Assumptions cycle_rotates.

(* fairness, bounded wait, the case that needs no oracle on random(): when c is the only waiting
   (queued, choked, not snubbed) connection of its group -- slots + 1 interested peers -- the next cycle
   with an effective quota >= 1 unchokes c; so with one more interested peer than slots nobody waits
   longer than one cycle.  Generalised from 1 to k waiters by fairness_k_waiters below (k <= the cycle's
   request: every waiter is unchoked by one cycle) and to several groups by fairness_tick_groups.
   Still NOT proved (hence the suffix kept on this family's first member): the case k > request, i.e.
   "every persistently interested non-snubbed peer is unchoked within a bounded number of cycles
   provided random() gives it the top weight of a single weight class at some cycle": it needs WHICH
   elements adjust_choke_range picks when it does not take the whole range; only their count
   (adjust_choke_range_rotates), their membership in the queue (cycle_rotates) and the take-all case
   (adjust_choke_range_takes_all) are proved.  On the implementation the check evaluates rotation per
   tick, coverage over long tick streaks, and the k-waiter statement on every cycle / tick whose
   hypotheses hold (props/c11.py: check_fair). *)
Theorem fairness_single_waiter_partial : forall d v g quota h h' z c, v_dir v = d -> InvL d h -> (g < ng h)%nat ->
  (forall t, In t (q_ents (getq h g)) -> e_min (getent h t) = 0%N) ->
  (1 <= N.min quota (q_max (getq h g)))%N ->
  waiting h g c -> (forall c', waiting h g c' -> c' = c) ->
  (lenN (e_u (getent h (tor_of h c))) < e_max (getent h (tor_of h c)))%N ->
  cycle v g quota h = Ok (h', z) ->
  cs_u (getcs h' c) = true /\ cs_a (getcs h' c) = true.
Proof. exact ProofsFair.fairness_single_waiter. Qed.
Print Assumptions fairness_single_waiter_partial.

(* fairness, bounded wait, k waiters (generalises the single-waiter case from 1 to k, still without any
   oracle on random()): let request = cycle_request quota q
       = min( max( quota' - unchoked  (or 0),  max_alternate() ),  quota' ),   quota' = min(quota, max_unchoked)
   be what choke_queue::cycle asks adjust_choke_range to unchoke (ProofsFair2.cycle_request; max_alternate is
   the rotation rule (unchoked+7)/8 resp. (unchoked+9)/10).  In a group without min_slots reservations whose
   torrents have room below max_slots for their waiters, if the group's queued count currently_queued does
   not exceed the request, then ONE cycle unchokes EVERY waiting (queued, choked, not snubbed) connection
   of the group -- whatever the weights, rates and random() values are.  So each of k waiters waits at most
   one cycle whenever k <= request.  For k > request which waiters are taken is decided by random(): only
   the count (adjust_choke_range_rotates) and the membership (cycle_rotates) are proved. *)
Theorem fairness_k_waiters : forall d v g quota h h' z, v_dir v = d -> InvL d h -> (g < ng h)%nat ->
  (forall t, In t (q_ents (getq h g)) -> e_min (getent h t) = 0%N) ->
  (forall t, In t (q_ents (getq h g)) -> (lenN (e_q (getent h t)) + lenN (e_u (getent h t)) <= e_max (getent h t))%N) ->
  q_cq (getq h g) <= Z.of_N (cycle_request quota (getq h g)) ->
  cycle v g quota h = Ok (h', z) ->
  forall c, waiting h g c -> cs_u (getcs h' c) = true /\ cs_a (getcs h' c) = true.
Proof. exact ProofsFair2.fairness_k_waiters. Qed.
Print Assumptions fairness_k_waiters.

(* the adjust_choke_range part of fairness_k_waiters: when the request covers the whole candidate range,
   EVERY connection of the range is flipped (all four weight classes are taken completely). *)
Theorem adjust_choke_range_takes_all : forall d v heur g range mx choke h h' cnt, v_dir v = d -> InvL d h ->
  NoDup (ids range) -> POK g choke h (ids range) -> (forall p, In p range -> (snd p < two32)%N) ->
  adjust_choke_range v heur range mx choke h = Ok (h', cnt) -> (lenN range <= mx)%N ->
  forall c, In c (ids range) -> cs_u (getcs h' c) = negb choke /\ cs_a (getcs h' c) = true.
Proof. exact ProofsFair2.acr_all. Qed.
Print Assumptions adjust_choke_range_takes_all.

(* fairness for several groups: ResourceManager::receive_tick (one direction = balance_unchoked) without a
   global maximum cycles every group with an unlimited quota; if every group fits (group_fits: no min_slots
   reservations, room below max_slots, currently_queued <= cycle_request), ONE tick unchokes every waiting
   connection of EVERY group: a cycle of one group leaves the waiting / unchoked status of the other
   groups' connections alone (ProofsFair2.cycle_frame). *)
Theorem fairness_tick_groups : forall d v h h', v_dir v = d -> InvL d h -> h_max h = 0%N ->
  (forall g, (g < ng h)%nat -> group_fits unlimited h g) ->
  balance_unchoked v h = Ok h' ->
  forall c, (c < nc h)%nat -> inq (getcs h c) = true -> inu (getcs h' c) = true.
Proof. exact ProofsFair2.fairness_tick_groups. Qed.
Print Assumptions fairness_tick_groups.

(* limits for choke_queue::cycle: in every reachable-style state (InvL) a cycle of group g ends with
     currently_unchoked(g) <= max( min(quota, max_unchoked(g)), slots forced by min_slots in g )
   where forcedG h g = sum over the group's torrents of min(min_slots, max_slots, connections);
   it returns exactly the change of the group's counter, and leaves every other group's queue,
   entries and forced slots, and the global counter, unchanged (CEff). *)
Theorem limits_cycle : forall d v g quota h h' z, v_dir v = d -> InvL d h -> (g < ng h)%nat ->
  cycle v g quota h = Ok (h', z) ->
  InvL d h' /\ CEff g h h' /\
  q_cu (getq h' g) <= Z.max (Z.of_N (N.min quota (q_max (getq h g)))) (forcedG h' g) /\
  z = q_cu (getq h' g) - q_cu (getq h g).
Proof. exact ProofsLim3.cycle_effect. Qed.
Print Assumptions limits_cycle.

(* limits for ResourceManager::receive_tick (one direction = balance_unchoked), in the accepted sum
   form: with a global maximum M <> 0, after the tick
     per group   unchoked_g <= max(max_unchoked_g, forced_g)                       (group_ok)
     globally    sum_g max(0, unchoked_g - forced_g) <= M                          (excess)
   where forced_g = slots forced by the per-torrent min_slots of the group's torrents.
   (replaces tick_within_global_max_refuted; the max() form over the global sum is tick_max_form_refuted) *)
Theorem limits_tick : forall d v h h', v_dir v = d -> InvL d h -> h_max h <> 0%N -> (h_max h < two32)%N ->
  balance_unchoked v h = Ok h' ->
  InvL d h' /\ ng h' = ng h /\ h_max h' = h_max h /\
  (forall g, (g < ng h')%nat -> group_ok h' g) /\
  sumZ (map (excess h') (seq 0 (ng h'))) <= Z.of_N (h_max h').
Proof. exact ProofsLim4.tick_limit. Qed.
Print Assumptions limits_tick.

(* the wire clause: a small model of m_send_choked / the CHOKE-UNCHOKE write of fill_write_buffer.
   For every interleaving of choke decisions (receive_upload_choke) and buffer writes, whenever no
   message is pending the last CHOKE/UNCHOKE sent equals m_up_choke; the acceptor wire_accept, which
   the check runs on the traces of the real client (harness/c11s.cc, session harness), accepts
   every trace of the model. *)
Theorem wire_matches_record : forall evs, let s := fst (wrun winit evs []) in w_pend s = false -> w_told s = w_rec s.
Proof. exact ProofsWire.wire_matches_record. Qed.
Print Assumptions wire_matches_record.

Theorem wire_accept_complete : forall steps, wire_accept false (wobserve winit steps) = true.
Proof. exact ProofsWire.wire_accept_complete. Qed.
Print Assumptions wire_accept_complete.

Theorem zero_on_close : forall hold nt0 ng0 ops s, (0 < nt0)%nat -> (0 < ng0)%nat ->
  run (init_h hold nt0 ng0) ops = Ok s ->
  (forall c, cs_a (getcs (s_up s) c) = false) -> (forall c, cs_a (getcs (s_dn s) c) = false) ->
  (forall t, (t < nt (s_up s))%nat -> e_q (getent (s_up s) t) = [] /\ e_u (getent (s_up s) t) = [] /\ gettn (s_up s) t = 0) /\
  (forall g, (g < ng (s_up s))%nat -> q_cu (getq (s_up s) g) = 0 /\ q_cq (getq (s_up s) g) = 0) /\
  (forall t, (t < nt (s_dn s))%nat -> e_q (getent (s_dn s) t) = [] /\ e_u (getent (s_dn s) t) = [] /\ gettn (s_dn s) t = 0) /\
  (forall g, (g < ng (s_dn s))%nat -> q_cu (getq (s_dn s) g) = 0 /\ q_cq (getq (s_dn s) g) = 0).
Proof. exact ProofsInv4.zero_on_close. Qed.
Print Assumptions zero_on_close.

Theorem limits_new_unchoke_guard_up : forall v hold c h h', v_dir v = Up -> try_unchoke_new v hold c h = Ok h' ->
  h' = h \/
  (let t := tor_of h c in let q := getq h (grp_of h t) in
   (q_max q = unlimited \/ q_cu q < Z.of_N (q_max q)) /\
   (h_max h = 0%N \/ h_cur h < Z.of_N (h_max h)) /\
   gettn h t < Z.of_N (e_max (getent h t)) /\
   cs_t (getcs h c) + hold < v_now v).
Proof. exact Proofs2.limits_new_unchoke_guard_up. Qed.
Print Assumptions limits_new_unchoke_guard_up.

Theorem tick_max_form_refuted :
  exists ops s, run (init 2 2) ops = Ok s /\ h_max (s_up s) = 2%N /\
    e_min (getent (s_up s) 0) = 3%N /\ e_min (getent (s_up s) 1) = 0%N /\
    h_cur (s_up s) = 4 /\ lenZ (e_u (getent (s_up s) 0)) = 3 /\ lenZ (e_u (getent (s_up s) 1)) = 1.
Proof. exact Proofs2.tick_max_form_refuted. Qed.
Print Assumptions tick_max_form_refuted.

Theorem download_set_queued_within_global_max_refuted :
  exists ops s, run (init 1 1) ops = Ok s /\ h_max (s_dn s) = 1%N /\ h_cur (s_dn s) = 2.
Proof. exact Proofs2.download_set_queued_within_global_max_refuted. Qed.
Print Assumptions download_set_queued_within_global_max_refuted.
