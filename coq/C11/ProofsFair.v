(* C11 proofs: bounded-wait fairness corollaries of cycle_rotates. *)
From Coq Require Import List NArith ZArith Bool Arith Lia.
From LTV.C11 Require Import Model Proofs ProofsInv ProofsInv2 ProofsNT ProofsNT3.
Import ListNotations.
Local Open Scope Z_scope.

(* A connection c of group g is "waiting": queued, choked, not snubbed, alive. *)
Definition waiting (h : half) (g c : nat) : Prop :=
  (c < nc h)%nat /\ inq (getcs h c) = true /\ grp_of h (tor_of h c) = g.

(* fairness, bounded wait, the case that needs no oracle: when c is the ONLY waiting connection of its
   group (slots + 1 interested peers), the next cycle with an effective quota >= 1 unchokes c. Hence
   with one more interested peer than slots nobody waits longer than one cycle: the connection choked
   by a cycle is the only one waiting at the next. *)
Theorem fairness_single_waiter d v g quota h h' z c : v_dir v = d -> InvL d h -> (g < ng h)%nat ->
  (forall t, In t (q_ents (getq h g)) -> e_min (getent h t) = 0%N) ->
  (1 <= N.min quota (q_max (getq h g)))%N ->
  waiting h g c -> (forall c', waiting h g c' -> c' = c) ->
  (lenN (e_u (getent h (tor_of h c))) < e_max (getent h (tor_of h c)))%N ->
  cycle v g quota h = Ok (h', z) ->
  cs_u (getcs h' c) = true /\ cs_a (getcs h' c) = true.
Proof.
  intros Hd I Hg Hmin Hq (Hc & Fc & Gc) Uniq Room C.
  pose proof (iv_wf _ _ I) as W. pose proof (tor_lt h c W) as Ht.
  assert (Ex : exists t, In t (q_ents (getq h g)) /\ e_q (getent h t) <> [] /\ (lenN (e_u (getent h t)) < e_max (getent h t))%N).
  { exists (tor_of h c). split; [|split; auto].
    - destruct (iv_qe _ _ I g Hg) as [_ M]. apply M. split; auto.
    - assert (X : In c (ids (e_q (getent h (tor_of h c))))) by (apply (iv_mq _ _ I (tor_of h c) c Ht); auto).
      intros E. rewrite E in X. destruct X. }
  destruct (cycle_rotates d v g quota h h' z Hd I Hg Hmin Hq Ex C) as (c0 & A & B & G0 & U & L).
  assert (c0 = c) by (apply Uniq; split; auto). subst c0. auto.
Qed.
