(* C11 proofs: cycle_no_throw — the internal_error throws of choke_queue::cycle and of everything
   it calls are unreachable. Part 1: a slot call on a connection in the expected state succeeds;
   adjust_choke_range on a duplicate-free range of connections in the expected state never throws
   and chokes / unchokes exactly min(max, candidates). *)
From Coq Require Import List NArith ZArith Bool Arith Lia Permutation.
From LTV.C11 Require Import Model Proofs Proofs2 ProofsInv ProofsInv2 ProofsInv3 ProofsAlloc ProofsLim ProofsLim2 ProofsLim3.
Import ListNotations.
Local Open Scope Z_scope.

Definition flag (choke : bool) (s : cstat) : bool := if choke then inu s else inq s.

Lemma slot_ok d v c choke h : v_dir v = d -> InvL d h -> (c < nc h)%nat -> flag choke (getcs h c) = true ->
  exists h', slot v c choke h = Ok (h', true).
Proof.
  intros Hd I Hc Fl. pose proof (iv_wf _ _ I) as W. pose proof (tor_lt h c W) as Ht.
  unfold slot. set (t := tor_of h c) in *. destruct choke; simpl in Fl.
  - pose proof Fl as Fl'. apply inu_true in Fl'. destruct Fl' as [A U]. rewrite U. simpl.
    destruct (iv_fl _ _ I c Hc Fl) as [Q S].
    assert (Cin : In c (ids (e_u (getent h t)))) by (apply (iv_mu _ _ I t c Ht); auto).
    destruct (rswap_some fst c (e_u (getent h t)) Cin) as [u' R]. unfold remove_swap. rewrite R.
    destruct (has c (e_q (getent h t))) eqn:Hh.
    + apply has_spec in Hh. apply (iv_mq _ _ I t c Ht) in Hh. destruct Hh as (_ & _ & X). apply inq_true in X. destruct X as (_ & _ & X & _). congruence.
    + destruct (v_dir v) eqn:Ev; [eexists; reflexivity|].
      rewrite (iv_r _ _ I (eq_sym Hd) c Hc Q). eexists; reflexivity.
  - pose proof Fl as Fl'. apply inq_true in Fl'. destruct Fl' as (A & Q & U & S). rewrite U. simpl.
    assert (Cin : In c (ids (e_q (getent h t)))) by (apply (iv_mq _ _ I t c Ht); auto).
    destruct (rswap_some fst c (e_q (getent h t)) Cin) as [q' R]. unfold remove_swap. rewrite R.
    destruct (has c (e_u (getent h t))) eqn:Hh.
    + apply has_spec in Hh. apply (iv_mu _ _ I t c Ht) in Hh. destruct Hh as (_ & _ & X). apply inu_true in X. destruct X as (_ & X). congruence.
    + eexists; reflexivity.
Qed.

(* connections in the expected state, of group g *)
Definition POK (g : nat) (choke : bool) (h : half) (l : list nat) : Prop :=
  forall c, In c l -> (c < nc h)%nat /\ flag choke (getcs h c) = true /\ grp_of h (tor_of h c) = g.

Lemma POK_frame g C choke h h' l : LEff g C h h' -> (forall c, In c l -> ~ C c) -> POK g choke h l -> POK g choke h' l.
Proof. intros E N P c Hc. destruct (P c Hc) as (A & B & G). rewrite (le_nc _ _ _ _ E), (le_cs _ _ _ _ E c (N c Hc)).
  rewrite (Fr_tor _ _ _ _ (le_fr _ _ _ _ E)), (Fr_grp _ _ _ _ (le_fr _ _ _ _ E)). auto. Qed.
Lemma POK_RangeOK g choke h l : POK g choke h l -> RangeOK g h l.
Proof. intros P c Hc. destruct (P c Hc) as (A & _ & G). auto. Qed.

Lemma slot_list_ok d v choke g : forall l h, v_dir v = d -> InvL d h -> NoDup l -> POK g choke h l ->
  exists h', slot_list v choke l h = Ok h'.
Proof.
  induction l as [|a r IH]; intros h Hd I ND P; [eexists; reflexivity|].
  apply NoDup_cons_iff in ND. destruct ND as [Na NDr].
  destruct (P a (or_introl eq_refl)) as (Ha & Fa & Ga).
  destruct (slot_ok d v a choke h Hd I Ha Fa) as [h1 S].
  destruct (slot_LEff d v a choke h h1 true g Hd I Ha Ga S) as (I1 & E1 & _).
  assert (P1 : POK g choke h1 r).
  { eapply POK_frame; [exact E1| |intros c Hc; apply P; right; auto]. intros c Hc ->. auto. }
  destruct (IH h1 Hd I1 NDr P1) as [h' S']. exists h'. cbn [slot_list]. rewrite S. cbn [fst]. exact S'.
Qed.

(* ---------------------------------------------------------------- slices of a duplicate-free list *)
Lemma NoDup_app_disj {A} (l1 l2 : list A) x : NoDup (l1 ++ l2) -> In x l1 -> In x l2 -> False.
Proof. induction l1; simpl; intros ND H1 H2; [auto|]. inversion ND; subst. destruct H1 as [->|H1].
  - apply H3. apply in_or_app. auto. - eauto. Qed.
Lemma NoDup_app_l {A} (l1 l2 : list A) : NoDup (l1 ++ l2) -> NoDup l1.
Proof. induction l1; simpl; intros ND; [constructor|]. inversion ND; subst. constructor; auto. intros X. apply H1. apply in_or_app. auto. Qed.
Lemma NoDup_app_r {A} (l1 l2 : list A) : NoDup (l1 ++ l2) -> NoDup l2.
Proof. induction l1; simpl; intros ND; auto. inversion ND; subst. auto. Qed.
Lemma NoDup_firstn {A} n (l : list A) : NoDup l -> NoDup (firstn n l).
Proof. intros ND. rewrite <- (firstn_skipn n l) in ND. eapply NoDup_app_l; eauto. Qed.
Lemma NoDup_skipn {A} n (l : list A) : NoDup l -> NoDup (skipn n l).
Proof. intros ND. rewrite <- (firstn_skipn n l) in ND. eapply NoDup_app_r; eauto. Qed.

Definition slice {A} (l : list A) (lo n : nat) : list A := firstn n (skipn lo l).
Lemma ids_slice (l : wl) lo n : ids (slice l lo n) = slice (ids l) lo n.
Proof. unfold ids, slice. rewrite skipn_map, firstn_map. reflexivity. Qed.
Lemma NoDup_slice {A} (l : list A) lo n : NoDup l -> NoDup (slice l lo n).
Proof. intros. apply NoDup_firstn, NoDup_skipn. auto. Qed.
Lemma slice_in_firstn {A} (l : list A) lo n k x : (lo + n <= k)%nat -> In x (slice l lo n) -> In x (firstn k l).
Proof.
  unfold slice. intros Hk H. rewrite <- (firstn_skipn lo l) at 1.
  assert (E : firstn k (firstn lo l ++ skipn lo l) = firstn k (firstn lo l) ++ firstn (k - length (firstn lo l)) (skipn lo l)) by apply firstn_app.
  rewrite E. apply in_or_app. right.
  assert (L : (length (firstn lo l) <= lo)%nat) by (rewrite firstn_length; lia).
  assert (X : In x (firstn n (skipn lo l)) -> In x (firstn (k - length (firstn lo l)) (skipn lo l))).
  { generalize (skipn lo l). intros m. assert (n <= k - length (firstn lo l))%nat by lia.
    revert H0. generalize (k - length (firstn lo l))%nat. clear. intros k' Hk. revert k' Hk m.
    induction n; simpl; intros; [tauto|]. destruct k'; [lia|]. destruct m; simpl in *; [tauto|]. destruct H; auto. right. apply IHn; auto. lia. }
  auto.
Qed.
Lemma my_skipn_add {A} : forall k (l : list A) m, skipn (m + k) l = skipn m (skipn k l).
Proof. induction k; intros l m; [rewrite Nat.add_0_r; reflexivity|]. rewrite Nat.add_succ_r. destruct l; simpl; [destruct m; reflexivity|apply IHk]. Qed.
Lemma slice_in_skipn {A} (l : list A) lo n k x : (k <= lo)%nat -> In x (slice l lo n) -> In x (skipn k l).
Proof. unfold slice. intros Hk H. apply my_firstn_In in H.
  replace lo with ((lo - k) + k)%nat in H by lia. rewrite my_skipn_add in H. eapply my_skipn_In; eauto. Qed.
Lemma slice_disjoint {A} (l : list A) lo1 n1 lo2 n2 x : NoDup l -> (lo1 + n1 <= lo2)%nat ->
  In x (slice l lo1 n1) -> In x (slice l lo2 n2) -> False.
Proof. intros ND H H1 H2. rewrite <- (firstn_skipn lo2 l) in ND.
  eapply NoDup_app_disj; [exact ND| |]; [eapply slice_in_firstn; [|exact H1]; lia|eapply slice_in_skipn; [|exact H2]; lia]. Qed.

(* ---------------------------------------------------------------- adjust_choke_range never throws *)
Lemma seg_end_full bound : forall l from, (forall p, In p l -> (snd p <= bound)%N) -> seg_end bound l from = (from + length l)%nat.
Proof. induction l; simpl; intros from H; [lia|]. destruct (bound <? snd a)%N eqn:E.
  - apply N.ltb_lt in E. specialize (H a (or_introl eq_refl)). lia.
  - rewrite IHl by (intros; apply H; auto). lia. Qed.

Lemma bounds_spec_full range : (forall p, In p range -> (snd p < two32)%N) ->
  exists b1 b2 b3, bounds range = [O; b1; b2; b3; length range] /\ (b1 <= b2 <= b3)%nat /\ (b3 <= length range)%nat.
Proof.
  intros WB. unfold bounds. set (n := length range).
  assert (S : forall b bound, (b <= n)%nat -> (b <= seg_end bound (skipn b range) b <= n)%nat).
  { intros b bound Hb. pose proof (seg_end_bounds bound (skipn b range) b) as X. rewrite skipn_length in X. fold n in X. lia. }
  pose proof (S O (0 * ob + (ob - 1))%N ltac:(lia)) as S1. set (b1 := seg_end _ (skipn 0 range) 0) in *.
  pose proof (S b1 (1 * ob + (ob - 1))%N ltac:(lia)) as S2. set (b2 := seg_end _ (skipn b1 range) b1) in *.
  pose proof (S b2 (2 * ob + (ob - 1))%N ltac:(lia)) as S3. set (b3 := seg_end _ (skipn b2 range) b2) in *.
  assert (X : seg_end (3 * ob + (ob - 1))%N (skipn b3 range) b3 = n).
  { rewrite seg_end_full.
    - rewrite skipn_length. fold n. lia.
    - intros p Hp. apply my_skipn_In in Hp. apply WB in Hp. unfold two32, ob in *. lia. }
  rewrite X. exists b1, b2, b3. split; [reflexivity|]. lia.
Qed.

Lemma class_ok d v choke g range lo n hh : v_dir v = d -> InvL d hh -> NoDup (ids range) ->
  POK g choke hh (slice (ids range) lo n) ->
  exists hh', slot_list v choke (rev (ids (firstn n (skipn lo range)))) hh = Ok hh' /\ InvL d hh' /\
              LEff g (fun x => In x (slice (ids range) lo n)) hh hh'.
Proof.
  intros Hd I ND P.
  assert (E : ids (firstn n (skipn lo range)) = slice (ids range) lo n) by apply (ids_slice range lo n).
  rewrite E.
  assert (P' : POK g choke hh (rev (slice (ids range) lo n))) by (intros c Hc; apply P; apply in_rev; auto).
  assert (ND' : NoDup (rev (slice (ids range) lo n))) by (apply NoDup_rev, NoDup_slice; auto).
  destruct (slot_list_ok d v choke g _ hh Hd I ND' P') as [hh' S]. exists hh'. split; auto.
  destruct (slot_list_effect d v choke g _ hh hh' Hd I (POK_RangeOK _ _ _ _ P') S) as (I' & E' & _).
  split; auto. eapply LEff_weaken; [|exact E']. intros x X. apply in_rev. auto.
Qed.

Theorem acr_ok d v heur g range mx choke h : v_dir v = d -> InvL d h -> NoDup (ids range) ->
  POK g choke h (ids range) -> (forall p, In p range -> (snd p < two32)%N) ->
  adjust_choke_range v heur range mx choke h <> Err EInternal /\
  adjust_choke_range v heur range mx choke h <> Err EFault /\
  (forall h' cnt, adjust_choke_range v heur range mx choke h = Ok (h', cnt) -> cnt = N.min mx (lenN range)).
Proof.
  intros Hd I ND P WB. unfold adjust_choke_range.
  destruct (bounds_spec_full range WB) as (b1 & b2 & b3 & EB & B1 & B2). rewrite EB.
  set (b4 := length range) in *. cbn [sizes]. rewrite !Nat.sub_0_r.
  destruct (allocate_slots_no_fault_real heur choke (N.of_nat b1) (N.of_nat (b2 - b1)) (N.of_nat (b3 - b2)) (N.of_nat (b4 - b3)) mx h) as [NF NI].
  destruct (allocate_slots _ _ mx h) as [[tg h0]|e] eqn:A; cbv beta iota.
  2:{ split; [intros X; inversion X; subst; congruence|]. split; [intros X; inversion X; subst; congruence|]. intros h' cnt X; discriminate X. }
  destruct (allocate_slots_exact_real heur choke _ _ _ _ mx h tg h0 A) as (_ & TB & TS).
  pose proof (TB 0%nat ltac:(lia)) as T0. pose proof (TB 1%nat ltac:(lia)) as T1.
  pose proof (TB 2%nat ltac:(lia)) as T2. pose proof (TB 3%nat ltac:(lia)) as T3. cbn [nthN nth] in T0, T1, T2, T3.
  assert (I0 : InvL d h0 /\ LEff g (fun _ => False) h h0).
  { destruct (alloc_state _ _ _ _ _ _ A) as [->|[x ->]]; [split; auto; apply LEff_refl|]. split; [apply inv_with_rs; auto|apply LEff_with_rs]. }
  destruct I0 as (I0 & E0). clear A NF NI.
  assert (P0 : POK g choke h0 (ids range)) by (eapply POK_frame; [exact E0| |exact P]; intros; tauto).
  cbn [nthN nth] in *.
  set (t0 := nthN tg 0) in *. set (t1 := nthN tg 1) in *. set (t2 := nthN tg 2) in *. set (t3 := nthN tg 3) in *.
  set (R := ids range) in *.
  assert (Sub : forall lo n c, In c (slice R lo n) -> In c R) by (intros lo n c X; unfold slice in X; eapply slice_In; eauto).
  assert (PS : forall hh lo n, POK g choke hh R -> POK g choke hh (slice R lo n)) by (intros hh lo n PP c X; apply PP; eapply Sub; eauto).
  (* class 3 *)
  destruct (N.of_nat (b4 - b3) <? t3)%N eqn:C3; [apply N.ltb_lt in C3; lia|].
  destruct (class_ok d v choke g range (b4 - N.to_nat t3) (N.to_nat t3) h0 Hd I0 ND (PS _ _ _ P0)) as (h3 & S3 & I3 & E3).
  rewrite S3. cbv beta iota.
  assert (Pr3 : forall lo n, (lo + n <= b4 - N.to_nat t3)%nat -> POK g choke h3 (slice R lo n)).
  { intros lo n L. eapply POK_frame; [exact E3| |apply PS; exact P0]. intros c X Y. eapply (slice_disjoint R lo n); eauto. }
  (* class 2 *)
  destruct (N.of_nat (b3 - b2) <? t2)%N eqn:C2; [apply N.ltb_lt in C2; lia|].
  destruct (class_ok d v choke g range (b3 - N.to_nat t2) (N.to_nat t2) h3 Hd I3 ND (Pr3 (b3 - N.to_nat t2)%nat (N.to_nat t2) ltac:(lia))) as (h2 & S2 & I2 & E2).
  rewrite S2. cbv beta iota.
  assert (Pr2 : forall lo n, (lo + n <= b3 - N.to_nat t2)%nat -> POK g choke h2 (slice R lo n)).
  { intros lo n L. eapply POK_frame; [exact E2| |apply Pr3; lia]. intros c X Y. eapply (slice_disjoint R lo n); eauto. }
  (* class 1 *)
  destruct (N.of_nat (b2 - b1) <? t1)%N eqn:C1; [apply N.ltb_lt in C1; lia|].
  destruct (class_ok d v choke g range (b2 - N.to_nat t1) (N.to_nat t1) h2 Hd I2 ND (Pr2 (b2 - N.to_nat t1)%nat (N.to_nat t1) ltac:(lia))) as (h1 & S1 & I1 & E1).
  rewrite S1. cbv beta iota.
  assert (Pr1 : forall lo n, (lo + n <= b2 - N.to_nat t1)%nat -> POK g choke h1 (slice R lo n)).
  { intros lo n L. eapply POK_frame; [exact E1| |apply Pr2; lia]. intros c X Y. eapply (slice_disjoint R lo n); eauto. }
  (* class 0 *)
  destruct (N.of_nat b1 <? t0)%N eqn:C0; [apply N.ltb_lt in C0; lia|].
  destruct (class_ok d v choke g range (b1 - N.to_nat t0) (N.to_nat t0) h1 Hd I1 ND (Pr1 (b1 - N.to_nat t0)%nat (N.to_nat t0) ltac:(lia))) as (h00 & S0 & I00 & E00).
  rewrite S0. cbv beta iota.
  assert (SUM : (t0 + t1 + t2 + t3 = N.min mx (lenN range))%N).
  { unfold sum4 in TS. fold t0 t1 t2 t3 in TS. rewrite TS. f_equal. unfold lenN. fold b4. lia. }
  destruct (mx <? t0 + t1 + t2 + t3)%N eqn:CM; [apply N.ltb_lt in CM; lia|].
  split; [discriminate|]. split; [discriminate|]. intros h' cnt X. inversion X. auto.
Qed.

(* ---------------------------------------------------------------- rotation *)
(* the number of unchokes cycle asks for is at least 1 whenever the (remaining) quota is >= 1 *)
Lemma cycle_adjust_ge1 (q : queue) (U quota' : N) : (1 <= quota')%N -> Z.of_N U <= q_cu q ->
  (1 <= N.min (N.max (if (U <? quota')%N then quota' - U else 0) (max_alternate q)) quota')%N.
Proof.
  intros Q Hu. destruct (U <? quota')%N eqn:E.
  - apply N.ltb_lt in E. lia.
  - apply N.ltb_ge in E. assert (A : (1 <= max_alternate q)%N).
    { unfold max_alternate. assert (C : (1 <= Z.to_N (q_cu q))%N) by lia.
      destruct (_ <? 31)%N; apply N.div_le_lower_bound; lia. }
    lia.
Qed.

(* cycle_rotates, the adjust_choke_range part: with a non-empty duplicate-free queue of candidates in
   the expected state and a remaining quota >= 1, the unchoke pass of cycle unchokes at least one
   queued connection (exactly min(adjust, |queued|) of them) *)
Theorem cycle_rotates_acr d v heur g queued (q : queue) (U quota' : N) h h' cnt :
  v_dir v = d -> InvL d h -> NoDup (ids queued) -> POK g false h (ids queued) ->
  (forall p, In p queued -> (snd p < two32)%N) -> queued <> [] ->
  (1 <= quota')%N -> Z.of_N U <= q_cu q ->
  adjust_choke_range v heur queued (N.min (N.max (if (U <? quota')%N then quota' - U else 0) (max_alternate q)) quota') false h = Ok (h', cnt) ->
  (1 <= cnt)%N /\ cnt = N.min (N.min (N.max (if (U <? quota')%N then quota' - U else 0) (max_alternate q)) quota') (lenN queued).
Proof.
  intros Hd I ND P WB NE Q Hu A.
  pose proof (cycle_adjust_ge1 q U quota' Q Hu) as G1.
  set (mx := N.min (N.max (if (U <? quota')%N then (quota' - U)%N else 0%N) (max_alternate q)) quota') in *.
  destruct (acr_ok d v heur g queued mx false h Hd I ND P WB) as (_ & _ & EX).
  rewrite (EX _ _ A). split; auto. assert (1 <= lenN queued)%N by (unfold lenN; destruct queued; [congruence|simpl; lia]). lia.
Qed.
