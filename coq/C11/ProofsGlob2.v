(* C11 proofs: the global counter over ALL op lists (direct choke_queue::balance and
   choke_queue::cycle included). *)
From Coq Require Import List NArith ZArith Bool Arith Lia Permutation.
From LTV.C11 Require Import Model Proofs Proofs2 ProofsInv ProofsInv2 ProofsInv3 ProofsInv4 ProofsAlloc ProofsGlob ProofsLim ProofsLim2 ProofsLim3.
Import ListNotations.
Local Open Scope Z_scope.

Lemma sum_nth_diff (f : queue -> Z) : forall g (l l' : list queue), length l' = length l -> (g < length l)%nat ->
  (forall i, i <> g -> nth i l' dq = nth i l dq) ->
  sumZ (map f l') = sumZ (map f l) + (f (nth g l' dq) - f (nth g l dq)).
Proof.
  induction g; intros l l' L Hg Hn; destruct l as [|a l]; destruct l' as [|a' l']; simpl in *; try lia.
  - assert (E : l' = l).
    { apply nth_ext with (d := dq) (d' := dq); [lia|]. intros n _. apply (Hn (S n)). lia. }
    subst. lia.
  - pose proof (Hn O ltac:(lia)) as E0. simpl in E0. subst a'.
    rewrite (IHg l l') by (try lia; intros i Ni; apply (Hn (S i)); lia). lia.
Qed.

Lemma D_CEff g h h' : CEff g h h' -> (g < ng h)%nat -> D h' = D h - (q_cu (getq h' g) - q_cu (getq h g)).
Proof.
  intros E Hg. unfold D, SQu. destruct (ce_cur _ _ _ E) as [-> _].
  rewrite (sum_nth_diff q_cu g (h_qs h) (h_qs h')).
  - unfold getq. lia.
  - apply (ce_ng _ _ _ E).
  - exact Hg.
  - intros i Ni. apply (ce_q _ _ _ E i Ni).
Qed.

Lemma D_cycle_op d v g quota h h' z : v_dir v = d -> InvL d h -> (g < ng h)%nat ->
  cycle v g quota h = Ok (h', z) -> D (with_cur h' (h_cur h' + z)) = D h.
Proof. intros Hd I Hg C. destruct (cycle_effect d v g quota h h' z Hd I Hg C) as (_ & E & _ & ->).
  rewrite D_with_cur, (D_CEff g h h' E Hg). lia. Qed.

Lemma D_balance d v g h h' : v_dir v = d -> InvL d h -> (g < ng h)%nat -> balance v g h = Ok h' -> D h' = D h.
Proof.
  intros Hd I Hg. unfold balance. destruct (_ =? _); [intros X; inversion X; auto|].
  set (q := getq h g). set (h1 := prepare_weights v g h).
  pose proof (prepare_weights_inv d v g h I) as I1. fold h1 in I1.
  pose proof (CEff_prepare d v g h I Hg) as E1. fold h1 in E1.
  destruct (iv_qe _ _ I g Hg) as [NDe Me].
  destruct (retrieve_connections v (q_ents q) (h1, mkGS 0 0, [], [])) as [[[[h2 gs] queued] unchoked]|] eqn:RC; cbv beta iota; [|intros X; discriminate X].
  assert (Hts : forall t, In t (q_ents q) -> (t < nt h1)%nat /\ grp_of h1 t = g).
  { intros t X. apply Me in X. rewrite (ce_nt _ _ _ E1). unfold grp_of. rewrite (ce_tgrp _ _ _ E1). exact X. }
  assert (R0 : RInv g h1 (mkGS 0 0) [] [] []).
  { unfold RInv, lenZ. split; [simpl; lia|split; [intros c []|split; [intros c []|simpl; lia]]]. }
  destruct (retrieve_effect d v g (q_ents q) h1 (mkGS 0 0) [] [] h2 gs queued unchoked [] Hd I1 NDe Hts R0 RC) as (I2 & E2 & Q2 & R2).
  simpl app in R2. destruct R2 as (S2 & RQ & RU & F2).
  pose proof (CEff_of_LEff _ _ _ _ E2) as C2. cbn [gs_changed] in Q2.
  assert (Hg1 : (g < ng h1)%nat) by (rewrite (ce_ng _ _ _ E1); auto).
  assert (Hg2 : (g < ng h2)%nat) by (rewrite (ce_ng _ _ _ C2); auto).
  assert (D1 : D h1 = D h).
  { rewrite (D_CEff g h h1 E1 Hg). pose proof (prepare_weights_PW v g h) as P. fold h1 in P. rewrite (pw_q _ _ P). lia. }
  assert (D2 : D h2 = D h - Z.of_N (gs_changed gs)) by (rewrite (D_CEff g h1 h2 C2 Hg1), Q2, D1; lia).
  destruct (if (gs_changed gs =? 0)%N then Ok h2 else recv_unchoke (Z.of_N (gs_changed gs)) h2) as [h3|] eqn:E3; cbv beta iota; [|intros X; discriminate X].
  assert (H3 : exists x, h3 = with_cur h2 x /\ D h3 = D h).
  { destruct (gs_changed gs =? 0)%N eqn:Z0.
    - apply N.eqb_eq in Z0. inversion E3; subst h3. exists (h_cur h2). split; [destruct h2; reflexivity|]. rewrite D2, Z0. lia.
    - unfold recv_unchoke in E3. destruct (_ <? _); [discriminate|]. inversion E3; subst h3.
      eexists. split; [reflexivity|]. rewrite D_with_cur, D2. lia. }
  destruct H3 as (x & -> & D3). set (h3 := with_cur h2 x) in *.
  assert (I3 : InvL d h3) by (apply inv_with_cur; auto).
  assert (Hg3 : (g < ng h3)%nat) by exact Hg2.
  assert (Fin : forall hx (r : Z), D hx = D h - r -> (if (r =? 0) then Ok hx else recv_unchoke r hx) = Ok h' -> D h' = D h).
  { intros hx r Dx. destruct (r =? 0) eqn:Z0.
    - apply Z.eqb_eq in Z0. intros X; inversion X; subst. lia.
    - unfold recv_unchoke. destruct (_ <? _); [discriminate|]. intros X; inversion X; subst. rewrite D_with_cur. lia. }
  match goal with |- context [if (0 <? ?a) then _ else _] => destruct (0 <? a) eqn:CA end.
  - destruct (adjust_choke_range v (q_heur q) queued _ false h3) as [[h4 c4]|] eqn:A4; cbv beta iota; [|intros X; discriminate X].
    destruct (acr_effect d v (q_heur q) g queued _ false h3 h4 c4 Hd I3 RQ A4) as (I4 & E4 & Q4 & _).
    cbn [fst snd]. apply Fin. rewrite (D_CEff g h3 h4 (CEff_of_LEff _ _ _ _ E4) Hg3), Q4, D3. lia.
  - match goal with |- context [if (?a <? 0) then _ else _] => destruct (a <? 0) eqn:CB end.
    + destruct (adjust_choke_range v (q_heur q) unchoked _ true h3) as [[h4 c4]|] eqn:A4; cbv beta iota; [|intros X; discriminate X].
      destruct (acr_effect d v (q_heur q) g unchoked _ true h3 h4 c4 Hd I3 RU A4) as (I4 & E4 & Q4 & _).
      cbn [fst snd]. apply Fin. rewrite (D_CEff g h3 h4 (CEff_of_LEff _ _ _ _ E4) Hg3), Q4, D3. lia.
    + cbn [fst snd]. apply Fin. rewrite D3. lia.
Qed.

Lemma step_D_all s o rs s' : FullSt s -> step s o rs = Ok s' -> D (s_up s') = 0 /\ D (s_dn s') = 0.
Proof.
  intros F. destruct (prod_op o) eqn:P; [apply step_D; auto|].
  destruct F as (G & Du & Dd). pose proof G as [Iu Id].
  assert (Ih : forall d, InvL d (with_rs (get_half d s) rs)) by (intros d; apply inv_with_rs; destruct d; auto).
  assert (Fin : forall d f, (forall h', f (env_of d s) (with_rs (get_half d s) rs) = Ok h' -> D h' = D (get_half d s)) ->
                on_half d rs s f = Ok s' -> D (s_up s') = 0 /\ D (s_dn s') = 0).
  { intros d f Hf O. destruct (on_half_D d rs s s' f O Hf). split; congruence. }
  destruct o; simpl in P; try discriminate; simpl.
  - (* OBalance *) destruct (Nat.ltb g _) eqn:L; [|intros H; inversion H; subst; auto]. apply Nat.ltb_lt in L.
    apply Fin. intros h' B. rewrite (D_balance d (env_of d s) g _ h' (dir_env d s) (Ih d) L B). apply D_with_rs.
  - (* OCycle *) destruct (Nat.ltb g _) eqn:L; [|intros H; inversion H; subst; auto]. apply Nat.ltb_lt in L.
    apply Fin. intros h' B. destruct (cycle _ _ _ _) as [[h1 z]|] eqn:C; [|discriminate]. inversion B; subst h'.
    cbn [fst snd]. rewrite (D_cycle_op d (env_of d s) g quota _ h1 z (dir_env d s) (Ih d) L C). apply D_with_rs.
Qed.

Lemma run_full_all : forall ops s s', FullSt s -> run s ops = Ok s' -> FullSt s'.
Proof. induction ops as [|[o rs] r IH]; simpl; intros s s' G H; [inversion H; subst; auto|].
  destruct (step s o rs) as [s1|] eqn:S; [|discriminate].
  apply (IH s1 s'); auto. destruct (step_D_all s o rs s1 G S). split; [eapply step_inv; [apply G|exact S]|auto]. Qed.

(* global counter = sum of the groups' counters, after EVERY op list *)
Theorem global_counter_all : forall hold nt0 ng0 ops s, (0 < nt0)%nat -> (0 < ng0)%nat ->
  run (init_h hold nt0 ng0) ops = Ok s ->
  h_cur (s_up s) = SQu (s_up s) /\ h_cur (s_dn s) = SQu (s_dn s).
Proof. intros hold nt0 ng0 ops s Hn Hg R.
  assert (F0 : FullSt (init_h hold nt0 ng0)).
  { split; [apply init_inv; auto|]. destruct (empty_half_good nt0 ng0 0 Hn Hg) as (_ & _ & _ & _ & A).
    destruct (empty_half_good nt0 ng0 3 Hn Hg) as (_ & _ & _ & _ & B). auto. }
  destruct (run_full_all ops _ _ F0 R) as (_ & A & B). unfold D in *. lia. Qed.
