(* C11 proofs, part 6: the invariant over all op lists; zero_on_close. *)
From Coq Require Import List NArith ZArith Bool Arith Lia Permutation.
From LTV.C11 Require Import Model Proofs Proofs2 ProofsInv ProofsInv2 ProofsInv3.
Import ListNotations.
Local Open Scope Z_scope.

Definition InvSt (s : st) : Prop := InvL Up (s_up s) /\ InvL Dn (s_dn s).

Lemma alive_lt h c : cs_a (getcs h c) = true -> (c < nc h)%nat.
Proof. intros A. destruct (Nat.lt_ge_cases c (nc h)); auto. unfold getcs in A. rewrite nth_overflow in A by (unfold nc in *; lia). discriminate. Qed.

Lemma on_half_inv d rs s s' (f : env -> half -> res half) :
  (forall h', f (env_of d s) (with_rs (get_half d s) rs) = Ok h' -> InvL d (with_rs (get_half d s) rs) -> InvL d h') ->
  InvSt s -> on_half d rs s f = Ok s' -> InvSt s'.
Proof. unfold on_half. intros Hf [Iu Id]. destruct (f _ _) as [h1|] eqn:F; [|discriminate]. intros H; injection H as <-.
  assert (X : InvL d (with_rs h1 [])).
  { apply inv_with_rs. apply Hf; auto. apply inv_with_rs. destruct d; auto. }
  destruct d; simpl in *; split; auto. Qed.

Lemma dir_env d s : v_dir (env_of d s) = d. Proof. reflexivity. Qed.

Lemma set_rd_only_r d b : only_r (set_rd d b).
Proof. intros s. destruct d; simpl; repeat split. Qed.

Lemma step_inv s o rs s' : InvSt s -> step s o rs = Ok s' -> InvSt s'.
Proof.
  intros G. destruct o; simpl.
  - (* ONew *) destruct (_ && _) eqn:L; [|intros H; injection H as <-; auto].
    apply andb_prop in L. destruct L as [L1 L2]. apply Nat.ltb_lt in L1, L2.
    intros H; injection H as <-. destruct G as [Iu Id]. split; simpl.
    + apply (add_conn_inv Up t (s_up s)); auto. + apply (add_conn_inv Dn t (s_dn s)); auto.
  - (* OQueue *) destruct (alive _ _) eqn:A; [|intros H; injection H as <-; auto]. unfold alive in A.
    apply on_half_inv; auto. intros h' F I.
    assert (Hc : (c < nc (with_rs (get_half d s) rs))%nat) by (apply alive_lt; exact A).
    eapply (set_queued_inv d _ c (updcs c (set_rd d true) (with_rs (get_half d s) rs))); [apply dir_env| | | | |exact F].
    + apply flag_inv; auto; destruct d; simpl; auto; try (intros X; apply (iv_fl _ _ I c Hc X)); try (intros _ _; reflexivity).
      intros E; discriminate.
    + rewrite nc_updcs. auto.
    + rewrite getcs_updcs_eq by auto. destruct d; simpl; auto.
    + intros ->. rewrite getcs_updcs_eq by auto. reflexivity.
  - (* OUnqueue *) destruct (alive _ _) eqn:A; [|intros H; injection H as <-; auto]. unfold alive in A.
    apply on_half_inv; auto. intros h' F I.
    eapply (set_not_queued_inv d _ c (set_rd d false)); [apply dir_env|exact I|apply alive_lt; exact A|exact A|apply set_rd_only_r|exact F].
  - (* OUnqueueKeep *) destruct (alive _ _) eqn:A; [|intros H; injection H as <-; auto]. unfold alive in A.
    apply on_half_inv; auto. intros h' F I. rewrite <- (updcs_id c (with_rs (get_half d s) rs)) in F.
    eapply (set_not_queued_inv d _ c (fun s0 => s0)); [apply dir_env|exact I|apply alive_lt; exact A|exact A| |exact F].
    intros s0. repeat split.
  - (* OSnub *) destruct (alive _ _) eqn:A; [|intros H; injection H as <-; auto]. unfold alive in A.
    apply on_half_inv; auto. intros h' F I.
    eapply set_snubbed_inv; [apply dir_env|exact I|apply alive_lt; exact A|exact A|exact F].
  - (* OUnsnub *) destruct (alive _ _) eqn:A; [|intros H; injection H as <-; auto]. unfold alive in A.
    apply on_half_inv; auto. intros h' F I.
    eapply set_not_snubbed_inv; [apply dir_env|exact I|apply alive_lt; exact A|exact A|exact F].
  - (* OClose *) destruct (alive (s_up s) c && alive (s_dn s) c) eqn:A; [|intros H; injection H as <-; auto].
    apply andb_prop in A. destruct A as [Au Ad]. unfold alive in Au, Ad.
    destruct (on_half Up rs s _) as [s1|] eqn:O1; [|discriminate].
    assert (G1 : InvSt s1).
    { eapply on_half_inv; [|exact G|exact O1]. intros h' F I.
      eapply (close_inv Up c (with_rs (s_up s) rs)); [exact I|apply alive_lt; exact Au|exact Au|exact F]. }
    assert (Ed : s_dn s1 = s_dn s).
    { unfold on_half in O1. destruct (close_half c _); [|discriminate]. injection O1 as <-. reflexivity. }
    intros O2. eapply on_half_inv; [|exact G1|exact O2]. intros h' F I. simpl in F, I. rewrite Ed in *.
    eapply (close_inv Dn c (with_rs (s_dn s) rs)); [exact I|apply alive_lt; exact Ad|exact Ad|exact F].
  - (* OSetMaxSlots *) destruct (Nat.ltb _ _); [|intros H; injection H as <-; auto]. apply on_half_inv; auto.
    intros h' F I. injection F as <-. apply inv_upde_lims; auto.
  - destruct (Nat.ltb _ _); [|intros H; injection H as <-; auto]. apply on_half_inv; auto.
    intros h' F I. injection F as <-. apply inv_upde_lims; auto.
  - (* OBalEntry *) destruct (Nat.ltb _ _); [|intros H; injection H as <-; auto]. apply on_half_inv; auto.
    intros h' F I. eapply balance_entry_inv; [apply dir_env|exact I|exact F].
  - (* OSetQMax *) destruct (Nat.ltb _ _); [|intros H; injection H as <-; auto]. apply on_half_inv; auto.
    intros h' F I. injection F as <-. apply inv_updq_lims; auto.
  - destruct (_ && _); [|intros H; injection H as <-; auto]. apply on_half_inv; auto.
    intros h' F I. injection F as <-. apply inv_updq_lims; auto.
  - (* OSetGMax *) destruct (N.leb _ _); [|intros H; injection H as <-; auto]. apply on_half_inv; auto.
    intros h' F I. injection F as <-. apply inv_with_max; auto.
  - (* OBalance *) destruct (Nat.ltb _ _); [|intros H; injection H as <-; auto]. apply on_half_inv; auto.
    intros h' F I. eapply balance_inv; [apply dir_env|exact I|exact F].
  - (* OCycle *) destruct (Nat.ltb _ _); [|intros H; injection H as <-; auto]. apply on_half_inv; auto.
    intros h' F I. destruct (cycle _ _ _ _) as [[h1 z]|] eqn:C; [|discriminate]. injection F as <-.
    apply inv_with_cur. eapply cycle_inv; [apply dir_env|exact I|exact C].
  - (* OTick *) destruct G as [Iu Id].
    destruct (balance_unchoked (env_of Up s) _) as [hu|] eqn:B1; [|discriminate].
    apply balance_unchoked_inv with (d := Up) in B1; [|reflexivity|apply inv_with_rs; auto].
    match goal with |- context [balance_unchoked ?e ?hh] => destruct (balance_unchoked e hh) as [hd|] eqn:B2; [|discriminate] end.
    apply balance_unchoked_inv with (d := Dn) in B2; [|reflexivity|apply inv_with_rs; exact Id].
    destruct (tick_check _); [|discriminate]. destruct (tick_check _); [|discriminate].
    intros H; injection H as <-. split; simpl; apply inv_with_rs; auto.
  - (* OSetGroup *) destruct (_ && _) eqn:C; [|intros H; injection H as <-; auto].
    apply andb_prop in C. destruct C as [C1 C2].
    apply andb_prop in C1. destruct C1 as [C1 C13]. apply andb_prop in C1. destruct C1 as [C11 C12].
    apply andb_prop in C2. destruct C2 as [C2 C23]. apply andb_prop in C2. destruct C2 as [C21 C22].
    apply Nat.ltb_lt in C11, C12, C21, C22. apply negb_true_iff in C13, C23. apply Nat.eqb_neq in C13, C23.
    destruct (on_half Up rs s _) as [s1|] eqn:O1; [|discriminate].
    assert (G1 : InvSt s1).
    { eapply on_half_inv; [|exact G|exact O1]. intros h' F I.
      eapply (move_half_inv Up t g (with_rs (s_up s) rs)); [exact I|exact C11|exact C12|exact C13|exact F]. }
    assert (Ed : s_dn s1 = s_dn s).
    { unfold on_half in O1. destruct (move_half t g _); [|discriminate]. injection O1 as <-. reflexivity. }
    intros O2. eapply on_half_inv; [|exact G1|exact O2]. intros h' F I. simpl in F, I. rewrite Ed in *.
    eapply (move_half_inv Dn t g (with_rs (s_dn s) rs)); [exact I|exact C21|exact C22|exact C23|exact F].
  - (* OAdvance *) intros H; injection H as <-. destruct G; split; auto.
  - (* ORate *) destruct (Nat.ltb _ _); intros H; injection H as <-; auto.
Qed.

Lemma run_inv : forall ops s s', InvSt s -> run s ops = Ok s' -> InvSt s'.
Proof. induction ops as [|[o rs] r IH]; simpl; intros s s' G H; [injection H as <-; auto|].
  destruct (step s o rs) as [s1|] eqn:S; [|discriminate]. eapply IH; [|exact H]. eapply step_inv; eauto. Qed.

Lemma nth_repeat_P {A} (P : A -> Prop) (x d : A) : P x -> P d -> forall n t, P (nth t (repeat x n) d).
Proof. intros Px Pd. induction n; destruct t; simpl; auto. Qed.
Lemma sum_zero (F : nat -> Z) : forall l, (forall i, F i = 0) -> sumZ (map F l) = 0.
Proof. induction l; simpl; intros; auto. rewrite H, IHl; auto. Qed.

Lemma empty_half_inv d nt0 ng0 heur : (0 < nt0)%nat -> (0 < ng0)%nat -> InvL d (empty_half nt0 ng0 heur).
Proof.
  intros Hn Hg. destruct (empty_half_good nt0 ng0 heur Hn Hg) as [W _].
  destruct ng0 as [|k]; [lia|]. set (h := empty_half nt0 (S k) heur) in *.
  assert (Eq : forall t, e_q (getent h t) = []) by (intros t; unfold getent, h; simpl; apply nth_repeat_P; reflexivity).
  assert (Eu : forall t, e_u (getent h t) = []) by (intros t; unfold getent, h; simpl; apply nth_repeat_P; reflexivity).
  assert (Gr : forall t, grp_of h t = O) by (intros t; unfold grp_of, h; simpl; apply nth_repeat_P; reflexivity).
  assert (NT : nt h = nt0) by (unfold nt, h; simpl; apply repeat_length).
  assert (GS : forall g f, (f = e_q \/ f = e_u) -> gsum h g f = 0).
  { intros g f [-> | ->]; unfold gsum; apply sum_zero; intros i; rewrite ?Eq, ?Eu; destruct (Nat.eqb _ _); reflexivity. }
  constructor; auto.
  - intros t _. rewrite Eq. constructor.
  - intros t _. rewrite Eu. constructor.
  - intros t c _. rewrite Eq. simpl. split; [tauto|]. intros (X & _). unfold nc, h in X. simpl in X. lia.
  - intros t c _. rewrite Eu. simpl. split; [tauto|]. intros (X & _). unfold nc, h in X. simpl in X. lia.
  - intros c X. unfold nc, h in X. simpl in X. lia.
  - intros _ c X. unfold nc, h in X. simpl in X. lia.
  - intros t _. rewrite Eu. unfold gettn, h. simpl. apply nth_repeat_P; reflexivity.
  - intros g _. rewrite !GS by auto. unfold getq, h. simpl. destruct g; simpl; [auto|]. split; apply nth_repeat_P; reflexivity.
  - intros g _. rewrite NT. unfold getq, h. simpl. destruct g; simpl.
    + split; [apply seq_NoDup|]. intros t. rewrite in_seq, Gr. intuition lia.
    + assert (E : q_ents (nth g (repeat (mkQ unlimited 0 0 heur []) k) dq) = []) by (apply nth_repeat_P; reflexivity).
      rewrite E. split; [constructor|]. intros t. rewrite Gr. simpl. intuition lia.
Qed.

Lemma init_inv hold nt0 ng0 : (0 < nt0)%nat -> (0 < ng0)%nat -> InvSt (init_h hold nt0 ng0).
Proof. intros. split; simpl; apply empty_half_inv; auto. Qed.

(* membership / counter invariant for ALL op lists *)
Theorem membership_inv : forall hold nt0 ng0 ops s, (0 < nt0)%nat -> (0 < ng0)%nat ->
  run (init_h hold nt0 ng0) ops = Ok s -> InvL Up (s_up s) /\ InvL Dn (s_dn s).
Proof. intros hold nt0 ng0 ops s Hn Hg R. exact (run_inv ops _ _ (init_inv hold nt0 ng0 Hn Hg) R). Qed.

(* zero_on_close: once every connection is closed every list is empty and every slot counter is 0 *)
Theorem zero_on_close_half : forall d h, InvL d h -> (forall c, (c < nc h)%nat -> cs_a (getcs h c) = false) ->
  (forall t, (t < nt h)%nat -> e_q (getent h t) = [] /\ e_u (getent h t) = [] /\ gettn h t = 0) /\
  (forall g, (g < ng h)%nat -> q_cu (getq h g) = 0 /\ q_cq (getq h g) = 0).
Proof.
  intros d h I Dead.
  assert (Eq : forall t, (t < nt h)%nat -> e_q (getent h t) = []).
  { intros t Ht. destruct (e_q (getent h t)) as [|p r] eqn:E; auto.
    assert (X : In (fst p) (ids (e_q (getent h t)))) by (rewrite E; left; reflexivity).
    apply (iv_mq _ _ I t _ Ht) in X. destruct X as (Hc & _ & Q). apply inq_true in Q. rewrite (Dead _ Hc) in Q. destruct Q; discriminate. }
  assert (Eu : forall t, (t < nt h)%nat -> e_u (getent h t) = []).
  { intros t Ht. destruct (e_u (getent h t)) as [|p r] eqn:E; auto.
    assert (X : In (fst p) (ids (e_u (getent h t)))) by (rewrite E; left; reflexivity).
    apply (iv_mu _ _ I t _ Ht) in X. destruct X as (Hc & _ & Q). apply inu_true in Q. rewrite (Dead _ Hc) in Q. destruct Q; discriminate. }
  split.
  - intros t Ht. repeat split; auto. rewrite (iv_tn _ _ I t Ht), Eu by auto. reflexivity.
  - intros g Hg. destruct (iv_qc _ _ I g Hg) as [A B]. rewrite A, B. unfold gsum.
    assert (Z1 : forall f : entry -> wl, (forall i, (i < nt h)%nat -> f (getent h i) = []) ->
       sumZ (map (fun t => if Nat.eqb (grp_of h t) g then lenZ (f (getent h t)) else 0) (seq 0 (nt h))) = 0).
    { intros f Hf. rewrite (sum_seq_ext _ (fun _ => 0)); [apply sum_zero; reflexivity|].
      intros i Hi. rewrite Hf by auto. destruct (Nat.eqb _ _); reflexivity. }
    rewrite (Z1 e_u Eu), (Z1 e_q Eq). auto.
Qed.

Theorem zero_on_close : forall hold nt0 ng0 ops s, (0 < nt0)%nat -> (0 < ng0)%nat ->
  run (init_h hold nt0 ng0) ops = Ok s ->
  (forall c, cs_a (getcs (s_up s) c) = false) -> (forall c, cs_a (getcs (s_dn s) c) = false) ->
  (forall t, (t < nt (s_up s))%nat -> e_q (getent (s_up s) t) = [] /\ e_u (getent (s_up s) t) = [] /\ gettn (s_up s) t = 0) /\
  (forall g, (g < ng (s_up s))%nat -> q_cu (getq (s_up s) g) = 0 /\ q_cq (getq (s_up s) g) = 0) /\
  (forall t, (t < nt (s_dn s))%nat -> e_q (getent (s_dn s) t) = [] /\ e_u (getent (s_dn s) t) = [] /\ gettn (s_dn s) t = 0) /\
  (forall g, (g < ng (s_dn s))%nat -> q_cu (getq (s_dn s) g) = 0 /\ q_cq (getq (s_dn s) g) = 0).
Proof. intros hold nt0 ng0 ops s Hn Hg R Du Dd. destruct (membership_inv hold nt0 ng0 ops s Hn Hg R) as [Iu Id].
  destruct (zero_on_close_half Up _ Iu (fun c _ => Du c)) as [A B].
  destruct (zero_on_close_half Dn _ Id (fun c _ => Dd c)) as [C E]. auto. Qed.

(* the global counter: ResourceManager::receive_tick re-establishes (and checks) global = sum over groups *)
Lemma tick_check_ok h h' : tick_check h = Ok h' -> h_cur h = fold_left (fun a q => a + q_cu q) (h_qs h) 0.
Proof. unfold tick_check. destruct (_ =? _) eqn:E; [|discriminate]. intros _. apply Z.eqb_eq; auto. Qed.
Theorem global_counter_after_tick : forall s rs s', step s OTick rs = Ok s' ->
  h_cur (s_up s') = fold_left (fun a q => a + q_cu q) (h_qs (s_up s')) 0 /\
  h_cur (s_dn s') = fold_left (fun a q => a + q_cu q) (h_qs (s_dn s')) 0.
Proof. intros s rs s'. cbn [step]. cbv zeta.
  destruct (balance_unchoked (env_of Up s) _) as [hu|]; [|discriminate].
  match goal with |- context [balance_unchoked ?e ?hh] => destruct (balance_unchoked e hh) as [hd|]; [|discriminate] end.
  match goal with |- context [tick_check ?x] => destruct (tick_check x) as [a1|] eqn:T1; [|discriminate] end.
  match goal with |- context [tick_check ?x] => destruct (tick_check x) as [a2|] eqn:T2; [|discriminate] end.
  intros H. injection H as E. subst s'. apply tick_check_ok in T1, T2. auto. Qed.

Definition ex_ops2 : list (op * list N) :=
  [(ONew 0, []); (ONew 1, []); (OQueue Up 0, []); (OQueue Dn 1, []); (OSetGroup 1 1, []); (OSnub Up 0, []);
   (OAdvance 10000001, []); (OUnsnub Up 0, []); (OSetGMax Up 1%N, []); (OQueue Up 1, []); (OTick, [3; 4; 5]%N);
   (OBalEntry Up 0, [1]%N); (OCycle Up 0 1%N, [7]%N); (OBalance Dn 1, []); (OClose 0, []); (OClose 1, [])].
Example zero_on_close_nonvacuous :
  match run (init 2 2) ex_ops2 with
  | Ok s => (forall c, cs_a (getcs (s_up s) c) = false) /\ h_cur (s_up s) = 0
  | Err _ => False end.
Proof. vm_compute. split; auto. intros c. destruct c as [|[|[|c]]]; reflexivity. Qed.
