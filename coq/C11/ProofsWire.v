(* C11 proofs: the wire clause. wire_matches_record: whenever no CHOKE/UNCHOKE is pending
   (m_send_choked = false) the last message the peer was sent equals m_up_choke, for every
   interleaving of choke decisions and buffer writes; and the acceptor used on the
   implementation's traces accepts every trace of the model. *)
From Coq Require Import List Bool.
From LTV.C11 Require Import Model.
Import ListNotations.

Definition WI (s : wst) : Prop := w_pend s = false -> w_told s = w_rec s.

Lemma wstep_WI s e : WI s -> WI (fst (wstep s e)).
Proof. unfold WI. destruct e; simpl; [discriminate|]. destruct (w_pend s) eqn:P; simpl; auto. Qed.

Lemma wstep_msg s e b : snd (wstep s e) = Some b -> b = w_rec s /\ w_told (fst (wstep s e)) = b.
Proof. destruct e; simpl; [discriminate|]. destruct (w_pend s); simpl; [|discriminate]. intros H; inversion H; auto. Qed.

Lemma wrun_app : forall evs s msgs, wrun s evs msgs = (fst (wrun s evs []), msgs ++ snd (wrun s evs [])).
Proof.
  induction evs as [|e r IH]; intros s msgs; simpl; [rewrite app_nil_r; reflexivity|].
  destruct (wstep s e) as [s1 [b|]].
  - rewrite (IH s1 (msgs ++ [b])), (IH s1 [b]). simpl. rewrite <- app_assoc. reflexivity.
  - rewrite (IH s1 msgs). reflexivity.
Qed.

Lemma last_cons_default {A} (b d : A) ms : last (b :: ms) d = last ms b.
Proof. revert b d. induction ms; intros; [reflexivity|]. simpl in *. destruct ms; [reflexivity|]. apply IHms. Qed.

(* every message written carries the record at write time; afterwards the peer's view is the last message *)
Lemma wrun_spec : forall evs s, WI s ->
  WI (fst (wrun s evs [])) /\ w_told (fst (wrun s evs [])) = last (snd (wrun s evs [])) (w_told s).
Proof.
  induction evs as [|e r IH]; intros s I; simpl; [split; auto|].
  destruct (wstep s e) as [s1 m] eqn:E.
  pose proof (wstep_WI s e I) as I1. rewrite E in I1. simpl in I1.
  destruct (IH s1 I1) as [I' T'].
  destruct m as [b|].
  - pose proof (wstep_msg s e b) as M. rewrite E in M. simpl in M. destruct (M eq_refl) as [_ Tb].
    rewrite (wrun_app r s1 [b]). simpl. split; auto. rewrite T', Tb. symmetry. apply last_cons_default.
  - assert (Ts : w_told s1 = w_told s).
    { destruct e; simpl in E; [inversion E; subst; reflexivity|]. destruct (w_pend s); inversion E; subst; reflexivity. }
    split; auto. rewrite T', Ts. reflexivity.
Qed.

Theorem wire_matches_record : forall evs, let s := fst (wrun winit evs []) in w_pend s = false -> w_told s = w_rec s.
Proof. intros evs. destruct (wrun_spec evs winit (fun _ => eq_refl)) as [I _]. exact I. Qed.

Lemma wobserve_accept : forall steps s, WI s -> wire_accept (w_told s) (wobserve s steps) = true.
Proof.
  induction steps as [|evs r IH]; intros s I; simpl; auto.
  destruct (wrun_spec evs s I) as [I' T].
  destruct (wrun s evs []) as [s' ms]. simpl in *.
  rewrite <- T. rewrite (IH s' I'). rewrite andb_true_r.
  destruct (w_pend s') eqn:P; simpl; auto. rewrite (I' P). apply eqb_reflx.
Qed.

(* the acceptor accepts every trace the model can produce *)
Theorem wire_accept_complete : forall steps, wire_accept false (wobserve winit steps) = true.
Proof. intros. apply (wobserve_accept steps winit). intros _. reflexivity. Qed.

(* and it rejects a quiescent disagreement (non-vacuity of the check) *)
Example wire_accept_rejects : wire_accept false [(true, false, [])] = false.
Proof. reflexivity. Qed.
Example wire_matches_record_nonvacuous :
  let s := fst (wrun winit [WSlot false; WWrite; WSlot true; WSlot false; WWrite] []) in w_pend s = false /\ w_told s = true.
Proof. vm_compute. auto. Qed.
