(* The constants and weight tables of the model are those of the source tree (C11/ParamsGen.v is
   regenerated from /repo on every run), and the tables satisfy the side condition the allocation
   theorems need: every weight is >= 1. *)
From Coq Require Import List NArith ZArith Bool.
From LTV.C11 Require Import ParamsGen.
From LTV.C11 Require Import Model.
Import ListNotations.
Local Open Scope N_scope.

Definition list_eqb (a b : list N) : bool :=
  (length a =? length b)%nat && forallb (fun p => fst p =? snd p) (combine a b).
Definition table_ok (l : list N) : bool := (length l =? 4)%nat && forallb (fun w => 1 <=? w) l.

Definition params_ok : bool :=
  (Params.c11_heur_rows =? 4) &&
  list_eqb (choke_table 0) Params.c11_choke_w0 && list_eqb (unchoke_table 0) Params.c11_unchoke_w0 &&
  list_eqb (choke_table 1) Params.c11_choke_w1 && list_eqb (unchoke_table 1) Params.c11_unchoke_w1 &&
  list_eqb (choke_table 2) Params.c11_choke_w2 && list_eqb (unchoke_table 2) Params.c11_unchoke_w2 &&
  list_eqb (choke_table 3) Params.c11_choke_w3 && list_eqb (unchoke_table 3) Params.c11_unchoke_w3 &&
  forallb (fun k => table_ok (choke_table k) && table_ok (unchoke_table k)) [0; 1; 2; 3]%nat &&
  (Params.c11_order_base =? ob) && (Params.c11_order_max_size =? 4) &&
  (Params.c11_requeue_guard_s =? 10) && (Params.c11_requeue_guard_unsnub_s =? 10) &&
  (Params.c11_global_max_cap =? 1048576) && (2 ^ Params.c11_balance_cap =? 1048576).

Lemma params_ok_now : params_ok = true.
Proof. vm_compute. reflexivity. Qed.
