(* The constants and weight tables of the model are those of the COMPILED code: C11/ParamsProbe.v is
   rewritten on every run by props/c11.py from `harness/c11.cc --params` (static tables read from
   the linked library, caps and hold-off times found by behavioural probes). The tables satisfy
   the side condition the allocation theorems need: every weight is >= 1. The hold-off times are
   not constrained by the property: the model is parametric in them (init_h / v_hold), every
   theorem holds for all values, and the probed values are handed to the model driver. *)
From Coq Require Import List NArith ZArith Bool.
From LTV.C11 Require Import ParamsProbe.
From LTV.C11 Require Import Model.
Import ListNotations.
Local Open Scope N_scope.

Definition list_eqb (a b : list N) : bool :=
  (length a =? length b)%nat && forallb (fun p => fst p =? snd p) (combine a b).
Definition table_ok (l : list N) : bool := (length l =? 4)%nat && forallb (fun w => 1 <=? w) l.

Definition params_ok : bool :=
  (Probe.heur_rows =? 4) &&
  list_eqb (choke_table 0) Probe.choke_w0 && list_eqb (unchoke_table 0) Probe.unchoke_w0 &&
  list_eqb (choke_table 1) Probe.choke_w1 && list_eqb (unchoke_table 1) Probe.unchoke_w1 &&
  list_eqb (choke_table 2) Probe.choke_w2 && list_eqb (unchoke_table 2) Probe.unchoke_w2 &&
  list_eqb (choke_table 3) Probe.choke_w3 && list_eqb (unchoke_table 3) Probe.unchoke_w3 &&
  forallb (fun k => table_ok (choke_table k) && table_ok (unchoke_table k)) [0; 1; 2; 3]%nat &&
  (Probe.order_base =? ob) && (Probe.order_max_size =? 4) &&
  (Probe.global_max_cap =? 1048576) &&
  (0 <=? Probe.hold_queued_us)%Z && (0 <=? Probe.hold_unsnub_us)%Z.

Lemma params_ok_now : params_ok = true.
Proof. vm_compute. reflexivity. Qed.
