From Coq Require Import Extraction ExtrOcamlBasic.
From LTV.C20 Require Import Model.
Set Extraction Optimize.
Extraction Language OCaml.
Extraction "extracted/c20_model.ml" start step reject_build mask_num msize send_metadata_piece send_metadata_piece_repaired params_ok.
