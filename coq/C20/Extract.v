From Coq Require Import Extraction ExtrOcamlBasic.
From LTV.C20 Require Import Model Fetcher FetcherX.
Set Extraction Optimize.
Extraction Language OCaml.
Extraction "extracted/c20_model.ml" start step current_fixes all_fixes reject_build mask_num msize bytes_of
  send_metadata_piece send_metadata_piece_old params_ok
  do_peer_exchange erase_conn init default_conn set_conns
  gstep ginit.
