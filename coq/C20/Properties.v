(* C20 — theorems (statements in full; proofs in ProofsA..D). The model follows /repo after the
   nine C20 fix: commits (025b717 6c29d69 941ab7d a355167 e099dce 1b429d0 0a72c3c c72865a 6e820e7). *)
From Coq Require Import List NArith ZArith Bool Sorting.Sorted.
From LTV.C20 Require Import ParamsGen Model ProofsA ProofsB ProofsC ProofsD ProofsE ProofsG ProofsH Fetcher FetcherX.
Import ListNotations.
Local Open Scope N_scope.

Theorem params_ok_now : params_ok = true.
Proof. exact ProofsA.params_ok_now. Qed.
Print Assumptions params_ok_now.

(* metadata_slices: for EVERY info encoding m and EVERY piece index p: p < ceil(|m|/16384) => data,
   total_size |m|, payload m[16384p, min(|m|, 16384(p+1))); otherwise reject *)
Theorem metadata_slices : forall (m : list N) (p : N), send_metadata_piece false m p = spec_reply m p.
Proof. exact ProofsA.metadata_slices. Qed.
Print Assumptions metadata_slices.

Theorem metadata_concat : forall m : list N, concat_upto m (N.to_nat (piece_end (size_of m))) = m.
Proof. exact ProofsA.metadata_concat. Qed.
Print Assumptions metadata_concat.

Theorem meta_download_rejects : forall ll m p, send_metadata_piece_with ll true m p = MReject p.
Proof. exact ProofsA.meta_download_rejects. Qed.
Print Assumptions meta_download_rejects.

Theorem out_of_range_rejects : forall ll (m : list N) p,
  piece_end (size_of m) <= p -> send_metadata_piece_with ll false m p = MReject p.
Proof. exact ProofsA.out_of_range_rejects. Qed.
Print Assumptions out_of_range_rejects.

(* the reject message is well-formed bencode for every 64-bit piece index (e099dce) *)
Theorem reject_never_truncated : forall piece, piece < 2 ^ 64 -> reject_build piece = BuildOk.
Proof. exact ProofsA.reject_never_truncated. Qed.
Print Assumptions reject_never_truncated.

(* regression (the computation before 025b717): refuted, and exactly on the multiples of 16 KiB *)
Theorem metadata_slices_old_refuted : exists (m : list N) (p : N),
  p < piece_end (size_of m) /\ send_metadata_piece_old false m p <> spec_reply m p.
Proof. exact ProofsA.metadata_slices_old_refuted. Qed.
Print Assumptions metadata_slices_old_refuted.

Theorem metadata_last_piece_empty_on_multiples_old : forall m : list N,
  0 < size_of m -> size_of m mod piece_size = 0 ->
  send_metadata_piece_old false m (piece_end (size_of m) - 1) = MData (piece_end (size_of m) - 1) (size_of m) [].
Proof. exact ProofsA.metadata_last_piece_empty_on_multiples_old. Qed.
Print Assumptions metadata_last_piece_empty_on_multiples_old.

(* reads_resume: for every torrent, every op list (connects, message batches, ticks, closes,
   blocked/unblocked writes) and every connection of the reached state: if a complete message is
   not processed (it waits in m_read, or is buffered behind such a message, or the connection is
   out of the read set, or the read state is READ_EXTENSION) then a reply is pending or in flight
   AND the connection is in the write set — i.e. the message is processed as soon as the peer
   accepts the bytes it is owed. *)
Theorem reads_resume : forall priv m minp ops c,
  In c (d_conns (final_state current_fixes (start current_fixes priv m minp) ops)) ->
  unprocessed c = true -> progress_scheduled c = true.
Proof. exact ProofsC.reads_resume. Qed.
Print Assumptions reads_resume.

(* the full per-connection invariant behind it, for any variant of the model that has the three
   repairs of the event loop *)
Theorem reads_resume_invariant : forall fx ops d, repaired fx -> all_ok d -> all_ok (final_state fx d ops).
Proof. exact ProofsC.final_state_ok. Qed.
Print Assumptions reads_resume_invariant.

(* ext_ids_advertised: in every reachable state, whatever write_prepare_extension frames for a
   connection carries the id currently in the map for its type, and that id is not 0; the map is
   the clamp (outside 0..255 -> 0) of the most recent advertisement *)
Theorem ext_ids_advertised : forall priv m minp ops c ini del c1 e,
  In c (d_conns (final_state current_fixes (start current_fixes priv m minp) ops)) ->
  fill current_fixes ini del c = (c1, Some e) -> ext_id_ok c e.
Proof. exact ProofsD.ext_ids_advertised. Qed.
Print Assumptions ext_ids_advertised.

Theorem parse_handshake_meta : forall fx ms x pend sp h x' pend' sp' bad,
  parse_handshake fx ms x pend sp h = (x', pend', sp', bad) ->
  x_id_meta x' = match hs_meta h with Some z => clamp_id z | None => x_id_meta x end /\
  pend' = match hs_meta h with
          | Some z => if negb (clamp_id z =? x_id_meta x) && (clamp_id z =? 0) then None else pend
          | None => pend
          end.
Proof. exact ProofsB.parse_handshake_meta. Qed.
Print Assumptions parse_handshake_meta.

Theorem parse_handshake_pex : forall fx ms x pend sp h x' pend' sp' bad,
  parse_handshake fx ms x pend sp h = (x', pend', sp', bad) ->
  x_id_pex x' = match hs_pex h with Some z => clamp_id z | None => x_id_pex x end.
Proof. exact ProofsD.parse_handshake_pex. Qed.
Print Assumptions parse_handshake_pex.

(* The order SocketAddressCompact_less puts on the entries is a POLICY (fx_ord_addr / fx_ord_port, probed on the
   compiled code at run time): every PEX theorem below holds for every policy; "same entry" means equal
   comparison keys (for the two policies in use: equal address and equal 16-bit port, i.e. the same 6 wire bytes).
   pex_exact: in every reachable state (any variant of the model, any op list), a peer-exchange
   round over at most 200 listed peers yields m_ut_pex_list, a delta 'added' and an initial 'added'
   (also when the initial buffer is NOT regenerated because nothing was added or removed) whose
   every entry has the wire bytes of a currently connected peer with a non-zero listen port;
   entries are whole 6-byte records by construction (list entry). The > 200 branch (cap + re-sort)
   is covered by exact correspondence on unit-level rounds, not by this theorem. *)
Theorem pex_exact : forall fx priv m minp ops d1,
  let d := final_state fx (start fx priv m minp) ops in
  do_peer_exchange fx d = DpeOk d1 ->
  N.of_nat (length (sort_entries fx (current_entries (d_conns d)))) <= Params.c20_max_pex_list ->
  (forall e, In e (d_list d1) -> connected_with_port fx d e) /\
  (forall a r e, d_delta d1 = Some (a, r) -> In e a -> connected_with_port fx d e) /\
  (forall a r e, d_initial d1 = Some (a, r) -> In e a -> connected_with_port fx d e).
Proof. exact ProofsG.pex_exact. Qed.
Print Assumptions pex_exact.

(* the invariant behind it: the initial buffer lists only entries of m_ut_pex_list *)
Theorem pex_invariant_reachable : forall fx priv m minp ops,
  initial_in_list fx (final_state fx (start fx priv m minp) ops).
Proof. exact ProofsG.pex_invariant_reachable. Qed.
Print Assumptions pex_invariant_reachable.

(* std::set_difference leaving nothing of a means every element of a is matched in b *)
Theorem set_diff_nil_cover : forall fx a b, set_diff fx a b = [] ->
  forall e, In e a -> exists e', In e' b /\ same_entry fx e e'.
Proof. exact ProofsG.set_diff_nil_cover. Qed.
Print Assumptions set_diff_nil_cover.

(* pex_private_silent: for a private torrent no ut_pex message is ever sent, for every op list *)
Theorem pex_private_silent : forall fx m minp ops o,
  In o (outs_of fx (start fx true m minp) ops) -> is_pex o = false.
Proof. exact ProofsE.pex_private_silent. Qed.
Print Assumptions pex_private_silent.

(* regression witnesses: the model without the four later repairs reproduces the three defects *)
Theorem up_extension_internal_error_before_1b429d0 :
  run_crashes no_fixes (start no_fixes true small_meta 40)
    [Connect 0; Recv 0 [hs3]; SetBlocked 0 true; Recv 0 [req]; Recv 0 [req]; Recv 0 [req]; SetBlocked 0 false] = true /\
  run_crashes current_fixes (start current_fixes true small_meta 40)
    [Connect 0; Recv 0 [hs3]; SetBlocked 0 true; Recv 0 [req]; Recv 0 [req]; Recv 0 [req]; SetBlocked 0 false] = false.
Proof. exact ProofsD.up_extension_internal_error_before_1b429d0. Qed.
Print Assumptions up_extension_internal_error_before_1b429d0.

Theorem buffered_request_before_c72865a :
  n_meta (outs_of no_fixes (start no_fixes true small_meta 40) [Connect 0; Recv 0 [hs3]; Recv 0 [req; req; req]]) = 2%nat /\
  n_meta (outs_of current_fixes (start current_fixes true small_meta 40) [Connect 0; Recv 0 [hs3]; Recv 0 [req; req; req]]) = 3%nat.
Proof. exact ProofsD.buffered_request_before_c72865a. Qed.
Print Assumptions buffered_request_before_c72865a.

Theorem pending_not_scheduled_before_0a72c3c :
  stuck_pending (final_state no_fixes (start no_fixes false small_meta 40)
    [Connect 0; Recv 0 [hs3x0]; SetBlocked 0 true; Recv 0 [req]; Recv 0 [req]; Tick; SetBlocked 0 false]) = true /\
  stuck_pending (final_state current_fixes (start current_fixes false small_meta 40)
    [Connect 0; Recv 0 [hs3x0]; SetBlocked 0 true; Recv 0 [req]; Recv 0 [req]; Tick; SetBlocked 0 false]) = false.
Proof. exact ProofsD.pending_not_scheduled_before_0a72c3c. Qed.
Print Assumptions pending_not_scheduled_before_0a72c3c.

(* fetcher side (magnet): the acceptance gate, SHA-1 = any function H (Section variable) *)
Theorem magnet_completes_only_verified : forall (H : list N -> list N) want ops d,
  f_done (frun H want ops) = Some d -> H d = want.
Proof. exact Fetcher.magnet_completes_only_verified. Qed.
Print Assumptions magnet_completes_only_verified.

Theorem magnet_same_torrent : forall (H : list N -> list N) orig ops d,
  (forall x, H x = H orig -> x = orig) ->
  f_done (frun H (H orig) ops) = Some d -> d = orig.
Proof. exact Fetcher.magnet_same_torrent. Qed.
Print Assumptions magnet_same_torrent.

(* ... and whatever the loader (download_add; any instance, e.g. C08's loader model partially applied,
   without importing that development), it gives the same result for the fetched metadata as for the original *)
Theorem magnet_same_download : forall (A : Type) (load : list N -> A) (H : list N -> list N) orig ops d,
  (forall x, H x = H orig -> x = orig) ->
  f_done (frun H (H orig) ops) = Some d ->
  load (wrap_info d) = load (wrap_info orig).
Proof. exact Fetcher.magnet_same_download_generic. Qed.
Print Assumptions magnet_same_download.

(* the first-peer-metadata_size-wins mechanism, as a statement of what happens (not a violation) *)
Theorem first_size_wins : forall (H : list N -> list N) ops s n,
  2 <= n -> f_size s = Some n -> f_size (fold_left (fstep H) ops s) = Some n.
Proof. exact Fetcher.first_size_wins. Qed.
Print Assumptions first_size_wins.

(* the executable fetcher model used for the single-provider correspondence (delegator = oracle):
   it, too, completes only with metadata whose hash is the requested one *)
Theorem fetch_completes_only_verified : forall (H : list N -> list N) want ops d,
  g_done (grun H (ginit want) ops) = Some d -> H d = want.
Proof. exact FetcherX.fetch_completes_only_verified. Qed.
Print Assumptions fetch_completes_only_verified.

(* std::set_difference on sorted ranges: what it keeps from a strictly ascending range has no
   counterpart (same wire bytes) in the other ascending range *)
Theorem set_diff_sound : forall fx a b, asc_strict fx a -> asc fx b ->
  forall e, In e (set_diff fx a b) -> forall e', In e' b -> ~ same_entry fx e e'.
Proof. exact ProofsH.set_diff_sound. Qed.
Print Assumptions set_diff_sound.

(* PEX 'dropped' exactness, PARTIAL: proved for one round over at most 200 listed peers under two
   hypotheses that are themselves preserved by such rounds (pex_list_strict_after_round) but are
   not yet carried through all ops as reachable-state invariants: m_ut_pex_list strictly ascending,
   and no two connections of one peer. Every dropped entry was listed and has the wire bytes of no
   currently connected peer with a port. The > 200 branch (cap + re-sort) remains tied by exact
   correspondence on the unit-level rounds only. *)
Theorem pex_dropped_exact_partial : forall fx d d1 a r e,
  do_peer_exchange fx d = DpeOk d1 ->
  N.of_nat (length (sort_entries fx (current_entries (d_conns d)))) <= Params.c20_max_pex_list ->
  asc_strict fx (d_list d) ->
  d_delta d1 = Some (a, r) -> In e r ->
  In e (d_list d) /\ forall e', In e' (sort_entries fx (current_entries (d_conns d))) -> ~ same_entry fx e e'.
Proof. exact ProofsH.pex_dropped_exact. Qed.
Print Assumptions pex_dropped_exact_partial.

Theorem pex_list_strict_after_round : forall fx d d1,
  do_peer_exchange fx d = DpeOk d1 ->
  N.of_nat (length (sort_entries fx (current_entries (d_conns d)))) <= Params.c20_max_pex_list ->
  NoDup (map (fun c => key_addr fx (c_peer c)) (d_conns d)) -> asc_strict fx (d_list d1).
Proof. exact ProofsH.pex_list_strict_after_round. Qed.
Print Assumptions pex_list_strict_after_round.
