(* C20 — theorems (statements in full; proofs in ProofsA.v / ProofsB.v). *)
From Coq Require Import List NArith ZArith Bool.
From LTV.C20 Require Import ParamsGen Model ProofsA ProofsB.
Import ListNotations.
Local Open Scope N_scope.

Theorem params_ok_now : params_ok = true.
Proof. exact ProofsA.params_ok_now. Qed.
Print Assumptions params_ok_now.

(* metadata_slices is FALSE of the code as it is (src/protocol/extensions.cc send_metadata_piece:
   last length = size % 16384): witness 16384 bytes, piece 0. *)
Theorem metadata_slices_refuted : exists (m : list N) (p : N),
  p < piece_end (size_of m) /\ send_metadata_piece false m p <> spec_reply m p.
Proof. exact ProofsA.metadata_slices_refuted. Qed.
Print Assumptions metadata_slices_refuted.

(* the defect is exactly the multiples of 16 KiB: the last piece of every such info dictionary is
   answered as data with an empty payload ... *)
Theorem metadata_last_piece_empty_on_multiples : forall m : list N,
  0 < size_of m -> size_of m mod piece_size = 0 ->
  send_metadata_piece false m (piece_end (size_of m) - 1) = MData (piece_end (size_of m) - 1) (size_of m) [].
Proof. exact ProofsA.metadata_last_piece_empty_on_multiples. Qed.
Print Assumptions metadata_last_piece_empty_on_multiples.

(* ... and every other size is served exactly as specified, for every piece index *)
Theorem metadata_slices_code_nonmultiple : forall (m : list N) (p : N),
  size_of m mod piece_size <> 0 -> send_metadata_piece false m p = spec_reply m p.
Proof. exact ProofsA.metadata_slices_code_nonmultiple. Qed.
Print Assumptions metadata_slices_code_nonmultiple.

(* metadata_slices for the repaired last-length computation (size - (pieceEnd-1)*16384): for EVERY
   info encoding m and EVERY piece index p: p < ceil(|m|/16384) => data, total_size |m|, payload
   m[16384p, min(|m|, 16384(p+1))); otherwise reject *)
Theorem metadata_slices_repaired : forall (m : list N) (p : N),
  send_metadata_piece_repaired false m p = spec_reply m p.
Proof. exact ProofsA.metadata_slices_repaired. Qed.
Print Assumptions metadata_slices_repaired.

Theorem metadata_concat : forall m : list N, concat_upto m (N.to_nat (piece_end (size_of m))) = m.
Proof. exact ProofsA.metadata_concat. Qed.
Print Assumptions metadata_concat.

Theorem meta_download_rejects : forall ll m p, send_metadata_piece_with ll true m p = MReject p.
Proof. exact ProofsA.meta_download_rejects. Qed.
Print Assumptions meta_download_rejects.

Theorem out_of_range_rejects : forall ll (m : list N) p,
  piece_end (size_of m) <= p -> send_metadata_piece_with ll false m p = MReject p.
Proof. exact ProofsA.out_of_range_rejects. Qed.
Print Assumptions out_of_range_rejects.

(* every ut_metadata reply of a run is send_metadata_piece of the torrent's own info bytes and goes
   to the requesting peer *)
Theorem meta_reply_is_slice_of_info : forall d i ms d' outs j id r,
  step d (Recv i ms) = SOk d' outs -> In (OMeta j id r) outs ->
  j = i /\ exists p, r = send_metadata_piece false (d_meta d) p.
Proof. exact ProofsB.meta_reply_is_slice_of_info. Qed.
Print Assumptions meta_reply_is_slice_of_info.

(* id map = the most recent handshake, truncated to 8 bits; absent keys keep the entry *)
Theorem parse_handshake_meta_id : forall ms c sp h c' sp',
  parse_handshake ms c sp h = inl (c', sp') ->
  c_id_meta c' = match hs_meta h with Some z => u8 z | None => c_id_meta c end /\
  c_rs_meta c' = match hs_meta h with Some _ => true | None => c_rs_meta c end.
Proof. exact ProofsB.parse_handshake_meta_id. Qed.
Print Assumptions parse_handshake_meta_id.

Theorem parse_handshake_pex_id : forall ms c sp h c' sp',
  parse_handshake ms c sp h = inl (c', sp') ->
  c_id_pex c' = match hs_pex h with Some z => u8 z | None => c_id_pex c end.
Proof. exact ProofsB.parse_handshake_pex_id. Qed.
Print Assumptions parse_handshake_pex_id.

(* ut_pex messages: never with id 0, only on the tick (all states, all ops) *)
Theorem pex_id_nonzero : forall d o d' outs i id a r,
  step d o = SOk d' outs -> In (OPex i id a r) outs -> id <> 0 /\ o = Tick.
Proof. exact ProofsB.pex_id_nonzero. Qed.
Print Assumptions pex_id_nonzero.

(* ext_ids_advertised is FALSE of the code as it is for ut_metadata replies *)
Theorem ext_ids_advertised_refuted :
  existsb is_meta_id0 (outs_of (start false small_meta 40) [Connect 0; Recv 0 [MExt 2 0 0]]) = true /\
  existsb is_meta_id0 (outs_of (start false small_meta 40)
     [Connect 0; Recv 0 [MHandshake (hs_of (Some 0%Z) (Some 0%Z) None)]; Recv 0 [MExt 2 0 0]]) = true.
Proof. exact ProofsB.ext_ids_advertised_refuted. Qed.
Print Assumptions ext_ids_advertised_refuted.

Theorem ext_ids_truncated_witness :
  outs_of (start false small_meta 40)
     [Connect 0; Recv 0 [MHandshake (hs_of None (Some 257%Z) None)]; Recv 0 [MExt 2 0 0]]
  = [OHs 0 true 5; OMeta 0 1 (MData 0 5 small_meta)].
Proof. exact ProofsB.ext_ids_truncated_witness. Qed.
Print Assumptions ext_ids_truncated_witness.

(* pex_exact is FALSE of the code as it is: stale m_ut_pex_initial *)
Theorem pex_exact_refuted :
  existsb (stale_added (final_state (start false small_meta 40) pex_witness))
          (outs_of (start false small_meta 40) pex_witness) = true.
Proof. exact ProofsB.pex_exact_refuted. Qed.
Print Assumptions pex_exact_refuted.

(* reads_resume is FALSE of the code as it is: read_done() discards the message it could not process *)
Theorem reads_resume_refuted :
  deaf (final_state (start true small_meta 40)
          [Connect 0; Recv 0 [MHandshake (hs_of None (Some 3%Z) None)]; Recv 0 [MExt 2 0 0; MExt 2 0 0]]) = true /\
  outs_of (start true small_meta 40)
          [Connect 0; Recv 0 [MHandshake (hs_of None (Some 3%Z) None)]; Recv 0 [MExt 2 0 0; MExt 2 0 0];
           Recv 0 [MExt 2 0 0]; Tick; Tick; Tick]
  = [OHs 0 false 5; OMeta 0 3 (MData 0 5 [100; 49; 58; 120; 101]); OClosed 0].
Proof. exact ProofsB.reads_resume_refuted. Qed.
Print Assumptions reads_resume_refuted.

(* what does hold: a connection leaves the read set only when a request met a pending reply, and a
   peer that sends one request per segment is never suspended *)
Theorem run_batch_in_read : forall meta ms c sp pend c' sp' pend',
  run_batch meta c sp pend ms = BDone c' sp' pend' -> c_in_read c = true ->
  c_in_read c' = true \/ (exists r, pend' = Some r).
Proof. exact ProofsB.run_batch_in_read. Qed.
Print Assumptions run_batch_in_read.

Theorem single_request_keeps_reading : forall meta c sp e t p c' sp' pend',
  run_batch meta c sp None [MExt e t p] = BDone c' sp' pend' -> c_in_read c = true -> c_in_read c' = true.
Proof. exact ProofsB.single_request_keeps_reading. Qed.
Print Assumptions single_request_keeps_reading.
