(* C20 — theorems (statements in full; proofs in ProofsA..K: I = exact PEX delta and reachable invariants, J = list cap, K = no internal_error, pex_exact_full). The model follows /repo after the
   nine C20 fix: commits (025b717 6c29d69 941ab7d a355167 e099dce 1b429d0 0a72c3c c72865a 6e820e7). *)
From Coq Require Import List NArith ZArith Bool Sorting.Sorted.
From LTV.C20 Require Import ParamsGen Model ProofsA ProofsB ProofsC ProofsD ProofsE ProofsG ProofsH ProofsI ProofsJ ProofsK Fetcher FetcherX.
Import ListNotations.
Local Open Scope N_scope.

Theorem params_ok_now : params_ok = true.
Proof. exact ProofsA.params_ok_now. Qed.
Print Assumptions params_ok_now.

(* metadata_slices: for EVERY info encoding m and EVERY piece index p: p < ceil(|m|/16384) => data,
   total_size |m|, payload m[16384p, min(|m|, 16384(p+1))); otherwise reject *)
Theorem metadata_slices : forall (m : list N) (p : N), send_metadata_piece false m p = spec_reply m p.
Proof. exact ProofsA.metadata_slices. Qed.
Print Assumptions metadata_slices.

Theorem metadata_concat : forall m : list N, concat_upto m (N.to_nat (piece_end (size_of m))) = m.
Proof. exact ProofsA.metadata_concat. Qed.
Print Assumptions metadata_concat.

Theorem meta_download_rejects : forall ll m p, send_metadata_piece_with ll true m p = MReject p.
Proof. exact ProofsA.meta_download_rejects. Qed.
Print Assumptions meta_download_rejects.

Theorem out_of_range_rejects : forall ll (m : list N) p,
  piece_end (size_of m) <= p -> send_metadata_piece_with ll false m p = MReject p.
Proof. exact ProofsA.out_of_range_rejects. Qed.
Print Assumptions out_of_range_rejects.

(* the reject message is well-formed bencode for every 64-bit piece index (e099dce) *)
Theorem reject_never_truncated : forall piece, piece < 2 ^ 64 -> reject_build piece = BuildOk.
Proof. exact ProofsA.reject_never_truncated. Qed.
Print Assumptions reject_never_truncated.

(* regression (the computation before 025b717): refuted, and exactly on the multiples of 16 KiB *)
Theorem metadata_slices_old_refuted : exists (m : list N) (p : N),
  p < piece_end (size_of m) /\ send_metadata_piece_old false m p <> spec_reply m p.
Proof. exact ProofsA.metadata_slices_old_refuted. Qed.
Print Assumptions metadata_slices_old_refuted.

Theorem metadata_last_piece_empty_on_multiples_old : forall m : list N,
  0 < size_of m -> size_of m mod piece_size = 0 ->
  send_metadata_piece_old false m (piece_end (size_of m) - 1) = MData (piece_end (size_of m) - 1) (size_of m) [].
Proof. exact ProofsA.metadata_last_piece_empty_on_multiples_old. Qed.
Print Assumptions metadata_last_piece_empty_on_multiples_old.

(* reads_resume: for every torrent, every op list (connects, message batches, ticks, closes,
   blocked/unblocked writes) and every connection of the reached state: if a complete message is
   not processed (it waits in m_read, or is buffered behind such a message, or the connection is
   out of the read set, or the read state is READ_EXTENSION) then a reply is pending or in flight
   AND the connection is in the write set — i.e. the message is processed as soon as the peer
   accepts the bytes it is owed. *)
Theorem reads_resume : forall priv m minp ops c,
  In c (d_conns (final_state current_fixes (start current_fixes priv m minp) ops)) ->
  unprocessed c = true -> progress_scheduled c = true.
Proof. exact ProofsC.reads_resume. Qed.
Print Assumptions reads_resume.

(* the full per-connection invariant behind it, for any variant of the model that has the three
   repairs of the event loop *)
Theorem reads_resume_invariant : forall fx ops d, repaired fx -> all_ok d -> all_ok (final_state fx d ops).
Proof. exact ProofsC.final_state_ok. Qed.
Print Assumptions reads_resume_invariant.

(* ext_ids_advertised: in every reachable state, whatever write_prepare_extension frames for a
   connection carries the id currently in the map for its type, and that id is not 0; the map is
   the clamp (outside 0..255 -> 0) of the most recent advertisement *)
Theorem ext_ids_advertised : forall priv m minp ops c ini del c1 e,
  In c (d_conns (final_state current_fixes (start current_fixes priv m minp) ops)) ->
  fill current_fixes ini del c = (c1, Some e) -> ext_id_ok c e.
Proof. exact ProofsD.ext_ids_advertised. Qed.
Print Assumptions ext_ids_advertised.

Theorem parse_handshake_meta : forall fx ms x pend sp h x' pend' sp' bad,
  parse_handshake fx ms x pend sp h = (x', pend', sp', bad) ->
  x_id_meta x' = match hs_meta h with Some z => clamp_id z | None => x_id_meta x end /\
  pend' = match hs_meta h with
          | Some z => if negb (clamp_id z =? x_id_meta x) && (clamp_id z =? 0) then None else pend
          | None => pend
          end.
Proof. exact ProofsB.parse_handshake_meta. Qed.
Print Assumptions parse_handshake_meta.

Theorem parse_handshake_pex : forall fx ms x pend sp h x' pend' sp' bad,
  parse_handshake fx ms x pend sp h = (x', pend', sp', bad) ->
  x_id_pex x' = match hs_pex h with Some z => clamp_id z | None => x_id_pex x end.
Proof. exact ProofsD.parse_handshake_pex. Qed.
Print Assumptions parse_handshake_pex.

(* The order SocketAddressCompact_less puts on the entries is a POLICY (fx_ord_addr / fx_ord_port, probed on the
   compiled code at run time): every PEX theorem below holds for every policy; "same entry" means equal
   comparison keys (for the two policies in use: equal address and equal 16-bit port, i.e. the same 6 wire bytes).
   pex_exact: in every reachable state (any variant of the model, any op list), a peer-exchange
   round over at most 200 listed peers yields m_ut_pex_list, a delta 'added' and an initial 'added'
   (also when the initial buffer is NOT regenerated because nothing was added or removed) whose
   every entry has the wire bytes of a currently connected peer with a non-zero listen port;
   entries are whole 6-byte records by construction (list entry). This statement has the <= 200 hypothesis and no
   domain hypothesis; pex_exact_full below removes the cap hypothesis (for op lists with peer indices < 65536). *)
Theorem pex_exact : forall fx priv m minp ops d1,
  let d := final_state fx (start fx priv m minp) ops in
  do_peer_exchange fx d = DpeOk d1 ->
  N.of_nat (length (sort_entries fx (current_entries (d_conns d)))) <= Params.c20_max_pex_list ->
  (forall e, In e (d_list d1) -> connected_with_port fx d e) /\
  (forall a r e, d_delta d1 = Some (a, r) -> In e a -> connected_with_port fx d e) /\
  (forall a r e, d_initial d1 = Some (a, r) -> In e a -> connected_with_port fx d e).
Proof. exact ProofsG.pex_exact. Qed.
Print Assumptions pex_exact.

(* the invariant behind it: the initial buffer lists only entries of m_ut_pex_list *)
Theorem pex_invariant_reachable : forall fx priv m minp ops,
  initial_in_list fx (final_state fx (start fx priv m minp) ops).
Proof. exact ProofsG.pex_invariant_reachable. Qed.
Print Assumptions pex_invariant_reachable.

(* std::set_difference leaving nothing of a means every element of a is matched in b *)
Theorem set_diff_nil_cover : forall fx a b, set_diff fx a b = [] ->
  forall e, In e a -> exists e', In e' b /\ same_entry fx e e'.
Proof. exact ProofsG.set_diff_nil_cover. Qed.
Print Assumptions set_diff_nil_cover.

(* pex_private_silent: for a private torrent no ut_pex message is ever sent, for every op list *)
Theorem pex_private_silent : forall fx m minp ops o,
  In o (outs_of fx (start fx true m minp) ops) -> is_pex o = false.
Proof. exact ProofsE.pex_private_silent. Qed.
Print Assumptions pex_private_silent.

(* regression witnesses: the model without the four later repairs reproduces the three defects *)
Theorem up_extension_internal_error_before_1b429d0 :
  run_crashes no_fixes (start no_fixes true small_meta 40)
    [Connect 0; Recv 0 [hs3]; SetBlocked 0 true; Recv 0 [req]; Recv 0 [req]; Recv 0 [req]; SetBlocked 0 false] = true /\
  run_crashes current_fixes (start current_fixes true small_meta 40)
    [Connect 0; Recv 0 [hs3]; SetBlocked 0 true; Recv 0 [req]; Recv 0 [req]; Recv 0 [req]; SetBlocked 0 false] = false.
Proof. exact ProofsD.up_extension_internal_error_before_1b429d0. Qed.
Print Assumptions up_extension_internal_error_before_1b429d0.

Theorem buffered_request_before_c72865a :
  n_meta (outs_of no_fixes (start no_fixes true small_meta 40) [Connect 0; Recv 0 [hs3]; Recv 0 [req; req; req]]) = 2%nat /\
  n_meta (outs_of current_fixes (start current_fixes true small_meta 40) [Connect 0; Recv 0 [hs3]; Recv 0 [req; req; req]]) = 3%nat.
Proof. exact ProofsD.buffered_request_before_c72865a. Qed.
Print Assumptions buffered_request_before_c72865a.

Theorem pending_not_scheduled_before_0a72c3c :
  stuck_pending (final_state no_fixes (start no_fixes false small_meta 40)
    [Connect 0; Recv 0 [hs3x0]; SetBlocked 0 true; Recv 0 [req]; Recv 0 [req]; Tick; SetBlocked 0 false]) = true /\
  stuck_pending (final_state current_fixes (start current_fixes false small_meta 40)
    [Connect 0; Recv 0 [hs3x0]; SetBlocked 0 true; Recv 0 [req]; Recv 0 [req]; Tick; SetBlocked 0 false]) = false.
Proof. exact ProofsD.pending_not_scheduled_before_0a72c3c. Qed.
Print Assumptions pending_not_scheduled_before_0a72c3c.

(* fetcher side (magnet): the acceptance gate, SHA-1 = any function H (Section variable) *)
Theorem magnet_completes_only_verified : forall (H : list N -> list N) want ops d,
  f_done (frun H want ops) = Some d -> H d = want.
Proof. exact Fetcher.magnet_completes_only_verified. Qed.
Print Assumptions magnet_completes_only_verified.

Theorem magnet_same_torrent : forall (H : list N -> list N) orig ops d,
  (forall x, H x = H orig -> x = orig) ->
  f_done (frun H (H orig) ops) = Some d -> d = orig.
Proof. exact Fetcher.magnet_same_torrent. Qed.
Print Assumptions magnet_same_torrent.

(* ... and whatever the loader (download_add; any instance, e.g. C08's loader model partially applied,
   without importing that development), it gives the same result for the fetched metadata as for the original *)
Theorem magnet_same_download : forall (A : Type) (load : list N -> A) (H : list N -> list N) orig ops d,
  (forall x, H x = H orig -> x = orig) ->
  f_done (frun H (H orig) ops) = Some d ->
  load (wrap_info d) = load (wrap_info orig).
Proof. exact Fetcher.magnet_same_download_generic. Qed.
Print Assumptions magnet_same_download.

(* the first-peer-metadata_size-wins mechanism, as a statement of what happens (not a violation) *)
Theorem first_size_wins : forall (H : list N -> list N) ops s n,
  2 <= n -> f_size s = Some n -> f_size (fold_left (fstep H) ops s) = Some n.
Proof. exact Fetcher.first_size_wins. Qed.
Print Assumptions first_size_wins.

(* the executable fetcher model used for the single-provider correspondence (delegator = oracle):
   it, too, completes only with metadata whose hash is the requested one *)
Theorem fetch_completes_only_verified : forall (H : list N -> list N) want ops d,
  g_done (grun H (ginit want) ops) = Some d -> H d = want.
Proof. exact FetcherX.fetch_completes_only_verified. Qed.
Print Assumptions fetch_completes_only_verified.

(* std::set_difference on sorted ranges: what it keeps from a strictly ascending range has no
   counterpart (same wire bytes) in the other ascending range *)
Theorem set_diff_sound : forall fx a b, asc_strict fx a -> asc fx b ->
  forall e, In e (set_diff fx a b) -> forall e', In e' b -> ~ same_entry fx e e'.
Proof. exact ProofsH.set_diff_sound. Qed.
Print Assumptions set_diff_sound.

(* ---- the PEX delta is EXACT (ProofsI). "In domain": peer indices below 65536, the range on which the
   address model 10.0.(k mod 256).(k / 256) is injective (needed only for the numeric order policy). *)

(* std::set_difference is complete: whatever has no counterpart (same wire bytes) in b is kept *)
Theorem set_diff_complete : forall fx a b e, In e a -> (forall e', In e' b -> ~ same_entry fx e e') -> In e (set_diff fx a b).
Proof. exact ProofsI.set_diff_complete. Qed.
Print Assumptions set_diff_complete.

(* one round, ANY number of listed peers (also the > 200 branch: 'dropped' is computed before the cap):
   every dropped entry was listed and has the wire bytes of no currently connected peer with a port.
   (This is the former pex_dropped_exact_partial without its cap hypothesis.) *)
Theorem pex_dropped_exact_round : forall fx d d1 a r e,
  do_peer_exchange fx d = DpeOk d1 -> asc_strict fx (d_list d) ->
  d_delta d1 = Some (a, r) -> In e r ->
  In e (d_list d) /\ forall e', In e' (sort_entries fx (current_entries (d_conns d))) -> ~ same_entry fx e e'.
Proof. exact ProofsI.dpe_dropped_sound. Qed.
Print Assumptions pex_dropped_exact_round.

(* the invariants the partial theorem had as hypotheses hold in EVERY reachable state, for every op list
   and every order policy, including after rounds that took the > 200 branch (cap + re-sort):
   m_ut_pex_list is strictly ascending and no peer has two connections *)
Theorem pex_list_strict_reachable : forall fx priv m minp ops, Forall op_in_domain ops ->
  let d := final_state fx (start fx priv m minp) ops in
  asc_strict fx (d_list d) /\ NoDup (map c_peer (d_conns d)).
Proof. exact ProofsJ.pex_list_strict_reachable. Qed.
Print Assumptions pex_list_strict_reachable.

(* m_ut_pex_list stays strictly ascending over a round in BOTH branches *)
Theorem pex_list_strict_round : forall fx d d1,
  do_peer_exchange fx d = DpeOk d1 -> asc_strict fx (d_list d) ->
  NoDup (map (fun c => key_addr fx (c_peer c)) (d_conns d)) -> asc_strict fx (d_list d1).
Proof. exact ProofsI.dpe_list_strict. Qed.
Print Assumptions pex_list_strict_round.

(* pex_dropped_exact, FULL: for every reachable state (any op list in the domain, any variant, any order
   policy, any number of peers), the 'dropped' set of the delta a round produces is EXACTLY the listed
   entries that have the wire bytes of no currently connected peer with a listen port *)
Theorem pex_dropped_exact : forall fx priv m minp ops d1 a r e, Forall op_in_domain ops ->
  let d := final_state fx (start fx priv m minp) ops in
  do_peer_exchange fx d = DpeOk d1 -> d_delta d1 = Some (a, r) ->
  (In e r <-> In e (d_list d) /\ forall e', In e' (sort_entries fx (current_entries (d_conns d))) -> ~ same_entry fx e e').
Proof. exact ProofsJ.pex_dropped_exact. Qed.
Print Assumptions pex_dropped_exact.

(* ... and a round with such an entry does produce a delta (no reachability needed) *)
Theorem pex_dropped_complete : forall fx d d1 e,
  do_peer_exchange fx d = DpeOk d1 ->
  In e (d_list d) -> (forall e', In e' (sort_entries fx (current_entries (d_conns d))) -> ~ same_entry fx e e') ->
  exists a r, d_delta d1 = Some (a, r) /\ In e r.
Proof. exact ProofsI.dpe_dropped_complete. Qed.
Print Assumptions pex_dropped_complete.

(* pex_added_exact: every 'added' entry of the delta is a current entry not yet listed (any number of peers: over
   the cap 'added' is a prefix of that set); with at most max_pex_list (200) current entries it is ALL of them *)
Theorem pex_added_exact : forall fx priv m minp ops d1 a r e, Forall op_in_domain ops ->
  let d := final_state fx (start fx priv m minp) ops in
  do_peer_exchange fx d = DpeOk d1 -> d_delta d1 = Some (a, r) ->
  (In e a -> In e (sort_entries fx (current_entries (d_conns d))) /\ forall e', In e' (d_list d) -> ~ same_entry fx e e') /\
  (N.of_nat (length (sort_entries fx (current_entries (d_conns d)))) <= Params.c20_max_pex_list ->
   In e (sort_entries fx (current_entries (d_conns d))) -> (forall e', In e' (d_list d) -> ~ same_entry fx e e') -> In e a).
Proof. exact ProofsJ.pex_added_exact. Qed.
Print Assumptions pex_added_exact.

Theorem pex_added_complete : forall fx d d1 e,
  do_peer_exchange fx d = DpeOk d1 ->
  N.of_nat (length (sort_entries fx (current_entries (d_conns d)))) <= Params.c20_max_pex_list ->
  In e (sort_entries fx (current_entries (d_conns d))) -> (forall e', In e' (d_list d) -> ~ same_entry fx e e') ->
  exists a r, d_delta d1 = Some (a, r) /\ In e a.
Proof. exact ProofsI.dpe_added_complete. Qed.
Print Assumptions pex_added_complete.

(* the shape of the delta in both branches: dropped = list \ current; added = a prefix of current \ list,
   all of it when at most 200 current entries *)
Theorem pex_delta_shape : forall fx d d1 a r,
  do_peer_exchange fx d = DpeOk d1 -> d_delta d1 = Some (a, r) ->
  r = set_diff fx (d_list d) (sort_entries fx (current_entries (d_conns d))) /\
  exists k, a = firstn k (set_diff fx (sort_entries fx (current_entries (d_conns d))) (d_list d)) /\
            (N.of_nat (length (sort_entries fx (current_entries (d_conns d)))) <= Params.c20_max_pex_list ->
             a = set_diff fx (sort_entries fx (current_entries (d_conns d))) (d_list d)).
Proof. exact ProofsI.dpe_delta_shape. Qed.
Print Assumptions pex_delta_shape.

(* the size cap max_pex_list (200): m_ut_pex_list never has more than 200 entries — in every reachable state, and
   after every round from one, in particular after the capped branch (trim 'added', merge, re-sort) *)
Theorem pex_list_capped_reachable : forall fx priv m minp ops, Forall op_in_domain ops ->
  N.of_nat (length (d_list (final_state fx (start fx priv m minp) ops))) <= Params.c20_max_pex_list.
Proof. exact ProofsJ.pex_list_capped_reachable. Qed.
Print Assumptions pex_list_capped_reachable.

Theorem pex_round_capped : forall fx priv m minp ops d1, Forall op_in_domain ops ->
  let d := final_state fx (start fx priv m minp) ops in
  do_peer_exchange fx d = DpeOk d1 -> N.of_nat (length (d_list d1)) <= Params.c20_max_pex_list.
Proof. exact ProofsJ.pex_round_capped. Qed.
Print Assumptions pex_round_capped.

(* one round, both branches: strictly ascending list and distinct peers in => at most 200 entries out *)
Theorem pex_list_cap_round : forall fx d d1,
  do_peer_exchange fx d = DpeOk d1 -> asc_strict fx (d_list d) ->
  NoDup (map (fun c => key_addr fx (c_peer c)) (d_conns d)) ->
  N.of_nat (length (d_list d1)) <= Params.c20_max_pex_list.
Proof. exact ProofsJ.dpe_list_cap. Qed.
Print Assumptions pex_list_cap_round.

(* std::set_difference on strictly ascending ranges is the filter "no counterpart in b"; the counting identity
   behind the cap: |list /\ current| + |current \ list| = |current| *)
Theorem set_diff_is_filter : forall fx a b, asc_strict fx a -> asc_strict fx b ->
  set_diff fx a b = filter (fun e => negb (has_cp fx b e)) a.
Proof. exact ProofsJ.set_diff_filter. Qed.
Print Assumptions set_diff_is_filter.

Theorem set_diff_count : forall fx l c, asc_strict fx l -> asc_strict fx c ->
  (length (set_diff fx l (set_diff fx l c)) + length (set_diff fx c l) = length c)%nat.
Proof. exact ProofsJ.set_diff_count. Qed.
Print Assumptions set_diff_count.

(* the internal_error of do_peer_exchange ("added.size() < current.size() - max_pex_list") is UNREACHABLE: no op list
   in the domain brings the download into a state where a peer-exchange round throws *)
Theorem pex_no_internal_error_reachable : forall fx priv m minp ops, Forall op_in_domain ops ->
  do_peer_exchange fx (final_state fx (start fx priv m minp) ops) <> DpeInternalError.
Proof. exact ProofsK.pex_no_internal_error_reachable. Qed.
Print Assumptions pex_no_internal_error_reachable.

(* pex_exact WITHOUT the cap hypothesis (any number of peers, also the > 200 branch: trim, merge, re-sort): in every
   reachable state (op list in the domain) a round yields a list, a delta 'added' and an initial 'added' whose every
   entry has the wire bytes of a currently connected peer with a non-zero listen port *)
Theorem pex_exact_full : forall fx priv m minp ops d1, Forall op_in_domain ops ->
  let d := final_state fx (start fx priv m minp) ops in
  do_peer_exchange fx d = DpeOk d1 ->
  (forall e, In e (d_list d1) -> connected_with_port fx d e) /\
  (forall a r e, d_delta d1 = Some (a, r) -> In e a -> connected_with_port fx d e) /\
  (forall a r e, d_initial d1 = Some (a, r) -> In e a -> connected_with_port fx d e).
Proof. exact ProofsK.pex_exact_full. Qed.
Print Assumptions pex_exact_full.

(* no delta => every listed entry still has a connected peer with those wire bytes *)
Theorem pex_no_delta_nothing_dropped : forall fx d d1,
  do_peer_exchange fx d = DpeOk d1 -> d_delta d1 = None ->
  forall e, In e (d_list d) -> exists e', In e' (sort_entries fx (current_entries (d_conns d))) /\ same_entry fx e e'.
Proof. exact ProofsJ.pex_delta_none_iff_nothing_dropped. Qed.
Print Assumptions pex_no_delta_nothing_dropped.

Theorem pex_list_strict_after_round : forall fx d d1,
  do_peer_exchange fx d = DpeOk d1 ->
  N.of_nat (length (sort_entries fx (current_entries (d_conns d)))) <= Params.c20_max_pex_list ->
  NoDup (map (fun c => key_addr fx (c_peer c)) (d_conns d)) -> asc_strict fx (d_list d1).
Proof. exact ProofsH.pex_list_strict_after_round. Qed.
Print Assumptions pex_list_strict_after_round.
