(* C20 — extension protocol: executable model (definitions only).

   Anchors (as the code IS on the checked tree):
     src/protocol/extensions.{h,cc}      ProtocolExtension::{send_metadata_piece, parse_handshake,
                                         parse_ut_metadata, read_start, read_done, id,
                                         set/unset_local_enabled, generate_ut_pex_message,
                                         generate_toggle_message, generate_handshake_message}
     src/protocol/peer_connection_base.cc  down_extension / up_extension (read suspension),
                                         write_prepare_extension, send_pex_message, send_ext_message,
                                         set_peer_exchange
     src/protocol/peer_connection_leech.cc read_message (EXTENSION_PROTOCOL), event_read loop,
                                         fill_write_buffer, receive_keepalive (240 s read timeout)
     src/protocol/handshake.cc           write_extension_handshake
     src/download/download_main.cc       do_peer_exchange
     src/download/download_wrapper.cc    receive_tick (2-minute part)
     src/torrent/peer/connection_list.cc insert (push_back) / erase (swap with last)

   Granularity: one [op] = one scripted action of a wire peer (or the 2-minute tick) followed by
   running the library to quiescence, exactly what harness/c20.cc does. Writes are never blocked
   (no send budget), so at quiescence nothing is pending and no connection is in the write set.

   Harness preconditions (documented limits of the model): every peer index connects at most
   once; [Close] of a connection that is not in the read set is not modelled (the library only
   notices through a later failed write); integers in messages fit int64; a batch is < 512 bytes
   and arrives in one segment. *)
From Coq Require Import NArith ZArith List Bool.
From LTV.C20 Require Import ParamsGen.
Import ListNotations.
Open Scope N_scope.

(* ------------------------------------------------------------------------------------------ *)
(* Part 1: ut_metadata provider, ProtocolExtension::send_metadata_piece                        *)

Definition piece_size : N := 2 ^ Params.c20_metadata_piece_shift.

Definition slice (m : list N) (off len : N) : list N :=
  firstn (N.to_nat len) (skipn (N.to_nat off) m).

Inductive meta_reply :=
| MReject (piece : N)
| MData (piece total : N) (payload : list N).

(* pieceEnd = (metadataSize + metadata_piece_size - 1) >> metadata_piece_shift *)
Definition piece_end (sz : N) : N := (sz + piece_size - 1) / piece_size.

(* length of the last piece AS THE CODE COMPUTES IT: metadata_size % metadata_piece_size *)
Definition last_len_code (sz : N) : N := sz mod piece_size.
(* the repaired computation proposed to the integrator: size - (pieceEnd-1)*piece_size *)
Definition last_len_repaired (sz : N) : N := sz - (piece_end sz - 1) * piece_size.

Definition send_metadata_piece_with (last_len : N -> N) (meta_dl : bool) (m : list N) (piece : N) : meta_reply :=
  let sz := N.of_nat (length m) in
  let pe := piece_end sz in
  if meta_dl || (pe <=? piece) then MReject piece
  else
    let len := if piece =? pe - 1 then last_len sz else piece_size in
    MData piece sz (slice m (piece * piece_size) len).

Definition send_metadata_piece := send_metadata_piece_with last_len_code.
Definition send_metadata_piece_repaired := send_metadata_piece_with last_len_repaired.

(* number of decimal digits printed by %zu *)
Fixpoint ndigits_fuel (f : nat) (n : N) : N :=
  match f with
  | O => 1
  | S f' => if n <? 10 then 1 else 1 + ndigits_fuel f' (n / 10)
  end.
Definition ndigits (n : N) : N := ndigits_fuel 25 n.

(* build_bencode(sizeof(size_t) + 36, "d8:msg_typei2e5:piecei%zuee", piece): the text has
   24 + digits characters; vsnprintf truncates to maxLength-1 characters + NUL and the code
   only refuses length > maxLength, so a 44-character text is sent as 43 characters + a NUL. *)
Definition reject_text_len (piece : N) : N := 24 + ndigits piece.
Definition reject_buf_len : N := 8 + Params.c20_reject_buf_extra.
Inductive build_result := BuildOk | BuildTruncated | BuildInternalError.
Definition reject_build (piece : N) : build_result :=
  if reject_buf_len <? reject_text_len piece then BuildInternalError
  else if reject_buf_len =? reject_text_len piece then BuildTruncated
  else BuildOk.

(* ------------------------------------------------------------------------------------------ *)
(* Part 2: connections, id map, PEX, read suspension                                           *)

Record hs := mkHs { hs_pex : option Z; hs_meta : option Z; hs_port : option Z; hs_msize : option Z }.

Inductive msg :=
| MHandshake (h : hs)                      (* extended id 0 with an extension handshake *)
| MExt (extid : N) (msgtype piece : Z).    (* extended id [extid], { msg_type, piece } *)

Record mask := mkMask { k_do : bool; k_en : bool; k_dis : bool }.
Definition mask0 := mkMask false false false.
Definition mask_is0 (k : mask) : bool := negb (k_do k || k_en k || k_dis k).
Definition mask_num (k : mask) : N :=
  (if k_do k then 1 else 0) + (if k_en k then 2 else 0) + (if k_dis k then 4 else 0).

Record conn := mkConn {
  c_peer : N;                          (* peer index; address 127.0.0.(2+index) *)
  c_id_pex : N; c_id_meta : N;         (* m_idMap *)
  c_le_pex : bool; c_le_meta : bool;   (* local enabled *)
  c_rs_pex : bool; c_rs_meta : bool;   (* remote supported *)
  c_init_hs : bool; c_init_pex : bool;
  c_mask : mask;                       (* m_send_pex_mask *)
  c_in_read : bool;                    (* in the poll read set *)
  c_ds_ext : bool;                     (* ProtocolRead state is READ_EXTENSION *)
  c_listen : N;                        (* PeerInfo::listen_port *)
  c_idle : N                           (* 2-minute ticks since the last read event *)
}.

Definition entry := (N * N)%type.      (* peer index, listen port *)

Definition pexmsg := option (list entry * list entry).   (* None: empty DataBuffer *)

Record dstate := mkD {
  d_private : bool;
  d_meta : list N;                     (* canonical bencoding of the info dictionary *)
  d_minp : N;                          (* ConnectionList::min_size *)
  d_pex_active : bool;
  d_size_pex : N;
  d_conns : list conn;                 (* ConnectionList order *)
  d_list : list entry;                 (* m_ut_pex_list *)
  d_initial : pexmsg;                  (* m_ut_pex_initial *)
  d_delta : pexmsg;                    (* m_ut_pex_delta *)
  d_used : list N                      (* peer indices that ever connected *)
}.

Inductive out :=
| OHs (peer : N) (pex_on : bool) (msize : N)       (* the library's extension handshake *)
| OToggle (peer : N) (on : bool)                   (* d1:md6:ut_pexi<1|0>eee, sent with id 0 *)
| OPex (peer : N) (id : N) (added dropped : list entry)
| OMeta (peer : N) (id : N) (r : meta_reply)
| OClosed (peer : N).

Inductive op := Connect (i : N) | Recv (i : N) (ms : list msg) | Tick | Close (i : N).

Definition init (priv : bool) (m : list N) (minp : N) : dstate :=
  mkD priv m minp true 0 [] [] None None [].

Definition msize (d : dstate) : N := N.of_nat (length (d_meta d)).

Definition u8 (z : Z) : N := Z.to_N (z mod 256).
Definition u16 (z : Z) : N := Z.to_N (z mod 65536).
Definition u64 (z : Z) : N := Z.to_N (z mod 18446744073709551616).

(* ---- connection list helpers *)
Fixpoint find_conn (i : N) (l : list conn) : option conn :=
  match l with
  | [] => None
  | c :: r => if c_peer c =? i then Some c else find_conn i r
  end.

Fixpoint replace_conn (c' : conn) (l : list conn) : list conn :=
  match l with
  | [] => []
  | c :: r => if c_peer c =? c_peer c' then c' :: r else c :: replace_conn c' r
  end.

(* ConnectionList::erase: *pos = back(); pop_back(); *)
Fixpoint erase_conn (i : N) (l : list conn) : list conn :=
  match l with
  | [] => []
  | c :: r => if c_peer c =? i then
                match r with
                | [] => []
                | _ => last r c :: removelast r
                end
              else c :: erase_conn i r
  end.

Definition dec_if (b : bool) (n : N) : N := if b then n - 1 else n.

Definition set_le_pex (c : conn) (b : bool) : conn :=
  mkConn (c_peer c) (c_id_pex c) (c_id_meta c) b (c_le_meta c) (c_rs_pex c) (c_rs_meta c)
         (c_init_hs c) (c_init_pex c) (c_mask c) (c_in_read c) (c_ds_ext c) (c_listen c) (c_idle c).
Definition set_mask (c : conn) (k : mask) : conn :=
  mkConn (c_peer c) (c_id_pex c) (c_id_meta c) (c_le_pex c) (c_le_meta c) (c_rs_pex c) (c_rs_meta c)
         (c_init_hs c) (c_init_pex c) k (c_in_read c) (c_ds_ext c) (c_listen c) (c_idle c).
Definition set_idle (c : conn) (n : N) : conn :=
  mkConn (c_peer c) (c_id_pex c) (c_id_meta c) (c_le_pex c) (c_le_meta c) (c_rs_pex c) (c_rs_meta c)
         (c_init_hs c) (c_init_pex c) (c_mask c) (c_in_read c) (c_ds_ext c) (c_listen c) n.
Definition set_blocked (c : conn) (ds_ext : bool) : conn :=
  mkConn (c_peer c) (c_id_pex c) (c_id_meta c) (c_le_pex c) (c_le_meta c) (c_rs_pex c) (c_rs_meta c)
         (c_init_hs c) (c_init_pex c) (c_mask c) false ds_ext (c_listen c) (c_idle c).
Definition set_init_pex (c : conn) (b : bool) : conn :=
  mkConn (c_peer c) (c_id_pex c) (c_id_meta c) (c_le_pex c) (c_le_meta c) (c_rs_pex c) (c_rs_meta c)
         (c_init_hs c) b (c_mask c) (c_in_read c) (c_ds_ext c) (c_listen c) (c_idle c).

(* ---- ProtocolExtension::parse_handshake; inr = communication_error (connection erased) *)
Definition parse_handshake (ms : N) (c : conn) (sp : N) (h : hs) : (conn * N) + (conn * N) :=
  (* t = UT_PEX *)
  let '(idp, rsp, ipx) :=
    match hs_pex h with
    | None => (c_id_pex c, c_rs_pex c, c_init_pex c)
    | Some z => let id := u8 z in
                if id =? c_id_pex c then (c_id_pex c, true, c_init_pex c)
                else (id, true, c_init_pex c || negb (id =? 0))
    end in
  (* t = UT_METADATA *)
  let '(idm, rsm) :=
    match hs_meta h with
    | None => (c_id_meta c, c_rs_meta c)
    | Some z => (u8 z, true)
    end in
  (* first handshake: disable local extensions the peer does not support *)
  let drop_pex := c_init_hs c && negb rsp && c_le_pex c in
  let lep := if c_init_hs c && negb rsp then false else c_le_pex c in
  let lem := if c_init_hs c && negb rsm then false else c_le_meta c in
  let sp' := dec_if drop_pex sp in
  let lp := match hs_port h with
            | None => c_listen c
            | Some z => if 0 <? u16 z then u16 z else c_listen c
            end in
  let bad_size := match hs_msize h with
                  | None => false
                  | Some z => negb (ms =? 0) && negb (ms =? u64 z)
                  end in
  if bad_size then
    inr (mkConn (c_peer c) idp idm lep lem rsp rsm (c_init_hs c) ipx (c_mask c) (c_in_read c) (c_ds_ext c) lp (c_idle c), sp')
  else
    inl (mkConn (c_peer c) idp idm lep lem rsp rsm false ipx (c_mask c) (c_in_read c) (c_ds_ext c) lp (c_idle c), sp').

(* ---- one read event over the messages of a batch.
   pend: the reply built by send_metadata_piece that waits for the write event. *)
Inductive batch_result :=
| BDone (c : conn) (sp : N) (pend : option meta_reply)
| BClosed (c : conn) (sp : N).

Definition empty_hs := mkHs None None None None.

Fixpoint run_batch (meta : list N) (c : conn) (sp : N) (pend : option meta_reply) (ms : list msg) : batch_result :=
  match ms with
  | [] => BDone c sp pend
  | m :: rest =>
    let do_hs h :=
      match parse_handshake (N.of_nat (length meta)) c sp h with
      | inl (c', sp') => run_batch meta c' sp' pend rest
      | inr (c', sp') => BClosed c' sp'
      end in
    match m with
    | MHandshake h => do_hs h
    | MExt e t p =>
      if 3 <=? e then BClosed c sp                        (* read_start: communication_error *)
      else if e =? 0 then do_hs empty_hs                   (* a handshake without any known key *)
      else if e =? 1 then run_batch meta c sp pend rest    (* ut_pex without 'added' / skipped *)
      else (* UT_METADATA *)
        if negb (c_le_meta c) then run_batch meta c sp pend rest    (* SKIP_EXTENSION *)
        else if (t =? 0)%Z then
          match pend with
          | Some _ =>
            (* parse_ut_metadata returns false; read_done still deletes the message and
               invalidates the read state; down_extension removes the connection from the
               read set; nothing re-inserts it (up_extension sees is_invalid()). The rest of
               the batch stays unparsed in the protocol buffer. *)
            BDone (set_blocked c (match rest with [] => true | _ => false end)) sp pend
          | None => run_batch meta c sp (Some (send_metadata_piece false meta (u64 p))) rest
          end
        else run_batch meta c sp pend rest                 (* msg_type 1/2: base class ignores *)
    end
  end.

(* ---- DownloadMain::do_peer_exchange *)
Definition swap16 (p : N) : N := (p mod 256) * 256 + p / 256.
Definition entry_less (a b : entry) : bool :=
  (fst a <? fst b) || ((fst a =? fst b) && (swap16 (snd a) <? swap16 (snd b))).

Fixpoint insert_sorted (x : entry) (l : list entry) : list entry :=
  match l with
  | [] => [x]
  | y :: r => if entry_less y x then y :: insert_sorted x r else x :: l
  end.
Definition sort_entries (l : list entry) : list entry := fold_right insert_sorted [] l.

(* std::set_difference on sorted ranges *)
Fixpoint set_diff (a : list entry) : list entry -> list entry :=
  fix inner (b : list entry) : list entry :=
    match a with
    | [] => []
    | x :: a' =>
      match b with
      | [] => a
      | y :: b' => if entry_less x y then x :: set_diff a' b
                   else if entry_less y x then inner b'
                   else set_diff a' b'
      end
    end.

Definition gen_pex (a r : list entry) : pexmsg :=
  match a, r with
  | [], [] => None
  | _, _ => Some (a, r)
  end.

(* the per-connection part of the loop: (toggle, size_pex) threaded through *)
Inductive toggle := TNone | TEnable | TDisable.

Fixpoint pex_loop (tg : toggle) (sp : N) (l : list conn) : list conn * N :=
  match l with
  | [] => ([], sp)
  | c :: r =>
    if negb (c_rs_pex c) then let '(r', sp') := pex_loop tg sp r in (c :: r', sp')
    else
      match tg with
      | TEnable =>
        (* set_peer_exchange(true); PEX_DO *)
        let sp1 := if c_le_pex c then sp else sp + 1 in
        let c1 := set_mask (set_le_pex c true) (mkMask true true false) in
        let tg' := if Params.c20_max_size_pex <=? sp1 then TNone else TEnable in
        let '(r', sp') := pex_loop tg' sp1 r in (c1 :: r', sp')
      | _ =>
        if negb (c_le_pex c) then let '(r', sp') := pex_loop tg sp r in (c :: r', sp')
        else
          match tg with
          | TDisable =>
            let c1 := set_mask (set_le_pex c false) (mkMask (k_do (c_mask c)) false true) in
            let '(r', sp') := pex_loop tg (sp - 1) r in (c1 :: r', sp')
          | _ =>
            let c1 := set_mask c (mkMask true (k_en (c_mask c)) (k_dis (c_mask c))) in
            let '(r', sp') := pex_loop tg sp r in (c1 :: r', sp')
          end
      end
  end.

Definition current_entries (l : list conn) : list entry :=
  map (fun c => (c_peer c, c_listen c)) (filter (fun c => negb (c_listen c =? 0)) l).

Inductive dpe_result := DpeOk (d : dstate) | DpeInternalError.

Definition do_peer_exchange (d : dstate) : dpe_result :=
  let n := N.of_nat (length (d_conns d)) in
  let '(act, tg) :=
    if negb (d_pex_active d) && (n <? d_minp d / 2) then
      (true, if d_size_pex d <? Params.c20_max_size_pex then TEnable else TNone)
    else if d_pex_active d && (d_minp d <=? n) then (false, TDisable)
    else (d_pex_active d, TNone) in
  let '(conns', sp') := pex_loop tg (d_size_pex d) (d_conns d) in
  let current := sort_entries (current_entries (d_conns d)) in
  let added := set_diff current (d_list d) in
  let removed := set_diff (d_list d) current in
  let ncur := N.of_nat (length current) in
  let cap := Params.c20_max_pex_list in
  if (cap <? ncur) && (N.of_nat (length added) <? ncur - cap) then DpeInternalError
  else
    let '(added', list') :=
      if cap <? ncur then
        let added' := firstn (length added - N.to_nat (ncur - cap)) added in
        (added', sort_entries (set_diff (d_list d) removed ++ added'))
      else (added, current) in
    let '(ini, del) :=
      match added', list' with
      | [], [] => (d_initial d, None)     (* the stale-initial path *)
      | _, _ => (gen_pex list' [], gen_pex added' removed)
      end in
    DpeOk (mkD (d_private d) (d_meta d) (d_minp d) act sp' conns' list' ini del (d_used d)).

(* ---- DownloadWrapper::receive_tick, PEX disabled (private) but still active *)
Fixpoint disable_all (sp : N) (l : list conn) : list conn * N :=
  match l with
  | [] => ([], sp)
  | c :: r =>
    if c_rs_pex c then
      let c1 := set_mask (set_le_pex c false) (mkMask (k_do (c_mask c)) false true) in
      let '(r', sp') := disable_all (dec_if (c_le_pex c) sp) r in (c1 :: r', sp')
    else let '(r', sp') := disable_all sp r in (c :: r', sp')
  end.

(* ---- keep-alive loop with the 240 s read timeout: idle counts 2-minute ticks *)
Definition timeout_ticks : N := Params.c20_read_timeout_s / 120.   (* 2 *)

Fixpoint ka_loop (fuel : nat) (sp : N) (l : list conn) : list conn * N * list out :=
  match fuel with
  | O => (l, sp, [])
  | S f =>
    match l with
    | [] => ([], sp, [])
    | c :: r =>
      if timeout_ticks <? c_idle c + 1 then
        let l' := match r with [] => [] | _ => last r c :: removelast r end in
        let '(l'', sp', o) := ka_loop f (dec_if (c_le_pex c) sp) l' in
        (l'', sp', OClosed (c_peer c) :: o)
      else
        let '(r', sp', o) := ka_loop f sp r in
        (set_idle c (c_idle c + 1) :: r', sp', o)
    end
  end.

(* ---- write events after the tick: PeerConnectionBase::send_pex_message until the mask is 0 *)
Fixpoint drain_mask (fuel : nat) (ini del : pexmsg) (c : conn) : conn * list out :=
  match fuel with
  | O => (c, [])
  | S f =>
    let k := c_mask c in
    if mask_is0 k then (c, [])
    else if negb (c_rs_pex c) then (set_mask c mask0, [])
    else if k_en k || k_dis k then
      let '(c', o) := drain_mask f ini del (set_mask c (mkMask (k_do k) false false)) in
      (c', OToggle (c_peer c) (k_en k) :: o)
    else if k_do k && negb (c_id_pex c =? 0) then
      let m := if c_init_pex c then ini else del in
      let c1 := set_mask (set_init_pex c false) mask0 in
      match m with
      | None => (c1, [])
      | Some (a, r) => (c1, [OPex (c_peer c) (c_id_pex c) a r])
      end
    else (set_mask c mask0, [])
  end.

Fixpoint drain_all (ini del : pexmsg) (l : list conn) : list conn * list out :=
  match l with
  | [] => ([], [])
  | c :: r =>
    let '(c', o) := drain_mask 3 ini del c in
    let '(r', o') := drain_all ini del r in
    (c' :: r', o ++ o')
  end.

Definition read_keepalives (l : list conn) : list conn :=
  map (fun c => if c_in_read c then set_idle c 0 else c) l.

Inductive step_result := SOk (d : dstate) (o : list out) | SInternalError.

Definition set_conns (d : dstate) (l : list conn) (sp : N) : dstate :=
  mkD (d_private d) (d_meta d) (d_minp d) (d_pex_active d) sp l (d_list d) (d_initial d) (d_delta d) (d_used d).

Definition tick (d0 : dstate) : step_result :=
  let d := set_conns d0 (read_keepalives (d_conns d0)) (d_size_pex d0) in
  let r :=
    if negb (d_private d) then do_peer_exchange d
    else if d_pex_active d then
      let '(l, sp) := disable_all (d_size_pex d) (d_conns d) in
      DpeOk (mkD (d_private d) (d_meta d) (d_minp d) false sp l (d_list d) (d_initial d) (d_delta d) (d_used d))
    else DpeOk d in
  match r with
  | DpeInternalError => SInternalError
  | DpeOk d1 =>
    let '(l2, sp2, o2) := ka_loop (length (d_conns d1)) (d_size_pex d1) (d_conns d1) in
    let '(l3, o3) := drain_all (d_initial d1) (d_delta d1) l2 in
    SOk (set_conns d1 l3 sp2) (o2 ++ o3)
  end.

Definition default_conn (i : N) (le_pex : bool) : conn :=
  mkConn i 0 0 le_pex true false false true false mask0 true false 0 0.

Definition step (d : dstate) (o : op) : step_result :=
  match o with
  | Connect i =>
    if existsb (N.eqb i) (d_used d) then SOk d []
    else
      (* Handshake::write_extension_handshake *)
      let le := negb (d_private d) && d_pex_active d && (d_size_pex d <? Params.c20_max_size_pex) in
      let sp := if le then d_size_pex d + 1 else d_size_pex d in
      SOk (mkD (d_private d) (d_meta d) (d_minp d) (d_pex_active d) sp (d_conns d ++ [default_conn i le])
               (d_list d) (d_initial d) (d_delta d) (i :: d_used d))
          [OHs i le (msize d)]
  | Recv i ms =>
    match find_conn i (d_conns d) with
    | None => SOk d []
    | Some c =>
      if negb (c_in_read c) then SOk d []       (* bytes stay in the socket *)
      else
        match run_batch (d_meta d) (set_idle c 0) (d_size_pex d) None ms with
        | BClosed c' sp => SOk (set_conns d (erase_conn i (d_conns d)) (dec_if (c_le_pex c') sp)) [OClosed i]
        | BDone c' sp pend =>
          SOk (set_conns d (replace_conn c' (d_conns d)) sp)
              (match pend with
               | None => []
               | Some r => [OMeta i (c_id_meta c') r]    (* write_prepare_extension(id(UT_METADATA)) *)
               end)
        end
    end
  | Tick => tick d
  | Close i =>
    match find_conn i (d_conns d) with
    | None => SOk d []
    | Some c =>
      if negb (c_in_read c) then SOk d []       (* not modelled, see header *)
      else SOk (set_conns d (erase_conn i (d_conns d)) (dec_if (c_le_pex c) (d_size_pex d))) []
    end
  end.

(* run: outputs per op; an internal_error ends the run *)
Fixpoint run (d : dstate) (ops : list op) : list (option (dstate * list out)) :=
  match ops with
  | [] => []
  | o :: r =>
    match step d o with
    | SInternalError => [None]
    | SOk d' outs => Some (d', outs) :: run d' r
    end
  end.

(* all outputs of a run, flattened *)
Fixpoint outs_of (d : dstate) (ops : list op) : list out :=
  match ops with
  | [] => []
  | o :: r =>
    match step d o with
    | SInternalError => []
    | SOk d' outs => outs ++ outs_of d' r
    end
  end.

Fixpoint final_state (d : dstate) (ops : list op) : dstate :=
  match ops with
  | [] => d
  | o :: r =>
    match step d o with
    | SInternalError => d
    | SOk d' _ => final_state d' r
    end
  end.

(* the harness starts every case with one tick (phase normalisation) *)
Definition start (priv : bool) (m : list N) (minp : N) : dstate :=
  match tick (init priv m minp) with
  | SOk d _ => d
  | SInternalError => init priv m minp
  end.

Definition params_ok : bool :=
  (Params.c20_metadata_piece_shift =? 14) && (Params.c20_max_pex_list =? 200) &&
  (Params.c20_max_size_pex =? 8) && (Params.c20_read_timeout_s =? 240) &&
  (Params.c20_reject_buf_extra =? 36) && (Params.c20_pex_tick_every =? 4) &&
  (Params.c20_ext_length_limit =? 32768).
