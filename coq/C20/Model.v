(* C20 — extension protocol: executable model (definitions only).

   Anchors (as the code IS on the checked tree, after the fix: commits 025b717 6c29d69 941ab7d
   a355167 e099dce):
     src/protocol/extensions.{h,cc}      ProtocolExtension::{send_metadata_piece, parse_handshake,
                                         parse_ut_metadata, read_start, read_done, id,
                                         set/unset_local_enabled, generate_ut_pex_message,
                                         generate_toggle_message, generate_handshake_message}
     src/protocol/peer_connection_base.cc  down_extension / up_extension (read suspension),
                                         write_prepare_extension, send_pex_message, send_ext_message,
                                         set_peer_exchange
     src/protocol/peer_connection_leech.cc read_message (EXTENSION_PROTOCOL), event_read loop,
                                         fill_write_buffer, event_write, receive_keepalive (240 s)
     src/protocol/handshake.cc           write_extension_handshake
     src/download/download_main.cc       do_peer_exchange
     src/download/download_wrapper.cc    receive_tick (2-minute part)
     src/torrent/peer/connection_list.cc insert (push_back) / erase (swap with last)
     src/torrent/system/poll_epoll.cc    Poll::process (per ready fd: read event, then write event)

   Granularity: EVENT level. A connection carries the kernel socket queue (complete messages the
   peer sent and the library has not read), the protocol buffer (read, not yet parsed), the
   complete extension message that waits for a pending write (m_read while parse_ut_metadata
   returns false), the pending reply (m_pending), the message in flight (m_up buffer +
   m_extension_message) and the poll read/write sets. [read_event] / [write_event] are
   PeerConnection::event_read / event_write; [settle] repeats Poll::process rounds until nothing
   moves. One [op] = one scripted action of a wire peer (or the 2-minute tick, or a change of
   the send budget) followed by [settle], exactly what harness/c20.cc does.
   The send budget is all or nothing: [SetBlocked i true] makes the library-side socket of
   peer i refuse every byte (send() -> EAGAIN), false makes it unlimited again.

   [fixes]: three further repairs proposed to the integrator are modelled as switches;
   [current_fixes] says which of them /repo has. Theorems about the code as it is use
   [current_fixes]; the positive reads_resume theorem is proved for [all_fixes].

   Domain of the model (result [SUnmodelled] outside it; the glue skips such cases): a read
   event always takes the whole socket queue (protocol buffer + queue < 512 bytes); [Close] only
   of a connection that is in the read set with nothing unread. Integers in messages fit int64;
   every peer index connects at most once. *)
From Coq Require Import NArith ZArith List Bool.
From LTV.C20 Require Import ParamsGen.
Import ListNotations.
Open Scope N_scope.

(* ------------------------------------------------------------------------------------------ *)
(* Part 1: ut_metadata provider, ProtocolExtension::send_metadata_piece                        *)

Definition piece_size : N := 2 ^ Params.c20_metadata_piece_shift.

Definition slice (m : list N) (off len : N) : list N :=
  firstn (N.to_nat len) (skipn (N.to_nat off) m).

Inductive meta_reply :=
| MReject (piece : N)
| MData (piece total : N) (payload : list N).

(* pieceEnd = (metadataSize + metadata_piece_size - 1) >> metadata_piece_shift *)
Definition piece_end (sz : N) : N := (sz + piece_size - 1) / piece_size.

(* length of the last piece as the code computes it since 025b717:
   metadataSize - (piece << metadata_piece_shift) for piece = pieceEnd - 1 *)
Definition last_len_code (sz : N) : N := sz - (piece_end sz - 1) * piece_size.
(* the computation before 025b717 (kept for the regression theorem): metadata_size % 16384 *)
Definition last_len_old (sz : N) : N := sz mod piece_size.

Definition send_metadata_piece_with (last_len : N -> N) (meta_dl : bool) (m : list N) (piece : N) : meta_reply :=
  let sz := N.of_nat (length m) in
  let pe := piece_end sz in
  if meta_dl || (pe <=? piece) then MReject piece
  else
    let len := if piece =? pe - 1 then last_len sz else piece_size in
    MData piece sz (slice m (piece * piece_size) len).

Definition send_metadata_piece := send_metadata_piece_with last_len_code.
Definition send_metadata_piece_old := send_metadata_piece_with last_len_old.

(* number of decimal digits printed by %zu *)
Fixpoint ndigits_fuel (f : nat) (n : N) : N :=
  match f with
  | O => 1
  | S f' => if n <? 10 then 1 else 1 + ndigits_fuel f' (n / 10)
  end.
Definition ndigits (n : N) : N := ndigits_fuel 25 n.

(* build_bencode(sizeof(size_t) + EXTRA, "d8:msg_typei2e5:piecei%zuee", piece): the text has
   24 + digits characters; vsnprintf truncates to maxLength-1 characters + NUL and the code
   only refuses length > maxLength, so a text of exactly maxLength characters would be sent
   truncated (EXTRA was 36 before e099dce: 44 characters for piece >= 10^19; it is 40 now). *)
Definition reject_text_len (piece : N) : N := 24 + ndigits piece.
Definition reject_buf_len : N := 8 + Params.c20_reject_buf_extra.
Inductive build_result := BuildOk | BuildTruncated | BuildInternalError.
Definition reject_build (piece : N) : build_result :=
  if reject_buf_len <? reject_text_len piece then BuildInternalError
  else if reject_buf_len =? reject_text_len piece then BuildTruncated
  else BuildOk.


(* ------------------------------------------------------------------------------------------ *)
(* Part 2: connections at event level, id map, PEX, read suspension                            *)

Record hs := mkHs { hs_pex : option Z; hs_meta : option Z; hs_port : option Z; hs_msize : option Z }.

Inductive msg :=
| MHandshake (h : hs)                      (* extended id 0 with an extension handshake *)
| MExt (extid : N) (msgtype piece : Z)     (* extended id [extid], { msg_type, piece } *)
| MKeepalive.
Definition wmsg := (msg * N)%type.         (* message and its size on the wire *)
Definition bytes_of (l : list wmsg) : N := fold_right (fun m a => snd m + a) 0 l.

Record fixes := mkFx {
  fx_up_nothrow : bool;   (* up_extension: a read_done() that still cannot proceed is not an internal_error *)
  fx_pex_false : bool;    (* send_pex_message: returns false when it wrote nothing *)
  fx_drain : bool;        (* event_write: after up_extension processed the waiting message, parse what is buffered behind it *)
  fx_port : bool;         (* parse_handshake: a 'p' outside 1..65535 is ignored instead of truncated to 16 bits *)
  (* the ORDER SocketAddressCompact_less puts on the 6-byte entries is not constrained by the property: it
     is a policy, probed on the compiled code at run time (harness c20 --probe-order). false: the raw
     network-order integers as this little-endian host reads them (the code as it is); true: numeric. *)
  fx_ord_addr : bool;
  fx_ord_port : bool
}.
(* /repo has all four since 1b429d0 0a72c3c c72865a 6e820e7 *)
Definition current_fixes := mkFx true true true true false false.
Definition no_fixes := mkFx false false false false false false.
Definition all_fixes := mkFx true true true true false false.

Record mask := mkMask { k_do : bool; k_en : bool; k_dis : bool }.
Definition mask0 := mkMask false false false.
Definition mask_is0 (k : mask) : bool := negb (k_do k || k_en k || k_dis k).
Definition mask_num (k : mask) : N :=
  (if k_do k then 1 else 0) + (if k_en k then 2 else 0) + (if k_dis k then 4 else 0).

Definition entry := (N * N)%type.      (* peer index, listen port *)
Definition pexmsg := option (list entry * list entry).   (* None: empty DataBuffer *)

Inductive out :=
| OHs (peer : N) (pex_on : bool) (msize : N)       (* the library's extension handshake *)
| OToggle (peer : N) (on : bool)                   (* d1:md6:ut_pexi<1|0>eee, sent with id 0 *)
| OPex (peer : N) (id : N) (added dropped : list entry)
| OMeta (peer : N) (id : N) (r : meta_reply)
| OClosed (peer : N).

(* ProtocolWrite state: IDLE, or MSG/WRITE_EXTENSION with the extension message in flight *)
Inductive upstate := UIdle | UMsg (ext : option out).

(* ProtocolExtension: id map, flags; PeerInfo::listen_port *)
Record xstate := mkX {
  x_id_pex : N;
  x_id_meta : N;
  x_le_pex : bool;
  x_le_meta : bool;
  x_rs_pex : bool;
  x_rs_meta : bool;
  x_init_hs : bool;
  x_init_pex : bool;
  x_listen : N
}.
Definition set_x_id_pex (r : xstate) (v : N) : xstate := mkX v (x_id_meta r) (x_le_pex r) (x_le_meta r) (x_rs_pex r) (x_rs_meta r) (x_init_hs r) (x_init_pex r) (x_listen r).
Definition set_x_id_meta (r : xstate) (v : N) : xstate := mkX (x_id_pex r) v (x_le_pex r) (x_le_meta r) (x_rs_pex r) (x_rs_meta r) (x_init_hs r) (x_init_pex r) (x_listen r).
Definition set_x_le_pex (r : xstate) (v : bool) : xstate := mkX (x_id_pex r) (x_id_meta r) v (x_le_meta r) (x_rs_pex r) (x_rs_meta r) (x_init_hs r) (x_init_pex r) (x_listen r).
Definition set_x_le_meta (r : xstate) (v : bool) : xstate := mkX (x_id_pex r) (x_id_meta r) (x_le_pex r) v (x_rs_pex r) (x_rs_meta r) (x_init_hs r) (x_init_pex r) (x_listen r).
Definition set_x_rs_pex (r : xstate) (v : bool) : xstate := mkX (x_id_pex r) (x_id_meta r) (x_le_pex r) (x_le_meta r) v (x_rs_meta r) (x_init_hs r) (x_init_pex r) (x_listen r).
Definition set_x_rs_meta (r : xstate) (v : bool) : xstate := mkX (x_id_pex r) (x_id_meta r) (x_le_pex r) (x_le_meta r) (x_rs_pex r) v (x_init_hs r) (x_init_pex r) (x_listen r).
Definition set_x_init_hs (r : xstate) (v : bool) : xstate := mkX (x_id_pex r) (x_id_meta r) (x_le_pex r) (x_le_meta r) (x_rs_pex r) (x_rs_meta r) v (x_init_pex r) (x_listen r).
Definition set_x_init_pex (r : xstate) (v : bool) : xstate := mkX (x_id_pex r) (x_id_meta r) (x_le_pex r) (x_le_meta r) (x_rs_pex r) (x_rs_meta r) (x_init_hs r) v (x_listen r).
Definition set_x_listen (r : xstate) (v : N) : xstate := mkX (x_id_pex r) (x_id_meta r) (x_le_pex r) (x_le_meta r) (x_rs_pex r) (x_rs_meta r) (x_init_hs r) (x_init_pex r) v.

(* PeerConnectionBase: poll sets, read/write machinery *)
Record iostate := mkIO {
  i_mask : mask;
  i_in_read : bool;
  i_in_write : bool;
  i_ds_ext : bool;
  i_pend : option meta_reply;
  i_blocked : option Z;
  i_buf : list wmsg;
  i_sock : list wmsg;
  i_up : upstate;
  i_kabuf : bool;
  i_wblocked : bool;
  i_idle : N
}.
Definition set_i_mask (r : iostate) (v : mask) : iostate := mkIO v (i_in_read r) (i_in_write r) (i_ds_ext r) (i_pend r) (i_blocked r) (i_buf r) (i_sock r) (i_up r) (i_kabuf r) (i_wblocked r) (i_idle r).
Definition set_i_in_read (r : iostate) (v : bool) : iostate := mkIO (i_mask r) v (i_in_write r) (i_ds_ext r) (i_pend r) (i_blocked r) (i_buf r) (i_sock r) (i_up r) (i_kabuf r) (i_wblocked r) (i_idle r).
Definition set_i_in_write (r : iostate) (v : bool) : iostate := mkIO (i_mask r) (i_in_read r) v (i_ds_ext r) (i_pend r) (i_blocked r) (i_buf r) (i_sock r) (i_up r) (i_kabuf r) (i_wblocked r) (i_idle r).
Definition set_i_ds_ext (r : iostate) (v : bool) : iostate := mkIO (i_mask r) (i_in_read r) (i_in_write r) v (i_pend r) (i_blocked r) (i_buf r) (i_sock r) (i_up r) (i_kabuf r) (i_wblocked r) (i_idle r).
Definition set_i_pend (r : iostate) (v : option meta_reply) : iostate := mkIO (i_mask r) (i_in_read r) (i_in_write r) (i_ds_ext r) v (i_blocked r) (i_buf r) (i_sock r) (i_up r) (i_kabuf r) (i_wblocked r) (i_idle r).
Definition set_i_blocked (r : iostate) (v : option Z) : iostate := mkIO (i_mask r) (i_in_read r) (i_in_write r) (i_ds_ext r) (i_pend r) v (i_buf r) (i_sock r) (i_up r) (i_kabuf r) (i_wblocked r) (i_idle r).
Definition set_i_buf (r : iostate) (v : list wmsg) : iostate := mkIO (i_mask r) (i_in_read r) (i_in_write r) (i_ds_ext r) (i_pend r) (i_blocked r) v (i_sock r) (i_up r) (i_kabuf r) (i_wblocked r) (i_idle r).
Definition set_i_sock (r : iostate) (v : list wmsg) : iostate := mkIO (i_mask r) (i_in_read r) (i_in_write r) (i_ds_ext r) (i_pend r) (i_blocked r) (i_buf r) v (i_up r) (i_kabuf r) (i_wblocked r) (i_idle r).
Definition set_i_up (r : iostate) (v : upstate) : iostate := mkIO (i_mask r) (i_in_read r) (i_in_write r) (i_ds_ext r) (i_pend r) (i_blocked r) (i_buf r) (i_sock r) v (i_kabuf r) (i_wblocked r) (i_idle r).
Definition set_i_kabuf (r : iostate) (v : bool) : iostate := mkIO (i_mask r) (i_in_read r) (i_in_write r) (i_ds_ext r) (i_pend r) (i_blocked r) (i_buf r) (i_sock r) (i_up r) v (i_wblocked r) (i_idle r).
Definition set_i_wblocked (r : iostate) (v : bool) : iostate := mkIO (i_mask r) (i_in_read r) (i_in_write r) (i_ds_ext r) (i_pend r) (i_blocked r) (i_buf r) (i_sock r) (i_up r) (i_kabuf r) v (i_idle r).
Definition set_i_idle (r : iostate) (v : N) : iostate := mkIO (i_mask r) (i_in_read r) (i_in_write r) (i_ds_ext r) (i_pend r) (i_blocked r) (i_buf r) (i_sock r) (i_up r) (i_kabuf r) (i_wblocked r) v.

Record conn := mkConn { c_peer : N; c_x : xstate; c_io : iostate }.
Definition with_x (c : conn) (x : xstate) : conn := mkConn (c_peer c) x (c_io c).
Definition with_io (c : conn) (i : iostate) : conn := mkConn (c_peer c) (c_x c) i.

Record dstate := mkD {
  d_private : bool;
  d_meta : list N;                     (* canonical bencoding of the info dictionary *)
  d_minp : N;                          (* ConnectionList::min_size *)
  d_pex_active : bool;
  d_size_pex : N;
  d_conns : list conn;                 (* ConnectionList order *)
  d_list : list entry;                 (* m_ut_pex_list *)
  d_initial : pexmsg;                  (* m_ut_pex_initial *)
  d_delta : pexmsg;                    (* m_ut_pex_delta *)
  d_used : list N;                     (* peer indices that ever connected *)
  d_pexen : bool                       (* DownloadInfo::flag_pex_enabled: not private at download_add, then Download::set_pex_enabled *)
}.

Inductive op :=
| Connect (i : N)
| Recv (i : N) (ms : list wmsg)        (* the peer sends these messages in one segment *)
| Tick
| Close (i : N)
| SetBlocked (i : N) (b : bool)        (* Session::set_send_budget(peer, 0 / unlimited) *)
| SetPex (b : bool).                   (* the client calls Download::set_pex_enabled(b) *)

Definition init (priv : bool) (m : list N) (minp : N) : dstate :=
  mkD priv m minp true 0 [] [] None None [] (negb priv).

Definition msize (d : dstate) : N := N.of_nat (length (d_meta d)).

Definition u16 (z : Z) : N := Z.to_N (z mod 65536).
Definition u64 (z : Z) : N := Z.to_N (z mod 18446744073709551616).
(* 941ab7d: uint8_t id = (advertised < 0 || advertised > 255) ? 0 : advertised *)
Definition clamp_id (z : Z) : N := if (z <? 0)%Z || (255 <? z)%Z then 0 else Z.to_N z.

(* ---- connection list helpers *)
Fixpoint find_conn (i : N) (l : list conn) : option conn :=
  match l with
  | [] => None
  | c :: r => if c_peer c =? i then Some c else find_conn i r
  end.

Fixpoint replace_conn (c' : conn) (l : list conn) : list conn :=
  match l with
  | [] => []
  | c :: r => if c_peer c =? c_peer c' then c' :: r else c :: replace_conn c' r
  end.

(* ConnectionList::erase: *pos = back(); pop_back(); *)
Fixpoint erase_conn (i : N) (l : list conn) : list conn :=
  match l with
  | [] => []
  | c :: r => if c_peer c =? i then
                match r with
                | [] => []
                | _ => last r c :: removelast r
                end
              else c :: erase_conn i r
  end.

Definition dec_if (b : bool) (n : N) : N := if b then n - 1 else n.

Definition empty_hs := mkHs None None None None.

(* ---- ProtocolExtension::parse_handshake. Result: new id map/flags, the pending reply (dropped
   when its type's id becomes 0), size_pex, and whether a communication_error was thrown
   (metadata_size mismatch: the connection is erased). *)
Definition parse_handshake (fx : fixes) (ms : N) (x : xstate) (pend : option meta_reply) (sp : N) (h : hs)
  : xstate * option meta_reply * N * bool :=
  let '(idp, rsp, ipx) :=
    match hs_pex h with
    | None => (x_id_pex x, x_rs_pex x, x_init_pex x)
    | Some z => let id := clamp_id z in
                if id =? x_id_pex x then (x_id_pex x, true, x_init_pex x)
                else (id, true, x_init_pex x || negb (id =? 0))
    end in
  let '(idm, rsm, pend') :=
    match hs_meta h with
    | None => (x_id_meta x, x_rs_meta x, pend)
    | Some z => let id := clamp_id z in
                (id, true, if negb (id =? x_id_meta x) && (id =? 0) then None else pend)
    end in
  let first := x_init_hs x in
  let drop_pex := first && negb rsp && x_le_pex x in
  let lep := if first && negb rsp then false else x_le_pex x in
  let lem := if first && negb rsm then false else x_le_meta x in
  let sp' := dec_if drop_pex sp in
  let lp := match hs_port h with
            | None => x_listen x
            | Some z => if fx_port fx then (if (0 <? z)%Z && (z <=? 65535)%Z then Z.to_N z else x_listen x)
                        else if 0 <? u16 z then u16 z else x_listen x
            end in
  let bad := match hs_msize h with
             | None => false
             | Some z => negb (ms =? 0) && negb (ms =? u64 z)
             end in
  (mkX idp idm lep lem rsp rsm (if bad then first else false) ipx lp, pend', sp', bad).

(* "if (m_extensions->has_pending_message()) write_insert_poll_safe();" after a processed message *)
Definition poke_write (i : iostate) : iostate :=
  match i_pend i, i_up i with
  | Some _, UIdle => set_i_in_write i true
  | _, _ => i
  end.

(* parse_ut_metadata, msg_type 0, on a connection whose ut_metadata is locally enabled.
   None: a reply is still pending, the request cannot be processed yet (read_done returns false
   and, since 6c29d69, keeps the message). *)
Definition try_request (meta : list N) (x : xstate) (i : iostate) (p : Z) : option iostate :=
  if x_id_meta x =? 0 then Some i           (* 941ab7d: no id to reply with: ignored *)
  else match i_pend i with
       | Some _ => None
       | None => Some (set_i_pend i (Some (send_metadata_piece false meta (u64 p))))
       end.

(* ---- "while (read_message());" over complete buffered messages. The bool says that a
   communication_error closed the connection. A blocked request stops the loop, removes the
   connection from the read set and leaves the rest in the protocol buffer. *)
Fixpoint parse_msgs (fx : fixes) (meta : list N) (c : conn) (sp : N) (ms : list wmsg) : conn * N * bool :=
  match ms with
  | [] => (with_io c (set_i_buf (c_io c) []), sp, false)
  | (m, _) :: rest =>
    let hsk h :=
      let '(x', pend', sp', bad) := parse_handshake fx (N.of_nat (length meta)) (c_x c) (i_pend (c_io c)) sp h in
      let c' := mkConn (c_peer c) x' (set_i_pend (c_io c) pend') in
      if bad then (with_io c' (set_i_buf (c_io c') rest), sp', true)
      else parse_msgs fx meta (with_io c' (poke_write (c_io c'))) sp' rest in
    match m with
    | MKeepalive => parse_msgs fx meta c sp rest
    | MHandshake h => hsk h
    | MExt e t p =>
      if 3 <=? e then (with_io c (set_i_buf (c_io c) rest), sp, true)      (* read_start: communication_error *)
      else if e =? 0 then hsk empty_hs
      else if e =? 1 then parse_msgs fx meta (with_io c (poke_write (c_io c))) sp rest
      else if negb (x_le_meta (c_x c)) then parse_msgs fx meta (with_io c (poke_write (c_io c))) sp rest   (* SKIP_EXTENSION *)
      else if (t =? 0)%Z then
        match try_request meta (c_x c) (c_io c) p with
        | Some i' => parse_msgs fx meta (with_io c (poke_write i')) sp rest
        | None =>
          (with_io c (set_i_buf (set_i_ds_ext (set_i_in_read (set_i_blocked (c_io c) (Some p)) false) true) rest), sp, false)
        end
      else parse_msgs fx meta (with_io c (poke_write (c_io c))) sp rest       (* msg_type 1/2: base class ignores *)
    end
  end.

Inductive cres :=
| COk (c : conn) (sp : N) (o : list out)
| CClosed (c : conn) (sp : N) (o : list out)   (* the library erases the connection *)
| CInternal                                     (* internal_error escapes to the client *)
| CUnmodelled.

(* ---- PeerConnection::event_read (socket readable) *)
Definition read_event (fx : fixes) (meta : list N) (c : conn) (sp : N) : cres :=
  let i0 := set_i_idle (c_io c) 0 in
  let stage1 : option iostate :=
    if i_ds_ext i0 then
      match i_blocked i0 with
      | Some p => match try_request meta (c_x c) i0 p with
                  | Some i' => Some (set_i_ds_ext (poke_write (set_i_blocked i' None)) false)
                  | None => None
                  end
      | None => Some (set_i_ds_ext (poke_write i0) false)
      end
    else Some i0 in
  match stage1 with
  | None => COk (with_io c (set_i_in_read i0 false)) sp []
  | Some i1 =>
    if 512 <=? bytes_of (i_buf i1) + bytes_of (i_sock i1) then CUnmodelled
    else
      let '(c', sp', closed) := parse_msgs fx meta (with_io c (set_i_sock i1 [])) sp (i_buf i1 ++ i_sock i1) in
      if closed then CClosed c' sp' [] else COk c' sp' []
  end.

(* ---- PeerConnectionBase::send_pex_message: (connection, return value, message prepared) *)
Definition send_pex (fx : fixes) (ini del : pexmsg) (c : conn) : conn * bool * option out :=
  let i := c_io c in
  let k := i_mask i in
  let x := c_x c in
  if negb (x_rs_pex x) then (with_io c (set_i_mask i mask0), false, None)
  else if k_en k || k_dis k then
    (with_io c (set_i_mask i (mkMask (k_do k) false false)), true, Some (OToggle (c_peer c) (k_en k)))
  else if k_do k && negb (x_id_pex x =? 0) then
    let m := if x_init_pex x then ini else del in
    let c1 := mkConn (c_peer c) (set_x_init_pex x false) (set_i_mask i mask0) in
    match m with
    | None => (c1, false, None)
    | Some (a, r) => (c1, true, Some (OPex (c_peer c) (x_id_pex x) a r))
    end
  else (with_io c (set_i_mask i mask0), negb (fx_pex_false fx), None).

(* ---- the extension part of fill_write_buffer *)
Definition fill (fx : fixes) (ini del : pexmsg) (c : conn) : conn * option out :=
  let '(c1, ret, ext) := if mask_is0 (i_mask (c_io c)) then (c, false, None) else send_pex fx ini del c in
  if ret then (c1, ext)
  else match i_pend (c_io c1) with
       | Some r => (with_io c1 (set_i_pend (c_io c1) None),
                    Some (OMeta (c_peer c1) (x_id_meta (c_x c1)) r))   (* write_prepare_extension(id(UT_METADATA)) *)
       | None => (c1, None)
       end.

(* ---- PeerConnection::event_write (socket writable) *)
Fixpoint write_loop (fuel : nat) (fx : fixes) (meta : list N) (ini del : pexmsg) (c : conn) (sp : N) (acc : list out) : cres :=
  match fuel with
  | O => CUnmodelled
  | S f =>
    match i_up (c_io c) with
    | UIdle =>
      let '(c1, ext) := fill fx ini del c in
      match ext, i_kabuf (c_io c1) with
      | None, false => COk (with_io c1 (set_i_in_write (c_io c1) false)) sp acc     (* buffer empty: remove_write *)
      | _, _ => write_loop f fx meta ini del (with_io c1 (set_i_kabuf (set_i_up (c_io c1) (UMsg ext)) false)) sp acc
      end
    | UMsg ext =>
      if i_wblocked (c_io c) then COk c sp acc                                       (* send() -> EAGAIN *)
      else
        match ext with
        | None => write_loop f fx meta ini del (with_io c (set_i_up (c_io c) UIdle)) sp acc
        | Some e =>
          let i := c_io c in
          (* up_extension: the message is on the wire; a complete waiting message is processed now *)
          let r : option iostate :=
            match i_blocked i with
            | Some p => match try_request meta (c_x c) i p with
                        | Some i' => Some (set_i_in_read (set_i_blocked i' None) true)
                        | None => if fx_up_nothrow fx then Some i else None
                        end
            | None => Some i
            end in
          match r with
          | None => CInternal      (* "up_extension could not process complete extension message" *)
          | Some i1 =>
            let i2 := set_i_up i1 UIdle in
            if fx_drain fx && i_ds_ext i2 && (match i_blocked i2 with None => true | Some _ => false end) then
              let '(c', sp', closed) := parse_msgs fx meta (with_io c (set_i_ds_ext i2 false)) sp (i_buf i2) in
              if closed then CClosed c' sp' (acc ++ [e])
              else write_loop f fx meta ini del c' sp' (acc ++ [e])
            else write_loop f fx meta ini del (with_io c i2) sp (acc ++ [e])
          end
        end
    end
  end.

Definition write_event (fx : fixes) (meta : list N) (ini del : pexmsg) (c : conn) (sp : N) : cres :=
  write_loop 200 fx meta ini del c sp [].

(* ---- DownloadMain::do_peer_exchange *)
Definition swap16 (p : N) : N := (p mod 256) * 256 + p / 256.
(* comparison keys of an entry under the order policy. Peer k has address 127.0.0.(2+k) (session peers,
   k < 6) or 10.0.(k mod 256).(k / 256) (unit-level fake peers): read as a raw little-endian integer the
   address is monotone in k; numerically (ntohl) it is monotone in swap16 k. *)
Definition key_addr (fx : fixes) (i : N) : N := if fx_ord_addr fx then swap16 i else i.
Definition key_port (fx : fixes) (p : N) : N := if fx_ord_port fx then p else swap16 p.
Definition entry_less (fx : fixes) (a b : entry) : bool :=
  (key_addr fx (fst a) <? key_addr fx (fst b)) ||
  ((key_addr fx (fst a) =? key_addr fx (fst b)) && (key_port fx (snd a) <? key_port fx (snd b))).

Fixpoint insert_sorted (fx : fixes) (x : entry) (l : list entry) : list entry :=
  match l with
  | [] => [x]
  | y :: r => if entry_less fx y x then y :: insert_sorted fx x r else x :: l
  end.
Definition sort_entries (fx : fixes) (l : list entry) : list entry := fold_right (insert_sorted fx) [] l.

(* std::set_difference on sorted ranges *)
Fixpoint set_diff (fx : fixes) (a : list entry) : list entry -> list entry :=
  fix inner (b : list entry) : list entry :=
    match a with
    | [] => []
    | x :: a' =>
      match b with
      | [] => a
      | y :: b' => if entry_less fx x y then x :: set_diff fx a' b
                   else if entry_less fx y x then inner b'
                   else set_diff fx a' b'
      end
    end.

Definition gen_pex (a r : list entry) : pexmsg :=
  match a, r with
  | [], [] => None
  | _, _ => Some (a, r)
  end.

Inductive toggle := TNone | TEnable | TDisable.

Definition cmask (c : conn) : mask := i_mask (c_io c).
Definition set_cmask (c : conn) (k : mask) : conn := with_io c (set_i_mask (c_io c) k).
Definition set_le_pex (c : conn) (b : bool) : conn := with_x c (set_x_le_pex (c_x c) b).

Fixpoint pex_loop (tg : toggle) (sp : N) (l : list conn) : list conn * N :=
  match l with
  | [] => ([], sp)
  | c :: r =>
    if negb (x_rs_pex (c_x c)) then let '(r', sp') := pex_loop tg sp r in (c :: r', sp')
    else
      match tg with
      | TEnable =>
        let sp1 := if x_le_pex (c_x c) then sp else sp + 1 in
        let c1 := set_cmask (set_le_pex c true) (mkMask true true false) in
        let tg' := if Params.c20_max_size_pex <=? sp1 then TNone else TEnable in
        let '(r', sp') := pex_loop tg' sp1 r in (c1 :: r', sp')
      | _ =>
        if negb (x_le_pex (c_x c)) then let '(r', sp') := pex_loop tg sp r in (c :: r', sp')
        else
          match tg with
          | TDisable =>
            let c1 := set_cmask (set_le_pex c false) (mkMask (k_do (cmask c)) false true) in
            let '(r', sp') := pex_loop tg (sp - 1) r in (c1 :: r', sp')
          | _ =>
            let c1 := set_cmask c (mkMask true (k_en (cmask c)) (k_dis (cmask c))) in
            let '(r', sp') := pex_loop tg sp r in (c1 :: r', sp')
          end
      end
  end.

Definition current_entries (l : list conn) : list entry :=
  map (fun c => (c_peer c, x_listen (c_x c))) (filter (fun c => negb (x_listen (c_x c) =? 0)) l).

Inductive dpe_result := DpeOk (d : dstate) | DpeInternalError.

Definition do_peer_exchange (fx : fixes) (d : dstate) : dpe_result :=
  let n := N.of_nat (length (d_conns d)) in
  let '(act, tg) :=
    if negb (d_pex_active d) && (n <? d_minp d / 2) then
      (true, if d_size_pex d <? Params.c20_max_size_pex then TEnable else TNone)
    else if d_pex_active d && (d_minp d <=? n) then (false, TDisable)
    else (d_pex_active d, TNone) in
  let '(conns', sp') := pex_loop tg (d_size_pex d) (d_conns d) in
  let current := sort_entries fx (current_entries (d_conns d)) in
  let added := set_diff fx current (d_list d) in
  let removed := set_diff fx (d_list d) current in
  let ncur := N.of_nat (length current) in
  let cap := Params.c20_max_pex_list in
  if (cap <? ncur) && (N.of_nat (length added) <? ncur - cap) then DpeInternalError
  else
    let '(added', list') :=
      if cap <? ncur then
        let added' := firstn (length added - N.to_nat (ncur - cap)) added in
        (added', sort_entries fx (set_diff fx (d_list d) removed ++ added'))
      else (added, current) in
    (* a355167: if (!added.empty() || !removed.empty()) regenerate both buffers *)
    let '(ini, del) :=
      match added', removed with
      | [], [] => (d_initial d, None)
      | _, _ => (gen_pex list' [], gen_pex added' removed)
      end in
    DpeOk (mkD (d_private d) (d_meta d) (d_minp d) act sp' conns' list' ini del (d_used d) (d_pexen d)).

(* ---- DownloadWrapper::receive_tick, PEX disabled (private) but still active *)
Fixpoint disable_all (sp : N) (l : list conn) : list conn * N :=
  match l with
  | [] => ([], sp)
  | c :: r =>
    if x_rs_pex (c_x c) then
      let c1 := set_cmask (set_le_pex c false) (mkMask (k_do (cmask c)) false true) in
      let '(r', sp') := disable_all (dec_if (x_le_pex (c_x c)) sp) r in (c1 :: r', sp')
    else let '(r', sp') := disable_all sp r in (c :: r', sp')
  end.

(* ---- keep-alive loop with the 240 s read timeout: idle counts 2-minute ticks.
   receive_keepalive writes a keep-alive into the buffer only when ProtocolWrite is IDLE. *)
Definition timeout_ticks : N := Params.c20_read_timeout_s / 120.   (* 2 *)

Definition keepalive_conn (c : conn) : conn :=
  let i := set_i_idle (c_io c) (i_idle (c_io c) + 1) in
  with_io c (match i_up i with
             | UIdle => set_i_kabuf (set_i_in_write i true) true
             | UMsg _ => i
             end).

Fixpoint ka_loop (fuel : nat) (sp : N) (l : list conn) : list conn * N * list out :=
  match fuel with
  | O => (l, sp, [])
  | S f =>
    match l with
    | [] => ([], sp, [])
    | c :: r =>
      if timeout_ticks <? i_idle (c_io c) + 1 then
        let l' := match r with [] => [] | _ => last r c :: removelast r end in
        let '(l'', sp', o) := ka_loop f (dec_if (x_le_pex (c_x c)) sp) l' in
        (l'', sp', OClosed (c_peer c) :: o)
      else
        let '(r', sp', o) := ka_loop f sp r in
        (keepalive_conn c :: r', sp', o)
    end
  end.

Inductive step_result := SOk (d : dstate) (o : list out) | SInternalError | SUnmodelled.

Definition set_conns (d : dstate) (l : list conn) (sp : N) : dstate :=
  mkD (d_private d) (d_meta d) (d_minp d) (d_pex_active d) sp l (d_list d) (d_initial d) (d_delta d) (d_used d) (d_pexen d).

Definition is_nil {A} (l : list A) : bool := match l with [] => true | _ => false end.
Definition is_umsg (u : upstate) : bool := match u with UMsg _ => true | UIdle => false end.

(* ---- Poll::process rounds for one connection until nothing moves *)
Fixpoint settle (fuel : nat) (fx : fixes) (d : dstate) (i : N) (acc : list out) : step_result :=
  match fuel with
  | O => SUnmodelled
  | S f =>
    match find_conn i (d_conns d) with
    | None => SOk d acc
    | Some c =>
      let io := c_io c in
      let after (r : cres) : step_result :=
        match r with
        | COk c' sp o => settle f fx (set_conns d (replace_conn c' (d_conns d)) sp) i (acc ++ o)
        | CClosed c' sp o =>
          SOk (set_conns d (erase_conn i (d_conns d)) (dec_if (x_le_pex (c_x c')) sp)) (acc ++ o ++ [OClosed i])
        | CInternal => SInternalError
        | CUnmodelled => SUnmodelled
        end in
      if i_in_read io && negb (is_nil (i_sock io)) then after (read_event fx (d_meta d) c (d_size_pex d))
      else if i_in_write io && negb (is_umsg (i_up io) && i_wblocked io) then
        after (write_event fx (d_meta d) (d_initial d) (d_delta d) c (d_size_pex d))
      else SOk d acc
    end
  end.

Definition settle_fuel : nat := 64.

Fixpoint settle_all (fx : fixes) (d : dstate) (ids : list N) (acc : list out) : step_result :=
  match ids with
  | [] => SOk d acc
  | i :: r =>
    match settle settle_fuel fx d i [] with
    | SOk d' o => settle_all fx d' r (acc ++ o)
    | e => e
    end
  end.

Definition push_sock (c : conn) (ms : list wmsg) : conn :=
  with_io c (set_i_sock (c_io c) (i_sock (c_io c) ++ ms)).

Definition tick (fx : fixes) (d0 : dstate) : step_result :=
  (* every scripted peer sends a keep-alive first *)
  let ids := map c_peer (d_conns d0) in
  let d00 := set_conns d0 (map (fun c => push_sock c [(MKeepalive, 4)]) (d_conns d0)) (d_size_pex d0) in
  match settle_all fx d00 ids [] with
  | SOk d o1 =>
    let r :=
      if d_pexen d then do_peer_exchange fx d
      else if d_pex_active d then
        let '(l, sp) := disable_all (d_size_pex d) (d_conns d) in
        DpeOk (mkD (d_private d) (d_meta d) (d_minp d) false sp l (d_list d) (d_initial d) (d_delta d) (d_used d) (d_pexen d))
      else DpeOk d in
    match r with
    | DpeInternalError => SInternalError
    | DpeOk d1 =>
      let '(l2, sp2, o2) := ka_loop (length (d_conns d1)) (d_size_pex d1) (d_conns d1) in
      let d2 := set_conns d1 l2 sp2 in
      settle_all fx d2 (map c_peer l2) (o1 ++ o2)
    end
  | e => e
  end.

Definition default_x (le_pex : bool) : xstate := mkX 0 0 le_pex true false false true false 0.
Definition default_io : iostate := mkIO mask0 true false false None None [] [] UIdle false false 0.
Definition default_conn (i : N) (le_pex : bool) : conn := mkConn i (default_x le_pex) default_io.

Definition step (fx : fixes) (d : dstate) (o : op) : step_result :=
  match o with
  | Connect i =>
    if existsb (N.eqb i) (d_used d) then SOk d []
    else
      (* Handshake::write_extension_handshake *)
      let le := d_pexen d && d_pex_active d && (d_size_pex d <? Params.c20_max_size_pex) in
      let sp := if le then d_size_pex d + 1 else d_size_pex d in
      SOk (mkD (d_private d) (d_meta d) (d_minp d) (d_pex_active d) sp (d_conns d ++ [default_conn i le])
               (d_list d) (d_initial d) (d_delta d) (i :: d_used d) (d_pexen d))
          [OHs i le (msize d)]
  | Recv i ms =>
    match find_conn i (d_conns d) with
    | None => SOk d []
    | Some c => settle settle_fuel fx (set_conns d (replace_conn (push_sock c ms) (d_conns d)) (d_size_pex d)) i []
    end
  | Tick => tick fx d
  | Close i =>
    match find_conn i (d_conns d) with
    | None => SOk d []
    | Some c =>
      let io := c_io c in
      if i_in_read io && is_nil (i_sock io) && is_nil (i_buf io) && (match i_blocked io with None => true | _ => false end)
      then SOk (set_conns d (erase_conn i (d_conns d)) (dec_if (x_le_pex (c_x c)) (d_size_pex d))) []
      else SUnmodelled
    end
  | SetPex b =>
    (* Download::set_pex_enabled: enabling goes through DownloadInfo::set_pex_enabled, which does
       nothing for a private torrent; disabling clears the flag *)
    let v := if b then (if d_private d then d_pexen d else true) else false in
    SOk (mkD (d_private d) (d_meta d) (d_minp d) (d_pex_active d) (d_size_pex d) (d_conns d)
             (d_list d) (d_initial d) (d_delta d) (d_used d) v) []
  | SetBlocked i b =>
    match find_conn i (d_conns d) with
    | None => SOk d []
    | Some c => settle settle_fuel fx (set_conns d (replace_conn (with_io c (set_i_wblocked (c_io c) b)) (d_conns d)) (d_size_pex d)) i []
    end
  end.

(* all outputs of a run, flattened; an internal_error / unmodelled situation ends the run *)
Fixpoint outs_of (fx : fixes) (d : dstate) (ops : list op) : list out :=
  match ops with
  | [] => []
  | o :: r =>
    match step fx d o with
    | SOk d' outs => outs ++ outs_of fx d' r
    | _ => []
    end
  end.

Fixpoint final_state (fx : fixes) (d : dstate) (ops : list op) : dstate :=
  match ops with
  | [] => d
  | o :: r =>
    match step fx d o with
    | SOk d' _ => final_state fx d' r
    | _ => d
    end
  end.

(* did the run end in an internal_error? *)
Fixpoint run_crashes (fx : fixes) (d : dstate) (ops : list op) : bool :=
  match ops with
  | [] => false
  | o :: r =>
    match step fx d o with
    | SOk d' _ => run_crashes fx d' r
    | SInternalError => true
    | SUnmodelled => false
    end
  end.

(* the harness starts every case with one tick (phase normalisation) *)
Definition start (fx : fixes) (priv : bool) (m : list N) (minp : N) : dstate :=
  match tick fx (init priv m minp) with
  | SOk d _ => d
  | _ => init priv m minp
  end.

Definition params_ok : bool :=
  (Params.c20_metadata_piece_shift =? 14) && (Params.c20_max_pex_list =? 200) &&
  (Params.c20_max_size_pex =? 8) && (Params.c20_read_timeout_s =? 240) &&
  (Params.c20_reject_buf_extra =? 40) && (Params.c20_pex_tick_every =? 4) &&
  (Params.c20_ext_length_limit =? 32768).
