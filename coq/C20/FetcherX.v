(* C20 — fetcher side, executable model for the correspondence (single provider at a time is what
   the glue compares; several providers are oracle-only because leader/non-leader transfers of the
   same block are not modelled).

   Anchors: PeerConnectionMetadata::{read_message (EXTENSION_PROTOCOL), try_request_metadata_pieces,
   receive_metadata_piece}, ProtocolExtension::parse_handshake + DownloadMain::set_metadata_size,
   PeerConnectionBase::down_chunk_start, RequestList::downloading (taking the request out of the
   queue; "wrong, non-zero, length" closes; zero length releases the request), the hash gate.

   The DELEGATOR / RequestList scheduling (which block is requested when, stall re-requests on ticks)
   is an ORACLE: the requests the implementation wrote during an op are given to the model after the
   op ([GRequest]); the model checks that each was admissible (connection alive, size known, peer
   supports ut_metadata with a non-zero id, block index in range) and tracks the outstanding set,
   which decides what a data message does. SHA-1 is the parameter H. *)
From Coq Require Import NArith ZArith List Bool Lia.
From LTV.C20 Require Import ParamsGen Model Fetcher.
Import ListNotations.
Open Scope N_scope.

Section FetcherX.
  Variable H : list N -> list N.

  Record peer := mkP { p_idx : N; p_idm : N; p_rs : bool; p_out : list N }.

  Record gstate := mkG {
    g_want : list N;
    g_size : option N;
    g_blocks : list (N * list N);
    g_done : option (list N);
    g_peers : list peer              (* live connections *)
  }.

  Inductive gop :=
  | GConnect (i : N) (m s : option Z)          (* connect + extension handshake {m:{ut_metadata:m}, metadata_size:s} *)
  | GHandshake (i : N) (m s : option Z)
  | GData (i : N) (p : Z) (bytes : list N)
  | GReject (i : N) (p : Z)
  | GTick
  | GClose (i : N)
  | GRequest (i : N) (p : N)                   (* oracle: the implementation wrote a request for block p to peer i *)
  | GAsk (i : N) (ps : list Z).                (* the PEER asks us for blocks (one segment or split): a magnet download rejects *)

  Inductive gout := GClosed (i : N) | GQ (i : N) (id : N) (p : N) | GInadmissible (i : N) (p : N) | GJ (i : N) (id : N) (p : N)
  | GHashFailed.   (* marker: the assembled metadata failed the hash gate and was discarded *)

  Definition ginit (want : list N) : gstate := mkG want None [] None [].

  Fixpoint find_peer (i : N) (l : list peer) : option peer :=
    match l with [] => None | q :: r => if p_idx q =? i then Some q else find_peer i r end.
  Fixpoint put_peer (q : peer) (l : list peer) : list peer :=
    match l with [] => [] | x :: r => if p_idx x =? p_idx q then q :: r else x :: put_peer q r end.
  Fixpoint drop_peer (i : N) (l : list peer) : list peer :=
    match l with [] => [] | x :: r => if p_idx x =? i then r else x :: drop_peer i r end.
  Fixpoint remove_n (p : N) (l : list N) : list N :=
    match l with [] => [] | x :: r => if x =? p then r else x :: remove_n p r end.

  (* receive_metadata_piece takes uint32_t piece and shifts it by 14: the block offset is
     (piece << 14) mod 2^32, so the effective block index is piece mod 2^18 *)
  Definition eff_piece (p : Z) : N := Z.to_N (p mod 262144).

  Definition with_peers (g : gstate) (l : list peer) : gstate := mkG (g_want g) (g_size g) (g_blocks g) (g_done g) l.

  (* extension handshake on a fetcher connection: id map as on the provider side (clamp), then
     set_metadata_size, then "drop peer if it disabled the metadata extension" *)
  Definition g_handshake (g : gstate) (q : peer) (m s : option Z) : gstate * list gout :=
    let idm := match m with Some z => clamp_id z | None => p_idm q end in
    let rs := match m with Some _ => true | None => p_rs q end in
    let q' := mkP (p_idx q) idm rs (p_out q) in
    let close := (with_peers g (drop_peer (p_idx q) (g_peers g)), [GClosed (p_idx q)]) in
    match s with
    | Some z =>
      let n := u64 z in
      if (n =? 0) || (67108864 <? n) then close
      else match (match g_size g with Some n0 => if n0 <? 2 then None else Some n0 | None => None end) with   (* size_bytes() < 2: still unknown *)
           | None => if rs then (mkG (g_want g) (Some n) [] (g_done g) (put_peer q' (g_peers g)), []) else
                       (* the size is taken before the connection is dropped *)
                       (mkG (g_want g) (Some n) [] (g_done g) (drop_peer (p_idx q) (g_peers g)), [GClosed (p_idx q)])
           | Some n0 => if n0 =? n then (if rs then (with_peers g (put_peer q' (g_peers g)), []) else close) else close
           end
    | None => if rs then (with_peers g (put_peer q' (g_peers g)), []) else close
    end.

  Definition gstep (g : gstate) (o : gop) : gstate * list gout :=
    match g_done g with
    | Some _ => (g, [])
    | None =>
      match o with
      | GConnect i m s => g_handshake (with_peers g (g_peers g ++ [mkP i 0 false []])) (mkP i 0 false []) m s
      | GHandshake i m s =>
        match find_peer i (g_peers g) with None => (g, []) | Some q => g_handshake g q m s end
      | GReject _ _ => (g, [])
      | GTick => (g, [])
      | GClose i => (with_peers g (drop_peer i (g_peers g)), [])
      | GAsk i ps =>
        (* parse_ut_metadata msg_type 0 -> send_metadata_piece: is_meta_download -> reject, written with
           id(UT_METADATA); ignored when that id is 0 (941ab7d). Every request is answered, however the
           bytes were segmented (reads_resume on the metadata connection). *)
        match find_peer i (g_peers g) with
        | Some q => if p_idm q =? 0 then (g, []) else (g, map (fun z => GJ i (p_idm q) (u64 z)) ps)
        | None => (g, [])
        end
      | GRequest i p =>
        match find_peer i (g_peers g), g_size g with
        | Some q, Some sz =>
          if p_rs q && negb (p_idm q =? 0) && (p <? piece_end sz)
          then (with_peers g (put_peer (mkP (p_idx q) (p_idm q) (p_rs q) (p :: remove_n p (p_out q))) (g_peers g)), [GQ i (p_idm q) p])
          else (g, [GInadmissible i p])
        | _, _ => (g, [GInadmissible i p])
        end
      | GData i pz b =>
        match find_peer i (g_peers g), g_size g with
        | Some q, Some sz =>
          let p := eff_piece pz in
          if existsb (N.eqb p) (p_out q) then
            let q' := mkP (p_idx q) (p_idm q) (p_rs q) (remove_n p (p_out q)) in
            let len := N.of_nat (length b) in
            if len =? expected_len sz p then
              match lookup p (g_blocks g) with
              | Some _ => (with_peers g (put_peer q' (g_peers g)), [])
              | None =>
                let bl := (p, b) :: g_blocks g in
                match assemble (N.to_nat (piece_end sz)) bl with
                | None => (mkG (g_want g) (g_size g) bl None (put_peer q' (g_peers g)), [])
                | Some cand =>
                  if list_eq_dec N.eq_dec (H cand) (g_want g)
                  then (mkG (g_want g) (g_size g) bl (Some cand) [], map (fun x => GClosed (p_idx x)) (g_peers g))
                  else (mkG (g_want g) (g_size g) [] None (put_peer q' (g_peers g)), [GHashFailed])
                end
              end
            else if len =? 0 then (with_peers g (put_peer q' (g_peers g)), [])     (* request released *)
            else (with_peers g (drop_peer i (g_peers g)), [GClosed i])              (* wrong, non-zero, length *)
          else (g, [])                                                              (* not requested: skipped *)
        | _, _ => (g, [])
        end
      end
    end.

  Fixpoint grun (g : gstate) (ops : list gop) : gstate :=
    match ops with [] => g | o :: r => grun (fst (gstep g o)) r end.

  Lemma gstep_want : forall g o, g_want (fst (gstep g o)) = g_want g.
  Proof.
    intros g o. unfold gstep. destruct (g_done g); [reflexivity|].
    assert (HS : forall g0 q m s, g_want (fst (g_handshake g0 q m s)) = g_want g0).
    { intros g0 q m s. unfold g_handshake. destruct s as [z|].
      - destruct ((u64 z =? 0) || (67108864 <? u64 z)); [reflexivity|].
        destruct (match g_size g0 with Some n0 => if n0 <? 2 then None else Some n0 | None => None end); [destruct (_ =? _); [destruct (match m with Some _ => true | None => p_rs q end)|]|destruct (match m with Some _ => true | None => p_rs q end)]; reflexivity.
      - destruct (match m with Some _ => true | None => p_rs q end); reflexivity. }
    destruct o as [i m s|i m s|i pz b|i p| |i|i p|i ps]; try reflexivity.
    - rewrite HS. reflexivity.
    - destruct (find_peer i (g_peers g)); [apply HS|reflexivity].
    - destruct (find_peer i (g_peers g)); [|reflexivity]. destruct (g_size g); [|reflexivity].
      destruct (existsb _ _); [|reflexivity]. destruct (_ =? expected_len _ _).
      + destruct (lookup _ _); [reflexivity|]. destruct (assemble _ _); [|reflexivity]. destruct (list_eq_dec _ _ _); reflexivity.
      + destruct (_ =? 0); reflexivity.
    - destruct (find_peer i (g_peers g)); [|reflexivity]. destruct (g_size g); [|reflexivity].
      destruct (_ && _); reflexivity.
    - destruct (find_peer i (g_peers g)); [destruct (_ =? 0)|]; reflexivity.
  Qed.

  Lemma gstep_gate : forall g o,
    (forall d, g_done g = Some d -> H d = g_want g) ->
    forall d, g_done (fst (gstep g o)) = Some d -> H d = g_want g.
  Proof.
    intros g o Inv d Hd. unfold gstep in Hd. destruct (g_done g) as [d0|] eqn:E0. { apply Inv. rewrite <- E0. exact Hd. }
    assert (HS : forall g0 q m s, g_done g0 = None -> g_done (fst (g_handshake g0 q m s)) = None).
    { intros g0 q m s Hn. unfold g_handshake. destruct s as [z|].
      - destruct ((u64 z =? 0) || (67108864 <? u64 z)); [exact Hn|].
        destruct (match g_size g0 with Some n0 => if n0 <? 2 then None else Some n0 | None => None end); [destruct (_ =? _); [destruct (match m with Some _ => true | None => p_rs q end)|]|destruct (match m with Some _ => true | None => p_rs q end)]; exact Hn.
      - destruct (match m with Some _ => true | None => p_rs q end); exact Hn. }
    destruct o as [i m s|i m s|i pz b|i p| |i|i p|i ps].
    - rewrite HS in Hd; [discriminate Hd|exact E0].
    - destruct (find_peer i (g_peers g)); [rewrite HS in Hd; [discriminate Hd|exact E0]|cbn in Hd; rewrite E0 in Hd; discriminate Hd].
    - destruct (find_peer i (g_peers g)); [|cbn in Hd; rewrite E0 in Hd; discriminate Hd].
      destruct (g_size g); [|cbn in Hd; rewrite E0 in Hd; discriminate Hd].
      destruct (existsb _ _); [|cbn in Hd; rewrite E0 in Hd; discriminate Hd]. destruct (_ =? expected_len _ _).
      + destruct (lookup _ _); [cbn in Hd; rewrite E0 in Hd; discriminate Hd|].
        destruct (assemble _ _) as [cand|]; [|discriminate Hd].
        destruct (list_eq_dec N.eq_dec (H cand) (g_want g)) as [Heq|]; [|discriminate Hd].
        cbn in Hd. inversion Hd; subst. exact Heq.
      + destruct (_ =? 0); cbn in Hd; rewrite E0 in Hd; discriminate Hd.
    - cbn in Hd; rewrite E0 in Hd; discriminate Hd.
    - cbn in Hd; rewrite E0 in Hd; discriminate Hd.
    - cbn in Hd; rewrite E0 in Hd; discriminate Hd.
    - destruct (find_peer i (g_peers g)); [|cbn in Hd; rewrite E0 in Hd; discriminate Hd].
      destruct (g_size g); [|cbn in Hd; rewrite E0 in Hd; discriminate Hd].
      destruct (_ && _); cbn in Hd; rewrite E0 in Hd; discriminate Hd.
    - destruct (find_peer i (g_peers g)); [destruct (_ =? 0)|]; cbn in Hd; rewrite E0 in Hd; discriminate Hd.
  Qed.

  (* the executable fetcher model completes only with verified metadata, whatever the providers
     send and whatever the delegator oracle requests *)
  Theorem fetch_completes_only_verified : forall want ops d,
    g_done (grun (ginit want) ops) = Some d -> H d = want.
  Proof.
    intros want ops.
    assert (G : forall g, (forall d, g_done g = Some d -> H d = g_want g) ->
                forall d, g_done (grun g ops) = Some d -> H d = g_want g).
    { induction ops as [|o r IH]; intros g Inv d Hd; cbn in Hd; [apply Inv; exact Hd|].
      rewrite <- (gstep_want g o). apply IH; [|exact Hd]. intros d0 E. rewrite gstep_want. eapply gstep_gate; eauto. }
    intros d Hd. apply (G (ginit want)); [|exact Hd]. intros d0 E. discriminate E.
  Qed.
End FetcherX.
