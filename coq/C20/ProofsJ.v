(* C20 — proofs, part J: the size cap of m_ut_pex_list. std::set_difference on strictly ascending ranges is a
   filter; counting; after every round (both branches) the list has at most max_pex_list (200) entries. *)
From Coq Require Import NArith ZArith List Bool Lia Sorting.Sorted.
From Coq Require Import ZifyBool ZifyNat ZifyN.
From LTV.C20 Require Import ParamsGen Model ProofsB ProofsC ProofsD ProofsG ProofsH ProofsI.
Import ListNotations.
Open Scope N_scope.

Local Notation peers l := (map c_peer l).

Section Ord.
  Variable fx : fixes.

Local Notation cur_of d := (sort_entries fx (current_entries (d_conns d))).

Definition same_b (e e' : entry) : bool :=
  (key_addr fx (fst e) =? key_addr fx (fst e')) && (key_port fx (snd e) =? key_port fx (snd e')).
Definition has_cp (l : list entry) (e : entry) : bool := existsb (same_b e) l.

Lemma same_b_true : forall e e', same_b e e' = true <-> same_entry fx e e'.
Proof. intros e e'. unfold same_b, same_entry. rewrite andb_true_iff, !N.eqb_eq. tauto. Qed.

Lemma less_not_same : forall e e', entry_less fx e e' = true -> same_b e e' = false /\ same_b e' e = false.
Proof.
  intros e e' H. apply (less_true fx) in H.
  split; apply not_true_is_false; intro S; apply same_b_true in S; destruct S; lia.
Qed.

Lemma less_trans_all : forall x y l, entry_less fx x y = true -> Forall (fun e => entry_less fx y e = true) l ->
  Forall (fun e => entry_less fx x e = true) l.
Proof.
  intros x y l H F. eapply Forall_impl; [|exact F]. cbv beta. intros e He.
  apply (less_true fx) in H. apply (less_true fx) in He. apply (less_true fx). lia.
Qed.

Lemma same_less_all : forall x y l, entry_less fx x y = false -> entry_less fx y x = false ->
  Forall (fun e => entry_less fx y e = true) l -> Forall (fun e => entry_less fx x e = true) l.
Proof.
  intros x y l H1 H2 F. eapply Forall_impl; [|exact F]. cbv beta. intros e He.
  apply (less_false fx) in H1. apply (less_false fx) in H2. apply (less_true fx) in He. apply (less_true fx). lia.
Qed.

Lemma lt_all_no_cp : forall x l, Forall (fun e => entry_less fx x e = true) l -> has_cp l x = false.
Proof.
  intros x l F. induction F as [|e l He F IH]; [reflexivity|]. unfold has_cp in *. cbn [existsb].
  rewrite (proj1 (less_not_same _ _ He)), IH. reflexivity.
Qed.

Lemma set_diff_cons : forall x a y b, set_diff fx (x :: a) (y :: b) =
  if entry_less fx x y then x :: set_diff fx a (y :: b)
  else if entry_less fx y x then set_diff fx (x :: a) b else set_diff fx a b.
Proof. reflexivity. Qed.
Lemma set_diff_nil_l : forall b, set_diff fx [] b = [].
Proof. destruct b; reflexivity. Qed.

Lemma filter_all : forall (A : Type) (f : A -> bool) l, (forall e, In e l -> f e = true) -> filter f l = l.
Proof. intros A f l. induction l as [|x r IH]; intro H; cbn; [reflexivity|]. rewrite (H x (or_introl eq_refl)). f_equal. apply IH. intros; apply H; right; assumption. Qed.
Lemma filter_none : forall (A : Type) (f : A -> bool) l, (forall e, In e l -> f e = false) -> filter f l = [].
Proof. intros A f l. induction l as [|x r IH]; intro H; cbn; [reflexivity|]. rewrite (H x (or_introl eq_refl)). apply IH. intros; apply H; right; assumption. Qed.

(* dropping a head y that is below (or equal in key to something below) every element considered *)
Lemma has_cp_skip : forall y b e, same_b e y = false -> has_cp (y :: b) e = has_cp b e.
Proof. intros y b e H. unfold has_cp. cbn [existsb]. rewrite H. reflexivity. Qed.

Lemma set_diff_filter : forall a b, asc_strict fx a -> asc_strict fx b ->
  set_diff fx a b = filter (fun e => negb (has_cp b e)) a.
Proof.
  induction a as [|x a IHa]; intros b Ha Hb; [rewrite set_diff_nil_l; reflexivity|].
  inversion Ha as [|? ? Ha' Hx]; subst.
  induction b as [|y b IHb].
  - rewrite (set_diff_nil_r fx). symmetry. apply filter_all. reflexivity.
  - inversion Hb as [|? ? Hb' Hy]; subst. rewrite set_diff_cons.
    destruct (entry_less fx x y) eqn:L1.
    + cbn [filter]. rewrite (lt_all_no_cp x (y :: b)); [|constructor; [exact L1|eapply less_trans_all; eauto]].
      cbn [negb]. f_equal. apply IHa; assumption.
    + destruct (entry_less fx y x) eqn:L2.
      * rewrite (IHb Hb'). apply filter_ext_in. intros e He. f_equal. symmetry. apply has_cp_skip.
        destruct He as [He|He]; [subst e; exact (proj2 (less_not_same _ _ L2))|].
        rewrite Forall_forall in Hx. specialize (Hx _ He).
        apply less_not_same. apply (less_true fx) in L2. apply (less_true fx) in Hx. apply (less_true fx). lia.
      * cbn [filter]. assert (S : same_b x y = true) by (apply same_b_true, (not_less_same fx); assumption).
        unfold has_cp at 1. cbn [existsb]. rewrite S. cbn [orb negb].
        rewrite (IHa b Ha' Hb'). apply filter_ext_in. intros e He. f_equal. symmetry. apply has_cp_skip.
        rewrite Forall_forall in Hx. specialize (Hx _ He).
        apply less_not_same. apply (less_false fx) in L1. apply (less_false fx) in L2. apply (less_true fx) in Hx. apply (less_true fx). lia.
Qed.

Lemma distinct_in_eq : forall l e e', distinct fx l -> In e l -> In e' l -> same_entry fx e e' -> e = e'.
Proof.
  induction l as [|x l IH]; intros e e' D He He' S; [destruct He|]. inversion D as [|? ? Fx D']; subst.
  rewrite Forall_forall in Fx.
  destruct He as [He|He]; destruct He' as [He'|He']; subst; auto.
  - exfalso. exact (Fx _ He' S).
  - exfalso. exact (Fx _ He (same_sym fx _ _ S)).
Qed.

(* what std::set_difference(list, removed) keeps: the entries of a that DO have a counterpart in b *)
Lemma set_diff_twice : forall a b, asc_strict fx a -> asc_strict fx b ->
  set_diff fx a (set_diff fx a b) = filter (has_cp b) a.
Proof.
  intros a b Ha Hb. rewrite (set_diff_filter a (set_diff fx a b) Ha (set_diff_strict fx a b Ha)).
  apply filter_ext_in. intros e He. rewrite (set_diff_filter a b Ha Hb).
  set (Q := fun e0 => negb (has_cp b e0)).
  assert (E : has_cp (filter Q a) e = Q e).
  { destruct (Q e) eqn:Eq.
    - unfold has_cp. apply existsb_exists. exists e. split; [apply filter_In; auto|apply same_b_true, same_refl].
    - apply not_true_is_false. intro H. unfold has_cp in H. apply existsb_exists in H. destruct H as (e' & He' & S).
      apply filter_In in He'. destruct He' as [He' Q']. apply same_b_true in S.
      assert (e = e') by (eapply distinct_in_eq; eauto; apply strict_distinct; exact Ha). subst e'. congruence. }
  rewrite E. unfold Q. apply negb_involutive.
Qed.

Lemma filter_cons_false : forall (A : Type) (f : A -> bool) x l, f x = false -> filter f (x :: l) = filter f l.
Proof. intros A f x l H. cbn. rewrite H. reflexivity. Qed.
Lemma filter_cons_true : forall (A : Type) (f : A -> bool) x l, f x = true -> filter f (x :: l) = x :: filter f l.
Proof. intros A f x l H. cbn. rewrite H. reflexivity. Qed.
Lemma has_cp_head : forall y b e, same_b e y = true -> has_cp (y :: b) e = true.
Proof. intros y b e H. unfold has_cp. cbn [existsb]. rewrite H. reflexivity. Qed.

Lemma count_sym : forall a b, asc_strict fx a -> asc_strict fx b ->
  length (filter (has_cp b) a) = length (filter (has_cp a) b).
Proof.
  induction a as [|x a IHa]; intros b Ha Hb.
  { cbn. rewrite filter_none; reflexivity. }
  inversion Ha as [|? ? Ha' Hx]; subst.
  induction b as [|y b IHb].
  { rewrite (filter_none _ (has_cp []) (x :: a)); reflexivity. }
  inversion Hb as [|? ? Hb' Hy]; subst.
  destruct (entry_less fx x y) eqn:L1.
  - rewrite (filter_cons_false _ (has_cp (y :: b)) x a);
      [|apply lt_all_no_cp; constructor; [exact L1|eapply less_trans_all; eauto]].
    rewrite (IHa (y :: b) Ha' Hb). f_equal. apply filter_ext_in. intros e He. symmetry. apply has_cp_skip.
    destruct He as [He|He]; [subst e; exact (proj2 (less_not_same _ _ L1))|].
    rewrite Forall_forall in Hy. specialize (Hy _ He).
    apply less_not_same. apply (less_true fx) in L1. apply (less_true fx) in Hy. apply (less_true fx). lia.
  - destruct (entry_less fx y x) eqn:L2.
    + rewrite (filter_cons_false _ (has_cp (x :: a)) y b);
        [|apply lt_all_no_cp; constructor; [exact L2|eapply less_trans_all; eauto]].
      rewrite <- (IHb Hb'). f_equal. apply filter_ext_in. intros e He. apply has_cp_skip.
      destruct He as [He|He]; [subst e; exact (proj2 (less_not_same _ _ L2))|].
      rewrite Forall_forall in Hx. specialize (Hx _ He).
      apply less_not_same. apply (less_true fx) in L2. apply (less_true fx) in Hx. apply (less_true fx). lia.
    + assert (S : same_b x y = true) by (apply same_b_true, (not_less_same fx); assumption).
      assert (S' : same_b y x = true) by (apply same_b_true, same_sym, same_b_true; exact S).
      rewrite (filter_cons_true _ (has_cp (y :: b)) x a) by (apply has_cp_head; exact S).
      rewrite (filter_cons_true _ (has_cp (x :: a)) y b) by (apply has_cp_head; exact S').
      cbn [length]. f_equal.
      transitivity (length (filter (has_cp b) a)).
      * f_equal. apply filter_ext_in. intros e He. apply has_cp_skip.
        rewrite Forall_forall in Hx. specialize (Hx _ He).
        apply less_not_same. apply (less_false fx) in L1. apply (less_false fx) in L2. apply (less_true fx) in Hx. apply (less_true fx). lia.
      * rewrite (IHa b Ha' Hb'). f_equal. apply filter_ext_in. intros e He. symmetry. apply has_cp_skip.
        rewrite Forall_forall in Hy. specialize (Hy _ He).
        apply less_not_same. apply (less_false fx) in L1. apply (less_false fx) in L2. apply (less_true fx) in Hy. apply (less_true fx). lia.
Qed.

Lemma filter_split_length : forall (A : Type) (f : A -> bool) l,
  (length (filter f l) + length (filter (fun e => negb (f e)) l) = length l)%nat.
Proof. intros A f l. induction l as [|x r IH]; cbn; [reflexivity|]. destruct (f x); cbn; lia. Qed.

(* |list ∩ current| + |current \ list| = |current| *)
Lemma set_diff_count : forall l c, asc_strict fx l -> asc_strict fx c ->
  (length (set_diff fx l (set_diff fx l c)) + length (set_diff fx c l) = length c)%nat.
Proof.
  intros l c Hl Hc. rewrite (set_diff_twice l c Hl Hc), (count_sym l c Hl Hc), (set_diff_filter c l Hc Hl).
  apply filter_split_length.
Qed.

Lemma insert_sorted_length : forall x l, length (insert_sorted fx x l) = S (length l).
Proof. intros x l. induction l as [|y r IH]; cbn [insert_sorted]; [reflexivity|]. destruct (entry_less fx y x); cbn; [rewrite IH|]; reflexivity. Qed.
Lemma sort_entries_length : forall l, length (sort_entries fx l) = length l.
Proof. induction l as [|x r IH]; [reflexivity|]. unfold sort_entries in *. cbn [fold_right length]. rewrite insert_sorted_length, IH. reflexivity. Qed.

Lemma dpe_guard : forall d d1, do_peer_exchange fx d = DpeOk d1 ->
  (Params.c20_max_pex_list <? N.of_nat (length (sort_entries fx (current_entries (d_conns d))))) &&
  (N.of_nat (length (set_diff fx (sort_entries fx (current_entries (d_conns d))) (d_list d))) <?
   N.of_nat (length (sort_entries fx (current_entries (d_conns d)))) - Params.c20_max_pex_list) = false.
Proof.
  intros d d1 E. unfold do_peer_exchange in E.
  destruct (negb (d_pex_active d) && (N.of_nat (length (d_conns d)) <? d_minp d / 2)).
  1: destruct (d_size_pex d <? Params.c20_max_size_pex).
  3: destruct (d_pex_active d && (d_minp d <=? N.of_nat (length (d_conns d)))).
  all: cbv beta iota zeta in E.
  all: match type of E with context [pex_loop ?a ?b ?c] => destruct (pex_loop a b c) as [l2 s2] end.
  all: match type of E with context [if ?g then DpeInternalError else _] => destruct g eqn:G; [discriminate E|reflexivity] end.
Qed.

(* the size cap: after a round, in BOTH branches, m_ut_pex_list has at most max_pex_list entries *)
Theorem dpe_list_cap : forall d d1,
  do_peer_exchange fx d = DpeOk d1 -> asc_strict fx (d_list d) ->
  NoDup (map (fun c => key_addr fx (c_peer c)) (d_conns d)) ->
  N.of_nat (length (d_list d1)) <= Params.c20_max_pex_list.
Proof.
  intros d d1 E Hs Hn. pose proof (dpe_guard d d1 E) as G.
  destruct (dpe_shape fx d d1 E) as (added' & list' & Hsh & Hl & _). cbv zeta in Hsh.
  set (cur := sort_entries fx (current_entries (d_conns d))) in *.
  assert (Hcur : asc_strict fx cur) by (apply sort_entries_strict, current_entries_keys; exact Hn).
  rewrite Hl. destruct Hsh as [(Hc & Ea & El)|(Hc & Ea & El)]; subst list'; [|apply N.ltb_ge in Hc; exact Hc].
  rewrite Hc in G. cbn [andb] in G. apply N.ltb_ge in G. apply N.ltb_lt in Hc.
  rewrite sort_entries_length, app_length. subst added'. rewrite firstn_length.
  pose proof (set_diff_count (d_list d) cur Hs Hcur) as C. lia.
Qed.

(* ------------------------------------------------------------------------------------------ *)
(* the reachable-state invariant *)

Definition J (d : dstate) : Prop :=
  asc_strict fx (d_list d) /\ NoDup (peers (d_conns d)) /\ incl (peers (d_conns d)) (d_used d) /\
  Forall (fun i => i < 65536) (d_used d) /\
  N.of_nat (length (d_list d)) <= Params.c20_max_pex_list.

Lemma J_ext : forall d d', d_list d' = d_list d -> d_used d' = d_used d -> sub_peers (d_conns d') (d_conns d) -> J d -> J d'.
Proof.
  intros d d' E1 E2 [S1 S2] (A & B & C & D & K). unfold J. rewrite E1, E2. repeat split; auto.
  eapply incl_tran; eauto.
Qed.

Lemma J_ext2 : forall d d', J d -> d_list d' = d_list d -> d_used d' = d_used d -> sub_peers (d_conns d') (d_conns d) -> J d'.
Proof. intros d d' HJ E1 E2 S. eapply J_ext; eauto. Qed.

Lemma key_addr_inj : forall a b, a < 65536 -> b < 65536 -> key_addr fx a = key_addr fx b -> a = b.
Proof. intros a b Ha Hb. unfold key_addr. destruct (fx_ord_addr fx); [apply swap16_inj; assumption|auto]. Qed.

Lemma J_keys : forall d, J d -> NoDup (map (fun c => key_addr fx (c_peer c)) (d_conns d)).
Proof.
  intros d (A & B & C & D & K). rewrite <- (map_map c_peer (key_addr fx)). apply NoDup_map_inj_on; [|exact B].
  rewrite Forall_forall in D. intros x y Hx Hy. apply key_addr_inj; apply D, C; assumption.
Qed.

Lemma settle_J : forall f d i acc d' o, settle f fx d i acc = SOk d' o -> J d -> J d'.
Proof.
  induction f as [|f IH]; intros d i acc d' o H HJ; [discriminate H|].
  rewrite settle_S in H. cbv zeta in H.
  destruct (find_conn i (d_conns d)) as [c|]; [|inversion H; subst; exact HJ].
  destruct (i_in_read (c_io c) && negb (is_nil (i_sock (c_io c)))).
  - destruct (read_event fx (d_meta d) c (d_size_pex d)) as [c1 sp1 o1|c1 sp1 o1| |]; try discriminate H.
    + apply IH in H; [exact H|]. apply (J_ext2 _ _ HJ); [reflexivity|reflexivity|]. apply sub_same. apply peers_replace.
    + inversion H; subst. apply (J_ext2 _ _ HJ); [reflexivity|reflexivity|]. apply sub_erase.
  - destruct (i_in_write (c_io c) && negb (is_umsg (i_up (c_io c)) && i_wblocked (c_io c))).
    + destruct (write_event fx (d_meta d) (d_initial d) (d_delta d) c (d_size_pex d)) as [c1 sp1 o1|c1 sp1 o1| |]; try discriminate H.
      * apply IH in H; [exact H|]. apply (J_ext2 _ _ HJ); [reflexivity|reflexivity|]. apply sub_same. apply peers_replace.
      * inversion H; subst. apply (J_ext2 _ _ HJ); [reflexivity|reflexivity|]. apply sub_erase.
    + inversion H; subst. exact HJ.
Qed.

Lemma settle_all_J : forall ids d acc d' o, settle_all fx d ids acc = SOk d' o -> J d -> J d'.
Proof.
  intros ids. induction ids as [|i r IH]; intros d acc d' o H HJ.
  - cbn in H. inversion H; subst. exact HJ.
  - rewrite settle_all_cons in H. destruct (settle settle_fuel fx d i []) as [d1 o1| |] eqn:E; try discriminate H.
    eapply IH; [exact H|]. eapply settle_J; eauto.
Qed.

Lemma tick_J : forall d d' o, J d -> tick fx d = SOk d' o -> J d'.
Proof.
  intros d d' o HJ E. unfold tick in E.
  match type of E with context [settle_all fx ?a ?b ?c] => destruct (settle_all fx a b c) as [d0 o0| |] eqn:E0 end; try discriminate E.
  assert (P0 : J d0).
  { eapply settle_all_J; [exact E0|]. apply (J_ext2 _ _ HJ); [reflexivity|reflexivity|]. apply sub_same. apply peers_push_sock. }
  match type of E with context [match ?r with DpeOk _ => _ | DpeInternalError => _ end] => destruct r as [d1|] eqn:E1 end; [|discriminate E].
  assert (P1 : J d1).
  { destruct (d_pexen d0).
    - pose proof (J_keys _ P0) as KK. destruct (dpe_conns fx _ _ E1) as [Q1 Q2]. destruct P0 as (A & B & C & D & K). unfold J. rewrite Q1, Q2.
      split; [eapply dpe_list_strict; eauto|]. split; [exact B|]. split; [exact C|]. split; [exact D|]. eapply dpe_list_cap; eauto.
    - destruct (d_pex_active d0); [|inversion E1; subst; exact P0].
      pose proof (peers_disable_all (d_conns d0) (d_size_pex d0)) as HP.
      destruct (disable_all (d_size_pex d0) (d_conns d0)) as [l sp]. inversion E1; subst.
      apply (J_ext2 _ _ P0); [reflexivity|reflexivity|]. apply sub_same. exact HP. }
  pose proof (sub_ka_loop (length (d_conns d1)) (d_size_pex d1) (d_conns d1)) as HK.
  destruct (ka_loop (length (d_conns d1)) (d_size_pex d1) (d_conns d1)) as [[l2 sp2] o2]. cbn [fst] in HK.
  eapply settle_all_J; [exact E|]. apply (J_ext2 _ _ P1); [reflexivity|reflexivity|]. exact HK.
Qed.

Definition op_in_domain (o : op) : Prop := match o with Connect i => i < 65536 | _ => True end.

Lemma step_J : forall d o d' outs, op_in_domain o -> J d -> step fx d o = SOk d' outs -> J d'.
Proof.
  intros d o d' outs Hdom HJ E. destruct o as [i|i ms| |i|i b|b]; cbn [step] in E.
  - destruct (existsb (N.eqb i) (d_used d)) eqn:Eu; inversion E; subst; [exact HJ|].
    destruct HJ as (A & B & C & D & K). unfold J. cbn [d_list d_conns d_used]. repeat split.
    + exact A.
    + rewrite map_app. cbn.
      assert (Hni : ~ In i (peers (d_conns d))).
      { intro Hin. apply C in Hin. assert (existsb (N.eqb i) (d_used d) = true) by (apply existsb_exists; exists i; split; [exact Hin|apply N.eqb_refl]). congruence. }
      clear - B Hni. induction (peers (d_conns d)) as [|x r IH]; cbn; [constructor; [intros []|constructor]|].
      inversion B; subst. constructor.
      * intro Hin. apply in_app_or in Hin. destruct Hin as [Hin|[Hin|[]]]; [contradiction|]. apply Hni. left. symmetry. exact Hin.
      * apply IH; [assumption|]. intro Hin. apply Hni. right. exact Hin.
    + rewrite map_app. cbn. intros x Hx. apply in_app_or in Hx. destruct Hx as [Hx|[Hx|[]]]; [right; apply C; exact Hx|left; exact Hx].
    + constructor; [exact Hdom|exact D].
    + exact K.
  - destruct (find_conn i (d_conns d)) as [c|]; [|inversion E; subst; exact HJ].
    eapply settle_J; [exact E|]. apply (J_ext2 _ _ HJ); [reflexivity|reflexivity|]. apply sub_same. apply peers_replace.
  - eapply tick_J; eauto.
  - destruct (find_conn i (d_conns d)) as [c|]; [|inversion E; subst; exact HJ].
    match type of E with context [if ?b then _ else _] => destruct b end; [|discriminate E].
    inversion E; subst. apply (J_ext2 _ _ HJ); [reflexivity|reflexivity|]. apply sub_erase.
  - destruct (find_conn i (d_conns d)) as [c|]; [|inversion E; subst; exact HJ].
    eapply settle_J; [exact E|]. apply (J_ext2 _ _ HJ); [reflexivity|reflexivity|]. apply sub_same. apply peers_replace.
  - inversion E; subst. apply (J_ext2 _ _ HJ); [reflexivity|reflexivity|]. apply sub_refl.
Qed.

Lemma init_J : forall priv m minp, J (init priv m minp).
Proof.
  intros. unfold J. cbn [init d_list d_conns d_used map length].
  split; [constructor|]. split; [constructor|]. split; [intros x []|]. split; [constructor|]. apply N.le_0_l.
Qed.

Theorem J_reachable : forall priv m minp ops, Forall op_in_domain ops ->
  J (final_state fx (start fx priv m minp) ops).
Proof.
  intros priv m minp ops Hops.
  assert (S : J (start fx priv m minp)).
  { unfold start. destruct (tick fx (init priv m minp)) as [d o| |] eqn:E; try apply init_J. eapply tick_J; [apply init_J|exact E]. }
  revert S. generalize (start fx priv m minp). induction Hops as [|o r Ho Hr IH]; intros d S; cbn [final_state]; [exact S|].
  destruct (step fx d o) as [d' outs| |] eqn:E; try exact S. apply IH. eapply step_J; eauto.
Qed.

(* ------------------------------------------------------------------------------------------ *)
(* the reachable-state theorems *)

Theorem pex_list_strict_reachable : forall priv m minp ops, Forall op_in_domain ops ->
  let d := final_state fx (start fx priv m minp) ops in
  asc_strict fx (d_list d) /\ NoDup (peers (d_conns d)).
Proof. intros priv m minp ops H d. destruct (J_reachable priv m minp ops H) as (A & B & _). split; assumption. Qed.

Theorem pex_dropped_exact : forall priv m minp ops d1 a r e, Forall op_in_domain ops ->
  let d := final_state fx (start fx priv m minp) ops in
  do_peer_exchange fx d = DpeOk d1 -> d_delta d1 = Some (a, r) ->
  (In e r <-> In e (d_list d) /\ forall e', In e' (cur_of d) -> ~ same_entry fx e e').
Proof.
  intros priv m minp ops d1 a r e H d E Hd. pose proof (J_reachable priv m minp ops H) as HJ. fold d in HJ.
  split.
  - intro Hin. eapply dpe_dropped_sound; eauto. exact (proj1 HJ).
  - intros [Hin Hn]. destruct (dpe_dropped_complete fx d d1 e E Hin Hn) as (a' & r' & Hd' & Hr).
    rewrite Hd in Hd'. inversion Hd'; subst. exact Hr.
Qed.

Theorem pex_added_exact : forall priv m minp ops d1 a r e, Forall op_in_domain ops ->
  let d := final_state fx (start fx priv m minp) ops in
  do_peer_exchange fx d = DpeOk d1 -> d_delta d1 = Some (a, r) ->
  (In e a -> In e (cur_of d) /\ forall e', In e' (d_list d) -> ~ same_entry fx e e') /\
  (N.of_nat (length (cur_of d)) <= Params.c20_max_pex_list ->
   In e (cur_of d) -> (forall e', In e' (d_list d) -> ~ same_entry fx e e') -> In e a).
Proof.
  intros priv m minp ops d1 a r e H d E Hd. pose proof (J_reachable priv m minp ops H) as HJ. fold d in HJ.
  split.
  - intro Hin. eapply dpe_added_sound; eauto; [exact (proj1 HJ)|apply J_keys; exact HJ].
  - intros Hcap Hin Hn. destruct (dpe_added_complete fx d d1 e E Hcap Hin Hn) as (a' & r' & Hd' & Hr).
    rewrite Hd in Hd'. inversion Hd'; subst. exact Hr.
Qed.

(* the size cap max_pex_list: m_ut_pex_list never has more than 200 entries, in every reachable state and after
   every round from one (in particular after the capped branch, which trims 'added' and re-sorts) *)
Theorem pex_list_capped_reachable : forall priv m minp ops, Forall op_in_domain ops ->
  N.of_nat (length (d_list (final_state fx (start fx priv m minp) ops))) <= Params.c20_max_pex_list.
Proof. intros priv m minp ops H. destruct (J_reachable priv m minp ops H) as (_ & _ & _ & _ & K). exact K. Qed.

Theorem pex_round_capped : forall priv m minp ops d1, Forall op_in_domain ops ->
  let d := final_state fx (start fx priv m minp) ops in
  do_peer_exchange fx d = DpeOk d1 -> N.of_nat (length (d_list d1)) <= Params.c20_max_pex_list.
Proof.
  intros priv m minp ops d1 H d E. pose proof (J_reachable priv m minp ops H) as HJ. fold d in HJ.
  eapply dpe_list_cap; [exact E|exact (proj1 HJ)|apply J_keys; exact HJ].
Qed.

(* nothing to tell => no delta: when no listed entry lost its peer and no connected peer is unlisted *)
Theorem pex_delta_none_iff_nothing_dropped : forall d d1,
  do_peer_exchange fx d = DpeOk d1 -> d_delta d1 = None ->
  forall e, In e (d_list d) -> exists e', In e' (cur_of d) /\ same_entry fx e e'.
Proof.
  intros d d1 E Hd e Hin. destruct (dpe_shape fx d d1 E) as (added' & list' & Hsh & Hl & Hi & Hdl). cbv zeta in Hsh.
  rewrite Hdl in Hd. unfold dpe_buffers in Hd.
  destruct (set_diff fx (d_list d) (cur_of d)) eqn:Er.
  - eapply set_diff_nil_cover; eauto.
  - destruct added'; cbn in Hd; discriminate Hd.
Qed.

End Ord.

Definition hsp (p : Z) : wmsg := (MHandshake (hs_of (Some 1%Z) (Some 3%Z) (Some p)), 60).

(* non-vacuity: a reachable round whose delta has a dropped entry (peer 0 left) and an added one (peer 1 came) *)
Example ex_dropped_round :
  Forall op_in_domain [Connect 0; Recv 0 [hsp 7000]; Tick; Close 0; Connect 1; Recv 1 [hsp 7001]] /\
  exists d1, do_peer_exchange current_fixes (final_state current_fixes (start current_fixes false small_meta 40)
    [Connect 0; Recv 0 [hsp 7000]; Tick; Close 0; Connect 1; Recv 1 [hsp 7001]]) = DpeOk d1 /\
    d_delta d1 = Some ([(1, 7001)], [(0, 7000)]).
Proof. split; [repeat constructor; cbn; lia|]. eexists. split; vm_compute; reflexivity. Qed.
