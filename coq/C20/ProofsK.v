(* C20 — proofs, part K: the internal_error of do_peer_exchange ("added.size() < current.size() - max_pex_list")
   is unreachable. *)
From Coq Require Import NArith ZArith List Bool Lia Sorting.Sorted.
From Coq Require Import ZifyBool ZifyNat ZifyN.
From LTV.C20 Require Import ParamsGen Model ProofsB ProofsC ProofsD ProofsG ProofsH ProofsI ProofsJ.
Import ListNotations.
Open Scope N_scope.

Section Ord.
  Variable fx : fixes.

Lemma dpe_error_guard : forall d, do_peer_exchange fx d = DpeInternalError ->
  (Params.c20_max_pex_list <? N.of_nat (length (sort_entries fx (current_entries (d_conns d))))) &&
  (N.of_nat (length (set_diff fx (sort_entries fx (current_entries (d_conns d))) (d_list d))) <?
   N.of_nat (length (sort_entries fx (current_entries (d_conns d)))) - Params.c20_max_pex_list) = true.
Proof.
  intros d E. unfold do_peer_exchange in E.
  destruct (negb (d_pex_active d) && (N.of_nat (length (d_conns d)) <? d_minp d / 2)).
  1: destruct (d_size_pex d <? Params.c20_max_size_pex).
  3: destruct (d_pex_active d && (d_minp d <=? N.of_nat (length (d_conns d)))).
  all: cbv beta iota zeta in E.
  all: match type of E with context [pex_loop ?a ?b ?c] => destruct (pex_loop a b c) as [l2 s2] end.
  all: match type of E with context [if ?g then DpeInternalError else _] => destruct g eqn:G; [reflexivity|exfalso] end.
  all: match type of E with context [if ?g then _ else _] => destruct g end; cbv beta iota zeta in E.
  all: match type of E with context [match ?l with [] => _ | _ :: _ => _ end] => destruct l end.
  all: try (match type of E with context [match ?l with [] => _ | _ :: _ => _ end] => destruct l end).
  all: cbv beta iota zeta in E; discriminate E.
Qed.

Lemma set_diff_length_le : forall a b, asc_strict fx a -> asc_strict fx b -> (length (set_diff fx a b) <= length a)%nat.
Proof.
  intros a b Ha Hb. rewrite (set_diff_filter fx a b Ha Hb).
  generalize (fun e => negb (has_cp fx b e)). intro f. clear.
  induction a as [|x r IH]; cbn; [lia|]. destruct (f x); cbn; lia.
Qed.

Theorem dpe_no_internal_error : forall d, J fx d -> do_peer_exchange fx d <> DpeInternalError.
Proof.
  intros d HJ E. pose proof (J_keys fx d HJ) as KK. destruct HJ as (A & _ & _ & _ & K).
  apply dpe_error_guard in E. apply andb_true_iff in E. destruct E as [E1 E2]. apply N.ltb_lt in E1. apply N.ltb_lt in E2.
  set (cur := sort_entries fx (current_entries (d_conns d))) in *.
  assert (Hcur : asc_strict fx cur) by (apply sort_entries_strict, current_entries_keys; exact KK).
  pose proof (set_diff_count fx (d_list d) cur A Hcur) as C.
  pose proof (set_diff_length_le (d_list d) (set_diff fx (d_list d) cur) A (set_diff_strict fx _ _ A)) as L.
  lia.
Qed.

Theorem pex_no_internal_error_reachable : forall priv m minp ops, Forall (op_in_domain) ops ->
  do_peer_exchange fx (final_state fx (start fx priv m minp) ops) <> DpeInternalError.
Proof. intros priv m minp ops H. apply dpe_no_internal_error. apply J_reachable. exact H. Qed.

(* pex_exact without the cap hypothesis: also in the > 200 branch every entry of the new m_ut_pex_list, of the
   delta 'added' and of the initial 'added' has the wire bytes of a currently connected peer with a listen port *)
Lemma dpe_round_full : forall d d1, J fx d -> initial_in_list fx d -> do_peer_exchange fx d = DpeOk d1 ->
  (forall e, In e (d_list d1) -> connected_with_port fx d e) /\
  (forall a r e, d_delta d1 = Some (a, r) -> In e a -> connected_with_port fx d e) /\
  (forall a r e, d_initial d1 = Some (a, r) -> In e a -> connected_with_port fx d e).
Proof.
  intros d d1 HJ PI E. pose proof (J_keys fx d HJ) as KK. pose proof (proj1 HJ) as A.
  set (cur := sort_entries fx (current_entries (d_conns d))) in *.
  assert (Hcur : asc_strict fx cur) by (apply sort_entries_strict, current_entries_keys; exact KK).
  assert (HL : forall e, In e (d_list d1) -> connected_with_port fx d e).
  { intros e Hin. destruct (dpe_shape fx d d1 E) as (added' & list' & Hsh & Hl & _). cbv zeta in Hsh. rewrite Hl in Hin.
    destruct Hsh as [(Hc & Ea & El)|(Hc & Ea & El)]; subst list'; [|apply current_connected; exact Hin].
    apply (proj1 (sort_entries_in fx _ e)) in Hin. apply in_app_or in Hin. destruct Hin as [Hin|Hin].
    - fold cur in Hin. rewrite (set_diff_twice fx (d_list d) cur A Hcur) in Hin. apply filter_In in Hin. destruct Hin as [_ Hcp].
      unfold has_cp in Hcp. apply existsb_exists in Hcp. destruct Hcp as (e' & He' & S). apply same_b_true in S.
      eapply connected_same; [exact S|apply current_connected; exact He'].
    - subst added'. apply firstn_in in Hin. apply set_diff_subset in Hin. apply current_connected. exact Hin. }
  split; [exact HL|]. split.
  - intros a r e Hd Hin. destruct (dpe_added_sound fx d d1 a r e E A KK Hd Hin) as [Hc _]. apply current_connected. exact Hc.
  - intros a r e Hi Hin. destruct (proj1 (dpe_round fx d d1 PI E) a r e Hi Hin) as (e' & He' & S).
    eapply connected_same; [exact S|apply HL; exact He'].
Qed.

Theorem pex_exact_full : forall priv m minp ops d1, Forall op_in_domain ops ->
  let d := final_state fx (start fx priv m minp) ops in
  do_peer_exchange fx d = DpeOk d1 ->
  (forall e, In e (d_list d1) -> connected_with_port fx d e) /\
  (forall a r e, d_delta d1 = Some (a, r) -> In e a -> connected_with_port fx d e) /\
  (forall a r e, d_initial d1 = Some (a, r) -> In e a -> connected_with_port fx d e).
Proof.
  intros priv m minp ops d1 H d E.
  exact (dpe_round_full d d1 (J_reachable fx priv m minp ops H) (pex_invariant_reachable fx priv m minp ops) E).
Qed.

End Ord.

(* non-vacuity of the strictness hypotheses of the round-level / set_difference theorems *)
Example ex_strict_lists :
  asc_strict current_fixes [(0, 7000); (1, 7001)] /\ asc_strict current_fixes [(1, 7001); (2, 7002)] /\
  set_diff current_fixes [(0, 7000); (1, 7001)] [(1, 7001); (2, 7002)] = [(0, 7000)] /\
  set_diff current_fixes [(0, 7000); (1, 7001)] (set_diff current_fixes [(0, 7000); (1, 7001)] [(1, 7001); (2, 7002)]) = [(1, 7001)].
Proof. repeat split; try (repeat constructor); vm_compute; reflexivity. Qed.
