(* C20 — "and then describes the same torrent as the original file": the corollary through C08's
   loader model. The client turns the verified metadata d into the torrent "d4:info" ++ d ++ "e"
   (what rtorrent loads after a magnet download finishes; the oracle of gen/c20.py does the same on
   the real library and compares the Download dumps); C08's [load_bytes] is the model of
   download_add on those bytes. *)
From Coq Require Import NArith List.
From LTV.C08 Require Model.
From LTV.C20 Require Import ParamsGen Model Fetcher.
Import ListNotations.
Open Scope N_scope.

Definition wrap_info (m : list N) : list N := [100; 52; 58; 105; 110; 102; 111] ++ m ++ [101].

Theorem magnet_same_download : forall (H : list N -> list N) orig ops d,
  (forall x, H x = H orig -> x = orig) ->
  f_done (frun H (H orig) ops) = Some d ->
  LTV.C08.Model.load_bytes H (wrap_info d) = LTV.C08.Model.load_bytes H (wrap_info orig).
Proof.
  intros H orig ops d Hinj Hd. rewrite (magnet_same_torrent H orig ops d Hinj Hd). reflexivity.
Qed.
