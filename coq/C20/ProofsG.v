(* C20 — proofs, part G: pex_exact for every reachable state (any variant of the model). *)
From Coq Require Import NArith ZArith List Bool Lia.
From Coq Require Import ZifyBool ZifyNat ZifyN.
From LTV.C20 Require Import ParamsGen Model ProofsB ProofsC ProofsD.
Import ListNotations.
Open Scope N_scope.

Section Ord.
  Variable fx : fixes.   (* any variant of the model, in particular any probed order policy *)

(* two entries with the same 6 bytes on the wire (address of the peer index, port as two bytes:
   swap16 is the value SocketAddressCompact_less compares) *)
Definition same_entry (a b : entry) : Prop :=
  key_addr fx (fst a) = key_addr fx (fst b) /\ key_port fx (snd a) = key_port fx (snd b).

Lemma same_refl : forall a, same_entry a a.
Proof. intro a. split; reflexivity. Qed.
Lemma same_trans : forall a b c, same_entry a b -> same_entry b c -> same_entry a c.
Proof. intros a b c [A1 A2] [B1 B2]. split; congruence. Qed.

Lemma not_less_same : forall a b, entry_less fx a b = false -> entry_less fx b a = false -> same_entry a b.
Proof.
  intros a b H1 H2. unfold entry_less in *. unfold same_entry.
  set (ka := key_addr fx (fst a)) in *. set (kb := key_addr fx (fst b)) in *.
  set (pa := key_port fx (snd a)) in *. set (pb := key_port fx (snd b)) in *.
  destruct (ka <? kb) eqn:A; [discriminate H1|]. destruct (kb <? ka) eqn:B; [discriminate H2|].
  cbn in H1, H2. apply N.ltb_ge in A. apply N.ltb_ge in B.
  assert (E : ka = kb) by lia. rewrite E in *. rewrite N.eqb_refl in *. cbn in H1, H2.
  apply N.ltb_ge in H1. apply N.ltb_ge in H2. split; [reflexivity|lia].
Qed.

(* std::set_difference leaves nothing of a  =>  every element of a is matched in b *)
Lemma set_diff_nil_cover : forall a b, set_diff fx a b = [] ->
  forall e, In e a -> exists e', In e' b /\ same_entry e e'.
Proof.
  induction a as [|x a IHa]; intros b H e Hin; [destruct Hin|].
  induction b as [|y b IHb].
  - cbn in H. discriminate H.
  - cbn in H. destruct (entry_less fx x y) eqn:L1; [discriminate H|].
    destruct (entry_less fx y x) eqn:L2.
    + destruct (IHb H) as (e' & A & B). exists e'. split; [right; exact A|exact B].
    + destruct Hin as [Hin|Hin].
      * subst e. exists y. split; [left; reflexivity|apply not_less_same; assumption].
      * destruct (IHa _ H _ Hin) as (e' & A & B). exists e'. split; [right; exact A|exact B].
Qed.

(* the initial buffer lists only entries of m_ut_pex_list (up to the wire bytes) *)
Definition initial_in_list (d : dstate) : Prop :=
  forall a r e, d_initial d = Some (a, r) -> In e a -> exists e', In e' (d_list d) /\ same_entry e e'.

Lemma gen_pex_some : forall l a r, gen_pex l [] = Some (a, r) -> a = l /\ r = [].
Proof. intros l a r H. destruct l; cbn in H; [discriminate H|]. inversion H; auto. Qed.

Definition connected_with_port (d : dstate) (e : entry) : Prop :=
  exists c, In c (d_conns d) /\ x_listen (c_x c) <> 0 /\ same_entry e (c_peer c, x_listen (c_x c)).

Lemma current_connected : forall d e, In e (sort_entries fx (current_entries (d_conns d))) -> connected_with_port d e.
Proof.
  intros d e H. apply (proj1 (sort_entries_in _ _ _)) in H. destruct (current_entries_connected _ _ H) as (c & A & B & C & D).
  exists c. split; [exact A|]. split; [rewrite C; exact D|]. destruct e as [e1 e2]. cbn in *. subst. apply same_refl.
Qed.

Lemma connected_same : forall d e e', same_entry e e' -> connected_with_port d e' -> connected_with_port d e.
Proof. intros d e e' S (c & A & B & C). exists c. repeat split; auto; destruct S, C; cbn in *; congruence. Qed.

Lemma set_diff_nil_r : forall a, set_diff fx a [] = a.
Proof. destruct a; reflexivity. Qed.

(* the tail of do_peer_exchange: which buffers result *)
Definition dpe_buffers (d : dstate) (added' removed list' : list entry) : pexmsg * pexmsg :=
  match added', removed with
  | [], [] => (d_initial d, None)
  | _, _ => (gen_pex list' [], gen_pex added' removed)
  end.

Lemma dpe_buffers_inv : forall d added' removed list',
  initial_in_list d ->
  (added' = [] -> removed = [] -> forall e, In e (d_list d) -> exists e', In e' list' /\ same_entry e e') ->
  forall a r e, fst (dpe_buffers d added' removed list') = Some (a, r) -> In e a -> exists e', In e' list' /\ same_entry e e'.
Proof.
  intros d added' removed list' PI Hun a r e Hi Hin. unfold dpe_buffers in Hi.
  destruct added' as [|x xs]; destruct removed as [|y ys]; cbn in Hi.
  - destruct (PI _ _ _ Hi Hin) as (e' & A & B). destruct (Hun eq_refl eq_refl _ A) as (e'' & A2 & B2).
    exists e''. split; [exact A2|eapply same_trans; eauto].
  - apply gen_pex_some in Hi. destruct Hi as [Hi _]. subst a. exists e. split; [exact Hin|apply same_refl].
  - apply gen_pex_some in Hi. destruct Hi as [Hi _]. subst a. exists e. split; [exact Hin|apply same_refl].
  - apply gen_pex_some in Hi. destruct Hi as [Hi _]. subst a. exists e. split; [exact Hin|apply same_refl].
Qed.

(* do_peer_exchange, restated with dpe_buffers *)
Lemma dpe_shape : forall d d1, do_peer_exchange fx d = DpeOk d1 ->
  let cur := sort_entries fx (current_entries (d_conns d)) in
  let added := set_diff fx cur (d_list d) in
  let removed := set_diff fx (d_list d) cur in
  exists added' list',
    ((Params.c20_max_pex_list <? N.of_nat (length cur)) = true /\
       added' = firstn (length added - N.to_nat (N.of_nat (length cur) - Params.c20_max_pex_list)) added /\
       list' = sort_entries fx (set_diff fx (d_list d) removed ++ added')
     \/ (Params.c20_max_pex_list <? N.of_nat (length cur)) = false /\ added' = added /\ list' = cur) /\
    d_list d1 = list' /\
    d_initial d1 = fst (dpe_buffers d added' removed list') /\
    d_delta d1 = snd (dpe_buffers d added' removed list').
Proof.
  intros d d1 E. unfold do_peer_exchange in E.
  destruct (negb (d_pex_active d) && (N.of_nat (length (d_conns d)) <? d_minp d / 2)).
  1: destruct (d_size_pex d <? Params.c20_max_size_pex).
  3: destruct (d_pex_active d && (d_minp d <=? N.of_nat (length (d_conns d)))).
  all: cbv beta iota zeta in E.
  all: match type of E with context [pex_loop ?a ?b ?c] => destruct (pex_loop a b c) as [l2 s2] end.
  all: cbv zeta.
  all: set (cur := sort_entries fx (current_entries (d_conns d))) in *.
  all: destruct ((Params.c20_max_pex_list <? N.of_nat (length cur)) &&
                 (N.of_nat (length (set_diff fx cur (d_list d))) <? N.of_nat (length cur) - Params.c20_max_pex_list)); [discriminate E|].
  all: destruct (Params.c20_max_pex_list <? N.of_nat (length cur)) eqn:Ecap; cbv beta iota zeta in E.
  all: eexists; eexists; split; [first [left; split; [reflexivity|split; reflexivity] | right; split; [reflexivity|split; reflexivity]]|].
  all: unfold dpe_buffers.
  all: match type of E with context [match ?l with [] => _ | _ :: _ => _ end] => destruct l end.
  all: try (match type of E with context [match ?l with [] => _ | _ :: _ => _ end] => destruct l end).
  all: cbv beta iota zeta in E; inversion E; cbn; repeat split; reflexivity.
Qed.

(* one do_peer_exchange fx round *)
Lemma dpe_round : forall d d1,
  initial_in_list d -> do_peer_exchange fx d = DpeOk d1 ->
  initial_in_list d1 /\
  (N.of_nat (length (sort_entries fx (current_entries (d_conns d)))) <= Params.c20_max_pex_list ->
   (forall e, In e (d_list d1) -> connected_with_port d e) /\
   (forall a r e, d_delta d1 = Some (a, r) -> In e a -> connected_with_port d e) /\
   (forall a r e, d_initial d1 = Some (a, r) -> In e a -> connected_with_port d e)).
Proof.
  intros d d1 PI E. destruct (dpe_shape d d1 E) as (added' & list' & Hsh & Hl & Hi & Hd). cbv zeta in Hsh.
  set (cur := sort_entries fx (current_entries (d_conns d))) in *.
  assert (UN : added' = [] -> set_diff fx (d_list d) cur = [] -> forall e, In e (d_list d) -> exists e', In e' list' /\ same_entry e e').
  { intros Ha Hr e Hin. destruct Hsh as [(Hc & Ea & El)|(Hc & Ea & El)].
    - exists e. split; [|apply same_refl]. subst list'. apply sort_entries_in. rewrite Hr, Ha, app_nil_r, set_diff_nil_r. exact Hin.
    - subst list'. exact (set_diff_nil_cover _ _ Hr _ Hin). }
  split.
  - unfold initial_in_list. rewrite Hl, Hi. intros a r e Hs Hin. eapply dpe_buffers_inv; eauto.
  - intro Hcap. destruct Hsh as [(Hc & _ & _)|(Hc & Ea & El)]; [apply N.ltb_lt in Hc; unfold cur in *; lia|].
    subst added' list'. rewrite Hl, Hi, Hd. repeat split.
    + intros e Hin. apply current_connected. exact Hin.
    + intros a r e Hs Hin. unfold dpe_buffers in Hs.
      destruct (set_diff fx cur (d_list d)) as [|x xs] eqn:Eadd; destruct (set_diff fx (d_list d) cur) as [|y ys]; cbn in Hs; try discriminate Hs;
        inversion Hs; subst; apply current_connected; eapply set_diff_subset; unfold cur in Eadd; rewrite Eadd; exact Hin.
    + intros a r e Hs Hin.
      destruct (dpe_buffers_inv d _ _ cur PI UN a r e Hs Hin) as (e' & A & B).
      eapply connected_same; [exact B|apply current_connected; exact A].
Qed.

(* ------------------------------------------------------------------------------------------ *)
(* the invariant holds in every reachable state (only do_peer_exchange fx touches the buffers) *)

Definition same_pex (d d' : dstate) : Prop := d_list d' = d_list d /\ d_initial d' = d_initial d.

Lemma PI_ext : forall d d', same_pex d d' -> initial_in_list d -> initial_in_list d'.
Proof. intros d d' [A B] H. unfold initial_in_list. rewrite A, B. exact H. Qed.

Lemma same_pex_refl : forall d, same_pex d d.
Proof. split; reflexivity. Qed.
Lemma same_pex_trans : forall a b c, same_pex a b -> same_pex b c -> same_pex a c.
Proof. intros a b c [A1 A2] [B1 B2]. split; congruence. Qed.

Lemma settle_frame : forall f d i acc d' o, settle f fx d i acc = SOk d' o -> same_pex d d'.
Proof.
  induction f as [|f IH]; intros d i acc d' o H; [discriminate H|].
  rewrite settle_S in H. cbv zeta in H.
  destruct (find_conn i (d_conns d)) as [c|]; [|inversion H; subst; apply same_pex_refl].
  destruct (i_in_read (c_io c) && negb (is_nil (i_sock (c_io c)))).
  - destruct (read_event fx (d_meta d) c (d_size_pex d)) as [c1 sp1 o1|c1 sp1 o1| |]; try discriminate H.
    + apply IH in H. eapply same_pex_trans; [|exact H]. split; reflexivity.
    + inversion H; subst. split; reflexivity.
  - destruct (i_in_write (c_io c) && negb (is_umsg (i_up (c_io c)) && i_wblocked (c_io c))).
    + destruct (write_event fx (d_meta d) (d_initial d) (d_delta d) c (d_size_pex d)) as [c1 sp1 o1|c1 sp1 o1| |]; try discriminate H.
      * apply IH in H. eapply same_pex_trans; [|exact H]. split; reflexivity.
      * inversion H; subst. split; reflexivity.
    + inversion H; subst. apply same_pex_refl.
Qed.

Lemma settle_all_frame : forall ids d acc d' o, settle_all fx d ids acc = SOk d' o -> same_pex d d'.
Proof.
  intros ids. induction ids as [|i r IH]; intros d acc d' o H.
  - cbn in H. inversion H; subst. apply same_pex_refl.
  - rewrite settle_all_cons in H. destruct (settle settle_fuel fx d i []) as [d1 o1| |] eqn:E; try discriminate H.
    eapply same_pex_trans; [eapply settle_frame; exact E|eapply IH; exact H].
Qed.

Lemma tick_PI : forall d d' o, initial_in_list d -> tick fx d = SOk d' o -> initial_in_list d'.
Proof.
  intros d d' o PI E. unfold tick in E.
  match type of E with context [settle_all fx ?a ?b ?c] => destruct (settle_all fx a b c) as [d0 o0| |] eqn:E0 end; try discriminate E.
  assert (P0 : initial_in_list d0).
  { eapply PI_ext; [eapply settle_all_frame; exact E0|]. eapply PI_ext; [|exact PI]. split; reflexivity. }
  match type of E with context [match ?r with DpeOk _ => _ | DpeInternalError => _ end] => destruct r as [d1|] eqn:E1 end; [|discriminate E].
  assert (P1 : initial_in_list d1).
  { destruct (d_pexen d0); [exact (proj1 (dpe_round _ _ P0 E1))|].
    destruct (d_pex_active d0); [|inversion E1; subst; exact P0].
    destruct (disable_all (d_size_pex d0) (d_conns d0)) as [l sp]. inversion E1; subst. eapply PI_ext; [|exact P0]. split; reflexivity. }
  destruct (ka_loop (length (d_conns d1)) (d_size_pex d1) (d_conns d1)) as [[l2 sp2] o2].
  eapply PI_ext; [eapply settle_all_frame; exact E|]. eapply PI_ext; [|exact P1]. split; reflexivity.
Qed.

Lemma step_PI : forall d o d' outs, initial_in_list d -> step fx d o = SOk d' outs -> initial_in_list d'.
Proof.
  intros d o d' outs PI E. destruct o as [i|i ms| |i|i b|b]; cbn [step] in E.
  - destruct (existsb (N.eqb i) (d_used d)); inversion E; subst; [exact PI|]. eapply PI_ext; [|exact PI]. split; reflexivity.
  - destruct (find_conn i (d_conns d)) as [c|]; [|inversion E; subst; exact PI].
    eapply PI_ext; [eapply settle_frame; exact E|]. eapply PI_ext; [|exact PI]. split; reflexivity.
  - eapply tick_PI; eauto.
  - destruct (find_conn i (d_conns d)) as [c|]; [|inversion E; subst; exact PI].
    match type of E with context [if ?b then _ else _] => destruct b end; [|discriminate E].
    inversion E; subst. eapply PI_ext; [|exact PI]. split; reflexivity.
  - destruct (find_conn i (d_conns d)) as [c|]; [|inversion E; subst; exact PI].
    eapply PI_ext; [eapply settle_frame; exact E|]. eapply PI_ext; [|exact PI]. split; reflexivity.
  - inversion E; subst. eapply PI_ext; [|exact PI]. split; reflexivity.
Qed.

Lemma init_PI : forall priv m minp, initial_in_list (init priv m minp).
Proof. intros priv m minp a r e H. discriminate H. Qed.

Theorem pex_invariant_reachable : forall priv m minp ops,
  initial_in_list (final_state fx (start fx priv m minp) ops).
Proof.
  intros priv m minp ops.
  assert (S : initial_in_list (start fx priv m minp)).
  { unfold start. destruct (tick fx (init priv m minp)) as [d o| |] eqn:E; try apply init_PI. eapply tick_PI; [apply init_PI|exact E]. }
  revert S. generalize (start fx priv m minp). induction ops as [|o r IH]; intros d S; cbn [final_state]; [exact S|].
  destruct (step fx d o) as [d' outs| |] eqn:E; try exact S. apply IH. eapply step_PI; eauto.
Qed.

(* pex_exact: in every reachable state (any ops: connects, handshakes changing listen ports,
   closes, ticks, blocked writes), a peer-exchange round over at most 200 listed peers yields
   m_ut_pex_list, a delta 'added' and an initial 'added' whose every entry has the wire bytes of
   a CURRENTLY CONNECTED peer with a non-zero listen port. (Entries are whole 6-byte records by
   construction: list entry.) The same holds for the state the tick actually applies it to (after
   the keep-alive reads), since those reads do not change the buffers (settle_all_frame). *)
Theorem pex_exact : forall priv m minp ops d1,
  let d := final_state fx (start fx priv m minp) ops in
  do_peer_exchange fx d = DpeOk d1 ->
  N.of_nat (length (sort_entries fx (current_entries (d_conns d)))) <= Params.c20_max_pex_list ->
  (forall e, In e (d_list d1) -> connected_with_port d e) /\
  (forall a r e, d_delta d1 = Some (a, r) -> In e a -> connected_with_port d e) /\
  (forall a r e, d_initial d1 = Some (a, r) -> In e a -> connected_with_port d e).
Proof.
  intros priv m minp ops d1 d E Hcap.
  exact (proj2 (dpe_round d d1 (pex_invariant_reachable priv m minp ops) E) Hcap).
Qed.

End Ord.

Example ex_pex_round : exists d1, do_peer_exchange current_fixes (final_state current_fixes (start current_fixes false small_meta 40)
    [Connect 0; Recv 0 [(MHandshake (hs_of (Some 1%Z) (Some 3%Z) (Some 7000%Z)), 60)]]) = DpeOk d1 /\ d_list d1 = [(0, 7000)].
Proof. eexists. split; vm_compute; reflexivity. Qed.
