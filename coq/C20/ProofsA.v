(* C20 — proofs, part A: ut_metadata slices (send_metadata_piece). *)
From Coq Require Import NArith ZArith List Bool Lia.
From Coq Require Import ZifyBool ZifyNat ZifyN.
From LTV.C20 Require Import ParamsGen Model.
Import ListNotations.
Open Scope N_scope.
Ltac Zify.zify_post_hook ::= Z.div_mod_to_equations.

Lemma params_ok_now : params_ok = true.
Proof. vm_compute. reflexivity. Qed.

Lemma piece_size_val : piece_size = 16384.
Proof. vm_compute. reflexivity. Qed.

Definition size_of (m : list N) : N := N.of_nat (length m).

(* what the property demands of a provider *)
Definition spec_reply (m : list N) (p : N) : meta_reply :=
  let sz := size_of m in
  if p <? piece_end sz then MData p sz (slice m (piece_size * p) (N.min piece_size (sz - piece_size * p)))
  else MReject p.

Lemma piece_end_spec : forall sz p, p <? piece_end sz = (piece_size * p <? sz).
Proof.
  intros sz p. unfold piece_end. rewrite piece_size_val.
  apply eq_true_iff_eq. rewrite !N.ltb_lt. split; intro H; lia.
Qed.

Lemma piece_end_pos : forall sz, 0 < sz -> 0 < piece_end sz.
Proof. intros sz H. unfold piece_end. rewrite piece_size_val. lia. Qed.

(* the last length the code computes (since 025b717) is the remaining byte count *)
Lemma last_len_code_spec : forall sz, 0 < sz ->
  last_len_code sz = N.min piece_size (sz - piece_size * (piece_end sz - 1)).
Proof.
  intros sz H. unfold last_len_code, piece_end. rewrite piece_size_val. lia.
Qed.

Lemma nonlast_full : forall sz p, p <? piece_end sz = true -> p <> piece_end sz - 1 ->
  N.min piece_size (sz - piece_size * p) = piece_size.
Proof.
  intros sz p H Hn. rewrite N.ltb_lt in H. unfold piece_end in *. rewrite piece_size_val in *. lia.
Qed.

(* generic: any last-length function that is right on this size gives the specified reply *)
Lemma send_with_spec : forall (ll : N -> N) m p,
  (0 < size_of m -> ll (size_of m) = N.min piece_size (size_of m - piece_size * (piece_end (size_of m) - 1))) ->
  send_metadata_piece_with ll false m p = spec_reply m p.
Proof.
  intros ll m p Hll. unfold send_metadata_piece_with, spec_reply. fold (size_of m).
  cbn [orb]. destruct (piece_end (size_of m) <=? p) eqn:E.
  - assert (p <? piece_end (size_of m) = false) as -> by (rewrite N.ltb_ge; apply N.leb_le; exact E). reflexivity.
  - assert (Hlt : p <? piece_end (size_of m) = true) by (rewrite N.ltb_lt; apply N.leb_gt; exact E).
    rewrite Hlt. f_equal. rewrite (N.mul_comm p piece_size).
    destruct (p =? piece_end (size_of m) - 1) eqn:El.
    + apply N.eqb_eq in El. subst p. rewrite Hll; [reflexivity|].
      rewrite N.ltb_lt in Hlt. unfold piece_end in Hlt. rewrite piece_size_val in Hlt. lia.
    + apply N.eqb_neq in El. rewrite nonlast_full; auto.
Qed.

(* THE POSITIVE THEOREM *)
Theorem metadata_slices : forall m p, send_metadata_piece false m p = spec_reply m p.
Proof.
  intros m p. apply send_with_spec. intro H. apply last_len_code_spec. exact H.
Qed.

(* the code as it is agrees with the specification exactly when the size is not a multiple of 16 KiB *)
Theorem metadata_slices_old_nonmultiple : forall m p,
  size_of m mod piece_size <> 0 -> send_metadata_piece_old false m p = spec_reply m p.
Proof.
  intros m p H. apply send_with_spec. intros _. unfold last_len_old, piece_end in *.
  rewrite piece_size_val in *. lia.
Qed.

(* ... and for EVERY non-empty multiple of 16 KiB the last piece is answered with no bytes *)
Theorem metadata_last_piece_empty_on_multiples_old : forall m,
  0 < size_of m -> size_of m mod piece_size = 0 ->
  send_metadata_piece_old false m (piece_end (size_of m) - 1) = MData (piece_end (size_of m) - 1) (size_of m) [].
Proof.
  intros m Hp Hm. unfold send_metadata_piece_old, send_metadata_piece_with. fold (size_of m). cbn [orb].
  pose proof (piece_end_pos _ Hp) as Hpe.
  assert (piece_end (size_of m) <=? piece_end (size_of m) - 1 = false) as -> by (apply N.leb_gt; lia).
  rewrite N.eqb_refl. unfold last_len_old. rewrite Hm. unfold slice. reflexivity.
Qed.

Lemma repeat_len : forall n, size_of (repeat 0 n) = N.of_nat n.
Proof. intro n. unfold size_of. rewrite repeat_length. reflexivity. Qed.

Definition reply_len (r : meta_reply) : N :=
  match r with MData _ _ pl => N.of_nat (length pl) | MReject _ => 0 end.

(* REFUTATION of metadata_slices for the code as it is: witness = 16384 zero bytes, piece 0 *)
Definition wit_a : list N := repeat 0 (N.to_nat 16384).

Lemma wit_a_size : size_of wit_a = 16384.
Proof. unfold wit_a. rewrite repeat_len. apply N2Nat.id. Qed.

Theorem metadata_slices_old_refuted : exists (m : list N) (p : N),
  p < piece_end (size_of m) /\ send_metadata_piece_old false m p <> spec_reply m p.
Proof.
  exists wit_a, 0. split.
  - rewrite wit_a_size. vm_compute. reflexivity.
  - assert (H1 : send_metadata_piece_old false wit_a 0 = MData 0 16384 []).
    { pose proof (metadata_last_piece_empty_on_multiples_old wit_a) as H.
      rewrite wit_a_size in H.
      assert (E : piece_end 16384 - 1 = 0) by (vm_compute; reflexivity). rewrite E in H.
      apply H; vm_compute; reflexivity. }
    rewrite H1. intro C. apply (f_equal reply_len) in C. cbn [reply_len length] in C.
    unfold spec_reply in C. rewrite wit_a_size in C.
    assert (E2 : (0 <? piece_end 16384) = true) by (vm_compute; reflexivity). rewrite E2 in C.
    cbn [reply_len] in C. unfold slice in C. rewrite firstn_length, skipn_length in C.
    fold (size_of wit_a) in C.
    assert (L : length wit_a = N.to_nat 16384) by (unfold wit_a; apply repeat_length).
    rewrite L in C. rewrite piece_size_val in C. lia.
Qed.

(* rejects *)
Theorem meta_download_rejects : forall ll m p, send_metadata_piece_with ll true m p = MReject p.
Proof. intros. reflexivity. Qed.

Theorem out_of_range_rejects : forall ll m p, piece_end (size_of m) <= p -> send_metadata_piece_with ll false m p = MReject p.
Proof.
  intros ll m p H. unfold send_metadata_piece_with. fold (size_of m). cbn [orb].
  assert (piece_end (size_of m) <=? p = true) as -> by (apply N.leb_le; exact H). reflexivity.
Qed.

(* concatenation of the specified slices is the info dictionary *)
Lemma firstn_skipn_add : forall (a b : nat) (m : list N), firstn a m ++ firstn b (skipn a m) = firstn (a + b) m.
Proof.
  induction a as [|a IH]; intros b m; cbn [firstn skipn plus app]; [reflexivity|].
  destruct m as [|x m]; cbn [firstn skipn plus app].
  - rewrite firstn_nil. reflexivity.
  - rewrite IH. reflexivity.
Qed.

Definition spec_payload (m : list N) (p : N) : list N :=
  slice m (piece_size * p) (N.min piece_size (size_of m - piece_size * p)).

Fixpoint concat_upto (m : list N) (k : nat) : list N :=
  match k with
  | O => []
  | S k' => concat_upto m k' ++ spec_payload m (N.of_nat k')
  end.

Lemma concat_upto_firstn : forall m k, N.of_nat k <= piece_end (size_of m) ->
  concat_upto m k = firstn (N.to_nat (N.min (piece_size * N.of_nat k) (size_of m))) m.
Proof.
  intros m k. induction k as [|k IH]; intro H.
  - cbn [concat_upto]. rewrite N.mul_0_r. rewrite N.min_0_l. reflexivity.
  - cbn [concat_upto]. rewrite IH by lia. unfold spec_payload, slice.
    assert (Hk : piece_size * N.of_nat k < size_of m).
    { unfold piece_end in H. rewrite piece_size_val in *. lia. }
    replace (N.min (piece_size * N.of_nat k) (size_of m)) with (piece_size * N.of_nat k) by lia.
    rewrite firstn_skipn_add. f_equal. rewrite piece_size_val in *. lia.
Qed.

Theorem metadata_concat : forall m,
  concat_upto m (N.to_nat (piece_end (size_of m))) = m.
Proof.
  intro m. rewrite concat_upto_firstn by lia.
  replace (N.to_nat (N.min (piece_size * N.of_nat (N.to_nat (piece_end (size_of m)))) (size_of m))) with (length m).
  - apply firstn_all.
  - unfold size_of, piece_end. rewrite piece_size_val. lia.
Qed.

(* the reject message is never truncated (buffer 8 + 40 since e099dce) for any 64-bit piece index *)
Lemma ndigits_fuel_bound : forall (k : nat) (f : nat) (n : N),
  n < 10 ^ N.of_nat (S k) -> ndigits_fuel f n <= N.of_nat (S k).
Proof.
  induction k as [|k IH]; intros f n H.
  - destruct f; cbn [ndigits_fuel]; [lia|].
    change (10 ^ N.of_nat 1) with 10 in H.
    assert (n <? 10 = true) as -> by (apply N.ltb_lt; exact H). lia.
  - destruct f; cbn [ndigits_fuel]; [lia|].
    destruct (n <? 10); [lia|].
    assert (n / 10 < 10 ^ N.of_nat (S k)).
    { replace (N.of_nat (S (S k))) with (N.succ (N.of_nat (S k))) in H by lia.
      rewrite N.pow_succ_r' in H. apply N.div_lt_upper_bound; lia. }
    specialize (IH f (n / 10) H0). lia.
Qed.

Theorem reject_never_truncated : forall piece, piece < 2 ^ 64 -> reject_build piece = BuildOk.
Proof.
  intros piece H. unfold reject_build, reject_text_len, reject_buf_len, ndigits.
  assert (B : ndigits_fuel 25 piece <= 20).
  { apply (ndigits_fuel_bound 19). change (N.of_nat 20) with 20.
    eapply N.lt_trans; [exact H|]. vm_compute. reflexivity. }
  change (8 + Params.c20_reject_buf_extra) with 48.
  assert ((48 <? 24 + ndigits_fuel 25 piece) = false) as -> by (apply N.ltb_ge; lia).
  assert ((48 =? 24 + ndigits_fuel 25 piece) = false) as -> by (apply N.eqb_neq; lia).
  reflexivity.
Qed.
Example reject_ok_example : reject_build 3 = BuildOk /\ reject_build (u64 (-1)) = BuildOk.
Proof. vm_compute. split; reflexivity. Qed.

(* non-vacuity examples *)
Example ex_nonmultiple : exists m : list N, size_of m mod piece_size <> 0.
Proof. exists [1]. vm_compute. discriminate. Qed.
Example ex_multiple : exists m : list N, 0 < size_of m /\ size_of m mod piece_size = 0.
Proof. exists wit_a. rewrite wit_a_size. vm_compute. split; reflexivity. Qed.
Example ex_out_of_range : exists (m : list N) p, piece_end (size_of m) <= p.
Proof. exists [1], 1. vm_compute. discriminate. Qed.
