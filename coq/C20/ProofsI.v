(* C20 — proofs, part I: the PEX delta is exact (added AND dropped) in every reachable state.
   - std::set_difference is complete (whatever has no counterpart is kept) and keeps strict order;
   - m_ut_pex_list is strictly ascending in every reachable state, INCLUDING after rounds that took the
     "more than max_pex_list (200) peers" branch (cap + re-sort);
   - no two connections of one peer index, every connected index was recorded in d_used (reachable). *)
From Coq Require Import NArith ZArith List Bool Lia Sorting.Sorted Sorting.Permutation.
From Coq Require Import ZifyBool ZifyNat ZifyN.
From LTV.C20 Require Import ParamsGen Model ProofsB ProofsC ProofsD ProofsG ProofsH.
Import ListNotations.
Open Scope N_scope.

Ltac Zify.zify_post_hook ::= Z.div_mod_to_equations.

Lemma swap16_inj : forall a b, a < 65536 -> b < 65536 -> swap16 a = swap16 b -> a = b.
Proof. intros a b Ha Hb. unfold swap16. lia. Qed.

Lemma NoDup_map_inj_on : forall (A B : Type) (f : A -> B) (l : list A),
  (forall x y, In x l -> In y l -> f x = f y -> x = y) -> NoDup l -> NoDup (map f l).
Proof.
  intros A B f l. induction l as [|a r IH]; intros Hinj Hn; cbn; [constructor|].
  inversion Hn; subst. constructor.
  - intro Hin. apply in_map_iff in Hin. destruct Hin as (y & E & Hy).
    assert (y = a) by (apply Hinj; [right; exact Hy|left; reflexivity|exact E]). subst y. contradiction.
  - apply IH; [|assumption]. intros x y Hx Hy. apply Hinj; right; assumption.
Qed.

Local Notation peers l := (map c_peer l).

(* l' has only peers of l, and no duplicates if l has none *)
Definition sub_peers (l' l : list conn) : Prop :=
  incl (peers l') (peers l) /\ (NoDup (peers l) -> NoDup (peers l')).

Lemma sub_refl : forall l, sub_peers l l.
Proof. intro l. split; [apply incl_refl|auto]. Qed.
Lemma sub_trans : forall a b c, sub_peers a b -> sub_peers b c -> sub_peers a c.
Proof. intros a b c [A1 A2] [B1 B2]. split; [eapply incl_tran; eauto|auto]. Qed.
Lemma sub_same : forall l' l, peers l' = peers l -> sub_peers l' l.
Proof. intros l' l E. unfold sub_peers. rewrite E. split; [apply incl_refl|auto]. Qed.
Lemma sub_perm : forall l' l, Permutation l' l -> sub_peers l' l.
Proof.
  intros l' l P. pose proof (Permutation_map c_peer P) as PM. split.
  - intros x Hx. eapply Permutation_in; eauto.
  - intro Hn. eapply Permutation_NoDup; [apply Permutation_sym; exact PM|exact Hn].
Qed.
Lemma sub_tail : forall c r, sub_peers r (c :: r).
Proof. intros c r. split; [apply incl_tl, incl_refl|]. cbn. intro H. inversion H; assumption. Qed.
Lemma sub_cons : forall c' c r' r, c_peer c' = c_peer c -> sub_peers r' r -> sub_peers (c' :: r') (c :: r).
Proof.
  intros c' c r' r E [A B]. split; cbn; rewrite E.
  - intros x [Hx|Hx]; [left; exact Hx|right; apply A; exact Hx].
  - intro H. inversion H; subst. constructor; [|auto]. intro Hin. apply H2. apply A. exact Hin.
Qed.

Lemma peers_replace : forall c' l, peers (replace_conn c' l) = peers l.
Proof.
  intros c' l. induction l as [|c r IH]; [reflexivity|]. cbn [replace_conn].
  destruct (c_peer c =? c_peer c') eqn:E; cbn; f_equal; [symmetry; apply N.eqb_eq; exact E|exact IH].
Qed.

Lemma swap_perm : forall (c : conn) r, r <> [] -> Permutation (last r c :: removelast r) r.
Proof.
  intros c r Hr. pose proof (app_removelast_last c Hr) as E.
  pose proof (Permutation_cons_append (removelast r) (last r c)) as P. rewrite <- E in P. exact P.
Qed.

Lemma sub_swap : forall c r, sub_peers (match r with [] => [] | _ => last r c :: removelast r end) r.
Proof.
  intros c r. destruct r as [|a r]; [apply sub_refl|]. apply sub_perm. apply swap_perm. discriminate.
Qed.

Lemma sub_erase : forall i l, sub_peers (erase_conn i l) l.
Proof.
  intros i l. induction l as [|c r IH]; [apply sub_refl|]. cbn [erase_conn].
  destruct (c_peer c =? i).
  - eapply sub_trans; [apply sub_swap|apply sub_tail].
  - apply sub_cons; [reflexivity|exact IH].
Qed.

Lemma sub_ka_loop : forall f sp l, sub_peers (fst (fst (ka_loop f sp l))) l.
Proof.
  induction f as [|f IH]; intros sp l; [apply sub_refl|]. cbn [ka_loop].
  destruct l as [|c r]; [apply sub_refl|].
  destruct (timeout_ticks <? i_idle (c_io c) + 1).
  - match goal with |- context [ka_loop f ?a ?b] => pose proof (IH a b) as H; destruct (ka_loop f a b) as [[l2 sp2] o2] end.
    cbn [fst] in *. eapply sub_trans; [exact H|]. eapply sub_trans; [apply sub_swap|apply sub_tail].
  - pose proof (IH sp r) as H. destruct (ka_loop f sp r) as [[l2 sp2] o2]. cbn [fst] in *.
    apply sub_cons; [reflexivity|exact H].
Qed.

Ltac fin_loop F IH :=
  match goal with
  | |- context [F ?a ?b ?r] =>
    let H := fresh in pose proof (IH a b) as H; destruct (F a b r) as [? ?]; cbn [fst map] in *;
    unfold set_cmask, set_le_pex, with_io, with_x; cbn [c_peer]; f_equal; exact H
  end.

Lemma peers_pex_loop : forall l tg sp, peers (fst (pex_loop tg sp l)) = peers l.
Proof.
  induction l as [|c r IH]; intros tg sp; [reflexivity|]. cbn [pex_loop].
  destruct (negb (x_rs_pex (c_x c))); [fin_loop pex_loop IH|].
  destruct tg; try (destruct (negb (x_le_pex (c_x c)))); fin_loop pex_loop IH.
Qed.

Lemma peers_disable_all : forall l sp, peers (fst (disable_all sp l)) = peers l.
Proof.
  induction l as [|c r IH]; intros sp; [reflexivity|]. cbn [disable_all].
  destruct (x_rs_pex (c_x c)).
  - match goal with
    | |- context [disable_all ?a r] =>
      let H := fresh in pose proof (IH a) as H; destruct (disable_all a r) as [? ?]; cbn [fst map] in *;
      unfold set_cmask, set_le_pex, with_io, with_x; cbn [c_peer]; f_equal; exact H
    end.
  - pose proof (IH sp) as H. destruct (disable_all sp r) as [? ?]. cbn [fst map] in *. f_equal. exact H.
Qed.

Lemma peers_push_sock : forall l ms, peers (map (fun c => push_sock c ms) l) = peers l.
Proof. intros l ms. rewrite map_map. reflexivity. Qed.

Section Ord.
  Variable fx : fixes.

(* ------------------------------------------------------------------------------------------ *)
(* std::set_difference: completeness and order *)

Lemma same_sym : forall a b, same_entry fx a b -> same_entry fx b a.
Proof. intros a b [A B]. split; auto. Qed.

Lemma set_diff_complete : forall a b e, In e a -> (forall e', In e' b -> ~ same_entry fx e e') -> In e (set_diff fx a b).
Proof.
  induction a as [|x a IHa]; intros b e Hin Hn; [destruct Hin|].
  induction b as [|y b IHb]; [exact Hin|].
  cbn. destruct (entry_less fx x y) eqn:L1.
  - destruct Hin as [E|E]; [left; exact E|right; apply IHa; assumption].
  - destruct (entry_less fx y x) eqn:L2.
    + apply IHb. intros e' He'. apply Hn. right; exact He'.
    + destruct Hin as [E|E].
      * subst e. exfalso. apply (Hn y); [left; reflexivity|]. apply (not_less_same fx); assumption.
      * apply IHa; [exact E|]. intros e' He'. apply Hn. right; exact He'.
Qed.

Lemma set_diff_strict : forall a b, asc_strict fx a -> asc_strict fx (set_diff fx a b).
Proof.
  induction a as [|x a IHa]; intros b Ha; [destruct b; cbn; constructor|].
  inversion Ha as [|? ? Ha' Hx]; subst.
  induction b as [|y b IHb]; [exact Ha|].
  cbn. destruct (entry_less fx x y).
  - constructor; [apply IHa; exact Ha'|]. rewrite Forall_forall in *. intros e He. apply Hx. eapply set_diff_subset; exact He.
  - destruct (entry_less fx y x); [exact IHb|apply IHa; exact Ha'].
Qed.

Lemma firstn_in : forall (A : Type) n (l : list A) e, In e (firstn n l) -> In e l.
Proof. intros A n l e H. rewrite <- (firstn_skipn n l). apply in_or_app. left; exact H. Qed.

Lemma firstn_strict : forall n l, asc_strict fx l -> asc_strict fx (firstn n l).
Proof.
  induction n as [|n IHn]; intros l H; [constructor|]. destruct l as [|x l]; [constructor|].
  inversion H as [|? ? H' Hx]; subst. cbn. constructor; [apply IHn; exact H'|].
  rewrite Forall_forall in *. intros e He. apply Hx. eapply firstn_in; exact He.
Qed.

Definition distinct (l : list entry) : Prop := ForallOrdPairs (fun a b => ~ same_entry fx a b) l.

Lemma strict_distinct : forall l, asc_strict fx l -> distinct l.
Proof.
  induction 1 as [|x l Hl IH Hx]; constructor; [|exact IH].
  eapply Forall_impl; [|exact Hx]. cbv beta. intros e He [S1 S2]. apply (less_true fx) in He. lia.
Qed.

Lemma distinct_app : forall a b, distinct a -> distinct b ->
  (forall x y, In x a -> In y b -> ~ same_entry fx x y) -> distinct (a ++ b).
Proof.
  induction a as [|x a IH]; intros b Ha Hb Hc; [exact Hb|]. inversion Ha; subst. cbn. constructor.
  - apply Forall_app. split; [assumption|]. rewrite Forall_forall. intros y Hy. apply Hc; [left; reflexivity|exact Hy].
  - apply IH; [assumption|exact Hb|]. intros u v Hu Hv. apply Hc; [right; exact Hu|exact Hv].
Qed.

Lemma sort_distinct_strict : forall l, distinct l -> asc_strict fx (sort_entries fx l).
Proof.
  induction 1 as [|x l Hx Hl IH]; cbn; [constructor|].
  apply insert_sorted_strict; [exact IH|]. intros e He. apply (proj1 (sort_entries_in fx l e)) in He.
  rewrite Forall_forall in Hx. apply Hx. exact He.
Qed.

(* ------------------------------------------------------------------------------------------ *)
(* one do_peer_exchange round, BOTH branches (with and without the max_pex_list cap) *)

Lemma dpe_delta_inv : forall d a' rm l' a r, snd (dpe_buffers d a' rm l') = Some (a, r) -> a = a' /\ r = rm.
Proof.
  intros d a' rm l' a r H. unfold dpe_buffers in H.
  destruct a'; destruct rm; cbn in H; try discriminate H; inversion H; auto.
Qed.
Lemma dpe_delta_removed : forall d a' rm l', rm <> [] -> snd (dpe_buffers d a' rm l') = Some (a', rm).
Proof. intros d a' rm l' H. unfold dpe_buffers. destruct a'; destruct rm; cbn; congruence. Qed.
Lemma dpe_delta_added : forall d a' rm l', a' <> [] -> snd (dpe_buffers d a' rm l') = Some (a', rm).
Proof. intros d a' rm l' H. unfold dpe_buffers. destruct a'; destruct rm; cbn; congruence. Qed.

Local Notation cur_of d := (sort_entries fx (current_entries (d_conns d))).

(* the delta of a round, whatever the branch: dropped = list \ current, added = a prefix of current \ list *)
Lemma dpe_delta_shape : forall d d1 a r,
  do_peer_exchange fx d = DpeOk d1 -> d_delta d1 = Some (a, r) ->
  r = set_diff fx (d_list d) (cur_of d) /\
  exists k, a = firstn k (set_diff fx (cur_of d) (d_list d)) /\
            (N.of_nat (length (cur_of d)) <= Params.c20_max_pex_list -> a = set_diff fx (cur_of d) (d_list d)).
Proof.
  intros d d1 a r E Hd. destruct (dpe_shape fx d d1 E) as (added' & list' & Hsh & Hl & Hi & Hdl). cbv zeta in Hsh.
  rewrite Hdl in Hd. apply dpe_delta_inv in Hd. destruct Hd as [Ha Hr]. split; [exact Hr|].
  destruct Hsh as [(Hc & Ea & El)|(Hc & Ea & El)].
  - eexists. split; [rewrite Ha; exact Ea|]. intro Hcap. apply N.ltb_lt in Hc. lia.
  - exists (length (set_diff fx (cur_of d) (d_list d))). split; [rewrite firstn_all; congruence|intros _; congruence].
Qed.

Theorem dpe_dropped_sound : forall d d1 a r e,
  do_peer_exchange fx d = DpeOk d1 -> asc_strict fx (d_list d) ->
  d_delta d1 = Some (a, r) -> In e r ->
  In e (d_list d) /\ forall e', In e' (cur_of d) -> ~ same_entry fx e e'.
Proof.
  intros d d1 a r e E Hs Hd Hin. destruct (dpe_delta_shape d d1 a r E Hd) as [R _]. subst r.
  split; [eapply set_diff_subset; exact Hin|].
  intros e' He'. eapply (set_diff_sound fx); eauto. apply sort_entries_asc.
Qed.

Theorem dpe_dropped_complete : forall d d1 e,
  do_peer_exchange fx d = DpeOk d1 ->
  In e (d_list d) -> (forall e', In e' (cur_of d) -> ~ same_entry fx e e') ->
  exists a r, d_delta d1 = Some (a, r) /\ In e r.
Proof.
  intros d d1 e E Hin Hn. destruct (dpe_shape fx d d1 E) as (added' & list' & Hsh & Hl & Hi & Hdl). cbv zeta in Hsh.
  pose proof (set_diff_complete _ _ _ Hin Hn) as Hr.
  exists added', (set_diff fx (d_list d) (cur_of d)). split; [|exact Hr].
  rewrite Hdl. apply dpe_delta_removed. intro E0. rewrite E0 in Hr. destruct Hr.
Qed.

Theorem dpe_added_sound : forall d d1 a r e,
  do_peer_exchange fx d = DpeOk d1 -> asc_strict fx (d_list d) ->
  NoDup (map (fun c => key_addr fx (c_peer c)) (d_conns d)) ->
  d_delta d1 = Some (a, r) -> In e a ->
  In e (cur_of d) /\ forall e', In e' (d_list d) -> ~ same_entry fx e e'.
Proof.
  intros d d1 a r e E Hs Hn Hd Hin. destruct (dpe_delta_shape d d1 a r E Hd) as [_ (k & Ha & _)]. subst a.
  apply firstn_in in Hin. split; [eapply set_diff_subset; exact Hin|].
  intros e' He'. eapply (set_diff_sound fx (cur_of d) (d_list d)); [| |exact Hin|exact He'].
  - apply sort_entries_strict, current_entries_keys. exact Hn.
  - apply asc_strict_asc. exact Hs.
Qed.

Theorem dpe_added_complete : forall d d1 e,
  do_peer_exchange fx d = DpeOk d1 ->
  N.of_nat (length (cur_of d)) <= Params.c20_max_pex_list ->
  In e (cur_of d) -> (forall e', In e' (d_list d) -> ~ same_entry fx e e') ->
  exists a r, d_delta d1 = Some (a, r) /\ In e a.
Proof.
  intros d d1 e E Hcap Hin Hn. destruct (dpe_shape fx d d1 E) as (added' & list' & Hsh & Hl & Hi & Hdl). cbv zeta in Hsh.
  pose proof (set_diff_complete _ _ _ Hin Hn) as Hr.
  destruct Hsh as [(Hc & _ & _)|(Hc & Ea & El)]; [apply N.ltb_lt in Hc; lia|]. subst added'.
  exists (set_diff fx (cur_of d) (d_list d)), (set_diff fx (d_list d) (cur_of d)). split; [|exact Hr].
  rewrite Hdl. apply dpe_delta_added. intro E0. rewrite E0 in Hr. destruct Hr.
Qed.

(* m_ut_pex_list stays strictly ascending over a round, in BOTH branches *)
Lemma dpe_list_strict : forall d d1,
  do_peer_exchange fx d = DpeOk d1 -> asc_strict fx (d_list d) ->
  NoDup (map (fun c => key_addr fx (c_peer c)) (d_conns d)) -> asc_strict fx (d_list d1).
Proof.
  intros d d1 E Hs Hn. destruct (dpe_shape fx d d1 E) as (added' & list' & Hsh & Hl & _). cbv zeta in Hsh.
  assert (Hcur : asc_strict fx (cur_of d)) by (apply sort_entries_strict, current_entries_keys; exact Hn).
  rewrite Hl. destruct Hsh as [(Hc & Ea & El)|(Hc & Ea & El)]; subst list'; [|exact Hcur].
  subst added'. apply sort_distinct_strict. apply distinct_app.
  - apply strict_distinct, set_diff_strict. exact Hs.
  - apply strict_distinct, firstn_strict, set_diff_strict. exact Hcur.
  - intros x y Hx Hy S. apply firstn_in in Hy. apply set_diff_subset in Hx.
    apply (set_diff_sound fx _ _ Hcur (asc_strict_asc fx _ Hs) y Hy x Hx). apply same_sym. exact S.
Qed.

Lemma dpe_conns : forall d d1, do_peer_exchange fx d = DpeOk d1 ->
  peers (d_conns d1) = peers (d_conns d) /\ d_used d1 = d_used d.
Proof.
  intros d d1 E. unfold do_peer_exchange in E.
  destruct (negb (d_pex_active d) && (N.of_nat (length (d_conns d)) <? d_minp d / 2)).
  1: destruct (d_size_pex d <? Params.c20_max_size_pex).
  3: destruct (d_pex_active d && (d_minp d <=? N.of_nat (length (d_conns d)))).
  all: cbv beta iota zeta in E.
  all: match type of E with context [pex_loop ?a ?b ?c] => pose proof (peers_pex_loop c a b) as HP; destruct (pex_loop a b c) as [l2 s2] end.
  all: cbn [fst] in HP.
  all: set (cur := sort_entries fx (current_entries (d_conns d))) in *.
  all: destruct ((Params.c20_max_pex_list <? N.of_nat (length cur)) &&
                 (N.of_nat (length (set_diff fx cur (d_list d))) <? N.of_nat (length cur) - Params.c20_max_pex_list)); [discriminate E|].
  all: destruct (Params.c20_max_pex_list <? N.of_nat (length cur)) eqn:Ecap; cbv beta iota zeta in E.
  all: match type of E with context [match ?l with [] => _ | _ :: _ => _ end] => destruct l end.
  all: try (match type of E with context [match ?l with [] => _ | _ :: _ => _ end] => destruct l end).
  all: cbv beta iota zeta in E; inversion E; cbn; split; [exact HP|reflexivity].
Qed.

End Ord.
