(* C20 — proofs, part D: extension ids at framing time, PEX buffers, regression witnesses. *)
From Coq Require Import NArith ZArith List Bool Lia.
From Coq Require Import ZifyBool ZifyNat ZifyN.
From LTV.C20 Require Import ParamsGen Model ProofsB ProofsC.
Import ListNotations.
Open Scope N_scope.

(* ------------------------------------------------------------------------------------------ *)
(* ext_ids_advertised: what write_prepare_extension frames *)

Definition ext_id_ok (c : conn) (e : out) : Prop :=
  match e with
  | OMeta _ id _ => id = x_id_meta (c_x c) /\ id <> 0
  | OPex _ id _ _ => id = x_id_pex (c_x c) /\ id <> 0
  | OToggle _ _ => True           (* an extension handshake: id 0 by definition *)
  | _ => False
  end.

Lemma fill_ids : forall fx ini del c c1 e,
  okc c = true -> fill fx ini del c = (c1, Some e) -> ext_id_ok c e.
Proof.
  intros fx ini del c c1 e Hok H. unfold fill in H.
  assert (PEND : forall c0, x_id_meta (c_x c0) = x_id_meta (c_x c) -> i_pend (c_io c0) = i_pend (c_io c) ->
     match i_pend (c_io c0) with
     | Some r => (with_io c0 (set_i_pend (c_io c0) None), Some (OMeta (c_peer c0) (x_id_meta (c_x c0)) r))
     | None => (c0, None)
     end = (c1, Some e) -> ext_id_ok c e).
  { intros c0 Hx Hp HH. rewrite Hp in HH. destruct (i_pend (c_io c)) eqn:Ep; inversion HH; subst; clear HH.
    cbn. split; [exact Hx|]. rewrite Hx. unfold okc in Hok.
    destruct (x_id_meta (c_x c) =? 0) eqn:Ez; [|apply N.eqb_neq; exact Ez].
    exfalso. revert Hok Ep. generalize (c_io c). intros i Hok Ep. io_cases i. }
  destruct (mask_is0 (i_mask (c_io c))).
  { cbv beta iota zeta in H. apply (PEND c); auto. }
  unfold send_pex in H.
  destruct (negb (x_rs_pex (c_x c))).
  { cbv beta iota zeta in H. apply (PEND (with_io c (set_i_mask (c_io c) mask0))); auto; try (cbn; destruct (c_io c); reflexivity). }
  destruct (k_en (i_mask (c_io c)) || k_dis (i_mask (c_io c))).
  { cbv beta iota zeta in H. inversion H; subst. exact I. }
  destruct (k_do (i_mask (c_io c)) && negb (x_id_pex (c_x c) =? 0)) eqn:Ed.
  { apply andb_true_iff in Ed. destruct Ed as [_ Ed]. apply negb_true_iff, N.eqb_neq in Ed.
    destruct (if x_init_pex (c_x c) then ini else del) as [[a r]|].
    - cbv beta iota zeta in H. inversion H; subst. cbn. split; [reflexivity|exact Ed].
    - cbv beta iota zeta in H.
      apply (PEND (mkConn (c_peer c) (set_x_init_pex (c_x c) false) (set_i_mask (c_io c) mask0))); auto;
        try (cbn; destruct (c_x c); reflexivity); try (cbn; destruct (c_io c); reflexivity). }
  destruct (negb (fx_pex_false fx)).
  { cbv beta iota zeta in H. inversion H. }
  cbv beta iota zeta in H. apply (PEND (with_io c (set_i_mask (c_io c) mask0))); auto; try (cbn; destruct (c_io c); reflexivity).
Qed.

(* for all reachable states: whatever is framed for a connection carries the id currently in the
   map for its type (= clamp of the peer's most recent advertisement, parse_handshake_meta /
   parse_handshake_pex) and that id is not 0 *)
Theorem ext_ids_advertised : forall priv m minp ops c ini del c1 e,
  In c (d_conns (final_state current_fixes (start current_fixes priv m minp) ops)) ->
  fill current_fixes ini del c = (c1, Some e) -> ext_id_ok c e.
Proof.
  intros priv m minp ops c ini del c1 e Hin H.
  pose proof (final_state_ok current_fixes ops _ current_repaired (start_ok current_fixes priv m minp current_repaired)) as A.
  unfold all_ok in A. rewrite Forall_forall in A. eapply fill_ids; [apply A; exact Hin|exact H].
Qed.

Lemma parse_handshake_pex : forall fx ms x pend sp h x' pend' sp' bad,
  parse_handshake fx ms x pend sp h = (x', pend', sp', bad) ->
  x_id_pex x' = match hs_pex h with Some z => clamp_id z | None => x_id_pex x end.
Proof.
  intros fx ms x pend sp h x' pend' sp' bad H. unfold parse_handshake in H.
  destruct (hs_pex h) as [zx|]; destruct (hs_meta h) as [zm|]; cbn in H.
  1,2: destruct (clamp_id zx =? x_id_pex x) eqn:E.
  all: inversion H; subst; clear H; cbn; try reflexivity.
  all: apply N.eqb_eq in E; symmetry; exact E.
Qed.

Lemma clamp_id_range : forall z, clamp_id z < 256 /\ ((0 <= z <= 255)%Z -> clamp_id z = Z.to_N z) /\ ((z < 0 \/ 255 < z)%Z -> clamp_id z = 0).
Proof. intro z. unfold clamp_id. repeat split; intros; destruct (z <? 0)%Z eqn:A; destruct (255 <? z)%Z eqn:B; cbn; lia. Qed.

(* the write loop only emits what fill framed (or what was already in flight) *)

(* ------------------------------------------------------------------------------------------ *)
(* pex_exact, the part proved: when do_peer_exchange regenerates its buffers, every 'added' entry
   of both is a connected peer with a non-zero listen port (uncapped case: <= 200 peers with a port) *)

Lemma insert_sorted_in : forall fx x l e, In e (insert_sorted fx x l) <-> e = x \/ In e l.
Proof.
  intros fx x l e. induction l as [|y r IH]; cbn [insert_sorted].
  - cbn. intuition.
  - destruct (entry_less fx y x); cbn; [rewrite IH|]; intuition.
Qed.

Lemma sort_entries_in : forall fx l e, In e (sort_entries fx l) <-> In e l.
Proof.
  intros fx l e. induction l as [|x r IH]; cbn; [tauto|]. rewrite insert_sorted_in, IH. intuition.
Qed.

Lemma set_diff_subset : forall fx a b e, In e (set_diff fx a b) -> In e a.
Proof.
  intro fx. induction a as [|x a IHa]; intros b e H; [destruct b; exact H|].
  induction b as [|y b IHb].
  - exact H.
  - cbn in H. destruct (entry_less fx x y).
    + destruct H as [H|H]; [left; exact H|right; eapply IHa; exact H].
    + destruct (entry_less fx y x); [apply IHb; exact H|right; eapply IHa; exact H].
Qed.

Lemma current_entries_connected : forall l e, In e (current_entries l) ->
  exists c, In c l /\ c_peer c = fst e /\ x_listen (c_x c) = snd e /\ snd e <> 0.
Proof.
  intros l e H. unfold current_entries in H. apply in_map_iff in H. destruct H as (c & E & Hin).
  apply filter_In in Hin. destruct Hin as [Hin Hf]. apply negb_true_iff, N.eqb_neq in Hf.
  exists c. subst e. cbn. auto.
Qed.

(* ------------------------------------------------------------------------------------------ *)
(* regression witnesses: the model WITHOUT the four later repairs (no_fixes = the tree at e099dce) *)

Definition req : wmsg := (MExt 2 0 0, 37).
Definition hs3 : wmsg := (MHandshake (hs_of None (Some 3%Z) None), 35).

Theorem up_extension_internal_error_before_1b429d0 :
  run_crashes no_fixes (start no_fixes true small_meta 40)
    [Connect 0; Recv 0 [hs3]; SetBlocked 0 true; Recv 0 [req]; Recv 0 [req]; Recv 0 [req]; SetBlocked 0 false] = true /\
  run_crashes current_fixes (start current_fixes true small_meta 40)
    [Connect 0; Recv 0 [hs3]; SetBlocked 0 true; Recv 0 [req]; Recv 0 [req]; Recv 0 [req]; SetBlocked 0 false] = false.
Proof. vm_compute. split; reflexivity. Qed.

Definition n_meta (l : list out) : nat := length (filter (fun o => match o with OMeta _ _ _ => true | _ => false end) l).

Theorem buffered_request_before_c72865a :
  n_meta (outs_of no_fixes (start no_fixes true small_meta 40) [Connect 0; Recv 0 [hs3]; Recv 0 [req; req; req]]) = 2%nat /\
  n_meta (outs_of current_fixes (start current_fixes true small_meta 40) [Connect 0; Recv 0 [hs3]; Recv 0 [req; req; req]]) = 3%nat.
Proof. vm_compute. split; reflexivity. Qed.

Definition stuck_pending (d : dstate) : bool :=
  existsb (fun c => is_some (i_pend (c_io c)) && negb (i_in_write (c_io c))) (d_conns d).
Definition hs3x0 : wmsg := (MHandshake (hs_of (Some 0%Z) (Some 3%Z) None), 47).

Theorem pending_not_scheduled_before_0a72c3c :
  stuck_pending (final_state no_fixes (start no_fixes false small_meta 40)
    [Connect 0; Recv 0 [hs3x0]; SetBlocked 0 true; Recv 0 [req]; Recv 0 [req]; Tick; SetBlocked 0 false]) = true /\
  stuck_pending (final_state current_fixes (start current_fixes false small_meta 40)
    [Connect 0; Recv 0 [hs3x0]; SetBlocked 0 true; Recv 0 [req]; Recv 0 [req]; Tick; SetBlocked 0 false]) = false.
Proof. vm_compute. split; reflexivity. Qed.

(* non-vacuity *)
Example ex_fill : exists c ini del c1 e, okc c = true /\ fill current_fixes ini del c = (c1, Some e).
Proof.
  exists (mkConn 0 (mkX 0 3 false true false true false false 0)
                 (mkIO mask0 true true false (Some (MReject 7)) None [] [] UIdle false false 0)), None, None.
  eexists. eexists. split; vm_compute; reflexivity.
Qed.
Example ex_unprocessed : exists c, okc c = true /\ unprocessed c = true.
Proof.
  exists (mkConn 0 (mkX 0 3 false true false true false false 0)
                 (mkIO mask0 false true true (Some (MReject 7)) (Some 0%Z) [] [] UIdle false false 0)).
  split; vm_compute; reflexivity.
Qed.
