(* C20 — proofs, part C: the reads_resume invariant at download level (all ops). *)
From Coq Require Import NArith ZArith List Bool Lia.
From Coq Require Import ZifyBool ZifyNat ZifyN.
From LTV.C20 Require Import ParamsGen Model ProofsB.
Import ListNotations.
Open Scope N_scope.

(* ------------------------------------------------------------------------------------------ *)
(* download level: every connection satisfies the invariant in every reachable state          *)

Definition all_ok (d : dstate) : Prop := Forall (fun c => okc c = true) (d_conns d).
Definition repaired (fx : fixes) : Prop :=
  fx_up_nothrow fx = true /\ fx_pex_false fx = true /\ fx_drain fx = true.

Section ForallLemmas.
  Variable P : conn -> Prop.

  Lemma Forall_last : forall r c, P c -> Forall P r -> P (last r c).
  Proof.
    induction r as [|a r IH]; intros c Hc Hr; cbn [last]; [exact Hc|].
    inversion Hr; subst. destruct r; [assumption|]. apply IH; assumption.
  Qed.

  Lemma Forall_removelast : forall r, Forall P r -> Forall P (removelast r).
  Proof.
    induction r as [|a r IH]; intro Hr; cbn [removelast]; [constructor|].
    inversion Hr; subst. destruct r; [constructor|]. constructor; [assumption|]. apply IH; assumption.
  Qed.

  Lemma Forall_swap_erase : forall c r, P c -> Forall P r ->
    Forall P (match r with [] => [] | _ => last r c :: removelast r end).
  Proof.
    intros c r Hc Hr. destruct r as [|a r]; [constructor|].
    constructor; [apply Forall_last; assumption|apply Forall_removelast; assumption].
  Qed.

  Lemma Forall_erase : forall i l, Forall P l -> Forall P (erase_conn i l).
  Proof.
    intros i l. induction l as [|c r IH]; intro H; cbn [erase_conn]; [constructor|].
    inversion H; subst. destruct (c_peer c =? i).
    - apply Forall_swap_erase; assumption.
    - constructor; [assumption|apply IH; assumption].
  Qed.

  Lemma Forall_replace : forall c' l, P c' -> Forall P l -> Forall P (replace_conn c' l).
  Proof.
    intros c' l Hc. induction l as [|c r IH]; intro H; cbn [replace_conn]; [constructor|].
    inversion H; subst. destruct (c_peer c =? c_peer c'); constructor; auto.
  Qed.

  Lemma find_conn_P : forall i l c, Forall P l -> find_conn i l = Some c -> P c.
  Proof.
    intros i l. induction l as [|a r IH]; intros c H E; cbn [find_conn] in E; [discriminate E|].
    inversion H; subst. destruct (c_peer a =? i); [inversion E; subst; assumption|apply IH; assumption].
  Qed.
End ForallLemmas.

Lemma all_ok_set_conns : forall d l sp, Forall (fun c => okc c = true) l -> all_ok (set_conns d l sp).
Proof. intros. exact H. Qed.

Lemma write_event_ok : forall fx meta ini del c sp c' sp' o,
  fx_up_nothrow fx = true -> fx_pex_false fx = true -> fx_drain fx = true ->
  okc c = true -> i_in_write (c_io c) = true ->
  write_event fx meta ini del c sp = COk c' sp' o -> okc c' = true.
Proof. intros until o. unfold write_event. apply write_loop_ok. Qed.

Lemma settle_S : forall f fx d i acc,
  settle (S f) fx d i acc =
    match find_conn i (d_conns d) with
    | None => SOk d acc
    | Some c =>
      let io := c_io c in
      let after (r : cres) : step_result :=
        match r with
        | COk c' sp o => settle f fx (set_conns d (replace_conn c' (d_conns d)) sp) i (acc ++ o)
        | CClosed c' sp o =>
          SOk (set_conns d (erase_conn i (d_conns d)) (dec_if (x_le_pex (c_x c')) sp)) (acc ++ o ++ [OClosed i])
        | CInternal => SInternalError
        | CUnmodelled => SUnmodelled
        end in
      if i_in_read io && negb (is_nil (i_sock io)) then after (read_event fx (d_meta d) c (d_size_pex d))
      else if i_in_write io && negb (is_umsg (i_up io) && i_wblocked io) then
        after (write_event fx (d_meta d) (d_initial d) (d_delta d) c (d_size_pex d))
      else SOk d acc
    end.
Proof. reflexivity. Qed.

Opaque write_event read_event.

Lemma settle_ok : forall f fx d i acc d' o,
  repaired fx -> all_ok d -> settle f fx d i acc = SOk d' o -> all_ok d'.
Proof.
  induction f as [|f IH]; intros fx d i acc d' o R Hd H; [discriminate H|].
  destruct R as (F1 & F2 & F3). rewrite settle_S in H. cbv zeta in H.
  destruct (find_conn i (d_conns d)) as [c|] eqn:Ef; [|inversion H; subst; exact Hd].
  pose proof (find_conn_P _ _ _ _ Hd Ef) as Hc. cbv beta in Hc.
  destruct (i_in_read (c_io c) && negb (is_nil (i_sock (c_io c)))) eqn:Er.
  - apply andb_true_iff in Er. destruct Er as [Er _].
    destruct (read_event fx (d_meta d) c (d_size_pex d)) as [c1 sp1 o1|c1 sp1 o1| |] eqn:Ee; try discriminate H.
    + eapply IH; [repeat split; eassumption| |exact H].
      apply all_ok_set_conns. apply Forall_replace; [|exact Hd]. eapply read_event_ok; eauto.
    + inversion H; subst. apply all_ok_set_conns. apply Forall_erase. exact Hd.
  - destruct (i_in_write (c_io c) && negb (is_umsg (i_up (c_io c)) && i_wblocked (c_io c))) eqn:Ew.
    + apply andb_true_iff in Ew. destruct Ew as [Ew _].
      destruct (write_event fx (d_meta d) (d_initial d) (d_delta d) c (d_size_pex d)) as [c1 sp1 o1|c1 sp1 o1| |] eqn:Ee; try discriminate H.
      * eapply IH; [repeat split; eassumption| |exact H].
        apply all_ok_set_conns. apply Forall_replace; [|exact Hd]. eapply write_event_ok; eauto.
      * inversion H; subst. apply all_ok_set_conns. apply Forall_erase. exact Hd.
    + inversion H; subst. exact Hd.
Qed.

Lemma settle_all_cons : forall fx d i r acc,
  settle_all fx d (i :: r) acc =
    match settle settle_fuel fx d i [] with
    | SOk d' o => settle_all fx d' r (acc ++ o)
    | e => e
    end.
Proof. reflexivity. Qed.

Lemma settle_all_ok : forall fx ids d acc d' o,
  repaired fx -> all_ok d -> settle_all fx d ids acc = SOk d' o -> all_ok d'.
Proof.
  intros fx ids. induction ids as [|i r IH]; intros d acc d' o R Hd H.
  - cbn [settle_all] in H. inversion H; subst. exact Hd.
  - rewrite settle_all_cons in H. destruct (settle settle_fuel fx d i []) as [d1 o1| |] eqn:E; try discriminate H.
    eapply IH; [exact R| |exact H]. eapply settle_ok; [exact R|exact Hd|exact E].
Qed.

(* the tick's own updates do not touch what the invariant talks about, except that a keep-alive
   puts the connection into the write set *)
Lemma okc_push_sock : forall c ms, okc (push_sock c ms) = okc c.
Proof. intros. unfold okc, push_sock. cbn. destruct (c_io c); reflexivity. Qed.

Lemma okc_set_cmask_le : forall c b k, okc (set_cmask (set_le_pex c b) k) = okc c.
Proof. intros. unfold okc, set_cmask, set_le_pex. cbn. destruct (c_x c); destruct (c_io c); reflexivity. Qed.
Lemma okc_set_cmask : forall c k, okc (set_cmask c k) = okc c.
Proof. intros. unfold okc, set_cmask. cbn. destruct (c_io c); reflexivity. Qed.

Lemma okc_keepalive : forall c, okc c = true -> okc (keepalive_conn c) = true.
Proof.
  intros c H. unfold okc, keepalive_conn in *. cbn. destruct (x_id_meta (c_x c) =? 0); generalize dependent (c_io c); intros i H; io_cases i.
Qed.

Lemma pex_loop_ok : forall l tg sp l' sp',
  Forall (fun c => okc c = true) l -> pex_loop tg sp l = (l', sp') -> Forall (fun c => okc c = true) l'.
Proof.
  induction l as [|c r IH]; intros tg sp l' sp' H E; cbn [pex_loop] in E.
  - inversion E; subst. constructor.
  - inversion H; subst.
    destruct (negb (x_rs_pex (c_x c))).
    { destruct (pex_loop tg sp r) as [l2 s2] eqn:E2. inversion E; subst. constructor; [assumption|eapply IH; eauto]. }
    destruct tg.
    + destruct (negb (x_le_pex (c_x c))).
      * destruct (pex_loop TNone sp r) as [l2 s2] eqn:E2. inversion E; subst. constructor; [assumption|eapply IH; eauto].
      * destruct (pex_loop TNone sp r) as [l2 s2] eqn:E2. inversion E; subst.
        constructor; [rewrite okc_set_cmask; assumption|eapply IH; eauto].
    + match type of E with context [pex_loop ?a ?b r] => destruct (pex_loop a b r) as [l2 s2] eqn:E2 end.
      inversion E; subst. constructor; [rewrite okc_set_cmask_le; assumption|eapply IH; eauto].
    + destruct (negb (x_le_pex (c_x c))).
      * destruct (pex_loop TDisable sp r) as [l2 s2] eqn:E2. inversion E; subst. constructor; [assumption|eapply IH; eauto].
      * destruct (pex_loop TDisable (sp - 1) r) as [l2 s2] eqn:E2. inversion E; subst.
        constructor; [rewrite okc_set_cmask_le; assumption|eapply IH; eauto].
Qed.

Lemma disable_all_ok : forall l sp l' sp',
  Forall (fun c => okc c = true) l -> disable_all sp l = (l', sp') -> Forall (fun c => okc c = true) l'.
Proof.
  induction l as [|c r IH]; intros sp l' sp' H E; cbn [disable_all] in E.
  - inversion E; subst. constructor.
  - inversion H; subst. destruct (x_rs_pex (c_x c)).
    + destruct (disable_all (dec_if (x_le_pex (c_x c)) sp) r) as [l2 s2] eqn:E2. inversion E; subst.
      constructor; [rewrite okc_set_cmask_le; assumption|eapply IH; eauto].
    + destruct (disable_all sp r) as [l2 s2] eqn:E2. inversion E; subst. constructor; [assumption|eapply IH; eauto].
Qed.

Lemma ka_loop_ok : forall f sp l l' sp' o,
  Forall (fun c => okc c = true) l -> ka_loop f sp l = (l', sp', o) -> Forall (fun c => okc c = true) l'.
Proof.
  induction f as [|f IH]; intros sp l l' sp' o H E; cbn [ka_loop] in E.
  - inversion E; subst. exact H.
  - destruct l as [|c r]; [inversion E; subst; constructor|]. inversion H; subst.
    destruct (timeout_ticks <? i_idle (c_io c) + 1).
    + match type of E with context [ka_loop f ?a ?b] => destruct (ka_loop f a b) as [[l2 s2] o2] eqn:E2 end.
      inversion E; subst. eapply IH; [|exact E2]. apply Forall_swap_erase; assumption.
    + destruct (ka_loop f sp r) as [[l2 s2] o2] eqn:E2. inversion E; subst.
      constructor; [apply okc_keepalive; assumption|eapply IH; eauto].
Qed.

Lemma do_peer_exchange_ok : forall fx d d1, all_ok d -> do_peer_exchange fx d = DpeOk d1 -> all_ok d1.
Proof.
  intros fx d d1 H E. unfold do_peer_exchange in E.
  destruct (negb (d_pex_active d) && (N.of_nat (length (d_conns d)) <? d_minp d / 2)).
  1: destruct (d_size_pex d <? Params.c20_max_size_pex).
  3: destruct (d_pex_active d && (d_minp d <=? N.of_nat (length (d_conns d)))).
  all: cbv beta iota zeta in E.
  all: match type of E with context [pex_loop ?a ?b ?c] => destruct (pex_loop a b c) as [l2 s2] eqn:E2 end.
  all: assert (A : Forall (fun c => okc c = true) l2) by (eapply pex_loop_ok; [exact H|exact E2]).
  all: do 2 (match type of E with context [if ?b then _ else _] => destruct b | _ => idtac end); try discriminate E.
  all: cbv beta iota zeta in E.
  all: do 3 (match type of E with context [match ?l with [] => _ | _ :: _ => _ end] => destruct l | _ => idtac end).
  all: cbv beta iota zeta in E; inversion E; subst; exact A.
Qed.

Lemma Forall_push_all : forall l ms, Forall (fun c => okc c = true) l ->
  Forall (fun c => okc c = true) (map (fun c => push_sock c ms) l).
Proof.
  induction l as [|c r IH]; intros ms H; cbn [map]; [constructor|].
  inversion H; subst. constructor; [rewrite okc_push_sock; assumption|apply IH; assumption].
Qed.

Lemma tick_ok : forall fx d d' o, repaired fx -> all_ok d -> tick fx d = SOk d' o -> all_ok d'.
Proof.
  intros fx d d' o R H E. unfold tick in E.
  match type of E with context [settle_all fx ?a ?b ?c] => destruct (settle_all fx a b c) as [d0 o0| |] eqn:E0 end; try discriminate E.
  assert (H0 : all_ok d0).
  { eapply settle_all_ok; [exact R| |exact E0]. apply all_ok_set_conns. apply Forall_push_all. exact H. }
  match type of E with context [match ?r with DpeOk _ => _ | DpeInternalError => _ end] => destruct r as [d1|] eqn:E1 end; [|discriminate E].
  assert (H1 : all_ok d1).
  { destruct (d_pexen d0); [eapply do_peer_exchange_ok; eauto|].
    destruct (d_pex_active d0); [|inversion E1; subst; exact H0].
    destruct (disable_all (d_size_pex d0) (d_conns d0)) as [l sp] eqn:Ed. inversion E1; subst.
    unfold all_ok. cbn. eapply disable_all_ok; eauto. }
  destruct (ka_loop (length (d_conns d1)) (d_size_pex d1) (d_conns d1)) as [[l2 sp2] o2] eqn:E2.
  eapply settle_all_ok; [exact R| |exact E]. apply all_ok_set_conns. eapply ka_loop_ok; [exact H1|exact E2].
Qed.

Lemma step_ok : forall fx d op d' o, repaired fx -> all_ok d -> step fx d op = SOk d' o -> all_ok d'.
Proof.
  intros fx d op d' o R H E. destruct op as [i|i ms| |i|i b|b]; cbn [step] in E.
  - destruct (existsb (N.eqb i) (d_used d)); inversion E; subst; [exact H|].
    unfold all_ok. cbn. apply Forall_app. split; [exact H|]. constructor; [|constructor].
    destruct (d_pexen d && d_pex_active d && (d_size_pex d <? Params.c20_max_size_pex)); vm_compute; reflexivity.
  - destruct (find_conn i (d_conns d)) as [c|] eqn:Ef; [|inversion E; subst; exact H].
    eapply settle_ok; [exact R| |exact E]. apply all_ok_set_conns. apply Forall_replace; [|exact H].
    rewrite okc_push_sock. eapply (find_conn_P (fun c => okc c = true)); eauto.
  - eapply tick_ok; eauto.
  - destruct (find_conn i (d_conns d)) as [c|]; [|inversion E; subst; exact H].
    match type of E with context [if ?b then _ else _] => destruct b end; [|discriminate E].
    inversion E; subst. apply all_ok_set_conns. apply Forall_erase. exact H.
  - destruct (find_conn i (d_conns d)) as [c|] eqn:Ef; [|inversion E; subst; exact H].
    eapply settle_ok; [exact R| |exact E]. apply all_ok_set_conns. apply Forall_replace; [|exact H].
    pose proof (find_conn_P (fun c => okc c = true) _ _ _ H Ef) as Hc. cbv beta in Hc.
    unfold okc in *. cbn. destruct (c_io c); exact Hc.
  - inversion E; subst. exact H.
Qed.

Lemma final_state_ok : forall fx ops d, repaired fx -> all_ok d -> all_ok (final_state fx d ops).
Proof.
  intros fx ops. induction ops as [|o r IH]; intros d R H; cbn [final_state]; [exact H|].
  destruct (step fx d o) as [d' outs| |] eqn:E; try exact H. apply IH; [exact R|]. eapply step_ok; eauto.
Qed.

Lemma start_ok : forall fx priv m minp, repaired fx -> all_ok (start fx priv m minp).
Proof.
  intros fx priv m minp R. unfold start.
  destruct (tick fx (init priv m minp)) as [d o| |] eqn:E; try (constructor).
  eapply tick_ok; [exact R| |exact E]. constructor.
Qed.

Lemma current_repaired : repaired current_fixes.
Proof. repeat split. Qed.

(* THE reads_resume THEOREM, for the code as it is (current_fixes): in every reachable state of
   every connection, a complete message that is not processed (waiting in m_read, or buffered
   behind it, or the connection is out of the read set) implies that a reply is pending or in
   flight and the connection is in the write set; and no internal_error is raised by the events. *)
Definition unprocessed (c : conn) : bool :=
  is_some (i_blocked (c_io c)) || negb (is_nil (i_buf (c_io c))) || negb (i_in_read (c_io c)) || i_ds_ext (c_io c).
Definition progress_scheduled (c : conn) : bool :=
  (is_some (i_pend (c_io c)) || up_some (i_up (c_io c))) && i_in_write (c_io c).

Lemma okc_reads_resume : forall c, okc c = true -> unprocessed c = true -> progress_scheduled c = true.
Proof.
  intros c H U. unfold okc, unprocessed, progress_scheduled in *.
  destruct (x_id_meta (c_x c) =? 0); generalize dependent (c_io c); intros i H U; io_cases i.
Qed.

Theorem reads_resume : forall priv m minp ops c,
  In c (d_conns (final_state current_fixes (start current_fixes priv m minp) ops)) ->
  unprocessed c = true -> progress_scheduled c = true.
Proof.
  intros priv m minp ops c Hin U.
  pose proof (final_state_ok current_fixes ops _ current_repaired (start_ok current_fixes priv m minp current_repaired)) as A.
  unfold all_ok in A. rewrite Forall_forall in A. apply okc_reads_resume; [apply A; exact Hin|exact U].
Qed.
