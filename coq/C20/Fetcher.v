(* C20 — fetcher side (magnet / meta_download): the acceptance gate, abstractly.

   Anchors: PeerConnectionMetadata::receive_metadata_piece (a data message is a block of the single
   chunk of the metadata torrent: down_chunk_start / down_chunk_process), DownloadMain::set_metadata_size
   (first size wins, 1..2^26, the chunk size becomes the metadata size), and the normal hash gate
   (C01): the single chunk is marked done only if its SHA-1 equals complete_hash = the info-hash.

   This is a SPECIFICATION-LEVEL model (which blocks are stored, when the chunk is hashed); it is
   tied to the code by the oracle of gen/c20.py evaluated on harness/c20f.cc runs (done => the file
   is byte-identical to the metadata named by the magnet), not by an exact output comparison: the
   delegator's choice of requests is not modelled. SHA-1 is a Section variable. *)
From Coq Require Import NArith List Bool Lia.
From LTV.C20 Require Import ParamsGen Model.
Import ListNotations.
Open Scope N_scope.

Section Fetcher.
  Variable H : list N -> list N.

  Record fstate := mkF {
    f_want : list N;                    (* the info-hash of the magnet link *)
    f_size : option N;                  (* metadata size, from the first acceptable handshake *)
    f_blocks : list (N * list N);       (* blocks stored so far: piece index, bytes *)
    f_done : option (list N)            (* the verified metadata *)
  }.

  Inductive fop :=
  | FSize (n : N)                       (* a peer's extension handshake carries metadata_size n *)
  | FData (p : N) (bytes : list N)      (* a ut_metadata data message *)
  | FReject (p : N).

  Definition finit (want : list N) : fstate := mkF want None [] None.

  Definition expected_len (sz p : N) : N := N.min piece_size (sz - piece_size * p).

  Fixpoint lookup (p : N) (l : list (N * list N)) : option (list N) :=
    match l with
    | [] => None
    | (q, b) :: r => if q =? p then Some b else lookup p r
    end.

  (* blocks 0 .. k-1 in order, if all are there *)
  Fixpoint assemble (k : nat) (l : list (N * list N)) : option (list N) :=
    match k with
    | O => Some []
    | S k' => match assemble k' l, lookup (N.of_nat k') l with
              | Some a, Some b => Some (a ++ b)
              | _, _ => None
              end
    end.

  Definition fstep (s : fstate) (o : fop) : fstate :=
    match f_done s with
    | Some _ => s
    | None =>
      match o with
      | FSize n =>
        match (match f_size s with Some n0 => if n0 <? 2 then None else Some n0 | None => None end) with
        | Some _ => s                                         (* a different size only closes that connection *)
        | None => if (n =? 0) || (67108864 <? n) then s else mkF (f_want s) (Some n) [] None   (* size_bytes() < 2 counts as unknown *)
        end
      | FReject _ => s
      | FData p b =>
        match f_size s with
        | None => s
        | Some sz =>
          if (p <? piece_end sz) && (N.of_nat (length b) =? expected_len sz p)
             && (match lookup p (f_blocks s) with None => true | Some _ => false end)
          then
            let bl := (p, b) :: f_blocks s in
            match assemble (N.to_nat (piece_end sz)) bl with
            | None => mkF (f_want s) (f_size s) bl None
            | Some cand =>
              (* the chunk is complete: the hash gate *)
              if list_eq_dec N.eq_dec (H cand) (f_want s) then mkF (f_want s) (f_size s) bl (Some cand)
              else mkF (f_want s) (f_size s) [] None         (* failed: every block is discarded *)
            end
          else s
        end
      end
    end.

  Definition frun (want : list N) (ops : list fop) : fstate := fold_left fstep ops (finit want).

  Lemma fstep_want : forall s o, f_want (fstep s o) = f_want s.
  Proof.
    intros s o. unfold fstep. destruct (f_done s); [reflexivity|].
    destruct o as [n|p b|p]; try reflexivity.
    - destruct (match f_size s with Some n0 => if n0 <? 2 then None else Some n0 | None => None end); [reflexivity|]. destruct ((n =? 0) || (67108864 <? n)); reflexivity.
    - destruct (f_size s) as [sz|]; [|reflexivity].
      match goal with |- context [if ?c then _ else _] => destruct c end; [|reflexivity].
      destruct (assemble _ _); [|reflexivity]. destruct (list_eq_dec _ _ _); reflexivity.
  Qed.

  Lemma fstep_gate : forall s o,
    (forall d, f_done s = Some d -> H d = f_want s) ->
    forall d, f_done (fstep s o) = Some d -> H d = f_want (fstep s o).
  Proof.
    intros s o Inv d Hd. rewrite fstep_want. unfold fstep in Hd.
    destruct (f_done s) as [d0|] eqn:E0. { apply Inv. rewrite <- E0. exact Hd. }
    destruct o as [n|p b|p]; cbn in Hd.
    - destruct (match f_size s with Some n0 => if n0 <? 2 then None else Some n0 | None => None end); [rewrite E0 in Hd; discriminate Hd|].
      destruct ((n =? 0) || (67108864 <? n)); [rewrite E0 in Hd|]; discriminate Hd.
    - destruct (f_size s) as [sz|]; [|rewrite E0 in Hd; discriminate Hd].
      match type of Hd with context [if ?c then _ else _] => destruct c end; [|rewrite E0 in Hd; discriminate Hd].
      destruct (assemble _ _) as [cand|]; [|discriminate Hd].
      destruct (list_eq_dec N.eq_dec (H cand) (f_want s)) as [Heq|]; [|discriminate Hd].
      cbn in Hd. inversion Hd; subst. exact Heq.
    - rewrite E0 in Hd. discriminate Hd.
  Qed.

  (* magnet_completes_only_verified: whatever honest and lying providers send, in any order,
     the download is done only with metadata whose SHA-1 is the requested info-hash *)
  Theorem magnet_completes_only_verified : forall want ops d,
    f_done (frun want ops) = Some d -> H d = want.
  Proof.
    intros want ops. unfold frun.
    assert (G : forall s, (forall d, f_done s = Some d -> H d = f_want s) ->
                forall d, f_done (fold_left fstep ops s) = Some d -> H d = f_want s).
    { induction ops as [|o r IH]; intros s Inv d Hd; cbn in Hd; [apply Inv; exact Hd|].
      rewrite <- (fstep_want s o). apply IH; [|exact Hd]. apply fstep_gate. exact Inv. }
    intros d Hd. apply (G (finit want)); [|exact Hd]. intros d0 E. discriminate E.
  Qed.

  (* ... and then describes the same torrent as the original file, under second-preimage
     resistance of H at the original metadata (the only cryptographic assumption) *)
  Theorem magnet_same_torrent : forall orig ops d,
    (forall x, H x = H orig -> x = orig) ->
    f_done (frun (H orig) ops) = Some d -> d = orig.
  Proof.
    intros orig ops d Hinj Hd. apply Hinj. eapply magnet_completes_only_verified. exact Hd.
  Qed.
  (* the first-peer-metadata_size-wins mechanism (DownloadMain::set_metadata_size): once a size in
     1..2^26 has been accepted, no later handshake, data or reject changes it. A first peer that lies
     about the size (any value from 2 up) therefore fixes a size for which no metadata with the requested hash exists:
     safety is untouched (magnet_completes_only_verified), completion becomes impossible — an
     observation about liveness, which C20 does not claim. *)
  Lemma fstep_size_stable : forall s o n, 2 <= n -> f_size s = Some n -> f_size (fstep s o) = Some n.
  Proof.
    intros s o n Hn Hs. unfold fstep. destruct (f_done s); [exact Hs|].
    destruct o as [m|p b|p]; try exact Hs.
    - rewrite Hs. assert ((n <? 2) = false) as -> by (apply N.ltb_ge; exact Hn). exact Hs.
    - rewrite Hs.
      match goal with |- context [if ?c then _ else _] => destruct c end; [|exact Hs].
      destruct (assemble _ _); [|reflexivity]. destruct (list_eq_dec _ _ _); reflexivity.
  Qed.

  Theorem first_size_wins : forall ops s n, 2 <= n -> f_size s = Some n -> f_size (fold_left fstep ops s) = Some n.
  Proof.
    induction ops as [|o r IH]; intros s n Hn Hs; cbn [fold_left]; [exact Hs|].
    apply IH; [exact Hn|]. apply fstep_size_stable; assumption.
  Qed.

  Theorem first_size_accepted : forall want n, 0 < n -> n <= 67108864 ->
    f_size (fstep (finit want) (FSize n)) = Some n.
  Proof.
    intros want n H1 H2. unfold fstep, finit. cbn.
    assert ((n =? 0) = false) as -> by (apply N.eqb_neq; lia).
    assert ((67108864 <? n) = false) as -> by (apply N.ltb_ge; lia). reflexivity.
  Qed.
End Fetcher.

(* "and then describes the same torrent": whatever the client's loader is (any function of the
   torrent bytes "d4:info" ++ metadata ++ "e" — download_add; C08's loader model, partially applied to
   its other arguments, is one instance; it is deliberately not imported so that work on C08 cannot
   break this development), it yields the same result for the fetched metadata as for the original *)
Definition wrap_info (m : list N) : list N := [100; 52; 58; 105; 110; 102; 111] ++ m ++ [101].

Theorem magnet_same_download_generic : forall (A : Type) (load : list N -> A) (H : list N -> list N) orig ops d,
  (forall x, H x = H orig -> x = orig) ->
  f_done (frun H (H orig) ops) = Some d ->
  load (wrap_info d) = load (wrap_info orig).
Proof.
  intros A load H orig ops d Hinj Hd. rewrite (magnet_same_torrent H orig ops d Hinj Hd). reflexivity.
Qed.

(* non-vacuity: with a toy "hash" an honest provider completes, a liar does not *)
Definition toy_hash (l : list N) : list N := [N.of_nat (length l); fold_right N.add 0 l].
Example honest_completes :
  f_done (frun toy_hash (toy_hash [1; 2; 3]) [FSize 3; FData 0 [1; 2; 3]]) = Some [1; 2; 3].
Proof. vm_compute. reflexivity. Qed.
Example liar_does_not :
  f_done (frun toy_hash (toy_hash [1; 2; 3]) [FSize 3; FData 0 [1; 2; 4]; FData 0 [9; 9]; FReject 0]) = None.
Proof. vm_compute. reflexivity. Qed.
