(* C20 — proofs, part E: pex_private_silent as an invariant over all ops (any variant of the model). *)
From Coq Require Import NArith ZArith List Bool Lia.
From LTV.C20 Require Import ParamsGen Model ProofsB ProofsC.
Import ListNotations.
Open Scope N_scope.

Definition is_pex (o : out) : bool := match o with OPex _ _ _ _ => true | _ => false end.
Definition no_pex (l : list out) : Prop := Forall (fun o => is_pex o = false) l.

(* PEX_DO is not set and no ut_pex message is in flight *)
Definition quiet_io (i : iostate) : bool :=
  negb (k_do (i_mask i)) && match i_up i with UMsg (Some e) => negb (is_pex e) | _ => true end.
Definition quiet (c : conn) : bool := quiet_io (c_io c).

Lemma no_pex_app : forall a b, no_pex a -> no_pex b -> no_pex (a ++ b).
Proof. intros. apply Forall_app. split; assumption. Qed.

(* reading never touches the mask or the message in flight *)
Lemma poke_quiet : forall i, quiet_io (poke_write i) = quiet_io i.
Proof. intro i. destruct i as [mk rd wr ds pend blk buf sock up ka wb idl]. unfold poke_write. cbn. destruct pend; [destruct up|]; reflexivity. Qed.

Lemma parse_msgs_quiet : forall fx meta ms c sp c' sp' cl,
  parse_msgs fx meta c sp ms = (c', sp', cl) -> quiet c' = quiet c.
Proof.
  intros fx meta ms. induction ms as [|[m sz] rest IH]; intros c sp c' sp' cl H.
  - cbn in H. inversion H; subst. unfold quiet. cbn. destruct (c_io c); reflexivity.
  - cbn [parse_msgs] in H.
    assert (HS : forall h, (let '(x', pend', sp'0, bad) := parse_handshake fx (N.of_nat (length meta)) (c_x c) (i_pend (c_io c)) sp h in
                 let c'0 := mkConn (c_peer c) x' (set_i_pend (c_io c) pend') in
                 if bad then (with_io c'0 (set_i_buf (c_io c'0) rest), sp'0, true)
                 else parse_msgs fx meta (with_io c'0 (poke_write (c_io c'0))) sp'0 rest) = (c', sp', cl) -> quiet c' = quiet c).
    { intros h Hh.
      destruct (parse_handshake fx (N.of_nat (length meta)) (c_x c) (i_pend (c_io c)) sp h) as [[[x' pend'] sp1] bad].
      destruct bad.
      - inversion Hh; subst. unfold quiet. cbn. destruct (c_io c); reflexivity.
      - rewrite (IH _ _ _ _ _ Hh). unfold quiet. cbn. rewrite poke_quiet. destruct (c_io c); reflexivity. }
    destruct m as [h|e t p|].
    + apply HS with (h := h). exact H.
    + destruct (3 <=? e). { inversion H; subst. unfold quiet. cbn. destruct (c_io c); reflexivity. }
      destruct (e =? 0); [apply HS with (h := empty_hs); exact H|].
      destruct (e =? 1). { rewrite (IH _ _ _ _ _ H). unfold quiet. cbn. apply poke_quiet. }
      destruct (negb (x_le_meta (c_x c))). { rewrite (IH _ _ _ _ _ H). unfold quiet. cbn. apply poke_quiet. }
      destruct (t =? 0)%Z.
      * destruct (try_request meta (c_x c) (c_io c) p) as [i'|] eqn:E.
        -- rewrite (IH _ _ _ _ _ H). unfold quiet. cbn. rewrite poke_quiet. unfold try_request in E.
           destruct (x_id_meta (c_x c) =? 0); [inversion E; subst; reflexivity|].
           destruct (i_pend (c_io c)); [discriminate E|]. inversion E; subst. destruct (c_io c); reflexivity.
        -- inversion H; subst. unfold quiet. cbn. destruct (c_io c); reflexivity.
      * rewrite (IH _ _ _ _ _ H). unfold quiet. cbn. apply poke_quiet.
    + apply (IH _ _ _ _ _ H).
Qed.

Lemma try_request_quiet : forall meta x i p i', try_request meta x i p = Some i' -> quiet_io i' = quiet_io i.
Proof.
  intros meta x i p i' E. unfold try_request in E. destruct (x_id_meta x =? 0); [inversion E; subst; reflexivity|].
  destruct (i_pend i); [discriminate E|]. inversion E; subst. destruct i; reflexivity.
Qed.

Lemma read_event_quiet : forall fx meta c sp,
  match read_event fx meta c sp with
  | COk c' _ o | CClosed c' _ o => quiet c' = quiet c /\ o = []
  | _ => True
  end.
Proof.
  intros fx meta c sp. unfold read_event.
  set (i0 := set_i_idle (c_io c) 0).
  assert (Q0 : quiet_io i0 = quiet c) by (unfold quiet; subst i0; destruct (c_io c); reflexivity).
  clearbody i0.
  assert (K : forall i1, quiet_io i1 = quiet c ->
     match (if 512 <=? bytes_of (i_buf i1) + bytes_of (i_sock i1) then CUnmodelled
            else let '(c', sp', closed) := parse_msgs fx meta (with_io c (set_i_sock i1 [])) sp (i_buf i1 ++ i_sock i1) in
                 if closed then CClosed c' sp' [] else COk c' sp' []) with
     | COk c' _ o | CClosed c' _ o => quiet c' = quiet c /\ o = []
     | _ => True
     end).
  { intros i1 Q1. destruct (512 <=? bytes_of (i_buf i1) + bytes_of (i_sock i1)); [exact I|].
    destruct (parse_msgs fx meta (with_io c (set_i_sock i1 [])) sp (i_buf i1 ++ i_sock i1)) as [[c1 sp1] cl] eqn:Ep.
    pose proof (parse_msgs_quiet _ _ _ _ _ _ _ _ Ep) as Q. unfold quiet in Q at 2. cbn in Q.
    assert (quiet_io (set_i_sock i1 []) = quiet_io i1) by (destruct i1; reflexivity).
    destruct cl; (split; [congruence|reflexivity]). }
  destruct (i_ds_ext i0).
  - destruct (i_blocked i0) as [p|].
    + destruct (try_request meta (c_x c) i0 p) as [i'|] eqn:Et.
      * apply K. rewrite <- Q0, <- (try_request_quiet _ _ _ _ _ Et).
        assert (forall j, quiet_io (set_i_ds_ext (poke_write (set_i_blocked j None)) false) = quiet_io j).
        { intro j. transitivity (quiet_io (poke_write (set_i_blocked j None))); [destruct (poke_write (set_i_blocked j None)); reflexivity|].
          rewrite poke_quiet. destruct j; reflexivity. }
        apply H.
      * split; [|reflexivity]. unfold quiet at 1. cbn. rewrite <- Q0. destruct i0; reflexivity.
    + apply K. rewrite <- Q0.
      transitivity (quiet_io (poke_write i0)); [destruct (poke_write i0); reflexivity|apply poke_quiet].
  - apply K. exact Q0.
Qed.

(* fill on a quiet connection frames no ut_pex message and stays quiet (mask-wise) *)
Lemma fill_quiet : forall fx ini del c c1 ext,
  fill fx ini del c = (c1, ext) -> negb (k_do (i_mask (c_io c))) = true ->
  negb (k_do (i_mask (c_io c1))) = true /\ i_up (c_io c1) = i_up (c_io c) /\
  match ext with Some e => is_pex e = false | None => True end.
Proof.
  intros fx ini del c c1 ext H Hq. apply negb_true_iff in Hq. unfold fill in H.
  assert (FIN : forall c0, negb (k_do (i_mask (c_io c0))) = true -> i_up (c_io c0) = i_up (c_io c) ->
     match i_pend (c_io c0) with
     | Some r => (with_io c0 (set_i_pend (c_io c0) None), Some (OMeta (c_peer c0) (x_id_meta (c_x c0)) r))
     | None => (c0, None)
     end = (c1, ext) ->
     negb (k_do (i_mask (c_io c1))) = true /\ i_up (c_io c1) = i_up (c_io c) /\
     match ext with Some e => is_pex e = false | None => True end).
  { intros c0 Hk Hu HH. destruct (i_pend (c_io c0)); inversion HH; subst; clear HH; cbn.
    - repeat split; [destruct (c_io c0); exact Hk|destruct (c_io c0); exact Hu].
    - auto. }
  destruct (mask_is0 (i_mask (c_io c))).
  { cbv beta iota zeta in H. apply (FIN c); auto. rewrite Hq. reflexivity. }
  unfold send_pex in H. rewrite Hq in H. cbn [andb] in H.
  destruct (negb (x_rs_pex (c_x c))).
  { cbv beta iota zeta in H. apply (FIN (with_io c (set_i_mask (c_io c) mask0))); auto; cbn; destruct (c_io c); reflexivity. }
  destruct (k_en (i_mask (c_io c)) || k_dis (i_mask (c_io c))).
  { cbv beta iota zeta in H. inversion H; subst; clear H. cbn. repeat split; destruct (c_io c); reflexivity. }
  destruct (negb (fx_pex_false fx)).
  { cbv beta iota zeta in H. inversion H; subst; clear H. cbn. repeat split; destruct (c_io c); reflexivity. }
  cbv beta iota zeta in H. apply (FIN (with_io c (set_i_mask (c_io c) mask0))); auto; cbn; destruct (c_io c); reflexivity.
Qed.

Lemma quiet_io_intro : forall i, negb (k_do (i_mask i)) = true ->
  match i_up i with UMsg (Some e) => negb (is_pex e) | _ => true end = true -> quiet_io i = true.
Proof. intros i A B. unfold quiet_io. rewrite A, B. reflexivity. Qed.

Lemma write_loop_quiet : forall f fx meta ini del c sp acc,
  quiet c = true -> no_pex acc ->
  match write_loop f fx meta ini del c sp acc with
  | COk c' _ o => quiet c' = true /\ no_pex o
  | CClosed _ _ o => no_pex o
  | _ => True
  end.
Proof.
  induction f as [|f IH]; intros fx meta ini del c sp acc Hq Ha; [exact I|].
  cbn [write_loop]. unfold quiet, quiet_io in Hq. apply andb_true_iff in Hq. destruct Hq as [Hk Hu].
  destruct (i_up (c_io c)) as [|ext] eqn:Eu.
  - destruct (fill fx ini del c) as [c1 ext] eqn:Ef.
    destruct (fill_quiet _ _ _ _ _ _ Ef Hk) as (Hk1 & Hu1 & He).
    destruct ext as [e|].
    + apply IH; [|exact Ha]. unfold quiet. cbn [c_io with_io]. apply quiet_io_intro.
      * revert Hk1. destruct (c_io c1); cbn; auto.
      * destruct (c_io c1); cbn. rewrite He. reflexivity.
    + destruct (i_kabuf (c_io c1)).
      * apply IH; [|exact Ha]. unfold quiet. cbn [c_io with_io]. apply quiet_io_intro.
        -- revert Hk1. destruct (c_io c1); cbn; auto.
        -- destruct (c_io c1); reflexivity.
      * split; [|exact Ha]. unfold quiet. cbn [c_io with_io]. apply quiet_io_intro.
        -- revert Hk1. destruct (c_io c1); cbn; auto.
        -- revert Hu1. rewrite Eu. destruct (c_io c1); cbn. intros ->. reflexivity.
  - destruct (i_wblocked (c_io c)).
    { split; [|exact Ha]. unfold quiet, quiet_io. rewrite Hk, Eu. exact Hu. }
    destruct ext as [e|].
    2: { apply IH; [|exact Ha]. unfold quiet. cbn [c_io with_io]. apply quiet_io_intro.
         - revert Hk. destruct (c_io c); cbn; auto.
         - destruct (c_io c); reflexivity. }
    assert (Ha' : no_pex (acc ++ [e])).
    { apply no_pex_app; [exact Ha|]. constructor; [|constructor]. apply negb_true_iff in Hu. exact Hu. }
    assert (QI : forall j, negb (k_do (i_mask j)) = true -> quiet_io (set_i_up j UIdle) = true).
    { intros j Hj. apply quiet_io_intro; [revert Hj; destruct j; cbn; auto|destruct j; reflexivity]. }
    assert (STEP : forall i1, negb (k_do (i_mask i1)) = true ->
      match (let i2 := set_i_up i1 UIdle in
             if fx_drain fx && i_ds_ext i2 && match i_blocked i2 with None => true | Some _ => false end
             then let '(c', sp', closed) := parse_msgs fx meta (with_io c (set_i_ds_ext i2 false)) sp (i_buf i2) in
                  if closed then CClosed c' sp' (acc ++ [e]) else write_loop f fx meta ini del c' sp' (acc ++ [e])
             else write_loop f fx meta ini del (with_io c i2) sp (acc ++ [e])) with
      | COk c' _ o => quiet c' = true /\ no_pex o
      | CClosed _ _ o => no_pex o
      | _ => True
      end).
    { intros i1 H1. cbv zeta.
      destruct (fx_drain fx && i_ds_ext (set_i_up i1 UIdle) && match i_blocked (set_i_up i1 UIdle) with None => true | Some _ => false end).
      - destruct (parse_msgs fx meta (with_io c (set_i_ds_ext (set_i_up i1 UIdle) false)) sp (i_buf (set_i_up i1 UIdle))) as [[c1 sp1] cl] eqn:Ep.
        destruct cl; [exact Ha'|].
        apply IH; [|exact Ha']. rewrite (parse_msgs_quiet _ _ _ _ _ _ _ _ Ep). unfold quiet. cbn.
        transitivity (quiet_io (set_i_up i1 UIdle)); [destruct i1; reflexivity|apply QI; exact H1].
      - apply IH; [|exact Ha']. unfold quiet. cbn. apply QI. exact H1. }
    destruct (i_blocked (c_io c)) as [p|].
    + destruct (try_request meta (c_x c) (c_io c) p) as [i'|] eqn:Et.
      * apply STEP. pose proof (try_request_quiet _ _ _ _ _ Et) as Q. 
        assert (i_mask (set_i_in_read (set_i_blocked i' None) true) = i_mask i') as -> by (destruct i'; reflexivity).
        unfold try_request in Et. destruct (x_id_meta (c_x c) =? 0); [inversion Et; subst; exact Hk|].
        destruct (i_pend (c_io c)); [discriminate Et|]. inversion Et; subst. destruct (c_io c); exact Hk.
      * destruct (fx_up_nothrow fx); [apply STEP; exact Hk|exact I].
    + apply STEP. exact Hk.
Qed.

(* ------------------------------------------------------------------------------------------ *)
(* download level *)

Definition all_quiet (d : dstate) : Prop := Forall (fun c => quiet c = true) (d_conns d).

Lemma write_event_quiet : forall fx meta ini del c sp,
  quiet c = true ->
  match write_event fx meta ini del c sp with
  | COk c' _ o => quiet c' = true /\ no_pex o
  | CClosed _ _ o => no_pex o
  | _ => True
  end.
Proof. intros. unfold write_event. apply write_loop_quiet; [assumption|constructor]. Qed.

Definition sres_quiet (priv pe : bool) (r : step_result) : Prop :=
  match r with
  | SOk d' o => all_quiet d' /\ no_pex o /\ d_private d' = priv /\ d_pexen d' = pe
  | _ => True
  end.

Lemma settle_quiet : forall f fx d i acc,
  all_quiet d -> no_pex acc -> sres_quiet (d_private d) (d_pexen d) (settle f fx d i acc).
Proof.
  induction f as [|f IH]; intros fx d i acc Hd Ha; [exact I|].
  rewrite settle_S. cbv zeta.
  destruct (find_conn i (d_conns d)) as [c|] eqn:Ef; [|cbn; auto].
  pose proof (find_conn_P _ _ _ _ Hd Ef) as Hc. cbv beta in Hc.
  destruct (i_in_read (c_io c) && negb (is_nil (i_sock (c_io c)))).
  - pose proof (read_event_quiet fx (d_meta d) c (d_size_pex d)) as R.
    destruct (read_event fx (d_meta d) c (d_size_pex d)) as [c1 sp1 o1|c1 sp1 o1| |]; try exact I.
    + destruct R as [Q E]. subst o1.
      apply (IH fx (set_conns d (replace_conn c1 (d_conns d)) sp1) i (acc ++ [])).
      * unfold all_quiet. cbn. apply Forall_replace; [congruence|exact Hd].
      * apply no_pex_app; [exact Ha|constructor].
    + destruct R as [Q E]. subst o1. cbn. repeat split.
      * unfold all_quiet. cbn. apply Forall_erase. exact Hd.
      * apply no_pex_app; [exact Ha|]. constructor; [reflexivity|constructor].
  - destruct (i_in_write (c_io c) && negb (is_umsg (i_up (c_io c)) && i_wblocked (c_io c))); [|cbn; auto].
    pose proof (write_event_quiet fx (d_meta d) (d_initial d) (d_delta d) c (d_size_pex d) Hc) as W.
    destruct (write_event fx (d_meta d) (d_initial d) (d_delta d) c (d_size_pex d)) as [c1 sp1 o1|c1 sp1 o1| |]; try exact I.
    + destruct W as [Q E].
      apply (IH fx (set_conns d (replace_conn c1 (d_conns d)) sp1) i (acc ++ o1)).
      * unfold all_quiet. cbn. apply Forall_replace; [exact Q|exact Hd].
      * apply no_pex_app; assumption.
    + cbn. repeat split.
      * unfold all_quiet. cbn. apply Forall_erase. exact Hd.
      * apply no_pex_app; [exact Ha|]. apply no_pex_app; [exact W|]. constructor; [reflexivity|constructor].
Qed.

Lemma settle_all_quiet : forall fx ids d acc,
  all_quiet d -> no_pex acc -> sres_quiet (d_private d) (d_pexen d) (settle_all fx d ids acc).
Proof.
  intros fx ids. induction ids as [|i r IH]; intros d acc Hd Ha.
  - cbn. auto.
  - rewrite settle_all_cons.
    pose proof (settle_quiet settle_fuel fx d i [] Hd (Forall_nil _)) as S.
    destruct (settle settle_fuel fx d i []) as [d1 o1| |]; try exact I.
    destruct S as (Q & N & P & P2). rewrite <- P, <- P2. apply IH; [exact Q|apply no_pex_app; assumption].
Qed.

Lemma quiet_push : forall c ms, quiet (push_sock c ms) = quiet c.
Proof. intros. unfold quiet, push_sock. cbn. destruct (c_io c); reflexivity. Qed.

Lemma quiet_keepalive : forall c, quiet (keepalive_conn c) = quiet c.
Proof.
  intro c. unfold quiet, keepalive_conn. cbn. destruct (c_io c) as [mk rd wr ds pend blk buf sock up ka wb idl]. cbn.
  destruct up; reflexivity.
Qed.

Lemma disable_all_quiet : forall l sp l' sp',
  Forall (fun c => quiet c = true) l -> disable_all sp l = (l', sp') -> Forall (fun c => quiet c = true) l'.
Proof.
  induction l as [|c r IH]; intros sp l' sp' H E; cbn [disable_all] in E.
  - inversion E; subst. constructor.
  - inversion H; subst. destruct (x_rs_pex (c_x c)).
    + destruct (disable_all (dec_if (x_le_pex (c_x c)) sp) r) as [l2 s2] eqn:E2. inversion E; subst.
      constructor; [|eapply IH; eauto].
      revert H2. unfold quiet, quiet_io, set_cmask, set_le_pex, cmask. cbn. destruct (c_io c); cbn. intro Q.
      apply andb_true_iff in Q. destruct Q as [Q1 Q2]. apply negb_true_iff in Q1. rewrite Q1. exact Q2.
    + destruct (disable_all sp r) as [l2 s2] eqn:E2. inversion E; subst. constructor; [assumption|eapply IH; eauto].
Qed.

Lemma ka_loop_quiet : forall f sp l,
  Forall (fun c => quiet c = true) l ->
  let '(l', _, o) := ka_loop f sp l in Forall (fun c => quiet c = true) l' /\ no_pex o.
Proof.
  induction f as [|f IH]; intros sp l H; cbn [ka_loop].
  - split; [exact H|constructor].
  - destruct l as [|c r]; [split; constructor|]. inversion H; subst.
    destruct (timeout_ticks <? i_idle (c_io c) + 1).
    + match goal with |- context [ka_loop f ?a ?b] => specialize (IH a b); destruct (ka_loop f a b) as [[l2 s2] o2] end.
      destruct IH as [A B]; [apply Forall_swap_erase; assumption|].
      split; [exact A|constructor; [reflexivity|exact B]].
    + specialize (IH sp r H3). destruct (ka_loop f sp r) as [[l2 s2] o2]. destruct IH as [A B].
      split; [constructor; [rewrite quiet_keepalive; assumption|exact A]|exact B].
Qed.

Lemma Forall_push_quiet : forall l ms, Forall (fun c => quiet c = true) l ->
  Forall (fun c => quiet c = true) (map (fun c => push_sock c ms) l).
Proof.
  induction l as [|c r IH]; intros ms H; cbn [map]; [constructor|].
  inversion H; subst. constructor; [rewrite quiet_push; assumption|apply IH; assumption].
Qed.

Lemma tick_quiet : forall fx d, d_private d = true -> d_pexen d = false -> all_quiet d -> sres_quiet true false (tick fx d).
Proof.
  intros fx d Hp Hpe Hd. unfold tick.
  match goal with |- context [settle_all fx ?a ?b ?c] =>
    pose proof (settle_all_quiet fx b a c) as S0; destruct (settle_all fx a b c) as [d0 o0| |] end; try exact I.
  destruct S0 as (Q0 & N0 & P0 & P02); [unfold all_quiet; cbn; apply Forall_push_quiet; exact Hd|constructor|].
  cbn in P0, P02. rewrite Hp in P0. rewrite Hpe in P02. rewrite P02. cbv iota.
  assert (CONT : forall d1, all_quiet d1 -> d_private d1 = true -> d_pexen d1 = false ->
     sres_quiet true false (let '(l2, sp2, o2) := ka_loop (length (d_conns d1)) (d_size_pex d1) (d_conns d1) in
                      settle_all fx (set_conns d1 l2 sp2) (map c_peer l2) (o0 ++ o2))).
  { intros d1 Q1 P1 P12.
    pose proof (ka_loop_quiet (length (d_conns d1)) (d_size_pex d1) (d_conns d1) Q1) as K.
    destruct (ka_loop (length (d_conns d1)) (d_size_pex d1) (d_conns d1)) as [[l2 sp2] o2]. destruct K as [K1 K2].
    pose proof (settle_all_quiet fx (map c_peer l2) (set_conns d1 l2 sp2) (o0 ++ o2)) as S2.
    cbn in S2. rewrite P1, P12 in S2. apply S2; [exact K1|apply no_pex_app; assumption]. }
  destruct (d_pex_active d0).
  - destruct (disable_all (d_size_pex d0) (d_conns d0)) as [l sp] eqn:Ed. cbv beta iota.
    apply CONT; [|cbn; exact P0|reflexivity]. unfold all_quiet. cbn. eapply disable_all_quiet; eauto.
  - cbv beta iota. apply CONT; assumption.
Qed.

Lemma step_quiet : forall fx d o, d_private d = true -> d_pexen d = false -> all_quiet d -> sres_quiet true false (step fx d o).
Proof.
  intros fx d o Hp Hpe Hd. destruct o as [i|i ms| |i|i b|b]; cbn [step].
  - destruct (existsb (N.eqb i) (d_used d)); cbn; [repeat split; auto; constructor|].
    split; [|split; [constructor; [reflexivity|constructor]|split; [exact Hp|exact Hpe]]].
    unfold all_quiet. cbn. apply Forall_app. split; [exact Hd|]. constructor; [|constructor].
    destruct (d_pexen d && d_pex_active d && (d_size_pex d <? Params.c20_max_size_pex)); reflexivity.
  - destruct (find_conn i (d_conns d)) as [c|] eqn:Ef; [|cbn; repeat split; auto; constructor].
    rewrite <- Hp, <- Hpe.
    match goal with |- context [settle settle_fuel fx ?dd i []] => change (d_private d) with (d_private dd); change (d_pexen d) with (d_pexen dd); apply settle_quiet end; [|constructor].
    unfold all_quiet. cbn. apply Forall_replace; [|exact Hd]. rewrite quiet_push.
    apply (find_conn_P (fun c => quiet c = true) _ _ _ Hd Ef).
  - apply tick_quiet; assumption.
  - destruct (find_conn i (d_conns d)) as [c|]; [|cbn; repeat split; auto; constructor].
    match goal with |- context [if ?b then _ else _] => destruct b end; [|exact I].
    cbn. split; [|split; [constructor|split; [exact Hp|exact Hpe]]]. unfold all_quiet. cbn. apply Forall_erase. exact Hd.
  - destruct (find_conn i (d_conns d)) as [c|] eqn:Ef; [|cbn; repeat split; auto; constructor].
    rewrite <- Hp, <- Hpe.
    match goal with |- context [settle settle_fuel fx ?dd i []] => change (d_private d) with (d_private dd); change (d_pexen d) with (d_pexen dd); apply settle_quiet end; [|constructor].
    unfold all_quiet. cbn. apply Forall_replace; [|exact Hd].
    pose proof (find_conn_P (fun c => quiet c = true) _ _ _ Hd Ef) as Hc. cbv beta in Hc.
    unfold quiet in *. cbn. destruct (c_io c); exact Hc.
  - cbn. split; [exact Hd|split; [constructor|split; [exact Hp|]]]. rewrite Hp, Hpe. destruct b; reflexivity.
Qed.

Lemma outs_of_quiet : forall fx ops d, d_private d = true -> d_pexen d = false -> all_quiet d -> no_pex (outs_of fx d ops).
Proof.
  intros fx ops. induction ops as [|o r IH]; intros d Hp Hpe Hd; cbn [outs_of]; [constructor|].
  pose proof (step_quiet fx d o Hp Hpe Hd) as S. destruct (step fx d o) as [d' outs| |]; try constructor.
  destruct S as (Q & N & P & P2). apply no_pex_app; [exact N|apply IH; assumption].
Qed.

(* pex_private_silent: for a private torrent no ut_pex message is ever framed or sent, whatever the
   peers advertise and whatever happens (any variant of the model, in particular the code as it is) *)
Theorem pex_private_silent : forall fx m minp ops o,
  In o (outs_of fx (start fx true m minp) ops) -> is_pex o = false.
Proof.
  intros fx m minp ops o Hin.
  assert (S : d_private (start fx true m minp) = true /\ d_pexen (start fx true m minp) = false /\ all_quiet (start fx true m minp)).
  { unfold start. pose proof (tick_quiet fx (init true m minp) eq_refl eq_refl (Forall_nil _)) as T.
    destruct (tick fx (init true m minp)) as [d o0| |]; [destruct T as (A & B & C & D); auto| |]; repeat split; constructor. }
  destruct S as (Sp & Spe & Sq). pose proof (outs_of_quiet fx ops _ Sp Spe Sq) as N.
  unfold no_pex in N. rewrite Forall_forall in N. apply N. exact Hin.
Qed.

Example ex_private_run : exists o, In o (outs_of current_fixes (start current_fixes true small_meta 40)
   [Connect 0; Recv 0 [(MHandshake (hs_of (Some 1%Z) (Some 3%Z) (Some 7000%Z)), 60)]; Tick; Tick]).
Proof. eexists. vm_compute. left. reflexivity. Qed.
