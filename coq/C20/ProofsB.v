(* C20 — proofs, part B: extension ids, PEX, read suspension on the connection/download model. *)
From Coq Require Import NArith ZArith List Bool Lia.
From Coq Require Import ZifyBool ZifyNat ZifyN.
From LTV.C20 Require Import ParamsGen Model.
Import ListNotations.
Open Scope N_scope.

Definition small_meta : list N := [100; 49; 58; 120; 101].

Definition hs_of (x m p : option Z) : hs := mkHs x m p None.

(* ------------------------------------------------------------------------------------------ *)
(* parse_handshake: the id map follows the handshake, truncated to 8 bits; absent keys keep it *)

Lemma parse_handshake_meta_id : forall ms c sp h c' sp',
  parse_handshake ms c sp h = inl (c', sp') ->
  c_id_meta c' = match hs_meta h with Some z => u8 z | None => c_id_meta c end /\
  c_rs_meta c' = match hs_meta h with Some _ => true | None => c_rs_meta c end.
Proof.
  intros ms c sp h c' sp' H. unfold parse_handshake in H.
  destruct (hs_pex h) as [zx|]; destruct (hs_meta h) as [zm|]; cbn in H;
    repeat match type of H with context [if ?b then _ else _] => destruct b end;
    inversion H; subst; cbn; split; reflexivity.
Qed.

Lemma parse_handshake_pex_id : forall ms c sp h c' sp',
  parse_handshake ms c sp h = inl (c', sp') ->
  c_id_pex c' = match hs_pex h with Some z => u8 z | None => c_id_pex c end.
Proof.
  intros ms c sp h c' sp' H. unfold parse_handshake in H.
  destruct (hs_pex h) as [zx|]; destruct (hs_meta h) as [zm|]; cbn in H.
  1,2: destruct (u8 zx =? c_id_pex c) eqn:E; cbn in H;
       repeat match type of H with context [if ?b then _ else _] => destruct b end;
       inversion H; subst; cbn; try reflexivity; apply N.eqb_eq in E; symmetry; exact E.
  all: repeat match type of H with context [if ?b then _ else _] => destruct b end;
       inversion H; subst; cbn; reflexivity.
Qed.

(* an id above 255 is NOT what ends up in the map: the truncation is real *)
Example id_truncated : u8 257 = 1 /\ u8 256 = 0 /\ u8 (-1) = 255.
Proof. vm_compute. repeat split; reflexivity. Qed.

(* ------------------------------------------------------------------------------------------ *)
(* ut_pex messages are never written with id 0, and only the tick writes them *)

Lemma drain_mask_pex : forall f ini del c c' o,
  drain_mask f ini del c = (c', o) ->
  forall i id a r, In (OPex i id a r) o -> id <> 0 /\ id = c_id_pex c /\ i = c_peer c /\ c_rs_pex c = true.
Proof.
  induction f as [|f IH]; intros ini del c c' o H i id a r Hin.
  - cbn in H. inversion H; subst. destruct Hin.
  - cbn [drain_mask] in H.
    destruct (mask_is0 (c_mask c)). { inversion H; subst. destruct Hin. }
    destruct (c_rs_pex c) eqn:Ers; cbn [negb] in H. 2: { inversion H; subst. destruct Hin. }
    destruct (k_en (c_mask c) || k_dis (c_mask c)).
    + destruct (drain_mask f ini del (set_mask c (mkMask (k_do (c_mask c)) false false))) as [c2 o2] eqn:E.
      inversion H; subst. destruct Hin as [Hin|Hin]; [discriminate Hin|].
      specialize (IH _ _ _ _ _ E _ _ _ _ Hin). cbn in IH. destruct IH as (A & B & C & D). auto.
    + destruct (k_do (c_mask c) && negb (c_id_pex c =? 0)) eqn:Ed.
      * apply andb_true_iff in Ed. destruct Ed as [_ Ed]. apply negb_true_iff, N.eqb_neq in Ed.
        destruct (if c_init_pex c then ini else del) as [[a0 r0]|]; inversion H; subst.
        -- destruct Hin as [Hin|[]]. inversion Hin; subst. auto.
        -- destruct Hin.
      * inversion H; subst. destruct Hin.
Qed.

Lemma drain_all_pex : forall ini del l l' o,
  drain_all ini del l = (l', o) ->
  forall i id a r, In (OPex i id a r) o -> id <> 0 /\ exists c, In c l /\ c_peer c = i /\ c_id_pex c = id /\ c_rs_pex c = true.
Proof.
  induction l as [|c l IH]; intros l' o H i id a r Hin.
  - cbn in H. inversion H; subst. destruct Hin.
  - cbn [drain_all] in H. destruct (drain_mask 3 ini del c) as [c1 o1] eqn:E1.
    destruct (drain_all ini del l) as [l2 o2] eqn:E2. inversion H; subst.
    apply in_app_or in Hin. destruct Hin as [Hin|Hin].
    + destruct (drain_mask_pex _ _ _ _ _ _ E1 _ _ _ _ Hin) as (A & B & C & D).
      split; [exact A|]. exists c. subst. repeat split; auto. left; reflexivity.
    + destruct (IH _ _ eq_refl _ _ _ _ Hin) as (A & c0 & B & C & D & F).
      split; [exact A|]. exists c0. repeat split; auto. right; exact B.
Qed.

Lemma ka_loop_no_pex : forall f sp l l' sp' o,
  ka_loop f sp l = (l', sp', o) -> forall i id a r, ~ In (OPex i id a r) o.
Proof.
  induction f as [|f IH]; intros sp l l' sp' o H i id a r Hin.
  - cbn in H. inversion H; subst. destruct Hin.
  - cbn [ka_loop] in H. destruct l as [|c rr]. { inversion H; subst. destruct Hin. }
    destruct (timeout_ticks <? c_idle c + 1).
    + match type of H with context [ka_loop f ?a ?b] => destruct (ka_loop f a b) as [[l2 sp2] o2] eqn:E end.
      inversion H; subst. destruct Hin as [Hin|Hin]; [discriminate Hin|]. eapply IH; eauto.
    + destruct (ka_loop f sp rr) as [[l2 sp2] o2] eqn:E. inversion H; subst. eapply IH; eauto.
Qed.

Theorem pex_id_nonzero : forall d o d' outs i id a r,
  step d o = SOk d' outs -> In (OPex i id a r) outs -> id <> 0 /\ o = Tick.
Proof.
  intros d o d' outs i id a r H Hin. destruct o as [j|j ms| |j]; cbn [step] in H.
  - destruct (existsb (N.eqb j) (d_used d)); inversion H; subst; cbn in Hin; try tauto.
    destruct Hin as [Hin|[]]; discriminate Hin.
  - destruct (find_conn j (d_conns d)) as [c|]; [|inversion H; subst; destruct Hin].
    destruct (negb (c_in_read c)); [inversion H; subst; destruct Hin|].
    destruct (run_batch (d_meta d) (set_idle c 0) (d_size_pex d) None ms) as [c' sp pend|c' sp];
      inversion H; subst.
    + destruct pend; cbn in Hin; try tauto. destruct Hin as [Hin|[]]; discriminate Hin.
    + destruct Hin as [Hin|[]]; discriminate Hin.
  - split; [|reflexivity]. unfold tick in H.
    match type of H with context [match ?r with DpeOk _ => _ | DpeInternalError => _ end] => destruct r as [d1|] end; [|discriminate H].
    destruct (ka_loop (length (d_conns d1)) (d_size_pex d1) (d_conns d1)) as [[l2 sp2] o2] eqn:E2.
    destruct (drain_all (d_initial d1) (d_delta d1) l2) as [l3 o3] eqn:E3.
    inversion H; subst. apply in_app_or in Hin. destruct Hin as [Hin|Hin].
    + exfalso. eapply ka_loop_no_pex; eauto.
    + destruct (drain_all_pex _ _ _ _ _ E3 _ _ _ _ Hin) as [A _]. exact A.
  - destruct (find_conn j (d_conns d)) as [c|]; [|inversion H; subst; destruct Hin].
    destruct (negb (c_in_read c)); inversion H; subst; destruct Hin.
Qed.

(* ------------------------------------------------------------------------------------------ *)
(* ut_metadata replies: the id written is the map entry after the whole batch was parsed, and
   the reply is send_metadata_piece of the torrent's info bytes *)

Lemma run_batch_pend : forall meta ms c sp pend c' sp' r,
  run_batch meta c sp pend ms = BDone c' sp' (Some r) ->
  pend = Some r \/ exists p, r = send_metadata_piece false meta p.
Proof.
  intros meta ms. induction ms as [|m rest IH]; intros c sp pend c' sp' r H.
  - cbn in H. inversion H; subst. left; reflexivity.
  - cbn [run_batch] in H. destruct m as [h|e t p].
    + destruct (parse_handshake (N.of_nat (length meta)) c sp h) as [[c1 sp1]|[c1 sp1]]; [|discriminate H].
      eapply IH; eauto.
    + destruct (3 <=? e); [discriminate H|].
      destruct (e =? 0).
      { destruct (parse_handshake (N.of_nat (length meta)) c sp empty_hs) as [[c1 sp1]|[c1 sp1]]; [|discriminate H].
        eapply IH; eauto. }
      destruct (e =? 1); [eapply IH; eauto|].
      destruct (negb (c_le_meta c)); [eapply IH; eauto|].
      destruct (t =? 0)%Z; [|eapply IH; eauto].
      destruct pend as [r0|].
      * inversion H; subst. left; reflexivity.
      * destruct (IH _ _ _ _ _ _ H) as [E|E]; [|right; exact E].
        inversion E; subst. right. eexists; reflexivity.
Qed.

Theorem meta_reply_is_slice_of_info : forall d i ms d' outs j id r,
  step d (Recv i ms) = SOk d' outs -> In (OMeta j id r) outs ->
  j = i /\ exists p, r = send_metadata_piece false (d_meta d) p.
Proof.
  intros d i ms d' outs j id r H Hin. cbn [step] in H.
  destruct (find_conn i (d_conns d)) as [c|]; [|inversion H; subst; destruct Hin].
  destruct (negb (c_in_read c)); [inversion H; subst; destruct Hin|].
  destruct (run_batch (d_meta d) (set_idle c 0) (d_size_pex d) None ms) as [c' sp pend|c' sp] eqn:E;
    inversion H; subst.
  - destruct pend as [r0|]; [|destruct Hin]. destruct Hin as [Hin|[]]. inversion Hin; subst.
    split; [reflexivity|]. destruct (run_batch_pend _ _ _ _ _ _ _ _ E) as [X|X]; [discriminate X|exact X].
  - destruct Hin as [Hin|[]]; discriminate Hin.
Qed.

(* ------------------------------------------------------------------------------------------ *)
(* REFUTATIONS on the faithful model (computed witnesses; replayed on the real code by the
   hand list of gen/c20.py) *)

Definition is_meta_id0 (o : out) : bool :=
  match o with OMeta _ id _ => id =? 0 | _ => false end.

(* ext_ids_advertised: a ut_metadata message is written with id 0 to a peer that never
   advertised ut_metadata (witness 1) or that advertised id 0 = disabled (witness 2) *)
Theorem ext_ids_advertised_refuted :
  existsb is_meta_id0 (outs_of (start false small_meta 40) [Connect 0; Recv 0 [MExt 2 0 0]]) = true /\
  existsb is_meta_id0 (outs_of (start false small_meta 40)
     [Connect 0; Recv 0 [MHandshake (hs_of (Some 0%Z) (Some 0%Z) None)]; Recv 0 [MExt 2 0 0]]) = true.
Proof. vm_compute. split; reflexivity. Qed.

(* ... and an advertised id that does not fit 8 bits is silently replaced by another id *)
Theorem ext_ids_truncated_witness :
  outs_of (start false small_meta 40)
     [Connect 0; Recv 0 [MHandshake (hs_of None (Some 257%Z) None)]; Recv 0 [MExt 2 0 0]]
  = [OHs 0 true 5; OMeta 0 1 (MData 0 5 small_meta)].
Proof. vm_compute. reflexivity. Qed.

(* pex_exact: peer 0 (listen port 7000) leaves; the list becomes empty, the initial buffer is not
   regenerated; peer 2 enables ut_pex later and is told that 127.0.0.2:7000 is connected *)
Definition pex_witness : list op :=
  [Connect 0; Recv 0 [MHandshake (hs_of (Some 1%Z) (Some 3%Z) (Some 7000%Z))]; Tick;
   Close 0; Tick; Connect 2; Recv 2 [MHandshake (hs_of (Some 9%Z) None None)]; Tick].

Definition stale_added (d : dstate) (o : out) : bool :=
  match o with
  | OPex _ _ added _ => existsb (fun e => negb (existsb (fun c => (c_peer c =? fst e) && (c_listen c =? snd e)) (d_conns d))) added
  | _ => false
  end.

Theorem pex_exact_refuted :
  existsb (stale_added (final_state (start false small_meta 40) pex_witness))
          (outs_of (start false small_meta 40) pex_witness) = true.
Proof. vm_compute. reflexivity. Qed.

(* reads_resume: two ut_metadata requests in one segment: the second is dropped and the
   connection leaves the read set for good with nothing pending *)
Definition deaf (d : dstate) : bool := existsb (fun c => negb (c_in_read c)) (d_conns d).

Theorem reads_resume_refuted :
  deaf (final_state (start true small_meta 40)
          [Connect 0; Recv 0 [MHandshake (hs_of None (Some 3%Z) None)]; Recv 0 [MExt 2 0 0; MExt 2 0 0]]) = true /\
  (* later requests are never answered, and the peer is dropped by the 240 s read timeout *)
  outs_of (start true small_meta 40)
          [Connect 0; Recv 0 [MHandshake (hs_of None (Some 3%Z) None)]; Recv 0 [MExt 2 0 0; MExt 2 0 0];
           Recv 0 [MExt 2 0 0]; Tick; Tick; Tick]
  = [OHs 0 false 5; OMeta 0 3 (MData 0 5 [100; 49; 58; 120; 101]); OClosed 0].
Proof. vm_compute. split; reflexivity. Qed.

(* a connection only leaves the read set through that path: a request met a pending reply *)
Lemma run_batch_in_read : forall meta ms c sp pend c' sp' pend',
  run_batch meta c sp pend ms = BDone c' sp' pend' -> c_in_read c = true ->
  c_in_read c' = true \/ (exists r, pend' = Some r).
Proof.
  intros meta ms. induction ms as [|m rest IH]; intros c sp pend c' sp' pend' H Hr.
  - cbn in H. inversion H; subst. left; exact Hr.
  - cbn [run_batch] in H.
    assert (PH : forall h c1 sp1, parse_handshake (N.of_nat (length meta)) c sp h = inl (c1, sp1) -> c_in_read c1 = true).
    { intros h c1 sp1 E. unfold parse_handshake in E.
      destruct (hs_pex h); destruct (hs_meta h); cbn in E;
        repeat match type of E with context [if ?b then _ else _] => destruct b end;
        inversion E; subst; cbn; exact Hr. }
    destruct m as [h|e t p].
    + destruct (parse_handshake (N.of_nat (length meta)) c sp h) as [[c1 sp1]|[c1 sp1]] eqn:E; [|discriminate H].
      eapply IH; eauto.
    + destruct (3 <=? e); [discriminate H|].
      destruct (e =? 0).
      { destruct (parse_handshake (N.of_nat (length meta)) c sp empty_hs) as [[c1 sp1]|[c1 sp1]] eqn:E; [|discriminate H].
        eapply IH; eauto. }
      destruct (e =? 1); [eapply IH; eauto|].
      destruct (negb (c_le_meta c)); [eapply IH; eauto|].
      destruct (t =? 0)%Z; [|eapply IH; eauto].
      destruct pend as [r0|].
      * inversion H; subst. right. eexists; reflexivity.
      * eapply IH; eauto.
Qed.

(* one request at a time never suspends reads (what a patient peer sees) *)
Theorem single_request_keeps_reading : forall meta c sp e t p c' sp' pend',
  run_batch meta c sp None [MExt e t p] = BDone c' sp' pend' -> c_in_read c = true -> c_in_read c' = true.
Proof.
  intros meta c sp e t p c' sp' pend' H Hr. cbn [run_batch] in H.
  destruct (3 <=? e); [discriminate H|].
  destruct (e =? 0).
  { destruct (parse_handshake (N.of_nat (length meta)) c sp empty_hs) as [[c1 sp1]|[c1 sp1]] eqn:E; [|discriminate H].
    inversion H; subst. unfold parse_handshake in E. cbn in E.
    repeat match type of E with context [if ?b then _ else _] => destruct b end;
      inversion E; subst; cbn; exact Hr. }
  destruct (e =? 1); [inversion H; subst; exact Hr|].
  destruct (negb (c_le_meta c)); [inversion H; subst; exact Hr|].
  destruct (t =? 0)%Z; inversion H; subst; exact Hr.
Qed.

(* non-vacuity *)
Example ex_step_pex : exists d o d' outs i id a r, step d o = SOk d' outs /\ In (OPex i id a r) outs.
Proof.
  exists (final_state (start false small_meta 40) [Connect 0; Recv 0 [MHandshake (hs_of (Some 1%Z) (Some 3%Z) (Some 7000%Z))]]), Tick.
  eexists. eexists. exists 0, 1, [(0, 7000)], []. split; [vm_compute; reflexivity|]. left. reflexivity.
Qed.
Example ex_meta_reply : exists d i ms d' outs j id r, step d (Recv i ms) = SOk d' outs /\ In (OMeta j id r) outs.
Proof.
  exists (final_state (start false small_meta 40) [Connect 0]), 0, [MExt 2 0%Z 0%Z].
  eexists. eexists. exists 0, 0, (MData 0 5 small_meta). split; [vm_compute; reflexivity|]. left. reflexivity.
Qed.
Example ex_parse_handshake : exists ms c sp h c' sp', parse_handshake ms c sp h = inl (c', sp').
Proof. exists 5, (default_conn 0 true), 1, (hs_of (Some 1%Z) (Some 300%Z) None). eexists. eexists. vm_compute. reflexivity. Qed.
